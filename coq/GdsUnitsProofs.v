(* Proofs about GdsUnits.v (the floating-point unit arithmetic of read_gds / gds_units).
   1. gdsii_real_to_double never overflows or underflows: the result is +- round_NE(M) * 2^(4 e7 - 312)
      for the 56-bit mantissa M, i.e. the EXACT value of the pattern whenever M fits 53 bits (shifted).
   2. (b) gds_units returns bit for bit the unit / precision a native full load stores.
   3. (c) the coordinate map z |-> factor * (double)z is strictly monotone on int32.
   4. (a) loading with a target unit versus loading natively and rescaling: relative difference at most
      (6 * 2^-53 + 8 * 2^-106); equal when db_in_user is a power of two or all ratios are powers of two. *)
Require Import Base OasisInt GdsReal GdsRealProofs OasisReal OasisRealProofs OasisReal2Proofs GdsUnits.
From Coq Require Import Reals Lia Lra.
From Flocq Require Import Core BinarySingleNaN Binary Bits Relative Mult_error.
Local Open Scope Z_scope.

Local Instance prec53' : Prec_gt_0 53 := eq_refl.
Local Instance valid64' : Valid_exp (FLT_exp (-1074) 53) := FLT_exp_valid (-1074) 53.

(* ================================================================== generic facts *)
Lemma fmt64_bpow e : -1074 <= e -> fmt64 (bpow radix2 e).
Proof. intros He. apply generic_format_bpow. unfold FLT_exp. lia. Qed.

Lemma rnd64_id x : fmt64 x -> rnd64 x = x.
Proof. intros H. apply round_generic; [apply valid_rnd_N|exact H]. Qed.

(* rounding keeps power-of-two bounds *)
Lemma rnd64_abs_le x e : -1074 <= e -> (Rabs x <= bpow radix2 e)%R -> (Rabs (rnd64 x) <= bpow radix2 e)%R.
Proof.
  intros He Hx. apply abs_round_le_generic; [exact valid64'|apply valid_rnd_N|apply fmt64_bpow; exact He|exact Hx].
Qed.

Lemma rnd64_abs_ge x e : -1074 <= e -> (bpow radix2 e <= Rabs x)%R -> (bpow radix2 e <= Rabs (rnd64 x))%R.
Proof.
  intros He Hx. apply abs_round_ge_generic; [exact valid64'|apply valid_rnd_N|apply fmt64_bpow; exact He|exact Hx].
Qed.

Lemma no_overflow x : (Rabs x <= bpow radix2 1023)%R -> (Rabs (rnd64 x) < bpow radix2 1024)%R.
Proof.
  intros Hx. apply Rle_lt_trans with (bpow radix2 1023); [apply rnd64_abs_le; [lia|exact Hx]|apply bpow_lt; lia].
Qed.

(* one multiplication / one division, no overflow *)
Lemma b64_mult_ok x y :
  fin64 x = true -> fin64 y = true ->
  (Rabs (B2R64 x * B2R64 y) <= bpow radix2 1023)%R ->
  fin64 (b64_mult mode_NE x y) = true
  /\ B2R64 (b64_mult mode_NE x y) = rnd64 (B2R64 x * B2R64 y)
  /\ sign64 (b64_mult mode_NE x y) = xorb (sign64 x) (sign64 y).
Proof.
  intros Fx Fy Hb. unfold b64_mult.
  pose proof (Bmult_correct 53 1024 eq_refl eq_refl binop_nan_pl64 mode_NE x y) as H.
  rewrite fexp64_eq in H. change (round_mode mode_NE) with ZnearestE in H.
  rewrite Rlt_bool_true in H by (apply no_overflow; exact Hb).
  destruct H as (H1 & H2 & H3). rewrite Fx, Fy in H2. split; [exact H2|]. split; [exact H1|].
  apply H3. apply fin_not_nan. exact H2.
Qed.

Lemma b64_div_ok x y :
  fin64 x = true -> fin64 y = true -> B2R64 y <> 0%R ->
  (Rabs (B2R64 x / B2R64 y) <= bpow radix2 1023)%R ->
  fin64 (b64_div mode_NE x y) = true
  /\ B2R64 (b64_div mode_NE x y) = rnd64 (B2R64 x / B2R64 y)
  /\ sign64 (b64_div mode_NE x y) = xorb (sign64 x) (sign64 y).
Proof.
  intros Fx Fy Hy Hb. unfold b64_div.
  pose proof (Bdiv_correct 53 1024 eq_refl eq_refl binop_nan_pl64 mode_NE x y Hy) as H.
  rewrite fexp64_eq in H. change (round_mode mode_NE) with ZnearestE in H.
  rewrite Rlt_bool_true in H by (apply no_overflow; exact Hb).
  destruct H as (H1 & H2 & H3). rewrite Fx in H2. split; [exact H2|]. split; [exact H1|].
  apply H3. apply fin_not_nan. exact H2.
Qed.

(* (double)int for |z| < 2^53 is exact; the sign bit is the sign of z (+0 for 0) *)
Lemma b64_of_int_correct z :
  Z.abs z < 2 ^ 53 ->
  fin64 (b64_of_int z) = true /\ B2R64 (b64_of_int z) = IZR z /\ sign64 (b64_of_int z) = (z <? 0).
Proof.
  intros Hz. unfold b64_of_int.
  pose proof (binary_normalize_correct 53 1024 eq_refl eq_refl mode_NE z 0 false) as H.
  assert (HF : @F2R radix2 {| Fnum := z; Fexp := 0 |} = IZR z).
  { unfold F2R. cbn [Fnum Fexp bpow]. ring. }
  rewrite HF in H. rewrite fexp64_eq in H. change (round_mode mode_NE) with ZnearestE in H.
  rewrite (rnd64_small_int z Hz) in H.
  rewrite Rlt_bool_true in H.
  - destruct H as (H1 & H2 & H3). split; [exact H2|]. split; [exact H1|]. rewrite H3.
    destruct (Rcompare_spec (IZR z) 0) as [Hlt|Heq|Hgt].
    + apply lt_IZR in Hlt. symmetry. apply Z.ltb_lt. exact Hlt.
    + apply eq_IZR in Heq. subst z. reflexivity.
    + apply lt_IZR in Hgt. symmetry. apply Z.ltb_ge. lia.
  - rewrite <- abs_IZR. apply Rlt_trans with (IZR (2 ^ 53)); [apply IZR_lt; exact Hz|].
    change (2 ^ 53) with (Zpower radix2 53). rewrite IZR_Zpower by lia. apply bpow_lt. lia.
Qed.

(* exp2 of an integer in the double range *)
Lemma b64_exp2_correct k :
  -1074 <= k <= 1023 ->
  fin64 (b64_exp2 k) = true /\ B2R64 (b64_exp2 k) = bpow radix2 k /\ sign64 (b64_exp2 k) = false.
Proof.
  intros Hk. unfold b64_exp2.
  pose proof (binary_normalize_correct 53 1024 eq_refl eq_refl mode_NE 1 k false) as H.
  assert (HF : @F2R radix2 {| Fnum := 1; Fexp := k |} = bpow radix2 k).
  { unfold F2R. cbn [Fnum Fexp]. ring. }
  rewrite HF in H. rewrite fexp64_eq in H. change (round_mode mode_NE) with ZnearestE in H.
  rewrite (rnd64_id _ (fmt64_bpow k (proj1 Hk))) in H.
  rewrite Rlt_bool_true in H.
  - destruct H as (H1 & H2 & H3). split; [exact H2|]. split; [exact H1|]. rewrite H3.
    rewrite Rcompare_Gt; [reflexivity|apply bpow_gt_0].
  - rewrite Rabs_pos_eq by apply bpow_ge_0. apply bpow_lt. lia.
Qed.

Lemma b64_two56_correct : fin64 b64_two56 = true /\ B2R64 b64_two56 = bpow radix2 56 /\ sign64 b64_two56 = false.
Proof.
  assert (E : exists H, b64_two56 = B754_finite 53 1024 false 4503599627370496 4 H).
  { vm_compute. eexists. reflexivity. }
  destruct E as [H ->]. repeat split. cbn [B2R cond_Zopp]. unfold F2R. cbn [Fnum Fexp].
  change (IZR 4503599627370496) with (IZR (Zpower radix2 52)). rewrite IZR_Zpower by lia.
  rewrite <- bpow_plus. reflexivity.
Qed.

Lemma b64_two_correct : fin64 b64_two = true /\ B2R64 b64_two = 2%R /\ sign64 b64_two = false.
Proof.
  assert (E : exists H, b64_two = B754_finite 53 1024 false 4503599627370496 (-51) H).
  { vm_compute. eexists. reflexivity. }
  destruct E as [H ->]. repeat split. cbn [B2R cond_Zopp]. unfold F2R. cbn [Fnum Fexp].
  change (IZR 4503599627370496) with (IZR (Zpower radix2 52)). rewrite IZR_Zpower by lia.
  rewrite <- bpow_plus. reflexivity.
Qed.

(* a double times a power of two is a double, as long as the product stays in the normal range *)
Lemma fmt64_mult_bpow x e :
  fmt64 x -> (x = 0%R \/ (bpow radix2 (-1022) <= Rabs (x * bpow radix2 e))%R) -> fmt64 (x * bpow radix2 e).
Proof.
  intros Hx [->|Hb]; [rewrite Rmult_0_l; apply generic_format_0|].
  assert (Hx0 : x <> 0%R).
  { intros ->. rewrite Rmult_0_l, Rabs_R0 in Hb. pose proof (bpow_gt_0 radix2 (-1022)). lra. }
  apply mult_bpow_exact_FLT; [exact Hx|].
  assert (Hm : -1022 < mag radix2 (x * bpow radix2 e)) by (apply mag_gt_bpow; exact Hb).
  rewrite mag_mult_bpow in Hm by exact Hx0. lia.
Qed.

(* rounding commutes with a power-of-two scaling in the normal range *)
Lemma rnd64_mult_bpow x e :
  (bpow radix2 (-1022) <= Rabs x)%R -> (bpow radix2 (-1022) <= Rabs (x * bpow radix2 e))%R ->
  rnd64 (x * bpow radix2 e) = (rnd64 x * bpow radix2 e)%R.
Proof.
  intros Hx Hxe.
  assert (Hx0 : x <> 0%R).
  { intros ->. rewrite Rabs_R0 in Hx. pose proof (bpow_gt_0 radix2 (-1022)). lra. }
  rewrite (round_FLT_FLX radix2 (-1074) 53 ZnearestE x) by exact Hx.
  rewrite (round_FLT_FLX radix2 (-1074) 53 ZnearestE (x * bpow radix2 e)) by exact Hxe.
  unfold round, F2R, scaled_mantissa, cexp. cbn [Fnum Fexp].
  rewrite mag_mult_bpow by exact Hx0. unfold FLX_exp.
  replace (- (mag radix2 x + e - 53)) with (- e + - (mag radix2 x - 53)) by ring.
  rewrite bpow_plus. rewrite Rmult_assoc. rewrite <- (Rmult_assoc (bpow radix2 e)).
  rewrite <- bpow_plus. replace (e + - e) with 0 by ring. cbn [bpow]. rewrite Rmult_1_l.
  replace (mag radix2 x + e - 53) with ((mag radix2 x - 53) + e) by ring.
  rewrite bpow_plus. ring.
Qed.

(* relative error of one rounding (none at 0) *)
Definition u53 : R := bpow radix2 (-53).

Lemma rnd64_rel x :
  (x = 0%R \/ (bpow radix2 (-1022) <= Rabs x)%R) ->
  exists eps, (Rabs eps <= u53)%R /\ rnd64 x = (x * (1 + eps))%R.
Proof.
  intros [->|Hx].
  - exists 0%R. split; [rewrite Rabs_R0; apply bpow_ge_0|]. rewrite round_0 by apply valid_rnd_N. ring.
  - destruct (relative_error_N_FLT_ex radix2 (-1074) 53 eq_refl (fun t => negb (Z.even t)) x Hx) as (eps & He & Hr).
    exists eps. split; [|exact Hr].
    replace u53 with (/ 2 * bpow radix2 (- (53) + 1))%R; [exact He|].
    unfold u53. change (/ 2)%R with (bpow radix2 (-1)). rewrite <- bpow_plus. reflexivity.
Qed.

(* ================================================================== 1. gdsii_real_to_double *)
Definition gds_b64_of_fields (neg : bool) (M : N) (exponent : Z) : binary64 :=
  let mantissa := b64_div mode_NE (b64_of_uint M) b64_two56 in
  let result := b64_mult mode_NE mantissa (b64_exp2 exponent) in
  if neg then b64_opp result else result.

Lemma gds_real_to_b64_fields real :
  gds_real_to_b64 real = let '(neg, M, k) := gds_decode_dy real in gds_b64_of_fields neg M (k + 56).
Proof.
  unfold gds_real_to_b64, gds_decode_dy, gds_b64_of_fields. cbv zeta.
  replace (Z.of_N (N.shiftr (N.land real gds_exp_mask) 54) - 256 - 56 + 56)
    with (Z.of_N (N.shiftr (N.land real gds_exp_mask) 54) - 256) by ring.
  reflexivity.
Qed.

Lemma rnd64_uint56 M :
  (M < 2 ^ 56)%N ->
  let r := rnd64 (IZR (Z.of_N M)) in
  (0 <= r <= bpow radix2 56)%R /\ (r = 0%R \/ 1 <= r)%R.
Proof.
  intros HM r.
  assert (H0 : (0 <= IZR (Z.of_N M))%R) by (apply IZR_le; lia).
  assert (H56 : (IZR (Z.of_N M) <= bpow radix2 56)%R).
  { change (bpow radix2 56) with (IZR (Zpower radix2 56)) || rewrite <- (IZR_Zpower radix2) by lia.
    apply IZR_le. change (Zpower radix2 56) with 72057594037927936.
    change (2 ^ 56)%N with 72057594037927936%N in HM. lia. }
  split; [split|].
  - apply round_ge_generic; [exact valid64'|apply valid_rnd_N|apply generic_format_0|exact H0].
  - apply round_le_generic; [exact valid64'|apply valid_rnd_N|apply fmt64_bpow; lia|exact H56].
  - destruct (N.eq_dec M 0) as [->|Hnz].
    + left. unfold r. cbn [Z.of_N]. apply round_0. apply valid_rnd_N.
    + right. apply rnd64_uint_ge1. lia.
Qed.

Lemma gds_b64_of_fields_correct neg M e7 :
  (M < 2 ^ 56)%N -> (e7 < 128)%N ->
  let k := 4 * Z.of_N e7 - 256 - 56 in
  let d := gds_b64_of_fields neg M (k + 56) in
  fin64 d = true
  /\ B2R64 d = ((if neg then -1 else 1) * (rnd64 (IZR (Z.of_N M)) * bpow radix2 k))%R
  /\ sign64 d = neg.
Proof.
  intros HM He k d.
  assert (HM64 : (M < two64)%N).
  { unfold two64. change (2 ^ 56)%N with 72057594037927936%N in HM. lia. }
  destruct (b64_of_uint_correct M HM64) as (Fu & Ru & Su).
  destruct (rnd64_uint56 M HM) as ((Hr0 & Hr56) & Hr1). cbv zeta in Hr0, Hr56, Hr1.
  set (r := rnd64 (IZR (Z.of_N M))) in *.
  destruct b64_two56_correct as (F56 & R56 & S56).
  assert (Hk : -312 <= k <= 196) by (unfold k; lia).
  (* mantissa = r / 2^56, exactly *)
  assert (Hq : (B2R64 (b64_of_uint M) / B2R64 b64_two56 = r * bpow radix2 (-56))%R).
  { rewrite Ru, R56. unfold Rdiv. rewrite <- bpow_opp. reflexivity. }
  assert (Hrpos : forall e, (0 <= r * bpow radix2 e)%R).
  { intros e. apply Rmult_le_pos; [exact Hr0|apply bpow_ge_0]. }
  assert (Hrle : forall e, (r * bpow radix2 e <= bpow radix2 (56 + e))%R).
  { intros e. rewrite bpow_plus. apply Rmult_le_compat_r; [apply bpow_ge_0|exact Hr56]. }
  assert (Hrge : forall e, (1 <= r)%R -> (bpow radix2 e <= r * bpow radix2 e)%R).
  { intros e H1. rewrite <- (Rmult_1_l (bpow radix2 e)) at 1. apply Rmult_le_compat_r; [apply bpow_ge_0|exact H1]. }
  assert (Gr : fmt64 r) by (apply generic_format_round; [exact valid64'|apply valid_rnd_N]).
  assert (Gre : forall e, -1022 <= e -> fmt64 (r * bpow radix2 e)).
  { intros e He'. apply fmt64_mult_bpow; [exact Gr|]. destruct Hr1 as [H|H]; [left; exact H|right].
    rewrite Rabs_pos_eq by apply Hrpos. apply Rle_trans with (bpow radix2 e); [apply bpow_le; lia|apply Hrge; exact H]. }
  destruct (b64_div_ok (b64_of_uint M) b64_two56 Fu F56) as (Fm & Rm & Sm).
  { rewrite R56. apply Rgt_not_eq, bpow_gt_0. }
  { rewrite Hq, Rabs_pos_eq by apply Hrpos. apply Rle_trans with (1 := Hrle _). apply bpow_le. lia. }
  rewrite Hq, (rnd64_id _ (Gre (-56) ltac:(lia))) in Rm. rewrite Su, S56 in Sm. cbn [xorb] in Sm.
  destruct (b64_exp2_correct (k + 56) ltac:(lia)) as (Fe & Re & Se).
  set (mant := b64_div mode_NE (b64_of_uint M) b64_two56) in *.
  assert (Hp : (B2R64 mant * B2R64 (b64_exp2 (k + 56)) = r * bpow radix2 k)%R).
  { rewrite Rm, Re, Rmult_assoc, <- bpow_plus. f_equal. f_equal. lia. }
  destruct (b64_mult_ok mant (b64_exp2 (k + 56)) Fm Fe) as (Fp & Rp & Sp).
  { rewrite Hp, Rabs_pos_eq by apply Hrpos. apply Rle_trans with (1 := Hrle _). apply bpow_le. lia. }
  rewrite Hp, (rnd64_id _ (Gre k ltac:(lia))) in Rp. rewrite Sm, Se in Sp. cbn [xorb] in Sp.
  unfold d, gds_b64_of_fields. cbv zeta. fold mant.
  destruct neg.
  - unfold b64_opp. rewrite is_finite_Bopp, B2R_Bopp, Bsign_Bopp by (apply fin_not_nan; exact Fp).
    rewrite Fp, Rp, Sp. repeat split. ring.
  - rewrite Fp, Rp, Sp. repeat split. ring.
Qed.

(* gdsii_real_to_double on every 64-bit pattern: finite, the sign bit of the pattern, and the value
   +- round_NE(M) * 2^k for (neg, M, k) = gds_decode_dy (the fields of the exact GDSII value +- M * 2^k) *)
Theorem gds_real_to_b64_correct_lemma real :
  (real < 2 ^ 64)%N ->
  let '(neg, M, k) := gds_decode_dy real in
  let d := gds_real_to_b64 real in
  fin64 d = true
  /\ B2R64 d = ((if neg then -1 else 1) * (rnd64 (IZR (Z.of_N M)) * bpow radix2 k))%R
  /\ sign64 d = neg
  /\ (M < 2 ^ 56)%N /\ -312 <= k <= 196 /\ (k + 312) mod 4 = 0.
Proof.
  intros Hr. rewrite gds_real_to_b64_fields.
  destruct (decode_dy_fields real Hr) as (neg & e7 & M & He & HM & ->).
  destruct (gds_b64_of_fields_correct neg M e7 HM He) as (F & R & S).
  cbv zeta in *. repeat split; try assumption; try lia.
Qed.

(* a mantissa with at most 53 significant bits (m * 2^s, m < 2^53) is converted without rounding:
   the double IS the GDSII value *)
Lemma fmt64_shifted_int m s : (m < 2 ^ 53)%N -> fmt64 (IZR (Z.of_N (m * 2 ^ s))).
Proof.
  intros Hm. rewrite N2Z.inj_mul, N2Z.inj_pow, mult_IZR.
  change (Z.of_N 2) with (radix_val radix2). rewrite IZR_Zpower by lia.
  apply fmt64_mult_bpow.
  - apply fmt64_small_int. change (2 ^ 53)%N with 9007199254740992%N in Hm. change (2 ^ 53) with 9007199254740992. lia.
  - destruct (N.eq_dec m 0) as [->|Hnz]; [left; reflexivity|right].
    assert (H1 : (1 <= IZR (Z.of_N m))%R) by (apply IZR_le; lia).
    rewrite Rabs_pos_eq by (apply Rmult_le_pos; [lra|apply bpow_ge_0]).
    apply Rle_trans with (bpow radix2 (Z.of_N s)); [apply bpow_le; lia|].
    rewrite <- (Rmult_1_l (bpow radix2 (Z.of_N s))) at 1. apply Rmult_le_compat_r; [apply bpow_ge_0|exact H1].
Qed.

Theorem gds_real_to_b64_exact_lemma real :
  (real < 2 ^ 64)%N ->
  let '(neg, M, k) := gds_decode_dy real in
  (exists m s, (m < 2 ^ 53)%N /\ M = (m * 2 ^ s)%N) ->
  B2R64 (gds_real_to_b64 real) = ((if neg then -1 else 1) * (IZR (Z.of_N M) * bpow radix2 k))%R.
Proof.
  intros Hr. pose proof (gds_real_to_b64_correct_lemma real Hr) as H.
  destruct (gds_decode_dy real) as ((neg & M) & k). cbv zeta in H.
  intros (m & s & Hm & ->). destruct H as (_ & R & _). rewrite R.
  rewrite (rnd64_id _ (fmt64_shifted_int m s Hm)). reflexivity.
Qed.

(* a positive pattern (sign bit clear, mantissa not 0) is a double between 2^-312 and 2^252 *)
Lemma gds_real_to_b64_positive real :
  (real < 2 ^ 64)%N ->
  let '(neg, M, k) := gds_decode_dy real in
  neg = false -> M <> 0%N ->
  fin64 (gds_real_to_b64 real) = true /\ sign64 (gds_real_to_b64 real) = false
  /\ (bpow radix2 (-312) <= B2R64 (gds_real_to_b64 real) <= bpow radix2 252)%R.
Proof.
  intros Hr. pose proof (gds_real_to_b64_correct_lemma real Hr) as H.
  destruct (gds_decode_dy real) as ((neg & M) & k). cbv zeta in H.
  intros -> HM0. destruct H as (F & R & S & HM & Hk & _).
  split; [exact F|]. split; [exact S|]. rewrite R, Rmult_1_l.
  destruct (rnd64_uint56 M HM) as ((Hr0 & Hr56) & Hr1). cbv zeta in Hr0, Hr56, Hr1.
  destruct Hr1 as [Hz|H1].
  { exfalso. assert (0 < M)%N by lia. pose proof (rnd64_uint_ge1 M H). lra. }
  split.
  - apply Rle_trans with (bpow radix2 k); [apply bpow_le; lia|].
    rewrite <- (Rmult_1_l (bpow radix2 k)) at 1. apply Rmult_le_compat_r; [apply bpow_ge_0|exact H1].
  - apply Rle_trans with (bpow radix2 56 * bpow radix2 k)%R.
    + apply Rmult_le_compat_r; [apply bpow_ge_0|exact Hr56].
    + rewrite <- bpow_plus. apply bpow_le. lia.
Qed.

(* ================================================================== 2. (b) gds_units against the full load *)
(* Both readers compute the unit with ONE division db_in_meters / db_in_user of the same two converted reals
   and take db_in_meters as the precision: a native load (no target unit) stores bit for bit what gds_units
   returns; with a target unit the library's unit is the argument and the factor is precision / unit. *)
Theorem gds_units_agrees_lemma unit tol r0 r1 :
  let s := read_gds_units unit tol r0 r1 in
  let q := gds_units_model r0 r1 in
  us_precision s = snd q
  /\ (b64_gt0 unit = false -> us_unit s = fst q /\ us_factor s = gds_real_to_b64 r0)
  /\ (b64_gt0 unit = true -> us_unit s = unit /\ us_factor s = b64_div mode_NE (snd q) unit)
  /\ (b64_le0 tol = true -> us_tolerance s = b64_div mode_NE (us_precision s) (us_unit s))
  /\ (b64_le0 tol = false -> us_tolerance s = tol).
Proof.
  unfold read_gds_units, gds_units_model. cbv zeta. cbn [fst snd].
  destruct (b64_gt0 unit) eqn:Hu; destruct (b64_le0 tol) eqn:Ht; cbn [us_precision us_unit us_factor us_tolerance];
    repeat split; intros; try discriminate; reflexivity.
Qed.

(* the value: for positive patterns the unit is the correctly rounded quotient of the two doubles *)
Theorem gds_units_value_lemma r0 r1 :
  (r0 < 2 ^ 64)%N -> (r1 < 2 ^ 64)%N ->
  (let '(neg, M, _) := gds_decode_dy r0 in neg = false /\ M <> 0%N) ->
  (let '(neg, M, _) := gds_decode_dy r1 in neg = false /\ M <> 0%N) ->
  let '(unit, precision) := gds_units_model r0 r1 in
  precision = gds_real_to_b64 r1
  /\ fin64 unit = true /\ sign64 unit = false
  /\ B2R64 unit = rnd64 (B2R64 (gds_real_to_b64 r1) / B2R64 (gds_real_to_b64 r0)).
Proof.
  intros H0 H1 P0 P1.
  pose proof (gds_real_to_b64_positive r0 H0) as A0. pose proof (gds_real_to_b64_positive r1 H1) as A1.
  destruct (gds_decode_dy r0) as ((n0 & M0) & k0). destruct (gds_decode_dy r1) as ((n1 & M1) & k1).
  destruct P0 as (N0 & Z0). destruct P1 as (N1 & Z1).
  destruct (A0 N0 Z0) as (F0 & S0 & L0 & U0). destruct (A1 N1 Z1) as (F1 & S1 & L1 & U1).
  unfold gds_units_model. cbv zeta. split; [reflexivity|].
  pose proof (bpow_gt_0 radix2 (-312)) as Hpos.
  destruct (b64_div_ok (gds_real_to_b64 r1) (gds_real_to_b64 r0) F1 F0) as (F & R & S).
  - lra.
  - assert (Hq : (0 <= B2R64 (gds_real_to_b64 r1) / B2R64 (gds_real_to_b64 r0) <= bpow radix2 252 / bpow radix2 (-312))%R).
    { split.
      - apply Rmult_le_pos; [lra|]. apply Rlt_le, Rinv_0_lt_compat. lra.
      - unfold Rdiv. apply Rmult_le_compat; [lra|apply Rlt_le, Rinv_0_lt_compat; lra|exact U1|].
        apply Rinv_le_contravar; [exact Hpos|exact L0]. }
    rewrite Rabs_pos_eq by apply Hq. apply Rle_trans with (1 := proj2 Hq).
    unfold Rdiv. rewrite <- bpow_opp, <- bpow_plus. apply bpow_le. lia.
  - split; [exact F|]. split; [rewrite S, S1, S0; reflexivity|exact R].
Qed.

(* ================================================================== interval bookkeeping *)
Definition inb (l h : Z) (v : R) : Prop := (bpow radix2 l <= Rabs v <= bpow radix2 h)%R.

Lemma inb_mult l1 h1 l2 h2 a b : inb l1 h1 a -> inb l2 h2 b -> inb (l1 + l2) (h1 + h2) (a * b).
Proof.
  intros (A1 & A2) (B1 & B2). unfold inb. rewrite Rabs_mult, !bpow_plus.
  pose proof (bpow_ge_0 radix2 l1). pose proof (bpow_ge_0 radix2 l2).
  split; apply Rmult_le_compat; lra.
Qed.

Lemma inb_neq0 l h a : inb l h a -> a <> 0%R.
Proof. intros (A1 & _) ->. rewrite Rabs_R0 in A1. pose proof (bpow_gt_0 radix2 l). lra. Qed.

Lemma inb_inv l h a : inb l h a -> inb (- h) (- l) (/ a).
Proof.
  intros Ha. pose proof (inb_neq0 _ _ _ Ha) as H0. destruct Ha as (A1 & A2). unfold inb.
  rewrite Rabs_inv, !bpow_opp. pose proof (bpow_gt_0 radix2 l). pose proof (bpow_gt_0 radix2 h).
  split; apply Rinv_le_contravar; lra.
Qed.

Lemma inb_div l1 h1 l2 h2 a b : inb l1 h1 a -> inb l2 h2 b -> inb (l1 - h2) (h1 - l2) (a / b).
Proof. intros A B. apply (inb_mult l1 h1 (- h2) (- l2)); [exact A|apply inb_inv; exact B]. Qed.

Lemma inb_rnd l h x : -1074 <= l -> -1074 <= h -> inb l h x -> inb l h (rnd64 x).
Proof. intros Hl Hh (A1 & A2). split; [apply rnd64_abs_ge|apply rnd64_abs_le]; assumption. Qed.

Lemma inb_weaken l h l' h' x : l' <= l -> h <= h' -> inb l h x -> inb l' h' x.
Proof.
  intros Hl Hh (A1 & A2). split.
  - apply Rle_trans with (2 := A1). apply bpow_le. exact Hl.
  - apply Rle_trans with (1 := A2). apply bpow_le. exact Hh.
Qed.

Lemma inb_pos l h x : (bpow radix2 l <= x <= bpow radix2 h)%R -> inb l h x.
Proof. intros H. unfold inb. rewrite Rabs_pos_eq; [exact H|]. pose proof (bpow_ge_0 radix2 l). lra. Qed.

Lemma inb_int z : z <> 0 -> - 2 ^ 31 <= z <= 2 ^ 31 -> inb 0 31 (IZR z).
Proof.
  intros Hz Hr. unfold inb. rewrite <- abs_IZR. split.
  - change (bpow radix2 0) with (IZR 1). apply IZR_le. lia.
  - change (bpow radix2 31) with (IZR (Zpower radix2 31)) || rewrite <- (IZR_Zpower radix2) by lia.
    apply IZR_le. change (Zpower radix2 31) with 2147483648. change (2 ^ 31) with 2147483648 in Hr. lia.
Qed.

(* one rounding of a value in the normal range: relative error at most 2^-53, same bounds *)
Lemma rnd64_step l h x :
  -1022 <= l -> l <= h -> inb l h x ->
  inb l h (rnd64 x) /\ exists e, (Rabs e <= u53)%R /\ rnd64 x = (x * (1 + e))%R.
Proof.
  intros Hl Hh Hx. split; [apply inb_rnd; try lia; exact Hx|].
  apply rnd64_rel. right. apply Rle_trans with (2 := proj1 Hx). apply bpow_le. exact Hl.
Qed.

Lemma b64_mult_step x y l h :
  fin64 x = true -> fin64 y = true -> -1022 <= l -> l <= h -> h <= 1023 ->
  inb l h (B2R64 x * B2R64 y) ->
  fin64 (b64_mult mode_NE x y) = true
  /\ sign64 (b64_mult mode_NE x y) = xorb (sign64 x) (sign64 y)
  /\ inb l h (B2R64 (b64_mult mode_NE x y))
  /\ B2R64 (b64_mult mode_NE x y) = rnd64 (B2R64 x * B2R64 y)
  /\ exists e, (Rabs e <= u53)%R /\ B2R64 (b64_mult mode_NE x y) = (B2R64 x * B2R64 y * (1 + e))%R.
Proof.
  intros Fx Fy Hl Hlh Hh Hb.
  destruct (b64_mult_ok x y Fx Fy) as (F & R & S).
  { apply Rle_trans with (1 := proj2 Hb). apply bpow_le. exact Hh. }
  destruct (rnd64_step l h _ Hl Hlh Hb) as (B & e & He & Hr).
  split; [exact F|]. split; [exact S|]. split; [rewrite R; exact B|]. split; [exact R|]. rewrite R. exists e. split; assumption.
Qed.

Lemma b64_div_step x y l h :
  fin64 x = true -> fin64 y = true -> B2R64 y <> 0%R -> -1022 <= l -> l <= h -> h <= 1023 ->
  inb l h (B2R64 x / B2R64 y) ->
  fin64 (b64_div mode_NE x y) = true
  /\ sign64 (b64_div mode_NE x y) = xorb (sign64 x) (sign64 y)
  /\ inb l h (B2R64 (b64_div mode_NE x y))
  /\ B2R64 (b64_div mode_NE x y) = rnd64 (B2R64 x / B2R64 y)
  /\ exists e, (Rabs e <= u53)%R /\ B2R64 (b64_div mode_NE x y) = (B2R64 x / B2R64 y * (1 + e))%R.
Proof.
  intros Fx Fy Hy Hl Hlh Hh Hb.
  destruct (b64_div_ok x y Fx Fy Hy) as (F & R & S).
  { apply Rle_trans with (1 := proj2 Hb). apply bpow_le. exact Hh. }
  destruct (rnd64_step l h _ Hl Hlh Hb) as (B & e & He & Hr).
  split; [exact F|]. split; [exact S|]. split; [rewrite R; exact B|]. split; [exact R|]. rewrite R. exists e. split; assumption.
Qed.

(* ================================================================== 3. (c) the coordinate map *)
Lemma gds_coord_value f z :
  fin64 f = true -> (Rabs (B2R64 f) <= bpow radix2 992)%R -> - 2 ^ 31 <= z <= 2 ^ 31 ->
  fin64 (gds_coord f z) = true
  /\ B2R64 (gds_coord f z) = rnd64 (B2R64 f * IZR z)
  /\ sign64 (gds_coord f z) = xorb (sign64 f) (z <? 0).
Proof.
  intros Ff Hf Hz. unfold gds_coord.
  assert (Hz53 : Z.abs z < 2 ^ 53).
  { change (2 ^ 31) with 2147483648 in Hz. change (2 ^ 53) with 9007199254740992. lia. }
  destruct (b64_of_int_correct z Hz53) as (Fz & Rz & Sz).
  destruct (b64_mult_ok f (b64_of_int z) Ff Fz) as (F & R & S).
  - rewrite Rz, Rabs_mult. replace 1023 with (992 + 31) by reflexivity. rewrite bpow_plus.
    apply Rmult_le_compat; try apply Rabs_pos; [exact Hf|].
    rewrite <- abs_IZR. change (bpow radix2 31) with (IZR (Zpower radix2 31)) || rewrite <- (IZR_Zpower radix2) by lia.
    apply IZR_le. change (Zpower radix2 31) with 2147483648. change (2 ^ 31) with 2147483648 in Hz. lia.
  - rewrite Rz in R. rewrite Sz in S. repeat split; assumption.
Qed.

(* strictly monotone: distinct grid points never collapse and never swap (factor a normal positive double
   below 2^992, so that factor * 2^31 does not overflow) *)
Theorem gds_coord_monotone_lemma f z1 z2 :
  fin64 f = true -> (bpow radix2 (-1022) <= B2R64 f <= bpow radix2 992)%R ->
  - 2 ^ 31 <= z1 -> z1 < z2 -> z2 <= 2 ^ 31 ->
  fin64 (gds_coord f z1) = true /\ fin64 (gds_coord f z2) = true
  /\ (B2R64 (gds_coord f z1) < B2R64 (gds_coord f z2))%R
  /\ b64_compare (gds_coord f z1) (gds_coord f z2) = Some Lt.
Proof.
  intros Ff (Hlo & Hhi) H1 H12 H2.
  set (F := B2R64 f) in *.
  assert (HF : (0 < F)%R) by (pose proof (bpow_gt_0 radix2 (-1022)); lra).
  assert (Habs : (Rabs F <= bpow radix2 992)%R) by (rewrite Rabs_pos_eq; lra).
  destruct (gds_coord_value f z1 Ff Habs ltac:(lia)) as (F1 & R1 & _).
  destruct (gds_coord_value f z2 Ff Habs ltac:(lia)) as (F2 & R2 & _).
  fold F in R1, R2.
  assert (Hlt : (B2R64 (gds_coord f z1) < B2R64 (gds_coord f z2))%R).
  { assert (Hrel : forall z, - 2 ^ 31 <= z <= 2 ^ 31 ->
        exists e, (Rabs (F * IZR z * e) <= bpow radix2 (-22) * F)%R /\ rnd64 (F * IZR z) = (F * IZR z + F * IZR z * e)%R).
    { intros z Hz.
      assert (Hzb : (Rabs (IZR z) <= bpow radix2 31)%R).
      { rewrite <- abs_IZR. change (bpow radix2 31) with (IZR (Zpower radix2 31)) || rewrite <- (IZR_Zpower radix2) by lia.
        apply IZR_le. change (Zpower radix2 31) with 2147483648. change (2 ^ 31) with 2147483648 in Hz. lia. }
      destruct (rnd64_rel (F * IZR z)) as (e & He & Hr).
      { destruct (Z.eq_dec z 0) as [->|Hnz]; [left; ring|right].
        rewrite Rabs_mult, (Rabs_pos_eq F) by lra.
        apply Rle_trans with (F * 1)%R; [lra|]. apply Rmult_le_compat_l; [lra|].
        rewrite <- abs_IZR. apply IZR_le. lia. }
      exists e. split; [|rewrite Hr; ring].
      rewrite !Rabs_mult, (Rabs_pos_eq F) by lra.
      replace (bpow radix2 (-22) * F)%R with (F * bpow radix2 31 * u53)%R.
      - apply Rmult_le_compat; [apply Rmult_le_pos; [lra|apply Rabs_pos]|apply Rabs_pos| |exact He].
        apply Rmult_le_compat_l; [lra|exact Hzb].
      - unfold u53. rewrite Rmult_assoc, <- bpow_plus. change (31 + -53) with (-22). ring. }
    destruct (Hrel z1 ltac:(lia)) as (e1 & B1 & E1). destruct (Hrel z2 ltac:(lia)) as (e2 & B2 & E2).
    rewrite R1, R2, E1, E2.
    apply Rabs_le_inv in B1. apply Rabs_le_inv in B2.
    assert (Hgap : (F <= F * IZR z2 - F * IZR z1)%R).
    { rewrite <- Rmult_minus_distr_l. rewrite <- (Rmult_1_r F) at 1. apply Rmult_le_compat_l; [lra|].
      rewrite <- minus_IZR. apply IZR_le. lia. }
    assert (Hq : (bpow radix2 (-22) <= / 2 * / 2)%R).
    { change (/ 2)%R with (bpow radix2 (-1)). rewrite <- bpow_plus. apply bpow_le. lia. }
    assert (Hq' : (bpow radix2 (-22) * F <= / 2 * / 2 * F)%R) by (apply Rmult_le_compat_r; lra).
    lra. }
  repeat split; try assumption.
  unfold b64_compare. rewrite Bcompare_correct by assumption. rewrite Rcompare_Lt by exact Hlt. reflexivity.
Qed.

Corollary gds_coord_injective_lemma f z1 z2 :
  fin64 f = true -> (bpow radix2 (-1022) <= B2R64 f <= bpow radix2 992)%R ->
  - 2 ^ 31 <= z1 <= 2 ^ 31 -> - 2 ^ 31 <= z2 <= 2 ^ 31 ->
  gds_coord f z1 = gds_coord f z2 -> z1 = z2.
Proof.
  intros Ff Hf H1 H2 Heq.
  destruct (Z.lt_trichotomy z1 z2) as [Hlt|[->|Hgt]]; [exfalso| reflexivity |exfalso].
  - destruct (gds_coord_monotone_lemma f z1 z2 Ff Hf ltac:(lia) Hlt ltac:(lia)) as (_ & _ & H & _).
    rewrite Heq in H. lra.
  - destruct (gds_coord_monotone_lemma f z2 z1 Ff Hf ltac:(lia) Hgt ltac:(lia)) as (_ & _ & H & _).
    rewrite Heq in H. lra.
Qed.

(* ================================================================== 4. (a) target unit versus native load + rescaling *)
Lemma u53_bounds : (0 <= u53 <= / 8)%R.
Proof.
  unfold u53. split; [apply bpow_ge_0|].
  replace (/ 8)%R with (bpow radix2 (-1) * (bpow radix2 (-1) * bpow radix2 (-1)))%R.
  - rewrite <- !bpow_plus. apply bpow_le. lia.
  - change (bpow radix2 (-1)) with (/ 2)%R. lra.
Qed.

Lemma prod_err a b al be :
  (Rabs (a - 1) <= al)%R -> (Rabs (b - 1) <= be)%R -> (Rabs (a * b - 1) <= (1 + al) * (1 + be) - 1)%R.
Proof.
  intros Ha Hb. replace (a * b - 1)%R with ((a - 1) * (b - 1) + (a - 1) + (b - 1))%R by ring.
  pose proof (Rabs_triang ((a - 1) * (b - 1) + (a - 1)) (b - 1)) as T1.
  pose proof (Rabs_triang ((a - 1) * (b - 1)) (a - 1)) as T2.
  rewrite Rabs_mult in T2.
  pose proof (Rabs_pos (a - 1)) as Pa. pose proof (Rabs_pos (b - 1)) as Pb.
  assert (M : (Rabs (a - 1) * Rabs (b - 1) <= al * be)%R) by (apply Rmult_le_compat; assumption).
  lra.
Qed.

Lemma err1 e : (Rabs e <= u53)%R -> (Rabs ((1 + e) - 1) <= u53)%R.
Proof. intros H. replace (1 + e - 1)%R with e by ring. exact H. Qed.

Lemma pos_sign (x : binary64) : fin64 x = true -> (0 < B2R64 x)%R -> sign64 x = false.
Proof.
  destruct x as [s|s|s pl H|s m e H]; cbn [is_finite B2R Bsign]; try discriminate; intros _ Hp; [lra|].
  destruct s; [|reflexivity]. exfalso.
  assert (@F2R radix2 {| Fnum := cond_Zopp true (Z.pos m); Fexp := e |} < 0)%R by (apply F2R_lt_0; reflexivity). lra.
Qed.

(* du = db_in_user, dm = db_in_meters (GDSII reals: between 2^-312 and 2^252), unit = the target unit
   (between 2^-200 and 2^200: 6e-61 .. 1.6e60 metres), z any int32.
     direct : the coordinate read_gds produces when the target unit is given:  (dm / unit) * z
     resc   : the natively loaded coordinate du * z, multiplied by (library.unit / unit) with
              library.unit = dm / du
   Both are finite, have the sign of z, and differ by at most (6 u + 8 u^2) |x|, u = 2^-53, where
   x = dm z / unit is the exact value: less than 7 units in the last place. *)
Theorem rescale_close_lemma du dm unit z :
  fin64 du = true -> fin64 dm = true -> fin64 unit = true ->
  (bpow radix2 (-312) <= B2R64 du <= bpow radix2 252)%R ->
  (bpow radix2 (-312) <= B2R64 dm <= bpow radix2 252)%R ->
  (bpow radix2 (-200) <= B2R64 unit <= bpow radix2 200)%R ->
  - 2 ^ 31 <= z <= 2 ^ 31 ->
  let direct := gds_coord (b64_div mode_NE dm unit) z in
  let resc := rescale (rescale_factor (b64_div mode_NE dm du) unit) (gds_coord du z) in
  let x := (B2R64 dm * IZR z / B2R64 unit)%R in
  fin64 direct = true /\ fin64 resc = true
  /\ sign64 direct = (z <? 0) /\ sign64 resc = (z <? 0)
  /\ B2R64 direct = rnd64 (rnd64 (B2R64 dm / B2R64 unit) * IZR z)
  /\ B2R64 resc = rnd64 (rnd64 (B2R64 du * IZR z) * rnd64 (rnd64 (B2R64 dm / B2R64 du) / B2R64 unit))
  /\ (Rabs (B2R64 resc - B2R64 direct) <= (6 * u53 + 8 * (u53 * u53)) * Rabs x)%R.
Proof.
  intros Fdu Fdm Fun Bdu Bdm Bun Hz direct resc x.
  pose proof u53_bounds as (U0 & U8).
  pose proof (bpow_gt_0 radix2 (-312)) as P312. pose proof (bpow_gt_0 radix2 (-200)) as P200.
  set (DU := B2R64 du) in *. set (DM := B2R64 dm) in *. set (UN := B2R64 unit) in *.
  assert (Sdu : sign64 du = false) by (apply pos_sign; [exact Fdu|fold DU; lra]).
  assert (Sdm : sign64 dm = false) by (apply pos_sign; [exact Fdm|fold DM; lra]).
  assert (Sun : sign64 unit = false) by (apply pos_sign; [exact Fun|fold UN; lra]).
  assert (Idu : inb (-312) 252 DU) by (apply inb_pos; exact Bdu).
  assert (Idm : inb (-312) 252 DM) by (apply inb_pos; exact Bdm).
  assert (Iun : inb (-200) 200 UN) by (apply inb_pos; exact Bun).
  assert (Ndu : DU <> 0%R) by lra. assert (Nun : UN <> 0%R) by lra.
  (* f' = dm / unit *)
  destruct (b64_div_step dm unit (-512) 452 Fdm Fun Nun ltac:(lia) ltac:(lia) ltac:(lia)) as (Ff & Sf & If & Rf0 & a1 & A1 & Rf).
  { apply (inb_div (-312) 252 (-200) 200); assumption. }
  fold DM UN in Rf, Rf0, If. rewrite Sdm, Sun in Sf. cbn [xorb] in Sf.
  set (f' := b64_div mode_NE dm unit) in *.
  (* Un = dm / du, s = Un / unit *)
  destruct (b64_div_step dm du (-564) 564 Fdm Fdu Ndu ltac:(lia) ltac:(lia) ltac:(lia)) as (Fn & Sn & In & Rn0 & e2 & E2 & Rn).
  { apply (inb_div (-312) 252 (-312) 252); assumption. }
  fold DM DU in Rn, Rn0, In. rewrite Sdm, Sdu in Sn. cbn [xorb] in Sn.
  set (Un := b64_div mode_NE dm du) in *.
  destruct (b64_div_step Un unit (-764) 764 Fn Fun Nun ltac:(lia) ltac:(lia) ltac:(lia)) as (Fs & Ss & Is & Rs0 & e3 & E3 & Rs).
  { apply (inb_div (-564) 564 (-200) 200); assumption. }
  fold UN in Rs, Rs0, Is. rewrite Sn, Sun in Ss. cbn [xorb] in Ss.
  unfold rescale_factor in resc. set (s := b64_div mode_NE Un unit) in *.
  (* the two coordinate products *)
  assert (Hf992 : (Rabs (B2R64 f') <= bpow radix2 992)%R).
  { apply Rle_trans with (1 := proj2 If). apply bpow_le. lia. }
  assert (Hd992 : (Rabs DU <= bpow radix2 992)%R).
  { apply Rle_trans with (1 := proj2 Idu). apply bpow_le. lia. }
  destruct (gds_coord_value f' z Ff Hf992 Hz) as (Fd & Rd & Sd).
  destruct (gds_coord_value du z Fdu Hd992 Hz) as (Fc & Rc & Sc). fold DU in Rc.
  rewrite Sf in Sd. rewrite Sdu in Sc. rewrite xorb_false_l in Sd, Sc.
  fold direct in Fd, Rd, Sd. set (cn := gds_coord du z) in *.
  unfold rescale in resc.
  assert (Vd : B2R64 direct = rnd64 (rnd64 (DM / UN) * IZR z)) by (rewrite Rd, Rf0; reflexivity).
  assert (Vr : B2R64 resc = rnd64 (B2R64 cn * B2R64 s) ->
               B2R64 resc = rnd64 (rnd64 (DU * IZR z) * rnd64 (rnd64 (DM / DU) / UN))).
  { intros ->. rewrite Rc, Rs0, Rn0. reflexivity. }
  destruct (Z.eq_dec z 0) as [Hz0|Hz0].
  - (* z = 0: everything is +0 *)
    subst z. rewrite Rmult_0_r, round_0 in Rd, Rc by apply valid_rnd_N.
    destruct (b64_mult_ok cn s Fc Fs) as (Fr & Rr & Sr).
    { rewrite Rc, Rmult_0_l, Rabs_R0. apply bpow_ge_0. }
    fold resc in Fr, Rr, Sr. specialize (Vr Rr). rewrite Rc, Rmult_0_l, round_0 in Rr by apply valid_rnd_N.
    rewrite Sc, Ss in Sr. cbn [xorb] in Sr.
    repeat split; try assumption.
    rewrite Rr, Rd, Rminus_0_r, Rabs_R0. apply Rmult_le_pos; [|apply Rabs_pos].
    pose proof (Rmult_le_pos _ _ U0 U0). lra.
  - pose proof (inb_int z Hz0 Hz) as Iz.
    (* direct = rnd (f' * z) *)
    assert (Ifz : inb (-512) 483 (B2R64 f' * IZR z)).
    { apply (inb_mult (-512) 452 0 31); assumption. }
    destruct (rnd64_step (-512) 483 _ ltac:(lia) ltac:(lia) Ifz) as (_ & a2 & A2 & Rd2).
    rewrite Rd2, Rf in Rd.
    (* cn = rnd (du * z) *)
    assert (Icz : inb (-312) 283 (DU * IZR z)).
    { apply (inb_mult (-312) 252 0 31); assumption. }
    destruct (rnd64_step (-312) 283 _ ltac:(lia) ltac:(lia) Icz) as (_ & e1 & E1 & Rc2).
    rewrite Rc2 in Rc.
    (* the exact value and the product cn * s *)
    assert (Ix : inb (-512) 483 x).
    { unfold x. apply (inb_div (-312) 283 (-200) 200); [|exact Iun].
      apply (inb_mult (-312) 252 0 31); assumption. }
    set (P3 := ((1 + e1) * ((1 + e2) * (1 + e3)))%R).
    assert (Hcs : (B2R64 cn * B2R64 s = x * P3)%R).
    { rewrite Rc, Rs, Rn. unfold x, P3. field. split; assumption. }
    assert (H23 : (Rabs ((1 + e2) * (1 + e3) - 1) <= (1 + u53) * (1 + u53) - 1)%R).
    { apply prod_err; apply err1; assumption. }
    assert (HP3 : (Rabs (P3 - 1) <= (1 + u53) * (1 + ((1 + u53) * (1 + u53) - 1)) - 1)%R).
    { unfold P3. apply prod_err; [apply err1; exact E1|exact H23]. }
    assert (IP3 : inb (-1) 1 P3).
    { unfold inb. change (bpow radix2 (-1)) with (/ 2)%R. change (bpow radix2 1) with 2%R.
      assert (Hc : ((1 + u53) * (1 + ((1 + u53) * (1 + u53) - 1)) - 1 <= / 2)%R) by nra.
      apply Rabs_le_inv in HP3. rewrite Rabs_pos_eq by lra. lra. }
    assert (Ics : inb (-513) 484 (B2R64 cn * B2R64 s)).
    { rewrite Hcs. apply (inb_mult (-512) 483 (-1) 1); assumption. }
    destruct (b64_mult_step cn s (-513) 484 Fc Fs ltac:(lia) ltac:(lia) ltac:(lia) Ics) as (Fr & Sr & _ & Rr0 & e4 & E4 & Rr).
    fold resc in Fr, Sr, Rr, Rr0. rewrite Sc, Ss in Sr. rewrite xorb_false_r in Sr. specialize (Vr Rr0).
    split; [exact Fd|]. split; [exact Fr|]. split; [exact Sd|]. split; [exact Sr|]. split; [exact Vd|]. split; [exact Vr|].
    (* the algebra *)
    assert (Hdir : (B2R64 direct = x * ((1 + a1) * (1 + a2)))%R).
    { rewrite Rd. unfold x. field. exact Nun. }
    assert (Hres : (B2R64 resc = x * (P3 * (1 + e4)))%R).
    { rewrite Rr, Hcs. ring. }
    rewrite Hdir, Hres.
    replace (x * (P3 * (1 + e4)) - x * ((1 + a1) * (1 + a2)))%R
      with (x * ((P3 * (1 + e4) - 1) - ((1 + a1) * (1 + a2) - 1)))%R by ring.
    rewrite Rabs_mult, Rmult_comm. apply Rmult_le_compat_r; [apply Rabs_pos|].
    assert (H4 : (Rabs (P3 * (1 + e4) - 1) <= (1 + ((1 + u53) * (1 + ((1 + u53) * (1 + u53) - 1)) - 1)) * (1 + u53) - 1)%R).
    { apply prod_err; [exact HP3|apply err1; exact E4]. }
    assert (H2 : (Rabs ((1 + a1) * (1 + a2) - 1) <= (1 + u53) * (1 + u53) - 1)%R).
    { apply prod_err; apply err1; assumption. }
    pose proof (Rabs_triang (P3 * (1 + e4) - 1) (- ((1 + a1) * (1 + a2) - 1))) as T.
    rewrite Rabs_Ropp in T. unfold Rminus at 1.
    assert (Hnum : ((1 + ((1 + u53) * (1 + ((1 + u53) * (1 + u53) - 1)) - 1)) * (1 + u53) - 1 + ((1 + u53) * (1 + u53) - 1)
                    <= 6 * u53 + 8 * (u53 * u53))%R).
    { assert (Q : (0 <= u53 * u53)%R) by (apply Rmult_le_pos; assumption).
      assert (Q2 : (u53 * u53 * (4 * u53 + u53 * u53) <= u53 * u53 * 1)%R).
      { apply Rmult_le_compat_l; [exact Q|]. nra. }
      nra. }
    lra.
Qed.

(* in units in the last place of the exact value: fewer than 7 *)
Corollary rescale_close_ulp_lemma du dm unit z :
  fin64 du = true -> fin64 dm = true -> fin64 unit = true ->
  (bpow radix2 (-312) <= B2R64 du <= bpow radix2 252)%R ->
  (bpow radix2 (-312) <= B2R64 dm <= bpow radix2 252)%R ->
  (bpow radix2 (-200) <= B2R64 unit <= bpow radix2 200)%R ->
  - 2 ^ 31 <= z <= 2 ^ 31 ->
  let direct := gds_coord (b64_div mode_NE dm unit) z in
  let resc := rescale (rescale_factor (b64_div mode_NE dm du) unit) (gds_coord du z) in
  (Rabs (B2R64 resc - B2R64 direct)
   < 7 * ulp radix2 (FLT_exp (-1074) 53) (B2R64 dm * IZR z / B2R64 unit))%R.
Proof.
  intros Fdu Fdm Fun Bdu Bdm Bun Hz direct resc.
  destruct (rescale_close_lemma du dm unit z Fdu Fdm Fun Bdu Bdm Bun Hz) as (_ & _ & _ & _ & _ & _ & H).
  cbv zeta in H. fold direct resc in H.
  set (x := (B2R64 dm * IZR z / B2R64 unit)%R) in *.
  pose proof (ulp_FLT_gt radix2 (-1074) 53 x) as Hu. change (bpow radix2 (- (53))) with u53 in Hu.
  pose proof u53_bounds as (U0 & U8). pose proof (Rabs_pos x) as Px.
  assert (Q : (8 * (u53 * u53) <= u53)%R).
  { replace u53 with (1 * u53)%R at 3 by ring. rewrite <- Rmult_assoc. apply Rmult_le_compat_r; lra. }
  assert (Q2 : ((6 * u53 + 8 * (u53 * u53)) * Rabs x <= 7 * (Rabs x * u53))%R).
  { replace (7 * (Rabs x * u53))%R with ((7 * u53) * Rabs x)%R by ring. apply Rmult_le_compat_r; lra. }
  lra.
Qed.

(* EQUAL, case 1: db_in_user is a power of two (every scaling on the native path is then exact) *)
Theorem rescale_equal_pow2_user_lemma du dm unit z :
  fin64 du = true -> fin64 dm = true -> fin64 unit = true ->
  (bpow radix2 (-312) <= B2R64 du <= bpow radix2 252)%R ->
  (bpow radix2 (-312) <= B2R64 dm <= bpow radix2 252)%R ->
  (bpow radix2 (-200) <= B2R64 unit <= bpow radix2 200)%R ->
  - 2 ^ 31 <= z <= 2 ^ 31 ->
  (exists a, B2R64 du = bpow radix2 a) ->
  rescale (rescale_factor (b64_div mode_NE dm du) unit) (gds_coord du z) = gds_coord (b64_div mode_NE dm unit) z.
Proof.
  intros Fdu Fdm Fun Bdu Bdm Bun Hz (a & Ha).
  destruct (rescale_close_lemma du dm unit z Fdu Fdm Fun Bdu Bdm Bun Hz) as (Fd & Fr & Sd & Sr & Vd & Vr & _).
  cbv zeta in *.
  apply B2R_Bsign_inj; try assumption; [|congruence].
  rewrite Vd, Vr. clear Vd Vr Fd Fr Sd Sr.
  set (DM := B2R64 dm) in *. set (UN := B2R64 unit) in *. rewrite Ha in *.
  assert (Hal : -312 <= a <= 252) by (split; apply (le_bpow radix2); lra).
  pose proof (bpow_gt_0 radix2 (-312)) as P312. pose proof (bpow_gt_0 radix2 (-200)) as P200.
  assert (Idm : inb (-312) 252 DM) by (apply inb_pos; exact Bdm).
  assert (Iun : inb (-200) 200 UN) by (apply inb_pos; exact Bun).
  assert (Nun : UN <> 0%R) by lra.
  assert (Iq : inb (-512) 452 (DM / UN)) by (apply (inb_div (-312) 252 (-200) 200); assumption).
  (* du * z is exact *)
  assert (E1 : rnd64 (bpow radix2 a * IZR z) = (bpow radix2 a * IZR z)%R).
  { apply rnd64_id. rewrite Rmult_comm. apply fmt64_mult_bpow.
    - apply fmt64_small_int. change (2 ^ 31) with 2147483648 in Hz. change (2 ^ 53) with 9007199254740992. lia.
    - destruct (Z.eq_dec z 0) as [->|Hz0]; [left; reflexivity|right].
      pose proof (inb_int z Hz0 Hz) as Iz.
      assert (Ib : inb a a (bpow radix2 a)) by (apply inb_pos; lra).
      pose proof (inb_mult 0 31 a a _ _ Iz Ib) as (L & _).
      apply Rle_trans with (2 := L). apply bpow_le. lia. }
  (* dm / du is exact *)
  assert (E2 : rnd64 (DM / bpow radix2 a) = (DM * bpow radix2 (- a))%R).
  { unfold Rdiv. rewrite <- bpow_opp. apply rnd64_id. apply fmt64_mult_bpow; [apply fmt64_B2R|right].
    assert (Ib : inb (- a) (- a) (bpow radix2 (- a))) by (apply inb_pos; lra).
    pose proof (inb_mult _ _ _ _ _ _ Idm Ib) as (L & _).
    apply Rle_trans with (2 := L). apply bpow_le. lia. }
  (* the scale: rounding commutes with the power of two *)
  assert (E3 : rnd64 (DM * bpow radix2 (- a) / UN) = (rnd64 (DM / UN) * bpow radix2 (- a))%R).
  { replace (DM * bpow radix2 (- a) / UN)%R with (DM / UN * bpow radix2 (- a))%R by (field; exact Nun).
    apply rnd64_mult_bpow.
    - apply Rle_trans with (2 := proj1 Iq). apply bpow_le. lia.
    - assert (Ib : inb (- a) (- a) (bpow radix2 (- a))) by (apply inb_pos; lra).
      pose proof (inb_mult _ _ _ _ _ _ Iq Ib) as (L & _).
      apply Rle_trans with (2 := L). apply bpow_le. lia. }
  rewrite E1, E2, E3. f_equal.
  replace (bpow radix2 a * IZR z * (rnd64 (DM / UN) * bpow radix2 (- a)))%R
    with (rnd64 (DM / UN) * IZR z * (bpow radix2 a * bpow radix2 (- a)))%R by ring.
  rewrite <- bpow_plus. replace (a + - a) with 0 by ring. cbn [bpow]. ring.
Qed.

(* EQUAL, case 2: both ratios are powers of two (library.unit = dm / du = 2^a and library.unit / unit = 2^c) *)
Theorem rescale_equal_pow2_ratios_lemma du dm unit z :
  fin64 du = true -> fin64 dm = true -> fin64 unit = true ->
  (bpow radix2 (-312) <= B2R64 du <= bpow radix2 252)%R ->
  (bpow radix2 (-312) <= B2R64 dm <= bpow radix2 252)%R ->
  (bpow radix2 (-200) <= B2R64 unit <= bpow radix2 200)%R ->
  - 2 ^ 31 <= z <= 2 ^ 31 ->
  (exists a c, (B2R64 dm / B2R64 du = bpow radix2 a)%R /\ (bpow radix2 a / B2R64 unit = bpow radix2 c)%R) ->
  rescale (rescale_factor (b64_div mode_NE dm du) unit) (gds_coord du z) = gds_coord (b64_div mode_NE dm unit) z.
Proof.
  intros Fdu Fdm Fun Bdu Bdm Bun Hz (a & c & Ha & Hc).
  destruct (rescale_close_lemma du dm unit z Fdu Fdm Fun Bdu Bdm Bun Hz) as (Fd & Fr & Sd & Sr & Vd & Vr & _).
  cbv zeta in *.
  apply B2R_Bsign_inj; try assumption; [|congruence].
  rewrite Vd, Vr. clear Vd Vr Fd Fr Sd Sr.
  set (DU := B2R64 du) in *. set (DM := B2R64 dm) in *. set (UN := B2R64 unit) in *.
  pose proof (bpow_gt_0 radix2 (-312)) as P312. pose proof (bpow_gt_0 radix2 (-200)) as P200.
  assert (Idu : inb (-312) 252 DU) by (apply inb_pos; exact Bdu).
  assert (Idm : inb (-312) 252 DM) by (apply inb_pos; exact Bdm).
  assert (Iun : inb (-200) 200 UN) by (apply inb_pos; exact Bun).
  assert (Ndu : DU <> 0%R) by lra. assert (Nun : UN <> 0%R) by lra.
  assert (Ia : inb (-564) 564 (bpow radix2 a)) by (rewrite <- Ha; apply (inb_div (-312) 252 (-312) 252); assumption).
  assert (Hal : -564 <= a <= 564).
  { destruct Ia as (L & U). rewrite Rabs_pos_eq in L, U by apply bpow_ge_0. split; apply (le_bpow radix2); assumption. }
  assert (Iq : inb (-512) 452 (DM / UN)) by (apply (inb_div (-312) 252 (-200) 200); assumption).
  assert (Hq : (DM / UN = DU * bpow radix2 c)%R).
  { rewrite <- Hc, <- Ha. field. split; assumption. }
  rewrite Ha, (rnd64_id _ (fmt64_bpow a ltac:(lia))), Hc.
  assert (Ic : inb (-764) 764 (bpow radix2 c)) by (rewrite <- Hc; apply (inb_div (-564) 564 (-200) 200); assumption).
  assert (Hcl : -764 <= c <= 764).
  { destruct Ic as (L & U). rewrite Rabs_pos_eq in L, U by apply bpow_ge_0. split; apply (le_bpow radix2); assumption. }
  rewrite (rnd64_id _ (fmt64_bpow c ltac:(lia))).
  (* dm / unit = du * 2^c is a double *)
  assert (Gq : fmt64 (DM / UN)).
  { rewrite Hq. apply fmt64_mult_bpow; [apply fmt64_B2R|right]. rewrite <- Hq.
    apply Rle_trans with (2 := proj1 Iq). apply bpow_le. lia. }
  rewrite (rnd64_id _ Gq), Hq.
  destruct (Z.eq_dec z 0) as [->|Hz0].
  { rewrite !Rmult_0_r, (round_0 radix2 _ ZnearestE), Rmult_0_l, (round_0 radix2 _ ZnearestE). reflexivity. }
  pose proof (inb_int z Hz0 Hz) as Iz.
  assert (Icz : inb (-312) 283 (DU * IZR z)) by (apply (inb_mult (-312) 252 0 31); assumption).
  assert (Ixz : inb (-512) 483 (DU * IZR z * bpow radix2 c)).
  { replace (DU * IZR z * bpow radix2 c)%R with (DM / UN * IZR z)%R by (rewrite Hq; ring).
    apply (inb_mult (-512) 452 0 31); assumption. }
  replace (DU * bpow radix2 c * IZR z)%R with (DU * IZR z * bpow radix2 c)%R by ring.
  rewrite (rnd64_mult_bpow (DU * IZR z) c).
  - apply rnd64_id. apply fmt64_mult_bpow; [apply generic_format_round; [exact valid64'|apply valid_rnd_N]|right].
    rewrite <- (rnd64_mult_bpow (DU * IZR z) c).
    + apply Rle_trans with (bpow radix2 (-512)); [apply bpow_le; lia|].
      apply (inb_rnd (-512) 483); try lia. exact Ixz.
    + apply Rle_trans with (2 := proj1 Icz). apply bpow_le. lia.
    + apply Rle_trans with (2 := proj1 Ixz). apply bpow_le. lia.
  - apply Rle_trans with (2 := proj1 Icz). apply bpow_le. lia.
  - apply Rle_trans with (2 := proj1 Ixz). apply bpow_le. lia.
Qed.

(* ================================================================== the same, phrased on read_gds's own state *)
Lemma b64_gt0_pos (x : binary64) : fin64 x = true -> (0 < B2R64 x)%R -> b64_gt0 x = true.
Proof.
  intros Fx Hx. unfold b64_gt0, b64_compare, b64_zero.
  rewrite Bcompare_correct by (try exact Fx; reflexivity). cbn [B2R].
  rewrite Rcompare_Gt by exact Hx. reflexivity.
Qed.

Definition gds_positive (real : N) : Prop :=
  let '(neg, M, _) := gds_decode_dy real in neg = false /\ M <> 0%N.

(* real0 / real1: the two reals of the UNITS record (any positive patterns), unit: the target unit,
   tol: any tolerance argument.  sT = state of a load with the target unit, sN = state of a native load.
   The coordinate of the direct load and the natively loaded coordinate rescaled by
   library.unit(native) / library.unit(target) agree to (6 u + 8 u^2) relative to the exact value
   precision * z / unit, and are the same double when db_in_user is a power of two. *)
Theorem rescale_close_read_gds_lemma real0 real1 unit tol z :
  (real0 < 2 ^ 64)%N -> (real1 < 2 ^ 64)%N -> gds_positive real0 -> gds_positive real1 ->
  fin64 unit = true -> (bpow radix2 (-200) <= B2R64 unit <= bpow radix2 200)%R ->
  - 2 ^ 31 <= z <= 2 ^ 31 ->
  let sT := read_gds_units unit tol real0 real1 in
  let sN := read_gds_units b64_zero tol real0 real1 in
  let direct := gds_coord (us_factor sT) z in
  let resc := rescale (rescale_factor (us_unit sN) (us_unit sT)) (gds_coord (us_factor sN) z) in
  us_unit sT = unit /\ us_precision sT = us_precision sN
  /\ fin64 direct = true /\ fin64 resc = true
  /\ (Rabs (B2R64 resc - B2R64 direct)
      <= (6 * u53 + 8 * (u53 * u53)) * Rabs (B2R64 (us_precision sN) * IZR z / B2R64 unit))%R
  /\ ((exists a, B2R64 (us_factor sN) = bpow radix2 a) -> resc = direct).
Proof.
  intros H0 H1 P0 P1 Fun Bun Hz.
  pose proof (gds_real_to_b64_positive real0 H0) as A0. pose proof (gds_real_to_b64_positive real1 H1) as A1.
  unfold gds_positive in P0, P1.
  destruct (gds_decode_dy real0) as ((n0 & M0) & k0). destruct (gds_decode_dy real1) as ((n1 & M1) & k1).
  destruct P0 as (N0 & Z0). destruct P1 as (N1 & Z1).
  destruct (A0 N0 Z0) as (F0 & _ & B0). destruct (A1 N1 Z1) as (F1 & _ & B1).
  assert (Hgt : b64_gt0 unit = true).
  { apply b64_gt0_pos; [exact Fun|]. pose proof (bpow_gt_0 radix2 (-200)). lra. }
  unfold read_gds_units. rewrite Hgt. change (b64_gt0 b64_zero) with false. cbv zeta.
  cbn [us_factor us_unit us_precision].
  destruct (rescale_close_lemma (gds_real_to_b64 real0) (gds_real_to_b64 real1) unit z F0 F1 Fun B0 B1 Bun Hz)
    as (Fd & Fr & _ & _ & _ & _ & Hc).
  cbv zeta in Hc.
  split; [reflexivity|]. split; [reflexivity|]. split; [exact Fd|]. split; [exact Fr|]. split; [exact Hc|].
  intros Ha. apply rescale_equal_pow2_user_lemma; assumption.
Qed.

(* ================================================================== the hypotheses are satisfiable *)
(* the usual UNITS record 1e-3 / 1e-9 (patterns 3E4189374BC6A7EF, 3944B82FA09B5A54), target unit 2^-20 m,
   coordinate 123456789: all hypotheses of rescale_close_read_gds_lemma hold; by computation the direct and the
   rescaled coordinate for z = 123456810 are two units in the last place apart (so the two loads are NOT equal in general).
   With a power-of-two user unit (2^-10, pattern 3E40000000000000) the two are the same double. *)
Example rescale_hypotheses_satisfiable :
  (4486017574425241583 < 2 ^ 64)%N /\ (4126625673275726420 < 2 ^ 64)%N
  /\ gds_positive 4486017574425241583 /\ gds_positive 4126625673275726420
  /\ fin64 (b64_exp2 (-20)) = true
  /\ (bpow radix2 (-200) <= B2R64 (b64_exp2 (-20)) <= bpow radix2 200)%R
  /\ - 2 ^ 31 <= 123456789 <= 2 ^ 31.
Proof.
  destruct (b64_exp2_correct (-20) ltac:(lia)) as (F & R & _).
  split; [reflexivity|]. split; [reflexivity|].
  split; [vm_compute; split; [reflexivity|discriminate]|]. split; [vm_compute; split; [reflexivity|discriminate]|].
  split; [exact F|]. split; [rewrite R; split; apply bpow_le; lia|]. lia.
Qed.

Example rescale_witness_values :
  (let sT := read_gds_units (b64_exp2 (-20)) b64_zero 4486017574425241583 4126625673275726420 in
   let sN := read_gds_units b64_zero b64_zero 4486017574425241583 4126625673275726420 in
   Z.of_N (bits64 (gds_coord (us_factor sT) 123456810))
   - Z.of_N (bits64 (rescale (rescale_factor (us_unit sN) (us_unit sT)) (gds_coord (us_factor sN) 123456810))) = 2)
  /\ (let sT := read_gds_units (b64_exp2 (-20)) b64_zero 4485585228861014016 4126625673275726420 in
      let sN := read_gds_units b64_zero b64_zero 4485585228861014016 4126625673275726420 in
      bits64 (gds_coord (us_factor sT) 123456810)
      = bits64 (rescale (rescale_factor (us_unit sN) (us_unit sT)) (gds_coord (us_factor sN) 123456810))).
Proof. split; vm_compute; reflexivity. Qed.

Example gds_coord_hypotheses_satisfiable :
  let f := gds_real_to_b64 4486017574425241583 in
  fin64 f = true /\ (bpow radix2 (-1022) <= B2R64 f <= bpow radix2 992)%R.
Proof.
  pose proof (gds_real_to_b64_positive 4486017574425241583 eq_refl) as H.
  assert (E : gds_decode_dy 4486017574425241583 = (false, 18446744073709551%N, -64)) by (vm_compute; reflexivity).
  rewrite E in H. destruct (H eq_refl ltac:(discriminate)) as (F & _ & L & U).
  split; [exact F|]. split.
  - apply Rle_trans with (2 := L). apply bpow_le. lia.
  - apply Rle_trans with (1 := U). apply bpow_le. lia.
Qed.
