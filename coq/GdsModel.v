(* Gallina model of the GDSII reader `read_gds` (src/library.cpp), of `gds_info`, and of the GDSII
   writers (`Library::write_gds`, `Cell::to_gds`, `Polygon::to_gds`, `FlexPath::to_gds` for simple
   paths, `Reference::to_gds`, `Label::to_gds`, `properties_to_gds`), on the database grid:
   every coordinate is the 32-bit integer stored in the file (the C++ multiplies by `factor` when
   reading and by `scaling` with `lround` when writing; the harness compares on that grid).
   MAG / ANGLE are kept as the 8-byte real bit patterns of the file.

   Scope of the reader model: streams in which an element is closed by ENDEL before the next element
   starts (the C++ keeps four element pointers; with proper bracketing at most one is non-NULL, and
   the model keeps one optional open element).  Definitions only. *)
Require Import Base GdsFrame.
From Coq Require Import ZArith.
Local Open Scope N_scope.

Definition bytes := list N.

(* ------------------------------------------------------------------ byte views of a record *)
(* The reader byte-swaps the payload according to the DATA TYPE byte (not the record type), in
   place, on a little-endian host, and then reads int16 / int32 / uint64 items from that memory. *)
Fixpoint swap2 (l : bytes) : bytes :=
  match l with a :: b :: tl => b :: a :: swap2 tl | _ => l end.
Fixpoint swap4 (l : bytes) : bytes :=
  match l with a :: b :: c :: d :: tl => d :: c :: b :: a :: swap4 tl | _ => l end.
Fixpoint swap8 (l : bytes) : bytes :=
  match l with
  | a :: b :: c :: d :: e :: f :: g :: h :: tl => h :: g :: f :: e :: d :: c :: b :: a :: swap8 tl
  | _ => l
  end.
(* big_endian_swapNN over the complete items of the record; a trailing partial item is left alone *)
Definition swapped (dt : N) (l : bytes) : bytes :=
  match dt with
  | 1 | 2 => swap2 l
  | 3 | 4 => swap4 l
  | 5 => swap8 l
  | _ => l
  end.
Definition data_length (dt : N) (l : bytes) : nat :=
  match dt with
  | 1 | 2 => (length l / 2)%nat
  | 3 | 4 => (length l / 4)%nat
  | 5 => (length l / 8)%nat
  | _ => length l
  end.

Definition le_value (l : bytes) : N := fold_right (fun b acc => b + 256 * acc) 0 l.
Definition sign_ext (bits : N) (v : N) : Z :=
  if v <? 2 ^ (bits - 1) then Z.of_N v else (Z.of_N v - Z.of_N (2 ^ bits))%Z.
(* data16[i], data32[i], data64[i] of the swapped memory *)
Definition d16 (mem : bytes) (i : nat) : Z := sign_ext 16 (le_value (firstn 2 (skipn (2 * i) mem))).
Definition d32 (mem : bytes) (i : nat) : Z := sign_ext 32 (le_value (firstn 4 (skipn (4 * i) mem))).
Definition d64 (mem : bytes) (i : nat) : N := le_value (firstn 8 (skipn (8 * i) mem)).

(* `if (str[data_length - 1] == 0) data_length--;` then copy data_length bytes: the string *)
Definition strip_nul (l : bytes) : bytes :=
  match rev l with
  | 0 :: r => rev r
  | _ => l
  end.
(* a C string handed to strlen / copy_string: up to the first NUL *)
Fixpoint cstring (l : bytes) : bytes :=
  match l with
  | [] => []
  | 0 :: _ => []
  | b :: tl => b :: cstring tl
  end.

(* ------------------------------------------------------------------ abstract layout on the grid *)
Definition pt := (Z * Z)%type.
Definition gprops := list (N * bytes).        (* attribute, value (C string); newest first *)
Inductive endt := EFlush | ERound | EHalf | EExt.

Record gpoly := { p_layer : Z; p_type : Z; p_pts : list pt; p_props : gprops }.
Record gpath := { h_layer : Z; h_type : Z; h_end : endt; h_width : Z; h_scale_width : bool;
                  h_ext : Z * Z; h_pts : list pt; h_props : gprops }.
(* AREF lattice as stored: columns, rows, the two far corners; `regular` = the reader made it a
   Regular repetition (reflected or rotated reference), else Rectangular using x2 and y3 only *)
Record grep := { g_cols : Z; g_rows : Z; g_regular : bool; g_p2 : pt; g_p3 : pt }.
Record gref := { r_name : bytes; r_origin : pt; r_refl : bool; r_mag : N; r_rot : N;
                 r_rep : option grep; r_props : gprops }.
Record glabel := { l_layer : Z; l_type : Z; l_text : bytes; l_origin : pt; l_anchor : N;
                   l_refl : bool; l_mag : N; l_rot : N; l_props : gprops }.
Inductive gelem := EPoly (p : gpoly) | EPath (h : gpath) | ERef (r : gref) | ELabel (l : glabel).

Record gcell := { c_name : bytes; c_polys : list gpoly; c_paths : list gpath;
                  c_refs : list gref; c_labels : list glabel }.
Record glib := { g_name : bytes; g_units : N * N; g_cells : list gcell }.

Definition real_one : N := 4688247212092686336.   (* 0x4110000000000000 = 1.0 *)
Definition real_mantissa (r : N) : N := r mod 2 ^ 56.

Definition new_poly : gpoly := {| p_layer := 0; p_type := 0; p_pts := []; p_props := [] |}.
Definition new_path : gpath := {| h_layer := 0; h_type := 0; h_end := EFlush; h_width := 0;
  h_scale_width := false; h_ext := (0, 0)%Z; h_pts := []; h_props := [] |}.
Definition new_ref : gref := {| r_name := []; r_origin := (0, 0)%Z; r_refl := false; r_mag := real_one;
  r_rot := 0; r_rep := None; r_props := [] |}.
Definition new_label : glabel := {| l_layer := 0; l_type := 0; l_text := []; l_origin := (0, 0)%Z;
  l_anchor := 0; l_refl := false; l_mag := real_one; l_rot := 0; l_props := [] |}.

(* set_gds_property: overwrite the value of an existing attribute, else prepend *)
Fixpoint has_attr (ps : gprops) (a : N) : bool :=
  match ps with [] => false | (a', _) :: tl => (a' =? a) || has_attr tl a end.
Fixpoint set_attr (ps : gprops) (a : N) (v : bytes) : gprops :=
  match ps with
  | [] => []
  | (a', v') :: tl => if a' =? a then (a', v) :: tl else (a', v') :: set_attr tl a v
  end.
Definition set_gds_prop (ps : gprops) (a : N) (v : bytes) : gprops :=
  if has_attr ps a then set_attr ps a v else (a, v) :: ps.

(* ------------------------------------------------------------------ reader state *)
Record rstate := {
  s_name : bytes;
  s_units : N * N;
  s_done : list gcell;              (* cells appended to the library so far, oldest first *)
  s_cur : option (gcell * bool);    (* cell allocated at BGNSTR; true once STRNAME appended it *)
  s_open : option gelem;            (* element under construction *)
  s_width : Z;                      (* `width`: NOT reset between elements in the C++ *)
  s_key : N;                        (* `key`:   NOT reset between elements in the C++ *)
  s_path_started : bool             (* spine already has points (first XY seen) *)
}.
Definition init_state : rstate := {| s_name := []; s_units := (0, 0); s_done := []; s_cur := None;
  s_open := None; s_width := 0%Z; s_key := 0; s_path_started := false |}.

Definition empty_cell : gcell := {| c_name := []; c_polys := []; c_paths := []; c_refs := []; c_labels := [] |}.

Definition with_open (st : rstate) (o : option gelem) : rstate :=
  {| s_name := s_name st; s_units := s_units st; s_done := s_done st; s_cur := s_cur st; s_open := o;
     s_width := s_width st; s_key := s_key st; s_path_started := s_path_started st |}.
Definition with_cur (st : rstate) (c : option (gcell * bool)) : rstate :=
  {| s_name := s_name st; s_units := s_units st; s_done := s_done st; s_cur := c; s_open := s_open st;
     s_width := s_width st; s_key := s_key st; s_path_started := s_path_started st |}.

Definition with_name (st : rstate) (n : bytes) : rstate :=
  {| s_name := n; s_units := s_units st; s_done := s_done st; s_cur := s_cur st; s_open := s_open st;
     s_width := s_width st; s_key := s_key st; s_path_started := s_path_started st |}.
Definition with_units (st : rstate) (u : N * N) : rstate :=
  {| s_name := s_name st; s_units := u; s_done := s_done st; s_cur := s_cur st; s_open := s_open st;
     s_width := s_width st; s_key := s_key st; s_path_started := s_path_started st |}.
Definition with_done (st : rstate) (d : list gcell) : rstate :=
  {| s_name := s_name st; s_units := s_units st; s_done := d; s_cur := s_cur st; s_open := s_open st;
     s_width := s_width st; s_key := s_key st; s_path_started := s_path_started st |}.
Definition with_width (st : rstate) (w : Z) : rstate :=
  {| s_name := s_name st; s_units := s_units st; s_done := s_done st; s_cur := s_cur st; s_open := s_open st;
     s_width := w; s_key := s_key st; s_path_started := s_path_started st |}.
Definition with_key (st : rstate) (k : N) : rstate :=
  {| s_name := s_name st; s_units := s_units st; s_done := s_done st; s_cur := s_cur st; s_open := s_open st;
     s_width := s_width st; s_key := k; s_path_started := s_path_started st |}.
Definition with_started (st : rstate) (b : bool) : rstate :=
  {| s_name := s_name st; s_units := s_units st; s_done := s_done st; s_cur := s_cur st; s_open := s_open st;
     s_width := s_width st; s_key := s_key st; s_path_started := b |}.

(* the library as returned at ENDLIB: cells in order of their STRNAME records *)
Definition flush_cur (st : rstate) : list gcell :=
  match s_cur st with
  | Some (c, true) => s_done st ++ [c]
  | _ => s_done st
  end.

(* the XY copy loop walks the int32 items in order: two coordinates per point *)
Fixpoint points_of (mem : bytes) (n : nat) : list pt :=
  match n with
  | O => []
  | S k => (d32 mem 0, d32 mem 1) :: points_of (skipn 8 mem) k
  end.

Definition tag_in (tags : list (Z * Z)) (l t : Z) : bool :=
  existsb (fun '(a, b) => (a =? l)%Z && (b =? t)%Z) tags.

(* the tag filter of read_gds is a Set<Tag>; a Tag packs two uint32 halves, and the loader stores the sign-extended 16-bit
   LAYER / DATATYPE field in such a half (layer 0x8001 -> 4294934529): membership compares the 32-bit patterns *)
Definition u32 (z : Z) : Z := (z mod 4294967296)%Z.
Definition tag_sel (tags : list (Z * Z)) (l t : Z) : bool :=
  existsb (fun '(a, b) => (u32 a =? u32 l)%Z && (u32 b =? u32 t)%Z) tags.

Definition commit (filter : option (list (Z * Z))) (c : gcell) (e : gelem) : gcell :=
  match e with
  | EPoly p =>
      let keep := match filter with None => true | Some ts => tag_sel ts (p_layer p) (p_type p) end in
      if keep then {| c_name := c_name c; c_polys := c_polys c ++ [p]; c_paths := c_paths c;
                      c_refs := c_refs c; c_labels := c_labels c |} else c
  | EPath h =>
      let keep := match filter with None => true | Some ts => tag_sel ts (h_layer h) (h_type h) end in
      if keep then {| c_name := c_name c; c_polys := c_polys c; c_paths := c_paths c ++ [h];
                      c_refs := c_refs c; c_labels := c_labels c |} else c
  | ERef r => {| c_name := c_name c; c_polys := c_polys c; c_paths := c_paths c;
                 c_refs := c_refs c ++ [r]; c_labels := c_labels c |}
  | ELabel l => {| c_name := c_name c; c_polys := c_polys c; c_paths := c_paths c;
                   c_refs := c_refs c; c_labels := c_labels c ++ [l] |}
  end.

(* closing vertex: `if (pa[0] == pa[pa.count - 1]) pa.count--;` ; no vertex at all: out-of-bounds read *)
Definition drop_closing (pts : list pt) : option (list pt) :=
  match pts with
  | [] => None
  | p0 :: _ =>
      let lst := last pts p0 in
      if ((fst p0 =? fst lst)%Z && (snd p0 =? snd lst)%Z) then Some (removelast pts) else Some pts
  end.

Definition set_props (e : gelem) (a : N) (v : bytes) : gelem :=
  match e with
  | EPoly p => EPoly {| p_layer := p_layer p; p_type := p_type p; p_pts := p_pts p; p_props := set_gds_prop (p_props p) a v |}
  | EPath h => EPath {| h_layer := h_layer h; h_type := h_type h; h_end := h_end h; h_width := h_width h;
                        h_scale_width := h_scale_width h; h_ext := h_ext h; h_pts := h_pts h;
                        h_props := set_gds_prop (h_props h) a v |}
  | ERef r => ERef {| r_name := r_name r; r_origin := r_origin r; r_refl := r_refl r; r_mag := r_mag r; r_rot := r_rot r;
                      r_rep := r_rep r; r_props := set_gds_prop (r_props r) a v |}
  | ELabel l => ELabel {| l_layer := l_layer l; l_type := l_type l; l_text := l_text l; l_origin := l_origin l;
                          l_anchor := l_anchor l; l_refl := l_refl l; l_mag := l_mag l; l_rot := l_rot l;
                          l_props := set_gds_prop (l_props l) a v |}
  end.

(* result of one record: continue, or return the library (ENDLIB), or crash *)
Inductive sres := SCont (st : rstate) | SRet (l : glib) | SCrash.

(* the record `switch` of read_gds *)
Inductive rkind := KSkip | KLibname | KUnits | KEndlib | KBgnstr | KStrname | KBoundary | KPath | KRef | KText
  | KLayer | KDatatype | KWidth | KXY | KEndel | KSname | KColrow | KTexttype | KPresentation | KString | KStrans
  | KMag | KAngle | KPathtype | KPropattr | KPropvalue | KBgnextn | KEndextn | KOther.
Definition kind_of (rt : N) : rkind :=
  match rt with
  | 0 | 1 | 7 => KSkip       (* HEADER BGNLIB ENDSTR *)
  | 2 => KLibname | 3 => KUnits | 4 => KEndlib | 5 => KBgnstr | 6 => KStrname
  | 8 | 45 => KBoundary      (* BOUNDARY BOX *)
  | 9 | 90 => KPath          (* PATH RAITHMBMSPATH *)
  | 10 | 11 => KRef          (* SREF AREF *)
  | 12 => KText | 13 => KLayer
  | 14 | 46 => KDatatype     (* DATATYPE BOXTYPE *)
  | 15 => KWidth | 16 => KXY | 17 => KEndel | 18 => KSname | 19 => KColrow | 22 => KTexttype
  | 23 => KPresentation | 25 => KString | 26 => KStrans | 27 => KMag | 28 => KAngle | 33 => KPathtype
  | 43 => KPropattr | 44 => KPropvalue | 48 => KBgnextn | 49 => KEndextn
  | _ => KOther
  end.

Definition step_gds (filter : option (list (Z * Z))) (st : rstate) (r : grecord) : sres :=
  let mem := swapped (dtype r) (payload r) in
  let dl := data_length (dtype r) (payload r) in
  match kind_of (rtype r) with
  | KSkip => SCont st                                      (* HEADER BGNLIB ENDSTR *)
  | KLibname => SCont (with_name st (strip_nul (payload r)))
  | KUnits => SCont (with_units st (d64 mem 0, d64 mem 1))
  | KEndlib => SRet {| g_name := s_name st; g_units := s_units st; g_cells := flush_cur st |}      (* ENDLIB *)
  | KBgnstr => (* BGNSTR *)
      SCont (with_cur (with_done st (flush_cur st)) (Some (empty_cell, false)))
  | KStrname => (* STRNAME *)
      match s_cur st with
      | Some (c, _) =>
          SCont (with_cur st (Some ({| c_name := strip_nul (payload r); c_polys := c_polys c; c_paths := c_paths c;
                                       c_refs := c_refs c; c_labels := c_labels c |}, true)))
      | None => SCont st
      end
  | KBoundary => SCont (with_open st (Some (EPoly new_poly)))                     (* BOUNDARY BOX *)
  | KPath => SCont (with_started (with_width (with_open st (Some (EPath new_path))) 0%Z) false)                                  (* PATH RAITHMBMSPATH *)
  | KRef => SCont (with_open st (Some (ERef new_ref)))                      (* SREF AREF *)
  | KText => SCont (with_open st (Some (ELabel new_label)))                       (* TEXT *)
  | KLayer => (* LAYER *)
      match s_open st with
      | Some (EPoly p) => SCont (with_open st (Some (EPoly {| p_layer := d16 mem 0; p_type := p_type p; p_pts := p_pts p; p_props := p_props p |})))
      | Some (EPath h) => SCont (with_open st (Some (EPath {| h_layer := d16 mem 0; h_type := h_type h; h_end := h_end h; h_width := h_width h;
                               h_scale_width := h_scale_width h; h_ext := h_ext h; h_pts := h_pts h; h_props := h_props h |})))
      | Some (ELabel l) => SCont (with_open st (Some (ELabel {| l_layer := d16 mem 0; l_type := l_type l; l_text := l_text l; l_origin := l_origin l;
                               l_anchor := l_anchor l; l_refl := l_refl l; l_mag := l_mag l; l_rot := l_rot l; l_props := l_props l |})))
      | _ => SCont st
      end
  | KDatatype => (* DATATYPE BOXTYPE *)
      match s_open st with
      | Some (EPoly p) => SCont (with_open st (Some (EPoly {| p_layer := p_layer p; p_type := d16 mem 0; p_pts := p_pts p; p_props := p_props p |})))
      | Some (EPath h) => SCont (with_open st (Some (EPath {| h_layer := h_layer h; h_type := d16 mem 0; h_end := h_end h; h_width := h_width h;
                               h_scale_width := h_scale_width h; h_ext := h_ext h; h_pts := h_pts h; h_props := h_props h |})))
      | _ => SCont st
      end
  | KWidth => (* WIDTH *)
      let w := d32 mem 0 in
      let st' := with_width st (Z.abs w) in
      match s_open st with
      | Some (EPath h) => SCont (with_open st' (Some (EPath {| h_layer := h_layer h; h_type := h_type h; h_end := h_end h; h_width := h_width h;
                               h_scale_width := (0 <=? w)%Z; h_ext := h_ext h; h_pts := h_pts h; h_props := h_props h |})))
      | _ => SCont st'
      end
  | KXY => (* XY *)
      match s_open st with
      | Some (EPoly p) =>
          SCont (with_open st (Some (EPoly {| p_layer := p_layer p; p_type := p_type p;
                                              p_pts := p_pts p ++ points_of mem (dl / 2); p_props := p_props p |})))
      | Some (EPath h) =>
          (* the width recorded for the element is the value of `width` when the FIRST XY arrives *)
          let w := if s_path_started st then h_width h else s_width st in
          SCont (with_started (with_open st (Some (EPath {| h_layer := h_layer h; h_type := h_type h; h_end := h_end h; h_width := w;
                               h_scale_width := h_scale_width h; h_ext := h_ext h;
                               h_pts := h_pts h ++ points_of mem (dl / 2); h_props := h_props h |}))) true)
      | Some (ERef rf) =>
          let origin := (d32 mem 0, d32 mem 1) in
          let rep := match r_rep rf with
                     | None => None
                     | Some g =>
                         if (real_mantissa (r_rot rf) =? 0) && negb (r_refl rf) then
                           Some {| g_cols := g_cols g; g_rows := g_rows g; g_regular := false;
                                   g_p2 := (d32 mem 2, snd origin); g_p3 := (fst origin, d32 mem 5) |}
                         else
                           Some {| g_cols := g_cols g; g_rows := g_rows g; g_regular := true;
                                   g_p2 := (d32 mem 2, d32 mem 3); g_p3 := (d32 mem 4, d32 mem 5) |}
                     end in
          SCont (with_open st (Some (ERef {| r_name := r_name rf; r_origin := origin; r_refl := r_refl rf; r_mag := r_mag rf;
                                             r_rot := r_rot rf; r_rep := rep; r_props := r_props rf |})))
      | Some (ELabel l) =>
          SCont (with_open st (Some (ELabel {| l_layer := l_layer l; l_type := l_type l; l_text := l_text l;
                               l_origin := (d32 mem 0, d32 mem 1);
                               l_anchor := l_anchor l; l_refl := l_refl l; l_mag := l_mag l; l_rot := l_rot l; l_props := l_props l |})))
      | None => SCont st
      end
  | KEndel => (* ENDEL *)
      match s_open st with
      | None => SCont st
      | Some e =>
          let e' := match e with
                    | EPoly p => match drop_closing (p_pts p) with
                                 | None => None
                                 | Some pts => Some (EPoly {| p_layer := p_layer p; p_type := p_type p; p_pts := pts; p_props := p_props p |})
                                 end
                    | _ => Some e
                    end in
          match e' with
          | None => SCrash
          | Some e2 =>
              match s_cur st with
              | Some (c, named) => SCont (with_open (with_cur st (Some (commit filter c e2, named))) None)
              | None => SCont (with_open st None)
              end
          end
      end
  | KSname => (* SNAME *)
      match s_open st with
      | Some (ERef rf) => SCont (with_open st (Some (ERef {| r_name := strip_nul (payload r); r_origin := r_origin rf; r_refl := r_refl rf;
                               r_mag := r_mag rf; r_rot := r_rot rf; r_rep := r_rep rf; r_props := r_props rf |})))
      | _ => SCont st
      end
  | KColrow => (* COLROW *)
      match s_open st with
      | Some (ERef rf) => SCont (with_open st (Some (ERef {| r_name := r_name rf; r_origin := r_origin rf; r_refl := r_refl rf;
                               r_mag := r_mag rf; r_rot := r_rot rf;
                               r_rep := Some {| g_cols := d16 mem 0; g_rows := d16 mem 1; g_regular := false;
                                                g_p2 := (0, 0)%Z; g_p3 := (0, 0)%Z |};
                               r_props := r_props rf |})))
      | _ => SCont st
      end
  | KTexttype => (* TEXTTYPE *)
      match s_open st with
      | Some (ELabel l) => SCont (with_open st (Some (ELabel {| l_layer := l_layer l; l_type := d16 mem 0; l_text := l_text l; l_origin := l_origin l;
                               l_anchor := l_anchor l; l_refl := l_refl l; l_mag := l_mag l; l_rot := l_rot l; l_props := l_props l |})))
      | _ => SCont st
      end
  | KPresentation => (* PRESENTATION *)
      match s_open st with
      | Some (ELabel l) => SCont (with_open st (Some (ELabel {| l_layer := l_layer l; l_type := l_type l; l_text := l_text l; l_origin := l_origin l;
                               l_anchor := Z.to_N (d16 mem 0 mod 16); l_refl := l_refl l; l_mag := l_mag l; l_rot := l_rot l; l_props := l_props l |})))
      | _ => SCont st
      end
  | KString => (* STRING *)
      match s_open st with
      | Some (ELabel l) => SCont (with_open st (Some (ELabel {| l_layer := l_layer l; l_type := l_type l; l_text := strip_nul (payload r); l_origin := l_origin l;
                               l_anchor := l_anchor l; l_refl := l_refl l; l_mag := l_mag l; l_rot := l_rot l; l_props := l_props l |})))
      | _ => SCont st
      end
  | KStrans => (* STRANS *)
      let refl := (d16 mem 0 <? 0)%Z in
      match s_open st with
      | Some (ERef rf) => SCont (with_open st (Some (ERef {| r_name := r_name rf; r_origin := r_origin rf; r_refl := refl;
                               r_mag := r_mag rf; r_rot := r_rot rf; r_rep := r_rep rf; r_props := r_props rf |})))
      | Some (ELabel l) => SCont (with_open st (Some (ELabel {| l_layer := l_layer l; l_type := l_type l; l_text := l_text l; l_origin := l_origin l;
                               l_anchor := l_anchor l; l_refl := refl; l_mag := l_mag l; l_rot := l_rot l; l_props := l_props l |})))
      | _ => SCont st
      end
  | KMag => (* MAG *)
      match s_open st with
      | Some (ERef rf) => SCont (with_open st (Some (ERef {| r_name := r_name rf; r_origin := r_origin rf; r_refl := r_refl rf;
                               r_mag := d64 mem 0; r_rot := r_rot rf; r_rep := r_rep rf; r_props := r_props rf |})))
      | Some (ELabel l) => SCont (with_open st (Some (ELabel {| l_layer := l_layer l; l_type := l_type l; l_text := l_text l; l_origin := l_origin l;
                               l_anchor := l_anchor l; l_refl := l_refl l; l_mag := d64 mem 0; l_rot := l_rot l; l_props := l_props l |})))
      | _ => SCont st
      end
  | KAngle => (* ANGLE *)
      match s_open st with
      | Some (ERef rf) => SCont (with_open st (Some (ERef {| r_name := r_name rf; r_origin := r_origin rf; r_refl := r_refl rf;
                               r_mag := r_mag rf; r_rot := d64 mem 0; r_rep := r_rep rf; r_props := r_props rf |})))
      | Some (ELabel l) => SCont (with_open st (Some (ELabel {| l_layer := l_layer l; l_type := l_type l; l_text := l_text l; l_origin := l_origin l;
                               l_anchor := l_anchor l; l_refl := l_refl l; l_mag := l_mag l; l_rot := d64 mem 0; l_props := l_props l |})))
      | _ => SCont st
      end
  | KPathtype => (* PATHTYPE *)
      match s_open st with
      | Some (EPath h) =>
          let e := match d16 mem 0 with 0%Z => EFlush | 1%Z => ERound | 2%Z => EHalf | _ => EExt end in
          SCont (with_open st (Some (EPath {| h_layer := h_layer h; h_type := h_type h; h_end := e; h_width := h_width h;
                               h_scale_width := h_scale_width h; h_ext := h_ext h; h_pts := h_pts h; h_props := h_props h |})))
      | _ => SCont st
      end
  | KPropattr => (* PROPATTR *)
      SCont (with_key st (Z.to_N (d16 mem 0 mod 65536)))
  | KPropvalue => (* PROPVALUE *)
      match s_open st with
      | Some e => SCont (with_open st (Some (set_props e (s_key st) (cstring (payload r)))))
      | None => SCont st
      end
  | KBgnextn => (* BGNEXTN *)
      match s_open st with
      | Some (EPath h) => SCont (with_open st (Some (EPath {| h_layer := h_layer h; h_type := h_type h; h_end := h_end h; h_width := h_width h;
                               h_scale_width := h_scale_width h; h_ext := (d32 mem 0, snd (h_ext h)); h_pts := h_pts h; h_props := h_props h |})))
      | _ => SCont st
      end
  | KEndextn => (* ENDEXTN *)
      match s_open st with
      | Some (EPath h) => SCont (with_open st (Some (EPath {| h_layer := h_layer h; h_type := h_type h; h_end := h_end h; h_width := h_width h;
                               h_scale_width := h_scale_width h; h_ext := (fst (h_ext h), d32 mem 0); h_pts := h_pts h; h_props := h_props h |})))
      | _ => SCont st
      end
  | KOther => SCont st     (* unsupported records: warning only *)
  end.

(* plug into the generic reader loop; a crash of the step is a result of its own *)
Definition step_for_loop (filter : option (list (Z * Z))) (st : rstate) (r : grecord) : rstate + option glib :=
  match step_gds filter st r with
  | SCont st' => inl st'
  | SRet l => inr (Some l)
  | SCrash => inr None
  end.

Definition read_gds_model (filter : option (list (Z * Z))) (bs : bytes) : outcome glib :=
  match reader rstate (option glib) (step_for_loop filter) init_state bs with
  | Ok (Some l, _) => Ok l
  | Ok (None, _) => Crash
  | ErrEof => ErrEof | ErrInvalid => ErrInvalid | ErrOverflow => ErrOverflow | Crash => Crash | Hang => Hang
  end.

(* ------------------------------------------------------------------ gds_info *)
Record ginfo := { i_names : list bytes; i_units : N * N; i_polys : N; i_paths : N; i_refs : N; i_labels : N;
                  i_shape_tags : list (Z * Z); i_label_tags : list (Z * Z);   (* insertion order, no duplicates *)
                  i_layer : Z; i_next : N (* 0 none, 1 shape set, 2 label set *); i_inconsistent : bool }.
Definition init_info : ginfo := {| i_names := []; i_units := (0, 0); i_polys := 0; i_paths := 0; i_refs := 0; i_labels := 0;
  i_shape_tags := []; i_label_tags := []; i_layer := 0%Z; i_next := 0; i_inconsistent := false |}.
Definition add_tag (l : list (Z * Z)) (t : Z * Z) : list (Z * Z) :=
  if tag_in l (fst t) (snd t) then l else l ++ [t].

(* NOTE gds_info swaps only what it uses: LAYER / DATATYPE first int16 (big endian), UNITS as 8-byte reals *)
Definition be16 (l : bytes) : Z := sign_ext 16 (nth 0 l 0 * 256 + nth 1 l 0).
Definition step_info (i : ginfo) (r : grecord) : ginfo + ginfo :=
  let upd names units polys paths refs labels st lt layer next inc :=
    {| i_names := names; i_units := units; i_polys := polys; i_paths := paths; i_refs := refs; i_labels := labels;
       i_shape_tags := st; i_label_tags := lt; i_layer := layer; i_next := next; i_inconsistent := inc |} in
  match rtype r with
  | 4 => inr i
  | 6 => inl (upd (i_names i ++ [strip_nul (payload r)]) (i_units i) (i_polys i) (i_paths i) (i_refs i) (i_labels i)
                  (i_shape_tags i) (i_label_tags i) (i_layer i) (i_next i) (i_inconsistent i))
  | 3 => let mem := swap8 (payload r) in
         inl (upd (i_names i) (d64 mem 0, d64 mem 1) (i_polys i) (i_paths i) (i_refs i) (i_labels i)
                  (i_shape_tags i) (i_label_tags i) (i_layer i) (i_next i) (i_inconsistent i))
  | 8 | 45 => inl (upd (i_names i) (i_units i) (i_polys i + 1) (i_paths i) (i_refs i) (i_labels i)
                       (i_shape_tags i) (i_label_tags i) (i_layer i) 1 (i_inconsistent i))
  | 9 => inl (upd (i_names i) (i_units i) (i_polys i) (i_paths i + 1) (i_refs i) (i_labels i)
                  (i_shape_tags i) (i_label_tags i) (i_layer i) 1 (i_inconsistent i))
  | 10 | 11 => inl (upd (i_names i) (i_units i) (i_polys i) (i_paths i) (i_refs i + 1) (i_labels i)
                        (i_shape_tags i) (i_label_tags i) (i_layer i) 0 (i_inconsistent i))
  | 12 => inl (upd (i_names i) (i_units i) (i_polys i) (i_paths i) (i_refs i) (i_labels i + 1)
                   (i_shape_tags i) (i_label_tags i) (i_layer i) 2 (i_inconsistent i))
  | 13 => inl (upd (i_names i) (i_units i) (i_polys i) (i_paths i) (i_refs i) (i_labels i)
                   (i_shape_tags i) (i_label_tags i) (be16 (payload r)) (i_next i) (i_inconsistent i))
  | 14 | 46 | 22 =>
      let t := (i_layer i, be16 (payload r)) in
      match i_next i with
      | 1 => inl (upd (i_names i) (i_units i) (i_polys i) (i_paths i) (i_refs i) (i_labels i)
                      (add_tag (i_shape_tags i) t) (i_label_tags i) (i_layer i) 0 (i_inconsistent i))
      | 2 => inl (upd (i_names i) (i_units i) (i_polys i) (i_paths i) (i_refs i) (i_labels i)
                      (i_shape_tags i) (add_tag (i_label_tags i) t) (i_layer i) 0 (i_inconsistent i))
      | _ => inl (upd (i_names i) (i_units i) (i_polys i) (i_paths i) (i_refs i) (i_labels i)
                      (i_shape_tags i) (i_label_tags i) (i_layer i) 0 true)
      end
  | _ => inl i
  end.
Definition gds_info_model (bs : bytes) : outcome ginfo :=
  match reader ginfo ginfo step_info init_info bs with
  | Ok (i, _) => Ok i
  | ErrEof => ErrEof | ErrInvalid => ErrInvalid | ErrOverflow => ErrOverflow | Crash => Crash | Hang => Hang
  end.

(* ------------------------------------------------------------------ helpers for the dumps *)
(* llround(value * 2^20) of an 8-byte real: value = (-1)^s * m * 16^(e-64) / 2^56 *)
Definition real_scaled (r : N) : Z :=
  let neg := 9223372036854775808 <=? r in
  let e := (r / 72057594037927936) mod 128 in
  let m := Z.of_N (r mod 72057594037927936) in
  let k := (4 * Z.of_N e - 292)%Z in
  let mag := if (0 <=? k)%Z then (m * 2 ^ k)%Z else (let d := (2 ^ (- k))%Z in (2 * m + d) / (2 * d))%Z in
  if neg then (- mag)%Z else mag.

(* gds_timestamp in rewrite mode: the 24 bytes after the header of every 28-byte BGNLIB / BGNSTR record
   up to ENDLIB are replaced; everything else is copied *)
Fixpoint rewrite_ts (fuel : nat) (new24 : bytes) (bs : bytes) : bytes :=
  match fuel with
  | O => bs
  | S f =>
      match next_record bs with
      | Ok (r, rest) =>
          let hdr := firstn 4 bs in
          if rtype r =? 4 then bs
          else if ((rtype r =? 1) || (rtype r =? 5)) && (rec_len r =? 28) then hdr ++ new24 ++ rewrite_ts f new24 rest
          else if ((rtype r =? 1) || (rtype r =? 5)) then bs     (* InvalidFile: stops *)
          else hdr ++ payload r ++ rewrite_ts f new24 rest
      | _ => bs
      end
  end.
