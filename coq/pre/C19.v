(* tie (generated): the literals the model was written with are the ones in today's source *)
Theorem c19_source_constants :
  (oas_ru_mask, oas_ru_cont, oas_ru_first_bits, oas_ru_limit_bits, oas_ru_limit_byte, oas_ru_step,
   oas_ri_first_bits, oas_ri_guard_bits, oas_ri_shift_base, oas_ri_step,
   oas_wu_mask, oas_wu_shift, oas_wu_cont) =
  (127, 128, 7, 63, 1, 7,   7, 56, 63, 7,   127, 7, 128)
  /\ (OasisDirection_E, OasisDirection_N, OasisDirection_W, OasisDirection_S,
      OasisDirection_NE, OasisDirection_NW, OasisDirection_SW, OasisDirection_SE) = (0, 1, 2, 3, 4, 5, 6, 7)
  /\ (OasisPointList_ManhattanHorizontalFirst, OasisPointList_ManhattanVerticalFirst, OasisPointList_Manhattan,
      OasisPointList_Octangular, OasisPointList_General, OasisPointList_Relative) = (0, 1, 2, 3, 4, 5)
  /\ (OasisDataType_RealPositiveInteger, OasisDataType_RealNegativeInteger, OasisDataType_RealPositiveReciprocal,
      OasisDataType_RealNegativeReciprocal, OasisDataType_RealPositiveRatio, OasisDataType_RealNegativeRatio,
      OasisDataType_RealFloat, OasisDataType_RealDouble) = (0, 1, 2, 3, 4, 5, 6, 7).
Proof. repeat split; reflexivity. Qed.
Print Assumptions c19_source_constants.

(* every unsigned 64-bit integer survives encode;decode, whatever follows in the stream *)
Theorem uint_roundtrip : forall v rest, v < two64 -> dec_uint (enc_uint v ++ rest) = Ok (v, rest).
Proof. exact uint_roundtrip_lemma. Qed.
Print Assumptions uint_roundtrip.

(* the writer's output is a legal encoding of at most 10 bytes *)
Theorem enc_uint_conforms : forall v, v < two64 -> enc_ok_uint (enc_uint v) v /\ (length (enc_uint v) <= 10)%nat.
Proof. exact enc_uint_conforms_lemma. Qed.
Print Assumptions enc_uint_conforms.

(* every alternative legal encoding (non-minimal lengths) up to 10 bytes is accepted *)
Theorem uint_accepts_nonminimal : forall bs n rest,
  enc_ok_uint bs n -> (length bs <= 10)%nat -> n < two64 -> dec_uint (bs ++ rest) = Ok (n, rest).
Proof. exact uint_accepts_nonminimal_lemma. Qed.
Print Assumptions uint_accepts_nonminimal.

(* values beyond 64 bits are flagged, never wrapped *)
Theorem uint_overflow_flagged : forall bs n rest,
  enc_ok_uint bs n -> two64 <= n -> dec_uint (bs ++ rest) = ErrOverflow.
Proof. exact uint_overflow_flagged_lemma. Qed.
Print Assumptions uint_overflow_flagged.

(* packed integers with 1..4 flag bits: every magnitude below 2^63, every flag pattern *)
Theorem int_internal_roundtrip : forall v nb bits rest,
  1 <= nb <= 4 -> bits < 2 ^ nb -> v < two63 ->
  dec_int_internal nb (enc_int_internal v nb bits ++ rest) = Ok (v, bits, rest).
Proof. exact int_internal_roundtrip_lemma. Qed.
Print Assumptions int_internal_roundtrip.

Theorem int_roundtrip : forall z rest, fits63 z -> dec_int (enc_int z ++ rest) = Ok (z, rest).
Proof. exact int_roundtrip_lemma. Qed.
Print Assumptions int_roundtrip.

Theorem delta2_roundtrip : forall x y rest, fits63 x -> fits63 y -> (x = 0 \/ y = 0)%Z ->
  dec_2delta (enc_2delta x y ++ rest) = Ok (x, y, rest).
Proof. exact delta2_roundtrip_lemma. Qed.
Print Assumptions delta2_roundtrip.

Theorem delta3_roundtrip : forall x y rest, fits63 x -> fits63 y -> octangular x y ->
  dec_3delta (enc_3delta x y ++ rest) = Ok (x, y, rest).
Proof. exact delta3_roundtrip_lemma. Qed.
Print Assumptions delta3_roundtrip.

Theorem gdelta_roundtrip : forall x y rest, fits63 x -> fits63 y ->
  dec_gdelta (enc_gdelta x y ++ rest) = Ok (x, y, rest).
Proof. exact gdelta_roundtrip_lemma. Qed.
Print Assumptions gdelta_roundtrip.

(* the executable specification oracle used by the correspondence is the relation enc_ok_uint *)
Theorem spec_oracle_is_relation : forall bs n, enc_ok_uint bs n -> forall rest, spec_uint_value (bs ++ rest) = Some (n, rest).
Proof. exact spec_uint_value_ok. Qed.
Print Assumptions spec_oracle_is_relation.

Theorem spec_oracle_sound : forall bs, Forall (fun b => b < 256) bs -> forall n rest,
  spec_uint_value bs = Some (n, rest) -> exists pre, bs = pre ++ rest /\ enc_ok_uint pre n.
Proof. exact spec_uint_value_sound. Qed.
Print Assumptions spec_oracle_sound.

(* non-vacuity: the hypotheses are met by non-trivial values *)
Example c19_nonvacuous :
  dec_uint (enc_uint 18446744073709551615 ++ [7]) = Ok (18446744073709551615, [7])
  /\ enc_ok_uint [129; 128; 0] 1
  /\ dec_gdelta (enc_gdelta (-300) 70000 ++ []) = Ok ((-300)%Z, 70000%Z, []).
Proof. split; [vm_compute; reflexivity|split; [|vm_compute; reflexivity]].
  change 1 with ((129 - 128) + 128 * ((128 - 128) + 128 * 0)).
  constructor; [lia|]. constructor; [lia|]. constructor. lia. Qed.
