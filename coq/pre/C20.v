(* tie (generated): the tuning constants of today's utils.hpp satisfy the side condition of the table
   theorems, the insertion-sort threshold is the one in sort.hpp, and remove_property carries the
   guard that the fixed model (remove_property_fixed) mirrors *)
Theorem c20_source_constants :
  params_ok P_INITIAL P_GROWTH P_THRESHOLD /\ sort_insertion_threshold = 16%N /\ remove_property_guard = true
  /\ (HASH_FNV_PRIME, HASH_FNV_OFFSET) = (1099511628211, 14695981039346656037)%N.
Proof. split; [exact current_constants_ok|]. repeat split; reflexivity. Qed.
Print Assumptions c20_source_constants.
