(* tie (generated): the record codes of today's gdsii.hpp are the ones the model's switch uses *)
Theorem c01_source_constants :
  map kind_of [GdsiiRecord_HEADER; GdsiiRecord_BGNLIB; GdsiiRecord_LIBNAME; GdsiiRecord_UNITS; GdsiiRecord_ENDLIB;
               GdsiiRecord_BGNSTR; GdsiiRecord_STRNAME; GdsiiRecord_ENDSTR; GdsiiRecord_BOUNDARY; GdsiiRecord_PATH;
               GdsiiRecord_SREF; GdsiiRecord_AREF; GdsiiRecord_TEXT; GdsiiRecord_LAYER; GdsiiRecord_DATATYPE;
               GdsiiRecord_WIDTH; GdsiiRecord_XY; GdsiiRecord_ENDEL; GdsiiRecord_SNAME; GdsiiRecord_COLROW;
               GdsiiRecord_TEXTTYPE; GdsiiRecord_PRESENTATION; GdsiiRecord_STRING; GdsiiRecord_STRANS; GdsiiRecord_MAG;
               GdsiiRecord_ANGLE; GdsiiRecord_PATHTYPE; GdsiiRecord_PROPATTR; GdsiiRecord_PROPVALUE; GdsiiRecord_BOX;
               GdsiiRecord_BOXTYPE; GdsiiRecord_BGNEXTN; GdsiiRecord_ENDEXTN; GdsiiRecord_RAITHMBMSPATH]
  = [KSkip; KSkip; KLibname; KUnits; KEndlib; KBgnstr; KStrname; KSkip; KBoundary; KPath; KRef; KRef; KText; KLayer;
     KDatatype; KWidth; KXY; KEndel; KSname; KColrow; KTexttype; KPresentation; KString; KStrans; KMag; KAngle;
     KPathtype; KPropattr; KPropvalue; KBoundary; KDatatype; KBgnextn; KEndextn; KPath]
  /\ (GdsiiDataType_NoData, GdsiiDataType_BitArray, GdsiiDataType_TwoByteSignedInteger, GdsiiDataType_FourByteSignedInteger,
      GdsiiDataType_FourByteReal, GdsiiDataType_EightByteReal, GdsiiDataType_AsciiString) = (0, 1, 2, 3, 4, 5, 6).
Proof. split; reflexivity. Qed.
Print Assumptions c01_source_constants.
