Theorem c03_source_constants :
  map kind_of [GdsiiRecord_BOUNDARY; GdsiiRecord_BOX; GdsiiRecord_PATH; GdsiiRecord_SREF; GdsiiRecord_AREF; GdsiiRecord_TEXT;
               GdsiiRecord_XY; GdsiiRecord_ENDEL; GdsiiRecord_ELFLAGS; GdsiiRecord_PLEX; GdsiiRecord_STRANS; GdsiiRecord_MAG;
               GdsiiRecord_ANGLE; GdsiiRecord_COLROW; GdsiiRecord_PRESENTATION; GdsiiRecord_PATHTYPE; GdsiiRecord_BGNEXTN;
               GdsiiRecord_ENDEXTN; GdsiiRecord_PROPATTR; GdsiiRecord_PROPVALUE]
  = [KBoundary; KBoundary; KPath; KRef; KRef; KText; KXY; KEndel; KOther; KOther; KStrans; KMag; KAngle; KColrow;
     KPresentation; KPathtype; KBgnextn; KEndextn; KPropattr; KPropvalue].
Proof. reflexivity. Qed.
Print Assumptions c03_source_constants.
