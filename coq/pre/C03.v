Theorem c03_source_constants :
  map kind_of [GdsiiRecord_BOUNDARY; GdsiiRecord_BOX; GdsiiRecord_PATH; GdsiiRecord_SREF; GdsiiRecord_AREF; GdsiiRecord_TEXT;
               GdsiiRecord_XY; GdsiiRecord_ENDEL; GdsiiRecord_ELFLAGS; GdsiiRecord_PLEX; GdsiiRecord_STRANS; GdsiiRecord_MAG;
               GdsiiRecord_ANGLE; GdsiiRecord_COLROW; GdsiiRecord_PRESENTATION; GdsiiRecord_PATHTYPE; GdsiiRecord_BGNEXTN;
               GdsiiRecord_ENDEXTN; GdsiiRecord_PROPATTR; GdsiiRecord_PROPVALUE]
  = [KBoundary; KBoundary; KPath; KRef; KRef; KText; KXY; KEndel; KOther; KOther; KStrans; KMag; KAngle; KColrow;
     KPresentation; KPathtype; KBgnextn; KEndextn; KPropattr; KPropvalue].
Proof. reflexivity. Qed.
Print Assumptions c03_source_constants.

(* tie (generated): the record switch of read_gds, as it stands in library.cpp today — its case labels grouped by shared
   body (Generated.read_gds_case_groups) — is the dispatch the model uses: same groups, every group mapped to one kind,
   different groups to different kinds, and no other record type below 256 is dispatched (RAITHPXXDATA = 98 only stores
   vendor data that no property looks at: the model treats it as ignored) *)
Scheme Equality for rkind.
Theorem read_gds_switch_as_modelled :
  read_gds_case_groups = [[0; 1; 7]; [2]; [3]; [4]; [5]; [6]; [8; 45]; [9; 90]; [98]; [10; 11]; [12]; [13]; [14; 46]; [15]; [16]; [17];
                          [18]; [19]; [22]; [23]; [25]; [26]; [27]; [28]; [33]; [43]; [44]; [48]; [49]].
Proof. reflexivity. Qed.
Print Assumptions read_gds_switch_as_modelled.

Theorem read_gds_dispatch_uniform_and_distinct :
  forallb (fun g => match g with [] => false | t :: tl => forallb (fun u => rkind_beq (kind_of u) (kind_of t)) tl end) read_gds_case_groups = true
  /\ (let ks := map (fun g => kind_of (hd 0 g)) (filter (fun g => negb (N.eqb (hd 0 g) 98)) read_gds_case_groups) in
      forallb (fun k => negb (rkind_beq k KOther) && (N.of_nat (length (filter (rkind_beq k) ks)) =? 1)) ks = true)
  /\ forallb (fun t => Bool.eqb (existsb (N.eqb t) (concat read_gds_case_groups)) (negb (rkind_beq (kind_of t) KOther) || (t =? 98)))
             (map N.of_nat (seq 0 256)) = true.
Proof. vm_compute. repeat split; reflexivity. Qed.
Print Assumptions read_gds_dispatch_uniform_and_distinct.
