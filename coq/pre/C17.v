(* loading with a tag filter = loading everything and discarding the polygons and paths with other
   tags — for EVERY byte stream (valid or not), every tag set; order of the kept elements included *)
Theorem filter_commutes : forall ts bs,
  read_gds_model (Some ts) bs = omap (filter_lib ts) (read_gds_model None bs).
Proof. exact filter_commutes_lemma. Qed.
Print Assumptions filter_commutes.

(* the loader never looks at the twelve timestamp words of BGNLIB / BGNSTR: rewriting them cannot
   change what is loaded *)
Theorem loader_ignores_timestamps : forall f st r p',
  rtype r = 1 \/ rtype r = 5 ->
  step_gds f st {| rtype := rtype r; dtype := dtype r; payload := p' |} = step_gds f st r.
Proof. exact step_ignores_timestamps. Qed.
Print Assumptions loader_ignores_timestamps.

(* the unit and timestamp queries on a prefix: an error or the complete file's values (from C18) *)
Theorem units_query_prefix : forall bs v rest n, gds_units_model bs = Ok (v, rest) ->
  gds_units_model (firstn n bs) = ErrEof \/ exists rest', gds_units_model (firstn n bs) = Ok (v, rest').
Proof.
  intros bs v rest n H. destruct (le_lt_dec (length bs - length rest) n) as [Hc|Hc].
  - right. eexists. exact (reader_truncated_same_lemma _ _ _ _ _ _ _ n H Hc).
  - left. exact (reader_truncated_errors_lemma _ _ _ _ _ _ _ n H Hc).
Qed.
Print Assumptions units_query_prefix.

(* tie (generated): the record switches of gds_info and read_rawcells as they stand today react to exactly the record
   types their models react to *)
Theorem gds_info_switch_as_modelled :
  gds_info_case_groups = [[4]; [6]; [3]; [8; 45]; [9]; [10; 11]; [12]; [13]; [14; 46; 22]]
  /\ forall t, info_noop t <-> ~ In t (concat gds_info_case_groups).
Proof.
  split; [reflexivity|]. intros t. unfold info_noop. cbn [gds_info_case_groups concat app In]. intuition congruence.
Qed.
Print Assumptions gds_info_switch_as_modelled.

Theorem read_rawcells_switch_as_modelled :
  read_rawcells_case_groups = [[4]; [5]; [6]; [7]; [18]]
  /\ forall t, quiet t <-> ~ In t (concat read_rawcells_case_groups).
Proof.
  split; [reflexivity|]. intros t. unfold quiet. cbn [read_rawcells_case_groups concat app In]. intuition congruence.
Qed.
Print Assumptions read_rawcells_switch_as_modelled.
