(* C11 -- model of gdstk's Repetition (src/repetition.cpp) and of the five apply_repetition
   routines (src/polygon.cpp, flexpath.cpp, robustpath.cpp, label.cpp, reference.cpp).

   Coordinates are rationals (Q).  The C++ computes in doubles; on the inputs the harness feeds
   (integers and dyadic magnifications of moderate size) every product and sum below is exact
   in double arithmetic, so Q arithmetic describes it.  Equality of coordinates is Qeq (==),
   therefore statements about vectors use [veq] and lists of vectors are compared with
   [Forall2 veq] / [InV].

   Definitions only; the proofs are in RepetitionProofs.v. *)
From Coq Require Import QArith Qround.
Require Import Base.
Open Scope Q_scope.

(* ------------------------------------------------------------------ vectors *)
Definition vec : Type := (Q * Q)%type.
Definition vzero : vec := (0, 0).
Definition vadd (a b : vec) : vec := (fst a + fst b, snd a + snd b).
Definition veq (a b : vec) : Prop := fst a == fst b /\ snd a == snd b.
(* membership up to == on the coordinates *)
Definition InV (v : vec) (l : list vec) : Prop := Exists (veq v) l.

(* (double)i of an unsigned loop counter / of a uint64_t field *)
Definition qnat (i : nat) : Q := inject_Z (Z.of_nat i).
Definition qN (n : N) : Q := inject_Z (Z.of_N n).

Definition Qlt_bool (x y : Q) : bool := negb (Qle_bool y x).
Definition neq1 (m : Q) : bool := negb (Qeq_bool m 1).      (* magnification != 1 *)

Definition two64N : N := 18446744073709551616%N.
Definition wrapN (n : N) : N := (n mod two64N)%N.                   (* uint64_t arithmetic *)
Definition wrapZ (z : Z) : N := Z.to_N (z mod 18446744073709551616)%Z.

(* ------------------------------------------------------------------ the type *)
Inductive rep : Type :=
| RNone
| RRect (cols rows : N) (sx sy : Q)          (* Rectangular: spacing = (sx, sy) *)
| RReg (cols rows : N) (v1 v2 : vec)         (* Regular *)
| RExpl (l : list vec)                       (* Explicit: offsets, origin not listed *)
| RExplX (l : list Q)                        (* ExplicitX: coords *)
| RExplY (l : list Q).                       (* ExplicitY: coords *)

(* representable instance: the products/lengths the C++ forms fit a uint64_t *)
Definition rep_ok (r : rep) : Prop :=
  match r with
  | RNone => True
  | RRect c rw _ _ | RReg c rw _ _ => (c * rw < two64N)%N
  | RExpl l => (N.of_nat (length l) + 1 < two64N)%N
  | RExplX l | RExplY l => (N.of_nat (length l) + 1 < two64N)%N
  end.

(* ------------------------------------------------------------------ get_count *)
Definition count (r : rep) : N :=
  match r with
  | RNone => 0%N
  | RRect c rw _ _ | RReg c rw _ _ => wrapN (c * rw)                (* columns * rows *)
  | RExpl l => wrapN (N.of_nat (length l) + 1)                      (* offsets.count + 1 *)
  | RExplX l | RExplY l => wrapN (N.of_nat (length l) + 1)          (* coords.count + 1 *)
  end.

(* ------------------------------------------------------------------ get_offsets *)
(* for (j = j0; n more iterations; j++) emit (f j) *)
Fixpoint loop_emit (n : nat) (j : nat) (f : nat -> vec) : list vec :=
  match n with
  | O => []
  | S n' => f j :: loop_emit n' (S j) f
  end.
(* for (i = i0; n more iterations; i++) for (j = 0; j < rows; j++) emit (f i j):
   the column index i is the OUTER loop, the row index j the inner one *)
Fixpoint loop_outer (n : nat) (i : nat) (rows : nat) (f : nat -> nat -> vec) : list vec :=
  match n with
  | O => []
  | S n' => loop_emit rows 0 (f i) ++ loop_outer n' (S i) rows f
  end.

Definition rect_at (sx sy : Q) (i j : nat) : vec := (qnat i * sx, qnat j * sy).
Definition reg_at (v1 v2 : vec) (i j : nat) : vec :=
  (qnat i * fst v1 + qnat j * fst v2, qnat i * snd v1 + qnat j * snd v2).

Definition offsets (r : rep) : list vec :=
  match r with
  | RNone => []
  | RRect c rw sx sy => loop_outer (N.to_nat c) 0 (N.to_nat rw) (rect_at sx sy)
  | RReg c rw v1 v2 => loop_outer (N.to_nat c) 0 (N.to_nat rw) (reg_at v1 v2)
  | RExpl l => (0, 0) :: l
  | RExplX l => (0, 0) :: map (fun x => (x, 0)) l
  | RExplY l => (0, 0) :: map (fun y => (0, y)) l
  end.

(* ------------------------------------------------------------------ get_extrema *)
(* one pass of   if (key v < key lo) lo = v; else if (key v > key hi) hi = v;   *)
Definition step_key {A : Type} (key : A -> Q) (acc : A * A) (v : A) : A * A :=
  let (lo, hi) := acc in
  if Qlt_bool (key v) (key lo) then (v, hi)
  else if Qlt_bool (key hi) (key v) then (lo, v)
  else (lo, hi).
Definition scan_key {A : Type} (key : A -> Q) (l : list A) (z : A) : A * A :=
  fold_left (step_key key) l (z, z).

Definition extrema (r : rep) : list vec :=
  match r with
  | RNone => []
  | RRect c rw sx sy =>
      if ((c =? 0) || (rw =? 0))%N then []
      else if (c =? 1)%N then
        (if (rw =? 1)%N then [(0, 0)]
         else [(0, 0); (0, qN (rw - 1) * sy)])
      else
        (if (rw =? 1)%N then [(0, 0); (qN (c - 1) * sx, 0)]
         else [(0, 0); (0, qN (rw - 1) * sy); (qN (c - 1) * sx, 0);
               (qN (c - 1) * sx, qN (rw - 1) * sy)])
  | RReg c rw v1 v2 =>
      if ((c =? 0) || (rw =? 0))%N then []
      else if (c =? 1)%N then
        (if (rw =? 1)%N then [(0, 0)]
         else [(0, 0); (qN (rw - 1) * fst v2, qN (rw - 1) * snd v2)])
      else
        (if (rw =? 1)%N then [(0, 0); (qN (c - 1) * fst v1, qN (c - 1) * snd v1)]
         else
           let vi := (qN (c - 1) * fst v1, qN (c - 1) * snd v1) in
           let vj := (qN (rw - 1) * fst v2, qN (rw - 1) * snd v2) in
           [(0, 0); vi; vj; vadd vi vj])
  | RExplX l =>
      match l with
      | [] => [(0, 0)]                  (* if (coords.count == 0) { append {0,0}; return; } *)
      | _ => let (xmin, xmax) := scan_key (fun x => x) l 0 in
             if negb (Qeq_bool xmin xmax) then [(xmin, 0); (xmax, 0)] else [(xmin, 0)]
      end
  | RExplY l =>
      match l with
      | [] => [(0, 0)]
      | _ => let (ymin, ymax) := scan_key (fun y => y) l 0 in
             if negb (Qeq_bool ymin ymax) then [(0, ymin); (0, ymax)] else [(0, ymin)]
      end
  | RExpl l =>
      match l with
      | [] => [(0, 0)]                  (* if (offsets.count == 0) { append {0,0}; return; } *)
      | _ =>
          (* the C++ runs both if/else-if chains in one loop; they touch disjoint variables *)
          let (vxmin, vxmax) := scan_key (fun v : vec => fst v) l vzero in
          let (vymin, vymax) := scan_key (fun v : vec => snd v) l vzero in
          [vxmin; vxmax; vymin; vymax]
      end
  end.

(* ------------------------------------------------------------------ transform *)
(* The rotation argument: [None] is the angle for which the C++ test (rotation != 0) is false;
   [Some (c, s)] is a non-zero angle with cos = c and sin = s. *)
Definition rot : Type := option (Q * Q).
Definition rot_cs (rt : rot) : Q * Q := match rt with None => (1, 0) | Some p => p end.
Definition rot_ok (rt : rot) : Prop :=
  match rt with None => True | Some (c, s) => c * c + s * s == 1 end.

Definition cplx_mul (a b : vec) : vec :=
  (fst a * fst b - snd a * snd b, fst a * snd b + snd a * fst b).
Definition cplx_conj (a : vec) : vec := (fst a, - snd a).

(* the linear part of "magnify by m, reflect across x if xr, rotate by rt" *)
Definition linear (m : Q) (xr : bool) (rt : rot) (v : vec) : vec :=
  let x := m * fst v in
  let y := if xr then - (m * snd v) else m * snd v in
  let (c, s) := rot_cs rt in
  (x * c - y * s, x * s + y * c).

Definition transform (r : rep) (m : Q) (xr : bool) (rt : rot) : rep :=
  match r with
  | RNone => RNone
  | RRect c rw sx sy =>
      let sx1 := if neq1 m then sx * m else sx in
      let sy1 := if neq1 m then sy * m else sy in
      if xr || (match rt with None => false | Some _ => true end) then
        let vy := if xr then - sy1 else sy1 in
        let (ca, sa) := rot_cs rt in                     (* cos(0) = 1 and sin(0) = 0 exactly *)
        RReg c rw (sx1 * ca, sx1 * sa) (- vy * sa, vy * ca)
      else RRect c rw sx1 sy1
  | RReg c rw v1 v2 =>
      let s1 := fun v : vec => if neq1 m then (fst v * m, snd v * m) else v in
      let s2 := fun v : vec => if xr then (fst v, - snd v) else v in
      let s3 := fun v : vec => match rt with None => v | Some p => cplx_mul v p end in
      RReg c rw (s3 (s2 (s1 v1))) (s3 (s2 (s1 v2)))
  | RExplX l =>
      match rt with
      | Some (c, s) =>
          let ca := m * c in
          let sa := m * s in
          RExpl (map (fun x => (x * ca, x * sa)) l)
      | None => if neq1 m then RExplX (map (fun x => x * m) l) else RExplX l
      end
  | RExplY l =>
      match rt with
      | Some (c, s) =>
          let ca := m * c in
          let sa := (- m) * s in
          let ca := if xr then - ca else ca in
          let sa := if xr then - sa else sa in
          RExpl (map (fun y => (y * sa, y * ca)) l)
      | None =>
          if xr || neq1 m then
            let m' := if xr then - m else m in
            RExplY (map (fun y => y * m') l)
          else RExplY l
      end
  | RExpl l =>
      match rt with
      | Some (c, s) =>
          let r := (m * c, m * s) in
          if xr then RExpl (map (fun v => cplx_mul (cplx_conj v) r) l)
          else RExpl (map (fun v => cplx_mul v r) l)
      | None =>
          if xr && neq1 m then RExpl (map (fun v : vec => (fst v * m, snd v * (- m))) l)
          else if xr then RExpl (map (fun v : vec => (fst v, - snd v)) l)
          else if neq1 m then RExpl (map (fun v : vec => (fst v * m, snd v * m)) l)
          else RExpl l
      end
  end.

(* ------------------------------------------------------------------ apply_repetition *)
(* The five routines are the same text up to the element type:
     if (type == None) return;
     get_offsets(offsets); repetition.clear();
     if (offsets.count == 0) return;          -- zero columns or rows: nothing to copy
     offset_p = offsets.items + 1;
     for (n = offsets.count - 1; n > 0; n--) { copy = copy of this; copy.translate(offset_p[0]); offset_p++; append }
   The copies are taken AFTER the clear, so they carry no repetition.  [offsets.count - 1] is
   unsigned, but after the early return offsets.count >= 1; the model keeps the bound check
   (reads past the array would be Crash) and the proofs show it is never taken. *)
Section Apply.
  Context {E : Type}.
  Context (translate : vec -> E -> E).

  (* result: the produced copies, each with the repetition it carries, and the repetition the
     original is left with *)
  Definition apply_repetition (e : E) (r : rep) : outcome (list (E * rep) * rep) :=
    match r with
    | RNone => Ok ([], RNone)                               (* if (type == None) return; *)
    | _ =>
        let offs := offsets r in                            (* get_offsets(offsets) *)
        let cleared := RNone in                             (* repetition.clear() *)
        if (N.of_nat (length offs) =? 0)%N then Ok ([], cleared)   (* if (offsets.count == 0) return; *)
        else
        let n := wrapZ (Z.of_nat (length offs) - 1) in      (* offsets.count - 1 *)
        let avail := skipn 1 offs in                        (* offsets.items + 1 ... *)
        if (N.of_nat (length avail) <? n)%N then Crash      (* reads past the array *)
        else Ok (map (fun v => (translate v e, cleared))    (* copy_from(this), translate *)
                     (firstn (N.to_nat n) avail), cleared)
    end.
End Apply.

(* A concrete element: the coordinates [translate] moves (polygon vertices, FlexPath spine,
   RobustPath trafo[2],trafo[5] (+ evaluated spine), label / reference origin) and everything
   else, which copy_from duplicates and translate leaves alone. *)
Record elem (A : Type) : Type := mkElem { e_pos : list vec; e_rest : A }.
Arguments mkElem {A} _ _.
Arguments e_pos {A} _.
Arguments e_rest {A} _.
Definition elem_translate {A : Type} (v : vec) (e : elem A) : elem A :=
  mkElem (map (fun p => vadd p v) (e_pos e)) (e_rest e).            (* *p++ += v *)
Definition apply_elem {A : Type} (e : elem A) (r : rep) : outcome (list (elem A * rep) * rep) :=
  apply_repetition elem_translate e r.

(* ------------------------------------------------------------------ printing helpers *)
(* nearest point of the 2^-20 grid (used to compare with sin/cos of double angles) *)
Definition grid_round (q : Q) : Z := Qfloor (q * (1048576 # 1) + (1 # 2)).
(* Some z when q is the integer z *)
Definition q_int (q : Q) : option Z :=
  let r := Qred q in
  match Qden r with xH => Some (Qnum r) | _ => None end.
