(* Proofs about OasisWriteDetect.v (the OASIS writer model with the shape-detection flags):
     write_oas_model_d_off            with both flags off the model IS write_oas_model (every input)
     oas_writer_conforms_d_lemma      the strict decoder accepts what the writer emits under every flag word and decodes it
                                      to the library as the file holds it (view_w_d)
     view_w_d_sim_lemma               which is the saved library (view_w) up to the vertex cycle of detected polygons
     writer_output_cov_decode_d_lemma the output stays in the class `covered` of OasisRead.v (no CTRAPEZOID 25: guard c5)
     oas_models_roundtrip_d_lemma     reader model on the detected file = reader model on the undetected file, up to that
     flag_independence_lemma          any two flag words give the same library, up to that
   The per-record step is OasisDetectProofs.v (whatever record is selected decodes to the same vertex cycle). *)
Require Import Base Generated OasisInt OasisIntProofs GdsReal OasisReal OasisRealProofs OasisPlist OasisPlistProofs.
Require Import Table TableProofs PropList OasisSpec OasisSpecProofs OasisRead OasisWrite OasisWriteProofs OasisRoundtrip.
Require Import OasisDetect OasisDetectProofs OasisWriteDetect.
Require OasisReadProofs.
From Coq Require Import Permutation ZifyBool.
From Flocq Require Import Core BinarySingleNaN Binary Bits.
Local Open Scope N_scope.

(* ================================================================== 1. both flags off: the writer model of OasisWrite.v *)
Lemma polygon_to_oas_g_off st p : polygon_to_oas_g geom_polygon st p = polygon_to_oas st p.
Proof.
  unfold polygon_to_oas_g, polygon_to_oas, geom_polygon. cbn [fst snd].
  destruct (properties_to_oas st (py_props p)) as [[pr pd] st']. reflexivity.
Qed.
Lemma polygons_to_oas_g_off : forall l st, polygons_to_oas_g geom_polygon st l = polygons_to_oas st l.
Proof.
  induction l as [|p t IH]; intros st; [reflexivity|]. cbn [polygons_to_oas_g polygons_to_oas].
  rewrite polygon_to_oas_g_off. destruct (polygon_to_oas st p) as [[r1 d1] st1]. rewrite IH. reflexivity.
Qed.
Lemma cell_to_oas_g_off cells ts st c : cell_to_oas_g geom_polygon cells ts st c = cell_to_oas cells ts st c.
Proof. unfold cell_to_oas_g, cell_to_oas. rewrite polygons_to_oas_g_off. reflexivity. Qed.
Lemma cells_to_oas_g_off cells : forall l pos ts st,
  cells_to_oas_g geom_polygon cells pos ts st l = cells_to_oas cells pos ts st l.
Proof.
  induction l as [|c t IH]; intros pos ts st; [reflexivity|]. cbn [cells_to_oas_g cells_to_oas].
  rewrite cell_to_oas_g_off. destruct (cell_to_oas cells ts st c) as [[[r1 d1] ts1] st1]. rewrite IH. reflexivity.
Qed.
Lemma write_oas_run_g_off cfg l : write_oas_run_g geom_polygon cfg l = write_oas_run cfg l.
Proof.
  unfold write_oas_run_g, write_oas_run.
  destruct (properties_to_oas pstate0 (li_props l)) as [[r_lp d_lp] st1]. rewrite cells_to_oas_g_off. reflexivity.
Qed.
Lemma geom_d_off : geom_d false false = geom_polygon.
Proof. reflexivity. Qed.

Theorem write_oas_model_d_off_lemma : forall cfg l, write_oas_model_d cfg (false, false) l = write_oas_model cfg l.
Proof.
  intros cfg l. unfold write_oas_model_d, write_oas_model_g, write_oas_model. cbn [fst snd].
  rewrite geom_d_off, write_oas_run_g_off. reflexivity.
Qed.
Lemma write_oas_run_d_off cfg l : write_oas_run_d cfg (false, false) l = write_oas_run cfg l.
Proof. unfold write_oas_run_d. cbn [fst snd]. rewrite geom_d_off. apply write_oas_run_g_off. Qed.
Lemma polygons_view_off l : map (view_poly_g geom_polygon) l = map view_poly l.
Proof. reflexivity. Qed.
Theorem view_w_d_off_lemma : forall cfg l, view_w_d cfg (false, false) l = view_w cfg l.
Proof.
  intros cfg l. unfold view_w_d, view_w_g, view_w, cell_offsets_g, cell_offsets. cbn [fst snd].
  rewrite geom_d_off, write_oas_run_g_off. reflexivity.
Qed.

(* ================================================================== 2. what the detection returns *)
Local Open Scope Z_scope.
Lemma zc_val z : zc z <-> - 4611686018427387904 < z < 4611686018427387904.
Proof. unfold zc. change (2 ^ 62) with 4611686018427387904. tauto. Qed.
Definition sz63 (z : Z) : Prop := 0 <= z < 9223372036854775808.

Lemma is_rectangle_bounds pts corner size : Forall ptc pts -> is_rectangle pts = Some (corner, size) ->
  zc (fst corner) /\ zc (snd corner) /\ sz63 (fst size) /\ sz63 (snd size).
Proof.
  unfold is_rectangle. destruct pts as [|[a1 a2] [|[b1 b2] [|[c1 c2] [|[d1 d2] [|e pts]]]]]; try discriminate.
  intros Hf. inversion Hf as [|? ? Ha Hf1]; subst. inversion Hf1 as [|? ? Hb Hf2]; subst.
  inversion Hf2 as [|? ? Hc Hf3]; subst. clear Hf Hf1 Hf2 Hf3.
  destruct Ha as [A1 A2], Hc as [C1 C2]. cbn [fst snd] in *. rewrite zc_val in *.
  unfold px, py. cbn [fst snd]. destruct (_ || _); [|discriminate].
  intros H; inversion H; subst; clear H. cbn [fst snd]. rewrite !zc_val. unfold sz63.
  destruct (a1 <? c1) eqn:E1; destruct (a2 <? c2) eqn:E2; lia.
Qed.

(* the four points p q r s are among a b c d *)
Lemma assign4_mem (P : pt -> Prop) a b c d v p q r s :
  assign4 a b c d = Some (v, p, q, r, s) -> P a -> P b -> P c -> P d -> P p /\ P q /\ P r /\ P s.
Proof.
  unfold assign4.
  repeat match goal with
         | |- context [if ?c then _ else _] => let E := fresh "E" in destruct c eqn:E
         end;
    intros H; inversion H; subst; clear H; tauto.
Qed.

(* the order the assignment establishes: p is the near end of the first parallel side, r of the second *)
Lemma assign4_order a b c d (v : bool) p q r s :
  assign4 a b c d = Some (v, p, q, r, s) ->
  if v return Prop then px p <= px r /\ (py p <= py q \/ py r <= py s) else py r <= py p /\ (px p <= px q \/ px r <= px s).
Proof.
  unfold assign4.
  repeat match goal with
         | |- context [if ?c then _ else _] => let E := fresh "E" in destruct c eqn:E
         end;
    intros H; inversion H; subst; clear H; lia.
Qed.

Lemma measure4_facts (v : bool) p q r s corner size da db :
  ptc p -> ptc q -> ptc r -> ptc s ->
  (if v return Prop then px p <= px r /\ (py p <= py q \/ py r <= py s) else py r <= py p /\ (px p <= px q \/ px r <= px s)) ->
  measure4 v p q r s = (corner, size, da, db) ->
  zc (fst corner) /\ zc (snd corner) /\ sz63 (fst size) /\ sz63 (snd size) /\ fits63 da /\ fits63 db.
Proof.
  destruct p as [p1 p2], q as [q1 q2], r as [r1 r2], s as [s1 s2].
  intros [P1 P2] [Q1 Q2] [R1 R2] [S1 S2]. cbn [fst snd] in *. rewrite zc_val in *.
  unfold measure4, px, py. cbn [fst snd].
  destruct v; intros Ho H; inversion H; subst; clear H; cbn [fst snd]; rewrite !zc_val; unfold sz63, fits63;
    rewrite two63_val;
    repeat match goal with
           | |- context [if ?c then _ else _] => let E := fresh "E" in destruct c eqn:E
           end; lia.
Qed.

(* what is_trapezoid returns, for the record that is written from it *)
Definition trap_facts (t : trapres) : Prop :=
  let '(ty, corner, size, da, db) := t in
  zc (fst corner) /\ zc (snd corner) /\ sz63 (fst size) /\ sz63 (snd size) /\ fits63 da /\ fits63 db /\
  ((ty < 16)%N \/ ty = 24%N \/ (ty = 25%N /\ fst size = snd size) \/
   ((16 <= ty <= 19)%N /\ snd size = fst size /\ da = 0 /\ db = 0) \/
   ((ty = 20%N \/ ty = 21%N) /\ fst size = 2 * snd size /\ da = 0 /\ db = 0) \/
   ((ty = 22%N \/ ty = 23%N) /\ snd size = 2 * fst size /\ da = 0 /\ db = 0) \/
   ((ty = 26%N \/ ty = 27%N) /\ (da <> 0 \/ db <> 0))).

Lemma compact_type_cases v sx sy da db :
  match compact_type v sx sy da db with
  | Some ty => (ty < 16)%N \/ ty = 24%N \/ (ty = 25%N /\ sx = sy)
  | None => da <> 0 \/ db <> 0
  end.
Proof.
  unfold compact_type.
  repeat match goal with
         | |- context [if ?c then _ else _] => let E := fresh "E" in destruct c eqn:E
         end; lia.
Qed.

Lemma is_trapezoid4_facts a b c d t : ptc a -> ptc b -> ptc c -> ptc d -> is_trapezoid4 a b c d = Some t -> trap_facts t.
Proof.
  intros Ha Hb Hc Hd. unfold is_trapezoid4.
  destruct (assign4 a b c d) as [[[[[v p] q] r] s]|] eqn:A; [|discriminate].
  destruct (assign4_mem ptc _ _ _ _ _ _ _ _ _ A Ha Hb Hc Hd) as (Pp & Pq & Pr & Ps).
  pose proof (assign4_order _ _ _ _ _ _ _ _ _ A) as Ho.
  destruct (measure4 v p q r s) as [[[corner size] da] db] eqn:M.
  destruct (measure4_facts v p q r s corner size da db Pp Pq Pr Ps Ho M) as (F1 & F2 & F3 & F4 & F5 & F6).
  intros H; inversion H; subst; clear H. unfold trap_facts.
  repeat (split; [assumption|]).
  pose proof (compact_type_cases v (fst size) (snd size) da db) as C.
  destruct (compact_type v (fst size) (snd size) da db) as [ty|].
  - destruct C as [C|[C|C]]; tauto.
  - do 6 right. split; [destruct v; tauto|exact C].
Qed.

Lemma is_trapezoid3_facts a b c t : ptc a -> ptc b -> ptc c -> is_trapezoid3 a b c = Some t -> trap_facts t.
Proof.
  intros Ha Hb Hc. unfold is_trapezoid3. destruct (sort3 a b c) as [[p q] r] eqn:S.
  destruct (sort3_spec _ _ _ _ _ _ S) as (Hcyc & L1 & L2).
  assert (Hm : ptc p /\ ptc q /\ ptc r).
  { cbn [same_cycle] in Hcyc. destruct Hcyc as [k Hk].
    destruct k as [|[|[|[|[|[|k]]]]]]; cbn [dih3] in Hk; inversion Hk; subst; tauto. }
  destruct Hm as ([P1 P2] & [Q1 Q2] & [R1 R2]). clear S Hcyc Ha Hb Hc a b c.
  destruct p as [p1 p2], q as [q1 q2], r as [r1 r2]. unfold ple, px, py in *. cbn [fst snd] in *.
  rewrite zc_val in *. rewrite !min3_eq, !max3_eq.
  intros H.
  repeat match type of H with
         | context [if ?c then _ else _] => let E := fresh "E" in destruct c eqn:E
         end;
    try discriminate; inversion H; subst; clear H; unfold trap_facts; cbn [fst snd]; rewrite !zc_val;
    unfold sz63, fits63; rewrite two63_val; repeat (split; [lia|]); lia.
Qed.

Lemma is_trapezoid_facts pts t : Forall ptc pts -> is_trapezoid pts = Some t -> trap_facts t.
Proof.
  unfold is_trapezoid. destruct pts as [|a [|b [|c [|d [|e pts]]]]]; try discriminate; intros Hf.
  - inversion Hf as [|? ? Ha Hf1]; subst. inversion Hf1 as [|? ? Hb Hf2]; subst. inversion Hf2 as [|? ? Hc Hf3]; subst.
    apply is_trapezoid3_facts; assumption.
  - inversion Hf as [|? ? Ha Hf1]; subst. inversion Hf1 as [|? ? Hb Hf2]; subst. inversion Hf2 as [|? ? Hc Hf3]; subst.
    inversion Hf3 as [|? ? Hd Hf4]; subst. apply is_trapezoid4_facts; assumption.
Qed.

Lemma trap_facts_sizes t : trap_facts t -> sizes_ok t.
Proof. destruct t as [[[[ty corner] size] da] db]. unfold trap_facts, sizes_ok, sz63. intros (_ & _ & A & B & _). lia. Qed.
Local Close Scope Z_scope.

(* ================================================================== 3. the strict decoder on the records of a detected polygon *)
Lemma u64z_sz z : sz63 z -> u64z z = Z.to_N z /\ wf_u (Z.to_N z).
Proof.
  unfold sz63. intros H. split.
  - apply u64z_nonneg. change (2 ^ 64)%Z with 18446744073709551616%Z. lia.
  - unfold wf_u. rewrite two64_val. lia.
Qed.

Lemma info_bits_rect (sq b : bool) :
  let info := (if sq then 219 else 123) + (if b then 4 else 0) in
  bit info 0 = true /\ bit info 1 = true /\ bit info 2 = b /\ bit info 3 = true /\ bit info 4 = true /\
  bit info 5 = negb sq /\ bit info 6 = true /\ bit info 7 = sq.
Proof. destruct sq, b; vm_compute; repeat split; reflexivity. Qed.
Lemma info_bits_trap (v b : bool) :
  let info := (if v then 251 else 123) + (if b then 4 else 0) in
  bit info 0 = true /\ bit info 1 = true /\ bit info 2 = b /\ bit info 3 = true /\ bit info 4 = true /\
  bit info 5 = true /\ bit info 6 = true /\ bit info 7 = v.
Proof. destruct v, b; vm_compute; repeat split; reflexivity. Qed.
Lemma info_bits_ctrap (uh uw b : bool) :
  let info := 155 + (if uh then 32 else 0) + (if uw then 64 else 0) + (if b then 4 else 0) in
  bit info 0 = true /\ bit info 1 = true /\ bit info 2 = b /\ bit info 3 = true /\ bit info 4 = true /\
  bit info 5 = uh /\ bit info 6 = uw /\ bit info 7 = true.
Proof. destruct uh, uw, b; vm_compute; repeat split; reflexivity. Qed.

(* ---- RECTANGLE *)
Lemma dec_rectangle_w m p cs : wpoly_ok p -> is_rectangle (py_pts p) = Some cs -> m_abs m = true ->
  exists body m1, fst (geom_rectangle p cs) = 20 :: body /\
    (forall rest, dec_rectangle m (body ++ rest) = Some (snd (geom_rectangle p cs), m1, rest)) /\ m_abs m1 = true.
Proof.
  intros (Hl & Hd & Hne & Hpts & Hlen & Hrep) Hr Ha. destruct cs as [corner size].
  destruct (is_rectangle_bounds _ _ _ Hpts Hr) as (C1 & C2 & S1 & S2).
  destruct (u64z_sz _ S1) as [U1 W1]. destruct (u64z_sz _ S2) as [U2 W2].
  unfold geom_rectangle. cbn [fst snd]. rewrite U1, U2. change OasisRecord_RECTANGLE with 20.
  destruct (info_bits_rect (fst size =? snd size)%Z (has_rep (py_rep p))) as (B0 & B1 & B2 & B3 & B4 & B5 & B6 & B7).
  cbv zeta in B0, B1, B2, B3, B4, B5, B6, B7. rewrite rep_bit_if.
  destruct (fst size =? snd size)%Z eqn:Esq.
  - eexists. eexists. split; [reflexivity|]. split; [intros rest|].
    + unfold dec_rectangle. cbn [app rd_byte obnd]. rewrite B0, B1, B2, B3, B4, B5, B6, B7.
      rewrite <- !app_assoc. cbn [fld].
      rewrite rd_uint_enc by exact Hl. cbn [obnd fld]. rewrite rd_uint_enc by exact Hd. cbn [obnd fld].
      rewrite rd_uint_enc by exact W1. cbn [obnd negb andb fld app].
      rewrite Ha. rewrite pos_fld_abs by (apply zc_fits; exact C1). cbn [obnd].
      rewrite pos_fld_abs by (apply zc_fits; exact C2). cbn [obnd].
      rewrite rep_field_dec by exact Hrep. cbn [obnd].
      unfold rect_element. cbn [fst snd]. apply Z.eqb_eq in Esq. rewrite <- Esq. reflexivity.
    + cbn. first [exact Ha|reflexivity].
  - eexists. eexists. split; [reflexivity|]. split; [intros rest|].
    + unfold dec_rectangle. cbn [app rd_byte obnd]. rewrite B0, B1, B2, B3, B4, B5, B6, B7.
      rewrite <- !app_assoc. cbn [fld].
      rewrite rd_uint_enc by exact Hl. cbn [obnd fld]. rewrite rd_uint_enc by exact Hd. cbn [obnd fld].
      rewrite rd_uint_enc by exact W1. cbn [obnd negb andb fld app].
      rewrite rd_uint_enc by exact W2. cbn [obnd].
      rewrite Ha. rewrite pos_fld_abs by (apply zc_fits; exact C1). cbn [obnd].
      rewrite pos_fld_abs by (apply zc_fits; exact C2). cbn [obnd].
      rewrite rep_field_dec by exact Hrep. cbn [obnd].
      unfold rect_element. cbn [fst snd]. reflexivity.
    + cbn. first [exact Ha|reflexivity].
Qed.

(* ---- TRAPEZOID *)
Lemma dec_trap_body m (v : bool) l d sx sy da db cx cy r code :
  wf_u l -> wf_u d -> sz63 sx -> sz63 sy -> fits63 da -> fits63 db -> zc cx -> zc cy -> wrep_ok r -> m_abs m = true ->
  (code = 23 \/ (code = 24 /\ db = 0%Z) \/ (code = 25 /\ da = 0%Z)) ->
  exists m1,
    (forall rest,
       dec_trapezoid code m (((if v then 251 else 123) + rep_bit r 4) :: enc_uint l ++ enc_uint d ++
                             enc_uint (Z.to_N sx) ++ enc_uint (Z.to_N sy) ++
                             (if code =? 25 then [] else enc_int da) ++ (if code =? 24 then [] else enc_int db) ++
                             enc_int cx ++ enc_int cy ++ rep_field r ++ rest) =
       Some (E_trap v l d (Z.to_N sx) (Z.to_N sy) da db cx cy (view_rep r), m1, rest)) /\ m_abs m1 = true.
Proof.
  intros Hl Hd S1 S2 Fa Fb C1 C2 Hrep Ha Hcode.
  destruct (u64z_sz _ S1) as [_ W1]. destruct (u64z_sz _ S2) as [_ W2].
  destruct (info_bits_trap v (has_rep r)) as (B0 & B1 & B2 & B3 & B4 & B5 & B6 & B7).
  cbv zeta in B0, B1, B2, B3, B4, B5, B6, B7. rewrite rep_bit_if.
  destruct Hcode as [->|[[-> ->]|[-> ->]]].
  - eexists. split; [intros rest|].
    + unfold dec_trapezoid. cbn [rd_byte obnd]. rewrite B0, B1, B2, B3, B4, B5, B6, B7. cbn [fld].
      rewrite rd_uint_enc by exact Hl. cbn [obnd fld]. rewrite rd_uint_enc by exact Hd. cbn [obnd fld].
      rewrite rd_uint_enc by exact W1. cbn [obnd fld]. rewrite rd_uint_enc by exact W2. cbn [obnd N.eqb Pos.eqb].
      rewrite rd_int_enc by exact Fa. cbn [obnd]. rewrite rd_int_enc by exact Fb. cbn [obnd].
      rewrite Ha. rewrite pos_fld_abs by (apply zc_fits; exact C1). cbn [obnd].
      rewrite pos_fld_abs by (apply zc_fits; exact C2). cbn [obnd].
      rewrite rep_field_dec by exact Hrep. cbn [obnd]. reflexivity.
    + cbn. first [exact Ha|reflexivity].
  - eexists. split; [intros rest|].
    + unfold dec_trapezoid. cbn [rd_byte obnd]. rewrite B0, B1, B2, B3, B4, B5, B6, B7. cbn [fld].
      rewrite rd_uint_enc by exact Hl. cbn [obnd fld]. rewrite rd_uint_enc by exact Hd. cbn [obnd fld].
      rewrite rd_uint_enc by exact W1. cbn [obnd fld]. rewrite rd_uint_enc by exact W2. cbn [obnd N.eqb Pos.eqb app].
      rewrite rd_int_enc by exact Fa. cbn [obnd].
      rewrite Ha. rewrite pos_fld_abs by (apply zc_fits; exact C1). cbn [obnd].
      rewrite pos_fld_abs by (apply zc_fits; exact C2). cbn [obnd].
      rewrite rep_field_dec by exact Hrep. cbn [obnd]. reflexivity.
    + cbn. first [exact Ha|reflexivity].
  - eexists. split; [intros rest|].
    + unfold dec_trapezoid. cbn [rd_byte obnd]. rewrite B0, B1, B2, B3, B4, B5, B6, B7. cbn [fld].
      rewrite rd_uint_enc by exact Hl. cbn [obnd fld]. rewrite rd_uint_enc by exact Hd. cbn [obnd fld].
      rewrite rd_uint_enc by exact W1. cbn [obnd fld]. rewrite rd_uint_enc by exact W2. cbn [obnd N.eqb Pos.eqb app].
      rewrite rd_int_enc by exact Fb. cbn [obnd].
      rewrite Ha. rewrite pos_fld_abs by (apply zc_fits; exact C1). cbn [obnd].
      rewrite pos_fld_abs by (apply zc_fits; exact C2). cbn [obnd].
      rewrite rep_field_dec by exact Hrep. cbn [obnd]. reflexivity.
    + cbn. first [exact Ha|reflexivity].
Qed.

Definition tr_ty (t : trapres) : N := let '(ty, _, _, _, _) := t in ty.

Lemma dec_trapezoid_w m p t : wpoly_ok p -> is_trapezoid (py_pts p) = Some t -> (25 <? tr_ty t) = true -> m_abs m = true ->
  exists code body m1, fst (geom_trapezoid p t) = code :: body /\ (code = 23 \/ code = 24 \/ code = 25) /\
    (forall rest, dec_trapezoid code m (body ++ rest) = Some (snd (geom_trapezoid p t), m1, rest)) /\ m_abs m1 = true.
Proof.
  intros (Hl & Hd & Hne & Hpts & Hlen & Hrep) Ht Hty Ha.
  pose proof (is_trapezoid_facts _ _ Hpts Ht) as F. destruct t as [[[[ty corner] size] da] db].
  cbn [tr_ty] in Hty. unfold trap_facts in F. destruct F as (C1 & C2 & S1 & S2 & Fa & Fb & Fty).
  apply N.ltb_lt in Hty.
  assert (Hv : (ty = 26 \/ ty = 27) /\ (da <> 0 \/ db <> 0)%Z) by (destruct Fty as [?|[?|[?|[?|[?|[?|?]]]]]]; try lia; assumption).
  destruct Hv as [Hv Hnz].
  destruct (u64z_sz _ S1) as [U1 _]. destruct (u64z_sz _ S2) as [U2 _].
  unfold geom_trapezoid. replace (25 <? ty) with true by (symmetry; apply N.ltb_lt; exact Hty).
  unfold trap_element. replace (25 <? ty) with true by (symmetry; apply N.ltb_lt; exact Hty).
  cbn [fst snd]. rewrite U1, U2.
  change OasisRecord_TRAPEZOID_B with 25. change OasisRecord_TRAPEZOID_A with 24. change OasisRecord_TRAPEZOID_AB with 23.
  assert (Einfo : (if ty =? 26 then 123 else 251) = (if (ty =? 27) then 251 else 123)) by (destruct Hv as [->| ->]; reflexivity).
  rewrite Einfo.
  destruct (da =? 0)%Z eqn:Ea; [|destruct (db =? 0)%Z eqn:Eb].
  - apply Z.eqb_eq in Ea.
    destruct (dec_trap_body m (ty =? 27) (py_layer p) (py_type p) (fst size) (snd size) da db (fst corner) (snd corner)
                (py_rep p) 25 Hl Hd S1 S2 Fa Fb C1 C2 Hrep Ha (or_intror (or_intror (conj eq_refl Ea)))) as (m1 & D & A1).
    eexists. eexists. exists m1. split; [reflexivity|]. split; [auto|]. split; [|exact A1].
    intros rest. rewrite <- (D rest). f_equal. cbn [N.eqb Pos.eqb app]. rewrite <- ?app_assoc. reflexivity.
  - apply Z.eqb_eq in Eb.
    destruct (dec_trap_body m (ty =? 27) (py_layer p) (py_type p) (fst size) (snd size) da db (fst corner) (snd corner)
                (py_rep p) 24 Hl Hd S1 S2 Fa Fb C1 C2 Hrep Ha (or_intror (or_introl (conj eq_refl Eb)))) as (m1 & D & A1).
    eexists. eexists. exists m1. split; [reflexivity|]. split; [auto|]. split; [|exact A1].
    intros rest. rewrite <- (D rest). f_equal. cbn [N.eqb Pos.eqb app]. rewrite <- ?app_assoc. rewrite ?app_nil_r. reflexivity.
  - destruct (dec_trap_body m (ty =? 27) (py_layer p) (py_type p) (fst size) (snd size) da db (fst corner) (snd corner)
                (py_rep p) 23 Hl Hd S1 S2 Fa Fb C1 C2 Hrep Ha (or_introl eq_refl)) as (m1 & D & A1).
    eexists. eexists. exists m1. split; [reflexivity|]. split; [auto|]. split; [|exact A1].
    intros rest. rewrite <- (D rest). f_equal. cbn [N.eqb Pos.eqb app]. rewrite <- ?app_assoc. reflexivity.
Qed.

(* ---- CTRAPEZOID: the dimension the record leaves out is the one the type defines *)
Lemma ct_use_w_spec ty : ct_use_w ty = ctrap_uses_w ty.
Proof. unfold ct_use_w, ctrap_uses_w. destruct (ty =? 20), (ty =? 21); reflexivity. Qed.
Lemma ct_use_h_spec ty : ct_use_h ty = ctrap_uses_h ty.
Proof. reflexivity. Qed.

Lemma ctrap_dims ty (sx sy da db : Z) :
  sz63 sx -> sz63 sy -> (25 <? ty) = false ->
  ((ty < 16) \/ ty = 24 \/ (ty = 25 /\ sx = sy) \/
   ((16 <= ty <= 19) /\ sy = sx /\ da = 0%Z /\ db = 0%Z) \/
   ((ty = 20 \/ ty = 21) /\ sx = (2 * sy)%Z /\ da = 0%Z /\ db = 0%Z) \/
   ((ty = 22 \/ ty = 23) /\ sy = (2 * sx)%Z /\ da = 0%Z /\ db = 0%Z) \/
   ((ty = 26 \/ ty = 27) /\ (da <> 0 \/ db <> 0)%Z)) ->
  ty < 26 /\
  ctrap_w ty (if ct_use_w ty then Z.to_N sx else 0) (if ct_use_h ty then Z.to_N sy else 0) = Z.to_N sx /\
  ctrap_h ty (if ct_use_w ty then Z.to_N sx else 0) (if ct_use_h ty then Z.to_N sy else 0) = Z.to_N sy.
Proof.
  unfold sz63. intros S1 S2 Hty F. apply N.ltb_ge in Hty.
  assert (Hc : ty < 16 \/ ty = 16 \/ ty = 17 \/ ty = 18 \/ ty = 19 \/ ty = 20 \/ ty = 21 \/ ty = 22 \/ ty = 23 \/ ty = 24 \/ ty = 25) by lia.
  split; [lia|].
  destruct Hc as [Hc|Hc].
  - unfold ctrap_w, ctrap_h, ct_use_w, ct_use_h.
    replace (ty <? 16) with true by (symmetry; apply N.ltb_lt; lia).
    replace (ty =? 20) with false by (symmetry; apply N.eqb_neq; lia).
    replace (ty =? 21) with false by (symmetry; apply N.eqb_neq; lia).
    replace (ty =? 22) with false by (symmetry; apply N.eqb_neq; lia).
    replace (ty =? 23) with false by (symmetry; apply N.eqb_neq; lia).
    replace (ty =? 25) with false by (symmetry; apply N.eqb_neq; lia).
    replace (16 <=? ty) with false by (symmetry; apply N.leb_gt; lia).
    cbn [negb andb orb]. split; reflexivity.
  - repeat (destruct Hc as [->|Hc]); try subst ty;
      cbv [ctrap_w ctrap_h ct_use_w ct_use_h N.eqb N.ltb N.leb N.compare Pos.eqb Pos.compare Pos.compare_cont negb andb orb];
      split; lia.
Qed.

Lemma dec_ctrapezoid_w m p t : wpoly_ok p -> is_trapezoid (py_pts p) = Some t -> (25 <? tr_ty t) = false -> m_abs m = true ->
  exists body m1, fst (geom_trapezoid p t) = 26 :: body /\
    (forall rest, dec_ctrapezoid m (body ++ rest) = Some (snd (geom_trapezoid p t), m1, rest)) /\ m_abs m1 = true.
Proof.
  intros (Hl & Hd & Hne & Hpts & Hlen & Hrep) Ht Hty Ha.
  pose proof (is_trapezoid_facts _ _ Hpts Ht) as F. destruct t as [[[[ty corner] size] da] db].
  cbn [tr_ty] in Hty. unfold trap_facts in F. destruct F as (C1 & C2 & S1 & S2 & Fa & Fb & Fty).
  destruct (ctrap_dims ty (fst size) (snd size) da db S1 S2 Hty Fty) as (H26 & Ew & Eh).
  destruct (u64z_sz _ S1) as [U1 W1]. destruct (u64z_sz _ S2) as [U2 W2].
  unfold geom_trapezoid. rewrite Hty. unfold trap_element. rewrite Hty.
  cbn [fst snd]. rewrite U1, U2. change OasisRecord_CTRAPEZOID with 26.
  destruct (info_bits_ctrap (ct_use_h ty) (ct_use_w ty) (has_rep (py_rep p))) as (B0 & B1 & B2 & B3 & B4 & B5 & B6 & B7).
  cbv zeta in B0, B1, B2, B3, B4, B5, B6, B7. rewrite rep_bit_if.
  eexists. eexists. split; [reflexivity|]. split; [intros rest|].
  - unfold dec_ctrapezoid. cbn [app rd_byte obnd]. rewrite B0, B1, B2, B3, B4, B5, B6, B7.
    rewrite <- !app_assoc. cbn [fld].
    rewrite rd_uint_enc by exact Hl. cbn [obnd fld]. rewrite rd_uint_enc by exact Hd. cbn [obnd fld app].
    rewrite rd_uint_small by lia. cbn [obnd].
    replace (26 <=? ty) with false by (symmetry; apply N.leb_gt; exact H26).
    rewrite <- ct_use_w_spec. change (ctrap_uses_h ty) with (ct_use_h ty).
    assert (Dw : forall mv bs, dim_fld (ct_use_w ty) (ct_use_w ty) mv
                                 ((if ct_use_w ty then enc_uint (Z.to_N (fst size)) else []) ++ bs) =
                               Some (if ct_use_w ty then Z.to_N (fst size) else 0, bs)).
    { intros mv bs. unfold dim_fld. destruct (ct_use_w ty); [apply rd_uint_enc; exact W1|reflexivity]. }
    assert (Dh : forall mv bs, dim_fld (ct_use_h ty) (ct_use_h ty) mv
                                 ((if ct_use_h ty then enc_uint (Z.to_N (snd size)) else []) ++ bs) =
                               Some (if ct_use_h ty then Z.to_N (snd size) else 0, bs)).
    { intros mv bs. unfold dim_fld. destruct (ct_use_h ty); [apply rd_uint_enc; exact W2|reflexivity]. }
    rewrite <- ?app_assoc. rewrite Dw. cbn [obnd]. rewrite Dh. cbn [obnd]. rewrite Ew, Eh.
    rewrite Ha. rewrite pos_fld_abs by (apply zc_fits; exact C1). cbn [obnd].
    rewrite pos_fld_abs by (apply zc_fits; exact C2). cbn [obnd].
    rewrite rep_field_dec by exact Hrep. cbn [obnd]. reflexivity.
  - cbn. first [exact Ha|reflexivity].
Qed.

(* ---- the record switch *)
Lemma dec_record_rectangle ois m k c cs body e m1 rest : k_cells k = c :: cs ->
  dec_rectangle m (body ++ rest) = Some (e, m1, rest) ->
  dec_record ois (DS m k) ((20 :: body) ++ rest) = Some (Cont (DS m1 (k_set_cells k (push_elem c e :: cs) T_elem)) rest).
Proof. intros Hc Hd. elem_rec_tac Hd Hc. Qed.
Lemma dec_record_trapezoid ois code m k c cs body e m1 rest : k_cells k = c :: cs ->
  code = 23 \/ code = 24 \/ code = 25 ->
  dec_trapezoid code m (body ++ rest) = Some (e, m1, rest) ->
  dec_record ois (DS m k) ((code :: body) ++ rest) = Some (Cont (DS m1 (k_set_cells k (push_elem c e :: cs) T_elem)) rest).
Proof. intros Hc [->|[->| ->]] Hd; elem_rec_tac Hd Hc. Qed.
Lemma dec_record_ctrapezoid ois m k c cs body e m1 rest : k_cells k = c :: cs ->
  dec_ctrapezoid m (body ++ rest) = Some (e, m1, rest) ->
  dec_record ois (DS m k) ((26 :: body) ++ rest) = Some (Cont (DS m1 (k_set_cells k (push_elem c e :: cs) T_elem)) rest).
Proof. intros Hc Hd. elem_rec_tac Hd Hc. Qed.

(* what the generic theorems ask of a geometry routine *)
Definition is_geom (e : element) : Prop :=
  match e with E_text _ _ _ _ _ _ | E_place _ _ _ _ _ _ => False | _ => True end.
Definition geom_step (recf : bool -> dstate -> list N -> option step_result) (ok : wpoly -> Prop) (gf : wpoly -> geom) : Prop :=
  forall ois p, ok p -> forall m k c cs, m_abs m = true -> k_cells k = c :: cs ->
  exists m1, (forall rest, recf ois (DS m k) (fst (gf p) ++ rest) =
                           Some (Cont (DS m1 (k_set_cells k (push_elem c (snd (gf p)) :: cs) T_elem)) rest)) /\
             m_abs m1 = true.

Lemma geom_polygon_step : geom_step dec_record wpoly_ok geom_polygon.
Proof.
  intros ois p Hok m k c cs Ha Hc. destruct (dec_polygon_w m p Hok Ha) as (m1 & D & A1).
  exists m1. split; [|exact A1]. intros rest. unfold geom_polygon. cbn [fst snd]. change OasisRecord_POLYGON with 21.
  apply (dec_record_polygon ois m k c cs _ _ _ rest Hc (D rest)).
Qed.

Lemma geom_d_step dr dt : geom_step dec_record wpoly_ok (geom_d dr dt).
Proof.
  intros ois p Hok m k c cs Ha Hc. unfold geom_d.
  destruct (if dr then is_rectangle (py_pts p) else None) as [cs0|] eqn:Er.
  - assert (Hr : is_rectangle (py_pts p) = Some cs0) by (destruct dr; [exact Er|discriminate]).
    destruct (dec_rectangle_w m p cs0 Hok Hr Ha) as (body & m1 & E & D & A1).
    exists m1. split; [|exact A1]. intros rest. rewrite E.
    apply (dec_record_rectangle ois m k c cs _ _ _ rest Hc (D rest)).
  - destruct (if dt then is_trapezoid (py_pts p) else None) as [t|] eqn:Et.
    + assert (Ht : is_trapezoid (py_pts p) = Some t) by (destruct dt; [exact Et|discriminate]).
      destruct (25 <? tr_ty t) eqn:Ety.
      * destruct (dec_trapezoid_w m p t Hok Ht Ety Ha) as (code & body & m1 & E & Hcode & D & A1).
        exists m1. split; [|exact A1]. intros rest. rewrite E.
        apply (dec_record_trapezoid ois code m k c cs _ _ _ rest Hc Hcode (D rest)).
      * destruct (dec_ctrapezoid_w m p t Hok Ht Ety Ha) as (body & m1 & E & D & A1).
        exists m1. split; [|exact A1]. intros rest. rewrite E.
        apply (dec_record_ctrapezoid ois m k c cs _ _ _ rest Hc (D rest)).
    + apply geom_polygon_step; assumption.
Qed.

Lemma geom_d_is_geom dr dt p : is_geom (snd (geom_d dr dt p)).
Proof.
  unfold geom_d. destruct (if dr then is_rectangle (py_pts p) else None) as [cs0|]; [exact I|].
  destruct (if dt then is_trapezoid (py_pts p) else None) as [[[[[ty corner] size] da] db]|]; [|exact I].
  unfold geom_trapezoid, trap_element. cbn [snd]. destruct (25 <? ty); exact I.
Qed.
Lemma geom_d_nonempty dr dt p : fst (geom_d dr dt p) <> [].
Proof.
  unfold geom_d. destruct (if dr then is_rectangle (py_pts p) else None) as [cs0|]; [discriminate|].
  destruct (if dt then is_trapezoid (py_pts p) else None) as [[[[[ty corner] size] da] db]|]; [|discriminate].
  unfold geom_trapezoid. cbn [fst]. destruct (25 <? ty); discriminate.
Qed.

(* ================================================================== 4. the writer around any geometry routine
   (OasisWriteProofs.v, with the polygon loop generalised; the lemmas about paths, references, labels, name tables and the
   END record are used as they are) *)
Section GenericRes.
  Variable gf : wpoly -> geom.
  Hypothesis gf_geom : forall p, is_geom (snd (gf p)).

  Definition pview_poly_g (p : wpoly) : element * wprops := (snd (gf p), py_props p).
  Definition pview_elems_g (c : wcell) : list (element * wprops) :=
    map pview_poly_g (cl_polys c) ++ flat_map pview_path (cl_paths c) ++ map pview_ref (cl_refs c) ++
    map pview_label (cl_labels c).

  Lemma elem_res_geom TF CN e : is_geom e -> elem_res TF CN e e.
  Proof. destruct e; cbn [is_geom elem_res]; intros H; try reflexivity; destruct H. Qed.

  Lemma polygon_to_oas_g_res CN st K p : NR (ps_names st) K ->
    exists K', st_ext st K (snd (polygon_to_oas_g gf st p)) K' /\
               forall KF VF TF, prefix K' KF -> prefix (ps_vals (snd (polygon_to_oas_g gf st p))) VF ->
                                gep_res KF VF TF CN (snd (fst (polygon_to_oas_g gf st p))) (pview_poly_g p).
  Proof.
    intros HNR. unfold polygon_to_oas_g. destruct (properties_to_oas_res (py_props p) st K HNR) as (K' & E & R).
    destruct (properties_to_oas st (py_props p)) as [[pr pd] st1]. cbn [fst snd] in *.
    exists K'. split; [exact E|]. intros KF VF TF HK HV. split; [apply elem_res_geom; apply gf_geom|].
    apply R; assumption.
  Qed.

  Lemma polygons_to_oas_g_res CN : forall l st K, NR (ps_names st) K ->
    exists K', st_ext st K (snd (polygons_to_oas_g gf st l)) K' /\
               forall KF VF TF, prefix K' KF -> prefix (ps_vals (snd (polygons_to_oas_g gf st l))) VF ->
                                Forall2 (gep_res KF VF TF CN) (snd (fst (polygons_to_oas_g gf st l))) (map pview_poly_g l).
  Proof.
    induction l as [|p t IH]; intros st K HNR; cbn [polygons_to_oas_g].
    - exists K. split; [apply st_ext_refl; exact HNR|]. intros; constructor.
    - destruct (polygon_to_oas_g_res CN st K p HNR) as (K1 & E1 & R1).
      destruct (polygon_to_oas_g gf st p) as [[r1 d1] st1]. cbn [fst snd] in *.
      destruct (IH st1 K1 (proj1 E1)) as (K2 & E2 & R2).
      destruct (polygons_to_oas_g gf st1 t) as [[r2 d2] st2]. cbn [fst snd] in *.
      exists K2. split; [eapply st_ext_trans; eassumption|]. intros KF VF TF HK HV. cbn [map]. constructor.
      + apply R1; [eapply prefix_trans; [apply E2|exact HK]|eapply prefix_trans; [apply E2|exact HV]].
      + apply R2; assumption.
  Qed.

  Definition cell_res_g (KF VF TF CN : list (list N)) (i : N) (gc : cell) (c : wcell) : Prop :=
    c_name gc = NNum i /\ c_props gc = [] /\
    Forall2 (gep_res KF VF TF CN) (c_elems gc) (pview_elems_g c).

  Lemma cell_to_oas_g_res cells ts T st K c i : NR ts T -> NR (ps_names st) K -> cell_index cells (cl_name c) = Some i ->
    exists T' K', NR (snd (fst (cell_to_oas_g gf cells ts st c))) T' /\ prefix T T' /\
                  st_ext st K (snd (cell_to_oas_g gf cells ts st c)) K' /\
                  forall KF VF TF, prefix K' KF -> prefix (ps_vals (snd (cell_to_oas_g gf cells ts st c))) VF -> prefix T' TF ->
                                   cell_res_g KF VF TF cells i (snd (fst (fst (cell_to_oas_g gf cells ts st c)))) c.
  Proof.
    intros HT HNR Hi. unfold cell_to_oas_g. rewrite Hi.
    destruct (polygons_to_oas_g_res cells (cl_polys c) st K HNR) as (K1 & E1 & R1).
    destruct (polygons_to_oas_g gf st (cl_polys c)) as [[r1 d1] st1]. cbn [fst snd] in *.
    destruct (flexpaths_to_oas_res cells (cl_paths c) st1 K1 (proj1 E1)) as (K2 & E2 & R2).
    destruct (flexpaths_to_oas st1 (cl_paths c)) as [[r2 d2] st2]. cbn [fst snd] in *.
    destruct (references_to_oas_res cells (cl_refs c) st2 K2 (proj1 E2)) as (K3 & E3 & R3).
    destruct (references_to_oas cells st2 (cl_refs c)) as [[r3 d3] st3]. cbn [fst snd] in *.
    destruct (labels_to_oas_res cells (cl_labels c) ts T st3 K3 HT (proj1 E3)) as (T4 & K4 & HT4 & PT4 & E4 & R4).
    destruct (labels_to_oas ts st3 (cl_labels c)) as [[[r4 d4] ts4] st4]. cbn [fst snd] in *.
    exists T4, K4. split; [exact HT4|]. split; [exact PT4|].
    split; [eapply st_ext_trans; [eapply st_ext_trans; [eapply st_ext_trans; [exact E1|exact E2]|exact E3]|exact E4]|].
    intros KF VF TF HK HV HTF. split; [reflexivity|]. split; [reflexivity|]. cbn [c_elems]. unfold pview_elems_g.
    destruct E2 as (_ & P2K & P2V), E3 as (_ & P3K & P3V), E4 as (_ & P4K & P4V).
    repeat apply Forall2_app_intro.
    - apply R1; [eapply prefix_trans; [exact P2K|]; eapply prefix_trans; [exact P3K|]; eapply prefix_trans; [exact P4K|exact HK]
                |eapply prefix_trans; [exact P2V|]; eapply prefix_trans; [exact P3V|]; eapply prefix_trans; [exact P4V|exact HV]].
    - apply R2; [eapply prefix_trans; [exact P3K|]; eapply prefix_trans; [exact P4K|exact HK]
                |eapply prefix_trans; [exact P3V|]; eapply prefix_trans; [exact P4V|exact HV]].
    - apply R3; [eapply prefix_trans; [exact P4K|exact HK]|eapply prefix_trans; [exact P4V|exact HV]].
    - apply R4; assumption.
  Qed.

  Definition cells_res_g (KF VF TF CN : list (list N)) (gcs : list cell) (l : list wcell) : Prop :=
    Forall2 (fun gc c => exists i, cell_index CN (cl_name c) = Some i /\ cell_res_g KF VF TF CN i gc c) gcs l.

  Lemma cells_to_oas_g_res cells : forall l pre pos ts T st K,
    cells = pre ++ map cl_name l -> NoDup cells -> NR ts T -> NR (ps_names st) K ->
    exists T' K', NR (snd (fst (cells_to_oas_g gf cells pos ts st l))) T' /\ prefix T T' /\
                  st_ext st K (snd (cells_to_oas_g gf cells pos ts st l)) K' /\
                  forall KF VF TF, prefix K' KF -> prefix (ps_vals (snd (cells_to_oas_g gf cells pos ts st l))) VF -> prefix T' TF ->
                                   cells_res_g KF VF TF cells (snd (fst (fst (fst (cells_to_oas_g gf cells pos ts st l))))) l.
  Proof.
    induction l as [|c t IH]; intros pre pos ts T st K Hc Hnd HT HNR; cbn [cells_to_oas_g].
    - exists T, K. split; [exact HT|]. split; [apply prefix_refl|]. split; [apply st_ext_refl; exact HNR|]. intros; constructor.
    - cbn [map] in Hc.
      assert (Hi : cell_index cells (cl_name c) = Some (N.of_nat (length pre))).
      { rewrite Hc. apply cell_index_nodup. rewrite <- Hc. exact Hnd. }
      destruct (cell_to_oas_g_res cells ts T st K c _ HT HNR Hi) as (T1 & K1 & HT1 & PT1 & E1 & R1).
      destruct (cell_to_oas_g gf cells ts st c) as [[[r1 d1] ts1] st1]. cbn [fst snd] in *.
      destruct (IH (pre ++ [cl_name c]) (pos + reclen r1) ts1 T1 st1 K1) as (T2 & K2 & HT2 & PT2 & E2 & R2);
        [rewrite <- app_assoc; exact Hc|exact Hnd|exact HT1|exact (proj1 E1)|].
      destruct (cells_to_oas_g gf cells (pos + reclen r1) ts1 st1 t) as [[[[r2 d2] o2] ts2] st2]. cbn [fst snd] in *.
      exists T2, K2. split; [exact HT2|]. split; [eapply prefix_trans; eassumption|].
      split; [eapply st_ext_trans; eassumption|]. intros KF VF TF HK HV HTF. constructor.
      + exists (N.of_nat (length pre)). split; [exact Hi|].
        apply R1; [eapply prefix_trans; [apply E2|exact HK]|eapply prefix_trans; [apply E2|exact HV]|
                   eapply prefix_trans; [exact PT2|exact HTF]].
      + apply R2; assumption.
  Qed.

  Lemma cells_offsets_bound_g cells : forall l pos ts st,
    Forall (fun o => o <= pos + reclen (fst (fst (fst (fst (cells_to_oas_g gf cells pos ts st l))))))
           (snd (fst (fst (cells_to_oas_g gf cells pos ts st l)))).
  Proof.
    induction l as [|c t IH]; intros pos ts st; cbn [cells_to_oas_g]; [constructor|].
    destruct (cell_to_oas_g gf cells ts st c) as [[[r1 d1] ts1] st1].
    specialize (IH (pos + reclen r1) ts1 st1).
    destruct (cells_to_oas_g gf cells (pos + reclen r1) ts1 st1 t) as [[[[r2 d2] o2] ts2] st2]. cbn [fst snd] in *.
    rewrite reclen_app. constructor; [lia|]. eapply Forall_impl; [|exact IH]. cbv beta. intros a Ha. lia.
  Qed.

  Lemma vp_pview_elems_g c :
    map vp (pview_elems_g c) =
    map (view_poly_g gf) (cl_polys c) ++ flat_map view_path (cl_paths c) ++ map view_ref (cl_refs c) ++ map view_label (cl_labels c).
  Proof.
    unfold pview_elems_g. rewrite !map_app, !map_map.
    assert (E1 : map (fun x => vp (pview_poly_g x)) (cl_polys c) = map (view_poly_g gf) (cl_polys c)) by reflexivity.
    assert (E3 : map (fun x => vp (pview_ref x)) (cl_refs c) = map view_ref (cl_refs c)) by reflexivity.
    assert (E4 : map (fun x => vp (pview_label x)) (cl_labels c) = map view_label (cl_labels c)) by reflexivity.
    assert (E2 : map vp (flat_map pview_path (cl_paths c)) = flat_map view_path (cl_paths c)).
    { induction (cl_paths c) as [|h t IH]; [reflexivity|]. cbn [flat_map]. rewrite map_app, IH. f_equal.
      unfold pview_path, view_path. destruct (length (ph_pts h) <? 2)%nat; [reflexivity|]. rewrite map_map. reflexivity. }
    rewrite E1, E2, E3, E4. reflexivity.
  Qed.

  Lemma resolve_rcell_g_g m k cfg names offs KF VF TF i gc c :
    agrees (k_cn k) names -> agrees (k_ts k) TF -> agrees (k_pn k) KF -> agrees (k_ps k) VF ->
    cell_index names (cl_name c) = Some i -> cell_res_g KF VF TF names i gc c ->
    omap (resolve_prop (k_pn k) (k_ps k)) (rev (cn_props_of (k_cnp k) i)) =
      Some (view_props (cellname_props cfg c (cell_offset_of names offs (cl_name c)))) ->
    resolve_cell (DS m k) (rcell_g gc) = Some (view_cell_g gf cfg names offs c).
  Proof.
    intros HaC HaT HaK HaV Hi (Hn & Hp & Hel) Hcn.
    unfold resolve_cell. cbn [DS d_cellnames d_propnames d_propstrings d_cn_props d_textstrings rcell_g c_name c_props c_elems].
    rewrite Hn, Hp. cbn [resolve_nref rev omap obnd].
    pose proof (HaC _ _ (cell_index_some names (cl_name c) i Hi)) as Hl. rewrite N2Nat.id in Hl. rewrite Hl. cbn [obnd].
    rewrite Hcn. cbn [obnd]. rewrite rev_involutive.
    assert (Hes : omap (fun ep : element * list prop =>
                          let? e := resolve_elem (k_cn k) (k_ts k) (fst ep) in
                          let? ps := omap (resolve_prop (k_pn k) (k_ps k)) (rev (snd ep)) in Some (e, ps))
                       (map (fun ep : element * list prop => (fst ep, rev (snd ep))) (c_elems gc)) =
                  Some (map vp (pview_elems_g c))).
    { induction Hel as [|gep vep geps veps H1 H2 IH]; [reflexivity|].
      cbn [map omap fst snd]. rewrite rev_involutive.
      destruct (gep_res_resolve (k_cn k) (k_ts k) (k_pn k) (k_ps k) KF VF TF names gep vep HaC HaT HaK HaV H1) as [E1 E2].
      rewrite E1. cbn [obnd]. rewrite E2. cbn [obnd]. rewrite IH. reflexivity. }
    rewrite Hes. cbn [obnd]. rewrite app_nil_r, vp_pview_elems_g. reflexivity.
  Qed.

  Lemma pview_elems_g_props c : wcell_okp c -> Forall (fun ep => wprops_ok (snd ep)) (pview_elems_g c).
  Proof.
    intros (_ & H1 & H2 & H3 & H4 & _). unfold pview_elems_g.
    apply Forall_app. split; [|apply Forall_app; split; [|apply Forall_app; split]].
    - apply Forall_forall. intros ep Hin. apply in_map_iff in Hin. destruct Hin as (p & <- & Hp).
      rewrite Forall_forall in H1. apply (H1 p Hp).
    - apply Forall_forall. intros ep Hin. apply in_flat_map in Hin. destruct Hin as (h & Hh & Hin).
      rewrite Forall_forall in H2. unfold pview_path in Hin. destruct (length (ph_pts h) <? 2)%nat; [destruct Hin|].
      apply in_map_iff in Hin. destruct Hin as (el & <- & _). apply (H2 h Hh).
    - apply Forall_forall. intros ep Hin. apply in_map_iff in Hin. destruct Hin as (p & <- & Hp).
      rewrite Forall_forall in H3. apply (H3 p Hp).
    - apply Forall_forall. intros ep Hin. apply in_map_iff in Hin. destruct Hin as (p & <- & Hp).
      rewrite Forall_forall in H4. apply (H4 p Hp).
  Qed.

  Lemma cells_res_g_wf KF VF TF CN gcs l :
    cells_res_g KF VF TF CN gcs l -> Forall wcell_okp l -> len_ok KF -> len_ok VF -> len_ok TF -> len_ok CN ->
    Forall wf_gcell gcs.
  Proof.
    intros H Hok HK HV HT HC. revert Hok. induction H as [|gc c gcs cs H1 H2 IH]; intros Hok; [constructor|].
    inversion Hok as [|? ? Ho1 Ho2]; subst. constructor; [|apply IH; exact Ho2].
    destruct H1 as (i & Hi & Hn & Hp & Hel). split; [|split; [exact Hp|]].
    - exists i. split; [exact Hn|]. apply (nth_error_wf CN i _ HC (cell_index_some CN _ i Hi)).
    - apply (geps_res_wf KF VF TF CN _ _ Hel (pview_elems_g_props c Ho1) HK HV HT HC).
  Qed.

  Lemma cells_res_g_nodup KF VF TF CN gcs l : cells_res_g KF VF TF CN gcs l -> NoDup (map cl_name l) -> NoDup (map c_name gcs).
  Proof.
    intros H. induction H as [|gc c gcs cs H1 H2 IH]; intros Hnd; [constructor|].
    cbn [map] in *. inversion Hnd as [|? ? Hnin Hnd']; subst. constructor; [|apply IH; exact Hnd'].
    intros Hin. apply in_map_iff in Hin. destruct Hin as (gc' & En & Hin').
    destruct (Forall2_in_l _ _ _ gc' H2 Hin') as (c' & Hc' & (i' & Hi' & Hn' & _)).
    destruct H1 as (i & Hi & Hn & _). rewrite Hn, Hn' in En. injection En as ->.
    apply Hnin. apply in_map_iff. exists c'. split; [|exact Hc'].
    pose proof (cell_index_some CN _ _ Hi) as A. pose proof (cell_index_some CN _ _ Hi') as B. congruence.
  Qed.
End GenericRes.

(* a well-formed library of the covered subset, the file size taken under the geometry routine in question *)
Definition wlib_ok_g (gf : wpoly -> geom) (l : wlib) : Prop :=
  wprops_ok (li_props l) /\ NoDup (map cl_name (li_cells l)) /\ Forall wcell_okp (li_cells l) /\
  forall cfg, N.of_nat (length (write_oas_model_g gf cfg l)) < two64.

Section GenericSpec.
  Variable gf : wpoly -> geom.
  Hypothesis gf_geom : forall p, is_geom (snd (gf p)).
  Hypothesis gf_ne : forall p, fst (gf p) <> [].
  Hypothesis gf_step : geom_step dec_record wpoly_ok gf.

  Lemma steps_polygon_g ois st p recs ep st' : polygon_to_oas_g gf st p = (recs, ep, st') ->
    wpoly_ok p -> wf_gep ep -> elem_steps ois recs [ep].
  Proof.
    unfold polygon_to_oas_g. pose proof (properties_to_oas_enc (py_props p) st) as Hpr.
    destruct (properties_to_oas st (py_props p)) as [[pr pd] st1]. cbn [fst snd] in Hpr. subst pr.
    intros [= <- <- <-] Hok [_ Hpd]. cbn [snd] in Hpd.
    apply elem_steps_one; [apply gf_ne|exact Hpd|].
    intros m k c cs Ha Hc. exact (gf_step ois p Hok m k c cs Ha Hc).
  Qed.

  Lemma steps_polygons_g ois : forall l st recs eps st', polygons_to_oas_g gf st l = (recs, eps, st') ->
    Forall wpoly_ok l -> Forall wf_gep eps -> elem_steps ois recs eps.
  Proof.
    induction l as [|p t IH]; intros st recs eps st' E Hok Hg.
    - injection E as <- <- <-. apply elem_steps_nil.
    - cbn [polygons_to_oas_g] in E.
      destruct (polygon_to_oas_g gf st p) as [[r1 d1] st1] eqn:E1. destruct (polygons_to_oas_g gf st1 t) as [[r2 d2] st2] eqn:E2.
      injection E as <- <- <-. inversion Hok as [|? ? Hp Ht]; subst. inversion Hg as [|? ? Hg1 Hg2]; subst.
      change (d1 :: d2) with ([d1] ++ d2). apply elem_steps_app.
      + exact (steps_polygon_g ois st p r1 d1 st1 E1 Hp Hg1).
      + exact (IH st1 r2 d2 st2 E2 Ht Hg2).
  Qed.

  Lemma steps_cell_g ois cells ts st c recs gc ts' st' : cell_to_oas_g gf cells ts st c = (recs, gc, ts', st') ->
    wcell_ok c -> wf_gcell gc -> forall m k, m_abs m = true ->
    exists m' tg', steps ois m k recs m' (k_set_cells k (rcell_g gc :: k_cells k) tg') /\ m_abs m' = true.
  Proof.
    unfold cell_to_oas_g. intros E (Hp & Hh & Hr & Hl) ((i & Hn & Hi) & _ & Hg) m k Ha.
    destruct (polygons_to_oas_g gf st (cl_polys c)) as [[r1 d1] st1] eqn:E1.
    destruct (flexpaths_to_oas st1 (cl_paths c)) as [[r2 d2] st2] eqn:E2.
    destruct (references_to_oas cells st2 (cl_refs c)) as [[r3 d3] st3] eqn:E3.
    destruct (labels_to_oas ts st3 (cl_labels c)) as [[[r4 d4] ts4] st4] eqn:E4.
    injection E as <- <- <- <-. cbn [c_name c_elems] in *. injection Hn as Hn.
    apply Forall_app in Hg. destruct Hg as [G1 Hg]. apply Forall_app in Hg. destruct Hg as [G2 Hg].
    apply Forall_app in Hg. destruct Hg as [G3 G4].
    pose proof (elem_steps_app ois _ _ _ _ (steps_polygons_g ois _ _ _ _ _ E1 Hp G1)
                 (elem_steps_app ois _ _ _ _ (steps_flexpaths ois _ _ _ _ _ E2 Hh G2)
                    (elem_steps_app ois _ _ _ _ (steps_references ois cells _ _ _ _ _ E3 Hr G3)
                       (steps_labels ois _ _ _ _ _ _ _ E4 Hl G4)))) as Hall.
    set (c0 := mkCell (NNum i) [] []).
    destruct (Hall modal0 (k_set_cells k (c0 :: k_cells k) T_cell) c0 (k_cells k) eq_refl eq_refl) as (m' & S & A').
    exists m'. exists (match d1 ++ d2 ++ d3 ++ d4 with [] => T_cell | _ => T_elem end). split; [|exact A'].
    apply (steps_cons ois m k _ modal0 (k_set_cells k (c0 :: k_cells k) T_cell)); [discriminate| |].
    - intros rest. unfold dec_record. change OasisRecord_CELL_REF_NUM with 13. cbn [app]. rewrite rd_uint_small by lia. cbn [obnd].
      rewrite Hn. rewrite rd_uint_enc by exact Hi. cbn [obnd]. unfold modal_at_cell. cbn [DS d_cells].
      destruct k; reflexivity.
    - unfold after_elems in S. unfold rcell_g. cbn [c_name c_props c_elems].
      destruct (d1 ++ d2 ++ d3 ++ d4) as [|e0 et] eqn:Ed.
      + cbn [map rev]. subst c0. rewrite Hn in *. exact S.
      + rewrite push_eps_shape in S. subst c0. cbn [c_name c_props c_elems] in S. rewrite app_nil_r in S.
        rewrite Hn in *. destruct k; exact S.
  Qed.

  Lemma steps_cells_g ois cells : forall l pos ts st recs gcs offs ts' st',
    cells_to_oas_g gf cells pos ts st l = (recs, gcs, offs, ts', st') ->
    Forall wcell_ok l -> Forall wf_gcell gcs -> forall m k, m_abs m = true ->
    exists m' tg', steps ois m k recs m' (k_set_cells k (rev (map rcell_g gcs) ++ k_cells k) tg') /\ m_abs m' = true.
  Proof.
    induction l as [|c t IH]; intros pos ts st recs gcs offs ts' st' E Hok Hg m k Ha.
    - injection E as <- <- <- <- <-. exists m, (k_target k). split; [|exact Ha]. destruct k; constructor.
    - cbn [cells_to_oas_g] in E.
      destruct (cell_to_oas_g gf cells ts st c) as [[[r1 d1] ts1] st1] eqn:E1.
      destruct (cells_to_oas_g gf cells (pos + reclen r1) ts1 st1 t) as [[[[r2 d2] o2] ts2] st2] eqn:E2.
      injection E as <- <- <- <- <-. inversion Hok as [|? ? Hc Ht]; subst. inversion Hg as [|? ? Hg1 Hg2]; subst.
      destruct (steps_cell_g ois cells ts st c r1 d1 ts1 st1 E1 Hc Hg1 m k Ha) as (m1 & tg1 & S1 & A1).
      destruct (IH _ _ _ _ _ _ _ _ E2 Ht Hg2 m1 (k_set_cells k (rcell_g d1 :: k_cells k) tg1) A1) as (m2 & tg2 & S2 & A2).
      exists m2, tg2. split; [|exact A2]. eapply steps_app; [exact S1|].
      cbn [map rev]. rewrite <- app_assoc. cbn [app]. destruct k; exact S2.
  Qed.

  Theorem oas_writer_conforms_g : forall cfg l, wlib_ok_g gf l ->
    spec_oas_decode (write_oas_model_g gf cfg l) = Some (view_w_g gf cfg l).
  Proof.
    intros cfg l (Hlp & Hnd & Hcells & Hsize). specialize (Hsize cfg).
    unfold view_w_g, cell_offsets_g. unfold write_oas_model_g in *. unfold write_oas_run_g in *.
    set (names := map cl_name (li_cells l)) in *.
    set (start := start_header ++ enc_real (li_unit l) ++ [1]) in *.
    (* the three stateful passes *)
    destruct (properties_to_oas_res (li_props l) pstate0 [] NR_names0) as (K1 & X1 & R1).
    pose proof (properties_to_oas_enc (li_props l) pstate0) as Enc1.
    destruct (properties_to_oas pstate0 (li_props l)) as [[r_lp d_lp] st1] eqn:E1. cbn [fst snd] in X1, R1, Enc1.
    set (pos1 := N.of_nat (length start) + reclen r_lp) in *.
    destruct (cells_to_oas_g_res gf gf_geom names (li_cells l) [] pos1 names0 [] st1 K1 eq_refl Hnd NR_names0 (proj1 X1))
      as (T2 & K2 & HT2 & _ & X2 & R2).
    pose proof (cells_offsets_bound_g gf names (li_cells l) pos1 names0 st1) as Hoffs.
    destruct (cells_to_oas_g gf names pos1 names0 st1 (li_cells l)) as [[[[r_c d_c] offs] ts] st2] eqn:E2.
    cbn [fst snd] in HT2, X2, R2, Hoffs.
    destruct (cellnames_to_oas_res cfg names offs (li_cells l) st2 K2 (proj1 X2)) as (K3 & X3 & R3).
    pose proof (cellnames_records_bound cfg names offs (li_cells l) st2) as Hcnb.
    destruct (cellnames_to_oas cfg names offs st2 (li_cells l)) as [[r_cn d_cn] st3] eqn:E3.
    cbn [fst snd] in X3, R3, Hcnb.
    cbn [run_failed run_start run_records run_end run_offsets] in *.
    (* no hash-map failure *)
    destruct X3 as (NR3 & PK3 & PV3). destruct X2 as (NR2 & PK2 & PV2). destruct X1 as (NR1 & PK1 & PV1).
    assert (Hnf : nm_fail ts || nm_fail (ps_names st3) = false).
    { destruct HT2 as (F1 & _). destruct NR3 as (F2 & _). rewrite F1, F2. reflexivity. }
    rewrite Hnf in *.
    set (r_ts := numbered_name_records OasisRecord_TEXTSTRING (nm_items ts)) in *.
    set (r_pn := numbered_name_records OasisRecord_PROPNAME (nm_items (ps_names st3))) in *.
    set (r_ps := propstring_records (ps_vals st3)) in *.
    set (VF := ps_vals st3) in *.
    (* sizes *)
    assert (Hfile : N.of_nat (length start) + reclen r_lp + reclen r_c + reclen r_cn + reclen r_ts + reclen r_pn + reclen r_ps < two64).
    { rewrite !app_length in Hsize. rewrite !concat_app, !app_length in Hsize. unfold reclen. lia. }
    destruct (names_records_bounds OasisRecord_TEXTSTRING (nm_items ts)) as [Bts1 Bts2]. fold r_ts in Bts1, Bts2.
    destruct (names_records_bounds OasisRecord_PROPNAME (nm_items (ps_names st3))) as [Bpn1 Bpn2]. fold r_pn in Bpn1, Bpn2.
    destruct (propstring_records_bounds VF) as [Bps1 Bps2]. fold r_ps in Bps1, Bps2.
    assert (LK : len_ok K3) by (unfold len_ok; rewrite <- (NR_items_len _ _ NR3); lia).
    assert (LT : len_ok T2) by (unfold len_ok; rewrite <- (NR_items_len _ _ HT2); lia).
    assert (LV : len_ok VF) by (unfold len_ok; lia).
    assert (LC : len_ok names) by (unfold len_ok, names; rewrite map_length; lia).
    (* what is written is well formed *)
    assert (PK13 : prefix K1 K3) by (eapply prefix_trans; eassumption).
    assert (PV13 : prefix (ps_vals st1) VF) by (eapply prefix_trans; eassumption).
    pose proof (props_res_wf K3 VF d_lp (li_props l) (R1 K3 VF PK13 PV13) Hlp LK LV) as Wlp.
    pose proof (cells_res_g_wf gf K3 VF T2 names d_c (li_cells l) (R2 K3 VF T2 PK3 PV3 (prefix_refl _)) Hcells LK LV LT LC) as Wc.
    pose proof (cn_res_wf cfg names offs K3 VF (pos1 + reclen r_c) d_cn (li_cells l) (R3 K3 VF (prefix_refl _) (prefix_refl _))
                  Hcells Hoffs ltac:(unfold pos1; lia) LK LV) as Wcn.
    (* the record loop *)
    set (u := real_of_bits (li_unit l)).
    destruct (steps_props_lib false d_lp modal0 (k_init u) Wlp eq_refl eq_refl) as (m1 & SA & A1).
    set (kA := k_set_lprops (k_init u) (rev d_lp ++ k_lprops (k_init u))) in *.
    destruct (steps_cells_g false names (li_cells l) pos1 names0 st1 r_c d_c offs ts st2 E2
                (Forall_impl _ wcell_okp_ok Hcells) Wc m1 kA A1) as (m2 & tg2 & SB & A2).
    set (kB := k_set_cells kA (rev (map rcell_g d_c) ++ k_cells kA) tg2) in *.
    destruct (steps_cellnames false cfg names offs (li_cells l) st2 r_cn d_cn st3 E3
                (Forall_impl _ (fun c (H : wcell_okp c) => proj1 H) Hcells) Wcn m2 kB 0%nat A2
                (or_introl eq_refl) eq_refl (fun j _ => eq_refl)) as (m3 & SC & A3).
    fold names in SC. set (kC := k_after_cellnames kB 0 names d_cn) in *.
    destruct (k_after_cellnames_fields kB 0 names d_cn) as (FC1 & FC2 & FC3 & FC4 & FC5 & FC6 & FC7 & FC8 & FC9 & FC10 & FC11 & FC12).
    fold kC in FC1, FC2, FC3, FC4, FC5, FC6, FC7, FC8, FC9, FC10, FC11, FC12.
    (* TEXTSTRING *)
    destruct (NR_items ts T2 HT2) as (NDts & INts & PMts).
    assert (SD : steps false m3 kC r_ts m3 (k_after_ts kC (nm_items ts))).
    { apply steps_textstrings; [left; rewrite FC10; reflexivity|apply (items_values_nodup _ _ PMts)|].
      intros kv Hin. split; [|split].
      - unfold wf_str. specialize (Bts2 kv Hin). lia.
      - destruct kv as [s v]. apply INts in Hin. apply (nth_error_wf T2 v s LT Hin).
      - rewrite FC6. reflexivity. }
    set (kD := k_after_ts kC (nm_items ts)) in *.
    destruct (k_after_ts_fields kC (nm_items ts)) as (FD1 & FD2 & FD3 & FD4 & FD5 & FD6 & FD7 & FD8 & FD9 & FD10 & FD11).
    fold kD in FD1, FD2, FD3, FD4, FD5, FD6, FD7, FD8, FD9, FD10, FD11.
    (* PROPNAME *)
    destruct (NR_items (ps_names st3) K3 NR3) as (NDpn & INpn & PMpn).
    assert (SE : steps false m3 kD r_pn m3 (k_after_pn kD (nm_items (ps_names st3)))).
    { apply steps_propnames; [left; rewrite FD10, FC11; reflexivity|apply (items_values_nodup _ _ PMpn)|].
      intros kv Hin. split; [|split].
      - unfold wf_str. specialize (Bpn2 kv Hin). lia.
      - destruct kv as [s v]. apply INpn in Hin. apply (nth_error_wf K3 v s LK Hin).
      - rewrite FD7, FC7. reflexivity. }
    set (kE := k_after_pn kD (nm_items (ps_names st3))) in *.
    destruct (k_after_pn_fields kD (nm_items (ps_names st3))) as (FE1 & FE2 & FE3 & FE4 & FE5 & FE6 & FE7 & FE8 & FE9 & FE10).
    fold kE in FE1, FE2, FE3, FE4, FE5, FE6, FE7, FE8, FE9, FE10.
    (* PROPSTRING *)
    assert (SF : steps false m3 kE r_ps m3 (k_after_ps kE 0 VF)).
    { apply steps_propstrings; [left; rewrite FE10, FD11, FC12; reflexivity|rewrite FE9, FD9, FC9; reflexivity| |].
      - apply Forall_forall. intros s Hin. unfold wf_str. specialize (Bps2 s Hin). lia.
      - intros j _. rewrite FE8, FD8, FC8. reflexivity. }
    set (kF := k_after_ps kE 0 VF) in *.
    destruct (k_after_ps_fields kE 0 VF) as (FF1 & FF2 & FF3 & FF4 & FF5 & FF6 & FF7 & FF8).
    fold kF in FF1, FF2, FF3, FF4, FF5, FF6, FF7, FF8.
    assert (Sall : steps false modal0 (k_init u) (r_lp ++ r_c ++ r_cn ++ r_ts ++ r_pn ++ r_ps) m3 kF).
    { rewrite Enc1. eapply steps_app; [exact SA|]. eapply steps_app; [exact SB|]. eapply steps_app; [exact SC|].
      eapply steps_app; [exact SD|]. eapply steps_app; [exact SE|exact SF]. }
    set (R := r_lp ++ r_c ++ r_cn ++ r_ts ++ r_pn ++ r_ps) in *.
    (* END *)
    pose proof (end_record_ok
                  (match li_cells l with [] => 0 | _ :: _ => pos1 + reclen r_c end)
                  (if 0 <? nm_count ts then pos1 + reclen r_c + reclen r_cn else 0)
                  (if 0 <? nm_count (ps_names st3) then pos1 + reclen r_c + reclen r_cn + reclen r_ts else 0)
                  (match VF with [] => 0 | _ :: _ => pos1 + reclen r_c + reclen r_cn + reclen r_ts + reclen r_pn end)) as Hend.
    match type of Hend with ?A -> ?B -> ?C -> ?D -> _ =>
      assert (W1 : A) by (unfold wf_u, pos1; destruct (li_cells l); lia);
      assert (W2 : B) by (unfold wf_u, pos1; destruct (0 <? nm_count ts); lia);
      assert (W3 : C) by (unfold wf_u, pos1; destruct (0 <? nm_count (ps_names st3)); lia);
      assert (W4 : D) by (unfold wf_u, pos1; destruct VF; lia)
    end.
    specialize (Hend W1 W2 W3 W4).
    destruct (end_record_w _ _ _ _) as [|code tail]; [contradiction|]. destruct Hend as [-> Hend].
    (* the tables at END *)
    assert (Epn : k_pn kF = rev (map swap_kv (nm_items (ps_names st3))) ++ []) by (rewrite FF7, FE7, FD7, FC7; reflexivity).
    assert (Eps : k_ps kF = rev (map swap_kv (enum_from 0 VF)) ++ []) by (rewrite FF8, FE8, FD8, FC8; reflexivity).
    assert (Ets : k_ts kF = rev (map swap_kv (nm_items ts)) ++ []) by (rewrite FF6, FE6, FD6, FC6; reflexivity).
    assert (Ecn : k_cn kF = rev (map swap_kv (enum_from 0 names)) ++ []) by (rewrite FF4, FE4, FD4, FC4; reflexivity).
    assert (Ecnp : k_cnp kF = rev (cnp_list 0 d_cn) ++ []) by (rewrite FF5, FE5, FD5, FC5; reflexivity).
    assert (Elp : k_lprops kF = rev d_lp ++ []) by (rewrite FF2, FE2, FD2, FC2; reflexivity).
    assert (Ecs : k_cells kF = rev (map rcell_g d_c) ++ []) by (rewrite FF3, FE3, FD3, FC3; reflexivity).
    assert (Eu : k_unit kF = u) by (rewrite FF1, FE1, FD1, FC1; reflexivity).
    assert (AgK : agrees (k_pn kF) K3) by (rewrite Epn; apply agrees_items; exact PMpn).
    assert (AgV : agrees (k_ps kF) VF) by (rewrite Eps; apply agrees_enum).
    assert (AgT : agrees (k_ts kF) T2) by (rewrite Ets; apply agrees_items; exact PMts).
    assert (AgC : agrees (k_cn kF) names) by (rewrite Ecn; apply agrees_enum).
    assert (Hfin : finalize (DS m3 kF) =
                   Some (mkLayout u (view_props (li_props l)) (map (view_cell_g gf cfg names offs) (li_cells l)))).
    { rewrite finalize_DS. rewrite Elp, app_nil_r, rev_involutive.
      rewrite (props_res_resolve (k_pn kF) (k_ps kF) K3 VF d_lp (li_props l) AgK AgV (R1 K3 VF PK13 PV13)). cbn [obnd].
      rewrite Ecs, app_nil_r, rev_involutive.
      pose proof (R2 K3 VF T2 PK3 PV3 (prefix_refl _)) as RC. pose proof (R3 K3 VF (prefix_refl _) (prefix_refl _)) as RN.
      rewrite (omap_nth (resolve_cell (DS m3 kF)) (map rcell_g d_c) (map (view_cell_g gf cfg names offs) (li_cells l))).
      - cbn [obnd]. rewrite Eu. reflexivity.
      - rewrite !map_length. apply (Forall2_length_eq _ _ _ RC).
      - intros j a b Ha Hb. rewrite nth_error_map in Ha, Hb.
        destruct (nth_error d_c j) as [gc|] eqn:Egc; [|discriminate]. destruct (nth_error (li_cells l) j) as [c|] eqn:Ec; [|discriminate].
        cbn [option_map] in Ha, Hb. injection Ha as <-. injection Hb as <-.
        destruct (Forall2_nth _ _ _ j gc c RC Egc Ec) as (i & Hi & Hres).
        assert (Hij : i = N.of_nat j).
        { pose proof (cell_index_some names (cl_name c) i Hi) as H1.
          assert (H2 : nth_error names j = Some (cl_name c)) by (unfold names; rewrite nth_error_map, Ec; reflexivity).
          assert (N.to_nat i = j); [|lia].
          apply (proj1 (NoDup_nth_error names) Hnd); [apply nth_error_Some; congruence|congruence]. }
        destruct (nth_error d_cn j) as [pd|] eqn:Epd.
        + apply (resolve_rcell_g_g gf m3 kF cfg names offs K3 VF T2 i gc c AgC AgT AgK AgV Hi Hres).
          rewrite Ecnp, app_nil_r, cnprops_rev, rev_involutive. rewrite Hij.
          change (N.of_nat j) with (N.of_nat (0 + j)). rewrite cnp_filter, Epd.
          apply (props_res_resolve (k_pn kF) (k_ps kF) K3 VF _ _ AgK AgV). apply (Forall2_nth _ _ _ j pd c RN Epd Ec).
        + exfalso. apply nth_error_None in Epd. rewrite (Forall2_length_eq _ _ _ RN) in Epd.
          assert (j < length (li_cells l))%nat by (apply nth_error_Some; congruence). lia. }
    (* the header *)
    unfold spec_oas_decode. unfold start, start_header. rewrite <- !app_assoc. rewrite strip_prefix_app. cbn [obnd].
    change OasisRecord_START with 1. cbn [app].
    rewrite rd_uint_small by lia. cbn [obnd N.eqb Pos.eqb negb].
    match goal with |- context [rd_string (3 :: 49 :: 46 :: 48 :: ?X)] =>
      change (3 :: 49 :: 46 :: 48 :: X) with (wr_string version_1_0 ++ X) end.
    rewrite rd_string_enc by (unfold wf_str, two64; cbn; lia). cbn [obnd].
    change (strip_prefix version_1_0 version_1_0) with (Some (@nil N)). cbn [obnd].
    change (length version_1_0 =? 3)%nat with true. cbn [negb].
    rewrite rd_real_enc_real. cbn [obnd app].
    rewrite rd_uint_small by lia. cbn [obnd N.ltb N.compare Pos.compare Pos.compare_cont N.eqb].
    change (d_init (real_of_bits (li_unit l))) with (DS modal0 (k_init u)).
    apply (dec_loop_mono (length R + 1)).
    - rewrite (steps_loop false _ _ _ _ _ Sall 1%nat (2 :: tail)). cbn [dec_loop].
      unfold dec_record. rewrite rd_uint_small by lia. cbn [obnd]. rewrite Hend. rewrite Hfin. reflexivity.
    - rewrite app_length. pose proof (concat_length_ge R (steps_nonempty _ _ _ _ _ _ Sall)). cbn [length]. lia.
  Qed.
End GenericSpec.

(* ================================================================== 5. the writer under a flag word *)
(* the covered subset under a flag word: as OasisWriteProofs.wlib_ok, the file size being that of the file written under
   these flags (a detected record can be longer than the POLYGON record it replaces, e.g. when the corner takes more
   bytes than the first vertex, so that no flag word's size bounds another's) *)
Definition wlib_ok_d (flags : dflags) (l : wlib) : Prop := wlib_ok_g (geom_d (fst flags) (snd flags)) l.

Lemma wlib_ok_d_off l : wlib_ok_d (false, false) l <-> wlib_ok l.
Proof.
  unfold wlib_ok_d, wlib_ok_g, wlib_ok. cbn [fst snd].
  split; intros (H1 & H2 & H3 & H4); (split; [exact H1|split; [exact H2|split; [exact H3|]]]); intros cfg;
    specialize (H4 cfg); pose proof (write_oas_model_d_off_lemma cfg l) as E; unfold write_oas_model_d in E; cbn [fst snd] in E;
    [rewrite <- E|rewrite E]; exact H4.
Qed.

Theorem oas_writer_conforms_d_lemma : forall cfg flags l, wlib_ok_d flags l ->
  spec_oas_decode (write_oas_model_d cfg flags l) = Some (view_w_d cfg flags l).
Proof.
  intros cfg flags l H. unfold write_oas_model_d, view_w_d.
  apply oas_writer_conforms_g; [intros p; apply geom_d_is_geom|intros p; apply geom_d_nonempty|apply geom_d_step|exact H].
Qed.

(* ---- the file holds the saved library, up to the vertex cycle of the detected polygons *)
Lemma elem_points_poly p : py_pts p <> [] -> elem_points (snd (geom_polygon p)) = py_pts p.
Proof.
  unfold geom_polygon. cbn [snd elem_points]. destruct (py_pts p) as [|[x0 y0] t]; [congruence|]. intros _.
  unfold rel_pts, first_pt. cbn [hd tl fst snd map]. unfold padd at 1. cbn [fst snd].
  apply f_equal2; [apply f_equal2; lia|]. rewrite map_map.
  rewrite <- (map_id t) at 2. apply map_ext. intros [a b]. unfold padd. cbn [fst snd]. apply f_equal2; lia.
Qed.

Lemma trap_element_ldr l d r t : elem_ldr (trap_element l d r t) = Some (l, d, r).
Proof. destruct t as [[[[ty corner] size] da] db]. unfold trap_element. destruct (25 <? ty); reflexivity. Qed.

Lemma geom_d_sim dr dt p : wpoly_ok p -> elem_sim (snd (geom_d dr dt p)) (snd (geom_polygon p)).
Proof.
  intros (Hl & Hd & Hne & Hpts & Hlen & Hrep). unfold geom_d.
  destruct (if dr then is_rectangle (py_pts p) else None) as [cs0|] eqn:Er.
  - assert (Hr : is_rectangle (py_pts p) = Some cs0) by (destruct dr; [exact Er|discriminate]).
    right. exists (py_layer p, py_type p, view_rep (py_rep p)). split; [reflexivity|]. split; [reflexivity|].
    rewrite (elem_points_poly p Hne). unfold geom_rectangle. cbn [snd].
    apply rectangle_detection_sound_lemma. exact Hr.
  - destruct (if dt then is_trapezoid (py_pts p) else None) as [t|] eqn:Et; [|left; reflexivity].
    assert (Ht : is_trapezoid (py_pts p) = Some t) by (destruct dt; [exact Et|discriminate]).
    right. exists (py_layer p, py_type p, view_rep (py_rep p)).
    assert (E : snd (geom_trapezoid p t) = trap_element (py_layer p) (py_type p) (view_rep (py_rep p)) t)
      by (destruct t as [[[[ty corner] size] da] db]; reflexivity).
    rewrite E. split; [apply trap_element_ldr|]. split; [reflexivity|].
    rewrite (elem_points_poly p Hne).
    apply trapezoid_detection_sound_lemma; [exact Ht|]. apply trap_facts_sizes. apply (is_trapezoid_facts _ _ Hpts Ht).
Qed.

Lemma ep_sim_refl a : ep_sim a a.
Proof. split; [left; reflexivity|reflexivity]. Qed.
Lemma Forall2_refl {A} (R : A -> A -> Prop) : (forall a, R a a) -> forall l, Forall2 R l l.
Proof. intros H l. induction l; constructor; auto. Qed.
Lemma prop_sim_refl p : prop_sim p p.
Proof. split; [reflexivity|]. split; [reflexivity|left; reflexivity]. Qed.

Lemma cellname_props_sim cfg c o1 o2 :
  Forall2 prop_sim (view_props (cellname_props cfg c o1)) (view_props (cellname_props cfg c o2)).
Proof.
  unfold cellname_props. destruct (cfg_cell_offset cfg); [|apply Forall2_refl; apply prop_sim_refl].
  unfold replace_property, view_props. cbn [map]. constructor; [|apply Forall2_refl; apply prop_sim_refl].
  split; [reflexivity|]. split; [reflexivity|]. right. reflexivity.
Qed.

Lemma view_cell_d_sim dr dt cfg names o1 o2 c : wcell_okp c ->
  cell_sim (view_cell_g (geom_d dr dt) cfg names o1 c) (view_cell cfg names o2 c).
Proof.
  intros (_ & Hp & _). unfold view_cell_g, view_cell, cell_sim. cbn [c_name c_props c_elems].
  split; [reflexivity|]. split; [apply cellname_props_sim|].
  apply Forall2_app_intro; [|apply Forall2_refl; apply ep_sim_refl].
  induction Hp as [|p t [Hp _] _ IH]; [constructor|]. cbn [map]. constructor; [|exact IH].
  split; [|reflexivity]. exact (geom_d_sim dr dt p Hp).
Qed.

Theorem view_w_d_sim_lemma : forall cfg flags l, Forall wcell_okp (li_cells l) ->
  layout_sim (view_w_d cfg flags l) (view_w cfg l).
Proof.
  intros cfg flags l H. unfold view_w_d, view_w_g, view_w, layout_sim. cbn [l_unit l_props l_cells].
  split; [reflexivity|]. split; [reflexivity|].
  generalize (cell_offsets_g (geom_d (fst flags) (snd flags)) cfg l), (cell_offsets cfg l), (map cl_name (li_cells l)).
  intros o1 o2 names. induction H as [|c t Hc _ IH]; [constructor|]. cbn [map]. constructor; [|exact IH].
  apply view_cell_d_sim. exact Hc.
Qed.

(* without OASIS_CONFIG_PROPERTY_CELL_OFFSET the properties of the cells are equal, not only similar *)
Lemma view_w_d_cell_props : forall cfg flags l, cfg_cell_offset cfg = false ->
  map c_props (l_cells (view_w_d cfg flags l)) = map c_props (l_cells (view_w cfg l)).
Proof.
  intros cfg flags l H. unfold view_w_d, view_w_g, view_w. cbn [l_cells]. rewrite !map_map. apply map_ext. intros c.
  unfold view_cell_g, view_cell, cellname_props. cbn [c_props]. rewrite H. reflexivity.
Qed.

(* ================================================================== non-vacuity *)
(* rectangle, square, compact trapezoids 1 and 16, horizontal trapezoid with two slanted sides, vertical trapezoid with one,
   a five-vertex near miss; one repetition, one property *)
Definition sample_dlib : wlib :=
  mkWLib 4652007308841189376 []
    [ mkWCell [84]
        [ mkWPoly 1 2 [(10, 5); (0, 5); (0, 0); (10, 0)]%Z (WRect 3 2 20 (-30)) [([80; 50], [VStr [120; 121]])];
          mkWPoly 1 0 [(-7, 3); (-7, 9); (-1, 9); (-1, 3)]%Z WNone [];
          mkWPoly 2 0 [(0, 0); (7, 0); (10, 3); (0, 3)]%Z WNone [];
          mkWPoly 2 1 [(5, 5); (5, 9); (9, 5)]%Z WNone [];
          mkWPoly 3 0 [(0, 0); (20, 0); (15, 4); (2, 4)]%Z WNone [];
          mkWPoly 3 1 [(0, 0); (0, 10); (4, 13); (4, 0)]%Z (WExplX [30; 10]%Z) [];
          mkWPoly 4 0 [(0, 0); (5, 0); (10, 0); (10, 5); (0, 5)]%Z WNone [] ]
        [] [] [] [] ].

Example sample_dlib_ok : forall flags, wlib_ok_d flags sample_dlib.
Proof.
  intros [dr dt]. split; [constructor|split; [|split]].
  - cbn. repeat constructor; cbn; intuition discriminate.
  - assert (Hz : forall a b : Z, (- 2 ^ 62 < a < 2 ^ 62)%Z -> (- 2 ^ 62 < b < 2 ^ 62)%Z -> ptc (a, b)) by (intros; split; assumption).
    repeat (first [apply Forall_nil | apply Forall_cons | split]);
      try exact I; try (apply Hz; lia); try discriminate;
      unfold wf_str, wf_u, fits63, wf_pt; cbn [fst snd length];
      rewrite ?two64_val, ?two63_val; try lia.
  - intros [[|]]; destruct dr, dt; vm_compute; reflexivity.
Qed.

Example sample_dlib_conforms : forall cfg flags,
  spec_oas_decode (write_oas_model_d cfg flags sample_dlib) = Some (view_w_d cfg flags sample_dlib).
Proof. intros cfg flags. apply oas_writer_conforms_d_lemma. apply sample_dlib_ok. Qed.

(* the records the sample is written with under the three non-zero flag words (first byte of each polygon's record) *)
Example sample_dlib_records :
  map (fun p => hd 0 (fst (geom_d true false p))) (cl_polys (hd (mkWCell [] [] [] [] [] []) (li_cells sample_dlib))) = [20; 20; 21; 21; 21; 21; 21] /\
  map (fun p => hd 0 (fst (geom_d false true p))) (cl_polys (hd (mkWCell [] [] [] [] [] []) (li_cells sample_dlib))) = [26; 26; 26; 26; 23; 25; 21] /\
  map (fun p => hd 0 (fst (geom_d true true p))) (cl_polys (hd (mkWCell [] [] [] [] [] []) (li_cells sample_dlib))) = [20; 20; 26; 26; 23; 25; 21].
Proof. vm_compute. repeat split; reflexivity. Qed.

Check write_oas_model_d_off_lemma.
Check oas_writer_conforms_d_lemma.
Check view_w_d_sim_lemma.
Print Assumptions write_oas_model_d_off_lemma.
Print Assumptions oas_writer_conforms_d_lemma.
Print Assumptions view_w_d_sim_lemma.
