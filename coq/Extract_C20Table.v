Require Import Base Table.
Require Import Extraction ExtrOcamlBasic.
Extraction Blacklist List String Int.
Extraction "../ocaml/extracted/c20_table.ml"
  smap_run smap_get_default uset_run stylemap_run tagmap_run layout
  hash_str hash_u64 cap count slots
  smap_run_spec uset_run_spec stylemap_run_spec tagmap_run_spec
  Z.of_N. (* Z.of_N only so that the extracted module has the type z that ocaml/conv.ml mentions *)
