Require Import Base Table.
Require Import Extraction ExtrOcamlBasic.
Extraction Blacklist List String Int.
Extraction "../ocaml/extracted/c20_table.ml"
  smap_run smap_get_default uset_run stylemap_run tagmap_run layout
  hash_str hash_u64 cap count slots Z.of_N.
