Require Import Base PropList.
Require Import Extraction ExtrOcamlBasic.
Extraction Blacklist List String Int.
Extraction "../ocaml/extracted/c20_proplist.ml" run_model run_spec crash_reached
  remove_property remove_property_fixed remove_property_gen spec_remove
  set_property set_gds_property get_property get_gds_property remove_gds_property
  properties_copy properties_clear is_gds_property gds_name name_eqb.
