(* Proofs about OasisDetect.v: whatever record is_rectangle / is_trapezoid make Polygon::to_oas select, the
   specification decodes it to the same vertex cycle (up to starting vertex and orientation). *)
Require Import Base OasisInt OasisSpec OasisSpecProofs OasisDetect.
From Coq Require Import ZifyBool.
Local Open Scope Z_scope.

(* ------------------------------------------------------------------ the dihedral actions compose *)
Ltac try_dih4 :=
  first [exists 0%nat; reflexivity | exists 1%nat; reflexivity | exists 2%nat; reflexivity | exists 3%nat; reflexivity
        | exists 4%nat; reflexivity | exists 5%nat; reflexivity | exists 6%nat; reflexivity | exists 7%nat; reflexivity].

Ltac try_dih3 :=
  first [exists 0%nat; reflexivity | exists 1%nat; reflexivity | exists 2%nat; reflexivity | exists 3%nat; reflexivity
        | exists 4%nat; reflexivity | exists 5%nat; reflexivity].
Lemma dih4_compose_ex i j t : exists k, dih4 i (dih4 j t) = dih4 k t.
Proof.
  destruct t as [[[a b] c] d].
  destruct i as [|[|[|[|[|[|[|[|i]]]]]]]]; destruct j as [|[|[|[|[|[|[|[|j]]]]]]]]; cbn [dih4]; try_dih4.
Qed.
Lemma dih3_compose_ex i j t : exists k, dih3 i (dih3 j t) = dih3 k t.
Proof.
  destruct t as [[a b] c].
  destruct i as [|[|[|[|[|[|i]]]]]]; destruct j as [|[|[|[|[|[|j]]]]]]; cbn [dih3]; try_dih3.
Qed.

Ltac pairs_lia := repeat match goal with |- (_, _) = (_, _) => apply f_equal2 end; lia.

(* ------------------------------------------------------------------ stage A: the choice of p q r s *)
Lemma assign4_spec a b c d v p q r s :
  assign4 a b c d = Some (v, p, q, r, s) ->
  (exists k, dih4 k (r, s, q, p) = (a, b, c, d)) /\
  (if v then px p = px q /\ px r = px s else py p = py q /\ py r = py s).
Proof.
  unfold assign4.
  repeat match goal with
         | |- context [if ?c then _ else _] => let E := fresh "E" in destruct c eqn:E
         end;
    intros H; inversion H; subst; clear H;
    (split; [try_dih4 | repeat match goal with
                               | H : (_ && _) = true |- _ => apply andb_true_iff in H; destruct H
                               | H : (_ =? _) = true |- _ => apply Z.eqb_eq in H
                               end; split; congruence]).
Qed.

(* ------------------------------------------------------------------ stage B: the general trapezoid record *)
Lemma trap_points_measure (v : bool) p q r s corner size da db :
  (if v return Prop then px p = px q /\ px r = px s else py p = py q /\ py r = py s) ->
  measure4 v p q r s = (corner, size, da, db) ->
  0 <= fst size -> 0 <= snd size ->
  map (padd corner) (trap_points v (fst size) (snd size) da db) = [r; s; q; p].
Proof.
  destruct p as [p1 p2], q as [q1 q2], r as [r1 r2], s as [s1 s2].
  unfold measure4, px, py. cbn [fst snd].
  destruct v; intros [H1 H2] M; inversion M; subst; clear M; cbn [fst snd]; intros S1 S2;
    unfold trap_points, padd; cbn [map fst snd];
    repeat match goal with
           | |- context [if ?c then _ else _] => let E := fresh "E" in destruct c eqn:E
           | H : context [if ?c then _ else _] |- _ => let E := fresh "E" in destruct c eqn:E
           end;
    repeat (f_equal; try lia).
Qed.

(* ------------------------------------------------------------------ stage C: the compact types *)
Lemma compact_type_points v sx sy da db ty :
  compact_type v sx sy da db = Some ty -> 0 <= sx -> 0 <= sy ->
  (ty < 26)%N /\
  same_cycle (trap_points v sx sy da db) (map (lfpt_eval sx sy) (spec_ctrap_vertices ty)).
Proof.
  unfold compact_type. intros H S1 S2.
  repeat match type of H with
         | context [if ?c then _ else _] => let E := fresh "E" in destruct c eqn:E
         end;
    inversion H; subst; clear H; (split; [reflexivity|]);
    repeat match goal with
           | H : (_ =? _) = true |- _ => apply Z.eqb_eq in H
           | H : (_ =? _) = false |- _ => apply Z.eqb_neq in H
           end; subst;
    unfold trap_points, spec_ctrap_vertices, htrap, vtrap, lfpt_eval, lf_eval, b2z; cbn [map fst snd];
    repeat match goal with
           | |- context [if ?c then _ else _] => let E := fresh "E" in destruct c eqn:E
           end;
    cbn [same_cycle];
    first [ exists 0%nat; cbn [dih4]; pairs_lia
          | exists 1%nat; cbn [dih4]; pairs_lia
          | exists 2%nat; cbn [dih4]; pairs_lia
          | exists 3%nat; cbn [dih4]; pairs_lia ].
Qed.

(* ------------------------------------------------------------------ same_cycle is an equivalence, stable under maps *)
Lemma same_cycle_map (f : pt -> pt) l l' : same_cycle l l' -> same_cycle (map f l) (map f l').
Proof.
  destruct l as [|a [|b [|c [|d [|e l]]]]]; destruct l' as [|a' [|b' [|c' [|d' [|e' l']]]]];
    cbn [same_cycle map]; try tauto; intros [k H].
  - destruct k as [|[|[|[|[|[|k]]]]]]; cbn [dih3] in H; inversion H; subst; try_dih3.
  - destruct k as [|[|[|[|[|[|[|[|k]]]]]]]]; cbn [dih4] in H; inversion H; subst; try_dih4.
Qed.
Lemma same_cycle_sym l l' : same_cycle l l' -> same_cycle l' l.
Proof.
  destruct l as [|a [|b [|c [|d [|e l]]]]]; destruct l' as [|a' [|b' [|c' [|d' [|e' l']]]]];
    cbn [same_cycle]; try tauto; intros [k H].
  - destruct k as [|[|[|[|[|[|k]]]]]]; cbn [dih3] in H; inversion H; subst; try_dih3.
  - destruct k as [|[|[|[|[|[|[|[|k]]]]]]]]; cbn [dih4] in H; inversion H; subst; try_dih4.
Qed.
Lemma same_cycle_trans l l' l'' : same_cycle l l' -> same_cycle l' l'' -> same_cycle l l''.
Proof.
  destruct l as [|a [|b [|c [|d [|e l]]]]]; destruct l' as [|a' [|b' [|c' [|d' [|e' l']]]]];
    cbn [same_cycle]; try tauto;
    destruct l'' as [|a'' [|b'' [|c'' [|d'' [|e'' l'']]]]]; cbn [same_cycle]; try tauto; intros [k H] [j G].
  - destruct (dih3_compose_ex j k (a, b, c)) as [n E]. exists n. rewrite <- E, H, G. reflexivity.
  - destruct (dih4_compose_ex j k (a, b, c, d)) as [n E]. exists n. rewrite <- E, H, G. reflexivity.
Qed.

(* ------------------------------------------------------------------ the 4-point branch *)
Definition sizes_ok (t : trapres) : Prop :=
  let '(_, _, size, _, _) := t in 0 <= fst size /\ 0 <= snd size.

Theorem trapezoid4_sound a b c d t l dt r :
  is_trapezoid4 a b c d = Some t -> sizes_ok t ->
  same_cycle (elem_points (trap_element l dt r t)) [a; b; c; d].
Proof.
  unfold is_trapezoid4. destruct (assign4 a b c d) as [[[[[v p] q] r0] s]|] eqn:A; [|discriminate].
  destruct (measure4 v p q r0 s) as [[[corner size] da] db] eqn:M.
  destruct (assign4_spec _ _ _ _ _ _ _ _ _ A) as [Hcyc Hside].
  intros H; inversion H; subst; clear H. cbn [sizes_ok]. intros [S1 S2].
  pose proof (trap_points_measure v p q r0 s corner size da db Hside M S1 S2) as B.
  assert (Hfinal : same_cycle [r0; s; q; p] [a; b; c; d]) by (cbn [same_cycle]; exact Hcyc).
  destruct (compact_type v (fst size) (snd size) da db) as [ct|] eqn:C.
  - destruct (compact_type_points _ _ _ _ _ _ C S1 S2) as [Hlt Hc].
    unfold trap_element.
    replace (25 <? ct)%N with false by (symmetry; apply N.ltb_ge; lia).
    cbn [elem_points]. rewrite !Z2N.id by assumption.
    apply (same_cycle_trans _ [r0; s; q; p]); [|exact Hfinal].
    rewrite <- B.
    replace (map (fun p0 : lfpt => padd (fst corner, snd corner) (lfpt_eval (fst size) (snd size) p0))
                 (spec_ctrap_vertices ct))
      with (map (padd corner) (map (lfpt_eval (fst size) (snd size)) (spec_ctrap_vertices ct)))
      by (rewrite map_map; destruct corner; reflexivity).
    apply same_cycle_map. apply same_cycle_sym. exact Hc.
  - unfold trap_element.
    replace (25 <? (if v then 27 else 26))%N with true by (destruct v; reflexivity).
    cbn [elem_points]. rewrite !Z2N.id by assumption.
    replace ((if v then 27 else 26) =? 27)%N with v by (destruct v; reflexivity).
    replace (fst corner, snd corner) with corner by (destruct corner; reflexivity).
    rewrite B. exact Hfinal.
Qed.

(* ------------------------------------------------------------------ the 3-point branch *)
Definition ple (p q : pt) : Prop := px p < px q \/ (px p = px q /\ py p <= py q).
Lemma sort3_spec a b c p q r :
  sort3 a b c = (p, q, r) -> same_cycle [p; q; r] [a; b; c] /\ ple p q /\ ple q r.
Proof.
  unfold sort3, pt_lt, ple. destruct a as [a1 a2], b as [b1 b2], c as [c1 c2]. unfold px, py. cbn [fst snd].
  repeat match goal with
         | |- context [if ?c then _ else _] => let E := fresh "E" in destruct c eqn:E
         end;
    intros H; inversion H; subst; clear H; cbn [fst snd same_cycle];
    (split; [try_dih3 | split; lia]).
Qed.
Lemma min3_eq a b c : min3 a b c = Z.min a (Z.min b c).
Proof. unfold min3. destruct (a <? b) eqn:E1; destruct (a <? c) eqn:E2; destruct (b <? c) eqn:E3; lia. Qed.
Lemma max3_eq a b c : max3 a b c = Z.max a (Z.max b c).
Proof. unfold max3. destruct (b <? a) eqn:E1; destruct (c <? a) eqn:E2; destruct (c <? b) eqn:E3; lia. Qed.

Ltac try_dih3_lia :=
  first [ exists 0%nat; cbn [dih3]; pairs_lia | exists 1%nat; cbn [dih3]; pairs_lia | exists 2%nat; cbn [dih3]; pairs_lia
        | exists 3%nat; cbn [dih3]; pairs_lia | exists 4%nat; cbn [dih3]; pairs_lia | exists 5%nat; cbn [dih3]; pairs_lia ].

Theorem trapezoid3_sound a b c t l dt r :
  is_trapezoid3 a b c = Some t -> sizes_ok t ->
  same_cycle (elem_points (trap_element l dt r t)) [a; b; c].
Proof.
  unfold is_trapezoid3. destruct (sort3 a b c) as [[p q] r0] eqn:S.
  destruct (sort3_spec _ _ _ _ _ _ S) as (Hc & L1 & L2).
  intros H Hs. apply (same_cycle_trans _ [p; q; r0]); [|exact Hc]. clear Hc S a b c.
  destruct p as [p1 p2], q as [q1 q2], r0 as [r1 r2]. unfold ple, px, py in *. cbn [fst snd] in *.
  rewrite !min3_eq, !max3_eq in H.
  repeat match type of H with
         | context [if ?c then _ else _] => let E := fresh "E" in destruct c eqn:E
         end;
    try discriminate; inversion H; subst; clear H;
    cbn [sizes_ok fst snd] in Hs; destruct Hs as [S1 S2];
    unfold trap_element; cbn [N.ltb N.compare Pos.compare Pos.compare_cont fst snd elem_points];
    rewrite !Z2N.id by assumption;
    unfold spec_ctrap_vertices, lfpt_eval, lf_eval, padd; cbn [map fst snd same_cycle];
    try_dih3_lia.
Qed.

(* ------------------------------------------------------------------ is_trapezoid, is_rectangle *)
Theorem trapezoid_detection_sound_lemma : forall pts t l dt r,
  is_trapezoid pts = Some t -> sizes_ok t ->
  same_cycle (elem_points (trap_element l dt r t)) pts.
Proof.
  intros pts t l dt r. unfold is_trapezoid.
  destruct pts as [|a [|b [|c [|d [|e pts]]]]]; try discriminate.
  - apply trapezoid3_sound.
  - apply trapezoid4_sound.
Qed.

Theorem rectangle_detection_sound_lemma : forall pts cs l dt r,
  is_rectangle pts = Some cs ->
  same_cycle (elem_points (rect_element l dt r cs)) pts.
Proof.
  intros pts cs l dt r. unfold is_rectangle.
  destruct pts as [|[a1 a2] [|[b1 b2] [|[c1 c2] [|[d1 d2] [|e pts]]]]]; try discriminate.
  unfold px, py. cbn [fst snd].
  destruct (_ || _) eqn:E; [|discriminate].
  apply orb_true_iff in E.
  intros H; inversion H; subst; clear H. unfold rect_element. cbn [fst snd elem_points].
  repeat match goal with
         | |- context [if ?c then _ else _] => let E := fresh "E" in destruct c eqn:E
         end;
    rewrite !Z2N.id by lia; unfold padd; cbn [map fst snd same_cycle]; destruct E as [E|E];
    first [ exists 0%nat; cbn [dih4]; pairs_lia | exists 1%nat; cbn [dih4]; pairs_lia
          | exists 2%nat; cbn [dih4]; pairs_lia | exists 3%nat; cbn [dih4]; pairs_lia
          | exists 4%nat; cbn [dih4]; pairs_lia | exists 5%nat; cbn [dih4]; pairs_lia
          | exists 6%nat; cbn [dih4]; pairs_lia | exists 7%nat; cbn [dih4]; pairs_lia ].
Qed.

(* non-vacuity *)
Example trapezoid_detection_example :
  is_trapezoid [(0, 0); (10, 0); (7, 3); (0, 3)] = Some (0%N, (0, 0), (10, 3), 0, -3) /\
  is_trapezoid [(5, 5); (5, 9); (9, 5)] = Some (16%N, (5, 5), (4, 4), 0, 0) /\
  is_trapezoid [(0, 0); (0, 10); (4, 13); (4, 2)] = Some (27%N, (0, 0), (4, 13), -2, -3).
Proof. vm_compute. repeat split; reflexivity. Qed.
