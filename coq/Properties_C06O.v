(* C06O (second unit of C06, also behind C11 "one translated, otherwise identical copy" and C16 copy) - ownership:
   copies are independent of their source.
   Theorem-only file (generated from the lemma statements with Check): every proof is `exact <lemma>`;
   Print Assumptions under each.
   Reading guide: *_is_deep_copy: each transcribed copy_from is the generic deep copy `tcopy` of its ownership
   tree; deep_copy_*: (a) freshness, (b) shape + contents, (c) frame / independence of that generic copy (and
   what it shares: the buffers below Raw pointers - SubPath::ctrl - and the non-owning pointers);
   get_*_fresh / apply_repetition: the collectors; step_wf / run_wf: (d) wf_heap over operation sequences;
   *_shallow_*, *_targets: what is shared BY DESIGN; *_frees: what clear / free_all release; *_refuted,
   robustpath_clear_leaks: what the faithful model refutes (RobustPath::copy_from shares the control points
   of general Bezier sections, RobustPath::clear leaks them); ex_*: the hypotheses are satisfiable. *)
From Coq Require Import List NArith ZArith Bool Permutation.
Require Import Base Generated Ownership OwnershipProofs.
Import ListNotations.
Local Open Scope N_scope.

Theorem array_is_deep_copy_thm
  : commutes array_copy_from (arr_tree []).
Proof. exact (@array_is_deep_copy_lemma). Qed.
Print Assumptions array_is_deep_copy_thm.

Theorem string_is_deep_copy_thm
  : commutes copy_string str_tree.
Proof. exact (@string_is_deep_copy_lemma). Qed.
Print Assumptions string_is_deep_copy_thm.

Theorem repetition_is_deep_copy_thm
  : commutes repetition_copy_from rep_tree.
Proof. exact (@repetition_is_deep_copy_lemma). Qed.
Print Assumptions repetition_is_deep_copy_thm.

Theorem properties_is_deep_copy_thm
  : commutes properties_copy props_tree.
Proof. exact (@properties_is_deep_copy_lemma). Qed.
Print Assumptions properties_is_deep_copy_thm.

Theorem polygon_is_deep_copy_thm
  : commutes polygon_new_copy polygon_tree.
Proof. exact (@polygon_is_deep_copy_lemma). Qed.
Print Assumptions polygon_is_deep_copy_thm.

Theorem flexpath_is_deep_copy_thm
  : commutes flexpath_new_copy flexpath_tree.
Proof. exact (@flexpath_is_deep_copy_lemma). Qed.
Print Assumptions flexpath_is_deep_copy_thm.

Theorem robustpath_is_deep_copy_thm
  : commutes robustpath_new_copy robustpath_tree.
Proof. exact (@robustpath_is_deep_copy_lemma). Qed.
Print Assumptions robustpath_is_deep_copy_thm.

Theorem label_is_deep_copy_thm
  : commutes label_new_copy label_tree.
Proof. exact (@label_is_deep_copy_lemma). Qed.
Print Assumptions label_is_deep_copy_thm.

Theorem reference_is_deep_copy_thm
  : commutes reference_new_copy reference_tree.
Proof. exact (@reference_is_deep_copy_lemma). Qed.
Print Assumptions reference_is_deep_copy_thm.

Theorem cell_is_deep_copy_thm
  : forall (c : cell) (nm : addr) (s : st) (c' : cell) (s' : st),
    cell_new_copy c nm true s = Ok (c', s') ->
    tcopy (cell_tree (with_name c (if nm =? 0 then c_name c else nm))) s = Ok (cell_tree c', s').
Proof. exact (@cell_is_deep_copy_lemma). Qed.
Print Assumptions cell_is_deep_copy_thm.

Theorem library_is_deep_copy_thm
  : forall (l : library) (s : st) (l' : library) (s' : st),
    library_new_copy l true s = Ok (l', s') ->
    tcopy (library_tree (without_props l)) s = Ok (library_tree l', s').
Proof. exact (@library_is_deep_copy_lemma). Qed.
Print Assumptions library_is_deep_copy_thm.

Theorem deep_copy_fresh_thm
  : forall (A : Type) (f : A -> M A) (tr : A -> otree),
    commutes f tr ->
    forall (x : A) (s : st) (y : A) (s' : st),
    f x s = Ok (y, s') ->
    exists new : list event,
      gfacts s s' new (addrs_nr (tr y)) /\
      Forall pure_ev new /\ raws (tr y) = raws (tr x) /\ no_raw (tr y) = no_raw (tr x).
Proof. exact (@deep_copy_fresh_lemma). Qed.
Print Assumptions deep_copy_fresh_thm.

Theorem deep_copy_owned_fresh_thm
  : forall (A : Type) (f : A -> M A) (tr : A -> otree),
    commutes f tr ->
    forall (x : A) (s : st) (y : A) (s' : st),
    f x s = Ok (y, s') ->
    no_raw (tr x) = true -> Forall (in_rng (nxt s) (nxt s')) (addrs (tr y)) /\ NoDup (addrs (tr y)).
Proof. exact (@deep_copy_owned_fresh_lemma). Qed.
Print Assumptions deep_copy_owned_fresh_thm.

Theorem deep_copy_shape_thm
  : forall (A : Type) (f : A -> M A) (tr : A -> otree),
    commutes f tr ->
    forall (x : A) (s : st) (y : A) (s' : st),
    f x s = Ok (y, s') ->
    0 < nxt s ->
    Forall (fun a : N => a < nxt s) (addrs (tr x)) ->
    exists new : list event,
      evs s' = evs s ++ new /\
      (forall (w : addr -> list Z -> list Z) (h : heap),
       erase (replay w new h) (tr y) = erase h (tr x) /\
       (forall u : otree,
        Forall (fun a : N => a < nxt s) (addrs u) -> erase (replay w new h) u = erase h u)).
Proof. exact (@deep_copy_shape_lemma). Qed.
Print Assumptions deep_copy_shape_thm.

Theorem deep_copy_independent_thm
  : forall (A : Type) (f : A -> M A) (tr : A -> otree),
    commutes f tr ->
    forall (x : A) (s : st) (y : A) (s' : st),
    f x s = Ok (y, s') ->
    no_raw (tr x) = true ->
    forall u : otree,
    Forall (fun a : N => a < nxt s) (addrs u) ->
    (forall (a : addr) (l : list Z) (h : heap), In a (addrs (tr y)) -> erase (store h a l) u = erase h u) /\
    (forall (a : addr) (l : list Z) (h : heap),
     In a (addrs u) -> erase (store h a l) (tr y) = erase h (tr y)).
Proof. exact (@deep_copy_independent_lemma). Qed.
Print Assumptions deep_copy_independent_thm.

Theorem deep_copy_shared_thm
  : forall (A : Type) (f : A -> M A) (tr : A -> otree),
    commutes f tr ->
    forall (x : A) (s : st) (y : A) (s' : st),
    f x s = Ok (y, s') ->
    Forall (fun a : N => a < nxt s) (addrs (tr x)) ->
    forall a : addr, In a (addrs (tr y)) /\ In a (addrs (tr x)) <-> In a (raws (tr x)).
Proof. exact (@deep_copy_shared_lemma). Qed.
Print Assumptions deep_copy_shared_thm.

Theorem deep_copy_keeps_pointers_thm
  : forall (t : otree) (s : st) (t' : otree) (s' : st), tcopy t s = Ok (t', s') -> exts t' = exts t.
Proof. exact (@deep_copy_keeps_pointers_lemma). Qed.
Print Assumptions deep_copy_keeps_pointers_thm.

Theorem frame_store_thm
  : forall (h : heap) (t : otree) (a : addr) (l : list Z),
    ~ In a (addrs t) -> erase (store h a l) t = erase h t.
Proof. exact (@frame_store_lemma). Qed.
Print Assumptions frame_store_thm.

Theorem run_frame_thm
  : forall (s s' : st) (new : list event) (r : list addr) (u : otree),
    gfacts s s' new r ->
    Forall (fun a : N => a < nxt s) (addrs u) ->
    (forall (w : addr -> list Z -> list Z) (h : heap), erase (replay w new h) u = erase h u) /\
    (forall (a : addr) (l : list Z) (h : heap), In a r -> erase (store h a l) u = erase h u) /\
    (forall a : addr, In a r -> ~ In a (addrs u)).
Proof. exact (@run_frame_lemma). Qed.
Print Assumptions run_frame_thm.

Theorem polygon_copy_thm
  : forall (p : polygon) (s : st) (y : polygon) (s' : st),
    polygon_new_copy p s = Ok (y, s') ->
    0 < nxt s ->
    Forall (fun a : N => a < nxt s) (owned (OPoly p)) ->
    (Forall (in_rng (nxt s) (nxt s')) (owned (OPoly y)) /\ NoDup (owned (OPoly y))) /\
    (exists new : list event,
       evs s' = evs s ++ new /\
       Forall pure_ev new /\
       (forall (w : addr -> list Z -> list Z) (h : heap),
        erase (replay w new h) (polygon_tree y) = erase h (polygon_tree p) /\
        erase (replay w new h) (polygon_tree p) = erase h (polygon_tree p))) /\
    (forall (a : addr) (l : list Z) (h : heap),
     In a (owned (OPoly y)) -> erase (store h a l) (polygon_tree p) = erase h (polygon_tree p)) /\
    (forall (a : addr) (l : list Z) (h : heap),
     In a (owned (OPoly p)) -> erase (store h a l) (polygon_tree y) = erase h (polygon_tree y)) /\
    pg_tag y = pg_tag p /\
    a_cap (pg_points y) = a_cnt (pg_points y) /\ a_cnt (pg_points y) = a_cnt (pg_points p).
Proof. exact (@polygon_copy_lemma). Qed.
Print Assumptions polygon_copy_thm.

Theorem apply_repetition_thm
  : forall (E : Type) (K : ekind E),
    kind_ok K ->
    forall (e : E) (s : st) (e' : E) (cs : list E) (s' : st),
    apply_repetition K e s = Ok (e', cs, s') ->
    good K e ->
    exists newc : list event,
      nxt s <= nxt s' /\
      evs s' = evs s ++ map EFree (addrs (rep_tree (ek_rep K e))) ++ newc /\
      Forall (fun ev : event => in_rng (nxt s) (nxt s') (wr_target ev)) newc /\
      freed newc = [] /\
      Forall (in_rng (nxt s) (nxt s')) (flat_map (eaddrs K) cs) /\
      NoDup (flat_map (eaddrs K) cs) /\
      Permutation (eaddrs K e) (addrs (rep_tree (ek_rep K e)) ++ eaddrs K e') /\
      good K e' /\ Forall (good K) cs.
Proof. exact (@apply_repetition_lemma). Qed.
Print Assumptions apply_repetition_thm.

Theorem polygon_kind_ok_thm
  : kind_ok polygon_kind.
Proof. exact (@polygon_kind_ok_lemma). Qed.
Print Assumptions polygon_kind_ok_thm.

Theorem flexpath_kind_ok_thm
  : kind_ok flexpath_kind.
Proof. exact (@flexpath_kind_ok_lemma). Qed.
Print Assumptions flexpath_kind_ok_thm.

Theorem robustpath_kind_ok_thm
  : kind_ok robustpath_kind.
Proof. exact (@robustpath_kind_ok_lemma). Qed.
Print Assumptions robustpath_kind_ok_thm.

Theorem label_kind_ok_thm
  : kind_ok label_kind.
Proof. exact (@label_kind_ok_lemma). Qed.
Print Assumptions label_kind_ok_thm.

Theorem reference_kind_ok_thm
  : kind_ok reference_kind.
Proof. exact (@reference_kind_ok_lemma). Qed.
Print Assumptions reference_kind_ok_thm.

Theorem get_polygons_fresh_thm
  : forall (fuel : nat) (env : list cell) (ar ip : bool) (depth : Z) (flt : option N) (c : cell),
    In c env ->
    forall (s : st) (l : list polygon) (s' : st),
    get_polygons fuel env ar ip depth flt c s = Ok (l, s') ->
    exists new : list event, gfacts s s' new (flat_map (fun p : polygon => owned (OPoly p)) l).
Proof. exact (@get_polygons_fresh_lemma). Qed.
Print Assumptions get_polygons_fresh_thm.

Theorem get_flexpaths_fresh_thm
  : forall (fuel : nat) (env : list cell) (ar : bool) (depth : Z) (flt : option N) (c : cell),
    In c env ->
    forall (s : st) (l : list flexpath) (s' : st),
    get_flexpaths fuel env ar depth flt c s = Ok (l, s') ->
    exists new : list event, gfacts s s' new (flat_map (fun p : flexpath => owned (OFlex p)) l).
Proof. exact (@get_flexpaths_fresh_lemma). Qed.
Print Assumptions get_flexpaths_fresh_thm.

Theorem get_robustpaths_fresh_thm
  : forall (fuel : nat) (env : list cell) (ar : bool) (depth : Z) (flt : option N) (c : cell),
    In c env ->
    (forall c' : cell, In c' env -> cell_ctrl_free c' = true) ->
    forall (s : st) (l : list robustpath) (s' : st),
    get_robustpaths fuel env ar depth flt c s = Ok (l, s') ->
    exists new : list event, gfacts s s' new (flat_map (fun p : robustpath => owned (ORobust p)) l).
Proof. exact (@get_robustpaths_fresh_lemma). Qed.
Print Assumptions get_robustpaths_fresh_thm.

Theorem get_labels_fresh_thm
  : forall (fuel : nat) (env : list cell) (ar : bool) (depth : Z) (flt : option N) (c : cell),
    In c env ->
    forall (s : st) (l : list label) (s' : st),
    get_labels fuel env ar depth flt c s = Ok (l, s') ->
    exists new : list event, gfacts s s' new (flat_map (fun p : label => owned (OLabel p)) l).
Proof. exact (@get_labels_fresh_lemma). Qed.
Print Assumptions get_labels_fresh_thm.

Theorem step_wf_thm
  : forall (o : op) (s s' : state),
    wf s -> pool_ok (pool s) -> deep_op o -> step o s = Ok s' -> wf s' /\ pool_ok (pool s').
Proof. exact (@step_wf_lemma). Qed.
Print Assumptions step_wf_thm.

Theorem run_wf_thm
  : forall (ops : list op) (s s' : state),
    wf s -> pool_ok (pool s) -> Forall deep_op ops -> run ops s = Ok s' -> wf s' /\ pool_ok (pool s').
Proof. exact (@run_wf_lemma). Qed.
Print Assumptions run_wf_thm.

Theorem wf_no_double_owner_thm
  : forall s : state,
    wf s ->
    NoDup (flat_map owned (pool s)) /\
    Forall (fun a : N => 0 <= a < nxt (mst s)) (flat_map owned (pool s)) /\
    Forall (fun a : addr => ~ In a (freed (evs (mst s)))) (flat_map owned (pool s)).
Proof. exact (@wf_no_double_owner_lemma). Qed.
Print Assumptions wf_no_double_owner_thm.

Theorem wf_decidable_thm
  : forall s : state, wfb s = true <-> wf s.
Proof. exact (@wf_decidable_lemma). Qed.
Print Assumptions wf_decidable_thm.

Theorem cell_shallow_copy_thm
  : forall (c : cell) (nm : addr) (s : st) (c' : cell) (s' : st),
    cell_new_copy c nm false s = Ok (c', s') ->
    (exists new : list event, gfacts s s' new (cell_own_addrs c')) /\
    c_polygons c' = c_polygons c /\
    c_references c' = c_references c /\
    c_flexpaths c' = c_flexpaths c /\
    c_robustpaths c' = c_robustpaths c /\
    c_labels c' = c_labels c /\ cell_elems_addrs c' = cell_elems_addrs c.
Proof. exact (@cell_shallow_copy_lemma). Qed.
Print Assumptions cell_shallow_copy_thm.

Theorem cell_shallow_shared_thm
  : forall (c : cell) (nm : addr) (s : st) (c' : cell) (s' : st),
    cell_new_copy c nm false s = Ok (c', s') ->
    Forall (fun a : N => a < nxt s) (owned (OCell c)) ->
    forall a : addr, In a (owned (OCell c')) /\ In a (owned (OCell c)) <-> In a (cell_elems_addrs c).
Proof. exact (@cell_shallow_shared_lemma). Qed.
Print Assumptions cell_shallow_shared_thm.

Theorem library_shallow_copy_thm
  : forall (l : library) (s : st) (l' : library) (s' : st),
    library_new_copy l false s = Ok (l', s') ->
    (exists new : list event, gfacts s s' new (lib_own_addrs l')) /\
    l_cellobjs l' = l_cellobjs l /\ l_rawcells l' = l_rawcells l /\ l_props l' = [].
Proof. exact (@library_shallow_copy_lemma). Qed.
Print Assumptions library_shallow_copy_thm.

Theorem library_deep_copy_targets_thm
  : forall (l : library) (s : st) (l' : library) (s' : st),
    library_new_copy l true s = Ok (l', s') ->
    exts (library_tree l') = exts (library_tree (without_props l)) /\
    l_rawcells l' = l_rawcells l /\ l_props l' = [].
Proof. exact (@library_deep_copy_targets_lemma). Qed.
Print Assumptions library_deep_copy_targets_thm.

Theorem cell_deep_copy_targets_thm
  : forall (c : cell) (nm : addr) (s : st) (c' : cell) (s' : st),
    cell_new_copy c nm true s = Ok (c', s') ->
    exts (cell_tree c') = exts (cell_tree (with_name c (if nm =? 0 then c_name c else nm))).
Proof. exact (@cell_deep_copy_targets_lemma). Qed.
Print Assumptions cell_deep_copy_targets_thm.

Theorem polygon_clear_frees_thm
  : forall p : polygon,
    Permutation (addrs (polygon_tree p)) (flat_map nz (polygon_frees p ++ [pg_self p])).
Proof. exact (@polygon_clear_frees_lemma). Qed.
Print Assumptions polygon_clear_frees_thm.

Theorem flexpath_clear_frees_thm
  : forall p : flexpath,
    Permutation (addrs (flexpath_tree p)) (flat_map nz (flexpath_frees p ++ [fp_self p])).
Proof. exact (@flexpath_clear_frees_lemma). Qed.
Print Assumptions flexpath_clear_frees_thm.

Theorem robustpath_clear_frees_thm
  : forall p : robustpath,
    Permutation (addrs_nr (robustpath_tree p)) (flat_map nz (robustpath_frees p ++ [rp_self p])).
Proof. exact (@robustpath_clear_frees_lemma). Qed.
Print Assumptions robustpath_clear_frees_thm.

Theorem label_clear_frees_thm
  : forall p : label, Permutation (addrs (label_tree p)) (flat_map nz (label_frees p ++ [lb_self p])).
Proof. exact (@label_clear_frees_lemma). Qed.
Print Assumptions label_clear_frees_thm.

Theorem reference_clear_frees_thm
  : forall p : reference,
    Permutation (addrs (reference_tree p)) (flat_map nz (reference_frees p ++ [rf_self p])).
Proof. exact (@reference_clear_frees_lemma). Qed.
Print Assumptions reference_clear_frees_thm.

Theorem cell_free_all_frees_thm
  : forall c : cell,
    Permutation (addrs_nr (cell_tree c)) (flat_map nz (cell_free_all_frees c ++ [c_self c])).
Proof. exact (@cell_free_all_frees_lemma). Qed.
Print Assumptions cell_free_all_frees_thm.

Theorem library_free_all_frees_thm
  : forall l : library,
    Permutation (addrs_nr (library_tree l)) (flat_map nz (library_free_all_frees l ++ [l_self l])).
Proof. exact (@library_free_all_frees_lemma). Qed.
Print Assumptions library_free_all_frees_thm.

Theorem cell_clear_frees_thm
  : forall c : cell,
    Permutation (addrs (cell_tree c))
      (flat_map nz (cell_clear_frees c ++ [c_self c]) ++ cell_elems_addrs c).
Proof. exact (@cell_clear_frees_lemma). Qed.
Print Assumptions cell_clear_frees_thm.

Theorem library_clear_frees_thm
  : forall l : library,
    Permutation (addrs (library_tree l))
      (flat_map nz (library_clear_frees l ++ [l_self l]) ++ flat_map addrs (map cell_tree (l_cellobjs l))).
Proof. exact (@library_clear_frees_lemma). Qed.
Print Assumptions library_clear_frees_thm.

Theorem robustpath_copy_fresh_refuted_thm
  : exists (p : robustpath) (s : st) (y : robustpath) (s' : st),
      robustpath_new_copy p s = Ok (y, s') /\
      Forall (fun a : N => a < nxt s) (owned (ORobust p)) /\
      (exists a : addr, In a (owned (ORobust y)) /\ In a (owned (ORobust p))).
Proof. exact (@robustpath_copy_fresh_refuted_lemma). Qed.
Print Assumptions robustpath_copy_fresh_refuted_thm.

Theorem robustpath_copy_independent_refuted_thm
  : exists (p : robustpath) (s : st) (y : robustpath) (s' : st) (a : addr) (l : list Z) 
    (h : heap),
      robustpath_new_copy p s = Ok (y, s') /\
      In a (owned (ORobust y)) /\ erase (store h a l) (robustpath_tree p) <> erase h (robustpath_tree p).
Proof. exact (@robustpath_copy_independent_refuted_lemma). Qed.
Print Assumptions robustpath_copy_independent_refuted_thm.

Theorem wf_preserved_refuted_thm
  : exists (s : state) (o : op) (s' : state), wf s /\ deep_op o /\ step o s = Ok s' /\ ~ wf s'.
Proof. exact (@wf_preserved_refuted_lemma). Qed.
Print Assumptions wf_preserved_refuted_thm.

Theorem robustpath_clear_leaks_thm
  : exists p : robustpath, ~ incl (owned (ORobust p)) (flat_map nz (robustpath_frees p ++ [rp_self p])).
Proof. exact (@robustpath_clear_leaks_lemma). Qed.
Print Assumptions robustpath_clear_leaks_thm.

Theorem shallow_copy_shares_owner_thm
  : exists s s' : state, wf s /\ step (OpCellCopy 1 0 false) s = Ok s' /\ ~ wf s'.
Proof. exact (@shallow_copy_shares_owner_lemma). Qed.
Print Assumptions shallow_copy_shares_owner_thm.

Theorem ex_state_wf_thm
  : wf ex_state /\ pool_ok (pool ex_state).
Proof. exact (@ex_state_wf). Qed.
Print Assumptions ex_state_wf_thm.

Theorem ex_run_thm
  : exists s' : state, run ex_ops ex_state = Ok s' /\ Forall deep_op ex_ops /\ (length (pool s') > 20)%nat.
Proof. exact (@ex_run). Qed.
Print Assumptions ex_run_thm.

Theorem ex_run_wf_thm
  : forall s' : state, run ex_ops ex_state = Ok s' -> wf s'.
Proof. exact (@ex_run_wf). Qed.
Print Assumptions ex_run_wf_thm.

Theorem ex_polygon_copy_thm
  : exists (y : polygon) (s' : st),
      polygon_new_copy ex_polygon {| nxt := 100; evs := [] |} = Ok (y, s') /\
      nxt s' = 111 /\
      Forall (fun a : N => a < 100) (addrs (polygon_tree ex_polygon)) /\
      no_raw (polygon_tree ex_polygon) = true.
Proof. exact (@ex_polygon_copy). Qed.
Print Assumptions ex_polygon_copy_thm.

