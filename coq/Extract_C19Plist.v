Require Import Base OasisInt OasisPlist.
Require Import Extraction ExtrOcamlBasic.
Extraction Blacklist List String Int.
Extraction "../ocaml/extracted/c19_plist.ml" enc_point_list dec_point_list spec_enc_plist closing_ok sel_type.
