(* C06 (unit c06_own): extraction of the ownership model *)
Require Import Extraction ExtrOcamlBasic.
Require Import Base Ownership.
Extraction Blacklist List String Int.
Extraction "../ocaml/extracted/c06_own.ml" step init_state show_step z_of_n
  mkPolygon mkFlex mkFE mkRobust mkRE mkLabel mkRef mkCell mkLib mkArr mkProp.
