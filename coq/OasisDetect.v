(* Model of the shape detection of src/polygon.cpp used by Polygon::to_oas:
     static bool is_rectangle(points, corner, size)
     static bool is_trapezoid(points, type, corner, size, delta_a, delta_b)
   statement by statement (same order of tests), on integer points, and of the record that to_oas selects
   from the result.  Definitions only. *)
Require Import Base OasisInt OasisSpec.
Local Open Scope Z_scope.

Definition px (p : pt) : Z := fst p.
Definition py (p : pt) : Z := snd p.

(* is_rectangle: corner and size when the 4 points are an axis-aligned rectangle *)
Definition is_rectangle (pts : list pt) : option (pt * pt) :=
  match pts with
  | [a; b; c; d] =>
      if ((px a =? px b) && (py b =? py c) && (px c =? px d) && (py d =? py a)) ||
         ((py a =? py b) && (px b =? px c) && (py c =? py d) && (px d =? px a))
      then
        let cx := if px a <? px c then px a else px c in
        let sx := if px a <? px c then px c - px a else px a - px c in
        let cy := if py a <? py c then py a else py c in
        let sy := if py a <? py c then py c - py a else py a - py c in
        Some ((cx, cy), (sx, sy))
      else None
  | _ => None
  end.

(* result of is_trapezoid: type (0..25 compact, 26 horizontal, 27 vertical), corner, size, delta_a, delta_b *)
Definition trapres : Type := (N * pt * pt * Z * Z)%type.

(* the assignment of p q r s (first half of the 4-point branch): (vertical?, p, q, r, s) *)
Definition assign4 (a b c d : pt) : option (bool * pt * pt * pt * pt) :=
  if (px a =? px b) && (px c =? px d) then
    if px a <? px c then
      if (py a <? py b) || (py d <? py c) then Some (true, a, b, d, c) else Some (true, b, a, c, d)
    else
      if (py a <? py b) || (py d <? py c) then Some (true, d, c, a, b) else Some (true, c, d, b, a)
  else if (px d =? px a) && (px b =? px c) then
    if px d <? px b then
      if (py d <? py a) || (py c <? py b) then Some (true, d, a, c, b) else Some (true, a, d, b, c)
    else
      if (py d <? py a) || (py c <? py b) then Some (true, c, b, d, a) else Some (true, b, c, a, d)
  else if (py a =? py b) && (py c =? py d) then
    if py a <? py c then
      if (px a <? px b) || (px d <? px c) then Some (false, d, c, a, b) else Some (false, c, d, b, a)
    else
      if (px a <? px b) || (px d <? px c) then Some (false, a, b, d, c) else Some (false, b, a, c, d)
  else if (py d =? py a) && (py b =? py c) then
    if py d <? py b then
      if (px d <? px a) || (px c <? px b) then Some (false, c, b, d, a) else Some (false, b, c, a, d)
    else
      if (px d <? px a) || (px c <? px b) then Some (false, d, a, c, b) else Some (false, a, d, b, c)
  else None.

(* the compact type for given deltas; `sz` is size.y (horizontal) or size.x (vertical); None = general trapezoid *)
Definition compact_type (vert : bool) (sx sy da db : Z) : option N :=
  let sz := if vert then sx else sy in
  if da =? 0 then
    if db =? 0 then Some (if sx =? sy then 25%N else 24%N)
    else if db =? - sz then Some (if vert then 9%N else 0%N)
    else if db =? sz then Some (if vert then 8%N else 1%N)
    else None
  else if da =? - sz then
    if db =? 0 then Some (if vert then 10%N else 3%N)
    else if db =? - sz then Some (if vert then 14%N else 7%N)
    else if db =? sz then Some (if vert then 12%N else 5%N)
    else None
  else if da =? sz then
    if db =? 0 then Some (if vert then 11%N else 2%N)
    else if db =? - sz then Some (if vert then 13%N else 4%N)
    else if db =? sz then Some (if vert then 15%N else 6%N)
    else None
  else None.

Definition measure4 (vert : bool) (p q r s : pt) : pt * pt * Z * Z :=
  if vert then
    let cy := if py p <? py r then py p else py r in
    let sy := (if py q <? py s then py s else py q) - cy in
    ((px p, cy), (px r - px p, sy), py p - py r, py q - py s)
  else
    let cx := if px p <? px r then px p else px r in
    let sx := (if px q <? px s then px s else px q) - cx in
    ((cx, py r), (sx, py p - py r), px p - px r, px q - px s).

Definition is_trapezoid4 (a b c d : pt) : option trapres :=
  match assign4 a b c d with
  | None => None
  | Some (vert, p, q, r, s) =>
      let '(corner, size, da, db) := measure4 vert p q r s in
      let ty := match compact_type vert (fst size) (snd size) da db with
                | Some t => t
                | None => if vert then 27%N else 26%N
                end in
      Some (ty, corner, size, da, db)
  end.

(* IntVec2::operator< *)
Definition pt_lt (a b : pt) : bool := (px a <? px b) || ((px a =? px b) && (py a <? py b)).
Definition sort3 (a b c : pt) : pt * pt * pt :=
  if pt_lt a b then
    if pt_lt a c then (if pt_lt b c then (a, b, c) else (a, c, b)) else (c, a, b)
  else
    if pt_lt b c then (if pt_lt a c then (b, a, c) else (b, c, a)) else (c, b, a).
Definition min3 (a b c : Z) : Z := if a <? b then (if a <? c then a else c) else (if b <? c then b else c).
Definition max3 (a b c : Z) : Z := if b <? a then (if c <? a then a else c) else (if c <? b then b else c).

Definition is_trapezoid3 (a b c : pt) : option trapres :=
  let '(p, q, r) := sort3 a b c in
  let cx := px p in
  let sx := px r - px p in
  let cy := min3 (py p) (py q) (py r) in
  let sy := max3 (py p) (py q) (py r) - cy in
  let res (t : N) := Some (t, (cx, cy), (sx, sy), 0, 0) in
  if sx =? sy then
    if px q =? px p then
      if py r =? py p then res 16%N else if py r =? py q then res 17%N else None
    else if px r =? px q then
      if py p =? py q then res 18%N else if py p =? py r then res 19%N else None
    else None
  else if (sx =? 2 * sy) && (py p =? py r) && (px q =? cx + sy) then
    res (if py p <? py q then 20%N else 21%N)
  else if sy =? 2 * sx then
    if (px p =? px q) && (py r =? cy + sx) then res 22%N
    else if (px q =? px r) && (py p =? cy + sx) then res 23%N
    else None
  else None.

Definition is_trapezoid (pts : list pt) : option trapres :=
  match pts with
  | [a; b; c; d] => is_trapezoid4 a b c d
  | [a; b; c] => is_trapezoid3 a b c
  | _ => None
  end.

(* the geometry record Polygon::to_oas writes for a detection result (layer, datatype, repetition given) *)
Definition trap_element (l d : N) (r : option srep) (t : trapres) : element :=
  let '(ty, corner, size, da, db) := t in
  let w := Z.to_N (fst size) in let h := Z.to_N (snd size) in
  if (25 <? ty)%N then E_trap (ty =? 27)%N l d w h da db (fst corner) (snd corner) r
  else E_ctrap l d ty w h (fst corner) (snd corner) r.
Definition rect_element (l d : N) (r : option srep) (cs : pt * pt) : element :=
  E_rect l d (Z.to_N (fst (snd cs))) (Z.to_N (snd (snd cs))) (fst (fst cs)) (snd (fst cs)) r.

(* vertex cycles of 3 or 4 points up to starting vertex and orientation *)
Definition dih4 (k : nat) (t : pt * pt * pt * pt) : pt * pt * pt * pt :=
  let '(a, b, c, d) := t in
  match k with
  | 1 => (b, c, d, a) | 2 => (c, d, a, b) | 3 => (d, a, b, c)
  | 4 => (d, c, b, a) | 5 => (c, b, a, d) | 6 => (b, a, d, c) | 7 => (a, d, c, b)
  | _ => (a, b, c, d)
  end%nat.
Definition dih3 (k : nat) (t : pt * pt * pt) : pt * pt * pt :=
  let '(a, b, c) := t in
  match k with
  | 1 => (b, c, a) | 2 => (c, a, b) | 3 => (c, b, a) | 4 => (b, a, c) | 5 => (a, c, b)
  | _ => (a, b, c)
  end%nat.
Definition same_cycle (l l' : list pt) : Prop :=
  match l, l' with
  | [a; b; c; d], [a'; b'; c'; d'] => exists k, dih4 k (a, b, c, d) = (a', b', c', d')
  | [a; b; c], [a'; b'; c'] => exists k, dih3 k (a, b, c) = (a', b', c')
  | _, _ => False
  end.
