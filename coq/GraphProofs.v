(* C16 proofs: invariants of the library cell graph under arbitrary edit histories, and the
   specifications of the queries.  Model: Graph.v *)
Require Import Base Graph.
From Coq Require Import List NArith Bool Arith Lia Permutation.
Import ListNotations.


(* ========================================================================================== *)
(* 1. Lists, arrays, store updates                                                             *)

Lemma memb_In x l : memb x l = true <-> In x l.
Proof.
  unfold memb. rewrite existsb_exists. split.
  - intros (y & Hy & E). apply Nat.eqb_eq in E. subst. exact Hy.
  - intros H. exists x. split; [exact H | apply Nat.eqb_refl].
Qed.

Lemma memb_false x l : memb x l = false <-> ~ In x l.
Proof.
  rewrite <- memb_In. destruct (memb x l); split; intros H; try congruence.
Qed.

Lemma upd_at_length f i (st : list cell) : length (upd_at f i st) = length st.
Proof.
  revert i. induction st as [|c tl IH]; intros [|i]; simpl; auto.
Qed.

Lemma nth_upd_at f i (st : list cell) j d :
  nth j (upd_at f i st) d =
  if Nat.eqb j i && Nat.ltb i (length st) then f (nth j st d) else nth j st d.
Proof.
  revert i j. induction st as [|c tl IH]; intros i j.
  - simpl. destruct i, j; simpl; try rewrite andb_false_r; reflexivity.
  - destruct i as [|i], j as [|j]; simpl; try reflexivity.
    rewrite IH. replace (Nat.ltb (S i) (S (length tl))) with (Nat.ltb i (length tl)); [reflexivity|].
    destruct (Nat.ltb_spec i (length tl)), (Nat.ltb_spec (S i) (S (length tl))); try reflexivity; lia.
Qed.

Lemma upd_members_length f arr (st : list cell) : length (upd_members f arr st) = length st.
Proof.
  unfold upd_members. revert st. induction arr as [|a tl IH]; intros st; simpl; auto.
  rewrite IH. apply upd_at_length.
Qed.

(* with an array without repetition, the loop applies f once to every listed cell *)
Lemma nth_upd_members f arr : NoDup arr -> forall (st : list cell) j d,
  nth j (upd_members f arr st) d =
  if memb j arr && Nat.ltb j (length st) then f (nth j st d) else nth j st d.
Proof.
  unfold upd_members. induction 1 as [|a tl Hna Hnd IH]; intros st j d; simpl.
  - reflexivity.
  - rewrite IH. rewrite upd_at_length. rewrite !nth_upd_at.
    destruct (Nat.eqb_spec a j) as [->|Hne].
    + assert (memb j tl = false) as -> by (apply memb_false; exact Hna).
      rewrite Nat.eqb_refl. simpl. reflexivity.
    + assert (Nat.eqb j a = false) as -> by (apply Nat.eqb_neq; congruence).
      simpl. reflexivity.
Qed.

(* a projection that f leaves alone is left alone by the loop (no hypothesis on the array) *)
Lemma proj_upd_members {A} (pi : cell -> A) f arr :
  (forall c, pi (f c) = pi c) -> forall (st : list cell) j d,
  pi (nth j (upd_members f arr st) d) = pi (nth j st d).
Proof.
  intros Hpi. unfold upd_members. induction arr as [|a tl IH]; intros st j d; simpl.
  - reflexivity.
  - rewrite IH. rewrite nth_upd_at. destruct (_ && _); [apply Hpi | reflexivity].
Qed.

Lemma Forall_upd_at (P : cell -> Prop) f i st :
  (forall c, P c -> P (f c)) -> Forall P st -> Forall P (upd_at f i st).
Proof.
  intros Hf. revert i. induction st as [|c tl IH]; intros i H; destruct i; simpl; auto;
    inversion H; subst; constructor; auto.
Qed.

Lemma Forall_upd_members (P : cell -> Prop) f arr st :
  (forall c, P c -> P (f c)) -> Forall P st -> Forall P (upd_members f arr st).
Proof.
  intros Hf. unfold upd_members. revert st. induction arr as [|a tl IH]; intros st H; simpl; auto.
  apply IH. apply Forall_upd_at; auto.
Qed.

(* --- replace_first --- *)

Lemma In_replace_first old new arr x :
  In x (replace_first old new arr) -> x = new \/ In x arr.
Proof.
  induction arr as [|a tl IH]; simpl; auto.
  destruct (Nat.eqb a old); simpl; intros [H|H]; auto. destruct (IH H); auto.
Qed.

Lemma In_replace_first_iff old new arr x : NoDup arr -> In old arr ->
  (In x (replace_first old new arr) <-> x = new \/ (In x arr /\ x <> old)).
Proof.
  induction 1 as [|a tl Hna Hnd IH]; simpl; [tauto|].
  intros Hin. destruct (Nat.eqb_spec a old) as [->|Hne]; simpl.
  - split.
    + intros [H|H]; auto. right. split; auto. intros ->. contradiction.
    + intros [H|[[H|H] Hx]]; auto. congruence.
  - destruct Hin as [Hin|Hin]; [congruence|]. rewrite (IH Hin). split.
    + intros [H|[H|[H1 H2]]]; auto. subst. auto.
    + intros [H|[[H|H] Hx]]; auto.
Qed.

Lemma replace_first_absent old new arr : ~ In old arr -> replace_first old new arr = arr.
Proof.
  induction arr as [|a tl IH]; simpl; auto. intros H.
  destruct (Nat.eqb_spec a old) as [->|Hne]; [exfalso; auto|]. f_equal. apply IH. tauto.
Qed.

Lemma NoDup_map_replace_first {A} (nm : nat -> A) old new arr :
  NoDup (map nm arr) -> In old arr ->
  (forall i, In i arr -> i <> old -> nm i <> nm new) ->
  NoDup (map nm (replace_first old new arr)).
Proof.
  induction arr as [|a tl IH]; simpl; auto.
  intros Hnd Hin Hfresh. inversion Hnd as [|? ? Hna Hnd']; subst.
  destruct (Nat.eqb_spec a old) as [->|Hne]; simpl.
  - constructor; auto. rewrite in_map_iff. intros (i & E & Hi).
    apply (Hfresh i); auto. intros ->. apply Hna. apply in_map. exact Hi.
  - destruct Hin as [Hin|Hin]; [congruence|]. constructor.
    + rewrite in_map_iff. intros (i & E & Hi). apply In_replace_first in Hi. destruct Hi as [->|Hi].
      * apply (Hfresh a); auto.
      * apply Hna. rewrite <- E. apply in_map. exact Hi.
    + apply IH; auto.
Qed.

(* --- remove_unordered --- *)

Lemma last_removelast_perm (tl : list nat) : tl <> [] ->
  Permutation (last tl 0 :: removelast tl) tl.
Proof.
  intros H. rewrite (app_removelast_last 0 H) at 3.
  apply Permutation_cons_append.
Qed.

Lemma remove_unordered_perm old arr : In old arr ->
  Permutation (old :: remove_unordered old arr) arr.
Proof.
  induction arr as [|a tl IH]; simpl; [tauto|].
  intros Hin. destruct (Nat.eqb_spec a old) as [->|Hne].
  - constructor. destruct tl as [|b tl']; [constructor|].
    apply last_removelast_perm. discriminate.
  - destruct Hin as [Hin|Hin]; [congruence|].
    eapply perm_trans; [apply perm_swap|]. constructor. apply IH. exact Hin.
Qed.

Lemma remove_unordered_absent old arr : ~ In old arr -> remove_unordered old arr = arr.
Proof.
  induction arr as [|a tl IH]; simpl; auto. intros H.
  destruct (Nat.eqb_spec a old) as [->|Hne]; [exfalso; auto|]. f_equal. apply IH. tauto.
Qed.

Lemma In_remove_unordered old arr x : NoDup arr -> In old arr ->
  (In x (remove_unordered old arr) <-> In x arr /\ x <> old).
Proof.
  intros Hnd Hin. pose proof (remove_unordered_perm old arr Hin) as P.
  assert (NoDup (old :: remove_unordered old arr)) as Hnd'
    by (eapply Permutation_NoDup; [apply Permutation_sym; exact P | exact Hnd]).
  inversion Hnd' as [|? ? Hno _]; subst. split.
  - intros H. split.
    + eapply Permutation_in; [exact P | right; exact H].
    + intros ->. contradiction.
  - intros [H Hx]. apply (Permutation_in x (Permutation_sym P)) in H. destruct H; [congruence | assumption].
Qed.

Lemma NoDup_map_remove_unordered {A} (nm : nat -> A) old arr :
  NoDup (map nm arr) -> In old arr -> NoDup (map nm (remove_unordered old arr)).
Proof.
  intros Hnd Hin. pose proof (remove_unordered_perm old arr Hin) as P.
  apply (Permutation_map nm) in P. apply Permutation_sym in P.
  pose proof (Permutation_NoDup P Hnd) as H. simpl in H. inversion H; assumption.
Qed.

(* --- remove_item --- *)

Lemma In_remove_item x arr y : In y (remove_item x arr) -> In y arr.
Proof.
  induction arr as [|a tl IH]; simpl; auto. destruct (Nat.eqb a x); simpl; intros H; auto.
  destruct H; auto.
Qed.

Lemma In_remove_item_iff x arr y : NoDup arr -> (In y (remove_item x arr) <-> In y arr /\ y <> x).
Proof.
  induction 1 as [|a tl Hna Hnd IH]; simpl; [tauto|].
  destruct (Nat.eqb_spec a x) as [->|Hne]; simpl.
  - split; [intros H; split; auto; intros ->; contradiction | intros [[H|H] Hx]; congruence].
  - rewrite IH. split; [intros [H|[H1 H2]]; subst; auto | intros [[H|H] Hx]; auto].
Qed.

Lemma NoDup_map_remove_item {A} (nm : nat -> A) x arr :
  NoDup (map nm arr) -> NoDup (map nm (remove_item x arr)).
Proof.
  induction arr as [|a tl IH]; simpl; auto. intros H. inversion H as [|? ? Hna Hnd]; subst.
  destruct (Nat.eqb a x); auto. simpl. constructor; auto.
  rewrite in_map_iff. intros (i & E & Hi). apply Hna. rewrite <- E. apply in_map.
  eapply In_remove_item; eauto.
Qed.

Lemma NoDup_map_inj {A} (nm : nat -> A) arr i j :
  NoDup (map nm arr) -> In i arr -> In j arr -> nm i = nm j -> i = j.
Proof.
  induction arr as [|a tl IH]; simpl; [tauto|]. intros H. inversion H as [|? ? Hna Hnd]; subst.
  intros [->|Hi] [->|Hj] E; auto.
  - exfalso. apply Hna. rewrite E. apply in_map. exact Hj.
  - exfalso. apply Hna. rewrite <- E. apply in_map. exact Hi.
Qed.

Lemma NoDup_map_NoDup {A} (nm : nat -> A) arr : NoDup (map nm arr) -> NoDup arr.
Proof.
  induction arr as [|a tl IH]; simpl; [constructor|]. intros H. inversion H; subst.
  constructor; auto. intros Hin. apply H2. apply in_map. exact Hin.
Qed.

Lemma NoDup_map_app1 {A} (nm : nat -> A) arr x :
  NoDup (map nm arr) -> (forall i, In i arr -> nm i <> nm x) -> NoDup (map nm (arr ++ [x])).
Proof.
  induction arr as [|a tl IH]; simpl; intros Hnd Hf.
  - constructor; [intros [] | constructor].
  - inversion Hnd as [|? ? Hna Hnd']; subst. constructor.
    + rewrite map_app, in_app_iff. simpl. intros [H|[H|[]]]; [contradiction|].
      apply (Hf a); auto.
    + apply IH; auto.
Qed.

(* --- find_by --- *)

Lemma find_by_Some nm s arr i : find_by nm s arr = Some i -> In i arr /\ nm i = s.
Proof.
  induction arr as [|a tl IH]; simpl; [discriminate|].
  destruct (N.eqb_spec (nm a) s); intros H.
  - inversion H; subst. auto.
  - destruct (IH H). auto.
Qed.

Lemma find_by_None nm s arr : find_by nm s arr = None <-> (forall i, In i arr -> nm i <> s).
Proof.
  induction arr as [|a tl IH]; simpl.
  - split; auto; intros _ i [].
  - destruct (N.eqb_spec (nm a) s); split; intros H.
    + discriminate.
    + exfalso. apply (H a); auto.
    + intros i [->|Hi]; auto. apply IH; auto.
    + apply IH. auto.
Qed.

Lemma find_by_unique nm s arr i :
  NoDup (map nm arr) -> In i arr -> nm i = s -> find_by nm s arr = Some i.
Proof.
  intros Hnd Hi E. destruct (find_by nm s arr) as [j|] eqn:F.
  - apply find_by_Some in F. destruct F as [Hj Ej]. f_equal.
    eapply NoDup_map_inj; eauto. congruence.
  - exfalso. rewrite find_by_None in F. apply (F i); auto.
Qed.

Lemma find_by_ext nm nm' s arr :
  (forall i, In i arr -> N.eqb (nm i) s = N.eqb (nm' i) s) -> find_by nm s arr = find_by nm' s arr.
Proof.
  induction arr as [|a tl IH]; simpl; auto. intros H.
  rewrite <- (H a) by auto. destruct (N.eqb (nm a) s); auto.
Qed.
(* ========================================================================================== *)
(* 2. Well-formedness                                                                          *)

Definition tgt_ok (nc nr : nat) (t : target) : Prop :=
  match t with ToCell c => c < nc | ToRaw r => r < nr | ByName _ => True end.

Definition cell_ok (nc nr : nat) (c : cell) : Prop := Forall (tgt_ok nc nr) (c_refs c).

(* every identity that occurs denotes a live object; a raw cell only depends on raw cells
   created before it (raw cells are immutable once created) *)
Definition ids_ok (L : lib) : Prop :=
  (forall i, In i (l_carr L) -> i < length (l_cells L)) /\
  (forall r, In r (l_rarr L) -> r < length (l_raws L)) /\
  Forall (cell_ok (length (l_cells L)) (length (l_raws L))) (l_cells L) /\
  (forall r d, In d (r_deps (raw_at L r)) -> d < r).

(* names are unique within cell_array, within rawcell_array, and across the two *)
Definition names_ok (L : lib) : Prop :=
  NoDup (map (cname L) (l_carr L)) /\
  NoDup (map (rname L) (l_rarr L)) /\
  (forall i r, In i (l_carr L) -> In r (l_rarr L) -> cname L i <> rname L r).

(* cell i holds a ReferenceType::Cell reference to cell j *)
Definition cedge (L : lib) (i j : nat) : Prop := In (ToCell j) (c_refs (cell_at L i)).

Inductive creach (L : lib) : nat -> nat -> Prop :=
| cr_step i j : cedge L i j -> creach L i j
| cr_snoc i j k : creach L i j -> cedge L j k -> creach L i k.

Definition creach_refl (L : lib) (i j : nat) : Prop := i = j \/ creach L i j.

Definition acyclic (L : lib) : Prop := forall i, ~ creach L i i.

Definition WF (L : lib) : Prop := ids_ok L /\ names_ok L /\ acyclic L.

(* every pointer held by a member designates a member *)
Definition closed (L : lib) : Prop :=
  (forall i t, In i (l_carr L) -> In t (c_refs (cell_at L i)) ->
     match t with ToCell c => In c (l_carr L) | ToRaw r => In r (l_rarr L) | ByName _ => True end) /\
  (forall r d, In r (l_rarr L) -> In d (r_deps (raw_at L r)) -> In d (l_rarr L)).

Definition empty_lib : lib := mkLib [] [] [] [].

Lemma cell_at_dummy L i : length (l_cells L) <= i -> cell_at L i = dummy_cell.
Proof. intros H. unfold cell_at. apply nth_overflow. exact H. Qed.

Lemma cedge_valid L i j : cedge L i j -> i < length (l_cells L).
Proof.
  unfold cedge. intros H. destruct (Nat.lt_ge_cases i (length (l_cells L))); auto.
  rewrite cell_at_dummy in H by assumption. destruct H.
Qed.

Lemma cell_at_In L i : i < length (l_cells L) -> In (cell_at L i) (l_cells L).
Proof. intros H. unfold cell_at. apply nth_In. exact H. Qed.

Lemma cedge_target_ok L i j : ids_ok L -> cedge L i j -> j < length (l_cells L).
Proof.
  intros (_ & _ & Hc & _) H. pose proof (cedge_valid _ _ _ H) as Hi.
  rewrite Forall_forall in Hc. specialize (Hc _ (cell_at_In L i Hi)).
  unfold cell_ok in Hc. rewrite Forall_forall in Hc. apply (Hc _ H).
Qed.

Lemma creach_trans L i j k : creach L i j -> creach L j k -> creach L i k.
Proof.
  intros H1 H2. revert H1. induction H2 as [j k H|j k l H IH Hkl]; intros H1.
  - exact (cr_snoc L i j k H1 H).
  - exact (cr_snoc L i k l (IH H1) Hkl).
Qed.

Lemma creach_cons L i j k : cedge L i j -> creach L j k -> creach L i k.
Proof. intros H1 H2. eapply creach_trans; [apply cr_step; exact H1 | exact H2]. Qed.

Lemma creach_refl_trans L i j k : creach_refl L i j -> creach_refl L j k -> creach_refl L i k.
Proof.
  intros [->|H1] [->|H2]; unfold creach_refl; auto. right. eapply creach_trans; eauto.
Qed.

(* decomposition at the first edge *)
Lemma creach_first L i k : creach L i k -> exists j, cedge L i j /\ creach_refl L j k.
Proof.
  induction 1 as [i j H | i j k H (j0 & Hj0 & IH) Hjk].
  - exists j. split; auto. left. reflexivity.
  - exists j0. split; auto. eapply creach_refl_trans; [exact IH|]. right. apply cr_step. exact Hjk.
Qed.

Lemma creach_target_ok L i j : ids_ok L -> creach L i j -> j < length (l_cells L).
Proof. intros Hok H. destruct H; eapply cedge_target_ok; eauto. Qed.

Lemma creach_source_valid L i j : creach L i j -> i < length (l_cells L).
Proof. induction 1; auto. eapply cedge_valid; eauto. Qed.

(* --- three ways in which the edge relation changes --- *)

(* (a) no new edge *)
Lemma creach_mono L L' :
  (forall i j, cedge L' i j -> cedge L i j) -> forall i j, creach L' i j -> creach L i j.
Proof.
  intros He i j H. induction H.
  - apply cr_step. auto.
  - eapply cr_snoc; eauto.
Qed.

Lemma acyclic_mono L L' :
  (forall i j, cedge L' i j -> cedge L i j) -> acyclic L -> acyclic L'.
Proof. intros He Ha i H. apply (Ha i). eapply creach_mono; eauto. Qed.

(* (b) some edges are redirected to `new`: every new edge starts at a cell in R and ends at new *)
Lemma creach_retarget L L' (R : nat -> Prop) new :
  (forall i j, cedge L' i j -> cedge L i j \/ (R i /\ j = new)) ->
  forall x y, creach L' x y ->
    creach L x y \/ (exists m, R m /\ creach_refl L x m /\ creach_refl L new y).
Proof.
  intros He x y H. induction H as [x y H | x y z H IH Hyz].
  - destruct (He _ _ H) as [H1|[H1 ->]].
    + left. apply cr_step. exact H1.
    + right. exists x. split; auto. split; left; reflexivity.
  - destruct (He _ _ Hyz) as [H1|[H1 ->]].
    + destruct IH as [IH|(m & Hm & Hxm & Hny)].
      * left. eapply cr_snoc; eauto.
      * right. exists m. split; auto. split; auto.
        eapply creach_refl_trans; [exact Hny|]. right. apply cr_step. exact H1.
    + destruct IH as [IH|(m & Hm & Hxm & Hny)].
      * right. exists y. split; auto. split; [right; exact IH | left; reflexivity].
      * right. exists m. split; auto. split; auto. left. reflexivity.
Qed.

Lemma acyclic_retarget L L' (R : nat -> Prop) new :
  (forall i j, cedge L' i j -> cedge L i j \/ (R i /\ j = new)) ->
  (forall m, R m -> ~ creach_refl L new m) ->
  acyclic L -> acyclic L'.
Proof.
  intros He Hpre Ha x H. destruct (creach_retarget L L' R new He x x H) as [H1|(m & Hm & Hxm & Hnx)].
  - apply (Ha x). exact H1.
  - apply (Hpre m Hm). eapply creach_refl_trans; eauto.
Qed.

(* (c) new cells are appended whose references all designate older cells *)
Lemma acyclic_append L L' :
  ids_ok L ->
  (forall i j, cedge L' i j ->
     (i < length (l_cells L) /\ cedge L i j) \/ (length (l_cells L) <= i /\ j < length (l_cells L))) ->
  acyclic L -> acyclic L'.
Proof.
  intros Hok He Ha.
  assert (Htgt : forall i j, creach L' i j -> j < length (l_cells L)).
  { intros i j H. destruct H as [i j H|i j k _ H]; destruct (He _ _ H) as [[_ H1]|[_ H1]]; auto;
      eapply cedge_target_ok; eauto. }
  assert (Hold : forall i j, creach L' i j -> i < length (l_cells L) -> creach L i j).
  { intros i j H. induction H as [i j H|i j k H IH Hjk]; intros Hi.
    - destruct (He _ _ H) as [[_ H1]|[H1 _]]; [apply cr_step; exact H1 | lia].
    - specialize (IH Hi). pose proof (Htgt _ _ H) as Hj.
      destruct (He _ _ Hjk) as [[_ H1]|[H1 _]]; [eapply cr_snoc; eauto | lia]. }
  intros x H. apply (Ha x). apply Hold; auto. eapply Htgt; eauto.
Qed.

Lemma WF_empty : WF empty_lib.
Proof.
  split; [|split].
  - unfold ids_ok. simpl. split; [intros ? []|]. split; [intros ? []|]. split; [constructor|].
    intros r d. unfold raw_at. simpl. destruct r; simpl; intros [].
  - unfold names_ok. simpl. split; [constructor|]. split; [constructor|]. intros ? ? [].
  - intros i H. apply creach_source_valid in H. simpl in H. lia.
Qed.
(* ========================================================================================== *)
(* 3. Effect of the store updates on one cell                                                  *)

Lemma cell_at_upd_members f arr st j :
  NoDup arr -> f dummy_cell = dummy_cell ->
  nth j (upd_members f arr st) dummy_cell =
  if memb j arr then f (nth j st dummy_cell) else nth j st dummy_cell.
Proof.
  intros Hnd Hd. rewrite nth_upd_members by exact Hnd.
  destruct (memb j arr); simpl; [|reflexivity].
  destruct (Nat.ltb_spec j (length st)); [reflexivity|].
  rewrite nth_overflow by assumption. symmetry. exact Hd.
Qed.

(* the Cell-type targets of a cell *)
Fixpoint ctargets (refs : list target) : list nat :=
  match refs with
  | [] => []
  | ToCell j :: tl => j :: ctargets tl
  | _ :: tl => ctargets tl
  end.

Lemma In_ctargets refs j : In j (ctargets refs) <-> In (ToCell j) refs.
Proof.
  induction refs as [|t tl IH]; simpl; [tauto|].
  destruct t; simpl; rewrite IH; split; intros H; try tauto.
  - destruct H as [->|H]; auto.
  - destruct H as [H|H]; auto. inversion H; auto.
  - destruct H as [H|H]; auto. discriminate.
  - destruct H as [H|H]; auto. discriminate.
Qed.

Lemma cedge_ctargets L i j : cedge L i j <-> In j (ctargets (c_refs (cell_at L i))).
Proof. unfold cedge. symmetry. apply In_ctargets. Qed.

Lemma ctargets_rename_ref o n refs : ctargets (map (rename_ref o n) refs) = ctargets refs.
Proof.
  induction refs as [|t tl IH]; simpl; auto.
  destruct t; simpl; try rewrite IH; auto. destruct (N.eqb s o); simpl; auto.
Qed.

(* a reference that the switch of replace_cell rewrites *)
Definition matches (mc mr : nat -> bool) (t : target) : Prop :=
  match t with ToCell c => mc c = true | ToRaw r => mr r = true | ByName _ => False end.

(* cell i holds such a reference *)
Definition holds_match (L : lib) (mc mr : nat -> bool) (i : nat) : Prop :=
  exists t, In t (c_refs (cell_at L i)) /\ matches mc mr t.

Lemma retarget_cases mc mr nt o n t :
  (matches mc mr t /\ retarget mc mr nt o n t = nt) \/
  (~ matches mc mr t /\
   match t with
   | ByName s => retarget mc mr nt o n t = t \/ (s = o /\ o <> n /\ retarget mc mr nt o n t = ByName n)
   | _ => retarget mc mr nt o n t = t
   end).
Proof.
  destruct t as [c|r|s]; simpl.
  - destruct (mc c); [left|right]; split; auto; discriminate.
  - destruct (mr r); [left|right]; split; auto; discriminate.
  - right. split; auto. destruct (N.eqb_spec o n); simpl; auto.
    destruct (N.eqb_spec s o); auto.
Qed.

Lemma retarget_tgt_ok nc nr mc mr nt o n t :
  tgt_ok nc nr nt -> tgt_ok nc nr t -> tgt_ok nc nr (retarget mc mr nt o n t).
Proof.
  intros Hn Ht. destruct (retarget_cases mc mr nt o n t) as [[_ ->]|[_ H]]; auto.
  destruct t; try (rewrite H; assumption). destruct H as [->|(_ & _ & ->)]; simpl; auto.
Qed.

Lemma retarget_ToCell mc mr nt o n t j :
  retarget mc mr nt o n t = ToCell j -> t = ToCell j \/ (matches mc mr t /\ nt = ToCell j).
Proof.
  destruct (retarget_cases mc mr nt o n t) as [[Hm ->]|[_ H]]; intros E; auto.
  destruct t; try (rewrite H in E; auto).
  destruct H as [H|(_ & _ & H)]; rewrite H in E; auto. discriminate.
Qed.

(* ========================================================================================== *)
(* 4. The shape shared by the four replace_cell overloads                                      *)

Definition retarget_lib (L : lib) (carr' rarr' : list nat) (h : target -> target) : lib :=
  mkLib (upd_members (map_refs h) carr' (l_cells L)) (l_raws L) carr' rarr'.

Lemma retarget_lib_length L ca ra h : length (l_cells (retarget_lib L ca ra h)) = length (l_cells L).
Proof. simpl. apply upd_members_length. Qed.

Lemma retarget_lib_cname L ca ra h j : cname (retarget_lib L ca ra h) j = cname L j.
Proof.
  unfold cname, cell_at. simpl.
  apply (proj_upd_members c_name (map_refs h) ca); reflexivity.
Qed.

Lemma retarget_lib_rname L ca ra h r : rname (retarget_lib L ca ra h) r = rname L r.
Proof. reflexivity. Qed.

Lemma retarget_lib_ptags L ca ra h j :
  c_ptags (cell_at (retarget_lib L ca ra h) j) = c_ptags (cell_at L j).
Proof. unfold cell_at. simpl. apply (proj_upd_members c_ptags (map_refs h) ca); reflexivity. Qed.

Lemma retarget_lib_ltags L ca ra h j :
  c_ltags (cell_at (retarget_lib L ca ra h) j) = c_ltags (cell_at L j).
Proof. unfold cell_at. simpl. apply (proj_upd_members c_ltags (map_refs h) ca); reflexivity. Qed.

Lemma retarget_lib_refs L ca ra h j : NoDup ca ->
  c_refs (cell_at (retarget_lib L ca ra h) j) =
  if memb j ca then map h (c_refs (cell_at L j)) else c_refs (cell_at L j).
Proof.
  intros Hnd. unfold cell_at. simpl. rewrite cell_at_upd_members by (auto; reflexivity).
  destruct (memb j ca); reflexivity.
Qed.

Lemma WF_retarget L ca ra mc mr nt o n :
  WF L ->
  NoDup (map (cname L) ca) -> NoDup (map (rname L) ra) ->
  (forall i r, In i ca -> In r ra -> cname L i <> rname L r) ->
  (forall i, In i ca -> i < length (l_cells L)) ->
  (forall r, In r ra -> r < length (l_raws L)) ->
  tgt_ok (length (l_cells L)) (length (l_raws L)) nt ->
  (forall new, nt = ToCell new ->
     forall m, In m ca -> holds_match L mc mr m -> ~ creach_refl L new m) ->
  WF (retarget_lib L ca ra (retarget mc mr nt o n)).
Proof.
  intros (Hids & Hnames & Hacyc) Hnc Hnr Hdisj Hca Hra Hnt Hpre.
  set (L' := retarget_lib L ca ra (retarget mc mr nt o n)).
  assert (Hndca : NoDup ca) by (eapply NoDup_map_NoDup; eauto).
  split; [|split].
  - destruct Hids as (H1 & H2 & H3 & H4). unfold ids_ok, L'.
    rewrite (retarget_lib_length L ca ra). split; [exact Hca|]. split; [exact Hra|]. split; [|exact H4].
    simpl. apply Forall_upd_members; [|exact H3].
    intros c Hc. unfold cell_ok in *. simpl. rewrite Forall_forall in *.
    intros t Ht. rewrite in_map_iff in Ht. destruct Ht as (t0 & <- & Ht0).
    apply retarget_tgt_ok; auto.
  - unfold names_ok. simpl l_carr. simpl l_rarr. split; [|split].
    + erewrite map_ext; [exact Hnc|]. intros j. apply retarget_lib_cname.
    + exact Hnr.
    + intros i r Hi Hr. unfold L'. rewrite retarget_lib_cname. apply Hdisj; auto.
  - assert (He : forall i j, cedge L' i j ->
               cedge L i j \/ ((In i ca /\ holds_match L mc mr i) /\ nt = ToCell j)).
    { intros i j H. unfold cedge, L' in H. rewrite retarget_lib_refs in H by exact Hndca.
      destruct (memb j ca) eqn:Ej; destruct (memb i ca) eqn:Ei; auto;
        apply memb_In in Ei; rewrite in_map_iff in H; destruct H as (t & E & Ht);
        (apply retarget_ToCell in E; destruct E as [->|[Hm E]]; [left; exact Ht|];
         right; split; [split; [exact Ei | exists t; auto] | exact E]). }
    destruct nt as [new|rnew|s].
    + eapply (acyclic_retarget L L' (fun i => In i ca /\ holds_match L mc mr i) new); [| |exact Hacyc].
      * intros i j H. destruct (He i j H) as [H1|[H1 H2]]; auto. inversion H2; subst. auto.
      * intros m [Hm1 Hm2]. apply (Hpre new eq_refl m Hm1 Hm2).
    + eapply acyclic_mono; [|exact Hacyc]. intros i j H.
      destruct (He i j H) as [H1|[_ H2]]; auto. discriminate.
    + eapply acyclic_mono; [|exact Hacyc]. intros i j H.
      destruct (He i j H) as [H1|[_ H2]]; auto. discriminate.
Qed.
(* ========================================================================================== *)
(* 5. Preconditions of the operations (the contract under which WF is an invariant)            *)

Definition no_cell_named (L : lib) (s : name) : Prop := forall i, In i (l_carr L) -> cname L i <> s.
Definition no_raw_named (L : lib) (s : name) : Prop := forall r, In r (l_rarr L) -> rname L r <> s.
Definition fresh_name (L : lib) (s : name) : Prop := no_cell_named L s /\ no_raw_named L s.
Definition others_differ (L : lib) (c : nat) (s : name) : Prop :=
  forall i, In i (l_carr L) -> i <> c -> cname L i <> s.

Definition op_pre (L : lib) (o : op) : Prop :=
  match o with
  | OpNewCell c => cell_ok (length (l_cells L)) (length (l_raws L)) c
  | OpNewRaw r => Forall (fun d => d < length (l_raws L)) (r_deps r)
  | OpCopyCell src _ => src < length (l_cells L)
  | OpAddCell i => i < length (l_cells L) /\ fresh_name L (cname L i)
  | OpAddRaw r => r < length (l_raws L) /\ fresh_name L (rname L r)
  | OpRemoveCell _ => True
  | OpRemoveRaw _ => True
  | OpRenamePtr i nn => In i (l_carr L) /\ others_differ L i nn /\ no_raw_named L nn
  | OpRenameName old nn =>
      match get_cell L old with
      | Some i => others_differ L i nn /\ no_raw_named L nn
      | None => True
      end
  | OpReplaceCC old new =>
      In old (l_carr L) /\ new < length (l_cells L) /\ ~ In new (l_carr L) /\
      (cname L new = cname L old \/ fresh_name L (cname L new)) /\
      (* the new cell must not reach a cell holding a reference that is redirected to it *)
      (forall m, In m (l_carr L) \/ m = new ->
         holds_match L (fun c => Nat.eqb c old) (fun r => N.eqb (rname L r) (cname L old)) m ->
         ~ creach_refl L new m)
  | OpReplaceRC old new =>
      In old (l_rarr L) /\ new < length (l_cells L) /\ ~ In new (l_carr L) /\
      (cname L new = rname L old \/ fresh_name L (cname L new)) /\
      (forall m, In m (l_carr L) \/ m = new ->
         holds_match L (fun c => N.eqb (cname L c) (rname L old)) (fun r => Nat.eqb r old) m ->
         ~ creach_refl L new m)
  | OpReplaceCR old new =>
      In old (l_carr L) /\ new < length (l_raws L) /\ ~ In new (l_rarr L) /\
      (rname L new = cname L old \/ fresh_name L (rname L new))
  | OpReplaceRR old new =>
      In old (l_rarr L) /\ new < length (l_raws L) /\ ~ In new (l_rarr L) /\
      (rname L new = rname L old \/ fresh_name L (rname L new))
  | OpRemap _ => True
  | OpCopyLib _ => True
  end.

(* every operation of the history meets its precondition in the state it is applied to *)
Fixpoint ops_ok (L : lib) (ops : list op) : Prop :=
  match ops with
  | [] => True
  | o :: tl => op_pre L o /\ ops_ok (step L o) tl
  end.

(* ========================================================================================== *)
(* 6. WF is preserved by every operation                                                       *)

Lemma NoDup_map_update {A} (f : nat -> A) (c : nat) (v : A) l :
  NoDup (map f l) -> (forall i, In i l -> i <> c -> f i <> v) ->
  NoDup (map (fun j => if Nat.eqb j c then v else f j) l).
Proof.
  induction l as [|a tl IH]; simpl; intros Hnd Hf; [constructor|].
  inversion Hnd as [|? ? Hna Hnd']; subst. constructor; [|apply IH; auto].
  rewrite in_map_iff. intros (i & E & Hi).
  destruct (Nat.eqb_spec i c) as [Eic|Hic]; destruct (Nat.eqb_spec a c) as [Eac|Hac].
  - subst. apply Hna. apply in_map. exact Hi.
  - apply (Hf a); auto.
  - apply (Hf i); auto.
  - apply Hna. rewrite <- E. apply in_map. exact Hi.
Qed.

(* --- operations that only touch the arrays --- *)

Lemma WF_arrays L ca ra :
  WF L ->
  (forall i, In i ca -> i < length (l_cells L)) -> (forall r, In r ra -> r < length (l_raws L)) ->
  NoDup (map (cname L) ca) -> NoDup (map (rname L) ra) ->
  (forall i r, In i ca -> In r ra -> cname L i <> rname L r) ->
  WF (mkLib (l_cells L) (l_raws L) ca ra).
Proof.
  intros ((H1 & H2 & H3 & H4) & Hn & Ha) Hca Hra Hnc Hnr Hd. split; [|split].
  - unfold ids_ok. simpl. auto.
  - unfold names_ok. simpl. auto.
  - intros i H. apply (Ha i). eapply creach_mono; [|exact H]. intros x y E. exact E.
Qed.

(* --- operations that append cells to the store --- *)

Lemma tgt_ok_mono nc nr nc' nr' t : nc <= nc' -> nr <= nr' -> tgt_ok nc nr t -> tgt_ok nc' nr' t.
Proof. destruct t; simpl; intros; auto; lia. Qed.

Lemma cell_ok_mono nc nr nc' nr' c : nc <= nc' -> nr <= nr' -> cell_ok nc nr c -> cell_ok nc' nr' c.
Proof.
  unfold cell_ok. intros H1 H2 H. rewrite Forall_forall in *. intros t Ht.
  eapply tgt_ok_mono; eauto.
Qed.

Lemma WF_append L news ca :
  WF L ->
  Forall (cell_ok (length (l_cells L)) (length (l_raws L))) news ->
  let L' := mkLib (l_cells L ++ news) (l_raws L) ca (l_rarr L) in
  (forall i, In i ca -> i < length (l_cells L) + length news) ->
  NoDup (map (cname L') ca) ->
  (forall i r, In i ca -> In r (l_rarr L) -> cname L' i <> rname L r) ->
  WF L'.
Proof.
  intros ((H1 & H2 & H3 & H4) & (Hn1 & Hn2 & Hn3) & Ha) Hnews L' Hca Hnd Hdisj.
  assert (Hids : ids_ok L) by (unfold ids_ok; auto).
  split; [|split].
  - unfold ids_ok, L'. simpl. rewrite app_length. split; [exact Hca|]. split; [exact H2|]. split; [|exact H4].
    apply Forall_app. split; eapply Forall_impl; try eassumption; intros c Hc;
      (eapply cell_ok_mono; [| |exact Hc]; lia).
  - unfold names_ok. simpl. split; [exact Hnd|]. split; [exact Hn2|]. exact Hdisj.
  - apply (acyclic_append L L' Hids); [|exact Ha]. intros i j H. unfold cedge, cell_at in H. simpl in H.
    destruct (Nat.lt_ge_cases i (length (l_cells L))) as [Hi|Hi].
    + left. split; auto. rewrite app_nth1 in H by exact Hi. exact H.
    + right. split; auto. rewrite app_nth2 in H by exact Hi.
      destruct (Nat.lt_ge_cases (i - length (l_cells L)) (length news)) as [Hk|Hk].
      * rewrite Forall_forall in Hnews. specialize (Hnews _ (nth_In news dummy_cell Hk)).
        unfold cell_ok in Hnews. rewrite Forall_forall in Hnews. apply (Hnews _ H).
      * rewrite nth_overflow in H by exact Hk. destruct H.
Qed.

Lemma cname_app_old L news ca ra i : i < length (l_cells L) ->
  cname (mkLib (l_cells L ++ news) (l_raws L) ca ra) i = cname L i.
Proof. intros H. unfold cname, cell_at. simpl. rewrite app_nth1 by exact H. reflexivity. Qed.

Lemma WF_append_same_arrays L news :
  WF L -> Forall (cell_ok (length (l_cells L)) (length (l_raws L))) news ->
  WF (mkLib (l_cells L ++ news) (l_raws L) (l_carr L) (l_rarr L)).
Proof.
  intros HWF Hnews. pose proof HWF as ((H1 & H2 & H3 & H4) & (Hn1 & Hn2 & Hn3) & Ha).
  apply WF_append; auto.
  - intros i Hi. specialize (H1 i Hi). lia.
  - erewrite map_ext_in; [exact Hn1|]. intros i Hi. apply cname_app_old. auto.
  - intros i r Hi Hr. rewrite cname_app_old by auto. auto.
Qed.

Lemma cell_at_ok L i : ids_ok L -> cell_ok (length (l_cells L)) (length (l_raws L)) (cell_at L i).
Proof.
  intros (_ & _ & H & _). destruct (Nat.lt_ge_cases i (length (l_cells L))) as [Hi|Hi].
  - rewrite Forall_forall in H. apply H. apply cell_at_In. exact Hi.
  - rewrite cell_at_dummy by exact Hi. constructor.
Qed.

Lemma map_nth_app_seq {A B} (f : A -> B) (l1 l2 : list A) d :
  map (fun j => f (nth j (l1 ++ l2) d)) (seq (length l1) (length l2)) = map f l2.
Proof.
  revert l1. induction l2 as [|a tl IH]; intros l1; simpl; auto.
  rewrite nth_middle. f_equal.
  replace (l1 ++ a :: tl) with ((l1 ++ [a]) ++ tl) by (rewrite <- app_assoc; reflexivity).
  replace (S (length l1)) with (length (l1 ++ [a])) by (rewrite app_length; simpl; lia).
  apply IH.
Qed.

Lemma copy_lib_names L :
  map (cname (copy_lib L true)) (l_carr (copy_lib L true)) = map (cname L) (l_carr L).
Proof.
  unfold copy_lib. simpl. unfold cname at 1. unfold cell_at. simpl.
  rewrite <- (map_length (fun i => copy_cell (cell_at L i) None) (l_carr L)).
  rewrite (map_nth_app_seq c_name). rewrite map_map. reflexivity.
Qed.

Lemma WF_copy_lib L deep : WF L -> WF (copy_lib L deep).
Proof.
  intros HWF. destruct deep; [|exact HWF].
  pose proof HWF as (Hids & (Hn1 & Hn2 & Hn3) & Ha).
  pose proof (copy_lib_names L) as Hnm. unfold copy_lib in *. simpl in *.
  apply WF_append; auto.
  - rewrite Forall_forall. intros c Hc. rewrite in_map_iff in Hc. destruct Hc as (i & <- & Hi).
    apply (cell_at_ok L i Hids).
  - intros i Hi. rewrite in_seq in Hi. rewrite map_length. lia.
  - rewrite Hnm. exact Hn1.
  - intros i r Hi Hr E.
    assert (In (cname (mkLib (l_cells L ++ map (fun i => copy_cell (cell_at L i) None) (l_carr L))
                 (l_raws L) (seq (length (l_cells L)) (length (l_carr L))) (l_rarr L)) i)
               (map (cname L) (l_carr L))) as Hin.
    { rewrite <- Hnm. apply in_map. exact Hi. }
    rewrite in_map_iff in Hin. destruct Hin as (i0 & E0 & Hi0).
    apply (Hn3 i0 r Hi0 Hr). rewrite E0. exact E.
Qed.

(* --- remap_tags --- *)

Lemma remap_refs L m j : c_refs (cell_at (remap_tags L m) j) = c_refs (cell_at L j).
Proof. unfold cell_at. simpl. apply (proj_upd_members c_refs (remap_cell m)); reflexivity. Qed.

Lemma remap_cname L m j : cname (remap_tags L m) j = cname L j.
Proof. unfold cname, cell_at. simpl. apply (proj_upd_members c_name (remap_cell m)); reflexivity. Qed.

Lemma WF_remap L m : WF L -> WF (remap_tags L m).
Proof.
  intros ((H1 & H2 & H3 & H4) & (Hn1 & Hn2 & Hn3) & Ha). split; [|split].
  - unfold ids_ok. simpl. rewrite upd_members_length. split; [exact H1|]. split; [exact H2|]. split; [|exact H4].
    apply Forall_upd_members; [|exact H3]. intros c Hc. exact Hc.
  - unfold names_ok. simpl l_carr. simpl l_rarr. split; [|split].
    + erewrite map_ext; [exact Hn1|]. intros j. apply remap_cname.
    + exact Hn2.
    + intros i r Hi Hr. rewrite remap_cname. apply Hn3; auto.
  - eapply acyclic_mono; [|exact Ha]. intros i j H. unfold cedge in *. rewrite remap_refs in H. exact H.
Qed.

(* --- rename_cell --- *)

Lemma rename_length L c nn : length (l_cells (rename_cell_ptr L c nn)) = length (l_cells L).
Proof. simpl. rewrite upd_at_length. apply upd_members_length. Qed.

Lemma rename_cname L c nn j : c < length (l_cells L) ->
  cname (rename_cell_ptr L c nn) j = if Nat.eqb j c then nn else cname L j.
Proof.
  intros Hc. unfold cname, cell_at. simpl. rewrite nth_upd_at. rewrite upd_members_length.
  assert (Nat.ltb c (length (l_cells L)) = true) as -> by (apply Nat.ltb_lt; exact Hc).
  rewrite andb_true_r. destruct (Nat.eqb j c); [reflexivity|].
  apply (proj_upd_members c_name); reflexivity.
Qed.

Lemma rename_ctargets L c nn j :
  ctargets (c_refs (cell_at (rename_cell_ptr L c nn) j)) = ctargets (c_refs (cell_at L j)).
Proof.
  unfold cell_at. simpl. rewrite nth_upd_at.
  match goal with |- context [if ?b then _ else _] => destruct b end; simpl;
    apply (proj_upd_members (fun c => ctargets (c_refs c))); intros x; simpl; apply ctargets_rename_ref.
Qed.

Lemma rename_ref_tgt_ok nc nr o n t : tgt_ok nc nr t -> tgt_ok nc nr (rename_ref o n t).
Proof. destruct t; simpl; auto. destruct (N.eqb s o); simpl; auto. Qed.

Lemma WF_rename_ptr L c nn :
  WF L -> In c (l_carr L) -> others_differ L c nn -> no_raw_named L nn ->
  WF (rename_cell_ptr L c nn).
Proof.
  intros ((H1 & H2 & H3 & H4) & (Hn1 & Hn2 & Hn3) & Ha) Hc Hoth Hraw.
  assert (Hclt : c < length (l_cells L)) by auto.
  split; [|split].
  - unfold ids_ok. rewrite rename_length. simpl. split; [exact H1|]. split; [exact H2|]. split; [|exact H4].
    apply Forall_upd_at; [intros x Hx; exact Hx|].
    apply Forall_upd_members; [|exact H3]. intros x Hx. unfold cell_ok in *. simpl.
    rewrite Forall_forall in *. intros t Ht. rewrite in_map_iff in Ht. destruct Ht as (t0 & <- & Ht0).
    apply rename_ref_tgt_ok. auto.
  - unfold names_ok. simpl l_carr. simpl l_rarr. split; [|split].
    + erewrite map_ext; [|intros j; apply rename_cname; exact Hclt].
      apply NoDup_map_update; auto.
    + exact Hn2.
    + intros i r Hi Hr. rewrite rename_cname by exact Hclt.
      destruct (Nat.eqb i c).
      * intros E. apply (Hraw r Hr). symmetry. exact E.
      * apply Hn3; auto.
  - eapply acyclic_mono; [|exact Ha]. intros i j H.
    rewrite cedge_ctargets in *. rewrite rename_ctargets in H. exact H.
Qed.

(* --- replace_cell --- *)

Lemma others_differ_of_pre (nmf : nat -> name) arr old (s : name) :
  NoDup (map nmf arr) -> In old arr ->
  (s = nmf old \/ (forall i, In i arr -> nmf i <> s)) ->
  forall i, In i arr -> i <> old -> nmf i <> s.
Proof.
  intros Hnd Hold [->|Hf] i Hi Hne; auto. intros E. apply Hne.
  eapply NoDup_map_inj; eauto.
Qed.

Lemma WF_replace_cc L old new : WF L -> op_pre L (OpReplaceCC old new) -> WF (replace_cc L old new).
Proof.
  intros HWF (Hold & Hnew & Hnin & Hname & Hcyc).
  pose proof HWF as ((H1 & H2 & H3 & H4) & (Hn1 & Hn2 & Hn3) & Ha).
  assert (Hndc : NoDup (l_carr L)) by (eapply NoDup_map_NoDup; eauto).
  assert (Hoth : forall i, In i (l_carr L) -> i <> old -> cname L i <> cname L new).
  { apply others_differ_of_pre; auto. destruct Hname as [E|[Hf _]]; auto. }
  unfold replace_cc. apply (WF_retarget L (replace_first old new (l_carr L)) (l_rarr L)); auto.
  - apply NoDup_map_replace_first; auto.
  - intros i r Hi Hr. apply In_replace_first in Hi. destruct Hi as [->|Hi]; auto.
    destruct Hname as [->|[_ Hf]]; auto. intros E. apply (Hf r Hr). symmetry. exact E.
  - intros i Hi. apply In_replace_first in Hi. destruct Hi as [->|Hi]; auto.
  - intros n E m Hm Hh. inversion E; subst n. apply Hcyc; auto.
    apply In_replace_first in Hm. destruct Hm; auto.
Qed.

Lemma WF_replace_rc L old new : WF L -> op_pre L (OpReplaceRC old new) -> WF (replace_rc L old new).
Proof.
  intros HWF (Hold & Hnew & Hnin & Hname & Hcyc).
  pose proof HWF as ((H1 & H2 & H3 & H4) & (Hn1 & Hn2 & Hn3) & Ha).
  assert (Hndr : NoDup (l_rarr L)) by (eapply NoDup_map_NoDup; eauto).
  unfold replace_rc. assert (memb old (l_rarr L) = true) as -> by (apply memb_In; exact Hold).
  assert (Hoth : forall i, In i (l_carr L) -> cname L i <> cname L new).
  { intros i Hi. destruct Hname as [->|[Hf _]]; auto. }
  apply (WF_retarget L (l_carr L ++ [new]) (remove_unordered old (l_rarr L))); auto.
  - apply NoDup_map_app1; auto.
  - apply NoDup_map_remove_unordered; auto.
  - intros i r Hi Hr. apply In_remove_unordered in Hr; auto. destruct Hr as [Hr Hne].
    apply in_app_iff in Hi. destruct Hi as [Hi|[<-|[]]]; auto.
    destruct Hname as [->|[_ Hf]].
    + intros E. apply Hne. eapply NoDup_map_inj; eauto.
    + intros E. apply (Hf r Hr). symmetry. exact E.
  - intros i Hi. apply in_app_iff in Hi. destruct Hi as [Hi|[<-|[]]]; auto.
  - intros r Hr. apply In_remove_unordered in Hr; auto. destruct Hr; auto.
  - intros n E m Hm Hh. inversion E; subst n. apply Hcyc; auto.
    apply in_app_iff in Hm. destruct Hm as [Hm|[<-|[]]]; auto.
Qed.

Lemma WF_replace_cr L old new : WF L -> op_pre L (OpReplaceCR old new) -> WF (replace_cr L old new).
Proof.
  intros HWF (Hold & Hnew & Hnin & Hname).
  pose proof HWF as ((H1 & H2 & H3 & H4) & (Hn1 & Hn2 & Hn3) & Ha).
  assert (Hndc : NoDup (l_carr L)) by (eapply NoDup_map_NoDup; eauto).
  unfold replace_cr. assert (memb old (l_carr L) = true) as -> by (apply memb_In; exact Hold).
  apply (WF_retarget L (remove_unordered old (l_carr L)) (l_rarr L ++ [new])); auto.
  - apply NoDup_map_remove_unordered; auto.
  - apply NoDup_map_app1; auto. intros r Hr. destruct Hname as [->|[_ Hf]]; auto.
    intros E. apply (Hn3 old r); auto.
  - intros i r Hi Hr. apply In_remove_unordered in Hi; auto. destruct Hi as [Hi Hne].
    apply in_app_iff in Hr. destruct Hr as [Hr|[<-|[]]]; auto.
    destruct Hname as [->|[Hf _]]; auto. intros E. apply Hne.
    apply (NoDup_map_inj (cname L) (l_carr L) i old Hn1 Hi Hold E).
  - intros i Hi. apply In_remove_unordered in Hi; auto. destruct Hi; auto.
  - intros r Hr. apply in_app_iff in Hr. destruct Hr as [Hr|[<-|[]]]; auto.
  - intros n E. discriminate.
Qed.

Lemma WF_replace_rr L old new : WF L -> op_pre L (OpReplaceRR old new) -> WF (replace_rr L old new).
Proof.
  intros HWF (Hold & Hnew & Hnin & Hname).
  pose proof HWF as ((H1 & H2 & H3 & H4) & (Hn1 & Hn2 & Hn3) & Ha).
  assert (Hoth : forall r, In r (l_rarr L) -> r <> old -> rname L r <> rname L new).
  { apply others_differ_of_pre; auto. destruct Hname as [E|[_ Hf]]; auto. }
  unfold replace_rr. apply (WF_retarget L (l_carr L) (replace_first old new (l_rarr L))); auto.
  - apply NoDup_map_replace_first; auto.
  - intros i r Hi Hr. apply In_replace_first in Hr. destruct Hr as [->|Hr]; auto.
    destruct Hname as [->|[Hf _]]; auto.
  - intros r Hr. apply In_replace_first in Hr. destruct Hr as [->|Hr]; auto.
  - intros n E. discriminate.
Qed.

(* --- all operations --- *)

Theorem step_WF_lemma L o : WF L -> op_pre L o -> WF (step L o).
Proof.
  intros HWF Hpre. pose proof HWF as ((H1 & H2 & H3 & H4) & (Hn1 & Hn2 & Hn3) & Ha).
  destruct o; simpl in *.
  - (* OpNewCell *) apply WF_append_same_arrays; auto.
  - (* OpNewRaw *)
    split; [|split].
    + unfold ids_ok. simpl. rewrite app_length. simpl. split; [exact H1|]. split; [intros x Hx; specialize (H2 x Hx); lia|].
      split.
      * eapply Forall_impl; [|exact H3]. intros c Hc. eapply cell_ok_mono; [| |exact Hc]; lia.
      * intros x d. unfold raw_at. simpl. destruct (Nat.lt_ge_cases x (length (l_raws L))) as [Hx|Hx].
        -- rewrite app_nth1 by exact Hx. apply H4.
        -- rewrite app_nth2 by exact Hx. destruct (x - length (l_raws L)) as [|k] eqn:Ek; simpl.
           ++ intros Hd. rewrite Forall_forall in Hpre. specialize (Hpre d Hd). lia.
           ++ destruct k; intros [].
    + unfold names_ok. simpl. split; [exact Hn1|]. split.
      * erewrite map_ext_in; [exact Hn2|]. intros x Hx. unfold rname, raw_at. simpl.
        rewrite app_nth1 by auto. reflexivity.
      * intros i x Hi Hx. unfold rname, raw_at. simpl. rewrite app_nth1 by auto. apply Hn3; auto.
    + intros i H. apply (Ha i). eapply creach_mono; [|exact H]. intros x y E. exact E.
  - (* OpCopyCell *) apply WF_append_same_arrays; auto. constructor; [|constructor].
    apply (cell_at_ok L src). unfold ids_ok; auto.
  - (* OpAddCell *) destruct Hpre as (Hi & Hf1 & Hf2). apply WF_arrays; auto.
    + intros x Hx. apply in_app_iff in Hx. destruct Hx as [Hx|[<-|[]]]; auto.
    + apply NoDup_map_app1; auto.
    + intros x r Hx Hr. apply in_app_iff in Hx. destruct Hx as [Hx|[<-|[]]]; auto.
      intros E. apply (Hf2 r Hr). symmetry. exact E.
  - (* OpAddRaw *) destruct Hpre as (Hi & Hf1 & Hf2). apply WF_arrays; auto.
    + intros x Hx. apply in_app_iff in Hx. destruct Hx as [Hx|[<-|[]]]; auto.
    + apply NoDup_map_app1; auto.
    + intros x y Hx Hy. apply in_app_iff in Hy. destruct Hy as [Hy|[<-|[]]]; auto.
  - (* OpRemoveCell *) apply WF_arrays; auto.
    + intros x Hx. apply In_remove_item in Hx. auto.
    + apply NoDup_map_remove_item; auto.
    + intros x y Hx Hy. apply In_remove_item in Hx. auto.
  - (* OpRemoveRaw *) apply WF_arrays; auto.
    + intros x Hx. apply In_remove_item in Hx. auto.
    + apply NoDup_map_remove_item; auto.
    + intros x y Hx Hy. apply In_remove_item in Hy. auto.
  - (* OpRenamePtr *) destruct Hpre as (Hi & Ho & Hr). apply WF_rename_ptr; auto.
  - (* OpRenameName *) unfold rename_cell_name. destruct (get_cell L old) as [c|] eqn:G; [|exact HWF].
    destruct Hpre as (Ho & Hr). apply find_by_Some in G. destruct G as [Hc _].
    apply WF_rename_ptr; auto.
  - apply WF_replace_cc; auto.
  - apply WF_replace_rc; auto.
  - apply WF_replace_cr; auto.
  - apply WF_replace_rr; auto.
  - apply WF_remap; auto.
  - apply WF_copy_lib; auto.
Qed.

(* the invariant over whole histories *)
Theorem run_WF_lemma ops : forall L, WF L -> ops_ok L ops -> WF (run ops L).
Proof.
  induction ops as [|o tl IH]; intros L HWF Hok; simpl in *.
  - exact HWF.
  - destruct Hok as [Hpre Hok]. apply IH; auto. apply step_WF_lemma; auto.
Qed.
(* ========================================================================================== *)
(* 7. rename_cell: every reference keeps designating the same object                           *)

Lemma Forall2_map_r {A B} (R : A -> B -> Prop) (h : A -> B) l :
  (forall t, In t l -> R t (h t)) -> Forall2 R l (map h l).
Proof.
  induction l as [|a tl IH]; simpl; intros H; constructor; auto.
Qed.

Lemma Forall2_same {A} (R : A -> A -> Prop) l : (forall t, In t l -> R t t) -> Forall2 R l l.
Proof. induction l as [|a tl IH]; simpl; intros H; constructor; auto. Qed.

Lemma rename_refs L c nn j : NoDup (l_carr L) ->
  c_refs (cell_at (rename_cell_ptr L c nn) j) =
  if memb j (l_carr L) then map (rename_ref (cname L c) nn) (c_refs (cell_at L j))
  else c_refs (cell_at L j).
Proof.
  intros Hnd. unfold cell_at at 1. simpl. rewrite nth_upd_at.
  assert (forall x, c_refs (if Nat.eqb j c && Nat.ltb c (length (upd_members (map_refs (rename_ref (cname L c) nn)) (l_carr L) (l_cells L)))
                            then set_name nn x else x) = c_refs x) as E
    by (intros x; destruct (_ && _); reflexivity).
  rewrite E. rewrite cell_at_upd_members by (auto; reflexivity).
  destruct (memb j (l_carr L)); reflexivity.
Qed.

Lemma rename_ptags L c nn j : c_ptags (cell_at (rename_cell_ptr L c nn) j) = c_ptags (cell_at L j).
Proof.
  unfold cell_at. simpl. rewrite nth_upd_at.
  match goal with |- context [if ?b then _ else _] => destruct b end; simpl;
    apply (proj_upd_members c_ptags); reflexivity.
Qed.

Lemma rename_ltags L c nn j : c_ltags (cell_at (rename_cell_ptr L c nn) j) = c_ltags (cell_at L j).
Proof.
  unfold cell_at. simpl. rewrite nth_upd_at.
  match goal with |- context [if ?b then _ else _] => destruct b end; simpl;
    apply (proj_upd_members c_ltags); reflexivity.
Qed.

(* what one reference looks like before / after a rename *)
Definition rename_ref_rel (L L' : lib) (o nn : name) (t t' : target) : Prop :=
  (forall x, resolve L t = Some x -> resolve L' t' = Some x) /\
  match t with
  | ByName s => (s <> o /\ t' = t) \/ (s = o /\ t' = ByName nn)
  | _ => t' = t
  end.

Theorem rename_preserves_targets_lemma L c nn :
  WF L -> In c (l_carr L) -> others_differ L c nn -> no_raw_named L nn ->
  let L' := rename_cell_ptr L c nn in
  (* the arrays, the raw cells, all tags are untouched; only names change *)
  l_carr L' = l_carr L /\ l_rarr L' = l_rarr L /\ l_raws L' = l_raws L /\
  (forall j, cname L' j = if Nat.eqb j c then nn else cname L j) /\
  (forall j, c_ptags (cell_at L' j) = c_ptags (cell_at L j) /\
             c_ltags (cell_at L' j) = c_ltags (cell_at L j)) /\
  (forall j, ~ In j (l_carr L) -> c_refs (cell_at L' j) = c_refs (cell_at L j)) /\
  (* every reference of every member resolves to the same object as before *)
  (forall m, In m (l_carr L) ->
     Forall2 (rename_ref_rel L L' (cname L c) nn) (c_refs (cell_at L m)) (c_refs (cell_at L' m))).
Proof.
  intros HWF Hc Hoth Hraw L'.
  pose proof (WF_rename_ptr L c nn HWF Hc Hoth Hraw) as HWF'. fold L' in HWF'.
  pose proof HWF as ((H1 & H2 & H3 & H4) & (Hn1 & Hn2 & Hn3) & Ha).
  destruct HWF' as (_ & (Hn1' & _ & _) & _).
  assert (Hclt : c < length (l_cells L)) by auto.
  assert (Hndc : NoDup (l_carr L)) by (eapply NoDup_map_NoDup; eauto).
  assert (Hcn : forall j, cname L' j = if Nat.eqb j c then nn else cname L j)
    by (intros j; apply rename_cname; exact Hclt).
  split; [reflexivity|]. split; [reflexivity|]. split; [reflexivity|]. split; [exact Hcn|].
  split; [intros j; split; [apply rename_ptags | apply rename_ltags]|].
  split.
  { intros j Hj. unfold L'. rewrite rename_refs by exact Hndc.
    apply memb_false in Hj. rewrite Hj. reflexivity. }
  intros m Hm. unfold L' at 2. rewrite rename_refs by exact Hndc.
  assert (memb m (l_carr L) = true) as -> by (apply memb_In; exact Hm).
  apply Forall2_map_r. intros t _. unfold rename_ref_rel. destruct t as [j|r|s]; simpl rename_ref.
  - split; auto.
  - split; auto.
  - destruct (N.eqb_spec s (cname L c)) as [->|Hs].
    + split; [|right; auto]. intros x Hx. simpl in Hx.
      unfold get_cell in Hx. rewrite (find_by_unique (cname L) (cname L c) (l_carr L) c Hn1 Hc eq_refl) in Hx.
      inversion Hx; subst x. simpl. unfold get_cell. simpl l_carr in *.
      rewrite (find_by_unique (cname L') nn (l_carr L) c Hn1' Hc); [reflexivity|].
      rewrite Hcn. rewrite Nat.eqb_refl. reflexivity.
    + split; [|left; auto]. intros x Hx. simpl in *.
      destruct (get_cell L s) as [i|] eqn:G.
      * inversion Hx; subst x. unfold get_cell in G. apply find_by_Some in G. destruct G as [Hi Ei].
        unfold get_cell. simpl l_carr.
        rewrite (find_by_unique (cname L') s (l_carr L) i Hn1' Hi); [reflexivity|].
        rewrite Hcn. destruct (Nat.eqb_spec i c) as [->|Hic]; [congruence | exact Ei].
      * destruct (get_rawcell L s) as [r|] eqn:G2; [|discriminate]. inversion Hx; subst x.
        unfold get_cell in G. rewrite find_by_None in G.
        assert (get_cell L' s = None) as ->.
        { unfold get_cell. apply find_by_None. simpl l_carr. intros i Hi. rewrite Hcn.
          destruct (Nat.eqb_spec i c) as [->|Hic]; [|apply G; exact Hi].
          unfold get_rawcell in G2. apply find_by_Some in G2. destruct G2 as [Hr Er].
          intros E. apply (Hraw r Hr). congruence. }
        unfold get_rawcell in *. simpl l_rarr. change (rname L') with (rname L). rewrite G2. reflexivity.
Qed.

(* without the membership precondition the property fails: renaming a cell that is not in the
   library rewrites by-name references that designate a member with the same name *)
Example rename_nonmember_refuted :
  let L := mkLib [mkCell 1%N [] [] []; mkCell 2%N [ByName 1%N] [] []; mkCell 1%N [] [] []] [] [0; 1] [] in
  WF L /\ resolve L (ByName 1%N) = Some (OCell 0) /\
  let L' := rename_cell_ptr L 2 7%N in
  c_refs (cell_at L' 1) = [ByName 7%N] /\ resolve L' (ByName 7%N) = None.
Proof.
  simpl. split; [|vm_compute; auto].
  split; [|split].
  - unfold ids_ok. simpl. split; [intros i [<-|[<-|[]]]; lia|]. split; [intros ? []|].
    split; [repeat constructor|]. intros r d. unfold raw_at. simpl. destruct r; intros [].
  - unfold names_ok. simpl. split; [|split; [constructor | intros ? ? _ []]].
    vm_compute. constructor; [intros [H|[]]; discriminate|]. constructor; [intros []|constructor].
  - intros i H. apply creach_first in H. destruct H as (j & H & _). unfold cedge, cell_at in H. simpl in H.
    destruct i as [|[|[|i]]]; simpl in H; try destruct H as [H|H]; try discriminate; try contradiction.
    destruct i; destruct H.
Qed.

(* renaming onto a name that another member already has: the C++ does it without complaint;
   uniqueness of names (hence WF) is lost and by-name references become ambiguous *)
Example rename_collision_refuted :
  let L := mkLib [mkCell 1%N [] [] []; mkCell 2%N [] [] []; mkCell 3%N [ByName 2%N] [] []] [] [0; 1; 2] [] in
  names_ok L /\ resolve L (ByName 2%N) = Some (OCell 1) /\
  let L' := rename_cell_ptr L 0 2%N in
  ~ names_ok L' /\ c_refs (cell_at L' 2) = [ByName 2%N] /\ resolve L' (ByName 2%N) = Some (OCell 0).
Proof.
  simpl. split; [|split; [reflexivity|split; [|vm_compute; auto]]].
  - unfold names_ok. simpl. split; [|split; [constructor | intros ? ? _ []]].
    vm_compute. repeat constructor; simpl; intuition discriminate.
  - intros (H & _). vm_compute in H. inversion H as [|? ? Hn _]. apply Hn. left. reflexivity.
Qed.
(* ========================================================================================== *)
(* 8. replace_cell: references to the old object are redirected to the new one                 *)

Definition member (L : lib) (x : obj) : Prop :=
  match x with OCell i => In i (l_carr L) | ORaw r => In r (l_rarr L) end.
Definition oname (L : lib) (x : obj) : name :=
  match x with OCell i => cname L i | ORaw r => rname L r end.

Lemma resolve_byname_iff L s x : names_ok L ->
  (resolve L (ByName s) = Some x <-> member L x /\ oname L x = s).
Proof.
  intros (Hn1 & Hn2 & Hn3). simpl. unfold get_cell, get_rawcell. split.
  - destruct (find_by (cname L) s (l_carr L)) as [i|] eqn:G.
    + intros E. inversion E; subst. apply find_by_Some in G. exact G.
    + destruct (find_by (rname L) s (l_rarr L)) as [r|] eqn:G2; [|discriminate].
      intros E. inversion E; subst. apply find_by_Some in G2. exact G2.
  - intros [Hm Hs]. destruct x as [i|r]; simpl in *.
    + rewrite (find_by_unique (cname L) s (l_carr L) i Hn1 Hm Hs). reflexivity.
    + assert (find_by (cname L) s (l_carr L) = None) as ->.
      { apply find_by_None. intros i Hi E. apply (Hn3 i r Hi Hm). congruence. }
      rewrite (find_by_unique (rname L) s (l_rarr L) r Hn2 Hm Hs). reflexivity.
Qed.

Lemma member_name_inj L x y : names_ok L ->
  member L x -> member L y -> oname L x = oname L y -> x = y.
Proof.
  intros (Hn1 & Hn2 & Hn3) Hx Hy E. destruct x as [i|r], y as [j|q]; simpl in *.
  - f_equal. apply (NoDup_map_inj (cname L) (l_carr L) i j Hn1 Hx Hy E).
  - exfalso. apply (Hn3 i q Hx Hy E).
  - exfalso. apply (Hn3 j r Hy Hx). auto.
  - f_equal. apply (NoDup_map_inj (rname L) (l_rarr L) r q Hn2 Hx Hy E).
Qed.

Definition is_pointer (t : target) : Prop := match t with ByName _ => False | _ => True end.

(* the pointers held by cell i designate members *)
Definition refs_closed (L : lib) (i : nat) : Prop :=
  forall t, In t (c_refs (cell_at L i)) ->
    match t with ToCell c => In c (l_carr L) | ToRaw r => In r (l_rarr L) | ByName _ => True end.

(* one reference before / after replacing oldo by newo *)
Definition replace_ref_rel (L L' : lib) (oldo newo : obj) (t t' : target) : Prop :=
  (resolve L t = Some oldo -> resolve L' t' = Some newo) /\
  (forall x, resolve L t = Some x -> x <> oldo -> resolve L' t' = Some x) /\
  resolve L' t' <> Some oldo.

Lemma retarget_spec L ca ra mc mr nt oldo newo :
  let o := oname L oldo in
  let n := oname L newo in
  let L' := retarget_lib L ca ra (retarget mc mr nt o n) in
  names_ok L -> names_ok L' -> NoDup ca ->
  member L oldo -> ~ member L' oldo -> member L' newo -> newo <> oldo ->
  (forall x, member L x -> x <> oldo -> member L' x) ->
  is_pointer nt -> resolve L' nt = Some newo ->
  forall m, In m ca ->
    (forall t, In t (c_refs (cell_at L m)) -> is_pointer t ->
        (matches mc mr t <-> resolve L t = Some oldo)) ->
    Forall2 (replace_ref_rel L L' oldo newo) (c_refs (cell_at L m)) (c_refs (cell_at L' m)).
Proof.
  intros o n L' Hn Hn' Hnd Hmo Hnmo Hmn Hne Hstay Hpnt Hnt m Hm HP.
  assert (Hon : forall x, oname L' x = oname L x).
  { intros [i|r]; simpl; [apply retarget_lib_cname | reflexivity]. }
  unfold L' at 2. rewrite retarget_lib_refs by exact Hnd.
  assert (memb m ca = true) as -> by (apply memb_In; exact Hm).
  apply Forall2_map_r. intros t Ht. unfold replace_ref_rel.
  destruct (retarget_cases mc mr nt o n t) as [[Hmt E]|[Hmt E]].
  - (* a matching pointer *)
    assert (is_pointer t) as Hpt by (destruct t; simpl in *; auto).
    rewrite E. fold L'. rewrite Hnt. split; [auto|]. split; [|congruence].
    intros x Hx Hxo. exfalso. apply Hxo. apply (HP t Ht Hpt) in Hmt. congruence.
  - destruct t as [c|r|s].
    + rewrite E. split; [|split].
      * intros Hx. exfalso. apply Hmt. apply (HP _ Ht I). exact Hx.
      * intros x Hx _. exact Hx.
      * intros Hx. apply Hmt. apply (HP _ Ht I). exact Hx.
    + rewrite E. split; [|split].
      * intros Hx. exfalso. apply Hmt. apply (HP _ Ht I). exact Hx.
      * intros x Hx _. exact Hx.
      * intros Hx. apply Hmt. apply (HP _ Ht I). exact Hx.
    + assert (Hres' : forall s0, resolve L' (ByName s0) <> Some oldo).
      { intros s0 Hx. apply (resolve_byname_iff L' s0 oldo Hn') in Hx. destruct Hx as [Hx _]. contradiction. }
      assert (Hnew' : resolve L' (ByName n) = Some newo).
      { apply (resolve_byname_iff L' n newo Hn'). split; auto. rewrite Hon. reflexivity. }
      split; [|split].
      * intros Hx. apply (resolve_byname_iff L s oldo Hn) in Hx. destruct Hx as [_ Hs].
        fold o in Hs. subst s. destruct E as [E|(_ & _ & E)]; rewrite E; [|exact Hnew'].
        (* names equal: the rewriting is switched off only when o = n *)
        simpl in E. destruct (N.eqb_spec o n) as [Eon|Eon]; simpl in E.
        -- rewrite Eon. exact Hnew'.
        -- rewrite N.eqb_refl in E. inversion E. congruence.
      * intros x Hx Hxo. pose proof Hx as Hx0. apply (resolve_byname_iff L s x Hn) in Hx. destruct Hx as [Hmx Hs].
        assert (s <> o) as Hso.
        { intros ->. apply Hxo. apply (member_name_inj L x oldo Hn Hmx Hmo). exact Hs. }
        destruct E as [E|(E1 & _)]; [|contradiction]. rewrite E.
        apply (resolve_byname_iff L' s x Hn'). split; [apply Hstay; auto|]. rewrite Hon. exact Hs.
      * destruct E as [E|(_ & _ & E)]; rewrite E; apply Hres'.
Qed.

Lemma obj_eq_dec (x y : obj) : {x = y} + {x <> y}.
Proof. decide equality; apply Nat.eq_dec. Qed.

(* what a replacement guarantees *)
Definition replace_post (L L' : lib) (oldo newo : obj) : Prop :=
  (* raw cells, names and tags of every cell are untouched; cells outside the library too *)
  l_raws L' = l_raws L /\ length (l_cells L') = length (l_cells L) /\
  (forall j, cname L' j = cname L j /\ c_ptags (cell_at L' j) = c_ptags (cell_at L j) /\
             c_ltags (cell_at L' j) = c_ltags (cell_at L j)) /\
  (forall j, ~ In j (l_carr L') -> c_refs (cell_at L' j) = c_refs (cell_at L j)) /\
  (* the new object takes the place of the old one in the arrays *)
  ~ member L' oldo /\ member L' newo /\
  (forall x, x <> oldo -> x <> newo -> (member L' x <-> member L x)) /\
  (* every reference of every member: designated old -> designates new; designated something
     else -> still does; none designates the removed object *)
  (forall m, In m (l_carr L') ->
     Forall2 (replace_ref_rel L L' oldo newo) (c_refs (cell_at L m)) (c_refs (cell_at L' m))).

Lemma replace_post_gen L ca ra mc mr nt oldo newo :
  let L' := retarget_lib L ca ra (retarget mc mr nt (oname L oldo) (oname L newo)) in
  WF L -> WF L' ->
  member L oldo -> ~ member L' oldo -> member L' newo -> newo <> oldo ->
  (forall x, x <> oldo -> x <> newo -> (member L' x <-> member L x)) ->
  is_pointer nt -> resolve L' nt = Some newo ->
  (forall m, In m ca -> forall t, In t (c_refs (cell_at L m)) -> is_pointer t ->
      (matches mc mr t <-> resolve L t = Some oldo)) ->
  replace_post L L' oldo newo.
Proof.
  intros L' (_ & Hn & _) (_ & Hn' & _) Hmo Hnmo Hmn Hne Hiff Hpnt Hnt HP.
  assert (Hnd : NoDup ca).
  { destruct Hn' as (H & _). simpl in H. eapply NoDup_map_NoDup; eauto. }
  unfold replace_post. split; [reflexivity|]. split; [apply retarget_lib_length|].
  split; [intros j; split; [apply retarget_lib_cname | split; [apply retarget_lib_ptags | apply retarget_lib_ltags]]|].
  split.
  { intros j Hj. unfold L'. rewrite retarget_lib_refs by exact Hnd. simpl in Hj.
    apply memb_false in Hj. rewrite Hj. reflexivity. }
  split; [exact Hnmo|]. split; [exact Hmn|]. split; [exact Hiff|].
  intros m Hm. simpl in Hm. apply retarget_spec; auto; [|apply HP; exact Hm].
  intros x Hx Hxo. destruct (obj_eq_dec x newo) as [->|Hxn]; [exact Hmn|].
  apply (Hiff x Hxo Hxn). exact Hx.
Qed.

(* closedness gives the agreement between the switch's tests and what a pointer designates *)
Lemma match_cell_old L old m :
  names_ok L -> In old (l_carr L) -> refs_closed L m ->
  forall t, In t (c_refs (cell_at L m)) -> is_pointer t ->
    (matches (fun c => Nat.eqb c old) (fun r => N.eqb (rname L r) (cname L old)) t <->
     resolve L t = Some (OCell old)).
Proof.
  intros (_ & _ & Hn3) Hold Hcl t Ht Hp. specialize (Hcl t Ht). destruct t as [c|r|s]; simpl.
  - rewrite Nat.eqb_eq. split; [intros ->; reflexivity | intros E; inversion E; reflexivity].
  - split; [|discriminate]. rewrite N.eqb_eq. intros E. exfalso. apply (Hn3 old r Hold Hcl). auto.
  - destruct Hp.
Qed.

Lemma match_raw_old L old m :
  names_ok L -> In old (l_rarr L) -> refs_closed L m ->
  forall t, In t (c_refs (cell_at L m)) -> is_pointer t ->
    (matches (fun c => N.eqb (cname L c) (rname L old)) (fun r => Nat.eqb r old) t <->
     resolve L t = Some (ORaw old)).
Proof.
  intros (_ & _ & Hn3) Hold Hcl t Ht Hp. specialize (Hcl t Ht). destruct t as [c|r|s]; simpl.
  - split; [|discriminate]. rewrite N.eqb_eq. intros E. exfalso. apply (Hn3 c old Hcl Hold). auto.
  - rewrite Nat.eqb_eq. split; [intros ->; reflexivity | intros E; inversion E; reflexivity].
  - destruct Hp.
Qed.

Theorem replace_retargets_lemma L o :
  WF L -> closed L -> op_pre L o ->
  match o with
  | OpReplaceCC old new => refs_closed L new -> replace_post L (step L o) (OCell old) (OCell new)
  | OpReplaceRC old new => refs_closed L new -> replace_post L (step L o) (ORaw old) (OCell new)
  | OpReplaceCR old new => replace_post L (step L o) (OCell old) (ORaw new)
  | OpReplaceRR old new => replace_post L (step L o) (ORaw old) (ORaw new)
  | _ => True
  end.
Proof.
  intros HWF Hcl Hpre. pose proof (step_WF_lemma L o HWF Hpre) as HWF'.
  pose proof HWF as (Hids & Hn & Ha). pose proof Hn as (Hn1 & Hn2 & Hn3).
  assert (Hndc : NoDup (l_carr L)) by (eapply NoDup_map_NoDup; eauto).
  assert (Hndr : NoDup (l_rarr L)) by (eapply NoDup_map_NoDup; eauto).
  destruct Hcl as [Hcl1 Hcl2].
  assert (Hclm : forall m, In m (l_carr L) -> refs_closed L m).
  { intros m Hm t Ht. apply (Hcl1 m t Hm Ht). }
  destruct o; auto; simpl in HWF'.
  - (* cell -> cell *)
    destruct Hpre as (Hold & Hnew & Hnin & Hname & Hcyc). intros Hcn. simpl step.
    unfold replace_cc in *.
    apply (replace_post_gen L (replace_first old new (l_carr L)) (l_rarr L) _ _ (ToCell new) (OCell old) (OCell new));
      simpl; auto.
    + rewrite In_replace_first_iff by auto. intros [E|[_ E]]; [subst; contradiction | congruence].
    + rewrite In_replace_first_iff by auto. auto.
    + intros E. inversion E. subst. contradiction.
    + intros [i|r] Hx1 Hx2; simpl; [|tauto]. rewrite In_replace_first_iff by auto.
      assert (i <> old) by congruence. assert (i <> new) by congruence. tauto.
    + intros m Hm. apply In_replace_first in Hm.
      apply match_cell_old; auto. destruct Hm as [->|Hm]; auto.
  - (* raw cell -> cell *)
    destruct Hpre as (Hold & Hnew & Hnin & Hname & Hcyc). intros Hcn. simpl step.
    unfold replace_rc in *. assert (memb old (l_rarr L) = true) as Emb by (apply memb_In; exact Hold).
    rewrite Emb in *.
    apply (replace_post_gen L (l_carr L ++ [new]) (remove_unordered old (l_rarr L)) _ _ (ToCell new) (ORaw old) (OCell new));
      simpl; auto.
    + rewrite In_remove_unordered by auto. tauto.
    + apply in_app_iff. right. left. reflexivity.
    + discriminate.
    + intros [i|r] Hx1 Hx2; simpl.
      * rewrite in_app_iff. simpl. assert (new <> i) by congruence. tauto.
      * rewrite In_remove_unordered by auto. assert (r <> old) by congruence. tauto.
    + intros m Hm. apply in_app_iff in Hm.
      apply match_raw_old; auto. destruct Hm as [Hm|[<-|[]]]; auto.
  - (* cell -> raw cell *)
    destruct Hpre as (Hold & Hnew & Hnin & Hname). simpl step.
    unfold replace_cr in *. assert (memb old (l_carr L) = true) as Emb by (apply memb_In; exact Hold).
    rewrite Emb in *.
    apply (replace_post_gen L (remove_unordered old (l_carr L)) (l_rarr L ++ [new]) _ _ (ToRaw new) (OCell old) (ORaw new));
      simpl; auto.
    + rewrite In_remove_unordered by auto. tauto.
    + apply in_app_iff. right. left. reflexivity.
    + discriminate.
    + intros [i|r] Hx1 Hx2; simpl.
      * rewrite In_remove_unordered by auto. assert (i <> old) by congruence. tauto.
      * rewrite in_app_iff. simpl. assert (new <> r) by congruence. tauto.
    + intros m Hm. apply In_remove_unordered in Hm; auto. destruct Hm as [Hm _].
      apply match_cell_old; auto.
  - (* raw cell -> raw cell *)
    destruct Hpre as (Hold & Hnew & Hnin & Hname). simpl step.
    unfold replace_rr in *.
    apply (replace_post_gen L (l_carr L) (replace_first old new (l_rarr L)) _ _ (ToRaw new) (ORaw old) (ORaw new));
      simpl; auto.
    + rewrite In_replace_first_iff by auto. intros [E|[_ E]]; [subst; contradiction | congruence].
    + rewrite In_replace_first_iff by auto. auto.
    + intros E. inversion E. subst. contradiction.
    + intros [i|r] Hx1 Hx2; simpl; [tauto|]. rewrite In_replace_first_iff by auto.
      assert (r <> old) by congruence. assert (r <> new) by congruence. tauto.
    + intros m Hm. apply match_raw_old; auto.
Qed.
(* ========================================================================================== *)
(* 9. top_level                                                                                *)

Lemma mget_mset k k' v m : mget k (mset k' v m) = if N.eqb k' k then Some v else mget k m.
Proof.
  induction m as [|[k0 v0] tl IH]; simpl.
  - reflexivity.
  - destruct (N.eqb_spec k0 k') as [->|Hne]; simpl.
    + destruct (N.eqb k' k); reflexivity.
    + destruct (N.eqb_spec k0 k) as [->|Hne2].
      * destruct (N.eqb_spec k' k); [congruence | reflexivity].
      * exact IH.
Qed.

(* the map built by setting nm j -> j for every j of a list, in order *)
Definition set_all (nm : nat -> name) (l : list nat) (m : dmap) : dmap :=
  fold_left (fun m j => mset (nm j) j m) l m.

Lemma set_all_sound nm l : forall m k j,
  mget k (set_all nm l m) = Some j -> (In j l /\ nm j = k) \/ mget k m = Some j.
Proof.
  unfold set_all. induction l as [|a tl IH]; intros m k j H; simpl in *; auto.
  apply IH in H. destruct H as [[H1 H2]|H]; auto.
  rewrite mget_mset in H. destruct (N.eqb_spec (nm a) k); auto.
  inversion H; subst. auto.
Qed.

Lemma set_all_keeps nm l : forall m k j,
  mget k m = Some j -> exists j', mget k (set_all nm l m) = Some j'.
Proof.
  unfold set_all. induction l as [|a tl IH]; intros m k j H; simpl; eauto.
  destruct (N.eqb_spec (nm a) k) as [E|E].
  - apply (IH _ k a). rewrite mget_mset. rewrite E, N.eqb_refl. reflexivity.
  - apply (IH _ k j). rewrite mget_mset. apply N.eqb_neq in E. rewrite E. exact H.
Qed.

Lemma set_all_complete nm l : forall m j,
  In j l -> exists j', mget (nm j) (set_all nm l m) = Some j'.
Proof.
  induction l as [|a tl IH]; intros m j H; [destruct H|]. destruct H as [->|H].
  - unfold set_all. simpl. apply (set_all_keeps nm tl _ (nm j) j).
    rewrite mget_mset, N.eqb_refl. reflexivity.
  - unfold set_all. simpl. apply IH. exact H.
Qed.

Lemma set_all_app nm l1 l2 m : set_all nm (l1 ++ l2) m = set_all nm l2 (set_all nm l1 m).
Proof. unfold set_all. apply fold_left_app. Qed.

Fixpoint rtargets (refs : list target) : list nat :=
  match refs with
  | [] => []
  | ToRaw r :: tl => r :: rtargets tl
  | _ :: tl => rtargets tl
  end.

Lemma In_rtargets refs r : In r (rtargets refs) <-> In (ToRaw r) refs.
Proof.
  induction refs as [|t tl IH]; simpl; [tauto|].
  destruct t; simpl; rewrite IH; split; intros H; try tauto.
  - destruct H as [H|H]; auto. discriminate.
  - destruct H as [->|H]; auto.
  - destruct H as [H|H]; auto. inversion H; auto.
  - destruct H as [H|H]; auto. discriminate.
Qed.

Lemma direct_cell_deps_set_all L i m :
  direct_cell_deps L i m = set_all (cname L) (ctargets (c_refs (cell_at L i))) m.
Proof.
  unfold direct_cell_deps, set_all. generalize (c_refs (cell_at L i)). intros refs. revert m.
  induction refs as [|t tl IH]; intros m; simpl; auto. destruct t; simpl; apply IH.
Qed.

Lemma direct_cell_raw_deps_set_all L i m :
  direct_cell_raw_deps L i m = set_all (rname L) (rtargets (c_refs (cell_at L i))) m.
Proof.
  unfold direct_cell_raw_deps, set_all. generalize (c_refs (cell_at L i)). intros refs. revert m.
  induction refs as [|t tl IH]; intros m; simpl; auto. destruct t; simpl; apply IH.
Qed.

Lemma direct_raw_deps_set_all L r m :
  direct_raw_deps L r m = set_all (rname L) (r_deps (raw_at L r)) m.
Proof. reflexivity. Qed.

Lemma fold_set_all_flat_map nm (g : nat -> list nat) arr : forall m,
  fold_left (fun m i => set_all nm (g i) m) arr m = set_all nm (flat_map g arr) m.
Proof.
  induction arr as [|a tl IH]; intros m; simpl; auto. rewrite set_all_app. apply IH.
Qed.

Lemma fold_left_ext {A B} (f g : A -> B -> A) l : (forall a b, f a b = g a b) ->
  forall a, fold_left f l a = fold_left g l a.
Proof. intros H. induction l as [|x tl IH]; intros a; simpl; auto. rewrite H. apply IH. Qed.

Lemma top_cell_map_eq L :
  top_cell_map L = set_all (cname L) (flat_map (fun i => ctargets (c_refs (cell_at L i))) (l_carr L)) [].
Proof.
  unfold top_cell_map. rewrite <- fold_set_all_flat_map.
  apply fold_left_ext. intros m i. apply direct_cell_deps_set_all.
Qed.

Lemma top_raw_map_eq L :
  top_raw_map L =
  set_all (rname L)
    (flat_map (fun i => rtargets (c_refs (cell_at L i))) (l_carr L) ++
     flat_map (fun r => r_deps (raw_at L r)) (l_rarr L)) [].
Proof.
  unfold top_raw_map. rewrite set_all_app. rewrite <- !fold_set_all_flat_map.
  f_equal. apply fold_left_ext. intros m i. apply direct_cell_raw_deps_set_all.
Qed.

Lemma not_mapped_true m k v : not_mapped m k v = true <-> mget k m <> Some v.
Proof.
  unfold not_mapped. destruct (mget k m) as [v'|].
  - rewrite negb_true_iff, Nat.eqb_neq. split; congruence.
  - split; [discriminate | reflexivity].
Qed.

(* Top-level cells are exactly the members that no member points to; the same for raw cells,
   where a pointer is a RawCell reference of a member cell or a dependency of a member raw cell *)
Theorem top_level_spec_lemma L : WF L -> closed L ->
  (forall i, In i (fst (top_level L)) <->
     In i (l_carr L) /\ forall m, In m (l_carr L) -> ~ In (ToCell i) (c_refs (cell_at L m))) /\
  (forall r, In r (snd (top_level L)) <->
     In r (l_rarr L) /\
     (forall m, In m (l_carr L) -> ~ In (ToRaw r) (c_refs (cell_at L m))) /\
     (forall q, In q (l_rarr L) -> ~ In r (r_deps (raw_at L q)))).
Proof.
  intros (Hids & (Hn1 & Hn2 & Hn3) & Ha) (Hcl1 & Hcl2). split.
  - intros i. unfold top_level. simpl. rewrite filter_In, not_mapped_true, top_cell_map_eq.
    set (tg := flat_map (fun i => ctargets (c_refs (cell_at L i))) (l_carr L)).
    assert (Htg : forall j, In j tg <-> exists m, In m (l_carr L) /\ In (ToCell j) (c_refs (cell_at L m))).
    { intros j. unfold tg. rewrite in_flat_map. split; intros (m & H1 & H2); exists m; split; auto;
        apply In_ctargets; exact H2. }
    split; intros [Hi H]; split; auto.
    + intros m Hm Hedge. apply H.
      assert (In i tg) as Hit by (apply Htg; eauto).
      destruct (set_all_complete (cname L) tg [] i Hit) as (j' & Hj'). rewrite Hj'. f_equal.
      apply set_all_sound in Hj'. destruct Hj' as [[Hj1 Hj2]|Hj]; [|discriminate].
      apply Htg in Hj1. destruct Hj1 as (m' & Hm' & He').
      pose proof (Hcl1 m' _ Hm' He') as Hj'c. simpl in Hj'c.
      apply (NoDup_map_inj (cname L) (l_carr L) j' i Hn1 Hj'c Hi Hj2).
    + intros Hget. apply set_all_sound in Hget. destruct Hget as [[H1 _]|H1]; [|discriminate].
      apply Htg in H1. destruct H1 as (m & Hm & He). apply (H m Hm He).
  - intros r. unfold top_level. simpl. rewrite filter_In, not_mapped_true, top_raw_map_eq.
    set (tg := flat_map (fun i => rtargets (c_refs (cell_at L i))) (l_carr L) ++
               flat_map (fun r => r_deps (raw_at L r)) (l_rarr L)).
    assert (Htg : forall j, In j tg <->
              (exists m, In m (l_carr L) /\ In (ToRaw j) (c_refs (cell_at L m))) \/
              (exists q, In q (l_rarr L) /\ In j (r_deps (raw_at L q)))).
    { intros j. unfold tg. rewrite in_app_iff, !in_flat_map. split; intros [(m & H1 & H2)|(m & H1 & H2)];
        [left|right|left|right]; exists m; split; auto; apply In_rtargets; exact H2. }
    assert (Hmem : forall j, In j tg -> In j (l_rarr L)).
    { intros j Hj. apply Htg in Hj. destruct Hj as [(m & Hm & He)|(q & Hq & He)].
      - apply (Hcl1 m _ Hm He).
      - apply (Hcl2 q j Hq He). }
    split.
    + intros [Hr H]. split; auto.
      assert (Hnot : ~ In r tg).
      { intros Hit. apply H.
        destruct (set_all_complete (rname L) tg [] r Hit) as (j' & Hj'). rewrite Hj'. f_equal.
        apply set_all_sound in Hj'. destruct Hj' as [[Hj1 Hj2]|Hj]; [|discriminate].
        apply (NoDup_map_inj (rname L) (l_rarr L) j' r Hn2 (Hmem j' Hj1) Hr Hj2). }
      split.
      * intros m Hm He. apply Hnot. apply Htg. left. eauto.
      * intros q Hq He. apply Hnot. apply Htg. right. eauto.
    + intros (Hr & H1 & H2). split; auto. intros Hget.
      apply set_all_sound in Hget. destruct Hget as [[Hin _]|Hget]; [|discriminate].
      apply Htg in Hin. destruct Hin as [(m & Hm & He)|(q & Hq & He)].
      * apply (H1 m Hm He).
      * apply (H2 q Hq He).
Qed.
(* ========================================================================================== *)
(* 10. Tag queries and remap_tags                                                              *)

Lemma tag_eqb_eq a b : tag_eqb a b = true <-> a = b.
Proof.
  destruct a as [a1 a2], b as [b1 b2]. unfold tag_eqb. simpl.
  rewrite andb_true_iff, !N.eqb_eq. split; [intros [-> ->]; reflexivity | intros E; inversion E; auto].
Qed.

Lemma In_ins_tag x t l : In x (ins_tag t l) <-> x = t \/ In x l.
Proof.
  induction l as [|y tl IH]; simpl.
  - split; intros [H|H]; auto.
  - destruct (tag_ltb t y); simpl.
    + split; intros [H|H]; auto.
    + destruct (tag_eqb t y) eqn:E; simpl.
      * apply tag_eqb_eq in E. subst. split; intros H; auto. destruct H as [->|H]; auto.
      * rewrite IH. split; intros H; tauto.
Qed.

Lemma In_fold_ins_tag x l : forall s,
  In x (fold_left (fun s t => ins_tag t s) l s) <-> In x l \/ In x s.
Proof.
  induction l as [|a tl IH]; intros s; simpl; [tauto|].
  rewrite IH, In_ins_tag. split; intros H.
  - destruct H as [H|[->|H]]; auto.
  - destruct H as [[->|H]|H]; auto.
Qed.

Lemma In_fold_cells_tags (pi : cell -> list tag) L x arr : forall s,
  In x (fold_left (fun s i => fold_left (fun s t => ins_tag t s) (pi (cell_at L i)) s) arr s) <->
  (exists i, In i arr /\ In x (pi (cell_at L i))) \/ In x s.
Proof.
  induction arr as [|a tl IH]; intros s; simpl.
  - split; [auto | intros [(i & [] & _)|H]; auto].
  - rewrite IH, In_fold_ins_tag. split.
    + intros [(i & Hi & Hx)|[H|H]]; [left; exists i; auto | left; exists a; auto | right; exact H].
    + intros [(i & [->|Hi] & Hx)|H]; [right; left; exact Hx | left; exists i; auto | right; right; exact H].
Qed.

(* the tag queries return exactly the tags in use in the member cells *)
Theorem tags_spec_lemma L :
  (forall t, In t (get_shape_tags L) <-> exists i, In i (l_carr L) /\ In t (c_ptags (cell_at L i))) /\
  (forall t, In t (get_label_tags L) <-> exists i, In i (l_carr L) /\ In t (c_ltags (cell_at L i))).
Proof.
  split; intros t.
  - unfold get_shape_tags, cell_shape_tags. rewrite (In_fold_cells_tags c_ptags). simpl. tauto.
  - unfold get_label_tags, cell_label_tags. rewrite (In_fold_cells_tags c_ltags). simpl. tauto.
Qed.

(* TagMap::get as a function of the list of TagMap::set calls *)
Lemma tm_get_nil k : tm_get [] k = k.
Proof. reflexivity. Qed.

Lemma tm_get_snoc m k' v k : tm_get (m ++ [(k', v)]) k = if tag_eqb k' k then v else tm_get m k.
Proof. unfold tm_get. rewrite fold_left_app. reflexivity. Qed.

Lemma remap_cell_at L m j : NoDup (l_carr L) ->
  cell_at (remap_tags L m) j = if memb j (l_carr L) then remap_cell m (cell_at L j) else cell_at L j.
Proof. intros Hnd. unfold cell_at. simpl. apply cell_at_upd_members; auto. Qed.

(* remap_tags applies the map to every tag of every member cell and touches nothing else *)
Theorem remap_spec_lemma L m : WF L ->
  let L' := remap_tags L m in
  l_carr L' = l_carr L /\ l_rarr L' = l_rarr L /\ l_raws L' = l_raws L /\
  (forall j, cname L' j = cname L j /\ c_refs (cell_at L' j) = c_refs (cell_at L j)) /\
  (forall j, In j (l_carr L) ->
     c_ptags (cell_at L' j) = map (tm_get m) (c_ptags (cell_at L j)) /\
     c_ltags (cell_at L' j) = map (tm_get m) (c_ltags (cell_at L j))) /\
  (forall j, ~ In j (l_carr L) -> cell_at L' j = cell_at L j) /\
  (forall t, In t (get_shape_tags L') <-> exists t0, In t0 (get_shape_tags L) /\ t = tm_get m t0) /\
  (forall t, In t (get_label_tags L') <-> exists t0, In t0 (get_label_tags L) /\ t = tm_get m t0).
Proof.
  intros (_ & (Hn1 & _ & _) & _) L'.
  assert (Hnd : NoDup (l_carr L)) by (eapply NoDup_map_NoDup; eauto).
  assert (Hmem : forall j, In j (l_carr L) ->
     c_ptags (cell_at L' j) = map (tm_get m) (c_ptags (cell_at L j)) /\
     c_ltags (cell_at L' j) = map (tm_get m) (c_ltags (cell_at L j))).
  { intros j Hj. unfold L'. rewrite remap_cell_at by exact Hnd.
    apply memb_In in Hj. rewrite Hj. split; reflexivity. }
  split; [reflexivity|]. split; [reflexivity|]. split; [reflexivity|].
  split; [intros j; split; [apply remap_cname | apply remap_refs]|].
  split; [exact Hmem|]. split.
  { intros j Hj. unfold L'. rewrite remap_cell_at by exact Hnd. apply memb_false in Hj. rewrite Hj. reflexivity. }
  destruct (tags_spec_lemma L) as [HS HL]. destruct (tags_spec_lemma L') as [HS' HL'].
  split; intros t.
  - rewrite HS'. split.
    + intros (i & Hi & Ht). simpl in Hi. destruct (Hmem i Hi) as [E _]. rewrite E in Ht.
      apply in_map_iff in Ht. destruct Ht as (t0 & <- & Ht0). exists t0. split; auto. apply HS. eauto.
    + intros (t0 & Ht0 & ->). apply HS in Ht0. destruct Ht0 as (i & Hi & Ht0). exists i. split; auto.
      destruct (Hmem i Hi) as [E _]. rewrite E. apply in_map. exact Ht0.
  - rewrite HL'. split.
    + intros (i & Hi & Ht). simpl in Hi. destruct (Hmem i Hi) as [_ E]. rewrite E in Ht.
      apply in_map_iff in Ht. destruct Ht as (t0 & <- & Ht0). exists t0. split; auto. apply HL. eauto.
    + intros (t0 & Ht0 & ->). apply HL in Ht0. destruct Ht0 as (i & Hi & Ht0). exists i. split; auto.
      destruct (Hmem i Hi) as [_ E]. rewrite E. apply in_map. exact Ht0.
Qed.
(* ========================================================================================== *)
(* 11. Closedness (no pointer of a member leaves the library) is preserved                     *)

Definition raw_closed (L : lib) (r : nat) : Prop :=
  forall d, In d (r_deps (raw_at L r)) -> In d (l_rarr L).

(* additional preconditions under which `closed` is an invariant *)
Definition op_pre_closed (L : lib) (o : op) : Prop :=
  match o with
  | OpAddCell i => refs_closed L i
  | OpAddRaw r => raw_closed L r
  | OpRemoveCell i =>
      forall m, In m (l_carr L) -> m <> i -> ~ In (ToCell i) (c_refs (cell_at L m))
  | OpRemoveRaw r =>
      (forall m, In m (l_carr L) -> ~ In (ToRaw r) (c_refs (cell_at L m))) /\
      (forall q, In q (l_rarr L) -> q <> r -> ~ In r (r_deps (raw_at L q)))
  | OpReplaceCC _ new => refs_closed L new
  | OpReplaceRC old new =>
      refs_closed L new /\ (forall q, In q (l_rarr L) -> ~ In old (r_deps (raw_at L q)))
  | OpReplaceCR _ new => raw_closed L new
  | OpReplaceRR old new =>
      raw_closed L new /\ ~ In old (r_deps (raw_at L new)) /\
      (forall q, In q (l_rarr L) -> q <> old -> ~ In old (r_deps (raw_at L q)))
  | OpCopyLib deep => deep = false
  | _ => True
  end.

Definition tgt_member (ca ra : list nat) (t : target) : Prop :=
  match t with ToCell c => In c ca | ToRaw r => In r ra | ByName _ => True end.

Lemma closed_retarget L ca ra mc mr nt o n :
  NoDup ca ->
  (forall m t, In m ca -> In t (c_refs (cell_at L m)) -> matches mc mr t \/ tgt_member ca ra t) ->
  tgt_member ca ra nt ->
  (forall q d, In q ra -> In d (r_deps (raw_at L q)) -> In d ra) ->
  closed (retarget_lib L ca ra (retarget mc mr nt o n)).
Proof.
  intros Hnd Hc Hnt Hr. split; [|exact Hr].
  intros m t' Hm Ht'. simpl in Hm. rewrite retarget_lib_refs in Ht' by exact Hnd.
  pose proof Hm as Hmb. apply memb_In in Hmb. rewrite Hmb in Ht'.
  apply in_map_iff in Ht'. destruct Ht' as (t & <- & Ht). simpl l_carr. simpl l_rarr.
  destruct (retarget_cases mc mr nt o n t) as [[_ ->]|[Hnm E]]; [exact Hnt|].
  destruct (Hc m t Hm Ht) as [H|H]; [contradiction|].
  destruct t; try (rewrite E; exact H). destruct E as [->|(_ & _ & ->)]; exact I.
Qed.

Lemma raw_at_app_old L r x : r < length (l_raws L) ->
  nth r (l_raws L ++ [x]) dummy_raw = raw_at L r.
Proof. intros H. unfold raw_at. apply app_nth1. exact H. Qed.

Theorem step_closed_lemma L o :
  WF L -> closed L -> op_pre L o -> op_pre_closed L o -> closed (step L o).
Proof.
  intros HWF Hcl Hpre Hpc. pose proof HWF as ((H1 & H2 & H3 & H4) & (Hn1 & Hn2 & Hn3) & Ha).
  assert (Hndc : NoDup (l_carr L)) by (eapply NoDup_map_NoDup; eauto).
  assert (Hndr : NoDup (l_rarr L)) by (eapply NoDup_map_NoDup; eauto).
  pose proof (step_WF_lemma L o HWF Hpre) as HWF'.
  pose proof Hcl as [Hcl1 Hcl2].
  destruct o; simpl in *.
  - (* OpNewCell *) split; [|exact Hcl2]. intros i t Hi Ht. simpl in *.
    unfold cell_at in Ht. simpl in Ht. rewrite app_nth1 in Ht by auto. apply (Hcl1 i t Hi Ht).
  - (* OpNewRaw *) split; [exact Hcl1|]. intros q d Hq Hd. simpl in *.
    unfold raw_at in Hd. simpl in Hd. rewrite app_nth1 in Hd by auto. apply (Hcl2 q d Hq Hd).
  - (* OpCopyCell *) split; [|exact Hcl2]. intros i t Hi Ht. simpl in *.
    unfold cell_at in Ht. simpl in Ht. rewrite app_nth1 in Ht by auto. apply (Hcl1 i t Hi Ht).
  - (* OpAddCell *) split; [|exact Hcl2]. intros m t Hm Ht. simpl in *.
    change (In t (c_refs (cell_at L m))) in Ht.
    assert (tgt_member (l_carr L) (l_rarr L) t) as Htm.
    { apply in_app_iff in Hm. destruct Hm as [Hm|[<-|[]]]; [apply (Hcl1 m t Hm Ht) | apply (Hpc t Ht)]. }
    destruct t; simpl in *; auto. apply in_app_iff. auto.
  - (* OpAddRaw *) split.
    { intros m t Hm Ht. simpl in *. change (In t (c_refs (cell_at L m))) in Ht.
      pose proof (Hcl1 m t Hm Ht) as Htm. destruct t; auto. apply in_app_iff. auto. }
    intros q d Hq Hd. simpl in *.
    change (In d (r_deps (raw_at L q))) in Hd. apply in_app_iff. left.
    apply in_app_iff in Hq. destruct Hq as [Hq|[<-|[]]]; [apply (Hcl2 q d Hq Hd) | apply (Hpc d Hd)].
  - (* OpRemoveCell *) split; [|exact Hcl2]. intros m t Hm Ht. simpl in *.
    change (In t (c_refs (cell_at L m))) in Ht.
    apply In_remove_item_iff in Hm; auto. destruct Hm as [Hm Hmi].
    pose proof (Hcl1 m t Hm Ht) as Htm. destruct t; auto.
    apply In_remove_item_iff; auto. split; auto. intros ->. apply (Hpc m Hm Hmi Ht).
  - (* OpRemoveRaw *) destruct Hpc as [Hp1 Hp2]. split.
    + intros m t Hm Ht. simpl in *. change (In t (c_refs (cell_at L m))) in Ht.
      pose proof (Hcl1 m t Hm Ht) as Htm. destruct t; auto.
      apply In_remove_item_iff; auto. split; auto. intros ->. apply (Hp1 m Hm Ht).
    + intros q d Hq Hd. simpl in *. change (In d (r_deps (raw_at L q))) in Hd.
      apply In_remove_item_iff in Hq; auto. destruct Hq as [Hq Hqr].
      apply In_remove_item_iff; auto. split; [apply (Hcl2 q d Hq Hd)|]. intros ->. apply (Hp2 q Hq Hqr Hd).
  - (* OpRenamePtr *) destruct Hpre as (Hi & _). split; [|exact Hcl2].
    intros m t' Hm Ht'. simpl l_carr in *. simpl l_rarr.
    rewrite rename_refs in Ht' by exact Hndc. pose proof Hm as Hmb. apply memb_In in Hmb. rewrite Hmb in Ht'.
    apply in_map_iff in Ht'. destruct Ht' as (t & <- & Ht). pose proof (Hcl1 m t Hm Ht) as Htm.
    destruct t; simpl; auto. destruct (N.eqb s (cname L i)); exact I.
  - (* OpRenameName *) unfold rename_cell_name in *. destruct (get_cell L old) as [c|] eqn:G; [|exact Hcl].
    split; [|exact Hcl2].
    intros m t' Hm Ht'. simpl l_carr in *. simpl l_rarr.
    rewrite rename_refs in Ht' by exact Hndc. pose proof Hm as Hmb. apply memb_In in Hmb. rewrite Hmb in Ht'.
    apply in_map_iff in Ht'. destruct Ht' as (t & <- & Ht). pose proof (Hcl1 m t Hm Ht) as Htm.
    destruct t; simpl; auto. destruct (N.eqb s (cname L c)); exact I.
  - (* OpReplaceCC *) destruct Hpre as (Hold & Hnew & Hnin & Hname & Hcyc). unfold replace_cc.
    apply closed_retarget.
    + destruct HWF' as (_ & (Hn1' & _) & _). simpl in Hn1'. eapply NoDup_map_NoDup; eauto.
    + intros m t Hm Ht. apply In_replace_first in Hm.
      assert (tgt_member (l_carr L) (l_rarr L) t) as Htm
        by (destruct Hm as [->|Hm]; [apply (Hpc t Ht) | apply (Hcl1 m t Hm Ht)]).
      destruct t as [c|r|s]; simpl in *; auto.
      destruct (Nat.eqb_spec c old) as [->|Hc]; auto. right.
      apply In_replace_first_iff; auto.
    + simpl. apply In_replace_first_iff; auto.
    + exact Hcl2.
  - (* OpReplaceRC *) destruct Hpre as (Hold & Hnew & Hnin & Hname & Hcyc). destruct Hpc as [Hp1 Hp2].
    unfold replace_rc in *. assert (memb old (l_rarr L) = true) as Emb by (apply memb_In; exact Hold).
    rewrite Emb in *. apply closed_retarget.
    + destruct HWF' as (_ & (Hn1' & _) & _). simpl in Hn1'. eapply NoDup_map_NoDup; eauto.
    + intros m t Hm Ht. apply in_app_iff in Hm.
      assert (tgt_member (l_carr L) (l_rarr L) t) as Htm
        by (destruct Hm as [Hm|[<-|[]]]; [apply (Hcl1 m t Hm Ht) | apply (Hp1 t Ht)]).
      destruct t as [c|r|s]; simpl in *; auto.
      * right. apply in_app_iff. auto.
      * destruct (Nat.eqb_spec r old) as [->|Hc]; auto. right. apply In_remove_unordered; auto.
    + simpl. apply in_app_iff. right. left. reflexivity.
    + intros q d Hq Hd. apply In_remove_unordered in Hq; auto. destruct Hq as [Hq Hqo].
      apply In_remove_unordered; auto. split; [apply (Hcl2 q d Hq Hd)|]. intros ->. apply (Hp2 q Hq Hd).
  - (* OpReplaceCR *) destruct Hpre as (Hold & Hnew & Hnin & Hname).
    unfold replace_cr in *. assert (memb old (l_carr L) = true) as Emb by (apply memb_In; exact Hold).
    rewrite Emb in *. apply closed_retarget.
    + destruct HWF' as (_ & (Hn1' & _) & _). simpl in Hn1'. eapply NoDup_map_NoDup; eauto.
    + intros m t Hm Ht. apply In_remove_unordered in Hm; auto. destruct Hm as [Hm Hmo].
      pose proof (Hcl1 m t Hm Ht) as Htm. destruct t as [c|r|s]; simpl in *; auto.
      * destruct (Nat.eqb_spec c old) as [->|Hc]; auto. right. apply In_remove_unordered; auto.
      * right. apply in_app_iff. auto.
    + simpl. apply in_app_iff. right. left. reflexivity.
    + intros q d Hq Hd. apply in_app_iff. left. apply in_app_iff in Hq.
      destruct Hq as [Hq|[<-|[]]]; [apply (Hcl2 q d Hq Hd) | apply (Hpc d Hd)].
  - (* OpReplaceRR *) destruct Hpre as (Hold & Hnew & Hnin & Hname). destruct Hpc as (Hp1 & Hp2 & Hp3).
    unfold replace_rr in *. apply closed_retarget; auto.
    + intros m t Hm Ht. pose proof (Hcl1 m t Hm Ht) as Htm. destruct t as [c|r|s]; simpl in *; auto.
      destruct (Nat.eqb_spec r old) as [->|Hc]; auto. right. apply In_replace_first_iff; auto.
    + simpl. apply In_replace_first_iff; auto.
    + intros q d Hq Hd. apply In_replace_first_iff in Hq; auto. apply In_replace_first_iff; auto. right.
      destruct Hq as [->|[Hq Hqo]].
      * split; [apply (Hp1 d Hd)|]. intros ->. apply (Hp2 Hd).
      * split; [apply (Hcl2 q d Hq Hd)|]. intros ->. apply (Hp3 q Hq Hqo Hd).
  - (* OpRemap *) split; [|exact Hcl2]. intros i t Hi Ht. rewrite remap_refs in Ht. apply (Hcl1 i t Hi Ht).
  - (* OpCopyLib *) subst deep. exact Hcl.
Qed.

(* histories within both sets of preconditions *)
Fixpoint ops_ok_closed (L : lib) (ops : list op) : Prop :=
  match ops with
  | [] => True
  | o :: tl => op_pre L o /\ op_pre_closed L o /\ ops_ok_closed (step L o) tl
  end.

Theorem run_WF_closed_lemma ops : forall L,
  WF L -> closed L -> ops_ok_closed L ops -> WF (run ops L) /\ closed (run ops L).
Proof.
  induction ops as [|o tl IH]; intros L HWF Hcl Hok; simpl in *.
  - auto.
  - destruct Hok as (Hpre & Hpc & Hok). apply IH; auto.
    + apply step_WF_lemma; auto.
    + apply step_closed_lemma; auto.
Qed.

Lemma closed_empty : closed empty_lib.
Proof. split; simpl; intros; contradiction. Qed.
(* ========================================================================================== *)
(* 12. Dependency queries.  Cell::get_dependencies and RawCell::get_dependencies are the same
   traversal over two graphs; it is specified once, over an abstract graph given by a name
   function and a children function.                                                            *)

Lemma mget_In k v m : mget k m = Some v -> In (k, v) m.
Proof.
  induction m as [|[k0 v0] tl IH]; simpl; [discriminate|].
  destruct (N.eqb_spec k0 k) as [->|Hne]; intros H.
  - inversion H; subst. auto.
  - right. apply IH. exact H.
Qed.

Lemma In_mget k v m : NoDup (map fst m) -> In (k, v) m -> mget k m = Some v.
Proof.
  induction m as [|[k0 v0] tl IH]; simpl; [tauto|]. intros Hnd [H|H].
  - inversion H; subst. rewrite N.eqb_refl. reflexivity.
  - inversion Hnd as [|? ? Hna Hnd']; subst.
    destruct (N.eqb_spec k0 k) as [->|Hne]; [|apply IH; auto].
    exfalso. apply Hna. apply (in_map fst) in H. exact H.
Qed.

Lemma In_mset k v m k' v' : In (k', v') (mset k v m) -> (k', v') = (k, v) \/ In (k', v') m.
Proof.
  induction m as [|[k0 v0] tl IH]; simpl.
  - intros [H|[]]; auto.
  - destruct (N.eqb k0 k); simpl; intros [H|H]; auto. destruct (IH H); auto.
Qed.

Lemma In_keys_mset k v m k' : In k' (map fst (mset k v m)) -> k' = k \/ In k' (map fst m).
Proof.
  intros H. apply in_map_iff in H. destruct H as ([k1 v1] & <- & H). apply In_mset in H.
  destruct H as [H|H]; [inversion H; auto|]. right. apply (in_map fst) in H. exact H.
Qed.

Lemma NoDup_keys_mset k v m : NoDup (map fst m) -> NoDup (map fst (mset k v m)).
Proof.
  induction m as [|[k0 v0] tl IH]; simpl; intros Hnd.
  - constructor; [intros []|constructor].
  - inversion Hnd as [|? ? Hna Hnd']; subst. destruct (N.eqb_spec k0 k) as [->|Hne]; simpl.
    + constructor; auto.
    + constructor; [|apply IH; exact Hnd'].
      intros H. apply In_keys_mset in H. destruct H as [H|H]; [congruence | contradiction].
Qed.

Lemma ins_nat_In x y l : In x (ins_nat y l) <-> x = y \/ In x l.
Proof.
  induction l as [|z tl IH]; simpl.
  - split; intros [H|H]; auto.
  - destruct (Nat.ltb y z); simpl; [split; intros [H|H]; auto|].
    destruct (Nat.eqb_spec y z) as [->|Hne]; simpl.
    + split; intros H; auto. destruct H as [->|H]; auto.
    + rewrite IH. split; intros H; tauto.
Qed.

Lemma sort_nat_In x l : In x (sort_nat l) <-> In x l.
Proof.
  unfold sort_nat. induction l as [|a tl IH]; simpl; [tauto|].
  rewrite ins_nat_In, IH. split; intros [H|H]; auto.
Qed.

Section GenericDeps.
  Variable nm : nat -> name.
  Variable ch : nat -> list nat.
  Variable mem : nat -> Prop.
  Hypothesis nm_inj : forall a b, mem a -> mem b -> nm a = nm b -> a = b.
  Hypothesis ch_mem : forall a b, mem a -> In b (ch a) -> mem b.

  Fixpoint gloop (rec : nat -> dmap -> outcome dmap) (recursive : bool) (l : list nat) (m : dmap)
    : outcome dmap :=
    match l with
    | [] => Ok m
    | j :: tl =>
        obind (if recursive && not_mapped m (nm j) j then rec j m else Ok m)
              (fun m1 => gloop rec recursive tl (mset (nm j) j m1))
    end.

  Fixpoint gdeps (fuel : nat) (recursive : bool) (i : nat) (m : dmap) : outcome dmap :=
    match fuel with
    | O => Crash
    | S f => gloop (gdeps f true) recursive (ch i) m
    end.

  Inductive greach : nat -> nat -> Prop :=
  | gr_step i j : In j (ch i) -> greach i j
  | gr_snoc i j k : greach i j -> In k (ch j) -> greach i k.

  Lemma greach_trans i j k : greach i j -> greach j k -> greach i k.
  Proof.
    intros H1 H2. revert H1. induction H2 as [j k H|j k l H IH Hkl]; intros H1.
    - exact (gr_snoc i j k H1 H).
    - exact (gr_snoc i k l (IH H1) Hkl).
  Qed.

  Lemma greach_first i k : greach i k -> exists j, In j (ch i) /\ (k = j \/ greach j k).
  Proof.
    induction 1 as [i j H | i j k H (j0 & Hj0 & IH) Hjk].
    - exists j. auto.
    - exists j0. split; auto. right. destruct IH as [->|IH].
      + apply gr_step. exact Hjk.
      + eapply gr_snoc; eauto.
  Qed.

  Lemma greach_mem i j : mem i -> greach i j -> mem j.
  Proof. intros Hi H. induction H; eauto. Qed.

  (* depth bound: every path from i has fewer than h edges *)
  Fixpoint hb (h : nat) (i : nat) : Prop :=
    match h with
    | O => False
    | S h' => forall j, In j (ch i) -> hb h' j
    end.

  Lemma hb_of_acyclic n :
    (forall i, ~ greach i i) -> (forall a b, In b (ch a) -> a < n) -> forall i, hb (S n) i.
  Proof.
    intros Hac Hlt.
    assert (Hsrc : forall a b, greach a b -> a < n).
    { intros a b H. induction H; eauto. }
    assert (G : forall h anc i, NoDup anc -> (forall a, In a anc -> greach a i) -> length anc + h > n -> hb h i).
    { induction h as [|h IH]; intros anc i Hnd HS Hlen.
      - exfalso. assert (length anc <= length (seq 0 n)) as Hle.
        { apply NoDup_incl_length; auto. intros a Ha. apply in_seq. specialize (Hsrc a i (HS a Ha)). lia. }
        rewrite seq_length in Hle. lia.
      - simpl. intros j Hj. apply (IH (i :: anc)).
        + constructor; auto. intros Hin. apply (Hac i). apply HS. exact Hin.
        + intros a [<-|Ha]; [apply gr_step; exact Hj | eapply gr_snoc; eauto].
        + simpl. lia. }
    intros i. apply (G (S n) [] i); [constructor | intros a [] | simpl; lia].
  Qed.

  Definition has (m : dmap) (x : nat) : Prop := mget (nm x) m = Some x.
  Definition good (m : dmap) : Prop :=
    NoDup (map fst m) /\ forall k v, In (k, v) m -> k = nm v /\ mem v.
  Definition dclosed (m : dmap) : Prop := forall v w, has m v -> greach v w -> has m w.

  Lemma has_mem m x : good m -> has m x -> mem x.
  Proof. intros [_ Hg] H. apply mget_In in H. apply (Hg _ _ H). Qed.

  Lemma has_mset m j x : mem x -> mem j -> (has (mset (nm j) j m) x <-> x = j \/ has m x).
  Proof.
    intros Hx Hj. unfold has. rewrite mget_mset. destruct (N.eqb_spec (nm j) (nm x)) as [E|E].
    - assert (j = x) by (apply nm_inj; auto). subst. split; auto.
    - split; [auto|]. intros [->|H]; [congruence | exact H].
  Qed.

  Lemma good_mset m j : good m -> mem j -> good (mset (nm j) j m).
  Proof.
    intros [H1 H2] Hj. split; [apply NoDup_keys_mset; exact H1|].
    intros k v H. apply In_mset in H. destruct H as [H|H]; [inversion H; subst; auto | apply H2; exact H].
  Qed.

  Lemma vals_has m x : good m -> (In x (map snd m) <-> has m x).
  Proof.
    intros [H1 H2]. unfold has. split.
    - intros H. apply in_map_iff in H. destruct H as ([k v] & <- & H). simpl.
      destruct (H2 _ _ H) as [-> _]. apply In_mget; auto.
    - intros H. apply mget_In in H. apply (in_map snd) in H. exact H.
  Qed.

  Lemma good_nil : good [].
  Proof. split; [constructor | intros k v []]. Qed.

  Lemma dclosed_nil : dclosed [].
  Proof. intros v w H. discriminate. Qed.

  Lemma not_mapped_has m j : not_mapped m (nm j) j = true <-> ~ has m j.
  Proof. apply not_mapped_true. Qed.

  (* the loop, non recursive *)
  Lemma gloop_direct_spec rec l : (forall j, In j l -> mem j) -> forall m, good m ->
    exists m', gloop rec false l m = Ok m' /\ good m' /\
      forall x, mem x -> (has m' x <-> has m x \/ In x l).
  Proof.
    induction l as [|j tl IH]; intros Hl m Hg; simpl.
    - exists m. split; auto. split; auto. intros x _. tauto.
    - assert (mem j) as Hj by (apply Hl; left; reflexivity).
      destruct (IH (fun a Ha => Hl a (or_intror Ha)) (mset (nm j) j m) (good_mset m j Hg Hj))
        as (m' & E & Hg' & Hm').
      exists m'. split; auto. split; auto. intros x Hx. rewrite (Hm' x Hx), (has_mset m j x Hx Hj).
      split; intros H; [destruct H as [[->|H]|H]; auto | destruct H as [H|[->|H]]; auto].
  Qed.

  (* the loop, recursive, given the contract of the recursive call on every listed child *)
  Lemma gloop_rec_spec rec l :
    (forall j, In j l -> mem j) ->
    (forall j m, In j l -> good m -> dclosed m ->
       exists m', rec j m = Ok m' /\ good m' /\ dclosed m' /\
         forall x, mem x -> (has m' x <-> has m x \/ greach j x)) ->
    forall m, good m -> dclosed m ->
    exists m', gloop rec true l m = Ok m' /\ good m' /\ dclosed m' /\
      forall x, mem x -> (has m' x <-> has m x \/ exists j, In j l /\ (x = j \/ greach j x)).
  Proof.
    induction l as [|j tl IH]; intros Hl Hrec m Hg Hd; simpl.
    - exists m. split; auto. split; auto. split; auto. intros x _. split; auto.
      intros [H|(j & [] & _)]; auto.
    - assert (mem j) as Hj by (apply Hl; left; reflexivity).
      (* the state after the optional recursive call *)
      assert (exists m1, (if not_mapped m (nm j) j then rec j m else Ok m) = Ok m1 /\ good m1 /\ dclosed m1 /\
                (forall x, mem x -> (has m1 x <-> has m x \/ greach j x)) /\
                (forall w, greach j w -> has m1 w)) as (m1 & E1 & Hg1 & Hd1 & Hm1 & Hdesc).
      { destruct (not_mapped m (nm j) j) eqn:Enm.
        - destruct (Hrec j m (or_introl eq_refl) Hg Hd) as (m1 & E & Hg1 & Hd1 & Hm1).
          exists m1. split; auto. split; auto. split; auto. split; auto.
          intros w Hw. apply Hm1; [eapply greach_mem; eauto | right; exact Hw].
        - assert (has m j) as Hhj.
          { destruct (not_mapped_has m j) as [_ H]. unfold has. unfold not_mapped in Enm.
            destruct (mget (nm j) m) as [v|]; [|discriminate].
            apply negb_false_iff in Enm. apply Nat.eqb_eq in Enm. subst. reflexivity. }
          exists m. split; auto. split; auto. split; auto. split.
          + intros x Hx. split; auto. intros [H|H]; auto. apply (Hd j x Hhj H).
          + intros w Hw. apply (Hd j w Hhj Hw). }
      rewrite E1. simpl.
      set (m2 := mset (nm j) j m1).
      assert (Hg2 : good m2) by (apply good_mset; auto).
      assert (Hd2 : dclosed m2).
      { intros v w Hv Hvw. pose proof (has_mem m2 v Hg2 Hv) as Hmv.
        pose proof (greach_mem v w Hmv Hvw) as Hmw.
        apply (has_mset m1 j w Hmw Hj). right.
        apply (has_mset m1 j v Hmv Hj) in Hv. destruct Hv as [->|Hv].
        - apply Hdesc. exact Hvw.
        - apply (Hd1 v w Hv Hvw). }
      destruct (IH (fun a Ha => Hl a (or_intror Ha))
                   (fun a m0 Ha => Hrec a m0 (or_intror Ha)) m2 Hg2 Hd2) as (m' & E & Hg' & Hd' & Hm').
      exists m'. split; auto. split; auto. split; auto.
      intros x Hx. rewrite (Hm' x Hx). unfold m2. rewrite (has_mset m1 j x Hx Hj), (Hm1 x Hx).
      split.
      + intros [[->|[H|H]]|(a & Ha & H)]; auto.
        * right. exists j. auto.
        * right. exists j. auto.
        * right. exists a. auto.
      + intros [H|(a & [<-|Ha] & H)]; auto.
        * destruct H as [->|H]; auto.
        * right. exists a. auto.
  Qed.

  Lemma gdeps_rec_spec : forall f i m, hb f i -> mem i -> good m -> dclosed m ->
    exists m', gdeps f true i m = Ok m' /\ good m' /\ dclosed m' /\
      forall x, mem x -> (has m' x <-> has m x \/ greach i x).
  Proof.
    induction f as [|f IH]; intros i m Hb Hi Hg Hd; [destruct Hb|]. simpl in *.
    destruct (gloop_rec_spec (gdeps f true) (ch i)) with (m := m) as (m' & E & Hg' & Hd' & Hm'); auto.
    - intros j Hj. eapply ch_mem; eauto.
    - intros j m0 Hj Hg0 Hd0. apply IH; auto. eapply ch_mem; eauto.
    - exists m'. split; auto. split; auto. split; auto. intros x Hx. rewrite (Hm' x Hx).
      split; intros [H|H]; auto; right.
      + destruct H as (j & Hj & [->|H]); [apply gr_step; exact Hj|].
        eapply greach_trans; [apply gr_step; exact Hj | exact H].
      + apply greach_first in H. exact H.
  Qed.

  Theorem gdeps_spec_rec n i :
    (forall i, ~ greach i i) -> (forall a b, In b (ch a) -> a < n) -> mem i ->
    exists m', gdeps (S n) true i [] = Ok m' /\ forall x, In x (map snd m') <-> greach i x.
  Proof.
    intros Hac Hlt Hi.
    destruct (gdeps_rec_spec (S n) i [] (hb_of_acyclic n Hac Hlt i) Hi good_nil dclosed_nil)
      as (m' & E & Hg' & _ & Hm').
    exists m'. split; auto. intros x. rewrite (vals_has m' x Hg'). split.
    - intros H. pose proof (has_mem m' x Hg' H) as Hx. apply (Hm' x Hx) in H.
      destruct H as [H|H]; [discriminate | exact H].
    - intros H. apply Hm'; [eapply greach_mem; eauto | right; exact H].
  Qed.

  Theorem gdeps_spec_direct f i : mem i ->
    exists m', gdeps (S f) false i [] = Ok m' /\ forall x, In x (map snd m') <-> In x (ch i).
  Proof.
    intros Hi. simpl.
    destruct (gloop_direct_spec (gdeps f true) (ch i)) with (m := @nil (name * nat)) as (m' & E & Hg' & Hm').
    - intros j Hj. eapply ch_mem; eauto.
    - apply good_nil.
    - exists m'. split; auto. intros x. rewrite (vals_has m' x Hg'). split.
      + intros H. pose proof (has_mem m' x Hg' H) as Hx. apply (Hm' x Hx) in H.
        destruct H as [H|H]; [discriminate | exact H].
      + intros H. apply Hm'; [eapply ch_mem; eauto | right; exact H].
  Qed.
End GenericDeps.
(* --- the model's traversals are instances of the generic one --- *)

Lemma gloop_ext nm rec rec' b l : (forall j m, rec j m = rec' j m) ->
  forall m, gloop nm rec b l m = gloop nm rec' b l m.
Proof.
  intros H. induction l as [|j tl IH]; intros m; simpl; auto.
  rewrite H. destruct (b && not_mapped m (nm j) j); simpl.
  - destruct (rec' j m); simpl; auto.
  - apply IH.
Qed.

Lemma deps_loop_gloop L rec b refs : forall m,
  deps_loop L rec b refs m = gloop (cname L) rec b (ctargets refs) m.
Proof.
  induction refs as [|t tl IH]; intros m; simpl; auto.
  destruct t; simpl; auto.
  destruct (b && not_mapped m (cname L c) c); simpl.
  - destruct (rec c m); simpl; auto.
  - apply IH.
Qed.

Definition cchildren (L : lib) (i : nat) : list nat := ctargets (c_refs (cell_at L i)).
Definition rchildren (L : lib) (r : nat) : list nat := r_deps (raw_at L r).

Lemma cell_deps_gdeps L : forall f b i m,
  cell_deps f L b i m = gdeps (cname L) (cchildren L) f b i m.
Proof.
  induction f as [|f IH]; intros b i m; simpl; auto.
  rewrite deps_loop_gloop. apply gloop_ext. intros j m0. apply IH.
Qed.

Lemma rdeps_loop_gloop L rec b deps : forall m,
  rdeps_loop L rec b deps m = gloop (rname L) rec b deps m.
Proof.
  induction deps as [|d tl IH]; intros m; simpl; auto.
  destruct (b && not_mapped m (rname L d) d); simpl.
  - destruct (rec d m); simpl; auto.
  - apply IH.
Qed.

Lemma raw_deps_gdeps L : forall f b r m,
  raw_deps f L b r m = gdeps (rname L) (rchildren L) f b r m.
Proof.
  induction f as [|f IH]; intros b r m; simpl; auto.
  rewrite rdeps_loop_gloop. apply gloop_ext. intros j m0. apply IH.
Qed.

Lemma greach_creach L i j : greach (cchildren L) i j <-> creach L i j.
Proof.
  split; intros H; induction H.
  - apply cr_step. apply cedge_ctargets. exact H.
  - eapply cr_snoc; eauto. apply cedge_ctargets. exact H0.
  - apply gr_step. apply cedge_ctargets. exact H.
  - eapply gr_snoc; eauto. apply cedge_ctargets in H0. exact H0.
Qed.

(* raw cell i transitively depends on raw cell j *)
Definition rreach (L : lib) : nat -> nat -> Prop := greach (rchildren L).

Lemma rreach_lt L i j : ids_ok L -> rreach L i j -> j < i.
Proof.
  intros (_ & _ & _ & H4) H. induction H as [i j H|i j k H IH Hjk].
  - apply (H4 i j H).
  - specialize (H4 j k Hjk). lia.
Qed.

Lemma rchildren_valid L a b : In b (rchildren L a) -> a < length (l_raws L).
Proof.
  unfold rchildren, raw_at. intros H. destruct (Nat.lt_ge_cases a (length (l_raws L))); auto.
  rewrite nth_overflow in H by assumption. destruct H.
Qed.

(* get_dependencies(false) returns the directly referenced cells, get_dependencies(true) their
   transitive closure; the recursion never exceeds the fuel `number of cells + 1` *)
Theorem dependencies_spec_lemma L i : WF L -> closed L -> In i (l_carr L) ->
  (exists l, get_dependencies L false i = Ok l /\
             forall j, In j l <-> In (ToCell j) (c_refs (cell_at L i))) /\
  (exists l, get_dependencies L true i = Ok l /\ forall j, In j l <-> creach L i j).
Proof.
  intros (Hids & (Hn1 & Hn2 & Hn3) & Ha) (Hcl1 & Hcl2) Hi.
  set (mem := fun i => In i (l_carr L)).
  assert (Hinj : forall a b, mem a -> mem b -> cname L a = cname L b -> a = b).
  { intros a b Ha' Hb E. apply (NoDup_map_inj (cname L) (l_carr L) a b Hn1 Ha' Hb E). }
  assert (Hch : forall a b, mem a -> In b (cchildren L a) -> mem b).
  { intros a b Ha' Hb. unfold cchildren in Hb. apply In_ctargets in Hb. apply (Hcl1 a _ Ha' Hb). }
  unfold get_dependencies, cfuel. rewrite !cell_deps_gdeps. split.
  - destruct (gdeps_spec_direct (cname L) (cchildren L) mem Hinj Hch (length (l_cells L)) i Hi) as (m' & E & Hm').
    rewrite E. simpl. eexists. split; [reflexivity|]. intros j. unfold map_values.
    rewrite sort_nat_In, Hm'. unfold cchildren. apply In_ctargets.
  - destruct (gdeps_spec_rec (cname L) (cchildren L) mem Hinj Hch (length (l_cells L)) i) as (m' & E & Hm'); auto.
    + intros x H. apply (Ha x). apply greach_creach. exact H.
    + intros a b H. unfold cchildren in H. apply In_ctargets in H. apply (cedge_valid L a b H).
    + rewrite E. simpl. eexists. split; [reflexivity|]. intros j. unfold map_values.
      rewrite sort_nat_In, Hm'. apply greach_creach.
Qed.

(* the same for RawCell::get_dependencies *)
Theorem raw_dependencies_spec_lemma L r : WF L -> closed L -> In r (l_rarr L) ->
  (exists l, raw_get_dependencies L false r = Ok l /\
             forall d, In d l <-> In d (r_deps (raw_at L r))) /\
  (exists l, raw_get_dependencies L true r = Ok l /\ forall d, In d l <-> rreach L r d).
Proof.
  intros (Hids & (Hn1 & Hn2 & Hn3) & Ha) (Hcl1 & Hcl2) Hr.
  set (mem := fun r => In r (l_rarr L)).
  assert (Hinj : forall a b, mem a -> mem b -> rname L a = rname L b -> a = b).
  { intros a b Ha' Hb E. apply (NoDup_map_inj (rname L) (l_rarr L) a b Hn2 Ha' Hb E). }
  assert (Hch : forall a b, mem a -> In b (rchildren L a) -> mem b).
  { intros a b Ha' Hb. apply (Hcl2 a b Ha' Hb). }
  unfold raw_get_dependencies, rfuel. rewrite !raw_deps_gdeps. split.
  - destruct (gdeps_spec_direct (rname L) (rchildren L) mem Hinj Hch (length (l_raws L)) r Hr) as (m' & E & Hm').
    rewrite E. simpl. eexists. split; [reflexivity|]. intros j. unfold map_values.
    rewrite sort_nat_In, Hm'. reflexivity.
  - destruct (gdeps_spec_rec (rname L) (rchildren L) mem Hinj Hch (length (l_raws L)) r) as (m' & E & Hm'); auto.
    + intros x H. apply (rreach_lt L x x Hids) in H. lia.
    + apply rchildren_valid.
    + rewrite E. simpl. eexists. split; [reflexivity|]. intros j. unfold map_values.
      rewrite sort_nat_In, Hm'. reflexivity.
Qed.

(* Cell::get_raw_dependencies(false): the raw cells directly referenced *)
Lemma crdeps_loop_direct L rf rec refs : forall m,
  crdeps_loop L rf rec false refs m = gloop (rname L) rec false (rtargets refs) m.
Proof. induction refs as [|t tl IH]; intros m; simpl; auto. destruct t; simpl; auto. Qed.

Theorem raw_dependencies_of_cell_direct_lemma L i : WF L -> closed L -> In i (l_carr L) ->
  exists l, get_raw_dependencies L false i = Ok l /\
            forall r, In r l <-> In (ToRaw r) (c_refs (cell_at L i)).
Proof.
  intros (Hids & (Hn1 & Hn2 & Hn3) & Ha) (Hcl1 & Hcl2) Hi.
  set (mem := fun r => In r (l_rarr L)).
  assert (Hinj : forall a b, mem a -> mem b -> rname L a = rname L b -> a = b).
  { intros a b Ha' Hb E. apply (NoDup_map_inj (rname L) (l_rarr L) a b Hn2 Ha' Hb E). }
  unfold get_raw_dependencies, cfuel. simpl. rewrite crdeps_loop_direct.
  destruct (gloop_direct_spec (rname L) mem Hinj (cell_raw_deps (length (l_cells L)) (rfuel L) L true)
              (rtargets (c_refs (cell_at L i)))) with (m := @nil (name * nat)) as (m' & E & Hg' & Hm').
  - intros r Hr0. apply In_rtargets in Hr0. apply (Hcl1 i _ Hi Hr0).
  - apply good_nil.
  - rewrite E. simpl. eexists. split; [reflexivity|]. intros r. unfold map_values.
    rewrite sort_nat_In, (vals_has (rname L) mem m' r Hg'). rewrite <- In_rtargets. split.
    + intros H. pose proof (has_mem (rname L) mem m' r Hg' H) as Hx. apply (Hm' r Hx) in H.
      destruct H as [H|H]; [discriminate | exact H].
    + intros H. apply Hm'; [|right; exact H]. apply In_rtargets in H. apply (Hcl1 i _ Hi H).
Qed.
(* ========================================================================================== *)
(* 14. Histories from the empty library; satisfiability of the hypotheses; refuted clauses      *)

Theorem history_lemma ops :
  ops_ok_closed empty_lib ops -> WF (run ops empty_lib) /\ closed (run ops empty_lib).
Proof. intros H. apply run_WF_closed_lemma; auto using WF_empty, closed_empty. Qed.

Theorem history_WF_lemma ops : ops_ok empty_lib ops -> WF (run ops empty_lib).
Proof. intros H. apply run_WF_lemma; auto using WF_empty. Qed.

Lemma run_app ops1 ops2 L : run (ops1 ++ ops2) L = run ops2 (run ops1 L).
Proof. unfold run. apply fold_left_app. Qed.

Lemma ops_ok_app ops1 : forall L ops2,
  ops_ok L (ops1 ++ ops2) <-> ops_ok L ops1 /\ ops_ok (run ops1 L) ops2.
Proof.
  induction ops1 as [|o tl IH]; intros L ops2; simpl; [tauto|]. rewrite IH. tauto.
Qed.

Arguments mkCell _%N _ _ _.
Arguments mkRaw _%N _.
Arguments ByName _%N.

Ltac small :=
  cbv -[Nat.lt Nat.le]; repeat (match goal with
    | |- _ /\ _ => split
    | |- True => exact I
    | |- Forall _ _ => constructor
    | |- forall _, _ => intro
    | |- ~ _ => intro
    | H : _ \/ _ |- _ => destruct H
    | H : _ /\ _ |- _ => destruct H
    | H : False |- _ => destruct H
    | H : Some _ = Some _ |- _ => inversion H; clear H
    | H : exists _, _ |- _ => destruct H
    end; subst; try discriminate; try lia; try congruence);
  try solve [intuition (auto; try lia; try congruence)].

(* a library with a shared sub-cell, a by-name reference to a present and to an absent cell, and
   raw cells: cells 0 "1", 1 "2" -> {0, raw 1}, 2 "3" -> {0, 1, name 1, name 9}; raws 0 "7", 1 "8" -> {0} *)
Definition sample_ops : list op :=
  [OpNewRaw (mkRaw 7 []); OpAddRaw 0; OpNewRaw (mkRaw 8 [0]); OpAddRaw 1;
   OpNewCell (mkCell 1 [] [(1,0)%N] []); OpAddCell 0;
   OpNewCell (mkCell 2 [ToCell 0; ToRaw 1] [(2,0)%N] [(1,1)%N]); OpAddCell 1;
   OpNewCell (mkCell 3 [ToCell 0; ToCell 1; ByName 1; ByName 9] [] []); OpAddCell 2].
Definition sample : lib := run sample_ops empty_lib.

Example sample_ok : ops_ok_closed empty_lib sample_ops.
Proof. small. Qed.

Example sample_WF : WF sample /\ closed sample.
Proof. apply history_lemma. exact sample_ok. Qed.

(* the hypotheses of the main lemmas are satisfiable: a rename and a replacement on `sample` *)
Example sample_rename_ok :
  In 0 (l_carr sample) /\ others_differ sample 0 5%N /\ no_raw_named sample 5%N.
Proof. small. Qed.

Example sample_replace_ok :
  let L := step sample (OpCopyCell 1 (Some 6%N)) in
  op_pre L (OpReplaceCC 1 3) /\ op_pre_closed L (OpReplaceCC 1 3).
Proof.
  cbv zeta. split.
  - unfold op_pre. split; [small|]. split; [small|]. split; [small|]. split; [right; small|].
    intros m Hm Hh Hr.
    assert (m = 3 \/ m = 0) as Hcases.
    { destruct Hr as [E|Hr]; [left; congruence|]. right.
      apply creach_first in Hr. destruct Hr as (j & Hj & Hjm).
      assert (j = 0) by (revert Hj; unfold cedge; small). subst j.
      destruct Hjm as [E|Hjm]; [congruence|].
      apply creach_first in Hjm. destruct Hjm as (k & Hk & _). revert Hk. unfold cedge. small. }
    destruct Hh as (t & Ht & Hmt). destruct Hcases; subst m; revert Ht Hmt; small.
  - small.
Qed.

(* ---------------------------------------------------------------------------------------- *)
(* Clauses of the property that the faithful model falsifies; each witness is an operation
   sequence from the empty library                                                           *)

(* (R1) a cell that is referenced by name only is reported as top level: top_level (and
   get_dependencies) ignore ReferenceType::Name references *)
Example top_level_byname_refuted :
  let ops := [OpNewCell (mkCell 1 [] [] []); OpAddCell 0;
              OpNewCell (mkCell 2 [ByName 1] [] []); OpAddCell 1] in
  let L := run ops empty_lib in
  ops_ok_closed empty_lib ops /\
  In 1 (l_carr L) /\ In (ByName 1) (c_refs (cell_at L 1)) /\ resolve L (ByName 1) = Some (OCell 0) /\
  top_level L = ([0; 1], []).
Proof. cbv zeta. split; [small|]. vm_compute. auto. Qed.

(* (R2) top_level keys its dependency maps by NAME.  After removing a referenced cell (the
   pointer to it stays in the referencing cell) and giving its name to another member, that
   member is reported as top level although a member points to it.  Every operation meets
   `op_pre`, so WF holds all along; what is lost is `closed`. *)
Example top_level_after_remove_refuted :
  let setup := [OpNewCell (mkCell 1 [] [] []); OpAddCell 0; OpNewCell (mkCell 2 [] [] []); OpAddCell 1;
                OpNewCell (mkCell 5 [ToCell 1] [] []); OpAddCell 2;
                OpNewCell (mkCell 6 [ToCell 0] [] []); OpAddCell 3] in
  let ops := [OpRemoveCell 0; OpRenamePtr 1 1%N] in
  let L0 := run setup empty_lib in
  let L := run ops L0 in
  ops_ok_closed empty_lib setup /\ ops_ok L0 ops /\ WF L /\
  In 2 (l_carr L) /\ In (ToCell 1) (c_refs (cell_at L 2)) /\ In 1 (fst (top_level L)).
Proof.
  cbv zeta. split; [small|]. split; [small|]. split.
  - rewrite <- run_app. apply history_WF_lemma. small.
  - vm_compute. auto.
Qed.

(* (R3) replace_cell (cell by cell) matches RawCell references by NAME: a reference to a raw cell
   that merely has the old cell's name (and is not in the library) is redirected too *)
Example replace_name_match_refuted :
  let setup := [OpNewRaw (mkRaw 1 []); OpNewCell (mkCell 1 [] [] []); OpAddCell 0;
                OpNewCell (mkCell 2 [ToRaw 0] [] []); OpAddCell 1; OpCopyCell 0 None] in
  let L := run setup empty_lib in
  let L' := step L (OpReplaceCC 0 2) in
  ops_ok empty_lib setup /\ op_pre L (OpReplaceCC 0 2) /\
  c_refs (cell_at L 1) = [ToRaw 0] /\ resolve L (ToRaw 0) = Some (ORaw 0) /\
  c_refs (cell_at L' 1) = [ToCell 2].
Proof.
  cbv zeta. split; [small|]. split; [|vm_compute; auto].
  unfold op_pre. split; [small|]. split; [small|]. split; [small|]. split; [left; reflexivity|].
  intros m Hm Hh [E|Hr].
  - subst m. destruct Hh as (t & Ht & _). revert Ht. small.
  - apply creach_first in Hr. destruct Hr as (j & Hj & _). revert Hj. unfold cedge. small.
Qed.

(* (R4) the dependency arrays of raw cells are never updated: after replacing a raw cell, a
   member raw cell still depends on the removed one *)
Example replace_raw_deps_refuted :
  let setup := [OpNewRaw (mkRaw 7 []); OpAddRaw 0; OpNewRaw (mkRaw 8 [0]); OpAddRaw 1;
                OpNewRaw (mkRaw 9 [])] in
  let L := run setup empty_lib in
  let L' := step L (OpReplaceRR 0 2) in
  ops_ok_closed empty_lib setup /\ op_pre L (OpReplaceRR 0 2) /\
  In 1 (l_rarr L') /\ In 0 (r_deps (raw_at L' 1)) /\ ~ In 0 (l_rarr L') /\ ~ closed L'.
Proof.
  cbv zeta. split; [small|]. split; [unfold op_pre; split; [small|]; split; [small|]; split; [small|]; right; small|].
  split; [small|]. split; [small|]. split; [small|].
  intros [_ H]. specialize (H 1 0). revert H. small.
Qed.

(* (R5) a replacement that references the cell it replaces becomes self-referential; the
   recursive queries then never return (the C++ exhausts the stack) *)
Example replace_self_cycle_refuted :
  let setup := [OpNewCell (mkCell 1 [] [] []); OpAddCell 0; OpNewCell (mkCell 2 [ToCell 0] [] [])] in
  let L := run setup empty_lib in
  let L' := step L (OpReplaceCC 0 1) in
  ops_ok_closed empty_lib setup /\
  c_refs (cell_at L' 1) = [ToCell 1] /\ ~ acyclic L' /\ get_dependencies L' true 1 = Crash.
Proof.
  cbv zeta. split; [small|]. split; [reflexivity|]. split; [|reflexivity].
  intros H. apply (H 1). apply cr_step. unfold cedge. vm_compute. auto.
Qed.

(* (R6) Library::copy_from(deep): Reference::copy_from copies the target pointer, so every
   reference of the copy designates a cell of the ORIGINAL library; in the copy nothing points to
   a member, every cell is top level, and dependencies are the originals *)
Example copy_deep_refuted :
  let setup := [OpNewCell (mkCell 1 [] [] []); OpAddCell 0; OpNewCell (mkCell 2 [ToCell 0] [] []); OpAddCell 1] in
  let L := run setup empty_lib in
  let L' := step L (OpCopyLib true) in
  ops_ok_closed empty_lib setup /\ WF L' /\
  l_carr L' = [2; 3] /\ c_refs (cell_at L' 3) = [ToCell 0] /\ ~ closed L' /\
  top_level L' = ([2; 3], []) /\ get_dependencies L' false 3 = Ok [0].
Proof.
  cbv zeta. split; [small|]. split.
  - apply step_WF_lemma; [|exact I]. apply history_WF_lemma. small.
  - split; [reflexivity|]. split; [reflexivity|]. split; [|vm_compute; auto].
    intros [H _]. specialize (H 3 (ToCell 0)). revert H. small.
Qed.
(* ========================================================================================== *)
(* 15. Cell::get_raw_dependencies(true): raw cells referenced by the cell or by any cell it
   reaches, and everything those raw cells depend on                                            *)

(* one step of the traversal: optional recursive call on j, then result.set(j->name, j) *)
Lemma gstep_spec (nm : nat -> name) (ch : nat -> list nat) (mem : nat -> Prop)
    (rec : nat -> dmap -> outcome dmap) (j : nat) (m : dmap) :
  (forall a b, mem a -> mem b -> nm a = nm b -> a = b) ->
  (forall a b, mem a -> In b (ch a) -> mem b) ->
  mem j -> good nm mem m -> dclosed nm ch m ->
  (exists m', rec j m = Ok m' /\ good nm mem m' /\ dclosed nm ch m' /\
     forall x, mem x -> (has nm m' x <-> has nm m x \/ greach ch j x)) ->
  exists m1, (if true && not_mapped m (nm j) j then rec j m else Ok m) = Ok m1 /\
    good nm mem (mset (nm j) j m1) /\ dclosed nm ch (mset (nm j) j m1) /\
    forall x, mem x -> (has nm (mset (nm j) j m1) x <-> has nm m x \/ x = j \/ greach ch j x).
Proof.
  intros Hinj Hch Hj Hg Hd Hrec. simpl andb.
  assert (exists m1, (if not_mapped m (nm j) j then rec j m else Ok m) = Ok m1 /\ good nm mem m1 /\ dclosed nm ch m1 /\
            (forall x, mem x -> (has nm m1 x <-> has nm m x \/ greach ch j x)) /\
            (forall w, greach ch j w -> has nm m1 w)) as (m1 & E1 & Hg1 & Hd1 & Hm1 & Hdesc).
  { destruct (not_mapped m (nm j) j) eqn:Enm.
    - destruct Hrec as (m1 & E & Hg1 & Hd1 & Hm1).
      exists m1. split; auto. split; auto. split; auto. split; auto.
      intros w Hw. apply Hm1; [eapply greach_mem; eauto | right; exact Hw].
    - assert (has nm m j) as Hhj.
      { unfold has. unfold not_mapped in Enm. destruct (mget (nm j) m) as [v|]; [|discriminate].
        apply negb_false_iff in Enm. apply Nat.eqb_eq in Enm. subst. reflexivity. }
      exists m. split; auto. split; auto. split; auto. split.
      + intros x Hx. split; auto. intros [H|H]; auto. apply (Hd j x Hhj H).
      + intros w Hw. apply (Hd j w Hhj Hw). }
  exists m1. split; auto.
  assert (Hg2 : good nm mem (mset (nm j) j m1)) by (apply good_mset; auto).
  split; auto. split.
  - intros v w Hv Hvw. pose proof (has_mem nm mem _ v Hg2 Hv) as Hmv.
    pose proof (greach_mem ch mem Hch v w Hmv Hvw) as Hmw.
    apply (has_mset nm mem Hinj m1 j w Hmw Hj). right.
    apply (has_mset nm mem Hinj m1 j v Hmv Hj) in Hv. destruct Hv as [->|Hv].
    + apply Hdesc. exact Hvw.
    + apply (Hd1 v w Hv Hvw).
  - intros x Hx. rewrite (has_mset nm mem Hinj m1 j x Hx Hj), (Hm1 x Hx). tauto.
Qed.

(* raw cell x is needed by cell i *)
Definition raw_needed (L : lib) (i x : nat) : Prop :=
  exists c r0, creach_refl L i c /\ In (ToRaw r0) (c_refs (cell_at L c)) /\ (x = r0 \/ rreach L r0 x).

Lemma raw_needed_unfold L i x :
  raw_needed L i x <->
  (exists r0, In (ToRaw r0) (c_refs (cell_at L i)) /\ (x = r0 \/ rreach L r0 x)) \/
  (exists j, In (ToCell j) (c_refs (cell_at L i)) /\ raw_needed L j x).
Proof.
  split.
  - intros (c & r0 & [<-|Hr] & Hin & Hx).
    + left. exists r0. auto.
    + right. apply creach_first in Hr. destruct Hr as (j & Hj & Hjc). exists j. split; [exact Hj|].
      exists c, r0. auto.
  - intros [(r0 & Hin & Hx)|(j & Hj & c & r0 & Hjc & Hin & Hx)].
    + exists i, r0. split; [left; reflexivity|]. auto.
    + exists c, r0. split; auto. eapply creach_refl_trans; [right; apply cr_step; exact Hj | exact Hjc].
Qed.

Section CellRawDeps.
  Variable L : lib.
  Hypothesis HWF : WF L.
  Hypothesis Hcl : closed L.

  Let memr := fun r => In r (l_rarr L).
  Let G := good (rname L) memr.
  Let D := dclosed (rname L) (rchildren L).
  Let H := has (rname L).

  Lemma rinj : forall a b, memr a -> memr b -> rname L a = rname L b -> a = b.
  Proof.
    destruct HWF as (_ & (_ & Hn2 & _) & _). intros a b Ha Hb E.
    apply (NoDup_map_inj (rname L) (l_rarr L) a b Hn2 Ha Hb E).
  Qed.

  Lemma rch : forall a b, memr a -> In b (rchildren L a) -> memr b.
  Proof. destruct Hcl as [_ Hcl2]. intros a b Ha Hb. apply (Hcl2 a b Ha Hb). Qed.

  Lemma rawrec_contract r m : memr r -> G m -> D m ->
    exists m', raw_deps (rfuel L) L true r m = Ok m' /\ G m' /\ D m' /\
      forall x, memr x -> (H m' x <-> H m x \/ rreach L r x).
  Proof.
    intros Hr Hg Hd. rewrite raw_deps_gdeps. unfold rfuel.
    apply (gdeps_rec_spec (rname L) (rchildren L) memr rinj rch); auto.
    apply hb_of_acyclic.
    - intros x Hx. destruct HWF as (Hids & _). apply (rreach_lt L x x Hids) in Hx. lia.
    - apply rchildren_valid.
  Qed.

  Definition cell_contract (rec : nat -> dmap -> outcome dmap) (j : nat) : Prop :=
    forall m, G m -> D m ->
      exists m', rec j m = Ok m' /\ G m' /\ D m' /\
        forall x, memr x -> (H m' x <-> H m x \/ raw_needed L j x).

  Lemma crdeps_loop_spec rec refs :
    (forall r, In (ToRaw r) refs -> memr r) ->
    (forall j, In (ToCell j) refs -> cell_contract rec j) ->
    forall m, G m -> D m ->
    exists m', crdeps_loop L (rfuel L) rec true refs m = Ok m' /\ G m' /\ D m' /\
      forall x, memr x ->
        (H m' x <-> H m x \/
           (exists r0, In (ToRaw r0) refs /\ (x = r0 \/ rreach L r0 x)) \/
           (exists j, In (ToCell j) refs /\ raw_needed L j x)).
  Proof.
    induction refs as [|t tl IH]; intros Hraw Hcell m Hg Hd.
    - simpl. exists m. split; auto. split; auto. split; auto. intros x _. split; auto.
      intros [Hx|[(r0 & [] & _)|(j & [] & _)]]. exact Hx.
    - assert (Hraw' : forall r, In (ToRaw r) tl -> memr r) by (intros r Hr; apply Hraw; right; exact Hr).
      assert (Hcell' : forall j, In (ToCell j) tl -> cell_contract rec j) by (intros j Hj; apply Hcell; right; exact Hj).
      destruct t as [j|r|s]; cbn [crdeps_loop andb].
      + (* Cell reference: recurse, unconditionally *)
        destruct (Hcell j (or_introl eq_refl) m Hg Hd) as (m1 & E1 & Hg1 & Hd1 & Hm1).
        rewrite E1. cbn [obind].
        destruct (IH Hraw' Hcell' m1 Hg1 Hd1) as (m' & E & Hg' & Hd' & Hm').
        exists m'. split; auto. split; auto. split; auto. intros x Hx.
        rewrite (Hm' x Hx), (Hm1 x Hx). split.
        * intros [[Hx0|Hx0]|[(r0 & Hr0 & Hx0)|(j0 & Hj0 & Hx0)]]; auto.
          -- right. right. exists j. simpl. auto.
          -- right. left. exists r0. simpl. auto.
          -- right. right. exists j0. simpl. auto.
        * intros [Hx0|[(r0 & [Hr0|Hr0] & Hx0)|(j0 & [Hj0|Hj0] & Hx0)]]; auto; try discriminate.
          -- right. left. exists r0. simpl. auto.
          -- inversion Hj0; subst. auto.
          -- right. right. exists j0. simpl. auto.
      + (* RawCell reference: the generic step *)
        assert (memr r) as Hr by (apply Hraw; left; reflexivity).
        destruct (gstep_spec (rname L) (rchildren L) memr (raw_deps (rfuel L) L true) r m rinj rch Hr Hg Hd
                    (rawrec_contract r m Hr Hg Hd)) as (m1 & E1 & Hg2 & Hd2 & Hm2).
        cbn [andb] in E1. rewrite E1. cbn [obind].
        destruct (IH Hraw' Hcell' _ Hg2 Hd2) as (m' & E & Hg' & Hd' & Hm').
        exists m'. split; auto. split; auto. split; auto. intros x Hx.
        unfold H in *. rewrite (Hm' x Hx), (Hm2 x Hx). split.
        * intros [[Hx0|Hx0]|[(r0 & Hr0 & Hx0)|(j0 & Hj0 & Hx0)]]; auto.
          -- right. left. exists r. simpl. auto.
          -- right. left. exists r0. simpl. auto.
          -- right. right. exists j0. simpl. auto.
        * intros [Hx0|[(r0 & [Hr0|Hr0] & Hx0)|(j0 & [Hj0|Hj0] & Hx0)]]; auto; try discriminate.
          -- inversion Hr0; subst. auto.
          -- right. left. exists r0. simpl. auto.
          -- right. right. exists j0. simpl. auto.
      + (* Name reference: skipped *)
        destruct (IH Hraw' Hcell' m Hg Hd) as (m' & E & Hg' & Hd' & Hm').
        exists m'. split; auto. split; auto. split; auto. intros x Hx. rewrite (Hm' x Hx). split.
        * intros [Hx0|[(r0 & Hr0 & Hx0)|(j0 & Hj0 & Hx0)]]; auto.
          -- right. left. exists r0. simpl. auto.
          -- right. right. exists j0. simpl. auto.
        * intros [Hx0|[(r0 & [Hr0|Hr0] & Hx0)|(j0 & [Hj0|Hj0] & Hx0)]]; auto; try discriminate.
          -- right. left. exists r0. simpl. auto.
          -- right. right. exists j0. simpl. auto.
  Qed.

  Lemma cell_raw_deps_spec : forall f i, hb (cchildren L) f i -> In i (l_carr L) ->
    cell_contract (cell_raw_deps f (rfuel L) L true) i.
  Proof.
    induction f as [|f IH]; intros i Hb Hi; [destruct Hb|]. intros m Hg Hd. simpl in *.
    destruct Hcl as [Hcl1 _].
    destruct (crdeps_loop_spec (cell_raw_deps f (rfuel L) L true) (c_refs (cell_at L i))) with (m := m)
      as (m' & E & Hg' & Hd' & Hm'); auto.
    - intros r Hr. apply (Hcl1 i _ Hi Hr).
    - intros j Hj. apply IH.
      + apply Hb. unfold cchildren. apply In_ctargets. exact Hj.
      + apply (Hcl1 i _ Hi Hj).
    - exists m'. split; auto. split; auto. split; auto. intros x Hx. rewrite (Hm' x Hx).
      rewrite (raw_needed_unfold L i x). tauto.
  Qed.
End CellRawDeps.

Lemma creach_member L i c : closed L -> In i (l_carr L) -> creach L i c -> In c (l_carr L).
Proof.
  intros [Hcl1 _] Hi H. induction H as [i j H|i j k H IH Hjk];
    [apply (Hcl1 i _ Hi H) | apply (Hcl1 j _ (IH Hi) Hjk)].
Qed.

Theorem raw_dependencies_of_cell_spec_lemma L i : WF L -> closed L -> In i (l_carr L) ->
  exists l, get_raw_dependencies L true i = Ok l /\ forall r, In r l <-> raw_needed L i r.
Proof.
  intros HWF Hcl Hi. pose proof HWF as (Hids & Hn & Ha). pose proof Hcl as [Hcl1 Hcl2].
  assert (Hb : hb (cchildren L) (cfuel L) i).
  { unfold cfuel. apply hb_of_acyclic.
    - intros x Hx. apply (Ha x). apply greach_creach. exact Hx.
    - intros a b Hab. unfold cchildren in Hab. apply In_ctargets in Hab. apply (cedge_valid L a b Hab). }
  destruct (cell_raw_deps_spec L HWF Hcl (cfuel L) i Hb Hi [] (good_nil _ _) (dclosed_nil _ _))
    as (m' & E & Hg' & _ & Hm').
  unfold get_raw_dependencies. rewrite E. simpl. eexists. split; [reflexivity|].
  intros r. unfold map_values. rewrite sort_nat_In, (vals_has _ _ m' r Hg'). split.
  - intros Hr. pose proof (has_mem _ _ m' r Hg' Hr) as Hx. apply (Hm' r Hx) in Hr.
    destruct Hr as [Hr|Hr]; [discriminate | exact Hr].
  - intros Hr. apply Hm'; [|right; exact Hr].
    destruct Hr as (c & r0 & Hic & Hin & Hx).
    assert (In c (l_carr L)) as Hc.
    { destruct Hic as [<-|Hic]; auto. apply (creach_member L i c Hcl Hi Hic). }
    pose proof (Hcl1 c _ Hc Hin) as Hr0. simpl in Hr0.
    destruct Hx as [->|Hx]; auto.
    apply (greach_mem (rchildren L) (fun r => In r (l_rarr L)) (fun a b Ha Hb => Hcl2 a b Ha Hb) r0 r Hr0 Hx).
Qed.

(* ========================================================================================== *)
Print Assumptions step_WF_lemma.
Print Assumptions run_WF_lemma.
Print Assumptions step_closed_lemma.
Print Assumptions run_WF_closed_lemma.
Print Assumptions history_lemma.
Print Assumptions rename_preserves_targets_lemma.
Print Assumptions replace_retargets_lemma.
Print Assumptions top_level_spec_lemma.
Print Assumptions dependencies_spec_lemma.
Print Assumptions raw_dependencies_spec_lemma.
Print Assumptions raw_dependencies_of_cell_direct_lemma.
Print Assumptions raw_dependencies_of_cell_spec_lemma.
Print Assumptions tags_spec_lemma.
Print Assumptions remap_spec_lemma.
Print Assumptions rename_nonmember_refuted.
Print Assumptions rename_collision_refuted.
Print Assumptions top_level_byname_refuted.
Print Assumptions top_level_after_remove_refuted.
Print Assumptions replace_name_match_refuted.
Print Assumptions replace_raw_deps_refuted.
Print Assumptions replace_self_cycle_refuted.
Print Assumptions copy_deep_refuted.
