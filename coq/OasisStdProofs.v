(* Proofs about coq/OasisStd.v (unit oas_std, C04 / C02): the standard properties of Library::write_oas.
     A. attach_std yields a well-formed library: oas_writer_conforms applies to the file WITH standard properties
     B. what the decoded file states: S_MAX_*_INTEGER_WIDTH, S_POLYGON_MAX_VERTICES, S_PATH_MAX_VERTICES, S_MAX_STRING_LENGTH
     C. S_TOP_CELL
     D. S_BOUNDING_BOX
     E. the second call
   Main results end in _lemma (restated in Properties_C04S.v); refutation witnesses in _refuted. *)
From Coq Require Import QArith Qround Lia Lqa Permutation.
Require Import Base Generated OasisInt OasisIntProofs GdsReal OasisReal OasisPlist Table PropList PropListProofs
               OasisSpec OasisSpecProofs OasisWrite OasisWriteProofs OasisStd.
Require BBox BBoxProofs Repetition RepetitionProofs BBoxRepLink.
Local Open Scope N_scope.

(* ================================================================== 0. small facts *)
Lemma take_max_is_max r len : take_max r len = N.max r len.
Proof.
  unfold take_max. destruct (r <? len) eqn:E.
  - apply N.ltb_lt in E. symmetry. apply N.max_r. lia.
  - apply N.ltb_ge in E. symmetry. apply N.max_l. lia.
Qed.

(* the maximum of a list above a floor, as the C++ loops compute it *)
Definition lmax (l : list N) (r : N) : N := fold_left N.max l r.
Lemma lmax_app a b r : lmax (a ++ b) r = lmax b (lmax a r).
Proof. unfold lmax. apply fold_left_app. Qed.
Lemma lmax_ge_floor l : forall r, r <= lmax l r.
Proof. induction l as [|x l IH]; intro r; cbn [lmax fold_left]; [lia|]. specialize (IH (N.max r x)). unfold lmax in IH. lia. Qed.
Lemma lmax_mono l : forall r r', r <= r' -> lmax l r <= lmax l r'.
Proof. induction l as [|x l IH]; intros r r' H; cbn [lmax fold_left]; [exact H|]. apply IH. lia. Qed.
Lemma lmax_ge_in l : forall r x, In x l -> x <= lmax l r.
Proof.
  induction l as [|y l IH]; intros r x H; [destruct H|]. cbn [lmax fold_left]. destruct H as [->|H].
  - pose proof (lmax_ge_floor l (N.max r x)) as G. unfold lmax in G. lia.
  - apply IH. exact H.
Qed.
Lemma lmax_attained l : forall r, lmax l r = r \/ In (lmax l r) l.
Proof.
  induction l as [|y l IH]; intro r; cbn [lmax fold_left]; [left; reflexivity|].
  destruct (IH (N.max r y)) as [E|E]; unfold lmax in *.
  - rewrite E. destruct (N.max_spec r y) as [[_ ->]|[_ ->]]; [right; left; reflexivity|left; reflexivity].
  - right. right. exact E.
Qed.
Lemma lmax_le l B : forall r, r <= B -> Forall (fun x => x <= B) l -> lmax l r <= B.
Proof.
  induction l as [|y l IH]; intros r Hr Hl; cbn [lmax fold_left]; [exact Hr|].
  inversion Hl; subst. apply IH; [lia|assumption].
Qed.
Lemma lmax_lt l B : forall r, r < B -> Forall (fun x => x < B) l -> lmax l r < B.
Proof.
  induction l as [|y l IH]; intros r Hr Hl; cbn [lmax fold_left]; [exact Hr|].
  inversion Hl; subst. apply IH; [lia|assumption].
Qed.
Lemma lmax_floor_absorb l r : Forall (fun x => x <= r) l -> lmax l r = r.
Proof.
  intro H. apply N.le_antisymm; [apply lmax_le; [lia|exact H]|apply lmax_ge_floor].
Qed.
(* the floor can be split off: max over the list and the floor *)
Lemma lmax_floor l : forall r, lmax l r = N.max r (lmax l 0).
Proof.
  induction l as [|y l IH]; intro r; cbn [lmax fold_left]; [lia|].
  unfold lmax in IH. rewrite (IH (N.max r y)), (IH (N.max 0 y)). lia.
Qed.
Lemma lmax_perm_incl l1 l2 r : incl l1 l2 -> lmax l1 r <= lmax l2 r.
Proof.
  intro H. destruct (lmax_attained l1 r) as [E|E]; [rewrite E; apply lmax_ge_floor|].
  apply lmax_ge_in. apply H. exact E.
Qed.

(* ================================================================== 1. max_string_length and the max-counts pass as maxima *)
Definition value_lens (vs : list value) : list N :=
  flat_map (fun v => match v with VStr s => [nlen s] | _ => [] end) vs.
Definition props_lens (ps : wprops) : list N := flat_map (fun p => nlen (fst p) :: value_lens (snd p)) ps.

Lemma msl_values_lmax vs : forall r, msl_values vs r = lmax (value_lens vs) r.
Proof.
  induction vs as [|v t IH]; intro r; [reflexivity|]. cbn [msl_values value_lens flat_map]. rewrite IH.
  destruct v; cbn [app]; try reflexivity. rewrite take_max_is_max. reflexivity.
Qed.
Lemma msl_from_lmax ps : forall r, msl_from ps r = lmax (props_lens ps) r.
Proof.
  induction ps as [|p t IH]; intro r; [reflexivity|]. cbn [msl_from props_lens flat_map]. rewrite IH, msl_values_lmax.
  rewrite take_max_is_max. change (nlen (fst p) :: value_lens (snd p)) with ([nlen (fst p)] ++ value_lens (snd p)).
  rewrite <- app_assoc, !lmax_app. reflexivity.
Qed.
Lemma max_string_length_lmax ps : max_string_length ps = lmax (props_lens ps) 0.
Proof. apply msl_from_lmax. Qed.

(* the lengths the pass looks at, per cell *)
Definition cell_string_lens (c : wcell) : list N :=
  nlen (cl_name c) :: props_lens (cl_props c) ++ flat_map (fun p => props_lens (py_props p)) (cl_polys c) ++
  flat_map (fun h => props_lens (ph_props h)) (cl_paths c) ++ flat_map (fun r => props_lens (rf_props r)) (cl_refs c) ++
  flat_map (fun t => nlen (lb_text t) :: props_lens (lb_props t)) (cl_labels c).
Definition cell_polygon_lens (c : wcell) : list N := map (fun p => nlen (py_pts p)) (cl_polys c).
(* element k (from 1) of a path with n > 1 spine points is seen with k * n points *)
Fixpoint element_lens (n : N) (els : list wpel) (tmp : N) : list N :=
  match els with [] => [] | _ :: t => ((tmp + n) mod two64) :: element_lens n t ((tmp + n) mod two64) end.
Definition path_lens (h : wpath) : list N :=
  if 1 <? nlen (ph_pts h) then element_lens (nlen (ph_pts h)) (ph_els h) 0 else [].
Definition cell_path_lens (c : wcell) : list N := flat_map path_lens (cl_paths c).

Lemma see_string_max m len : see_string m len = mkCounts (N.max (mc_string m) len) (mc_polygon m) (mc_path m).
Proof. unfold see_string. rewrite take_max_is_max. reflexivity. Qed.
Lemma see_polygon_max m len : see_polygon m len = mkCounts (mc_string m) (N.max (mc_polygon m) len) (mc_path m).
Proof. unfold see_polygon. rewrite take_max_is_max. reflexivity. Qed.
Lemma see_path_max m len : see_path m len = mkCounts (mc_string m) (mc_polygon m) (N.max (mc_path m) len).
Proof. unfold see_path. rewrite take_max_is_max. reflexivity. Qed.

Lemma see_props m ps : see_string m (max_string_length ps) = mkCounts (lmax (props_lens ps) (mc_string m)) (mc_polygon m) (mc_path m).
Proof. rewrite see_string_max, max_string_length_lmax, (lmax_floor (props_lens ps) (mc_string m)). reflexivity. Qed.

Lemma mc_elements_spec n els : forall tmp m,
  mc_elements n els tmp m = mkCounts (mc_string m) (mc_polygon m) (lmax (element_lens n els tmp) (mc_path m)).
Proof.
  induction els as [|e t IH]; intros tmp m; cbn [mc_elements element_lens]; [destruct m; reflexivity|].
  rewrite IH, see_path_max. reflexivity.
Qed.

Lemma fold_polys_spec l : forall m,
  fold_left mc_poly l m =
  mkCounts (lmax (flat_map (fun p => props_lens (py_props p)) l) (mc_string m))
           (lmax (map (fun p => nlen (py_pts p)) l) (mc_polygon m)) (mc_path m).
Proof.
  induction l as [|p t IH]; intro m; [destruct m; reflexivity|]. cbn [fold_left flat_map map]. rewrite IH.
  unfold mc_poly. rewrite see_props, see_polygon_max. cbn [mc_string mc_polygon mc_path]. rewrite lmax_app. reflexivity.
Qed.
Lemma mc_flexpath_spec m h :
  mc_flexpath m h = mkCounts (lmax (props_lens (ph_props h)) (mc_string m)) (mc_polygon m) (lmax (path_lens h) (mc_path m)).
Proof.
  unfold mc_flexpath, path_lens. rewrite see_props. destruct (1 <? nlen (ph_pts h)); [|reflexivity].
  rewrite mc_elements_spec. reflexivity.
Qed.
Lemma fold_paths_spec l : forall m,
  fold_left mc_flexpath l m =
  mkCounts (lmax (flat_map (fun h => props_lens (ph_props h)) l) (mc_string m)) (mc_polygon m)
           (lmax (flat_map path_lens l) (mc_path m)).
Proof.
  induction l as [|p t IH]; intro m; [destruct m; reflexivity|]. cbn [fold_left flat_map]. rewrite IH, mc_flexpath_spec.
  cbn [mc_string mc_polygon mc_path]. rewrite !lmax_app. reflexivity.
Qed.
Lemma fold_refs_spec l : forall m,
  fold_left mc_ref l m = mkCounts (lmax (flat_map (fun r => props_lens (rf_props r)) l) (mc_string m)) (mc_polygon m) (mc_path m).
Proof.
  induction l as [|p t IH]; intro m; [destruct m; reflexivity|]. cbn [fold_left flat_map]. rewrite IH. unfold mc_ref.
  rewrite see_props. cbn [mc_string mc_polygon mc_path]. rewrite lmax_app. reflexivity.
Qed.
Lemma fold_labels_spec l : forall m,
  fold_left mc_label l m =
  mkCounts (lmax (flat_map (fun t => nlen (lb_text t) :: props_lens (lb_props t)) l) (mc_string m)) (mc_polygon m) (mc_path m).
Proof.
  induction l as [|p t IH]; intro m; [destruct m; reflexivity|]. cbn [fold_left flat_map]. rewrite IH. unfold mc_label.
  rewrite see_props, see_string_max. cbn [mc_string mc_polygon mc_path].
  change (nlen (lb_text p) :: props_lens (lb_props p)) with ([nlen (lb_text p)] ++ props_lens (lb_props p)).
  rewrite <- app_assoc, !lmax_app. reflexivity.
Qed.
Lemma mc_cell_spec m c :
  mc_cell m c = mkCounts (lmax (cell_string_lens c) (mc_string m)) (lmax (cell_polygon_lens c) (mc_polygon m))
                         (lmax (cell_path_lens c) (mc_path m)).
Proof.
  unfold mc_cell. rewrite fold_labels_spec, fold_refs_spec, fold_paths_spec, fold_polys_spec, see_props, see_string_max.
  cbn [mc_string mc_polygon mc_path]. unfold cell_string_lens, cell_polygon_lens, cell_path_lens.
  change (nlen (cl_name c) :: ?x) with ([nlen (cl_name c)] ++ x). rewrite !lmax_app. reflexivity.
Qed.
Lemma fold_cells_spec l : forall m,
  fold_left mc_cell l m = mkCounts (lmax (flat_map cell_string_lens l) (mc_string m))
                                   (lmax (flat_map cell_polygon_lens l) (mc_polygon m))
                                   (lmax (flat_map cell_path_lens l) (mc_path m)).
Proof.
  induction l as [|c t IH]; intro m; [destruct m; reflexivity|]. cbn [fold_left flat_map]. rewrite IH, mc_cell_spec.
  cbn [mc_string mc_polygon mc_path]. rewrite !lmax_app. reflexivity.
Qed.

(* the pass, in closed form: three maxima *)
Theorem max_counts_spec_lemma : forall lprops cells,
  max_counts lprops cells =
  mkCounts (lmax (props_lens lprops ++ flat_map cell_string_lens cells) 28)
           (lmax (flat_map cell_polygon_lens cells) 0) (lmax (flat_map cell_path_lens cells) 0).
Proof.
  intros lprops cells. unfold max_counts. rewrite fold_cells_spec, see_props. cbn [mc_string mc_polygon mc_path].
  rewrite lmax_app. reflexivity.
Qed.

(* ================================================================== A. attach_std keeps the library well-formed *)
Lemma flat_map_map' {A B C} (g : A -> B) (f : B -> list C) l : flat_map f (map g l) = flat_map (fun x => f (g x)) l.
Proof. induction l as [|a l IH]; [reflexivity|]. cbn [map flat_map]. rewrite IH. reflexivity. Qed.

Lemma lower_cell_string_lens D c : cell_string_lens (lower_cell D c) = cell_string_lens c.
Proof.
  unfold cell_string_lens, lower_cell. cbn [cl_name cl_props cl_polys cl_paths cl_refs cl_labels].
  rewrite !flat_map_map'. reflexivity.
Qed.
Lemma lower_cell_polygon_lens D c : cell_polygon_lens (lower_cell D c) = cell_polygon_lens c.
Proof.
  unfold cell_polygon_lens, lower_cell. cbn [cl_polys]. rewrite map_map. apply map_ext. intro p.
  unfold lower_poly, nlen. cbn [py_pts]. rewrite map_length. reflexivity.
Qed.
Lemma element_lens_lower D n els : forall tmp, element_lens n (map (lower_pel D) els) tmp = element_lens n els tmp.
Proof. induction els as [|e t IH]; intro tmp; [reflexivity|]. cbn [map element_lens]. rewrite IH. reflexivity. Qed.
Lemma lower_cell_path_lens D c : cell_path_lens (lower_cell D c) = cell_path_lens c.
Proof.
  unfold cell_path_lens, lower_cell. cbn [cl_paths]. rewrite flat_map_map'. apply flat_map_ext. intro h.
  unfold path_lens, lower_path, nlen. cbn [ph_pts ph_els]. rewrite map_length, element_lens_lower. reflexivity.
Qed.

Definition text_ok (c : wcell) : Prop := Forall (fun t => wf_str (lb_text t)) (cl_labels c).
Definition box_fits (b : BBox.box) : Prop :=
  match box_values b with
  | [_; VInt x; VInt y; _; _] => fits63 x /\ fits63 y
  | _ => False
  end.

(* a well-formed input of write_oas with standard properties: the library as written on the grid is one of OasisWrite's
   covered subset, label texts are shorter than 2^64 bytes, the box corners fit an int64, the file is shorter than 2^64 *)
Definition std_ok (f : std_flags) (src : std_src) (l : wlib) : Prop :=
  wprops_ok (li_props l) /\ NoDup (map cl_name (li_cells l)) /\
  Forall wcell_okp (map (lower_cell (ss_den src)) (li_cells l)) /\
  Forall text_ok (li_cells l) /\
  (sf_bbox f = true -> Forall box_fits (std_boxes src (li_cells l))) /\
  forall cfg, N.of_nat (length (write_oas_model_std cfg f src l)) < two64.

Lemma rm_filter ps n : rm ps n = filter (fun e => negb (name_eqb (fst e) n)) ps.
Proof. reflexivity. Qed.
Lemma rm_incl ps n : incl (rm ps n) ps.
Proof. rewrite rm_filter. intros x Hx. apply filter_In in Hx. apply Hx. Qed.
Lemma set_property_new ps n v : set_property ps n v true = (n, [v]) :: ps.
Proof. reflexivity. Qed.
Lemma reset_property_eq ps n v : reset_property ps n v = (n, [v]) :: rm ps n.
Proof. reflexivity. Qed.
Lemma reset_is_replace ps n v : reset_property ps n v = replace_property ps n v.
Proof. reflexivity. Qed.

Lemma wprops_ok_incl ps qs : incl qs ps -> wprops_ok ps -> wprops_ok qs.
Proof. unfold wprops_ok. rewrite !Forall_forall. intros Hi H x Hx. apply H, Hi, Hx. Qed.
Lemma wprops_ok_rm ps n : wprops_ok ps -> wprops_ok (rm ps n).
Proof. apply wprops_ok_incl, rm_incl. Qed.
Lemma wprop_ok_single n v : wf_str n -> wval_ok v -> wprop_ok (n, [v]).
Proof.
  intros Hn Hv. split; [exact Hn|]. split; [unfold wf_u; cbn; rewrite two64_val; lia|]. constructor; [exact Hv|constructor].
Qed.
Lemma wprops_ok_reset ps n v : wf_str n -> wval_ok v -> wprops_ok ps -> wprops_ok (reset_property ps n v).
Proof.
  intros Hn Hv H. rewrite reset_property_eq. constructor; [apply wprop_ok_single; assumption|apply wprops_ok_rm; exact H].
Qed.

Lemma wf_str_short s : (length s <= 64)%nat -> wf_str s.
Proof. intro H. unfold wf_str. rewrite two64_val. lia. Qed.
Ltac reserved_wf := apply wf_str_short; cbn; lia.

Lemma attach_top_level_ok ps tops : Forall wf_str tops -> wprops_ok ps -> wprops_ok (attach_top_level ps tops).
Proof.
  intros Ht Hp. unfold attach_top_level.
  assert (G : forall tops acc, Forall wf_str tops -> wprops_ok acc ->
              wprops_ok (fold_left (fun ps nm => set_property ps s_top_level_name (VStr nm) true) tops acc)).
  { clear. induction tops as [|t ts IH]; intros acc Ht Ha; [exact Ha|]. cbn [fold_left]. inversion Ht; subst.
    apply IH; [assumption|]. rewrite set_property_new. constructor; [|exact Ha].
    apply wprop_ok_single; [reserved_wf|assumption]. }
  apply G; [exact Ht|apply wprops_ok_rm; exact Hp].
Qed.

Lemma top_from_incl d : forall l i, incl (top_from d i l) (map cl_name l).
Proof.
  induction l as [|c t IH]; intros i x Hx; [destruct Hx|]. cbn [top_from] in Hx. apply in_app_or in Hx.
  destruct Hx as [Hx|Hx]; [|right; apply (IH (S i)); exact Hx].
  destruct (dep_get d (cl_name c)) as [p|]; [destruct (rtarget_eqb p (RT_in i))|]; cbn in Hx; try tauto; left; tauto.
Qed.
Lemma top_cells_incl src cells : incl (top_cells src cells) (map cl_name cells).
Proof. apply top_from_incl. Qed.

(* every length the pass sees is below 2^64 *)
Lemma props_lens_lt ps : wprops_ok ps -> Forall (fun x => x < two64) (props_lens ps).
Proof.
  intro H. unfold props_lens. apply Forall_forall. intros x Hx. apply in_flat_map in Hx. destruct Hx as (p & Hp & Hx).
  unfold wprops_ok in H. rewrite Forall_forall in H. destruct (H p Hp) as (Hn & _ & Hv). destruct Hx as [<-|Hx]; [exact Hn|].
  unfold value_lens in Hx. apply in_flat_map in Hx. destruct Hx as (v & Hv' & Hx). rewrite Forall_forall in Hv.
  specialize (Hv v Hv'). destruct v as [n|z|b|s0]; cbn in Hx; try (destruct Hx; fail). destruct Hx as [<-|[]]. exact Hv.
Qed.
Lemma Forall_flat_map {A B} (P : B -> Prop) (f : A -> list B) l : (forall a, In a l -> Forall P (f a)) -> Forall P (flat_map f l).
Proof.
  intro H. apply Forall_forall. intros x Hx. apply in_flat_map in Hx. destruct Hx as (a & Ha & Hx).
  specialize (H a Ha). rewrite Forall_forall in H. apply H, Hx.
Qed.
Lemma cell_string_lens_lt c : wcell_okp c -> text_ok c -> Forall (fun x => x < two64) (cell_string_lens c).
Proof.
  intros (Hn & Hp & Hh & Hr & Hl & Hc) Ht. unfold cell_string_lens. constructor; [exact Hn|].
  repeat (apply Forall_app; split).
  - apply props_lens_lt, Hc.
  - apply Forall_flat_map. intros p Hi. rewrite Forall_forall in Hp. apply props_lens_lt, (Hp p Hi).
  - apply Forall_flat_map. intros p Hi. rewrite Forall_forall in Hh. apply props_lens_lt, (Hh p Hi).
  - apply Forall_flat_map. intros p Hi. rewrite Forall_forall in Hr. apply props_lens_lt, (Hr p Hi).
  - apply Forall_flat_map. intros p Hi. rewrite Forall_forall in Hl. unfold text_ok in Ht. rewrite Forall_forall in Ht.
    constructor; [apply (Ht p Hi)|apply props_lens_lt, (Hl p Hi)].
Qed.
Lemma cell_polygon_lens_lt c : wcell_okp c -> Forall (fun x => x < two64) (cell_polygon_lens c).
Proof.
  intros (_ & Hp & _). unfold cell_polygon_lens. apply Forall_forall. intros x Hx. apply in_map_iff in Hx.
  destruct Hx as (p & <- & Hi). rewrite Forall_forall in Hp. destruct (Hp p Hi) as ((_ & _ & _ & _ & H & _) & _). exact H.
Qed.
Lemma element_lens_lt n els : forall tmp, Forall (fun x => x < two64) (element_lens n els tmp).
Proof.
  induction els as [|e t IH]; intro tmp; cbn [element_lens]; constructor; [|apply IH].
  apply N.mod_lt. rewrite two64_val. discriminate.
Qed.
Lemma cell_path_lens_lt c : Forall (fun x => x < two64) (cell_path_lens c).
Proof.
  unfold cell_path_lens. apply Forall_flat_map. intros h _. unfold path_lens. destruct (1 <? nlen (ph_pts h)); [|constructor].
  apply element_lens_lt.
Qed.

Lemma text_ok_lower D c : text_ok c -> text_ok (lower_cell D c).
Proof.
  unfold text_ok, lower_cell. cbn [cl_labels]. rewrite !Forall_forall. intros H t Ht. apply in_map_iff in Ht.
  destruct Ht as (t0 & <- & Ht0). apply (H t0 Ht0).
Qed.

Lemma max_counts_wf D lprops cells : wprops_ok lprops -> Forall wcell_okp (map (lower_cell D) cells) -> Forall text_ok cells ->
  let m := max_counts lprops cells in wf_u (mc_string m) /\ wf_u (mc_polygon m) /\ wf_u (mc_path m).
Proof.
  intros Hp Hc Ht. cbv zeta. rewrite max_counts_spec_lemma. cbn [mc_string mc_polygon mc_path]. unfold wf_u.
  rewrite Forall_forall in Hc, Ht.
  assert (Hl : forall c, In c cells -> wcell_okp (lower_cell D c)) by (intros c Hi; apply Hc, in_map, Hi).
  split; [|split].
  - apply lmax_lt; [rewrite two64_val; lia|]. apply Forall_app. split; [apply props_lens_lt, Hp|].
    apply Forall_flat_map. intros c Hi. rewrite <- (lower_cell_string_lens D).
    apply cell_string_lens_lt; [apply Hl, Hi|apply text_ok_lower, Ht, Hi].
  - apply lmax_lt; [rewrite two64_val; lia|]. apply Forall_flat_map. intros c Hi. rewrite <- (lower_cell_polygon_lens D).
    apply cell_polygon_lens_lt, Hl, Hi.
  - apply lmax_lt; [rewrite two64_val; lia|]. apply Forall_flat_map. intros c Hi. apply cell_path_lens_lt.
Qed.

Lemma attach_max_counts_ok D lprops cells : wprops_ok lprops -> Forall wcell_okp (map (lower_cell D) cells) -> Forall text_ok cells ->
  wprops_ok (attach_max_counts lprops cells).
Proof.
  intros Hp Hc Ht. destruct (max_counts_wf D lprops cells Hp Hc Ht) as (H1 & H2 & H3). unfold attach_max_counts.
  assert (W8 : wf_u 8) by (unfold wf_u; rewrite two64_val; lia).
  repeat (apply wprops_ok_reset; [reserved_wf|try exact W8; try exact H1; try exact H2; try exact H3|]). exact Hp.
Qed.

Lemma attach_lib_props_ok f src l : std_ok f src l -> wprops_ok (attach_lib_props f src l).
Proof.
  intros (Hp & Hn & Hc & Ht & _). unfold attach_lib_props.
  assert (Hnames : Forall wf_str (map cl_name (li_cells l))).
  { apply Forall_forall. intros x Hx. apply in_map_iff in Hx. destruct Hx as (c & <- & Hi). rewrite Forall_forall in Hc.
    destruct (Hc (lower_cell (ss_den src) c) (in_map _ _ _ Hi)) as (H & _). exact H. }
  assert (H1 : wprops_ok (if sf_top_level f then attach_top_level (li_props l) (top_cells src (li_cells l)) else li_props l)).
  { destruct (sf_top_level f); [|exact Hp]. apply attach_top_level_ok; [|exact Hp].
    rewrite Forall_forall in *. intros x Hx. apply Hnames, (top_cells_incl src), Hx. }
  set (p1 := if sf_top_level f then _ else _) in *.
  assert (H2 : wprops_ok (if sf_bbox f then reset_property p1 s_bounding_box_available_name (VUInt 2) else p1)).
  { destruct (sf_bbox f); [|exact H1]. apply wprops_ok_reset; [reserved_wf|unfold wval_ok, wf_u; rewrite two64_val; lia|exact H1]. }
  set (p2 := if sf_bbox f then _ else _) in *.
  destruct (sf_max_counts f); [|exact H2]. apply (attach_max_counts_ok (ss_den src)); assumption.
Qed.

(* the cell-level entry *)
Lemma box_values_shape b : exists x y w h, box_values b = [VUInt 0; VInt x; VInt y; VUInt w; VUInt h] /\ wf_u w /\ wf_u h.
Proof.
  unfold box_values. destruct (match b with BBox.Inverted => _ | BBox.Box x0 y0 x1 y1 => _ end) as [[[x0 y0] x1] y1].
  do 4 eexists. split; [reflexivity|]. unfold wf_u, u64z. rewrite two64_val. split; lia.
Qed.
Lemma attach_bbox_fields c b :
  cl_name (attach_bbox c b) = cl_name c /\ cl_polys (attach_bbox c b) = cl_polys c /\ cl_paths (attach_bbox c b) = cl_paths c /\
  cl_refs (attach_bbox c b) = cl_refs c /\ cl_labels (attach_bbox c b) = cl_labels c /\
  cl_props (attach_bbox c b) = (s_bounding_box_name, box_values b) :: rm (cl_props c) s_bounding_box_name.
Proof.
  destruct (box_values_shape b) as (x & y & w & h & E & _). unfold attach_bbox. rewrite E. cbn [cl_name cl_polys cl_paths cl_refs cl_labels cl_props].
  repeat split; reflexivity.
Qed.
Lemma attach_bbox_okp c b : wcell_okp c -> box_fits b -> wcell_okp (attach_bbox c b).
Proof.
  intros (H0 & H1 & H2 & H3 & H4 & H5) Hb. destruct (attach_bbox_fields c b) as (E0 & E1 & E2 & E3 & E4 & E5).
  unfold wcell_okp. rewrite E0, E1, E2, E3, E4, E5. repeat split; try assumption.
  destruct (box_values_shape b) as (x & y & w & h & E & Hw & Hh). unfold box_fits in Hb. rewrite E in *.
  constructor; [|apply wprops_ok_rm, H5].
  split; [reserved_wf|]. split; [unfold wf_u; cbn; rewrite two64_val; lia|].
  destruct Hb as (Hx & Hy). cbn [snd]. constructor; [cbn [wval_ok]; unfold wf_u; rewrite two64_val; lia|].
  constructor; [exact Hx|]. constructor; [exact Hy|]. constructor; [exact Hw|]. constructor; [exact Hh|constructor].
Qed.
Lemma attach_bboxes_names : forall cells boxes, map cl_name (attach_bboxes cells boxes) = map cl_name cells.
Proof.
  induction cells as [|c t IH]; intros boxes; [reflexivity|]. destruct boxes as [|b bt]; [reflexivity|].
  cbn [attach_bboxes map]. rewrite IH. destruct (attach_bbox_fields c b) as (-> & _). reflexivity.
Qed.
Lemma attach_bboxes_okp : forall cells boxes, Forall wcell_okp cells -> Forall box_fits boxes -> Forall wcell_okp (attach_bboxes cells boxes).
Proof.
  induction cells as [|c t IH]; intros boxes Hc Hb; [constructor|]. destruct boxes as [|b bt]; [exact Hc|].
  cbn [attach_bboxes]. inversion Hc; subst. inversion Hb; subst. constructor; [apply attach_bbox_okp; assumption|apply IH; assumption].
Qed.
Lemma lower_cells_names D cells : map cl_name (map (lower_cell D) cells) = map cl_name cells.
Proof. rewrite map_map. reflexivity. Qed.

Theorem attach_std_ok_lemma : forall f src l, std_ok f src l -> wlib_ok (attach_std f src l).
Proof.
  intros f src l H. pose proof (attach_lib_props_ok f src l H) as Hlp. destruct H as (Hp & Hn & Hc & Ht & Hb & Hlen).
  unfold wlib_ok, attach_std. cbn [li_props li_cells]. split; [exact Hlp|]. split; [|split].
  - destruct (sf_bbox f); [rewrite attach_bboxes_names|]; rewrite lower_cells_names; exact Hn.
  - destruct (sf_bbox f); [|exact Hc]. apply attach_bboxes_okp; [exact Hc|apply Hb; reflexivity].
  - intro cfg. apply (Hlen cfg).
Qed.

(* the converse direction of C04 for the file WITH standard properties: the strict decoder accepts what the model writes
   and decodes it to the library that was saved, standard properties attached where attach_std puts them *)
Theorem std_writer_conforms_lemma : forall cfg f src l, std_ok f src l ->
  spec_oas_decode (write_oas_model_std cfg f src l) = Some (view_w cfg (attach_std f src l)).
Proof. intros cfg f src l H. unfold write_oas_model_std. apply oas_writer_conforms_lemma, attach_std_ok_lemma, H. Qed.

(* ================================================================== B. MAX_COUNTS: what the decoded file states *)
(* the library-level list the pass reads: TOP_LEVEL and BOUNDING_BOXES_AVAILABLE are attached before it *)
Definition props_before_counts (f : std_flags) (src : std_src) (l : wlib) : wprops :=
  let p1 := if sf_top_level f then attach_top_level (li_props l) (top_cells src (li_cells l)) else li_props l in
  if sf_bbox f then reset_property p1 s_bounding_box_available_name (VUInt 2) else p1.
Definition std_counts (f : std_flags) (src : std_src) (l : wlib) : counts :=
  max_counts (props_before_counts f src l) (li_cells l).
Definition max_names : list (list N) :=
  [s_max_int_size_name; s_max_uint_size_name; s_max_string_size_name; s_max_polygon_name; s_max_path_name].
Definition named_in (ns : list (list N)) (n : list N) : bool := existsb (name_eqb n) ns.

Lemma rm_cons x ps n : rm (x :: ps) n = if name_eqb (fst x) n then rm ps n else x :: rm ps n.
Proof. rewrite !rm_filter. cbn [filter]. destruct (name_eqb (fst x) n); reflexivity. Qed.
Lemma rm_not_named ps n e : In e (rm ps n) -> name_eqb (fst e) n = false.
Proof. rewrite rm_filter. intro H. apply filter_In in H. destruct H as (_ & H). apply negb_true_iff in H. exact H. Qed.

(* order of the START-level PROPERTY records under MAX_COUNTS: path, polygon, string, unsigned width, signed width, then
   everything else, none of which carries one of the five names *)
Lemma attach_max_counts_shape lprops cells :
  let m := max_counts lprops cells in
  exists rest,
    attach_max_counts lprops cells =
      (s_max_path_name, [VUInt (mc_path m)]) :: (s_max_polygon_name, [VUInt (mc_polygon m)]) ::
      (s_max_string_size_name, [VUInt (mc_string m)]) :: (s_max_uint_size_name, [VUInt 8]) :: (s_max_int_size_name, [VUInt 8]) :: rest /\
    incl rest lprops /\ (forall e, In e rest -> named_in max_names (fst e) = false).
Proof.
  cbv zeta. unfold attach_max_counts. set (m := max_counts lprops cells).
  exists (rm (rm (rm (rm (rm lprops s_max_int_size_name) s_max_uint_size_name) s_max_string_size_name) s_max_polygon_name) s_max_path_name).
  split; [|split].
  - rewrite !reset_property_eq. repeat (rewrite rm_cons; match goal with |- context [name_eqb ?a ?b] => change (name_eqb a b) with false end; cbv iota).
    reflexivity.
  - intros e He. repeat (apply rm_incl in He). exact He.
  - intros e He. unfold named_in, max_names. cbn [existsb].
    pose proof (rm_not_named _ _ _ He) as E5. apply rm_incl in He. pose proof (rm_not_named _ _ _ He) as E4. apply rm_incl in He.
    pose proof (rm_not_named _ _ _ He) as E3. apply rm_incl in He. pose proof (rm_not_named _ _ _ He) as E2. apply rm_incl in He.
    pose proof (rm_not_named _ _ _ He) as E1. unfold name in *. rewrite E1, E2, E3, E4, E5. reflexivity.
Qed.

Definition uint_prop (n : list N) (v : N) : prop := mkProp (NName n) false [PV_uint v].
Definition prop_named_in (ns : list (list N)) (p : prop) : bool :=
  match p_name p with NName s => named_in ns s | NNum _ => false end.

Theorem std_max_counts_stated_lemma : forall cfg f src l, sf_max_counts f = true ->
  let m := std_counts f src l in
  exists rest,
    l_props (view_w cfg (attach_std f src l)) =
      uint_prop s_max_path_name (mc_path m) :: uint_prop s_max_polygon_name (mc_polygon m) ::
      uint_prop s_max_string_size_name (mc_string m) :: uint_prop s_max_uint_size_name 8 :: uint_prop s_max_int_size_name 8 :: rest /\
    forall p, In p rest -> prop_named_in max_names p = false.
Proof.
  intros cfg f src l Hf. cbv zeta. unfold view_w, attach_std. cbn [l_props li_props]. unfold attach_lib_props. rewrite Hf.
  fold (props_before_counts f src l).
  destruct (attach_max_counts_shape (props_before_counts f src l) (li_cells l)) as (rest & E & _ & Hr).
  rewrite E. exists (view_props rest). split; [reflexivity|].
  intros p Hp. unfold view_props in Hp. apply in_map_iff in Hp. destruct Hp as (e & <- & He). apply (Hr e He).
Qed.

(* ------------------------------------------------------------------ the records of the decoded layout *)
Definition elem_polygon_count (ep : element * list prop) : list N :=
  match fst ep with E_poly _ _ pts _ _ _ => [N.of_nat (S (length pts))] | _ => [] end.   (* the initial vertex and the deltas *)
Definition elem_path_count (ep : element * list prop) : list N :=
  match fst ep with E_path _ _ _ _ _ pts _ _ _ => [N.of_nat (S (length pts))] | _ => [] end.
Definition layout_polygon_counts (L : layout) : list N := flat_map (fun c => flat_map elem_polygon_count (c_elems c)) (l_cells L).
Definition layout_path_counts (L : layout) : list N := flat_map (fun c => flat_map elem_path_count (c_elems c)) (l_cells L).

Lemma rel_pts_count pts : pts <> [] -> N.of_nat (S (length (rel_pts pts))) = nlen pts.
Proof. intro H. unfold rel_pts, nlen. rewrite map_length. destruct pts; [contradiction|reflexivity]. Qed.

Lemma flat_map_nil {A B} (f : A -> list B) l : (forall a, In a l -> f a = []) -> flat_map f l = [].
Proof. induction l as [|a l IH]; intro H; [reflexivity|]. cbn [flat_map]. rewrite (H a (or_introl eq_refl)), IH; [reflexivity|]. intros b Hb. apply H. right. exact Hb. Qed.

Lemma view_path_polygon h : flat_map elem_polygon_count (view_path h) = [].
Proof.
  unfold view_path. destruct (length (ph_pts h) <? 2)%nat; [reflexivity|]. apply flat_map_nil. intros a Ha.
  apply in_map_iff in Ha. destruct Ha as (el & <- & _). reflexivity.
Qed.
Lemma view_cell_polygon_counts cfg names offs c : Forall (fun p => py_pts p <> []) (cl_polys c) ->
  flat_map elem_polygon_count (c_elems (view_cell cfg names offs c)) = cell_polygon_lens c.
Proof.
  intro H. unfold view_cell. cbn [c_elems]. rewrite !flat_map_app.
  rewrite (flat_map_nil elem_polygon_count (flat_map view_path (cl_paths c))).
  2:{ intros a Ha. apply in_flat_map in Ha. destruct Ha as (h & _ & Ha). unfold view_path in Ha.
      destruct (length (ph_pts h) <? 2)%nat; [destruct Ha|]. apply in_map_iff in Ha. destruct Ha as (el & <- & _). reflexivity. }
  rewrite (flat_map_nil elem_polygon_count (map view_ref (cl_refs c))).
  2:{ intros a Ha. apply in_map_iff in Ha. destruct Ha as (r & <- & _). reflexivity. }
  rewrite (flat_map_nil elem_polygon_count (map view_label (cl_labels c))).
  2:{ intros a Ha. apply in_map_iff in Ha. destruct Ha as (r & <- & _). reflexivity. }
  rewrite !app_nil_r. unfold cell_polygon_lens. induction (cl_polys c) as [|p t IH]; [reflexivity|].
  inversion H; subst. cbn [map flat_map]. rewrite IH by assumption. unfold elem_polygon_count at 1. cbn [view_poly fst].
  rewrite rel_pts_count by assumption. reflexivity.
Qed.

(* the PATH records of one FlexPath: one per element, each with every spine point *)
Definition path_record_lens (h : wpath) : list N :=
  if (length (ph_pts h) <? 2)%nat then [] else map (fun _ => nlen (ph_pts h)) (ph_els h).
Lemma view_path_counts h : flat_map elem_path_count (view_path h) = path_record_lens h.
Proof.
  unfold view_path, path_record_lens. destruct (length (ph_pts h) <? 2)%nat eqn:E; [reflexivity|].
  apply Nat.ltb_ge in E. induction (ph_els h) as [|el t IH]; [reflexivity|]. cbn [map flat_map]. rewrite IH.
  unfold elem_path_count at 1. cbn [view_path_element fst]. rewrite rel_pts_count; [reflexivity|].
  intro Z. rewrite Z in E. cbn in E. lia.
Qed.
Lemma view_cell_path_counts cfg names offs c :
  flat_map elem_path_count (c_elems (view_cell cfg names offs c)) = flat_map path_record_lens (cl_paths c).
Proof.
  unfold view_cell. cbn [c_elems]. rewrite !flat_map_app.
  rewrite (flat_map_nil elem_path_count (map view_poly (cl_polys c))).
  2:{ intros a Ha. apply in_map_iff in Ha. destruct Ha as (r & <- & _). reflexivity. }
  rewrite (flat_map_nil elem_path_count (map view_ref (cl_refs c))).
  2:{ intros a Ha. apply in_map_iff in Ha. destruct Ha as (r & <- & _). reflexivity. }
  rewrite (flat_map_nil elem_path_count (map view_label (cl_labels c))).
  2:{ intros a Ha. apply in_map_iff in Ha. destruct Ha as (r & <- & _). reflexivity. }
  rewrite !app_nil_r. cbn [app]. induction (cl_paths c) as [|h t IH]; [reflexivity|]. cbn [flat_map]. rewrite flat_map_app, IH, view_path_counts.
  reflexivity.
Qed.

(* attach_bboxes touches the property lists only *)
Lemma attach_bboxes_map {A} (g : wcell -> A) : (forall c b, g (attach_bbox c b) = g c) ->
  forall cells boxes, map g (attach_bboxes cells boxes) = map g cells.
Proof.
  intros Hg. induction cells as [|c t IH]; intros boxes; [reflexivity|]. destruct boxes as [|b bt]; [reflexivity|].
  cbn [attach_bboxes map]. rewrite IH, Hg. reflexivity.
Qed.
Lemma flat_map_as_map {A B} (f : A -> list B) l : flat_map f l = concat (map f l).
Proof. apply flat_map_concat_map. Qed.

Definition std_cells (f : std_flags) (src : std_src) (l : wlib) : list wcell := li_cells (attach_std f src l).
Lemma std_cells_map {A} (g : wcell -> A) f src l : (forall c b, g (attach_bbox c b) = g c) ->
  map g (std_cells f src l) = map (fun c => g (lower_cell (ss_den src) c)) (li_cells l).
Proof.
  intro Hg. unfold std_cells, attach_std. cbn [li_cells]. destruct (sf_bbox f); [rewrite (attach_bboxes_map g Hg)|]; apply map_map.
Qed.

Lemma polys_nonempty_of_ok c : wcell_okp c -> Forall (fun p => py_pts p <> []) (cl_polys c).
Proof.
  intros (_ & H & _). rewrite Forall_forall in *. intros p Hp. destruct (H p Hp) as ((_ & _ & Hn & _) & _). exact Hn.
Qed.

Lemma layout_polygon_counts_std cfg f src l : std_ok f src l ->
  layout_polygon_counts (view_w cfg (attach_std f src l)) = flat_map cell_polygon_lens (li_cells l).
Proof.
  intro H. pose proof (attach_std_ok_lemma f src l H) as (_ & _ & Hc & _).
  unfold layout_polygon_counts, view_w. cbn [l_cells]. rewrite flat_map_map'.
  fold (std_cells f src l) in Hc |- *.
  transitivity (flat_map cell_polygon_lens (std_cells f src l)).
  - rewrite !flat_map_as_map. f_equal. apply map_ext_in. intros c Hi. apply view_cell_polygon_counts, polys_nonempty_of_ok.
    rewrite Forall_forall in Hc. apply Hc, Hi.
  - rewrite !flat_map_as_map. f_equal. rewrite (std_cells_map cell_polygon_lens).
    + apply map_ext. intro c. apply lower_cell_polygon_lens.
    + intros c b. unfold cell_polygon_lens. destruct (attach_bbox_fields c b) as (_ & -> & _). reflexivity.
Qed.

(* S_POLYGON_MAX_VERTICES is the maximum vertex count over all POLYGON records of the decoded file (0 without any) *)
Theorem std_polygon_max_truth_lemma : forall cfg f src l L, std_ok f src l -> sf_max_counts f = true ->
  spec_oas_decode (write_oas_model_std cfg f src l) = Some L ->
  let v := mc_polygon (std_counts f src l) in
  In (uint_prop s_max_polygon_name v) (l_props L) /\
  v = lmax (layout_polygon_counts L) 0 /\
  (forall n, In n (layout_polygon_counts L) -> n <= v) /\
  (layout_polygon_counts L <> [] -> In v (layout_polygon_counts L)).
Proof.
  intros cfg f src l L Hok Hf Hdec. cbv zeta. rewrite (std_writer_conforms_lemma cfg f src l Hok) in Hdec. injection Hdec as <-.
  destruct (std_max_counts_stated_lemma cfg f src l Hf) as (rest & E & _). cbv zeta in E.
  assert (V : mc_polygon (std_counts f src l) = lmax (layout_polygon_counts (view_w cfg (attach_std f src l))) 0).
  { rewrite (layout_polygon_counts_std cfg f src l Hok). unfold std_counts. rewrite max_counts_spec_lemma. reflexivity. }
  split; [rewrite E; right; left; reflexivity|]. split; [exact V|]. split.
  - intros n Hn. rewrite V. apply lmax_ge_in, Hn.
  - intro Hne. rewrite V. destruct (lmax_attained (layout_polygon_counts (view_w cfg (attach_std f src l))) 0) as [Z|I]; [|exact I].
    destruct (layout_polygon_counts (view_w cfg (attach_std f src l))) as [|x t] eqn:El; [contradiction|].
    pose proof (lmax_ge_in (x :: t) 0 x (or_introl eq_refl)) as G. rewrite Z in G. assert (x = 0) by lia. subst x. rewrite Z. left. reflexivity.
Qed.

(* ------------------------------------------------------------------ S_PATH_MAX_VERTICES *)
Lemma element_lens_head n els : n < two64 -> els <> [] -> In n (element_lens n els 0).
Proof.
  intros Hn He. destruct els as [|e t]; [contradiction|]. cbn [element_lens]. left. rewrite N.add_0_l. apply N.mod_small, Hn.
Qed.
Lemma nat_ltb_nlen {A} (l : list A) : (length l <? 2)%nat = negb (1 <? nlen l).
Proof.
  unfold nlen. destruct (length l <? 2)%nat eqn:E.
  - apply Nat.ltb_lt in E. symmetry. apply negb_true_iff, N.ltb_ge. lia.
  - apply Nat.ltb_ge in E. symmetry. apply negb_false_iff, N.ltb_lt. lia.
Qed.
Lemma path_record_in_lens h : nlen (ph_pts h) < two64 -> incl (path_record_lens h) (path_lens h).
Proof.
  intros Hn x Hx. unfold path_record_lens in Hx. unfold path_lens. rewrite nat_ltb_nlen in Hx.
  destruct (1 <? nlen (ph_pts h)); cbn [negb] in Hx; [|destruct Hx].
  apply in_map_iff in Hx. destruct Hx as (el & <- & Hel). apply element_lens_head; [exact Hn|].
  intro Z. rewrite Z in Hel. destruct Hel.
Qed.
Lemma path_record_eq_lens h : nlen (ph_pts h) < two64 -> (length (ph_els h) <= 1)%nat -> path_record_lens h = path_lens h.
Proof.
  intros Hn H1. unfold path_record_lens, path_lens. rewrite nat_ltb_nlen. destruct (1 <? nlen (ph_pts h)); cbn [negb]; [|reflexivity].
  destruct (ph_els h) as [|e [|e2 t]]; [reflexivity| |cbn in H1; lia]. cbn [map element_lens]. rewrite N.add_0_l, N.mod_small by exact Hn.
  reflexivity.
Qed.

Lemma lower_path_record_lens D h : path_record_lens (lower_path D h) = path_record_lens h.
Proof. unfold path_record_lens, lower_path, nlen. cbn [ph_pts ph_els]. rewrite !map_length, map_map. reflexivity. Qed.

Lemma layout_path_counts_std cfg f src l :
  layout_path_counts (view_w cfg (attach_std f src l)) = flat_map (fun c => flat_map path_record_lens (cl_paths c)) (li_cells l).
Proof.
  unfold layout_path_counts, view_w. cbn [l_cells]. rewrite flat_map_map'. fold (std_cells f src l).
  transitivity (flat_map (fun c => flat_map path_record_lens (cl_paths c)) (std_cells f src l)).
  - apply flat_map_ext. intro c. apply view_cell_path_counts.
  - rewrite !flat_map_as_map. f_equal. rewrite (std_cells_map (fun c => flat_map path_record_lens (cl_paths c))).
    + apply map_ext. intro c. unfold lower_cell. cbn [cl_paths]. rewrite flat_map_map'. apply flat_map_ext. intro h. apply lower_path_record_lens.
    + intros c b. destruct (attach_bbox_fields c b) as (_ & _ & -> & _). reflexivity.
Qed.

Lemma paths_short_of_ok D c : wcell_okp (lower_cell D c) -> forall h, In h (cl_paths c) -> nlen (ph_pts h) < two64.
Proof.
  intros (_ & _ & H & _) h Hh. rewrite Forall_forall in H. destruct (H (lower_path D h)) as ((_ & _ & Hn & _) & _).
  - unfold lower_cell. cbn [cl_paths]. apply in_map, Hh.
  - unfold lower_path in Hn. cbn [ph_pts] in Hn. rewrite map_length in Hn. exact Hn.
Qed.

(* S_PATH_MAX_VERTICES is stated and is not below any PATH record of the decoded file; it is the maximum when no path has
   more than one element *)
Theorem std_path_max_truth_lemma : forall cfg f src l L, std_ok f src l -> sf_max_counts f = true ->
  spec_oas_decode (write_oas_model_std cfg f src l) = Some L ->
  let v := mc_path (std_counts f src l) in
  In (uint_prop s_max_path_name v) (l_props L) /\
  (forall n, In n (layout_path_counts L) -> n <= v) /\
  ((forall c h, In c (li_cells l) -> In h (cl_paths c) -> (length (ph_els h) <= 1)%nat) -> v = lmax (layout_path_counts L) 0).
Proof.
  intros cfg f src l L Hok Hf Hdec. cbv zeta. rewrite (std_writer_conforms_lemma cfg f src l Hok) in Hdec. injection Hdec as <-.
  destruct (std_max_counts_stated_lemma cfg f src l Hf) as (rest & E & _). cbv zeta in E.
  assert (V : mc_path (std_counts f src l) = lmax (flat_map cell_path_lens (li_cells l)) 0).
  { unfold std_counts. rewrite max_counts_spec_lemma. reflexivity. }
  destruct Hok as (_ & _ & Hc & _). rewrite Forall_forall in Hc.
  assert (Hs : forall c h, In c (li_cells l) -> In h (cl_paths c) -> nlen (ph_pts h) < two64).
  { intros c h Hi Hh. apply (paths_short_of_ok (ss_den src) c); [apply Hc, in_map, Hi|exact Hh]. }
  split; [rewrite E; left; reflexivity|]. rewrite layout_path_counts_std. split.
  - intros n Hn. rewrite V. apply lmax_ge_in. apply in_flat_map in Hn. destruct Hn as (c & Hi & Hn). apply in_flat_map in Hn.
    destruct Hn as (h & Hh & Hn). apply in_flat_map. exists c. split; [exact Hi|]. unfold cell_path_lens. apply in_flat_map. exists h.
    split; [exact Hh|]. apply (path_record_in_lens h (Hs c h Hi Hh)), Hn.
  - intro H1. rewrite V. f_equal. rewrite !flat_map_as_map. f_equal. apply map_ext_in. intros c Hi. unfold cell_path_lens.
    rewrite !flat_map_as_map. f_equal. apply map_ext_in. intros h Hh. symmetry. apply path_record_eq_lens; [apply (Hs c h Hi Hh)|apply (H1 c h Hi Hh)].
Qed.

(* ------------------------------------------------------------------ S_MAX_STRING_LENGTH *)
(* every string of the decoded layout except the cell names inside PLACEMENT records *)
Definition pval_strings (v : pval) : list (list N) := match v with PV_str _ s => [s] | _ => [] end.
Definition prop_strings (p : prop) : list (list N) :=
  (match p_name p with NName s => [s] | NNum _ => [] end) ++ flat_map pval_strings (p_vals p).
Definition elem_strings (ep : element * list prop) : list (list N) :=
  (match fst ep with E_text (NName s) _ _ _ _ _ => [s] | _ => [] end) ++ flat_map prop_strings (snd ep).
Definition cell_strings (c : cell) : list (list N) :=
  (match c_name c with NName s => [s] | NNum _ => [] end) ++ flat_map prop_strings (c_props c) ++ flat_map elem_strings (c_elems c).
Definition layout_strings (L : layout) : list (list N) := flat_map prop_strings (l_props L) ++ flat_map cell_strings (l_cells L).
(* ... and those *)
Definition elem_placement_names (ep : element * list prop) : list (list N) :=
  match fst ep with E_place (NName s) _ _ _ _ _ => [s] | _ => [] end.
Definition layout_placement_names (L : layout) : list (list N) :=
  flat_map (fun c => flat_map elem_placement_names (c_elems c)) (l_cells L).

Definition short (B : N) (s : list N) : Prop := nlen s <= B.

Lemma view_props_short B ps : Forall (fun x => x <= B) (props_lens ps) -> Forall (short B) (flat_map prop_strings (view_props ps)).
Proof.
  intro H. unfold view_props. rewrite flat_map_map'. apply Forall_flat_map. intros p Hp.
  assert (Hl : Forall (fun x => x <= B) (nlen (fst p) :: value_lens (snd p))).
  { rewrite Forall_forall in *. intros x Hx. apply H. unfold props_lens. apply in_flat_map. exists p. split; assumption. }
  inversion Hl as [|? ? Hn Hv]; subst. unfold prop_strings, view_prop. cbn [p_name p_vals]. constructor; [exact Hn|].
  rewrite flat_map_map'. apply Forall_flat_map. intros v Hv'. destruct v; cbn; try constructor; [|constructor].
  rewrite Forall_forall in Hv. apply Hv. unfold value_lens. apply in_flat_map. exists (VStr bytes). split; [exact Hv'|left; reflexivity].
Qed.

Lemma props_lens_incl ps qs : incl qs ps -> incl (props_lens qs) (props_lens ps).
Proof.
  intros H x Hx. unfold props_lens in *. apply in_flat_map in Hx. destruct Hx as (p & Hp & Hx). apply in_flat_map. exists p.
  split; [apply H, Hp|exact Hx].
Qed.
Lemma Forall_incl {A} (P : A -> Prop) l1 l2 : incl l1 l2 -> Forall P l2 -> Forall P l1.
Proof. rewrite !Forall_forall. intros Hi H x Hx. apply H, Hi, Hx. Qed.

(* the cell-level lists that are written: S_CELL_OFFSET / S_BOUNDING_BOX in front of a sublist of the user's list *)
Lemma cellname_props_lens B cfg c off : 28 <= B -> Forall (fun x => x <= B) (props_lens (cl_props c)) ->
  Forall (fun x => x <= B) (props_lens (cellname_props cfg c off)).
Proof.
  intros HB H. unfold cellname_props. destruct (cfg_cell_offset cfg); [|exact H]. unfold replace_property.
  cbn [props_lens flat_map fst snd value_lens app]. constructor; [cbn; lia|].
  eapply Forall_incl; [|exact H]. apply props_lens_incl. intros x Hx. apply filter_In in Hx. apply Hx.
Qed.
Lemma attach_bbox_props_lens B c b : 28 <= B -> Forall (fun x => x <= B) (props_lens (cl_props c)) ->
  Forall (fun x => x <= B) (props_lens (cl_props (attach_bbox c b))).
Proof.
  intros HB H. destruct (attach_bbox_fields c b) as (_ & _ & _ & _ & _ & ->). destruct (box_values_shape b) as (x & y & w & h & -> & _).
  cbn [props_lens flat_map fst snd value_lens app]. constructor; [cbn; lia|].
  eapply Forall_incl; [|exact H]. apply props_lens_incl, rm_incl.
Qed.

Lemma view_cell_strings_short B cfg names offs c : 28 <= B -> Forall (fun x => x <= B) (cell_string_lens c) ->
  Forall (short B) (cell_strings (view_cell cfg names offs c)).
Proof.
  intros HB H. unfold cell_string_lens in H. inversion H as [|? ? Hn Hr]; subst.
  apply Forall_app in Hr. destruct Hr as (Hp & Hr). apply Forall_app in Hr. destruct Hr as (Hpo & Hr).
  apply Forall_app in Hr. destruct Hr as (Hpa & Hr). apply Forall_app in Hr. destruct Hr as (Hre & Hla).
  unfold cell_strings, view_cell. cbn [c_name c_props c_elems]. constructor; [exact Hn|]. apply Forall_app. split.
  - apply view_props_short, cellname_props_lens; assumption.
  - rewrite !flat_map_app. repeat (apply Forall_app; split).
    + rewrite flat_map_map'. apply Forall_flat_map. intros p Hi. unfold elem_strings, view_poly. cbn [fst snd app].
      apply view_props_short. eapply Forall_incl; [|exact Hpo]. intros x Hx. apply in_flat_map. exists p. split; assumption.
    + apply Forall_flat_map. intros ep Hep. apply in_flat_map in Hep. destruct Hep as (h & Hh & Hep). unfold view_path in Hep.
      destruct (length (ph_pts h) <? 2)%nat; [destruct Hep|]. apply in_map_iff in Hep. destruct Hep as (el & <- & _).
      unfold elem_strings, view_path_element. cbn [fst snd app]. apply view_props_short. eapply Forall_incl; [|exact Hpa].
      intros x Hx. apply in_flat_map. exists h. split; assumption.
    + rewrite flat_map_map'. apply Forall_flat_map. intros p Hi. unfold elem_strings, view_ref. cbn [fst snd app].
      apply view_props_short. eapply Forall_incl; [|exact Hre]. intros x Hx. apply in_flat_map. exists p. split; assumption.
    + rewrite flat_map_map'. apply Forall_flat_map. intros p Hi. unfold elem_strings, view_label. cbn [fst snd].
      assert (Hl : Forall (fun x => x <= B) (nlen (lb_text p) :: props_lens (lb_props p))).
      { eapply Forall_incl; [|exact Hla]. intros x Hx. apply in_flat_map. exists p. split; assumption. }
      inversion Hl; subst. constructor; [assumption|]. apply view_props_short. assumption.
Qed.

Lemma cell_string_lens_attach B c b : 28 <= B -> Forall (fun x => x <= B) (cell_string_lens c) ->
  Forall (fun x => x <= B) (cell_string_lens (attach_bbox c b)).
Proof.
  intros HB H. unfold cell_string_lens in *. pose proof (attach_bbox_props_lens B c b HB) as Hp.
  destruct (attach_bbox_fields c b) as (-> & -> & -> & -> & -> & _). inversion H as [|? ? Hn Hr]; subst.
  apply Forall_app in Hr. destruct Hr as (Hp0 & Hr). constructor; [exact Hn|]. apply Forall_app. split; [apply Hp, Hp0|exact Hr].
Qed.
Lemma attach_bboxes_in B : forall cells boxes, 28 <= B ->
  Forall (fun c => Forall (fun x => x <= B) (cell_string_lens c)) cells ->
  Forall (fun c => Forall (fun x => x <= B) (cell_string_lens c)) (attach_bboxes cells boxes).
Proof.
  induction cells as [|c t IH]; intros boxes HB H; [constructor|]. destruct boxes as [|b bt]; [exact H|]. cbn [attach_bboxes].
  inversion H; subst. constructor; [apply cell_string_lens_attach; assumption|apply IH; assumption].
Qed.

(* S_MAX_STRING_LENGTH is stated and bounds the length of every cell name, text string, property name and property
   string of the decoded file *)
Theorem std_string_max_truth_lemma : forall cfg f src l L, std_ok f src l -> sf_max_counts f = true ->
  spec_oas_decode (write_oas_model_std cfg f src l) = Some L ->
  let v := mc_string (std_counts f src l) in
  In (uint_prop s_max_string_size_name v) (l_props L) /\ 28 <= v /\
  forall s, In s (layout_strings L) -> nlen s <= v.
Proof.
  intros cfg f src l L Hok Hf Hdec. cbv zeta. rewrite (std_writer_conforms_lemma cfg f src l Hok) in Hdec. injection Hdec as <-.
  destruct (std_max_counts_stated_lemma cfg f src l Hf) as (rest & E & _). cbv zeta in E.
  set (v := mc_string (std_counts f src l)).
  assert (V : v = lmax (props_lens (props_before_counts f src l) ++ flat_map cell_string_lens (li_cells l)) 28).
  { unfold v, std_counts. rewrite max_counts_spec_lemma. reflexivity. }
  assert (HB : 28 <= v) by (rewrite V; apply lmax_ge_floor).
  assert (Hall : Forall (fun x => x <= v) (props_lens (props_before_counts f src l) ++ flat_map cell_string_lens (li_cells l))).
  { apply Forall_forall. intros x Hx. rewrite V. apply lmax_ge_in, Hx. }
  apply Forall_app in Hall. destruct Hall as (Hlp & Hcs).
  split; [rewrite E; right; right; left; reflexivity|]. split; [exact HB|].
  apply Forall_forall. unfold layout_strings. apply Forall_app. split.
  - (* library level: the five new entries and a sublist of the list the pass read *)
    unfold view_w, attach_std. cbn [l_props li_props]. apply view_props_short. unfold attach_lib_props. rewrite Hf.
    fold (props_before_counts f src l).
    destruct (attach_max_counts_shape (props_before_counts f src l) (li_cells l)) as (rest' & E' & Hi & _). rewrite E'.
    cbn [props_lens flat_map fst snd value_lens app].
    repeat (constructor; [cbn; lia|]). eapply Forall_incl; [apply props_lens_incl, Hi|exact Hlp].
  - unfold view_w. cbn [l_cells]. rewrite flat_map_map'. apply Forall_flat_map. intros c Hc.
    apply view_cell_strings_short; [exact HB|].
    assert (G : Forall (fun c => Forall (fun x => x <= v) (cell_string_lens c)) (li_cells (attach_std f src l))).
    { unfold attach_std. cbn [li_cells].
      assert (G0 : Forall (fun c => Forall (fun x => x <= v) (cell_string_lens c)) (map (lower_cell (ss_den src)) (li_cells l))).
      { apply Forall_forall. intros c' Hc'. apply in_map_iff in Hc'. destruct Hc' as (c0 & <- & Hc0). rewrite lower_cell_string_lens.
        eapply Forall_incl; [|exact Hcs]. intros x Hx. apply in_flat_map. exists c0. split; assumption. }
      destruct (sf_bbox f); [apply attach_bboxes_in; assumption|exact G0]. }
    rewrite Forall_forall in G. apply G, Hc.
Qed.

(* ================================================================== C. S_TOP_CELL *)
Lemma rtarget_eqb_eq a b : rtarget_eqb a b = true <-> a = b.
Proof.
  destruct a, b; cbn [rtarget_eqb]; try (split; [discriminate|discriminate]); try (split; reflexivity);
    rewrite Nat.eqb_eq; split; [intros ->; reflexivity|intros [= ->]; reflexivity|intros ->; reflexivity|intros [= ->]; reflexivity].
Qed.

(* which pairs the dependency map was given *)
Lemma get_dependencies_in cells outs ks : forall d k p,
  In (k, p) (get_dependencies cells outs ks d) <->
  In (k, p) d \/ (In p ks /\ p <> RT_name /\ k = target_name cells outs p).
Proof.
  induction ks as [|t ts IH]; intros d k p; cbn [get_dependencies].
  - split; [intro H; left; exact H|intros [H|(H & _)]; [exact H|destruct H]].
  - rewrite IH. destruct t as [|i|j]; unfold dep_set; cbn [In].
    + split; [intros [H|(H & Hn & E)]; [left; exact H|right; split; [right; exact H|split; assumption]]|].
      intros [H|([H|H] & Hn & E)]; [left; exact H|subst p; contradiction|right; split; [exact H|split; assumption]].
    + split.
      * intros [[H|H]|(H & Hn & E)]; [injection H as <- <-; right; split; [left; reflexivity|split; [discriminate|reflexivity]]|left; exact H|].
        right. split; [right; exact H|split; assumption].
      * intros [H|([H|H] & Hn & E)]; [left; right; exact H|subst p k; left; left; reflexivity|right; split; [exact H|split; assumption]].
    + split.
      * intros [[H|H]|(H & Hn & E)]; [injection H as <- <-; right; split; [left; reflexivity|split; [discriminate|reflexivity]]|left; exact H|].
        right. split; [right; exact H|split; assumption].
      * intros [H|([H|H] & Hn & E)]; [left; right; exact H|subst p k; left; left; reflexivity|right; split; [exact H|split; assumption]].
Qed.
Lemma all_dependencies_in cells outs kinds k p :
  In (k, p) (all_dependencies cells outs kinds) <->
  exists ks, In ks kinds /\ In p ks /\ p <> RT_name /\ k = target_name cells outs p.
Proof.
  unfold all_dependencies.
  assert (G : forall kinds d, In (k, p) (fold_left (fun d ks => get_dependencies cells outs ks d) kinds d) <->
              In (k, p) d \/ exists ks, In ks kinds /\ In p ks /\ p <> RT_name /\ k = target_name cells outs p).
  { clear kinds. induction kinds as [|ks t IH]; intro d; cbn [fold_left].
    - split; [intro H; left; exact H|intros [H|(ks & [] & _)]; exact H].
    - rewrite IH, get_dependencies_in. split.
      + intros [[H|H]|(ks' & Hi & H)]; [left; exact H|right; exists ks; split; [left; reflexivity|exact H]|right; exists ks'; split; [right; exact Hi|exact H]].
      + intros [H|(ks' & [<-|Hi] & H)]; [left; left; exact H|left; right; exact H|right; exists ks'; split; [exact Hi|exact H]]. }
  rewrite G. split; [intros [[]|H]; exact H|intro H; right; exact H].
Qed.

Lemma dep_get_some d k p : dep_get d k = Some p -> In (k, p) d.
Proof.
  induction d as [|[k' c] t IH]; cbn [dep_get]; [discriminate|]. destruct (name_eqb k' k) eqn:E.
  - intros [= <-]. apply name_eqb_eq in E. subst k'. left. reflexivity.
  - intro H. right. apply IH, H.
Qed.
Lemma dep_get_none d k : dep_get d k = None -> forall p, ~ In (k, p) d.
Proof.
  induction d as [|[k' c] t IH]; cbn [dep_get]; [intros _ p []|]. destruct (name_eqb k' k) eqn:E; [discriminate|].
  intros H p [Hp|Hp]; [injection Hp as -> _; rewrite name_eqb_refl in E; discriminate|apply (IH H p Hp)].
Qed.

(* the second loop of top_level, cell by cell *)
Lemma top_from_in d nm : forall l i0,
  In nm (top_from d i0 l) <->
  exists j c, nth_error l j = Some c /\ cl_name c = nm /\ dep_get d nm <> Some (RT_in (i0 + j)).
Proof.
  induction l as [|c t IH]; intro i0; cbn [top_from].
  - split; [intros []|intros (j & c & H & _); destruct j; discriminate].
  - rewrite in_app_iff, IH. split.
    + intros [H|(j & c' & Hj & Hn & Hd)].
      * exists 0%nat, c. rewrite Nat.add_0_r. destruct (dep_get d (cl_name c)) as [p|] eqn:E.
        -- destruct (rtarget_eqb p (RT_in i0)) eqn:Er; [destruct H|]. destruct H as [<-|[]].
           split; [reflexivity|split; [reflexivity|]]. rewrite E. intros [= ->]. rewrite (proj2 (rtarget_eqb_eq _ _) eq_refl) in Er. discriminate.
        -- destruct H as [<-|[]]. split; [reflexivity|split; [reflexivity|]]. rewrite E. discriminate.
      * exists (S j), c'. split; [exact Hj|split; [exact Hn|]]. rewrite Nat.add_succ_r. exact Hd.
    + intros ([|j] & c' & Hj & Hn & Hd).
      * injection Hj as <-. left. rewrite Nat.add_0_r in Hd. rewrite Hn. destruct (dep_get d nm) as [p|] eqn:E.
        -- destruct (rtarget_eqb p (RT_in i0)) eqn:Er; [apply rtarget_eqb_eq in Er; subst p; exfalso; apply Hd; reflexivity|left; reflexivity].
        -- left. reflexivity.
      * right. exists j, c'. split; [exact Hj|split; [exact Hn|]]. rewrite Nat.add_succ_r in Hd. exact Hd.
Qed.

(* what Library::top_level is told beyond the library on the grid *)
Definition target_in_range (src : std_src) (l : wlib) (k : rtarget) : Prop :=
  match k with
  | RT_name => True
  | RT_in i => (i < length (li_cells l))%nat
  | RT_out j => (j < length (ss_outside src))%nat
  end.
(* one row of kinds per cell, every Cell pointer points to an existing object, all Cell objects (inside and outside the
   library) have different names *)
Definition src_ok (src : std_src) (l : wlib) : Prop :=
  length (ss_kinds src) = length (li_cells l) /\
  NoDup (map cl_name (li_cells l ++ ss_outside src)) /\
  forall ks k, In ks (ss_kinds src) -> In k ks -> target_in_range src l k.
(* some Cell-typed reference of the library points to cell i *)
Definition designated (src : std_src) (i : nat) : Prop := exists ks, In ks (ss_kinds src) /\ In (RT_in i) ks.

Definition tindex (cells : list wcell) (t : rtarget) : nat :=
  match t with RT_in i => i | RT_out j => length cells + j | RT_name => 0 end.
Lemma target_name_nth src l t : t <> RT_name -> target_in_range src l t ->
  target_name (li_cells l) (ss_outside src) t = nth (tindex (li_cells l) t) (map cl_name (li_cells l ++ ss_outside src)) [] /\
  (tindex (li_cells l) t < length (map cl_name (li_cells l ++ ss_outside src)))%nat.
Proof.
  intros Hn Hr. rewrite map_length, app_length. destruct t as [|i|j]; [contradiction| |]; cbn [target_name tindex target_in_range] in *.
  - split; [|lia]. change [] with (cl_name wcell0). rewrite map_nth, app_nth1 by exact Hr. reflexivity.
  - split; [|lia]. change [] with (cl_name wcell0). rewrite map_nth, app_nth2 by lia. f_equal. f_equal. lia.
Qed.
Lemma target_name_inj src l t t' : NoDup (map cl_name (li_cells l ++ ss_outside src)) ->
  t <> RT_name -> t' <> RT_name -> target_in_range src l t -> target_in_range src l t' ->
  target_name (li_cells l) (ss_outside src) t = target_name (li_cells l) (ss_outside src) t' -> t = t'.
Proof.
  intros Hnd Hn Hn' Hr Hr' E. destruct (target_name_nth src l t Hn Hr) as (E1 & L1). destruct (target_name_nth src l t' Hn' Hr') as (E2 & L2).
  rewrite E1, E2 in E. pose proof (proj1 (NoDup_nth _ []) Hnd _ _ L1 L2 E) as Ei.
  destruct t as [|i|j], t' as [|i'|j']; try contradiction; cbn [tindex target_in_range] in *; try (f_equal; lia); exfalso; lia.
Qed.

(* Library::top_level returns exactly the cells of the library that no Cell-typed reference of the library points to *)
Theorem top_cells_truth_lemma : forall src l nm, src_ok src l ->
  (In nm (top_cells src (li_cells l)) <->
   exists i c, nth_error (li_cells l) i = Some c /\ cl_name c = nm /\ ~ designated src i).
Proof.
  intros src l nm (Hlen & Hnd & Hr). unfold top_cells. rewrite top_from_in. cbn [Nat.add].
  split; intros (i & c & Hi & Hn & H); exists i, c; (split; [exact Hi|split; [exact Hn|]]).
  - intros (ks & Hks & Hin). apply H.
    assert (Hin_d : In (nm, RT_in i) (all_dependencies (li_cells l) (ss_outside src) (ss_kinds src))).
    { apply all_dependencies_in. exists ks. split; [exact Hks|split; [exact Hin|split; [discriminate|]]]. cbn [target_name].
      rewrite <- Hn. symmetry. f_equal. apply nth_error_nth, Hi. }
    destruct (dep_get _ nm) as [p|] eqn:E; [|exfalso; apply (dep_get_none _ _ E _ Hin_d)].
    apply dep_get_some in E. apply all_dependencies_in in E. destruct E as (ks' & Hks' & Hin' & Hnn & En). f_equal.
    apply (target_name_inj src l); try assumption; try discriminate; [apply (Hr ks' p Hks' Hin')|apply (Hr ks _ Hks Hin)|].
    rewrite <- En. cbn [target_name]. rewrite <- Hn. f_equal. symmetry. apply nth_error_nth, Hi.
  - intro E. apply H. apply dep_get_some in E. apply all_dependencies_in in E. destruct E as (ks & Hks & Hin & _). exists ks. split; assumption.
Qed.

(* the S_TOP_CELL strings of a layout, in the order of the PROPERTY records *)
Definition layout_top_cells (L : layout) : list (list N) :=
  flat_map (fun p => match p_name p with
                     | NName s => if name_eqb s s_top_level_name then flat_map pval_strings (p_vals p) else []
                     | NNum _ => []
                     end) (l_props L).
Definition value_strs (vs : list value) : list (list N) := flat_map (fun v => match v with VStr s => [s] | _ => [] end) vs.
Definition top_strs (ps : wprops) : list (list N) :=
  flat_map (fun e => if name_eqb (fst e) s_top_level_name then value_strs (snd e) else []) ps.
Lemma layout_top_cells_view ps u cs : layout_top_cells (mkLayout u (view_props ps) cs) = top_strs ps.
Proof.
  unfold layout_top_cells, top_strs, view_props. cbn [l_props]. rewrite flat_map_map'. apply flat_map_ext. intro e.
  unfold view_prop. cbn [p_name p_vals]. destruct (name_eqb (fst e) s_top_level_name); [|reflexivity].
  rewrite flat_map_map'. unfold value_strs. apply flat_map_ext. intro v. destruct v; reflexivity.
Qed.
Lemma top_strs_rm ps n : name_eqb n s_top_level_name = false -> top_strs (rm ps n) = top_strs ps.
Proof.
  intro Hn. rewrite rm_filter. unfold top_strs. induction ps as [|x t IH]; [reflexivity|]. cbn [filter flat_map].
  destruct (name_eqb (fst x) n) eqn:E; cbn [negb flat_map]; rewrite IH; [|reflexivity].
  apply name_eqb_eq in E. unfold name in *. rewrite E, Hn. reflexivity.
Qed.
Lemma top_strs_rm_top ps : top_strs (rm ps s_top_level_name) = [].
Proof.
  unfold top_strs. apply flat_map_nil. intros e He. apply rm_not_named in He. unfold name in *. rewrite He. reflexivity.
Qed.
Lemma top_strs_cons_other n vs ps : name_eqb n s_top_level_name = false -> top_strs ((n, vs) :: ps) = top_strs ps.
Proof. intro H. unfold top_strs. cbn [flat_map fst]. rewrite H. reflexivity. Qed.
Lemma top_strs_attach ps tops : top_strs (attach_top_level ps tops) = rev tops.
Proof.
  unfold attach_top_level.
  assert (G : forall tops acc, top_strs (fold_left (fun ps nm => set_property ps s_top_level_name (VStr nm) true) tops acc) = rev tops ++ top_strs acc).
  { clear. induction tops as [|t ts IH]; intro acc; [reflexivity|]. cbn [fold_left rev]. rewrite IH, set_property_new, <- app_assoc. f_equal. }
  rewrite G, top_strs_rm_top, app_nil_r. reflexivity.
Qed.
Lemma top_strs_reset ps n v : name_eqb n s_top_level_name = false -> top_strs (reset_property ps n v) = top_strs ps.
Proof. intro H. rewrite reset_property_eq, top_strs_cons_other, top_strs_rm by exact H. reflexivity. Qed.

(* S_TOP_CELL of the decoded file: one string per top cell (last cell first), and a cell is listed exactly when no
   Cell-typed reference of the library points to it *)
Theorem std_top_cell_truth_lemma : forall cfg f src l L, std_ok f src l -> src_ok src l -> sf_top_level f = true ->
  spec_oas_decode (write_oas_model_std cfg f src l) = Some L ->
  layout_top_cells L = rev (top_cells src (li_cells l)) /\
  forall nm, In nm (layout_top_cells L) <->
             exists i c, nth_error (li_cells l) i = Some c /\ cl_name c = nm /\ ~ designated src i.
Proof.
  intros cfg f src l L Hok Hsrc Hf Hdec. rewrite (std_writer_conforms_lemma cfg f src l Hok) in Hdec. injection Hdec as <-.
  assert (E : layout_top_cells (view_w cfg (attach_std f src l)) = rev (top_cells src (li_cells l))).
  { unfold view_w. rewrite layout_top_cells_view. unfold attach_std. cbn [li_props]. unfold attach_lib_props. rewrite Hf.
    assert (E2 : top_strs (if sf_bbox f then reset_property (attach_top_level (li_props l) (top_cells src (li_cells l)))
                                                    s_bounding_box_available_name (VUInt 2)
                           else attach_top_level (li_props l) (top_cells src (li_cells l))) = rev (top_cells src (li_cells l))).
    { destruct (sf_bbox f); [rewrite top_strs_reset by reflexivity|]; apply top_strs_attach. }
    destruct (sf_max_counts f); [|exact E2]. unfold attach_max_counts. rewrite !top_strs_reset by reflexivity. exact E2. }
  split; [exact E|]. intro nm. rewrite E, <- in_rev. apply top_cells_truth_lemma, Hsrc.
Qed.

(* ================================================================== D. S_BOUNDING_BOX *)
Local Open Scope Q_scope.
Lemma qle_bool_false x y : Qle_bool x y = false -> y < x.
Proof. intro H. apply Qnot_le_lt. intro G. apply Qle_bool_iff in G. congruence. Qed.
Lemma llround_comp x y : x == y -> llround x = llround y.
Proof.
  intro H. unfold llround.
  assert (E1 : Qle_bool 0 x = Qle_bool 0 y) by (rewrite H; reflexivity).
  assert (E2 : Qfloor (x + (1 # 2)) = Qfloor (y + (1 # 2))) by (rewrite H; reflexivity).
  assert (E3 : Qfloor (- x + (1 # 2)) = Qfloor (- y + (1 # 2))) by (rewrite H; reflexivity).
  rewrite E1, E2, E3. reflexivity.
Qed.
(* llround is monotone: rounding the least coordinate gives the least rounded coordinate *)
Lemma llround_mono x y : x <= y -> (llround x <= llround y)%Z.
Proof.
  intro H. unfold llround. destruct (Qle_bool 0 x) eqn:Ex; destruct (Qle_bool 0 y) eqn:Ey.
  - apply Qfloor_resp_le. lra.
  - apply Qle_bool_iff in Ex. apply qle_bool_false in Ey. lra.
  - apply qle_bool_false in Ex. apply Qle_bool_iff in Ey.
    assert (A : (0 <= Qfloor (- x + (1 # 2)))%Z) by (change 0%Z with (Qfloor 0); apply Qfloor_resp_le; lra).
    assert (B : (0 <= Qfloor (y + (1 # 2)))%Z) by (change 0%Z with (Qfloor 0); apply Qfloor_resp_le; lra).
    lia.
  - apply qle_bool_false in Ex. apply qle_bool_false in Ey.
    assert (A : (Qfloor (- y + (1 # 2)) <= Qfloor (- x + (1 # 2)))%Z) by (apply Qfloor_resp_le; lra). lia.
Qed.
Lemma llround_inject z : llround (inject_Z z) = z.
Proof.
  unfold llround. destruct (Qle_bool 0 (inject_Z z)) eqn:E.
  - unfold Qfloor, Qplus, inject_Z. cbn [Qnum Qden]. change (Z.pos (1 * 2)) with 2%Z.
    symmetry. apply Z.div_unique with (r := 1%Z); lia.
  - unfold Qfloor, Qplus, Qopp, inject_Z. cbn [Qnum Qden]. change (Z.pos (1 * 2)) with 2%Z.
    assert (H : ((- z * 2 + 1 * 1) / 2 = - z)%Z) by (symmetry; apply Z.div_unique with (r := 1%Z); lia).
    rewrite H. lia.
Qed.
(* denominator 1: the library is on the grid and the writer stores it as it is *)
Lemma zr_one z : zr 1 z = z.
Proof. apply llround_inject. Qed.
Local Close Scope Q_scope.

Lemma map_id_ext {A} (g : A -> A) l : (forall a, g a = a) -> map g l = l.
Proof. intro H. rewrite (map_ext g (fun a => a) H). apply map_id. Qed.
Lemma zrp_one p : zrp 1 p = p.
Proof. destruct p. unfold zrp. cbn [fst snd]. rewrite !zr_one. reflexivity. Qed.
Lemma lower_rep_one r : lower_rep 1 r = r.
Proof. destruct r; cbn [lower_rep]; rewrite ?zr_one, ?zrp_one, ?(map_id_ext _ _ zrp_one), ?(map_id_ext _ _ zr_one); reflexivity. Qed.
Lemma nr_one n : nr 1 n = n.
Proof. unfold nr. rewrite zr_one. apply N2Z.id. Qed.
Theorem lower_cell_one_lemma : forall c, lower_cell 1 c = c.
Proof.
  intros [nm polys paths refs labels ps]. unfold lower_cell. cbn [cl_name cl_polys cl_paths cl_refs cl_labels cl_props]. f_equal.
  - apply map_id_ext. intros [a b pts r pr]. unfold lower_poly. cbn. rewrite lower_rep_one, (map_id_ext _ _ zrp_one). reflexivity.
  - apply map_id_ext. intros [els pts r pr]. unfold lower_path. cbn [ph_els ph_pts ph_rep ph_props].
    rewrite lower_rep_one, (map_id_ext _ _ zrp_one). f_equal. apply map_id_ext. intros [a b hw e]. unfold lower_pel. cbn [pe_layer pe_type pe_hw pe_end].
    rewrite nr_one. f_equal. destruct e; cbn [lower_end]; rewrite ?zr_one; reflexivity.
  - apply map_id_ext. intros r. destruct r. unfold lower_ref. cbn. rewrite lower_rep_one, !zr_one. reflexivity.
  - apply map_id_ext. intros r. destruct r. unfold lower_label. cbn. rewrite lower_rep_one, !zr_one. reflexivity.
Qed.

(* ------------------------------------------------------------------ D.1 where the values are stated *)
Definition bbox_prop (b : BBox.box) : prop := mkProp (NName s_bounding_box_name) false (map view_value (box_values b)).

Lemma cell_boxes_length : forall trees ch, length (cell_boxes trees ch) = length trees.
Proof.
  induction trees as [|c t IH]; intro ch; [reflexivity|]. cbn [cell_boxes]. destruct (BBox.cell_query hull_unused false c ch) as [info ch'].
  cbn [length]. rewrite IH. reflexivity.
Qed.
Lemma lib_trees_length D : forall cells i kinds outs, length (lib_trees D i cells kinds outs) = length cells.
Proof. induction cells as [|c t IH]; intros i kinds outs; [reflexivity|]. cbn [lib_trees length]. rewrite IH. reflexivity. Qed.
Lemma std_boxes_length src cells : length (std_boxes src cells) = length cells.
Proof. unfold std_boxes, std_trees. rewrite cell_boxes_length, map_length, lib_trees_length. reflexivity. Qed.

Lemma attach_bboxes_nth : forall cells boxes i c b, nth_error cells i = Some c -> nth_error boxes i = Some b ->
  nth_error (attach_bboxes cells boxes) i = Some (attach_bbox c b).
Proof.
  induction cells as [|c0 t IH]; intros boxes i c b Hc Hb; [destruct i; discriminate|]. destruct boxes as [|b0 bt]; [destruct i; discriminate|].
  destruct i as [|i]; cbn [nth_error attach_bboxes] in *; [injection Hc as <-; injection Hb as <-; reflexivity|apply IH; assumption].
Qed.

Lemma in_rm ps n e : In e ps -> name_eqb (fst e) n = false -> In e (rm ps n).
Proof. intros H E. rewrite rm_filter. apply filter_In. split; [exact H|]. rewrite E. reflexivity. Qed.

Lemma view_prop_bbox b : view_prop (s_bounding_box_name, box_values b) = bbox_prop b.
Proof. destruct (box_values_shape b) as (x & y & w & h & E & _). unfold view_prop, bbox_prop. rewrite E. reflexivity. Qed.

Theorem std_bbox_stated_lemma : forall cfg f src l L, std_ok f src l -> sf_bbox f = true ->
  spec_oas_decode (write_oas_model_std cfg f src l) = Some L ->
  In (uint_prop s_bounding_box_available_name 2) (l_props L) /\
  length (l_cells L) = length (li_cells l) /\
  forall i dc b, nth_error (l_cells L) i = Some dc -> nth_error (std_boxes src (li_cells l)) i = Some b ->
    In (bbox_prop b) (c_props dc) /\
    forall p, In p (c_props dc) -> p_name p = NName s_bounding_box_name -> p = bbox_prop b.
Proof.
  intros cfg f src l L Hok Hf Hdec. rewrite (std_writer_conforms_lemma cfg f src l Hok) in Hdec. injection Hdec as <-.
  split; [|split].
  - unfold view_w, attach_std. cbn [l_props li_props]. unfold attach_lib_props. rewrite Hf. unfold view_props.
    set (p1 := if sf_top_level f then _ else _).
    assert (H2 : In (s_bounding_box_available_name, [VUInt 2]) (reset_property p1 s_bounding_box_available_name (VUInt 2))) by (left; reflexivity).
    change (uint_prop s_bounding_box_available_name 2) with (view_prop (s_bounding_box_available_name, [VUInt 2])). apply in_map.
    destruct (sf_max_counts f); [|exact H2]. unfold attach_max_counts. rewrite !reset_property_eq.
    do 5 (right; apply in_rm; [|reflexivity]). rewrite <- reset_property_eq. exact H2.
  - unfold view_w, attach_std. cbn [l_cells li_cells]. rewrite Hf, map_length.
    rewrite <- (map_length cl_name), attach_bboxes_names, map_length, map_length. reflexivity.
  - intros i dc b Hdc Hb. unfold view_w, attach_std in Hdc. cbn [l_cells li_cells] in Hdc. rewrite Hf in Hdc.
    rewrite nth_error_map in Hdc. destruct (nth_error (attach_bboxes _ _) i) as [c'|] eqn:Ec; [|discriminate]. injection Hdc as <-.
    assert (Hlen : (i < length (li_cells l))%nat).
    { rewrite <- (std_boxes_length src). apply nth_error_Some. rewrite Hb. discriminate. }
    destruct (nth_error (map (lower_cell (ss_den src)) (li_cells l)) i) as [c0|] eqn:E0.
    2:{ apply nth_error_None in E0. rewrite map_length in E0. lia. }
    rewrite (attach_bboxes_nth _ _ i c0 b E0 Hb) in Ec. injection Ec as <-.
    unfold view_cell. cbn [c_props]. destruct (attach_bbox_fields c0 b) as (_ & _ & _ & _ & _ & Ep).
    set (off := cell_offset_of _ _ _). unfold cellname_props. rewrite Ep. unfold view_props.
    split.
    + rewrite <- view_prop_bbox. apply in_map. destruct (cfg_cell_offset cfg); [|left; reflexivity].
      unfold replace_property. right. apply filter_In. split; [left; reflexivity|reflexivity].
    + intros p Hp Hn. apply in_map_iff in Hp. destruct Hp as (e & <- & He). unfold view_prop in Hn. cbn [p_name] in Hn. injection Hn as Hn.
      assert (He' : In e ((s_bounding_box_name, box_values b) :: rm (cl_props c0) s_bounding_box_name)).
      { destruct (cfg_cell_offset cfg); [|exact He]. unfold replace_property in He. destruct He as [<-|He]; [discriminate Hn|].
        apply filter_In in He. apply He. }
      destruct He' as [<-|He']; [apply view_prop_bbox|]. apply rm_not_named in He'. unfold name in *. rewrite Hn in He'. discriminate He'.
Qed.

(* ------------------------------------------------------------------ D.2 the boxes are exact *)
(* a repetition the C++ can hold that is not a zero-count lattice (known finding repetition:zero-count) *)
Definition wrep_live (r : wrep) : Prop :=
  match r with
  | WNone => True
  | WRect c rw _ _ | WReg c rw _ _ => 0 < c * rw < two64
  | WExpl l => nlen l + 1 < two64
  | WExplX l | WExplY l => nlen l + 1 < two64
  end.
Definition wcell_live (c : wcell) : Prop :=
  Forall (fun p => wrep_live (py_rep p)) (cl_polys c) /\ Forall (fun h => wrep_live (ph_rep h)) (cl_paths c) /\
  Forall (fun r => wrep_live (rf_rep r)) (cl_refs c) /\ Forall (fun t => wrep_live (lb_rep t)) (cl_labels c).
Definition box_wf (src : std_src) (cells : list wcell) : Prop := Forall wcell_live cells /\ Forall wcell_live (ss_outside src).

Lemma rep_q_live D r : wrep_live r -> BBoxRepLink.rep_live (rep_q D r).
Proof.
  assert (T : Repetition.two64N = two64) by reflexivity.
  destruct r as [|c rw sx sy|c rw v1 v2|l|l|l]; cbn [wrep_live rep_q]; intro H; unfold BBoxRepLink.rep_live, Repetition.rep_ok, Repetition.count, Repetition.wrapN;
    rewrite ?map_length, ?T.
  - split; [exact I|left; reflexivity].
  - split; [lia|right; rewrite N.mod_small by lia; lia].
  - split; [lia|right; rewrite N.mod_small by lia; lia].
  - unfold nlen in H. split; [lia|right; rewrite N.mod_small by lia; lia].
  - unfold nlen in H. split; [lia|right; rewrite N.mod_small by lia; lia].
  - unfold nlen in H. split; [lia|right; rewrite N.mod_small by lia; lia].
Qed.
Lemma brep_linked D r : wrep_live r -> BBoxRepLink.rep_linked (brep D r).
Proof. intro H. exists (rep_q D r). split; [apply rep_q_live, H|reflexivity]. Qed.

Local Open Scope Q_scope.
Lemma quarter_cs_prod m : fst (quarter_cs m) * snd (quarter_cs m) == 0.
Proof.
  unfold quarter_cs. repeat match goal with |- context [match ?x with _ => _ end] => destruct x end; cbn [fst snd]; ring.
Qed.
Local Close Scope Q_scope.

Lemma bpath_linked D h : wrep_live (ph_rep h) -> forall p, In p (fst (bpath D h)) -> BBoxRepLink.rep_linked (BBox.p_rep p).
Proof.
  intros Hl p Hp. unfold bpath in Hp. destruct (ph_pts h) as [|a [|b [|c t]]]; try (destruct Hp; fail).
  induction (ph_els h) as [|el els IH]; [destruct Hp|]. cbn [fold_right] in Hp.
  destruct (segment_outline D a b el) as [o|]; cbn [fst] in Hp; [|apply IH, Hp].
  destruct Hp as [<-|Hp]; [apply brep_linked, Hl|apply IH, Hp].
Qed.

(* the placements and children brefs produces *)
Lemma brefs_in D i later outs : forall rs ks pl ch, In (pl, ch) (fst (brefs D i later outs rs ks)) ->
  (exists r m, In r rs /\ pl = bplacement D r m) /\ (In ch (map fst later) \/ In ch (map fst outs)).
Proof.
  induction rs as [|r rt IH]; intros ks pl ch H; [destruct H|]. cbn [brefs] in H.
  destruct (brefs D i later outs rt (tl ks)) as [rest ok] eqn:Er.
  assert (IH' : In (pl, ch) rest -> (exists r0 m, In r0 (r :: rt) /\ pl = bplacement D r0 m) /\ (In ch (map fst later) \/ In ch (map fst outs))).
  { intro Hin. destruct (IH (tl ks) pl ch) as ((r0 & m & Hr0 & E) & Hc); [rewrite Er; exact Hin|].
    split; [exists r0, m; split; [right; exact Hr0|exact E]|exact Hc]. }
  destruct (hd RT_name ks) as [|t|j] eqn:Ek; cbn [fst] in H; [apply IH', H| |].
  - destruct (ref_child i later outs (RT_in t)) as [[ch0 okc]|] eqn:Ec; [|apply IH', H].
    destruct (rf_quarter r) as [m|]; cbn [fst] in H; [|apply IH', H]. destruct H as [H|H]; [|apply IH', H].
    injection H as <- <-. split; [exists r, m; split; [left; reflexivity|reflexivity]|]. left.
    cbn [ref_child] in Ec. destruct (Nat.ltb i t); [|discriminate]. apply nth_error_In in Ec. apply (in_map fst) in Ec. exact Ec.
  - destruct (ref_child i later outs (RT_out j)) as [[ch0 okc]|] eqn:Ec; [|apply IH', H].
    destruct (rf_quarter r) as [m|]; cbn [fst] in H; [|apply IH', H]. destruct H as [H|H]; [|apply IH', H].
    injection H as <- <-. split; [exists r, m; split; [left; reflexivity|reflexivity]|]. right.
    cbn [ref_child] in Ec. apply nth_error_In in Ec. apply (in_map fst) in Ec. exact Ec.
Qed.

Lemma concat_paths_linked D paths : Forall (fun h => wrep_live (ph_rep h)) paths ->
  forall p, In p (concat (map fst (map (bpath D) paths))) -> BBoxRepLink.rep_linked (BBox.p_rep p).
Proof.
  intros H p Hp. apply in_concat in Hp. destruct Hp as (x & Hx & Hp). rewrite map_map in Hx. apply in_map_iff in Hx.
  destruct Hx as (h & <- & Hh). rewrite Forall_forall in H. apply (bpath_linked D h (H h Hh) p Hp).
Qed.

Lemma out_tree_facts D n j c : wcell_live c ->
  let t := fst (out_tree D n j c) in
  BBox.cell_name t = N.of_nat (n + j) /\ BBox.cell_refs t = [] /\ BBoxRepLink.cell_linked t.
Proof.
  intros (Hp & Hh & Hr & Hl). cbv zeta. unfold out_tree. cbn [fst BBox.cell_name BBox.cell_refs]. split; [reflexivity|]. split; [reflexivity|].
  unfold BBoxRepLink.cell_linked. cbn [BBox.cell_polys BBox.cell_labels BBox.cell_paths BBox.cell_refs]. split; [|split; [|split]].
  - intros p Hi. apply in_map_iff in Hi. destruct Hi as (p0 & <- & Hi). rewrite Forall_forall in Hp. apply brep_linked, (Hp p0 Hi).
  - intros p Hi. apply in_map_iff in Hi. destruct Hi as (p0 & <- & Hi). rewrite Forall_forall in Hl. apply brep_linked, (Hl p0 Hi).
  - apply concat_paths_linked, Hh.
  - intros pl ch [].
Qed.
Lemma out_trees_nth D n : forall l j0 k t, Forall wcell_live l -> nth_error (map fst (out_trees D n j0 l)) k = Some t ->
  BBox.cell_name t = N.of_nat (n + (j0 + k)) /\ BBox.cell_refs t = [] /\ BBoxRepLink.cell_linked t.
Proof.
  induction l as [|c l IH]; intros j0 k t Hl H; [destruct k; discriminate|]. inversion Hl; subst. cbn [out_trees map] in H.
  destruct k as [|k]; cbn [nth_error] in H.
  - injection H as <-. rewrite Nat.add_0_r. apply out_tree_facts. assumption.
  - replace (j0 + S k)%nat with (S j0 + k)%nat by lia. apply IH; assumption.
Qed.

Lemma lib_tree_facts D i c ks later outs : wcell_live c ->
  let t := fst (lib_tree D i c ks later outs) in
  BBox.cell_name t = N.of_nat i /\ BBoxRepLink.cell_linked t /\
  forall pl ch, In (pl, ch) (BBox.cell_refs t) -> In ch (map fst later) \/ In ch (map fst outs).
Proof.
  intros (Hp & Hh & Hr & Hl). cbv zeta. unfold lib_tree. destruct (brefs D i later outs (cl_refs c) ks) as [rs okr] eqn:Er.
  cbn [fst BBox.cell_name BBox.cell_refs]. split; [reflexivity|]. split.
  - unfold BBoxRepLink.cell_linked. cbn [BBox.cell_polys BBox.cell_labels BBox.cell_paths BBox.cell_refs]. split; [|split; [|split]].
    + intros p Hi. apply in_map_iff in Hi. destruct Hi as (p0 & <- & Hi). rewrite Forall_forall in Hp. apply brep_linked, (Hp p0 Hi).
    + intros p Hi. apply in_map_iff in Hi. destruct Hi as (p0 & <- & Hi). rewrite Forall_forall in Hl. apply brep_linked, (Hl p0 Hi).
    + apply concat_paths_linked, Hh.
    + intros pl ch H. destruct (brefs_in D i later outs (cl_refs c) ks pl ch) as ((r & m & Hr0 & ->) & _); [rewrite Er; exact H|].
      split.
      * unfold bplacement. cbn [BBox.pl_rep]. rewrite Forall_forall in Hr. apply brep_linked, (Hr r Hr0).
      * intros _. unfold bplacement. cbn [BBox.pl_ca BBox.pl_sa]. apply quarter_cs_prod.
  - intros pl ch H. destruct (brefs_in D i later outs (cl_refs c) ks pl ch) as (_ & Hc); [rewrite Er; exact H|exact Hc].
Qed.
Lemma lib_trees_nth D outs : forall cells i kinds k t, Forall wcell_live cells ->
  nth_error (map fst (lib_trees D i cells kinds outs)) k = Some t ->
  BBox.cell_name t = N.of_nat (i + k) /\ BBoxRepLink.cell_linked t /\
  forall pl ch, In (pl, ch) (BBox.cell_refs t) -> In ch (map fst (lib_trees D i cells kinds outs)) \/ In ch (map fst outs).
Proof.
  induction cells as [|c cells IH]; intros i kinds k t Hl H; [destruct k; discriminate|]. inversion Hl; subst. cbn [lib_trees map] in *.
  destruct k as [|k]; cbn [nth_error] in H.
  - injection H as <-. rewrite Nat.add_0_r. destruct (lib_tree_facts D i c (hd [] kinds) (lib_trees D (S i) cells (tl kinds) outs) outs) as (E1 & E2 & E3); [assumption|].
    split; [exact E1|split; [exact E2|]]. intros pl ch Hin. destruct (E3 pl ch Hin) as [G|G]; [left; right; exact G|right; exact G].
  - destruct (IH (S i) (tl kinds) k t) as (E1 & E2 & E3); [assumption|exact H|]. split; [rewrite E1; f_equal; lia|split; [exact E2|]].
    intros pl ch Hin. destruct (E3 pl ch Hin) as [G|G]; [left; right; exact G|right; exact G].
Qed.

(* the family of all Cell objects of a run *)
Definition std_family (src : std_src) (cells : list wcell) (t : BBox.cell) : Prop :=
  In t (map fst (std_trees src cells)) \/ In t (map fst (out_trees (ss_den src) (length cells) 0 (ss_outside src))).

Lemma std_family_linked src cells : box_wf src cells -> BBoxRepLink.family_linked (std_family src cells).
Proof.
  intros (Hc & Ho). unfold BBoxRepLink.family_linked, std_family, std_trees.
  set (D := ss_den src). set (outs := out_trees D (length cells) 0 (ss_outside src)). set (libs := lib_trees D 0 cells (ss_kinds src) outs).
  assert (Lib : forall t, In t (map fst libs) -> exists k, (k < length cells)%nat /\ BBox.cell_name t = N.of_nat k /\ nth_error (map fst libs) k = Some t /\
            BBoxRepLink.cell_linked t /\ forall pl ch, In (pl, ch) (BBox.cell_refs t) -> In ch (map fst libs) \/ In ch (map fst outs)).
  { intros t Ht. apply In_nth_error in Ht. destruct Ht as (k & Hk). exists k.
    destruct (lib_trees_nth D outs cells 0 (ss_kinds src) k t Hc Hk) as (E1 & E2 & E3). split; [|split; [exact E1|split; [exact Hk|split; [exact E2|exact E3]]]].
    assert (G : (k < length (map fst libs))%nat) by (apply nth_error_Some; rewrite Hk; discriminate).
    unfold libs in G. rewrite map_length, lib_trees_length in G. exact G. }
  assert (Out : forall t, In t (map fst outs) -> exists k, BBox.cell_name t = N.of_nat (length cells + k) /\ nth_error (map fst outs) k = Some t /\
            BBox.cell_refs t = [] /\ BBoxRepLink.cell_linked t).
  { intros t Ht. apply In_nth_error in Ht. destruct Ht as (k & Hk). exists k.
    destruct (out_trees_nth D (length cells) (ss_outside src) 0 k t Ho Hk) as (E1 & E2 & E3). split; [exact E1|split; [exact Hk|split; [exact E2|exact E3]]]. }
  split; [|split].
  - intros c pl ch [Hc0|Hc0] Hin.
    + destruct (Lib c Hc0) as (k & _ & _ & _ & _ & E). apply (E pl ch Hin).
    + destruct (Out c Hc0) as (k & _ & _ & E & _). rewrite E in Hin. destruct Hin.
  - intros c d [Hc0|Hc0] [Hd0|Hd0] En.
    + destruct (Lib c Hc0) as (k & _ & N1 & K1 & _). destruct (Lib d Hd0) as (k' & _ & N2 & K2 & _).
      rewrite N1, N2 in En. apply Nat2N.inj in En. subst k'. rewrite K1 in K2. injection K2 as ->. reflexivity.
    + destruct (Lib c Hc0) as (k & L1 & N1 & _). destruct (Out d Hd0) as (k' & N2 & _). rewrite N1, N2 in En. apply Nat2N.inj in En. lia.
    + destruct (Out c Hc0) as (k & N1 & _). destruct (Lib d Hd0) as (k' & L2 & N2 & _). rewrite N1, N2 in En. apply Nat2N.inj in En. lia.
    + destruct (Out c Hc0) as (k & N1 & K1 & _). destruct (Out d Hd0) as (k' & N2 & K2 & _).
      rewrite N1, N2 in En. apply Nat2N.inj in En. assert (k = k') by lia. subst k'. rewrite K1 in K2. injection K2 as ->. reflexivity.
  - intros c [Hc0|Hc0]; [destruct (Lib c Hc0) as (k & _ & _ & _ & E & _); exact E|destruct (Out c Hc0) as (k & _ & _ & _ & E); exact E].
Qed.

Lemma cell_boxes_exact U : BBoxProofs.family_ok_g true U ->
  forall trees ch, (forall t, In t trees -> U t) -> BBoxProofs.cache_ok U ch ->
  Forall2 (fun t b => BBoxProofs.is_bbox (BBox.flatten t) b) trees (cell_boxes trees ch).
Proof.
  intros HU. induction trees as [|c t IH]; intros ch Hin Hch; [constructor|]. cbn [cell_boxes].
  destruct (BBoxProofs.cell_bbox_exact_gen hull_unused true BBoxProofs.hull_sem_refl U HU c (Hin c (or_introl eq_refl)) ch Hch) as (E1 & _ & E3).
  unfold BBox.cell_query. destruct (BBox.cell_query_g hull_unused true false c ch) as [info ch'] eqn:Eq. cbn [fst snd] in *.
  constructor; [exact E1|]. apply IH; [intros x Hx; apply Hin; right; exact Hx|exact E3].
Qed.

(* every box the CELLNAME loop obtains (one shared cache, cells in library order) is THE bounding box of the cell's geometry:
   polygon vertices, label origins and path outline corners under their repetitions, Cell-typed references expanded *)
Theorem std_boxes_exact_lemma : forall src cells, box_wf src cells ->
  Forall2 (fun t b => BBoxProofs.is_bbox (BBox.flatten t) b) (map fst (std_trees src cells)) (std_boxes src cells).
Proof.
  intros src cells Hwf. unfold std_boxes.
  apply (cell_boxes_exact (std_family src cells)).
  - apply BBoxRepLink.family_linked_ok_lemma, std_family_linked, Hwf.
  - intros t Ht. left. exact Ht.
  - apply BBoxProofs.cache_ok_nil.
Qed.

(* ------------------------------------------------------------------ D.3 what the four integers are *)
Definition is_zmin (l : list Z) (m : Z) : Prop := In m l /\ forall x, In x l -> (m <= x)%Z.
Definition is_zmax (l : list Z) (m : Z) : Prop := In m l /\ forall x, In x l -> (x <= m)%Z.
Definition rounded_xs (S : list BBox.pt) : list Z := map (fun p => llround (fst p)) S.
Definition rounded_ys (S : list BBox.pt) : list Z := map (fun p => llround (snd p)) S.

(* "round the exact box" IS "the box of the rounded points" when the points are the exact positions: llround is
   monotone, so the rounded least coordinate is the least rounded coordinate *)
Theorem box_values_of_points_lemma : forall S b, BBoxProofs.is_bbox S b -> S <> [] ->
  exists xm ym xM yM,
    box_values b = [VUInt 0; VInt xm; VInt ym; VUInt (u64z (xM - xm)); VUInt (u64z (yM - ym))] /\
    is_zmin (rounded_xs S) xm /\ is_zmin (rounded_ys S) ym /\ is_zmax (rounded_xs S) xM /\ is_zmax (rounded_ys S) yM.
Proof.
  intros S b Hb Hne. destruct b as [|x0 y0 x1 y1]; [cbn in Hb; contradiction|].
  apply BBoxProofs.is_bbox_spec in Hb. destruct Hb as (Hbd & (px0 & Ix0 & Ex0) & (py0 & Iy0 & Ey0) & (px1 & Ix1 & Ex1) & (py1 & Iy1 & Ey1)).
  assert (Hq : BBox.qlt x1 x0 = false).
  { apply BBoxProofs.qlt_false. destruct (Hbd px0 Ix0) as (A & B & _). apply (Qle_trans _ (fst px0)); assumption. }
  exists (llround x0), (llround y0), (llround x1), (llround y1). split; [unfold box_values; rewrite Hq; reflexivity|].
  unfold is_zmin, is_zmax, rounded_xs, rounded_ys. repeat split.
  - apply in_map_iff. exists px0. split; [apply llround_comp, Ex0|exact Ix0].
  - intros x Hx. apply in_map_iff in Hx. destruct Hx as (p & <- & Hp). apply llround_mono. apply (Hbd p Hp).
  - apply in_map_iff. exists py0. split; [apply llround_comp, Ey0|exact Iy0].
  - intros x Hx. apply in_map_iff in Hx. destruct Hx as (p & <- & Hp). apply llround_mono. apply (Hbd p Hp).
  - apply in_map_iff. exists px1. split; [apply llround_comp, Ex1|exact Ix1].
  - intros x Hx. apply in_map_iff in Hx. destruct Hx as (p & <- & Hp). apply llround_mono. apply (Hbd p Hp).
  - apply in_map_iff. exists py1. split; [apply llround_comp, Ey1|exact Iy1].
  - intros x Hx. apply in_map_iff in Hx. destruct Hx as (p & <- & Hp). apply llround_mono. apply (Hbd p Hp).
Qed.
Lemma box_values_empty b : BBoxProofs.is_bbox [] b -> box_values b = [VUInt 0; VInt 0; VInt 0; VUInt 0; VUInt 0].
Proof.
  destruct b as [|x0 y0 x1 y1]; [reflexivity|]. intro H. apply BBoxProofs.is_bbox_spec in H. destruct H as (_ & (p & [] & _) & _).
Qed.

(* S_BOUNDING_BOX of cell i of the decoded file: the smallest integer box containing every exact position of the cell's
   geometry (vertices, label origins, outline corners of the covered paths; repetitions applied, Cell-typed references
   expanded) rounded to the grid; all zero for a cell without geometry *)
Theorem std_bbox_truth_lemma : forall cfg f src l L, std_ok f src l -> box_wf src (li_cells l) -> sf_bbox f = true ->
  spec_oas_decode (write_oas_model_std cfg f src l) = Some L ->
  forall i dc t ok, nth_error (l_cells L) i = Some dc -> nth_error (std_trees src (li_cells l)) i = Some (t, ok) ->
  exists vals, In (mkProp (NName s_bounding_box_name) false (map view_value vals)) (c_props dc) /\
    (forall p, In p (c_props dc) -> p_name p = NName s_bounding_box_name -> p_vals p = map view_value vals) /\
    (BBox.flatten t = [] -> vals = [VUInt 0; VInt 0; VInt 0; VUInt 0; VUInt 0]) /\
    (BBox.flatten t <> [] -> exists xm ym xM yM,
       vals = [VUInt 0; VInt xm; VInt ym; VUInt (u64z (xM - xm)); VUInt (u64z (yM - ym))] /\
       is_zmin (rounded_xs (BBox.flatten t)) xm /\ is_zmin (rounded_ys (BBox.flatten t)) ym /\
       is_zmax (rounded_xs (BBox.flatten t)) xM /\ is_zmax (rounded_ys (BBox.flatten t)) yM).
Proof.
  intros cfg f src l L Hok Hwf Hf Hdec i dc t ok Hdc Ht.
  destruct (std_bbox_stated_lemma cfg f src l L Hok Hf Hdec) as (_ & Hlen & Hst).
  assert (Hi : (i < length (li_cells l))%nat) by (rewrite <- Hlen; apply nth_error_Some; rewrite Hdc; discriminate).
  destruct (nth_error (std_boxes src (li_cells l)) i) as [b|] eqn:Eb.
  2:{ apply nth_error_None in Eb. rewrite std_boxes_length in Eb. lia. }
  destruct (Hst i dc b Hdc Eb) as (Hin & Huniq).
  assert (Hbb : BBoxProofs.is_bbox (BBox.flatten t) b).
  { apply (Forall2_nth _ _ _ i t b (std_boxes_exact_lemma src (li_cells l) Hwf)); [|exact Eb].
    rewrite nth_error_map, Ht. reflexivity. }
  exists (box_values b). split; [exact Hin|]. split; [|split].
  - intros p Hp Hn. rewrite (Huniq p Hp Hn). reflexivity.
  - intro E. rewrite E in Hbb. apply box_values_empty, Hbb.
  - intro Hne. apply box_values_of_points_lemma; assumption.
Qed.

(* ================================================================== E. the second call *)
(* removal of several names at once *)
Definition rml (ps : wprops) (ns : list (list N)) : wprops := filter (fun e => negb (named_in ns (fst e))) ps.
Lemma rm_rml ps n : rm ps n = rml ps [n].
Proof. rewrite rm_filter. unfold rml, named_in. apply filter_ext. intro e. cbn [existsb]. rewrite orb_false_r. reflexivity. Qed.
Lemma named_in_app a b n : named_in (a ++ b) n = named_in a n || named_in b n.
Proof. unfold named_in. apply existsb_app. Qed.
Lemma filter_filter' {A} (f g : A -> bool) l : filter g (filter f l) = filter (fun x => f x && g x) l.
Proof.
  induction l as [|x l IH]; [reflexivity|]. cbn [filter]. destruct (f x); cbn [andb filter]; [destruct (g x); rewrite IH; reflexivity|exact IH].
Qed.
Lemma rml_rml ps a b : rml (rml ps a) b = rml ps (a ++ b).
Proof. unfold rml. rewrite filter_filter'. apply filter_ext. intro e. rewrite named_in_app, negb_orb. reflexivity. Qed.
Lemma rml_app ps qs ns : rml (ps ++ qs) ns = rml ps ns ++ rml qs ns.
Proof. apply filter_app. Qed.
Lemma rml_all ps ns : (forall e, In e ps -> named_in ns (fst e) = true) -> rml ps ns = [].
Proof.
  intro H. unfold rml. induction ps as [|e t IH]; [reflexivity|]. cbn [filter]. rewrite (H e (or_introl eq_refl)). cbn [negb].
  apply IH. intros x Hx. apply H. right. exact Hx.
Qed.
Lemma rml_none ps ns : (forall e, In e ps -> named_in ns (fst e) = false) -> rml ps ns = ps.
Proof.
  intro H. unfold rml. induction ps as [|e t IH]; [reflexivity|]. cbn [filter]. rewrite (H e (or_introl eq_refl)). cbn [negb].
  f_equal. apply IH. intros x Hx. apply H. right. exact Hx.
Qed.
Lemma rml_incl ps ns : incl (rml ps ns) ps.
Proof. intros x Hx. apply filter_In in Hx. apply Hx. Qed.
Lemma rml_not_named ps ns e : In e (rml ps ns) -> named_in ns (fst e) = false.
Proof. intro H. apply filter_In in H. destruct H as (_ & H). apply negb_true_iff in H. exact H. Qed.
Lemma named_in_incl a b n : incl a b -> named_in a n = true -> named_in b n = true.
Proof.
  unfold named_in. intros Hi H. apply existsb_exists in H. destruct H as (x & Hx & E). apply existsb_exists. exists x. split; [apply Hi, Hx|exact E].
Qed.
Lemma rml_perm_names ps a b : (forall n, named_in a n = named_in b n) -> rml ps a = rml ps b.
Proof. intro H. unfold rml. apply filter_ext. intro e. rewrite H. reflexivity. Qed.

(* the entries TOP_LEVEL and BOUNDING_BOX put in front, and the names they take away *)
Definition top_entries (tops : list (list N)) : wprops := rev (map (fun nm => (s_top_level_name, [VStr nm])) tops).
Definition pre_G (f : std_flags) (tops : list (list N)) : wprops :=
  (if sf_bbox f then [(s_bounding_box_available_name, [VUInt 2])] else []) ++ (if sf_top_level f then top_entries tops else []).
Definition names_G (f : std_flags) : list (list N) :=
  (if sf_top_level f then [s_top_level_name] else []) ++ (if sf_bbox f then [s_bounding_box_available_name] else []).
Definition G_of (f : std_flags) (tops : list (list N)) (X : wprops) : wprops :=
  let p1 := if sf_top_level f then attach_top_level X tops else X in
  if sf_bbox f then reset_property p1 s_bounding_box_available_name (VUInt 2) else p1.

Lemma attach_top_level_nf X tops : attach_top_level X tops = top_entries tops ++ rm X s_top_level_name.
Proof.
  unfold attach_top_level, top_entries.
  assert (G : forall tops acc, fold_left (fun ps nm => set_property ps s_top_level_name (VStr nm) true) tops acc =
                               rev (map (fun nm => (s_top_level_name, [VStr nm])) tops) ++ acc).
  { clear. induction tops as [|t ts IH]; intro acc; [reflexivity|]. cbn [fold_left map rev]. rewrite IH, set_property_new, <- app_assoc. reflexivity. }
  apply G.
Qed.
Lemma top_entries_names tops e : In e (top_entries tops) -> fst e = s_top_level_name.
Proof. unfold top_entries. rewrite <- in_rev. intro H. apply in_map_iff in H. destruct H as (nm & <- & _). reflexivity. Qed.

Lemma G_nf f tops X : G_of f tops X = pre_G f tops ++ rml X (names_G f).
Proof.
  unfold G_of, pre_G, names_G. destruct (sf_top_level f), (sf_bbox f); cbn [app].
  - rewrite reset_property_eq, attach_top_level_nf, !rm_rml, rml_app, rml_rml. cbn [app]. f_equal.
    rewrite (rml_none (top_entries tops)); [reflexivity|]. intros e He. pose proof (top_entries_names tops e He) as En. unfold name in *. rewrite En. reflexivity.
  - rewrite attach_top_level_nf, rm_rml. reflexivity.
  - rewrite reset_property_eq, rm_rml. reflexivity.
  - symmetry. apply rml_none. intros e _. reflexivity.
Qed.
Lemma pre_G_named f tops e : In e (pre_G f tops) -> named_in (names_G f) (fst e) = true /\ named_in max_names (fst e) = false.
Proof.
  unfold pre_G, names_G. intro H. apply in_app_or in H. destruct H as [H|H].
  - destruct (sf_bbox f); [|destruct H]. destruct H as [<-|[]]. split; [rewrite named_in_app; apply orb_true_iff; right; reflexivity|reflexivity].
  - destruct (sf_top_level f); [|destruct H]. pose proof (top_entries_names tops e H) as En. unfold name in *. rewrite En. split; reflexivity.
Qed.
Lemma pre_G_lens f tops : forall x, In x (props_lens (pre_G f tops)) -> x <= 28 \/ In x (map nlen tops).
Proof.
  intros x Hx. unfold props_lens in Hx. apply in_flat_map in Hx. destruct Hx as (e & He & Hx). unfold pre_G in He. apply in_app_or in He.
  destruct He as [He|He].
  - destruct (sf_bbox f); [|destruct He]. destruct He as [<-|[]]. cbn in Hx. destruct Hx as [<-|[]]. left. lia.
  - destruct (sf_top_level f); [|destruct He]. unfold top_entries in He. rewrite <- in_rev in He. apply in_map_iff in He. destruct He as (nm & <- & Hnm).
    cbn in Hx. destruct Hx as [<-|[<-|[]]]; [left; lia|right; apply in_map, Hnm].
Qed.

Definition pre_max (m : counts) : wprops :=
  [(s_max_path_name, [VUInt (mc_path m)]); (s_max_polygon_name, [VUInt (mc_polygon m)]);
   (s_max_string_size_name, [VUInt (mc_string m)]); (s_max_uint_size_name, [VUInt 8]); (s_max_int_size_name, [VUInt 8])].
Lemma attach_max_counts_nf lprops cells : attach_max_counts lprops cells = pre_max (max_counts lprops cells) ++ rml lprops max_names.
Proof.
  unfold attach_max_counts, pre_max. rewrite !reset_property_eq.
  repeat (rewrite rm_cons; match goal with |- context [name_eqb ?a ?b] => change (name_eqb a b) with false end; cbv iota).
  rewrite !rm_rml, !rml_rml. reflexivity.
Qed.
Lemma pre_max_named m e : In e (pre_max m) -> named_in max_names (fst e) = true /\ forall f, named_in (names_G f) (fst e) = false.
Proof.
  intro H. unfold pre_max in H. repeat (destruct H as [<-|H]; [split; [reflexivity|intro f; unfold names_G; destruct (sf_top_level f), (sf_bbox f); reflexivity]|]).
  destruct H.
Qed.
Lemma pre_max_lens m x : In x (props_lens (pre_max m)) -> x <= 28.
Proof. cbn. intros [<-|[<-|[<-|[<-|[<-|[]]]]]]; lia. Qed.

(* the library-level list of the file, in normal form *)
Lemma attach_lib_props_nf f src l :
  attach_lib_props f src l =
  (if sf_max_counts f then pre_max (std_counts f src l) else []) ++
  (let g := G_of f (top_cells src (li_cells l)) (li_props l) in if sf_max_counts f then rml g max_names else g).
Proof.
  unfold attach_lib_props, std_counts, props_before_counts. fold (G_of f (top_cells src (li_cells l)) (li_props l)).
  destruct (sf_max_counts f); [apply attach_max_counts_nf|reflexivity].
Qed.

(* the maximum only depends on the lengths above the floor *)
Lemma lmax_equiv l1 l2 r : (forall x, In x l1 -> x <= r \/ In x l2) -> (forall x, In x l2 -> x <= r \/ In x l1) -> lmax l1 r = lmax l2 r.
Proof.
  assert (G : forall a b, (forall x, In x a -> x <= r \/ In x b) -> lmax a r <= lmax b r).
  { intros a b H. destruct (lmax_attained a r) as [E|E]; [rewrite E; apply lmax_ge_floor|].
    destruct (H _ E) as [Hs|Hi]; [pose proof (lmax_ge_floor b r); lia|apply lmax_ge_in, Hi]. }
  intros H1 H2. apply N.le_antisymm; apply G; assumption.
Qed.

(* ------------------------------------------------------------------ the cells the second call starts from *)
Definition geom_eq (c1 c2 : wcell) : Prop := with_props c1 [] = with_props c2 [].
Lemma geom_eq_fields c1 c2 : geom_eq c1 c2 ->
  cl_name c1 = cl_name c2 /\ cl_polys c1 = cl_polys c2 /\ cl_paths c1 = cl_paths c2 /\ cl_refs c1 = cl_refs c2 /\ cl_labels c1 = cl_labels c2.
Proof. unfold geom_eq, with_props. intros [= -> -> -> -> ->]. repeat split. Qed.
Lemma geom_eq_with_props c ps : geom_eq (with_props c ps) c.
Proof. reflexivity. Qed.
Lemma zip_props_geom : forall cells pss, Forall2 geom_eq (zip_props cells pss) cells.
Proof.
  induction cells as [|c t IH]; intro pss; [constructor|]. destruct pss as [|ps pt]; cbn [zip_props].
  - constructor; [reflexivity|]. clear. induction t; constructor; [reflexivity|assumption].
  - constructor; [apply geom_eq_with_props|apply IH].
Qed.
Lemma zip_props_nth : forall cells pss i c ps, nth_error cells i = Some c -> nth_error pss i = Some ps ->
  nth_error (zip_props cells pss) i = Some (with_props c ps).
Proof.
  induction cells as [|c0 t IH]; intros pss i c ps Hc Hp; [destruct i; discriminate|]. destruct pss as [|p0 pt]; [destruct i; discriminate|].
  destruct i as [|i]; cbn [nth_error zip_props] in *; [injection Hc as <-; injection Hp as <-; reflexivity|apply IH; assumption].
Qed.

(* everything the pre-pass reads of a cell besides its property list *)
Lemma Forall2_map_eq {A B} (g : A -> B) (R : A -> A -> Prop) l1 l2 : (forall a b, R a b -> g a = g b) -> Forall2 R l1 l2 -> map g l1 = map g l2.
Proof. intros Hg H. induction H as [|a b l1 l2 Hab H IH]; [reflexivity|]. cbn [map]. rewrite (Hg a b Hab), IH. reflexivity. Qed.

Lemma lib_tree_geom D i c1 c2 ks later outs : geom_eq c1 c2 -> lib_tree D i c1 ks later outs = lib_tree D i c2 ks later outs.
Proof. intro H. destruct (geom_eq_fields c1 c2 H) as (_ & E1 & E2 & E3 & E4). unfold lib_tree. rewrite E1, E2, E3, E4. reflexivity. Qed.
Lemma lib_trees_geom D outs : forall cells1 cells2, Forall2 geom_eq cells1 cells2 ->
  forall i kinds, lib_trees D i cells1 kinds outs = lib_trees D i cells2 kinds outs.
Proof.
  intros cells1 cells2 H. induction H as [|a b l1 l2 Hab H IH]; intros i kinds; [reflexivity|]. cbn [lib_trees].
  rewrite IH, (lib_tree_geom D i a b _ _ _ Hab). reflexivity.
Qed.
Lemma Forall2_length' {A B} (R : A -> B -> Prop) l1 l2 : Forall2 R l1 l2 -> length l1 = length l2.
Proof. intro H. induction H; [reflexivity|cbn [length]; f_equal; assumption]. Qed.
Lemma std_boxes_geom src cells1 cells2 : Forall2 geom_eq cells1 cells2 -> std_boxes src cells1 = std_boxes src cells2.
Proof.
  intro H. unfold std_boxes, std_trees. rewrite (Forall2_length' _ _ _ H), (lib_trees_geom _ _ _ _ H). reflexivity.
Qed.
Lemma fold_left_ext_fun {A B} (f g : A -> B -> A) : (forall a b, f a b = g a b) -> forall l a, fold_left f l a = fold_left g l a.
Proof. intros H l. induction l as [|b l IH]; intro a; [reflexivity|]. cbn [fold_left]. rewrite H. apply IH. Qed.
Lemma top_from_names d : forall l1 l2 i, map cl_name l1 = map cl_name l2 -> top_from d i l1 = top_from d i l2.
Proof.
  induction l1 as [|a l1 IH]; intros [|b l2] i E; try discriminate; [reflexivity|]. cbn [map] in E. injection E as Ea El.
  cbn [top_from]. rewrite Ea, (IH l2 (S i) El). reflexivity.
Qed.
Lemma top_cells_geom src cells1 cells2 : Forall2 geom_eq cells1 cells2 -> top_cells src cells1 = top_cells src cells2.
Proof.
  intro H. unfold top_cells.
  assert (En : map cl_name cells1 = map cl_name cells2) by (apply (Forall2_map_eq _ _ _ _ (fun a b E => proj1 (geom_eq_fields a b E)) H)).
  assert (Et : forall t, target_name cells1 (ss_outside src) t = target_name cells2 (ss_outside src) t).
  { intros [|i|j]; cbn [target_name]; try reflexivity.
    rewrite <- (map_nth cl_name cells1 wcell0 i), <- (map_nth cl_name cells2 wcell0 i), En. reflexivity. }
  assert (Eg : forall ks d, get_dependencies cells1 (ss_outside src) ks d = get_dependencies cells2 (ss_outside src) ks d).
  { induction ks as [|k t IH]; intro d; [reflexivity|]. cbn [get_dependencies]. rewrite IH, Et. reflexivity. }
  assert (Ed : all_dependencies cells1 (ss_outside src) (ss_kinds src) = all_dependencies cells2 (ss_outside src) (ss_kinds src)).
  { unfold all_dependencies. apply fold_left_ext_fun. intros d ks. apply Eg. }
  rewrite Ed. apply top_from_names, En.
Qed.

(* ------------------------------------------------------------------ write_oas_run reads a cell's property list only through cellname_props *)
Lemma cell_to_oas_geom cells ts st c1 c2 : geom_eq c1 c2 -> cell_to_oas cells ts st c1 = cell_to_oas cells ts st c2.
Proof. intro H. destruct (geom_eq_fields c1 c2 H) as (E0 & E1 & E2 & E3 & E4). unfold cell_to_oas. rewrite E0, E1, E2, E3, E4. reflexivity. Qed.
Lemma cells_to_oas_geom names : forall l1 l2, Forall2 geom_eq l1 l2 ->
  forall pos ts st, cells_to_oas names pos ts st l1 = cells_to_oas names pos ts st l2.
Proof.
  intros l1 l2 H. induction H as [|a b l1 l2 Hab H IH]; intros pos ts st; [reflexivity|]. cbn [cells_to_oas].
  rewrite (cell_to_oas_geom names ts st a b Hab). destruct (cell_to_oas names ts st b) as [[[r1 d1] ts1] st1]. rewrite IH. reflexivity.
Qed.
Definition cnp_eq (cfg : wcfg) (c1 c2 : wcell) : Prop :=
  cl_name c1 = cl_name c2 /\ forall off, cellname_props cfg c1 off = cellname_props cfg c2 off.
Lemma cellnames_to_oas_congr cfg names offs : forall l1 l2, Forall2 (cnp_eq cfg) l1 l2 ->
  forall st, cellnames_to_oas cfg names offs st l1 = cellnames_to_oas cfg names offs st l2.
Proof.
  intros l1 l2 H. induction H as [|a b l1 l2 (En & Ep) H IH]; intro st; [reflexivity|]. cbn [cellnames_to_oas].
  rewrite En, Ep. destruct (properties_to_oas st _) as [[pr pd] st1]. rewrite IH. reflexivity.
Qed.
Lemma write_oas_run_congr cfg l1 l2 : li_unit l1 = li_unit l2 -> li_props l1 = li_props l2 ->
  Forall2 geom_eq (li_cells l1) (li_cells l2) -> Forall2 (cnp_eq cfg) (li_cells l1) (li_cells l2) ->
  write_oas_run cfg l1 = write_oas_run cfg l2.
Proof.
  destruct l1 as [u1 p1 c1], l2 as [u2 p2 c2]. cbn [li_unit li_props li_cells]. intros -> -> Hg Hc.
  assert (En : map cl_name c1 = map cl_name c2) by (apply (Forall2_map_eq _ _ _ _ (fun a b E => proj1 (geom_eq_fields a b E)) Hg)).
  unfold write_oas_run. cbn [li_unit li_props li_cells]. rewrite En.
  destruct (properties_to_oas pstate0 p2) as [[r_lp d_lp] st1].
  rewrite (cells_to_oas_geom (map cl_name c2) c1 c2 Hg).
  destruct (cells_to_oas (map cl_name c2) _ names0 st1 c2) as [[[[r_c d_c] offs] ts] st2].
  rewrite (cellnames_to_oas_congr cfg (map cl_name c2) offs c1 c2 Hc).
  assert (Em : forall A (x y : A), match c1 with [] => x | _ => y end = match c2 with [] => x | _ => y end).
  { intros A x y. inversion Hg; reflexivity. }
  rewrite Em. reflexivity.
Qed.

(* ------------------------------------------------------------------ one cell, second call *)
Lemma rml_idem_names U a b : (forall n, named_in a n = named_in b n) -> rml U a = rml U b.
Proof. apply rml_perm_names. Qed.

Lemma geom_eq_intro c1 c2 : cl_name c1 = cl_name c2 -> cl_polys c1 = cl_polys c2 -> cl_paths c1 = cl_paths c2 ->
  cl_refs c1 = cl_refs c2 -> cl_labels c1 = cl_labels c2 -> geom_eq c1 c2.
Proof. unfold geom_eq, with_props. intros -> -> -> -> ->. reflexivity. Qed.

Lemma cnp_second cfg (fb : bool) c b off :
  let c' := if fb then attach_bbox c b else c in
  let c2 := with_props c (cellname_props cfg c' off) in
  let c2' := if fb then attach_bbox c2 b else c2 in
  geom_eq c2' c' /\ cnp_eq cfg c2' c'.
Proof.
  cbv zeta. destruct fb.
  - destruct (attach_bbox_fields c b) as (E0 & E1 & E2 & E3 & E4 & E5).
    destruct (attach_bbox_fields (with_props c (cellname_props cfg (attach_bbox c b) off)) b) as (F0 & F1 & F2 & F3 & F4 & F5).
    cbn [with_props cl_name cl_polys cl_paths cl_refs cl_labels cl_props] in F0, F1, F2, F3, F4, F5.
    split; [apply geom_eq_intro; congruence|].
    split; [rewrite E0, F0; reflexivity|]. intro off2.
    assert (EPA : cellname_props cfg (attach_bbox c b) off =
                  if cfg_cell_offset cfg then replace_property ((s_bounding_box_name, box_values b) :: rm (cl_props c) s_bounding_box_name) s_cell_offset_name (VUInt off)
                  else (s_bounding_box_name, box_values b) :: rm (cl_props c) s_bounding_box_name).
    { unfold cellname_props. rewrite E5. reflexivity. }
    set (PA := cellname_props cfg (attach_bbox c b) off) in *. unfold cellname_props. rewrite F5, E5, EPA. clear F0 F1 F2 F3 F4 F5 EPA. clear PA.
    destruct (cfg_cell_offset cfg).
    + rewrite <- !reset_is_replace, !reset_property_eq.
      repeat (rewrite rm_cons; match goal with |- context [name_eqb ?x ?y] => change (name_eqb x y) with false || change (name_eqb x y) with true end; cbv iota).
      rewrite !rm_rml, !rml_rml. f_equal. f_equal. apply rml_perm_names. intro n. unfold named_in. cbn [app existsb].
      destruct (name_eqb n s_bounding_box_name), (name_eqb n s_cell_offset_name); reflexivity.
    + rewrite rm_cons. change (name_eqb (fst (s_bounding_box_name, box_values b)) s_bounding_box_name) with true. cbv iota.
      rewrite !rm_rml, rml_rml. f_equal. apply rml_perm_names. intro n. unfold named_in. cbn [app existsb]. destruct (name_eqb n s_bounding_box_name); reflexivity.
  - split; [reflexivity|]. split; [reflexivity|]. intro off2. unfold cellname_props. cbn [with_props cl_props].
    destruct (cfg_cell_offset cfg); [|reflexivity]. rewrite <- !reset_is_replace, !reset_property_eq.
    rewrite rm_cons. change (name_eqb (fst (s_cell_offset_name, [VUInt off])) s_cell_offset_name) with true. cbv iota.
    rewrite !rm_rml, rml_rml. f_equal. apply rml_perm_names. intro n. unfold named_in. cbn [app existsb]. destruct (name_eqb n s_cell_offset_name); reflexivity.
Qed.

Lemma lower_with_props D c ps : lower_cell D (with_props c ps) = with_props (lower_cell D c) ps.
Proof. reflexivity. Qed.

Lemma second_cells_bbox cfg D (o : wcell -> N) : forall cells boxes, length boxes = length cells ->
  let cells' := attach_bboxes (map (lower_cell D) cells) boxes in
  let cells2 := zip_props cells (map (fun c' => cellname_props cfg c' (o c')) cells') in
  Forall2 (fun a b => geom_eq a b /\ cnp_eq cfg a b) (attach_bboxes (map (lower_cell D) cells2) boxes) cells'.
Proof.
  induction cells as [|c t IH]; intros boxes Hl; [destruct boxes; [constructor|discriminate]|]. destruct boxes as [|b bt]; [discriminate|].
  cbn [map attach_bboxes zip_props]. constructor; [|apply IH; cbn [length] in Hl; lia].
  rewrite lower_with_props. apply (cnp_second cfg true (lower_cell D c) b).
Qed.
Lemma second_cells_plain cfg D (o : wcell -> N) : forall cells,
  let cells' := map (lower_cell D) cells in
  let cells2 := zip_props cells (map (fun c' => cellname_props cfg c' (o c')) cells') in
  Forall2 (fun a b => geom_eq a b /\ cnp_eq cfg a b) (map (lower_cell D) cells2) cells'.
Proof.
  induction cells as [|c t IH]; [constructor|]. cbn [map zip_props]. constructor; [|apply IH].
  rewrite lower_with_props. apply (cnp_second cfg false (lower_cell D c) BBox.Inverted).
Qed.
Lemma Forall2_and_l {A B} (P Q : A -> B -> Prop) l1 l2 : Forall2 (fun a b => P a b /\ Q a b) l1 l2 -> Forall2 P l1 l2.
Proof. intro H. induction H as [|a b l1 l2 (Hp & _) H IH]; constructor; assumption. Qed.
Lemma Forall2_and_r {A B} (P Q : A -> B -> Prop) l1 l2 : Forall2 (fun a b => P a b /\ Q a b) l1 l2 -> Forall2 Q l1 l2.
Proof. intro H. induction H as [|a b l1 l2 (_ & Hq) H IH]; constructor; assumption. Qed.

(* the cells of the library the first call leaves behind *)
Definition cells_left (cfg : wcfg) (f : std_flags) (src : std_src) (l : wlib) : list wcell := li_cells (lib_after_write cfg f src l).
Lemma cells_left_geom cfg f src l : Forall2 geom_eq (cells_left cfg f src l) (li_cells l).
Proof. unfold cells_left, lib_after_write. cbn [li_cells]. apply zip_props_geom. Qed.

Lemma attach_std_cells f src X :
  li_cells (attach_std f src X) =
  if sf_bbox f then attach_bboxes (map (lower_cell (ss_den src)) (li_cells X)) (std_boxes src (li_cells X))
  else map (lower_cell (ss_den src)) (li_cells X).
Proof. reflexivity. Qed.
Definition offset_fn (cfg : wcfg) (l' : wlib) (c : wcell) : N :=
  cell_offset_of (map cl_name (li_cells l')) (cell_offsets cfg l') (cl_name c).
Lemma lib_after_cells cfg f src l :
  li_cells (lib_after_write cfg f src l) =
  zip_props (li_cells l) (map (fun c' => cellname_props cfg c' (offset_fn cfg (attach_std f src l) c')) (li_cells (attach_std f src l))).
Proof. unfold lib_after_write. cbn [li_cells]. unfold cells_after_write. rewrite map_map. reflexivity. Qed.

Lemma second_cells cfg f src l : let l2 := lib_after_write cfg f src l in
  Forall2 (fun a b => geom_eq a b /\ cnp_eq cfg a b) (li_cells (attach_std f src l2)) (li_cells (attach_std f src l)).
Proof.
  cbv zeta. pose proof (cells_left_geom cfg f src l) as Hg. unfold cells_left in Hg.
  rewrite (attach_std_cells f src (lib_after_write cfg f src l)), (std_boxes_geom src _ _ Hg), lib_after_cells.
  set (o := offset_fn cfg (attach_std f src l)). rewrite (attach_std_cells f src l). destruct (sf_bbox f).
  - apply (second_cells_bbox cfg (ss_den src) o). apply std_boxes_length.
  - apply (second_cells_plain cfg (ss_den src) o).
Qed.

(* ------------------------------------------------------------------ the library-level list, second call *)
Lemma names_G_idem f n : named_in (names_G f ++ names_G f) n = named_in (names_G f) n.
Proof. rewrite named_in_app. apply orb_diag. Qed.

Lemma G_of_pre f tops U : G_of f tops (pre_G f tops ++ U) = pre_G f tops ++ rml U (names_G f).
Proof.
  rewrite G_nf, rml_app, (rml_all (pre_G f tops)); [reflexivity|]. intros e He. apply (pre_G_named f tops e He).
Qed.

Lemma lib_props_second cfg f src l : let l2 := lib_after_write cfg f src l in
  (sf_max_counts f = false \/ std_counts f src l2 = std_counts f src l) ->
  attach_lib_props f src l2 = attach_lib_props f src l.
Proof.
  cbv zeta. intro Hm. set (l2 := lib_after_write cfg f src l) in *.
  assert (Et : top_cells src (li_cells l2) = top_cells src (li_cells l)) by (apply top_cells_geom, cells_left_geom).
  assert (Ep : li_props l2 = attach_lib_props f src l) by reflexivity.
  rewrite (attach_lib_props_nf f src l2). cbv zeta. rewrite Et, Ep. rewrite (attach_lib_props_nf f src l). cbv zeta.
  set (tops := top_cells src (li_cells l)). set (U := li_props l). set (nG := names_G f).
  destruct (sf_max_counts f) eqn:Ef.
  - destruct Hm as [Hm|Hm]; [discriminate|]. rewrite Hm. f_equal.
    rewrite !G_nf, !rml_app. fold nG.
    rewrite (rml_none (pre_G f tops) max_names) by (intros e He; apply (pre_G_named f tops e He)).
    rewrite (rml_none (pre_max (std_counts f src l)) nG) by (intros e He; apply (pre_max_named _ e He)).
    rewrite (rml_all (pre_max (std_counts f src l)) max_names) by (intros e He; apply (pre_max_named _ e He)).
    rewrite (rml_all (pre_G f tops) nG) by (intros e He; apply (pre_G_named f tops e He)).
    cbn [app rml filter]. f_equal. rewrite !rml_rml. apply rml_perm_names. intro n. rewrite !named_in_app.
    destruct (named_in nG n), (named_in max_names n); reflexivity.
  - cbn [app]. rewrite (G_nf f tops U). fold nG. rewrite G_of_pre, rml_rml. f_equal. apply rml_perm_names. intro n. apply names_G_idem.
Qed.

(* ------------------------------------------------------------------ the counts, second call *)
(* the user's lists carry no entry that the first call counts and then takes away *)
Definition no_reserved_counts (l : wlib) : Prop :=
  (forall e, In e (li_props l) -> named_in max_names (fst e) = false) /\
  (forall c e, In c (li_cells l) -> In e (cl_props c) -> named_in [s_bounding_box_name; s_cell_offset_name] (fst e) = false).

Lemma in_props_lens x ps : In x (props_lens ps) <-> exists e, In e ps /\ In x (nlen (fst e) :: value_lens (snd e)).
Proof. unfold props_lens. apply in_flat_map. Qed.

(* the list written for a cell: new entries with short names and integer values in front of a sublist of the user's *)
Lemma cellname_props_entries cfg (fb : bool) c b off e :
  In e (cellname_props cfg (if fb then attach_bbox c b else c) off) ->
  e = (s_cell_offset_name, [VUInt off]) \/ e = (s_bounding_box_name, box_values b) \/ In e (cl_props c).
Proof.
  intro H. unfold cellname_props in H.
  assert (G : In e (cl_props (if fb then attach_bbox c b else c)) -> e = (s_bounding_box_name, box_values b) \/ In e (cl_props c)).
  { destruct fb; [|intro; right; assumption]. destruct (attach_bbox_fields c b) as (_ & _ & _ & _ & _ & ->). intros [<-|Hi]; [left; reflexivity|right; apply (rm_incl _ _ _ Hi)]. }
  destruct (cfg_cell_offset cfg); [|right; apply G, H]. unfold replace_property in H. destruct H as [<-|H]; [left; reflexivity|].
  apply filter_In in H. right. apply G, H.
Qed.
Lemma cellname_props_keeps cfg (fb : bool) c b off e : In e (cl_props c) ->
  named_in [s_bounding_box_name; s_cell_offset_name] (fst e) = false ->
  In e (cellname_props cfg (if fb then attach_bbox c b else c) off).
Proof.
  intros Hi Hn. unfold named_in in Hn. cbn [existsb] in Hn. rewrite orb_false_r in Hn. apply orb_false_iff in Hn. destruct Hn as (Nb & Nc).
  assert (G : In e (cl_props (if fb then attach_bbox c b else c))).
  { destruct fb; [|exact Hi]. destruct (attach_bbox_fields c b) as (_ & _ & _ & _ & _ & ->). right. apply in_rm; assumption. }
  unfold cellname_props. destruct (cfg_cell_offset cfg); [|exact G]. unfold replace_property. right. apply filter_In. split; [exact G|].
  unfold name in *. rewrite Nc. reflexivity.
Qed.
Lemma box_values_no_strings b : value_lens (box_values b) = [].
Proof. destruct (box_values_shape b) as (x & y & w & h & -> & _). reflexivity. Qed.

Definition lens_rel (r : N) (l2 l1 : list N) : Prop :=
  (forall x, In x l2 -> x <= r \/ In x l1) /\ (forall x, In x l1 -> x <= r \/ In x l2).
Lemma lens_rel_app r a2 a1 b2 b1 : lens_rel r a2 a1 -> lens_rel r b2 b1 -> lens_rel r (a2 ++ b2) (a1 ++ b1).
Proof.
  intros (A1 & A2) (B1 & B2). split; intros x Hx; apply in_app_or in Hx; destruct Hx as [Hx|Hx].
  - destruct (A1 x Hx); [left; assumption|right; apply in_or_app; left; assumption].
  - destruct (B1 x Hx); [left; assumption|right; apply in_or_app; right; assumption].
  - destruct (A2 x Hx); [left; assumption|right; apply in_or_app; left; assumption].
  - destruct (B2 x Hx); [left; assumption|right; apply in_or_app; right; assumption].
Qed.
Lemma lens_rel_refl r l : lens_rel r l l.
Proof. split; intros x Hx; right; exact Hx. Qed.

Lemma cell_lens_second cfg (fb : bool) c0 D b off :
  (forall e, In e (cl_props c0) -> named_in [s_bounding_box_name; s_cell_offset_name] (fst e) = false) ->
  let c := lower_cell D c0 in
  lens_rel 28 (cell_string_lens (with_props c0 (cellname_props cfg (if fb then attach_bbox c b else c) off))) (cell_string_lens c0).
Proof.
  intros Hn. cbv zeta. unfold cell_string_lens. cbn [with_props cl_name cl_props cl_polys cl_paths cl_refs cl_labels].
  change (nlen (cl_name c0) :: ?a ++ ?b) with ([nlen (cl_name c0)] ++ a ++ b).
  apply lens_rel_app; [apply lens_rel_refl|]. apply lens_rel_app; [|apply lens_rel_refl].
  split; intros x Hx; apply in_props_lens in Hx; destruct Hx as (e & He & Hx).
  - destruct (cellname_props_entries cfg fb (lower_cell D c0) b off e He) as [->|[->|Hi]].
    + left. cbn in Hx. destruct Hx as [<-|[]]. lia.
    + left. cbn [fst snd] in Hx. rewrite box_values_no_strings in Hx. destruct Hx as [<-|[]]. cbn. lia.
    + right. apply in_props_lens. exists e. split; [exact Hi|exact Hx].
  - right. apply in_props_lens. exists e. split; [|exact Hx]. apply cellname_props_keeps; [exact He|apply Hn, He].
Qed.

Lemma flat_map_lens_rel {A} r (F : A -> list N) : forall l2 l1, Forall2 (fun a b => lens_rel r (F a) (F b)) l2 l1 ->
  lens_rel r (flat_map F l2) (flat_map F l1).
Proof.
  intros l2 l1 H. induction H as [|a b l2 l1 Hab H IH]; [apply lens_rel_refl|]. cbn [flat_map]. apply lens_rel_app; assumption.
Qed.

Lemma cells_left_lens cfg f src l :
  (forall c e, In c (li_cells l) -> In e (cl_props c) -> named_in [s_bounding_box_name; s_cell_offset_name] (fst e) = false) ->
  Forall2 (fun a b => lens_rel 28 (cell_string_lens a) (cell_string_lens b)) (cells_left cfg f src l) (li_cells l).
Proof.
  intro Hn. unfold cells_left. rewrite lib_after_cells, attach_std_cells. set (o := offset_fn cfg (attach_std f src l)).
  destruct (sf_bbox f).
  - pose proof (std_boxes_length src (li_cells l)) as Hl. revert Hl Hn. generalize (std_boxes src (li_cells l)).
    induction (li_cells l) as [|c t IH]; intros boxes Hl Hn; [destruct boxes; [constructor|discriminate]|].
    destruct boxes as [|b bt]; [discriminate|]. cbn [map attach_bboxes zip_props]. constructor.
    + apply (cell_lens_second cfg true c (ss_den src) b). intros e He. apply (Hn c e (or_introl eq_refl) He).
    + apply IH; [cbn [length] in Hl; lia|]. intros c' e Hc He. apply (Hn c' e (or_intror Hc) He).
  - revert Hn. induction (li_cells l) as [|c t IH]; intro Hn; [constructor|]. cbn [map zip_props]. constructor.
    + apply (cell_lens_second cfg false c (ss_den src) BBox.Inverted). intros e He. apply (Hn c e (or_introl eq_refl) He).
    + apply IH. intros c' e Hc He. apply (Hn c' e (or_intror Hc) He).
Qed.

Lemma counts_second cfg f src l : sf_max_counts f = true -> no_reserved_counts l ->
  std_counts f src (lib_after_write cfg f src l) = std_counts f src l.
Proof.
  intros Hf (Hlib & Hcell). set (l2 := lib_after_write cfg f src l).
  assert (Hg : Forall2 geom_eq (li_cells l2) (li_cells l)) by apply cells_left_geom.
  assert (Et : top_cells src (li_cells l2) = top_cells src (li_cells l)) by (apply top_cells_geom, Hg).
  unfold std_counts, props_before_counts. fold (G_of f (top_cells src (li_cells l2)) (li_props l2)). fold (G_of f (top_cells src (li_cells l)) (li_props l)).
  rewrite Et. set (tops := top_cells src (li_cells l)). set (U := li_props l).
  assert (Ep : li_props l2 = pre_max (std_counts f src l) ++ pre_G f tops ++ rml U (names_G f ++ max_names)).
  { change (li_props l2) with (attach_lib_props f src l). rewrite attach_lib_props_nf. cbv zeta. rewrite Hf. fold tops U.
    rewrite G_nf, rml_app, rml_rml. rewrite (rml_none (pre_G f tops) max_names) by (intros e He; apply (pre_G_named f tops e He)). reflexivity. }
  rewrite Ep, !max_counts_spec_lemma. f_equal.
  - (* strings *)
    apply lmax_equiv.
    + intros x Hx. apply in_app_or in Hx. destruct Hx as [Hx|Hx].
      * rewrite G_nf in Hx. apply in_props_lens in Hx. destruct Hx as (e & He & Hx). apply in_app_or in He. destruct He as [He|He].
        -- right. apply in_or_app. left. rewrite G_nf. apply in_props_lens. exists e. split; [apply in_or_app; left; exact He|exact Hx].
        -- apply rml_incl in He. apply in_app_or in He. destruct He as [He|He]; [left; apply (pre_max_lens (std_counts f src l)), in_props_lens; exists e; split; assumption|].
           apply in_app_or in He. destruct He as [He|He].
           ++ right. apply in_or_app. left. rewrite G_nf. apply in_props_lens. exists e. split; [apply in_or_app; left; exact He|exact Hx].
           ++ right. apply in_or_app. left. rewrite G_nf. apply in_props_lens. exists e. split; [|exact Hx]. apply in_or_app. right.
              pose proof (rml_not_named _ _ _ He) as Hn. rewrite named_in_app in Hn. apply orb_false_iff in Hn. apply rml_incl in He.
              apply filter_In. split; [exact He|]. apply negb_true_iff. exact (proj1 Hn).
      * destruct (proj1 (flat_map_lens_rel 28 cell_string_lens _ _ (cells_left_lens cfg f src l Hcell)) x Hx) as [G|G]; [left; exact G|right; apply in_or_app; right; exact G].
    + intros x Hx. apply in_app_or in Hx. destruct Hx as [Hx|Hx].
      * right. apply in_or_app. left. rewrite G_nf in Hx |- *. apply in_props_lens in Hx. destruct Hx as (e & He & Hx). apply in_props_lens. exists e. split; [|exact Hx].
        apply in_app_or in He. destruct He as [He|He]; [apply in_or_app; left; exact He|]. apply in_or_app. right.
        pose proof (rml_not_named _ _ _ He) as Hn. apply rml_incl in He. apply filter_In. split.
        -- apply in_or_app. right. apply in_or_app. right. apply filter_In. split; [exact He|]. apply negb_true_iff. rewrite named_in_app.
           apply orb_false_iff. split; [exact Hn|exact (Hlib e He)].
        -- apply negb_true_iff. exact Hn.
      * destruct (proj2 (flat_map_lens_rel 28 cell_string_lens _ _ (cells_left_lens cfg f src l Hcell)) x Hx) as [G|G]; [left; exact G|right; apply in_or_app; right; exact G].
  - rewrite !flat_map_as_map. do 2 f_equal. apply (Forall2_map_eq cell_polygon_lens geom_eq); [|exact Hg].
    intros a b E. unfold cell_polygon_lens. destruct (geom_eq_fields a b E) as (_ & -> & _). reflexivity.
  - rewrite !flat_map_as_map. do 2 f_equal. apply (Forall2_map_eq cell_path_lens geom_eq); [|exact Hg].
    intros a b E. unfold cell_path_lens. destruct (geom_eq_fields a b E) as (_ & _ & -> & _). reflexivity.
Qed.

(* the second write_oas with the same flags writes the same bytes, provided the user's lists hold no entry that the first
   call counts for S_MAX_STRING_LENGTH and then removes (or MAX_COUNTS is off) *)
Theorem second_write_same_lemma : forall cfg f src l, (sf_max_counts f = false \/ no_reserved_counts l) ->
  write_oas_model_std cfg f src (lib_after_write cfg f src l) = write_oas_model_std cfg f src l.
Proof.
  intros cfg f src l H. unfold write_oas_model_std, write_oas_model. f_equal.
  assert (E : write_oas_run cfg (attach_std f src (lib_after_write cfg f src l)) = write_oas_run cfg (attach_std f src l)).
  { apply write_oas_run_congr.
    - reflexivity.
    - change (li_props (attach_std f src ?x)) with (attach_lib_props f src x). apply lib_props_second.
      destruct H as [H|H]; [left; exact H|]. destruct (sf_max_counts f) eqn:Ef; [right; apply counts_second; assumption|left; reflexivity].
    - apply (Forall2_and_l _ _ _ _ (second_cells cfg f src l)).
    - apply (Forall2_and_r _ _ _ _ (second_cells cfg f src l)). }
  rewrite E. reflexivity.
Qed.

