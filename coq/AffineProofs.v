(* C10 - proofs about the transform model of Affine.v.  Everything is over Q with == (Qeq);
   no real numbers, no axioms. *)
From Coq Require Import QArith Qabs List Bool ZArith Lia Psatz Nsatz Setoid Morphisms.
Require Import Affine.
Import ListNotations.
Open Scope Q_scope.

(* ------------------------------------------------------------------ equalities *)
Lemma veq_refl p : veq p p.
Proof. split; reflexivity. Qed.
Lemma veq_sym p q : veq p q -> veq q p.
Proof. intros [H1 H2]; split; symmetry; assumption. Qed.
Lemma veq_trans p q r : veq p q -> veq q r -> veq p r.
Proof. intros [H1 H2] [H3 H4]; split; etransitivity; eassumption. Qed.
Add Parametric Relation : Vec2 veq
  reflexivity proved by veq_refl symmetry proved by veq_sym transitivity proved by veq_trans as veq_rel.

Lemma aff_eq_refl f : aff_eq f f.
Proof. repeat split; reflexivity. Qed.
Lemma aff_eq_sym f g : aff_eq f g -> aff_eq g f.
Proof. intros (H1 & H2 & H3 & H4 & H5 & H6); repeat split; symmetry; assumption. Qed.
Lemma aff_eq_trans f g h : aff_eq f g -> aff_eq g h -> aff_eq f h.
Proof.
  intros (H1 & H2 & H3 & H4 & H5 & H6) (K1 & K2 & K3 & K4 & K5 & K6);
  repeat split; etransitivity; eassumption.
Qed.
Add Parametric Relation : aff aff_eq
  reflexivity proved by aff_eq_refl symmetry proved by aff_eq_sym transitivity proved by aff_eq_trans as aff_eq_rel.

Definition poly_eq (a b : polygon) : Prop := Forall2 veq a b.
Lemma poly_eq_refl a : poly_eq a a.
Proof. induction a; constructor; auto using veq_refl. Qed.
Lemma poly_eq_sym a b : poly_eq a b -> poly_eq b a.
Proof. induction 1; constructor; auto using veq_sym. Qed.
Lemma poly_eq_trans a b c : poly_eq a b -> poly_eq b c -> poly_eq a c.
Proof.
  intros H; revert c; induction H; intros c Hc; inversion Hc; subst; constructor.
  - eapply veq_trans; eassumption.
  - apply IHForall2; assumption.
Qed.

Lemma map_pointwise (f g : Vec2 -> Vec2) l :
  (forall p, veq (f p) (g p)) -> poly_eq (map f l) (map g l).
Proof. intros H; induction l; simpl; constructor; auto. Qed.

Lemma map_poly_eq (f g : Vec2 -> Vec2) a b :
  (forall p q, veq p q -> veq (f p) (g q)) -> poly_eq a b -> poly_eq (map f a) (map g b).
Proof. intros H; induction 1; simpl; constructor; auto. Qed.

#[export] Instance aff_apply_proper : Proper (aff_eq ==> veq ==> veq) aff_apply.
Proof.
  intros f g (H1 & H2 & H3 & H4 & H5 & H6) p q [K1 K2]; unfold aff_apply; split; simpl;
  rewrite ?H1, ?H2, ?H3, ?H4, ?H5, ?H6, K1, K2; reflexivity.
Qed.

#[export] Instance aff_compose_proper : Proper (aff_eq ==> aff_eq ==> aff_eq) aff_compose.
Proof.
  intros f g (H1 & H2 & H3 & H4 & H5 & H6) f' g' (K1 & K2 & K3 & K4 & K5 & K6);
  unfold aff_compose; repeat split; simpl;
  rewrite ?H1, ?H2, ?H3, ?H4, ?H5, ?H6, ?K1, ?K2, ?K3, ?K4, ?K5, ?K6; reflexivity.
Qed.

(* ------------------------------------------------------------------ algebra of affine maps *)
Theorem aff_compose_apply_lemma f g p :
  veq (aff_apply (aff_compose f g) p) (aff_apply f (aff_apply g p)).
Proof. unfold aff_apply, aff_compose; split; simpl; ring. Qed.

Lemma aff_compose_assoc f g h :
  aff_eq (aff_compose (aff_compose f g) h) (aff_compose f (aff_compose g h)).
Proof. unfold aff_compose; repeat split; simpl; ring. Qed.
Lemma aff_compose_id_l f : aff_eq (aff_compose aff_id f) f.
Proof. unfold aff_compose, aff_id; repeat split; simpl; ring. Qed.
Lemma aff_compose_id_r f : aff_eq (aff_compose f aff_id) f.
Proof. unfold aff_compose, aff_id; repeat split; simpl; ring. Qed.
Lemma aff_id_apply p : veq (aff_apply aff_id p) p.
Proof. unfold aff_apply, aff_id; split; simpl; ring. Qed.
Lemma aff_linear_sub f p q :
  veq (aff_linear f (vsub q p)) (vsub (aff_apply f q) (aff_apply f p)).
Proof. unfold aff_linear, aff_apply, vsub; split; simpl; ring. Qed.
Lemma aff_det_compose f g : aff_det (aff_compose f g) == aff_det f * aff_det g.
Proof. unfold aff_det, aff_compose; simpl; ring. Qed.

(* ------------------------------------------------------------------ angles *)
Lemma aadd_ok a b : angle_ok a -> angle_ok b -> angle_ok (aadd a b).
Proof. unfold angle_ok, aadd; simpl; intros Ha Hb; nsatz. Qed.
Lemma aneg_ok a : angle_ok a -> angle_ok (aneg a).
Proof. unfold angle_ok, aneg; simpl; intros Ha; rewrite <- Ha; ring. Qed.
Lemma asign_ok r a : angle_ok a -> angle_ok (asign r a).
Proof. destruct r; simpl; auto using aneg_ok. Qed.
Lemma azero_ok : angle_ok azero.
Proof. reflexivity. Qed.
Example pythagorean_angles_ok : angle_ok a90 /\ angle_ok a180 /\ angle_ok a270 /\ angle_ok a345 /\ angle_ok a51213.
Proof. repeat split. Qed.

(* ------------------------------------------------------------------ Polygon *)
Lemma pt_translate_affine v p : veq (pt_translate v p) (aff_apply (translate_map v) p).
Proof. unfold pt_translate, aff_apply, translate_map, vadd; split; simpl; ring. Qed.

Theorem polygon_translate_affine_lemma v pts :
  poly_eq (polygon_translate v pts) (map (aff_apply (translate_map v)) pts).
Proof. apply map_pointwise, pt_translate_affine. Qed.

Lemma pt_scale_affine sf c p : veq (pt_scale sf c p) (aff_apply (scale_map sf c) p).
Proof. unfold pt_scale, aff_apply, scale_map, vadd, vmul, vsub; split; simpl; ring. Qed.

Theorem polygon_scale_affine_lemma sf c pts :
  poly_eq (polygon_scale sf c pts) (map (aff_apply (scale_map sf c)) pts).
Proof. apply map_pointwise, pt_scale_affine. Qed.

Lemma pt_rotate_affine a c p : veq (pt_rotate a c p) (aff_apply (rotate_map a c) p).
Proof. unfold pt_rotate, aff_apply, rotate_map, vsub; split; simpl; ring. Qed.

Theorem polygon_rotate_affine_lemma a c pts :
  poly_eq (polygon_rotate a c pts) (map (aff_apply (rotate_map a c)) pts).
Proof. apply map_pointwise, pt_rotate_affine. Qed.

Lemma pt_transform_affine T p : veq (pt_transform T p) (aff_apply (placement_map T) p).
Proof.
  unfold pt_transform, aff_apply, placement_map, vscale, rsign; destruct (p_xrefl T);
  split; simpl; ring.
Qed.

Theorem polygon_transform_affine_lemma T pts :
  poly_eq (polygon_transform T pts) (map (aff_apply (placement_map T)) pts).
Proof. apply map_pointwise, pt_transform_affine. Qed.

(* mirror *)
Lemma mirror_nondeg p0 p1 :
  mirror_degenerate p0 p1 = false ->
  ~ (vx p1 - vx p0) * (vx p1 - vx p0) + (vy p1 - vy p0) * (vy p1 - vy p0) == 0.
Proof.
  unfold mirror_degenerate, length_sq, inner, vsub; simpl; intros H.
  apply Qeq_bool_neq in H. exact H.
Qed.

Lemma pt_mirror_affine p0 p1 p :
  mirror_degenerate p0 p1 = false ->
  veq (pt_mirror p0 p1 p) (aff_apply (mirror_map p0 p1) p).
Proof.
  intros H. pose proof (mirror_nondeg _ _ H) as Hn.
  unfold mirror_map. unfold mirror_degenerate in H. rewrite H.
  unfold pt_mirror, aff_apply, length_sq, inner, vsub, vadd, vscale; split; simpl; field; exact Hn.
Qed.

Theorem polygon_mirror_affine_lemma p0 p1 pts :
  poly_eq (polygon_mirror p0 p1 pts) (map (aff_apply (mirror_map p0 p1)) pts).
Proof.
  unfold polygon_mirror. destruct (mirror_degenerate p0 p1) eqn:H.
  - unfold mirror_map. unfold mirror_degenerate in H. rewrite H.
    induction pts; simpl; constructor; auto. symmetry; apply aff_id_apply.
  - apply map_pointwise. intros p; apply pt_mirror_affine; exact H.
Qed.

(* the map computed by `mirror` IS the reflection across the line p0p1: the midpoint of p and its
   image lies on the line, the displacement is perpendicular to it - and these two conditions
   determine the image. *)
Definition midpoint (p q : Vec2) : Vec2 := V2 ((vx p + vx q) / 2) ((vy p + vy q) / 2).
Definition is_reflection_of (p0 p1 p q : Vec2) : Prop :=
  cross (vsub (midpoint p q) p0) (vsub p1 p0) == 0 /\ inner (vsub q p) (vsub p1 p0) == 0.

Theorem polygon_mirror_is_reflection_lemma p0 p1 p :
  mirror_degenerate p0 p1 = false -> is_reflection_of p0 p1 p (pt_mirror p0 p1 p).
Proof.
  intros H. pose proof (mirror_nondeg _ _ H) as Hn.
  unfold is_reflection_of, pt_mirror, midpoint, cross, length_sq, inner, vsub, vadd, vscale; split; simpl;
  field; exact Hn.
Qed.

Theorem reflection_unique_lemma p0 p1 p q :
  mirror_degenerate p0 p1 = false -> is_reflection_of p0 p1 p q -> veq q (pt_mirror p0 p1 p).
Proof.
  intros H [H1 H2]. pose proof (mirror_nondeg _ _ H) as Hn.
  unfold pt_mirror, midpoint, cross, length_sq, inner, vsub, vadd, vscale, veq in *; simpl in *.
  destruct p0 as [ax ay], p1 as [bx by_], p as [px py], q as [qx qy]; simpl in *.
  set (dx := bx - ax) in *. set (dy := by_ - ay) in *.
  assert (K1 : ((px + qx) / 2 - ax) * dy - ((py + qy) / 2 - ay) * dx ==
               ((px + qx - 2 * ax) * dy - (py + qy - 2 * ay) * dx) / 2) by (field).
  rewrite K1 in H1.
  assert (H1' : (px + qx - 2 * ax) * dy - (py + qy - 2 * ay) * dx == 0).
  { assert (E : forall z, z / 2 == 0 -> z == 0) by (intros z Hz; rewrite <- (Qmult_div_r z 2) by discriminate; rewrite Hz; ring).
    apply E; exact H1. }
  clear H1 K1.
  clearbody dx dy.
  split.
  - apply (Qmult_inj_r _ _ (dx * dx + dy * dy)); [exact Hn|].
    transitivity (dx * (dx * (px - ax) + dy * (py - ay)) * 2 - px * (dx*dx+dy*dy) + ax * 2 * (dx*dx+dy*dy)).
    + assert (E : qx * (dx * dx + dy * dy) ==
                  dx * (dx * (px - ax) + dy * (py - ay)) * 2 - px * (dx*dx+dy*dy) + ax * 2 * (dx*dx+dy*dy)
                  + (dx * ((qx - px) * dx + (qy - py) * dy)
                     + dy * ((px + qx - 2 * ax) * dy - (py + qy - 2 * ay) * dx))) by ring.
      rewrite E, H2, H1'. ring.
    + field; exact Hn.
  - apply (Qmult_inj_r _ _ (dx * dx + dy * dy)); [exact Hn|].
    transitivity (dy * (dx * (px - ax) + dy * (py - ay)) * 2 - py * (dx*dx+dy*dy) + ay * 2 * (dx*dx+dy*dy)).
    + assert (E : qy * (dx * dx + dy * dy) ==
                  dy * (dx * (px - ax) + dy * (py - ay)) * 2 - py * (dx*dx+dy*dy) + ay * 2 * (dx*dx+dy*dy)
                  + (dy * ((qx - px) * dx + (qy - py) * dy)
                     - dx * ((px + qx - 2 * ax) * dy - (py + qy - 2 * ay) * dx))) by ring.
      rewrite E, H2, H1'. ring.
    + field; exact Hn.
Qed.

Example mirror_example :
  polygon_mirror (V2 0 0) (V2 1 1) [V2 2 0; V2 3 1] = polygon_mirror (V2 0 0) (V2 1 1) [V2 2 0; V2 3 1]
  /\ poly_eq (polygon_mirror (V2 0 0) (V2 1 1) [V2 2 0; V2 3 1]) [V2 0 2; V2 1 3].
Proof. split; [reflexivity|]. repeat constructor; vm_compute; reflexivity. Qed.

(* ------------------------------------------------------------------ Label / Reference *)
(* "Transforming a reference or label yields the composition of the two placements (rotation sign
   flips under reflection, magnifications multiply)". *)
Theorem reference_transform_compose_lemma T P :
  aff_eq (placement_map (placement_transform T P)) (aff_compose (placement_map T) (placement_map P)).
Proof.
  unfold placement_map, placement_transform, aff_compose, aadd, asign, aneg, rsign.
  destruct (p_xrefl T), (p_xrefl P); repeat split; simpl; ring.
Qed.

(* Label::transform is the same statement sequence as Reference::transform *)
Definition label_transform_compose_lemma := reference_transform_compose_lemma.

Lemma placement_transform_angle_ok T P :
  angle_ok (p_rot T) -> angle_ok (p_rot P) -> angle_ok (p_rot (placement_transform T P)).
Proof. intros; simpl; apply aadd_ok; [apply asign_ok|]; assumption. Qed.

(* the four components spelled out *)
Theorem reference_transform_fields_lemma T P :
  p_mag (placement_transform T P) == p_mag T * p_mag P /\
  p_xrefl (placement_transform T P) = xorb (p_xrefl P) (p_xrefl T) /\
  aeq (p_rot (placement_transform T P))
      (aadd (if p_xrefl T then aneg (p_rot P) else p_rot P) (p_rot T)) /\
  veq (p_orig (placement_transform T P)) (aff_apply (placement_map T) (p_orig P)).
Proof.
  repeat split; simpl; try reflexivity; try ring;
  unfold rsign; destruct (p_xrefl T); simpl; ring.
Qed.

Lemma placement_shift_map o P :
  aff_eq (placement_map (placement_shift o P)) (aff_compose (translate_map o) (placement_map P)).
Proof. unfold placement_map, placement_shift, aff_compose, translate_map; repeat split; simpl; ring. Qed.

(* ------------------------------------------------------------------ sequences of transforms *)
Lemma polygon_apply_op_affine o pts :
  poly_eq (polygon_apply_op o pts) (map (aff_apply (op_map o)) pts).
Proof.
  destruct o; simpl.
  - apply polygon_translate_affine_lemma.
  - apply polygon_scale_affine_lemma.
  - apply polygon_mirror_affine_lemma.
  - apply polygon_rotate_affine_lemma.
  - apply polygon_transform_affine_lemma.
Qed.

Lemma pt_translate_proper v p q : veq p q -> veq (pt_translate v p) (pt_translate v q).
Proof. intros [H1 H2]; unfold pt_translate, vadd; split; simpl; rewrite ?H1, ?H2; reflexivity. Qed.
Lemma pt_scale_proper sf c p q : veq p q -> veq (pt_scale sf c p) (pt_scale sf c q).
Proof. intros [H1 H2]; unfold pt_scale, vadd, vmul, vsub; split; simpl; rewrite ?H1, ?H2; reflexivity. Qed.
Lemma pt_mirror_proper p0 p1 p q : veq p q -> veq (pt_mirror p0 p1 p) (pt_mirror p0 p1 q).
Proof.
  intros [H1 H2]; unfold pt_mirror, vadd, vsub, vscale, inner; split; simpl; rewrite ?H1, ?H2; reflexivity.
Qed.
Lemma pt_rotate_proper a c p q : veq p q -> veq (pt_rotate a c p) (pt_rotate a c q).
Proof. intros [H1 H2]; unfold pt_rotate, vsub; split; simpl; rewrite ?H1, ?H2; reflexivity. Qed.
Lemma pt_transform_proper T p q : veq p q -> veq (pt_transform T p) (pt_transform T q).
Proof.
  intros [H1 H2]; unfold pt_transform, vscale; destruct (p_xrefl T); split; simpl;
  rewrite ?H1, ?H2; reflexivity.
Qed.

Lemma polygon_apply_op_proper o a b : poly_eq a b -> poly_eq (polygon_apply_op o a) (polygon_apply_op o b).
Proof.
  intros H; destruct o; simpl.
  - apply map_poly_eq; auto using pt_translate_proper.
  - apply map_poly_eq; auto using pt_scale_proper.
  - unfold polygon_mirror; destruct (mirror_degenerate p0 p1); auto.
    apply map_poly_eq; auto using pt_mirror_proper.
  - apply map_poly_eq; auto using pt_rotate_proper.
  - apply map_poly_eq; auto using pt_transform_proper.
Qed.

Lemma map_aff_compose f g pts :
  poly_eq (map (aff_apply f) (map (aff_apply g) pts)) (map (aff_apply (aff_compose f g)) pts).
Proof.
  rewrite map_map. apply map_pointwise. intros p; symmetry; apply aff_compose_apply_lemma.
Qed.

Lemma transform_sequence_gen ops : forall pts pts0 A,
  poly_eq pts (map (aff_apply A) pts0) ->
  poly_eq (fold_left (fun acc o => polygon_apply_op o acc) ops pts)
          (map (aff_apply (fold_left (fun acc o => aff_compose (op_map o) acc) ops A)) pts0).
Proof.
  induction ops as [|o ops IH]; intros pts pts0 A H; simpl; [exact H|].
  apply IH.
  eapply poly_eq_trans; [apply polygon_apply_op_proper; exact H|].
  eapply poly_eq_trans; [apply polygon_apply_op_affine|].
  apply map_aff_compose.
Qed.

(* any sequence of translate / scale / mirror / rotate / transform calls on a polygon moves every
   vertex by the composition of the affine maps of the calls *)
Theorem transform_sequence_lemma ops pts :
  poly_eq (polygon_apply_ops ops pts) (map (aff_apply (ops_map ops)) pts).
Proof.
  unfold polygon_apply_ops, ops_map. apply transform_sequence_gen.
  induction pts; simpl; constructor; auto. symmetry; apply aff_id_apply.
Qed.

Lemma placement_sequence_gen Ts : forall P A P0,
  aff_eq (placement_map P) (aff_compose A (placement_map P0)) ->
  aff_eq (placement_map (fold_left (fun acc T => placement_transform T acc) Ts P))
         (aff_compose (fold_left (fun acc T => aff_compose (placement_map T) acc) Ts A) (placement_map P0)).
Proof.
  induction Ts as [|T Ts IH]; intros P A P0 H; simpl; [exact H|].
  apply IH. rewrite reference_transform_compose_lemma, H. symmetry; apply aff_compose_assoc.
Qed.

(* the same for a reference or a label: its placement after a list of transforms is the
   composition of their maps with the original placement *)
Theorem reference_transform_sequence_lemma Ts P :
  aff_eq (placement_map (placement_apply_ops Ts P)) (aff_compose (placements_map Ts) (placement_map P)).
Proof.
  unfold placement_apply_ops, placements_map. apply placement_sequence_gen.
  symmetry; apply aff_compose_id_l.
Qed.

(* ------------------------------------------------------------------ centre lines without square roots *)
(* c is the point at signed distance `off` to the left of `pos` along the unit normal of `dir`:
   c = pos + t * ortho(dir) with t*|dir| = off, i.e. t^2 |dir|^2 = off^2 and t, off of the same
   sign.  (FlexPath::to_polygons: p0 = spine[k] + normal * offset, normal = ortho(spine[k+1]-spine[k])
   normalised; RobustPath::center_position: spine + offset * offset_scale * normalised
   ortho(gradient).) *)
Definition centre_rel (pos dir : Vec2) (off : Q) (c : Vec2) : Prop :=
  exists t : Q, veq c (vadd pos (vscale (ortho dir) t)) /\
                t * t * length_sq dir == off * off /\ 0 <= t * off.

(* a similarity: linear part k * R(angle) * F^reverses with (u,w) = k*(cos,sin) *)
Definition similarity (A : aff) (reverses : bool) (u w : Q) : Prop :=
  aa A == u /\ ab A == - (rsign reverses * w) /\ ac A == w /\ ad A == rsign reverses * u.

Lemma rsign_sq r : rsign r * rsign r == 1.
Proof. destruct r; reflexivity. Qed.

Lemma centre_rel_proper pos pos' dir dir' off off' c c' :
  veq pos pos' -> veq dir dir' -> off == off' -> veq c c' ->
  centre_rel pos dir off c -> centre_rel pos' dir' off' c'.
Proof.
  intros [P1 P2] [D1 D2] HO [C1 C2] (t & [E1 E2] & E3 & E4). exists t.
  unfold vadd, vscale, ortho, length_sq, inner in *; simpl in *.
  repeat split; simpl.
  - rewrite <- C1, <- P1, <- D2. exact E1.
  - rewrite <- C2, <- P2, <- D1. exact E2.
  - rewrite <- D1, <- D2, <- HO. exact E3.
  - rewrite <- HO. exact E4.
Qed.

(* The image of the centre point under a similarity with factor k >= 0 and orientation sign r is
   the centre point of the image data exactly when the offset becomes r * k * off. *)
Theorem centre_rel_similarity_lemma A reverses u w k pos dir off c :
  similarity A reverses u w -> 0 <= k -> k * k == u * u + w * w ->
  centre_rel pos dir off c ->
  centre_rel (aff_apply A pos) (aff_linear A dir) (rsign reverses * k * off) (aff_apply A c).
Proof.
  intros (S1 & S2 & S3 & S4) Hk Hkk (t & [E1 E2] & E3 & E4).
  exists (rsign reverses * t).
  unfold aff_apply, aff_linear, vadd, vscale, ortho, length_sq, inner in *; simpl in *.
  assert (G4 : 0 <= k * (t * off)) by (apply Qmult_le_0_compat; assumption).
  destruct reverses; unfold rsign in *; repeat split; simpl.
  - rewrite E1, E2, S1, S2, S3, S4. ring.
  - rewrite E1, E2, S1, S2, S3, S4. ring.
  - rewrite S1, S2, S3, S4.
    transitivity (t * t * (vx dir * vx dir + vy dir * vy dir) * (u * u + w * w)); [ring|].
    rewrite E3, <- Hkk. ring.
  - setoid_replace (-1 * t * (-1 * k * off)) with (k * (t * off)) by ring. exact G4.
  - rewrite E1, E2, S1, S2, S3, S4. ring.
  - rewrite E1, E2, S1, S2, S3, S4. ring.
  - rewrite S1, S2, S3, S4.
    transitivity (t * t * (vx dir * vx dir + vy dir * vy dir) * (u * u + w * w)); [ring|].
    rewrite E3, <- Hkk. ring.
  - setoid_replace (1 * t * (1 * k * off)) with (k * (t * off)) by ring. exact G4.
Qed.

(* ... and no other offset will do (when the direction is not degenerate) *)
Theorem centre_rel_offset_unique pos dir off off' c :
  ~ length_sq dir == 0 -> centre_rel pos dir off c -> centre_rel pos dir off' c -> off == off'.
Proof.
  intros Hn (t & [E1 E2] & E3 & E4) (t' & [F1 F2] & F3 & F4).
  unfold vadd, vscale, ortho, length_sq, inner in *; simpl in *.
  set (dx := vx dir) in *. set (dy := vy dir) in *. clearbody dx dy.
  assert (Ht : t == t').
  { rewrite E1 in F1. rewrite E2 in F2.
    assert (G1 : (t - t') * dy == 0) by (transitivity ((vx pos + - dy * t') - (vx pos + - dy * t)); [ring|rewrite F1; ring]).
    assert (G2 : (t - t') * dx == 0) by (transitivity ((vy pos + dx * t) - (vy pos + dx * t')); [ring|rewrite F2; ring]).
    assert (G : (t - t') * (dx * dx + dy * dy) == 0).
    { transitivity ((t - t') * dx * dx + (t - t') * dy * dy); [ring|]. rewrite G1, G2. ring. }
    apply Qmult_integral in G. destruct G as [G|G]; [|contradiction].
    transitivity (t - t' + t'); [ring|]. rewrite G. ring. }
  rewrite <- Ht in F3, F4. clear F1 F2 E1 E2 Ht t'.
  assert (Hsq : off * off == off' * off') by (rewrite <- E3, <- F3; reflexivity).
  assert (Hp : (off - off') * (off + off') == 0) by (transitivity (off * off - off' * off'); [ring|rewrite Hsq; ring]).
  apply Qmult_integral in Hp. destruct Hp as [Hp|Hp].
  - transitivity (off - off' + off'); [ring|]. rewrite Hp. ring.
  - (* off = - off': then t*off >= 0 and t*off' = -(t*off) >= 0 force t*off = 0 *)
    assert (Ho : off' == - off) by (transitivity (off + off' - off); [ring|rewrite Hp; ring]).
    rewrite Ho in F4.
    assert (Hz : t * off == 0).
    { apply Qle_antisym; [|exact E4].
      setoid_replace (t * off) with (- (t * - off)) by ring.
      setoid_replace 0 with (- 0) by ring. apply Qopp_le_compat. exact F4. }
    apply Qmult_integral in Hz. destruct Hz as [Hz|Hz].
    + rewrite Hz in E3. assert (Hoo : off * off == 0) by (rewrite <- E3; ring).
      apply Qmult_integral in Hoo. assert (Hoz : off == 0) by (destruct Hoo; assumption).
      rewrite Ho, Hoz. ring.
    + rewrite Ho, Hz. ring.
Qed.

(* the similarities the routines stand for *)
Lemma similarity_translate v : similarity (translate_map v) false 1 0.
Proof. unfold similarity, translate_map, rsign; simpl; repeat split; ring. Qed.
Lemma similarity_scale s c : similarity (scale_map (V2 s s) c) false s 0.
Proof. unfold similarity, scale_map, rsign; simpl; repeat split; ring. Qed.
Lemma similarity_rotate a c : similarity (rotate_map a c) false (acos a) (asin a).
Proof. unfold similarity, rotate_map, rsign; simpl; repeat split; ring. Qed.
Lemma similarity_placement T :
  similarity (placement_map T) (p_xrefl T) (p_mag T * acos (p_rot T)) (p_mag T * asin (p_rot T)).
Proof. unfold similarity, placement_map; simpl; repeat split; ring. Qed.
Lemma similarity_mirror p0 p1 :
  mirror_degenerate p0 p1 = false ->
  let v := vsub p1 p0 in
  similarity (mirror_map p0 p1) true
             ((vx v * vx v - vy v * vy v) / length_sq v) ((2 * vx v * vy v) / length_sq v).
Proof.
  intros H v. subst v. unfold mirror_map. unfold mirror_degenerate in H. rewrite H.
  unfold similarity, rsign; simpl; repeat split; ring.
Qed.

Lemma Qabs_sq s : Qabs s * Qabs s == s * s.
Proof.
  destruct (Qlt_le_dec s 0) as [H|H].
  - rewrite (Qabs_neg s) by (apply Qlt_le_weak; exact H). ring.
  - rewrite (Qabs_pos s) by exact H. ring.
Qed.

Lemma mirror_unit p0 p1 :
  mirror_degenerate p0 p1 = false ->
  let v := vsub p1 p0 in
  1 * 1 == ((vx v * vx v - vy v * vy v) / length_sq v) * ((vx v * vx v - vy v * vy v) / length_sq v)
           + ((2 * vx v * vy v) / length_sq v) * ((2 * vx v * vy v) / length_sq v).
Proof.
  intros H v. pose proof (mirror_nondeg _ _ H) as Hn.
  unfold v, length_sq, inner, vsub; simpl. field. exact Hn.
Qed.

(* ------------------------------------------------------------------ FlexPath *)
(* c0, c1 are the two ends of the centre line of element e over spine segment k *)
Definition fp_centres (f : flexpath) (e k : nat) (c0 c1 : Vec2) : Prop :=
  exists p q el wo0 wo1,
    nth_error (fp_spine f) k = Some p /\ nth_error (fp_spine f) (S k) = Some q /\
    nth_error (fp_elems f) e = Some el /\
    nth_error (fe_hwo el) k = Some wo0 /\ nth_error (fe_hwo el) (S k) = Some wo1 /\
    centre_rel p (vsub q p) (vy wo0) c0 /\ centre_rel q (vsub q p) (vy wo1) c1.

(* f' arises from f by moving the spine with gp and every (half width, offset) pair with gwo *)
Definition fp_mapped (gp gwo : Vec2 -> Vec2) (f f' : flexpath) : Prop :=
  fp_spine f' = map gp (fp_spine f) /\
  exists gext, fp_elems f' = map (fe_map gwo gext) (fp_elems f).

Lemma vsub_proper a a' b b' : veq a a' -> veq b b' -> veq (vsub a b) (vsub a' b').
Proof. intros [H1 H2] [H3 H4]; unfold vsub; split; simpl; rewrite ?H1, ?H2, ?H3, ?H4; reflexivity. Qed.

Lemma fp_centres_mapped A reverses u w k gp gwo f f' e kk c0 c1 :
  fp_mapped gp gwo f f' ->
  (forall p, veq (gp p) (aff_apply A p)) ->
  (forall wo, vy (gwo wo) == rsign reverses * k * vy wo) ->
  similarity A reverses u w -> 0 <= k -> k * k == u * u + w * w ->
  fp_centres f e kk c0 c1 ->
  fp_centres f' e kk (aff_apply A c0) (aff_apply A c1).
Proof.
  intros [Hs [gext He]] Hgp Hgwo HS Hk Hkk (p & q & el & wo0 & wo1 & N1 & N2 & N3 & N4 & N5 & C0 & C1).
  exists (gp p), (gp q), (fe_map gwo gext el), (gwo wo0), (gwo wo1).
  rewrite Hs, He. rewrite !nth_error_map, N1, N2, N3. cbn [option_map fe_map fe_hwo].
  rewrite !nth_error_map, N4, N5. cbn [option_map].
  repeat split; try reflexivity.
  - eapply centre_rel_proper; [| | | apply veq_refl | eapply centre_rel_similarity_lemma; [exact HS|exact Hk|exact Hkk|exact C0]].
    + symmetry; apply Hgp.
    + eapply veq_trans; [apply aff_linear_sub|]. apply vsub_proper; symmetry; apply Hgp.
    + symmetry; apply Hgwo.
  - eapply centre_rel_proper; [| | | apply veq_refl | eapply centre_rel_similarity_lemma; [exact HS|exact Hk|exact Hkk|exact C1]].
    + symmetry; apply Hgp.
    + eapply veq_trans; [apply aff_linear_sub|]. apply vsub_proper; symmetry; apply Hgp.
    + symmetry; apply Hgwo.
Qed.

Lemma fe_map_id el : fe_map (fun wo => wo) (fun x => x) el = el.
Proof. destruct el; unfold fe_map; simpl. rewrite map_id. reflexivity. Qed.
Lemma map_fe_map_id l : map (fe_map (fun wo => wo) (fun x => x)) l = l.
Proof. induction l; simpl; [reflexivity|]. rewrite fe_map_id, IHl. reflexivity. Qed.

Theorem flexpath_translate_centre_lemma v f e k c0 c1 :
  fp_centres f e k c0 c1 ->
  fp_centres (flexpath_translate v f) e k (aff_apply (translate_map v) c0) (aff_apply (translate_map v) c1).
Proof.
  apply (fp_centres_mapped (translate_map v) false 1 0 1 (pt_translate v) (fun wo => wo)).
  - split; [reflexivity|]. exists (fun x => x). simpl. symmetry; apply map_fe_map_id.
  - apply pt_translate_affine.
  - intros wo; unfold rsign; ring.
  - apply similarity_translate.
  - discriminate.
  - reflexivity.
Qed.

Theorem flexpath_scale_centre_lemma s center f e k c0 c1 :
  fp_centres f e k c0 c1 ->
  fp_centres (flexpath_scale s center f) e k
             (aff_apply (scale_map (V2 s s) center) c0) (aff_apply (scale_map (V2 s s) center) c1).
Proof.
  apply (fp_centres_mapped (scale_map (V2 s s) center) false s 0 (Qabs s)
           (fun p => vadd (vscale (vsub p center) s) center)
           (fun wo => vmul wo (flex_wo_scale (fp_scale_width f) s))).
  - split; [reflexivity|]. exists (fun x => vscale x (Qabs s)). reflexivity.
  - intros p. unfold aff_apply, scale_map, vadd, vscale, vsub; split; simpl; ring.
  - intros wo. unfold rsign, vmul, flex_wo_scale; simpl. ring.
  - apply similarity_scale.
  - apply Qabs_nonneg.
  - rewrite Qabs_sq. ring.
Qed.

Theorem flexpath_mirror_centre_lemma p0 p1 f e k c0 c1 :
  mirror_degenerate p0 p1 = false ->
  fp_centres f e k c0 c1 ->
  fp_centres (flexpath_mirror p0 p1 f) e k
             (aff_apply (mirror_map p0 p1) c0) (aff_apply (mirror_map p0 p1) c1).
Proof.
  intros H. unfold flexpath_mirror. rewrite H.
  eapply (fp_centres_mapped (mirror_map p0 p1) true _ _ 1 (pt_mirror p0 p1)
            (fun wo => V2 (vx wo) (- vy wo))).
  - split; [reflexivity|]. exists (fun x => x). reflexivity.
  - intros p; apply pt_mirror_affine; exact H.
  - intros wo; unfold rsign; simpl; ring.
  - apply similarity_mirror; exact H.
  - discriminate.
  - apply mirror_unit; exact H.
Qed.

Theorem flexpath_rotate_centre_lemma a center f e k c0 c1 :
  angle_ok a ->
  fp_centres f e k c0 c1 ->
  fp_centres (flexpath_rotate a center f) e k
             (aff_apply (rotate_map a center) c0) (aff_apply (rotate_map a center) c1).
Proof.
  intros Ha.
  apply (fp_centres_mapped (rotate_map a center) false (acos a) (asin a) 1 (pt_rotate a center) (fun wo => wo)).
  - split; [reflexivity|]. exists (fun x => x). simpl. symmetry; apply map_fe_map_id.
  - apply pt_rotate_affine.
  - intros wo; unfold rsign; ring.
  - apply similarity_rotate.
  - discriminate.
  - unfold angle_ok in Ha. rewrite Ha. reflexivity.
Qed.

Definition fp_offsets_of (f : flexpath) : list (list Q) := map (fun el => map vy (fe_hwo el)) (fp_elems f).
Definition fp_half_widths_of (f : flexpath) : list (list Q) := map (fun el => map vx (fe_hwo el)) (fp_elems f).

(* FlexPath::transform (as repaired): right for every magnification, both reflection states and
   every angle *)
Theorem flexpath_transform_centre_lemma T f e k c0 c1 :
  angle_ok (p_rot T) ->
  fp_centres f e k c0 c1 ->
  fp_centres (flexpath_transform T f) e k
             (aff_apply (placement_map T) c0) (aff_apply (placement_map T) c1).
Proof.
  intros Ha.
  apply (fp_centres_mapped (placement_map T) (p_xrefl T) (p_mag T * acos (p_rot T)) (p_mag T * asin (p_rot T))
           (Qabs (p_mag T)) (pt_transform T)
           (fun wo => vmul wo (flex_wo_transform (fp_scale_width f) (p_mag T) (p_xrefl T)))).
  - split; [reflexivity|]. exists (fun x => vscale x (Qabs (p_mag T))). reflexivity.
  - apply pt_transform_affine.
  - intros wo; unfold vmul, flex_wo_transform, rsign; destruct (p_xrefl T); simpl; ring.
  - apply similarity_placement.
  - apply Qabs_nonneg.
  - rewrite Qabs_sq.
    transitivity (p_mag T * p_mag T * (acos (p_rot T) * acos (p_rot T) + asin (p_rot T) * asin (p_rot T))); [|ring].
    unfold angle_ok in Ha. rewrite Ha. ring.
Qed.

(* width clause: half widths change iff scale_width (by |s|), offsets always, extensions by |s| *)
Theorem flexpath_scale_widths_lemma s center f :
  fp_elems (flexpath_scale s center f) =
  map (fe_map (fun wo => V2 (vx wo * (if fp_scale_width f then Qabs s else 1)) (vy wo * Qabs s))
              (fun x => vscale x (Qabs s))) (fp_elems f).
Proof. reflexivity. Qed.

(* parameters after FlexPath::transform: half widths times |mag| iff scale_width, offsets times
   r * |mag| (r = -1 under x_reflection), end extensions times |mag| - never a negative width,
   never a negative extension *)
Theorem flexpath_transform_params_lemma T f :
  fp_elems (flexpath_transform T f) =
  map (fe_map (fun wo => V2 (vx wo * (if fp_scale_width f then Qabs (p_mag T) else 1))
                            (vy wo * (if p_xrefl T then - Qabs (p_mag T) else Qabs (p_mag T))))
              (fun x => vscale x (Qabs (p_mag T)))) (fp_elems f).
Proof. reflexivity. Qed.

Theorem flexpath_transform_offsets_lemma T f el wo :
  In el (fp_elems (flexpath_transform T f)) -> In wo (fe_hwo el) ->
  exists wo0, vy wo == rsign (p_xrefl T) * Qabs (p_mag T) * vy wo0 /\
              vx wo == (if fp_scale_width f then Qabs (p_mag T) else 1) * vx wo0 /\
              (0 <= vx wo0 -> 0 <= vx wo).
Proof.
  rewrite flexpath_transform_params_lemma. intros He Hw.
  apply in_map_iff in He. destruct He as (el0 & <- & _).
  unfold fe_map in Hw; simpl in Hw. apply in_map_iff in Hw. destruct Hw as (wo0 & <- & _).
  exists wo0. simpl. repeat split.
  - unfold rsign; destruct (p_xrefl T); ring.
  - ring.
  - intros H0. destruct (fp_scale_width f).
    + apply Qmult_le_0_compat; [exact H0|apply Qabs_nonneg].
    + setoid_replace (vx wo0 * 1) with (vx wo0) by ring. exact H0.
Qed.

(* the two probes that exposed finding F7, now on the right side of the spine *)
Definition f7_path : flexpath :=
  FP [V2 0 0; V2 1 0] (FE [V2 (1#2) 1; V2 (1#2) 1] vzero :: nil) true.
Definition f7_reflect : placement := Pl vzero azero 1 true.
Definition f7_negmag : placement := Pl vzero azero (-1) false.

Lemma f7_path_centres : fp_centres f7_path 0 0 (V2 0 1) (V2 1 1).
Proof.
  exists (V2 0 0), (V2 1 0), (FE [V2 (1#2) 1; V2 (1#2) 1] vzero), (V2 (1#2) 1), (V2 (1#2) 1).
  repeat split; try reflexivity; exists 1; repeat split; vm_compute; try reflexivity; discriminate.
Qed.

Example flexpath_transform_probes :
  fp_centres (flexpath_transform f7_reflect f7_path) 0 0
             (aff_apply (placement_map f7_reflect) (V2 0 1)) (aff_apply (placement_map f7_reflect) (V2 1 1)) /\
  fp_centres (flexpath_transform f7_negmag f7_path) 0 0
             (aff_apply (placement_map f7_negmag) (V2 0 1)) (aff_apply (placement_map f7_negmag) (V2 1 1)) /\
  map (map Qred) (fp_offsets_of (flexpath_transform f7_reflect f7_path)) = ([-1; -1] :: nil) /\
  map (map Qred) (fp_offsets_of (flexpath_transform f7_negmag f7_path)) = ([1; 1] :: nil) /\
  map (map Qred) (fp_half_widths_of (flexpath_transform f7_negmag f7_path)) = ([1#2; 1#2] :: nil).
Proof.
  split; [apply flexpath_transform_centre_lemma; [reflexivity|apply f7_path_centres]|].
  split; [apply flexpath_transform_centre_lemma; [reflexivity|apply f7_path_centres]|].
  vm_compute. repeat split.
Qed.

(* the code before the repair does not have the property (what the outline oracle of
   harness/c10_transform.cpp reports when df9071a is reverted) *)
Lemma f7_no_centre T c0 c1 :
  (T = f7_reflect /\ c0 = V2 0 (-1)) \/ (T = f7_negmag /\ c0 = V2 0 (-1)) ->
  ~ fp_centres (flexpath_transform_unrepaired T f7_path) 0 0 c0 c1.
Proof.
  intros HT (p & q & el & wo0 & wo1 & N1 & N2 & N3 & N4 & N5 & (t & [E1 E2] & E3 & E4) & _).
  destruct HT as [[-> ->]|[-> ->]]; vm_compute in N1, N2, N3;
  injection N1 as <-; injection N2 as <-; injection N3 as <-;
  vm_compute in N4; injection N4 as <-;
  unfold vadd, vscale, ortho, vsub in *; simpl in *; lra.
Qed.

Theorem flexpath_transform_unrepaired_refuted :
  exists T f e k c0 c1,
    angle_ok (p_rot T) /\ fp_centres f e k c0 c1 /\
    ~ fp_centres (flexpath_transform_unrepaired T f) e k (aff_apply (placement_map T) c0) (aff_apply (placement_map T) c1).
Proof.
  exists f7_reflect, f7_path, 0%nat, 0%nat, (V2 0 1), (V2 1 1).
  split; [reflexivity|]. split; [apply f7_path_centres|].
  intros H.
  apply (f7_no_centre f7_reflect (V2 0 (-1)) (aff_apply (placement_map f7_reflect) (V2 1 1))); [left; split; reflexivity|].
  destruct H as (p & q & el & wo0 & wo1 & N1 & N2 & N3 & N4 & N5 & C0 & C1).
  exists p, q, el, wo0, wo1.
  refine (conj N1 (conj N2 (conj N3 (conj N4 (conj N5 (conj _ C1)))))).
  eapply centre_rel_proper; [apply veq_refl|apply veq_refl|reflexivity| |exact C0].
  split; vm_compute; reflexivity.
Qed.

(* ------------------------------------------------------------------ RobustPath *)
Definition op_ok (o : op) : Prop :=
  match o with
  | OMirror p0 p1 => mirror_degenerate p0 p1 = false
  | ORotate a _ => angle_ok a
  | OTransform T => angle_ok (p_rot T)
  | _ => True
  end.

Lemma rp_translate_trafo v r :
  aff_eq (rp_trafo (rp_translate v r)) (aff_compose (translate_map v) (rp_trafo r)).
Proof. unfold rp_translate, aff_compose, translate_map; repeat split; simpl; ring. Qed.

Lemma rp_transform_trafo T r :
  aff_eq (rp_trafo (rp_transform T r)) (aff_compose (placement_map T) (rp_trafo r)).
Proof.
  unfold rp_transform, rp_translate, rp_simple_rotate, rp_x_reflection, rp_simple_scale,
    aff_compose, placement_map, rsign.
  destruct (p_xrefl T); repeat split; simpl; ring.
Qed.

Lemma Qeq_bool_morph x y : x == y -> Qeq_bool x 0 = Qeq_bool y 0.
Proof.
  intros H. destruct (Qeq_bool x 0) eqn:E1, (Qeq_bool y 0) eqn:E2; try reflexivity.
  - apply Qeq_bool_eq in E1. apply Qeq_bool_neq in E2. exfalso; apply E2. rewrite <- H; exact E1.
  - apply Qeq_bool_eq in E2. apply Qeq_bool_neq in E1. exfalso; apply E1. rewrite H; exact E2.
Qed.

Lemma rp_mirror_trafo p0 p1 r :
  mirror_degenerate p0 p1 = false ->
  aff_eq (rp_trafo (rp_mirror p0 p1 r)) (aff_compose (mirror_map p0 p1) (rp_trafo r)).
Proof.
  intros H. pose proof (mirror_nondeg _ _ H) as Hn.
  assert (Hn' : ~ (vx p0 - vx p1) * (vx p0 - vx p1) + (vy p0 - vy p1) * (vy p0 - vy p1) == 0).
  { intros E; apply Hn. rewrite <- E. ring. }
  unfold mirror_map. unfold mirror_degenerate in H. rewrite H.
  unfold rp_mirror.
  assert (E : Qeq_bool (length_sq (vsub p0 p1)) 0 = false).
  { rewrite <- H. apply Qeq_bool_morph. unfold length_sq, inner, vsub; simpl; ring. }
  rewrite E.
  unfold rp_translate, aff_compose, length_sq, inner, vsub, vneg; repeat split; simpl; field;
  first [exact Hn | exact Hn' | (split; first [exact Hn|exact Hn'])].
Qed.

(* every operation on a RobustPath composes its map onto trafo: the spine (and with it every
   evaluated point subpath.eval(u, trafo)) moves as the affine map says *)
Theorem robustpath_op_trafo_lemma o r :
  op_ok o -> aff_eq (rp_trafo (rp_apply_op o r)) (aff_compose (op_map o) (rp_trafo r)).
Proof.
  destruct o; simpl; intros Hok.
  - apply rp_translate_trafo.
  - unfold rp_scale, rp_translate, rp_simple_scale, aff_compose, scale_map, vscale; repeat split; simpl; ring.
  - apply rp_mirror_trafo; exact Hok.
  - unfold rp_rotate, rp_translate, rp_simple_rotate, aff_compose, rotate_map, vneg; repeat split; simpl; ring.
  - apply rp_transform_trafo.
Qed.

(* the orientation sign and the scale factor |k| of each operation *)
Definition op_reverses (o : op) : bool :=
  match o with
  | OMirror _ _ => true
  | OTransform T => p_xrefl T
  | _ => false
  end.
Definition op_factor (o : op) : Q :=
  match o with
  | OScale s _ => Qabs s
  | OTransform T => Qabs (p_mag T)
  | _ => 1
  end.

(* offset_scale picks up exactly r * |k|; width_scale picks up |k| iff scale_width *)
Theorem robustpath_op_scales_lemma o r :
  op_ok o ->
  rp_offset_scale (rp_apply_op o r) == rp_offset_scale r * (rsign (op_reverses o) * op_factor o) /\
  rp_width_scale (rp_apply_op o r) == rp_width_scale r * (if rp_scale_width r then op_factor o else 1) /\
  rp_scale_width (rp_apply_op o r) = rp_scale_width r.
Proof.
  destruct o; simpl; intros Hok; unfold rsign.
  - repeat split; try ring. destruct (rp_scale_width r); ring.
  - repeat split; try ring. destruct (rp_scale_width r); ring.
  - repeat split; try ring. destruct (rp_scale_width r); ring.
  - repeat split; try ring. destruct (rp_scale_width r); ring.
  - unfold rp_transform. destruct (p_xrefl T); simpl; repeat split; try ring;
    destruct (rp_scale_width r); ring.
Qed.

Lemma op_similarity o :
  op_ok o -> exists u w, similarity (op_map o) (op_reverses o) u w /\ op_factor o * op_factor o == u * u + w * w.
Proof.
  destruct o; simpl; intros Hok.
  - exists 1, 0. split; [apply similarity_translate|reflexivity].
  - exists s, 0. split; [apply similarity_scale|]. rewrite Qabs_sq. ring.
  - eexists _, _. split; [apply similarity_mirror; exact Hok|]. apply mirror_unit; exact Hok.
  - exists (acos a), (asin a). split; [apply similarity_rotate|]. unfold angle_ok in Hok. rewrite Hok. reflexivity.
  - eexists _, _. split; [apply similarity_placement|]. rewrite Qabs_sq.
    transitivity (p_mag T * p_mag T * (acos (p_rot T) * acos (p_rot T) + asin (p_rot T) * asin (p_rot T))); [|ring].
    unfold angle_ok in Hok. rewrite Hok. ring.
Qed.

Lemma op_factor_nonneg o : 0 <= op_factor o.
Proof. destruct o; simpl; try discriminate; apply Qabs_nonneg. Qed.

(* RobustPath::center_position(u) = spine_position(u) + interp(offset,u)*offset_scale * n where
   spine_position = trafo(x), n = normalised ortho(trafo_linear(g)), for the untransformed
   sub-path point x = subpath.eval(u) and gradient g = subpath.gradient(u), offset value `ov`. *)
Definition rp_centre (r : robustpath) (x g : Vec2) (ov : Q) (c : Vec2) : Prop :=
  centre_rel (aff_apply (rp_trafo r) x) (aff_linear (rp_trafo r) g) (ov * rp_offset_scale r) c.

Lemma aff_linear_compose f g p : veq (aff_linear (aff_compose f g) p) (aff_linear f (aff_linear g p)).
Proof. unfold aff_linear, aff_compose; split; simpl; ring. Qed.
Lemma aff_linear_proper f g p : aff_eq f g -> veq (aff_linear f p) (aff_linear g p).
Proof.
  intros (H1 & H2 & H3 & H4 & _). unfold aff_linear; split; simpl; rewrite ?H1, ?H2, ?H3, ?H4; reflexivity.
Qed.

(* centre (op e) u = op_map (centre e u) for every similarity operation, including negative
   scale factors and reflections *)
Theorem robustpath_op_centre_lemma o r x g ov c :
  op_ok o -> rp_centre r x g ov c -> rp_centre (rp_apply_op o r) x g ov (aff_apply (op_map o) c).
Proof.
  intros Hok Hc. unfold rp_centre in *.
  destruct (op_similarity o Hok) as (u & w & HS & Hkk).
  pose proof (robustpath_op_trafo_lemma o r Hok) as Ht.
  destruct (robustpath_op_scales_lemma o r Hok) as (Hos & _ & _).
  eapply centre_rel_proper;
    [| | | apply veq_refl
     | eapply (centre_rel_similarity_lemma (op_map o) (op_reverses o) u w (op_factor o));
       [exact HS|apply op_factor_nonneg|exact Hkk|exact Hc]].
  - eapply veq_trans; [|apply aff_apply_proper; [symmetry; exact Ht|apply veq_refl]].
    symmetry; apply aff_compose_apply_lemma.
  - eapply veq_trans; [|apply aff_linear_proper; symmetry; exact Ht].
    symmetry; apply aff_linear_compose.
  - rewrite Hos. ring.
Qed.

Theorem robustpath_transform_centre_lemma T r x g ov c :
  angle_ok (p_rot T) -> rp_centre r x g ov c ->
  rp_centre (rp_transform T r) x g ov (aff_apply (placement_map T) c).
Proof. intros Ha. apply (robustpath_op_centre_lemma (OTransform T)). exact Ha. Qed.

Theorem robustpath_sequence_trafo_lemma ops : forall r,
  Forall op_ok ops ->
  aff_eq (rp_trafo (rp_apply_ops ops r)) (aff_compose (ops_map ops) (rp_trafo r)).
Proof.
  unfold rp_apply_ops, ops_map.
  assert (G : forall ops r A r0, Forall op_ok ops ->
     aff_eq (rp_trafo r) (aff_compose A (rp_trafo r0)) ->
     aff_eq (rp_trafo (fold_left (fun acc o => rp_apply_op o acc) ops r))
            (aff_compose (fold_left (fun acc o => aff_compose (op_map o) acc) ops A) (rp_trafo r0))).
  { clear ops. induction ops as [|o ops IH]; intros r A r0 Hok H; simpl; [exact H|].
    inversion Hok; subst. apply IH; [assumption|].
    rewrite robustpath_op_trafo_lemma by assumption. rewrite H. symmetry; apply aff_compose_assoc. }
  intros r Hok. apply G; [exact Hok|]. symmetry; apply aff_compose_id_l.
Qed.

(* RobustPath::mirror across a degenerate line (p0 = p1) is not the identity (Polygon::mirror and
   FlexPath::mirror return early): the linear part of trafo is zeroed *)
Example rp_mirror_degenerate_collapses :
  rp_trafo (rp_mirror (V2 1 2) (V2 1 2) (RP aff_id 1 1 [] true)) = Aff 0 0 0 0 (0 + 1) (0 + 2)
  \/ aff_eq (rp_trafo (rp_mirror (V2 1 2) (V2 1 2) (RP aff_id 1 1 [] true))) (Aff 0 0 0 0 1 2).
Proof. right. vm_compute. repeat split. Qed.

(* ------------------------------------------------------------------ Repetition::transform *)
Definition rep_linear (mag : Q) (x_refl : bool) (rot : angle) : Vec2 -> Vec2 :=
  aff_linear (placement_map (Pl vzero rot mag x_refl)).

Lemma lattice_pointwise (f g : nat -> nat -> Vec2) cols rows :
  (forall i j, veq (f i j) (g i j)) ->
  poly_eq (flat_map (fun i => map (f i) (seq 0 rows)) (seq 0 cols))
          (flat_map (fun i => map (g i) (seq 0 rows)) (seq 0 cols)).
Proof.
  intros H. generalize (seq 0 rows) as R. intros R. generalize (seq 0 cols) as C. intros C.
  induction C as [|i l IH]; simpl; [constructor|].
  apply Forall2_app; [|exact IH].
  clear IH. induction R; simpl; constructor; auto.
Qed.

Lemma map_lattice (h : Vec2 -> Vec2) (f : nat -> nat -> Vec2) cols rows :
  map h (flat_map (fun i => map (f i) (seq 0 rows)) (seq 0 cols)) =
  flat_map (fun i => map (fun j => h (f i j)) (seq 0 rows)) (seq 0 cols).
Proof.
  induction (seq 0 cols) as [|i l IH]; simpl; [reflexivity|].
  rewrite map_app, map_map, IH. reflexivity.
Qed.

Lemma qneq1_false m : qneq1 m = false -> m == 1.
Proof. unfold qneq1; intros H. apply negb_false_iff in H. apply Qeq_bool_eq; exact H. Qed.
Lemma angle_zero_true a : angle_is_zero a = true -> acos a == 1 /\ asin a == 0.
Proof. unfold angle_is_zero; intros H. apply andb_true_iff in H. destruct H; split; apply Qeq_bool_eq; assumption. Qed.

Ltac rep_fin :=
  unfold rep_linear, aff_linear, placement_map, rsign, vscale, cplx_mul, cplx_conj, vzero; split; simpl;
  repeat match goal with H : _ == _ |- _ => rewrite !H; clear H end; ring.

(* the offsets of the transformed repetition are the offsets moved by the LINEAR part of the
   transform (magnify, reflect, rotate; no translation) *)
Theorem repetition_transform_linear_lemma mag x_refl rot r :
  poly_eq (rep_offsets (rep_transform mag x_refl rot r)) (map (rep_linear mag x_refl rot) (rep_offsets r)).
Proof.
  destruct r as [|cols rows sp|cols rows v1 v2|offs|cs|cs]; simpl.
  - constructor.
  - (* Rectangular *)
    rewrite map_lattice.
    destruct (qneq1 mag) eqn:Hm; [|apply qneq1_false in Hm];
    destruct x_refl; simpl;
    try (destruct (angle_is_zero rot) eqn:Hz; [apply angle_zero_true in Hz; destruct Hz as [Hc Hs]|]; simpl);
    apply lattice_pointwise; intros i j; rep_fin.
  - (* Regular *)
    rewrite map_lattice.
    destruct (qneq1 mag) eqn:Hm; [|apply qneq1_false in Hm];
    destruct x_refl; simpl;
    (destruct (angle_is_zero rot) eqn:Hz; [apply angle_zero_true in Hz; destruct Hz as [Hc Hs]|]; simpl);
    apply lattice_pointwise; intros i j; rep_fin.
  - (* Explicit *)
    destruct (angle_is_zero rot) eqn:Hz; [apply angle_zero_true in Hz; destruct Hz as [Hc Hs]|]; simpl.
    + destruct x_refl; simpl; (destruct (qneq1 mag) eqn:Hm; [|apply qneq1_false in Hm]); simpl;
      (constructor; [rep_fin|]); rewrite ?map_map; try (apply map_pointwise; intros p; rep_fin).
      induction offs; simpl; constructor; auto. rep_fin.
    + destruct x_refl; simpl; (constructor; [rep_fin|]); rewrite ?map_map; apply map_pointwise; intros p; rep_fin.
  - (* ExplicitX *)
    destruct (angle_is_zero rot) eqn:Hz; [apply angle_zero_true in Hz; destruct Hz as [Hc Hs]|]; simpl.
    + (destruct (qneq1 mag) eqn:Hm; [|apply qneq1_false in Hm]); simpl;
      (constructor; [rep_fin|]); rewrite ?map_map;
      (induction cs; simpl; constructor; auto); destruct x_refl; rep_fin.
    + (constructor; [rep_fin|]); rewrite ?map_map.
      induction cs; simpl; constructor; auto. destruct x_refl; rep_fin.
  - (* ExplicitY *)
    destruct (angle_is_zero rot) eqn:Hz; [apply angle_zero_true in Hz; destruct Hz as [Hc Hs]|]; simpl.
    + destruct x_refl; simpl; [|destruct (qneq1 mag) eqn:Hm; [|apply qneq1_false in Hm]]; simpl;
      (constructor; [rep_fin|]); rewrite ?map_map;
      (induction cs; simpl; constructor; auto); rep_fin.
    + (constructor; [destruct x_refl; rep_fin|]); rewrite ?map_map.
      induction cs; simpl; constructor; auto. destruct x_refl; rep_fin.
Qed.

(* ------------------------------------------------------------------ elements with a repetition (F8) *)
Definition polys_eq (a b : list polygon) : Prop := Forall2 poly_eq a b.

(* what `transform` would have to do to the attached repetition *)
Definition rpolygon_transform_required (T : placement) (e : rpolygon) : rpolygon :=
  RPoly (polygon_transform T (rpo_pts e)) (rep_transform (p_mag T) (p_xrefl T) (p_rot T) (rpo_rep e)).

Lemma pt_transform_translate T o p :
  veq (pt_transform T (pt_translate o p))
      (pt_translate (rep_linear (p_mag T) (p_xrefl T) (p_rot T) o) (pt_transform T p)).
Proof.
  unfold pt_transform, pt_translate, rep_linear, aff_linear, placement_map, vadd, vscale, rsign.
  destruct (p_xrefl T); split; simpl; ring.
Qed.

Lemma polygon_translate_proper o o' a b :
  veq o o' -> poly_eq a b -> poly_eq (polygon_translate o a) (polygon_translate o' b).
Proof.
  intros [H1 H2] H. unfold polygon_translate. apply map_poly_eq; [|exact H].
  intros p q [K1 K2]. unfold pt_translate, vadd; split; simpl; rewrite ?H1, ?H2, ?K1, ?K2; reflexivity.
Qed.

Lemma rep_transform_none m x a r : rep_transform m x a r = RNone <-> r = RNone.
Proof.
  split; [|intros ->; reflexivity].
  destruct r; simpl; try reflexivity; intros H;
  repeat match type of H with
         | (if ?c then _ else _) = _ => destruct c
         | (match ?c with _ => _ end) = _ => destruct c
         end; discriminate.
Qed.

(* with the repetition transformed by the linear part, the copies of the transformed element are
   the images of the copies *)
Lemma rpolygon_denote_some pts r :
  r <> RNone -> rpolygon_denote (RPoly pts r) = map (fun o => polygon_translate o pts) (rep_offsets r).
Proof. destruct r; try reflexivity. congruence. Qed.

Theorem rpolygon_transform_required_denote_lemma T e :
  polys_eq (rpolygon_denote (rpolygon_transform_required T e))
           (map (polygon_transform T) (rpolygon_denote e)).
Proof.
  destruct e as [pts r]. unfold rpolygon_transform_required; cbn [rpo_pts rpo_rep].
  assert (D : r = RNone \/ r <> RNone) by (destruct r; auto; right; discriminate).
  destruct D as [->|Hr].
  - simpl. constructor; [apply poly_eq_refl|constructor].
  - rewrite !rpolygon_denote_some; [|exact Hr|intros E; apply rep_transform_none in E; contradiction].
    rewrite map_map.
    pose proof (repetition_transform_linear_lemma (p_mag T) (p_xrefl T) (p_rot T) r) as HL.
    revert HL. generalize (rep_offsets (rep_transform (p_mag T) (p_xrefl T) (p_rot T) r)) as L'.
    generalize (rep_offsets r) as L. intros L.
    induction L as [|o L IH]; intros L' HL; inversion HL; subst; simpl; constructor.
    + eapply poly_eq_trans; [apply polygon_translate_proper; [eassumption|apply poly_eq_refl]|].
      unfold polygon_translate, polygon_transform; rewrite !map_map; apply map_pointwise.
      intros p; symmetry; apply pt_transform_translate.
    + apply IH; assumption.
Qed.

(* boolean comparison, to refute equalities by computation *)
Fixpoint list_eqb {A} (eqb : A -> A -> bool) (l1 l2 : list A) : bool :=
  match l1, l2 with
  | [], [] => true
  | a :: t1, b :: t2 => eqb a b && list_eqb eqb t1 t2
  | _, _ => false
  end.
Lemma list_eqb_complete {A} (R : A -> A -> Prop) eqb l1 l2 :
  (forall a b, R a b -> eqb a b = true) -> Forall2 R l1 l2 -> list_eqb eqb l1 l2 = true.
Proof. intros H; induction 1; simpl; [reflexivity|]. rewrite (H _ _ H0), IHForall2. reflexivity. Qed.
Lemma veqb_complete a b : veq a b -> veqb a b = true.
Proof. intros [H1 H2]. unfold veqb. apply Qeq_eq_bool in H1. apply Qeq_eq_bool in H2. rewrite H1, H2. reflexivity. Qed.
Definition polys_eqb := list_eqb (list_eqb veqb).
Lemma polys_eqb_complete a b : polys_eq a b -> polys_eqb a b = true.
Proof. apply list_eqb_complete. intros x y. apply list_eqb_complete. apply veqb_complete. Qed.

(* F8: Polygon::transform (likewise FlexPath, RobustPath, Label, Reference ::transform) leaves the
   repetition untouched: a unit square repeated twice along x at pitch 5, rotated by 90 degrees,
   has its second copy at (5,0) instead of (0,5). *)
Definition f8_elem : rpolygon := RPoly [V2 0 0; V2 1 0; V2 1 1; V2 0 1] (RRect 2 1 (V2 5 0)).
Definition f8_rot90 : placement := Pl vzero a90 1 false.

Theorem element_transform_repetition_refuted :
  exists T e, angle_ok (p_rot T) /\
    ~ polys_eq (rpolygon_denote (rpolygon_transform T e)) (map (polygon_transform T) (rpolygon_denote e)).
Proof.
  exists f8_rot90, f8_elem. split; [reflexivity|].
  intros H. apply polys_eqb_complete in H. vm_compute in H. discriminate.
Qed.

Example f8_copies :
  map (map vred) (rpolygon_denote (rpolygon_transform f8_rot90 f8_elem)) =
    [[V2 0 0; V2 0 1; V2 (-1) 1; V2 (-1) 0]; [V2 5 0; V2 5 1; V2 4 1; V2 4 0]] /\
  map (map vred) (map (polygon_transform f8_rot90) (rpolygon_denote f8_elem)) =
    [[V2 0 0; V2 0 1; V2 (-1) 1; V2 (-1) 0]; [V2 0 5; V2 0 6; V2 (-1) 6; V2 (-1) 5]].
Proof. vm_compute. split; reflexivity. Qed.

(* ------------------------------------------------------------------ assumptions *)
Print Assumptions polygon_translate_affine_lemma.
Print Assumptions polygon_scale_affine_lemma.
Print Assumptions polygon_mirror_affine_lemma.
Print Assumptions polygon_mirror_is_reflection_lemma.
Print Assumptions reflection_unique_lemma.
Print Assumptions polygon_rotate_affine_lemma.
Print Assumptions polygon_transform_affine_lemma.
Print Assumptions reference_transform_compose_lemma.
Print Assumptions reference_transform_fields_lemma.
Print Assumptions transform_sequence_lemma.
Print Assumptions reference_transform_sequence_lemma.
Print Assumptions centre_rel_similarity_lemma.
Print Assumptions centre_rel_offset_unique.
Print Assumptions flexpath_translate_centre_lemma.
Print Assumptions flexpath_scale_centre_lemma.
Print Assumptions flexpath_mirror_centre_lemma.
Print Assumptions flexpath_rotate_centre_lemma.
Print Assumptions flexpath_transform_centre_lemma.
Print Assumptions flexpath_transform_params_lemma.
Print Assumptions flexpath_transform_offsets_lemma.
Print Assumptions flexpath_transform_unrepaired_refuted.
Print Assumptions robustpath_op_trafo_lemma.
Print Assumptions robustpath_op_scales_lemma.
Print Assumptions robustpath_op_centre_lemma.
Print Assumptions robustpath_transform_centre_lemma.
Print Assumptions robustpath_sequence_trafo_lemma.
Print Assumptions repetition_transform_linear_lemma.
Print Assumptions rpolygon_transform_required_denote_lemma.
Print Assumptions element_transform_repetition_refuted.

(* ------------------------------------------------------------------ end extensions *)
(* FlexPath::scale, FlexPath::transform and RobustPath::simple_scale (as repaired by a1ca73a)
   multiply end_extensions by the MAGNITUDE of the factor: under a point reflection (factor -1) an
   extended end of length 1 stays an extension of length 1.  (Before, the signed factor was used
   and extended ends retracted; reverting the repair makes the outline oracle of
   harness/c10_transform.cpp report `...:negative-factor+end_extensions` again.) *)
Theorem flexpath_op_extensions_lemma o f :
  Forall2 veq (map fe_ext (fp_elems (flexpath_apply_op o f)))
              (map (fun el => vscale (fe_ext el) (op_factor o)) (fp_elems f)).
Proof.
  assert (G1 : forall l : list fp_elem, Forall2 veq (map fe_ext l) (map (fun el => vscale (fe_ext el) 1) l)).
  { induction l; simpl; constructor; auto. unfold vscale; split; simpl; ring. }
  destruct o; simpl.
  - apply G1.
  - rewrite map_map. simpl. induction (fp_elems f); simpl; constructor; auto. apply veq_refl.
  - unfold flexpath_mirror. destruct (mirror_degenerate p0 p1); [apply G1|].
    simpl. rewrite map_map. simpl. apply G1.
  - apply G1.
  - rewrite map_map. simpl. induction (fp_elems f); simpl; constructor; auto. apply veq_refl.
Qed.

Theorem robustpath_op_extensions_lemma o r :
  Forall2 veq (rp_exts (rp_apply_op o r)) (map (fun e => vscale e (op_factor o)) (rp_exts r)).
Proof.
  assert (G1 : forall l : list Vec2, Forall2 veq l (map (fun e => vscale e 1) l)).
  { induction l; simpl; constructor; auto. unfold vscale; split; simpl; ring. }
  assert (G2 : forall (l : list Vec2) k, Forall2 veq (map (fun e => vscale e k) l) (map (fun e => vscale e k) l)).
  { induction l; simpl; constructor; auto. apply veq_refl. }
  destruct o; simpl.
  - apply G1.
  - apply G2.
  - apply G1.
  - apply G1.
  - unfold rp_transform. destruct (p_xrefl T); simpl; apply G2.
Qed.

(* an extension never becomes negative *)
Theorem path_extension_sign_lemma o e : 0 <= vx e -> 0 <= vy e ->
  0 <= vx (vscale e (op_factor o)) /\ 0 <= vy (vscale e (op_factor o)).
Proof.
  intros Hx Hy. unfold vscale; simpl. split; apply Qmult_le_0_compat; auto using op_factor_nonneg.
Qed.

Example path_scale_negative_factor_extension :
  map (fun el => vred (fe_ext el)) (fp_elems (flexpath_scale (-1) vzero (FP [V2 0 0; V2 4 0] (FE [V2 1 0; V2 1 0] (V2 1 2) :: nil) true)))
    = (V2 1 2 :: nil) /\
  map vred (rp_exts (rp_scale (-1) vzero (RP aff_id 1 1 (V2 1 2 :: nil) true))) = (V2 1 2 :: nil) /\
  map (fun el => vred (fe_ext el))
      (fp_elems (flexpath_transform (Pl vzero azero (-1) false) (FP [V2 0 0; V2 4 0] (FE [V2 1 0; V2 1 0] (V2 1 2) :: nil) true)))
    = (V2 1 2 :: nil).
Proof. vm_compute. repeat split. Qed.
Print Assumptions flexpath_op_extensions_lemma.
Print Assumptions robustpath_op_extensions_lemma.
Print Assumptions path_extension_sign_lemma.
