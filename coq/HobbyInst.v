(* The three instances of the carrier of Hobby.v.  Definitions only.
     binary64 (Flocq, round to nearest even)   what the C++ computes; libm atan2 / sin / cos are finite tables
     Qc (canonical rationals)                  exact arithmetic: the field the theorems of HobbyProofs.v are used with
     option Qc ("exact doubles")               exact arithmetic that becomes None as soon as a result is not a double
                                               (53 significant bits, magnitude within 2^+-900): if the final matrix holds no
                                               None, every operation of the run was exact, so a binary64 run computes the same
                                               numbers (IEEE operations return the exact result when it is representable) *)
Require Import Base Hobby.
From Coq Require Import QArith Qcanon Qabs.
From Flocq Require Import Core BinarySingleNaN Binary Bits.

(* ------------------------------------------------------------------ binary64 *)
Definition b64z : binary64 := B754_zero 53 1024 false.
Definition b64c (bits : Z) : binary64 := b64_of_bits bits.
Definition b64_1 : binary64 := b64c 4607182418800017408.        (* 0x3FF0000000000000 *)
Definition b64_2 : binary64 := b64c 4611686018427387904.        (* 0x4000000000000000 *)
Definition b64_3 : binary64 := b64c 4613937818241073152.        (* 0x4008000000000000 *)
Definition b64_5 : binary64 := b64c 4617315517961601024.        (* 0x4014000000000000 *)
Definition b64_half : binary64 := b64c 4602678819172646912.     (* 0x3FE0000000000000 *)
Definition b64_16th : binary64 := b64c 4589168020290535424.     (* 0x3FB0000000000000 = 1.0 / 16.0 *)
Definition b64_pi : binary64 := b64c 4614256656552045848.       (* 0x400921FB54442D18 = M_PI *)
Definition b64_2pi : binary64 := b64c 4618760256179416344.      (* 0x401921FB54442D18 = 2 * M_PI *)
Definition b64_nan : binary64 := b64c 9221120237041090560.      (* 0x7FF8000000000000 *)

Definition b64_gt (a b : binary64) : bool := match b64_compare a b with Some Gt => true | _ => false end.
Definition b64_le (a b : binary64) : bool := match b64_compare a b with Some Lt => true | Some Eq => true | _ => false end.
Definition b64_eq0 (a : binary64) : bool := match b64_compare a b64z with Some Eq => true | _ => false end.
Definition b64_is_nan (a : binary64) : bool := match a with B754_nan _ _ _ _ _ => true | _ => false end.
Definition bits64 (f : binary64) : N := Z.to_N (bits_of_b64 f).
Definition of_bits64 (n : N) : binary64 := b64_of_bits (Z.of_N n).

(* libm as finite tables (argument bits -> result bits), filled by the harness with the calls the library makes;
   a NaN argument gives a NaN, a missing entry gives a NaN as well *)
Fixpoint lookup1 (tab : list (N * N)) (k : N) : option N :=
  match tab with
  | [] => None
  | (a, r) :: t => if N.eqb a k then Some r else lookup1 t k
  end.
Fixpoint lookup2 (tab : list (N * N * N)) (k1 k2 : N) : option N :=
  match tab with
  | [] => None
  | (a, b, r) :: t => if N.eqb a k1 && N.eqb b k2 then Some r else lookup2 t k1 k2
  end.
Definition tab_fun1 (tab : list (N * N)) (x : binary64) : binary64 :=
  if b64_is_nan x then b64_nan
  else match lookup1 tab (bits64 x) with Some r => of_bits64 r | None => b64_nan end.
Definition tab_fun2 (tab : list (N * N * N)) (y x : binary64) : binary64 :=
  if b64_is_nan y || b64_is_nan x then b64_nan
  else match lookup2 tab (bits64 y) (bits64 x) with Some r => of_bits64 r | None => b64_nan end.

Definition gj64 (rows cols : nat) (m : list (list binary64)) : outcome (gj_state binary64) :=
  gauss_jordan binary64 b64z b64_1 (b64_minus mode_NE) (b64_mult mode_NE) (b64_div mode_NE) b64_abs b64_gt b64_eq0 rows cols m.

Definition gj64_bits (rows cols : nat) (m : list (list N)) : outcome (list (list N) * list nat * nat * list N) :=
  match gj64 rows cols (map (map of_bits64) m) with
  | Ok st => let '(m', piv, res) := st in
             Ok (map (map bits64) m', piv, res,
                 if rows <? cols then map bits64 (gj_solution binary64 b64z rows st) else [])
  | Crash => Crash | Hang => Hang | ErrEof => ErrEof | ErrOverflow => ErrOverflow | ErrInvalid => ErrInvalid
  end.

Definition hobby64 (t_atan2 : list (N * N * N)) (t_sin t_cos : list (N * N))
           (count : nat) (pts : list (binary64 * binary64)) (ang : list binary64) (ang_c : list bool)
           (tens : list (binary64 * binary64)) (initial_curl final_curl : binary64) (cycle : bool)
  : outcome (hobby_result binary64) :=
  hobby binary64 b64z b64_1 b64_2 b64_3 b64_5 b64_half b64_16th b64_pi b64_2pi
        (b64_plus mode_NE) (b64_minus mode_NE) (b64_mult mode_NE) (b64_div mode_NE)
        b64_opp b64_abs (b64_sqrt mode_NE) (tab_fun1 t_sin) (tab_fun1 t_cos) (tab_fun2 t_atan2)
        b64_gt b64_le b64_eq0 count pts ang ang_c tens initial_curl final_curl cycle.

Definition vec_bits (p : N * N) : binary64 * binary64 := (of_bits64 (fst p), of_bits64 (snd p)).
Definition bits_vec (p : binary64 * binary64) : N * N := (bits64 (fst p), bits64 (snd p)).

Definition hobby64_bits (t_atan2 : list (N * N * N)) (t_sin t_cos : list (N * N))
           (count : nat) (pts : list (N * N)) (ang : list N) (ang_c : list bool)
           (tens : list (N * N)) (initial_curl final_curl : N) (cycle : bool)
  : outcome (list N * list N * list ((N * N) * (N * N)) * nat) :=
  match hobby64 t_atan2 t_sin t_cos count (map vec_bits pts) (map of_bits64 ang) ang_c (map vec_bits tens)
                (of_bits64 initial_curl) (of_bits64 final_curl) cycle with
  | Ok r => Ok (map bits64 (hr_theta _ r), map bits64 (hr_phi _ r),
                map (fun ab => (bits_vec (fst ab), bits_vec (snd ab))) (hr_ctrl _ r), hr_skipped _ r)
  | Crash => Crash | Hang => Hang | ErrEof => ErrEof | ErrOverflow => ErrOverflow | ErrInvalid => ErrInvalid
  end.

(* ------------------------------------------------------------------ Qc *)
Definition Qc_gt (a b : Qc) : bool := if Qclt_le_dec b a then true else false.
Definition Qc_le (a b : Qc) : bool := if Qclt_le_dec b a then false else true.
Definition Qc_eq0 (a : Qc) : bool := if Qc_eq_dec a (Q2Qc 0) then true else false.
Definition Qc_abs (a : Qc) : Qc := if Qclt_le_dec a (Q2Qc 0) then Qcopp a else a.

Definition gjQ (rows : nat) (m : list (list Qc)) : gj_state Qc :=
  gj_run Qc (Q2Qc 0) (Q2Qc 1) Qcminus Qcmult Qcdiv Qc_abs Qc_gt Qc_eq0 rows m.

(* ------------------------------------------------------------------ exact doubles *)
Fixpoint pos_is_pow2 (p : positive) : bool :=
  match p with xH => true | xO q => pos_is_pow2 q | xI _ => false end.
Fixpoint pos_odd_part (p : positive) : positive :=
  match p with xO q => pos_odd_part q | _ => p end.
Definition repr64 (q : Qc) : bool :=
  let n := Qnum (this q) in let d := Qden (this q) in
  pos_is_pow2 d && (Pos.size_nat d <=? 900) &&
  match n with
  | Z0 => true
  | Zpos p | Zneg p => (Pos.size_nat (pos_odd_part p) <=? 53) && (Pos.size_nat p <=? 900)
  end.

Definition xq : Type := option Qc.
Definition xq_ret (q : Qc) : xq := if repr64 q then Some q else None.
Definition xq_lift2 (op : Qc -> Qc -> Qc) (a b : xq) : xq :=
  match a, b with Some x, Some y => xq_ret (op x y) | _, _ => None end.
Definition xq_div (a b : xq) : xq :=
  match a, b with
  | Some x, Some y => if Qc_eq0 y then None else xq_ret (Qcdiv x y)
  | _, _ => None
  end.
Definition xq_abs (a : xq) : xq := match a with Some x => Some (Qc_abs x) | None => None end.
Definition xq_gt (a b : xq) : bool := match a, b with Some x, Some y => Qc_gt x y | _, _ => false end.
Definition xq_eq0 (a : xq) : bool := match a with Some x => Qc_eq0 x | None => false end.

Definition gjX (rows : nat) (m : list (list xq)) : gj_state xq :=
  gj_run xq (Some (Q2Qc 0)) (Some (Q2Qc 1)) (xq_lift2 Qcminus) (xq_lift2 Qcmult) xq_div xq_abs xq_gt xq_eq0 rows m.

(* a finite double as the rational it denotes *)
Definition Qc_of_b64 (f : binary64) : xq :=
  match f with
  | B754_zero _ _ _ => Some (Q2Qc 0)
  | B754_finite _ _ s m e _ =>
      let z := if s then Zneg m else Zpos m in
      Some (Q2Qc (match e with
                  | Z0 => inject_Z z
                  | Zpos p => inject_Z (z * Z.pow_pos 2 p)
                  | Zneg p => Qmake z (Pos.pow 2 p)
                  end))
  | _ => None
  end.
(* an exactly representable rational as the double (zero as +0) *)
Definition pos_log2_exact (p : positive) : Z := Z.of_nat (Pos.size_nat p) - 1.
Definition b64_of_Qc (q : Qc) : binary64 :=
  Binary.binary_normalize 53 1024 eq_refl eq_refl mode_NE (Qnum (this q)) (- pos_log2_exact (Qden (this q))) false.

Fixpoint all_some_l {A : Type} (l : list (option A)) : option (list A) :=
  match l with
  | [] => Some []
  | None :: _ => None
  | Some a :: t => match all_some_l t with None => None | Some r => Some (a :: r) end
  end.

(* the specification line of a `gj` case: None when some operation of the exact run is not a double (or an input is
   not finite); else the exact result: pivots, number of skipped columns, and x[r] = m[pivots[r]][rows] as doubles *)
Definition gj_exact_bits (rows cols : nat) (m : list (list N)) : option (list nat * nat * list N) :=
  if cols <? rows then None
  else
    let '(m', piv, res) := gjX rows (map (map (fun b => Qc_of_b64 (of_bits64 b))) m) in
    match all_some_l (map (@all_some_l Qc) m') with
    | None => None
    | Some mq =>
        Some (piv, res,
              if rows <? cols then map (fun r => bits64 (b64_of_Qc (nth rows (nth (nth r piv 0%nat) mq []) (Q2Qc 0)))) (seq 0 rows)
              else [])
    end.
