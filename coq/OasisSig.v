(* Statement-level models of the OASIS validation signature (unit oas_sig, properties C18 and C02):
     - zlib's crc32(crc, buf, len) (table driven, reflected polynomial 0xEDB88320; the 256-entry table is COMPUTED by the
       Gallina transcription of zlib's make_crc_table) and a table-free bit-at-a-time definition of the same checksum,
     - gdstk's checksum32 (src/utils.cpp),
     - the signature bookkeeping of OasisStream (src/oasis.cpp: oasis_write / oasis_putc with out.cursor == NULL),
     - the END record of Library::write_oas (src/library.cpp) with validation scheme 0 / 1 (CRC32) / 2 (CHECKSUM32),
       on top of the writer model of OasisWrite.v,
     - oas_validate (src/library.cpp) on the byte list of the file, statement by statement, with its 32 KiB chunk loop,
     - validate_spec: the loop-free specification oas_validate is proved equal to (OasisSigProofs.v).
   Definitions only.  Bytes are N below 256, positions / sizes / fuel are nat.  Little-endian host (IS_BIG_ENDIAN false:
   little_endian_swap32 does nothing). *)
Require Import Base Generated OasisInt GdsReal OasisReal OasisPlist Table PropList OasisSpec OasisWrite.
Local Open Scope N_scope.

(* ================================================================== CRC32 as zlib computes it *)
Definition mask32 : N := 4294967295.                  (* 0xffffffff *)
Definition crc_poly : N := 3988292384.                (* 0xedb88320 *)

(* make_crc_table: c = c & 1 ? poly ^ (c >> 1) : c >> 1, eight times for every n in 0..255 *)
Definition crc_step (c : N) : N :=
  if N.testbit c 0 then N.lxor crc_poly (N.shiftr c 1) else N.shiftr c 1.
Definition crc_step8 (c : N) : N :=
  crc_step (crc_step (crc_step (crc_step (crc_step (crc_step (crc_step (crc_step c))))))).
(* the table, computed: 16 rows of 16 entries, entry 16 r + c = the eight steps applied to 16 r + c *)
Definition crc_rows : list (list N) :=
  map (fun r => map (fun c => crc_step8 (N.of_nat (16 * r + c))) (seq 0 16)) (seq 0 16).
Definition crc_table : list N := concat crc_rows.          (* crc_table[0 .. 255] *)
(* crc_table[i]: row i >> 4, column i & 15 (i < 256; 0 beyond the table, never asked for) *)
Definition crc_lookup (i : N) : N := nth (N.to_nat (N.land i 15)) (nth (N.to_nat (N.shiftr i 4)) crc_rows []) 0.

(* DO1: c = crc_table[(c ^ *buf++) & 0xff] ^ (c >> 8) *)
Definition crc_byte (c b : N) : N := N.lxor (crc_lookup (N.land (N.lxor c b) 255)) (N.shiftr c 8).
(* crc32(crc, buf, len): c = crc ^ 0xffffffff; DO1 per byte; return c ^ 0xffffffff.  crc32(0, NULL, 0) = 0 *)
Definition crc32_update (crc : N) (buf : list N) : N :=
  N.lxor (fold_left crc_byte buf (N.lxor crc mask32)) mask32.
Definition crc32_init : N := 0.                       (* crc32(0, NULL, 0) *)

(* the same checksum without a table: one shift per bit (the definition the table is an optimisation of) *)
Definition crc_byte_bitwise (c b : N) : N := crc_step8 (N.lxor c b).
Definition crc32_bitwise (crc : N) (buf : list N) : N :=
  N.lxor (fold_left crc_byte_bitwise buf (N.lxor crc mask32)) mask32.

(* ================================================================== checksum32 (src/utils.cpp)
     uint64_t c = checksum; while (count-- > 0) c = (c + *bytes++) & 0xFFFFFFFF; return (uint32_t)c; *)
Definition sum_byte (c b : N) : N := N.land (c + b) mask32.
Definition checksum32_update (checksum : N) (bytes : list N) : N := fold_left sum_byte bytes checksum.

(* four bytes of a uint32_t in memory on a little-endian host, and back *)
Definition le32 (s : N) : list N := [s mod 256; (s / 256) mod 256; (s / 65536) mod 256; (s / 16777216) mod 256].
Definition of_le32 (l : list N) : N :=
  nth 0 l 0 + 256 * nth 1 l 0 + 65536 * nth 2 l 0 + 16777216 * nth 3 l 0.

(* ================================================================== OasisStream with out.cursor == NULL *)
Record ostream := mkOS {
  os_rev : list N;              (* the bytes of out.file so far, LAST BYTE FIRST; ftell = their number *)
  os_crc : bool;                (* out.crc32 *)
  os_sum : bool;                (* out.checksum32 *)
  os_sig : N }.                 (* out.signature *)

Definition OASIS_CONFIG_INCLUDE_CRC32 : N := 64.           (* 0x0040, include/gdstk/oasis.hpp *)
Definition OASIS_CONFIG_INCLUDE_CHECKSUM32 : N := 128.     (* 0x0080 *)

(* out.crc32 = flags & CRC32; out.checksum32 = flags & CHECKSUM32;
   if (out.crc32) out.signature = crc32(0, NULL, 0); else if (out.checksum32) out.signature = 0;
   (with neither flag the field stays uninitialised and is never read: 0 here) *)
Definition os_out (st : ostream) : list N := rev_append (os_rev st) [].          (* the file: the list reversed *)
Definition os_open (crc sum : bool) : ostream :=
  mkOS [] crc sum (if crc then crc32_update 0 [] else if sum then 0 else 0).
Definition os_open_flags (flags : N) : ostream :=
  os_open (0 <? N.land flags OASIS_CONFIG_INCLUDE_CRC32) (0 <? N.land flags OASIS_CONFIG_INCLUDE_CHECKSUM32).

Definition UINT_MAX : N := 4294967295.
(* oasis_write, crc branch:  while (remaining > UINT_MAX) { sig = crc32(sig, b, UINT_MAX); remaining -= UINT_MAX; b += UINT_MAX; }
                             if (remaining > 0) sig = crc32(sig, b, remaining); *)
Fixpoint crc_write (fuel : nat) (sig : N) (b : list N) : N :=
  if UINT_MAX <? N.of_nat (length b) then
    match fuel with
    | O => sig                                            (* not reached: fuel = length b *)
    | S f => crc_write f (crc32_update sig (firstn (N.to_nat UINT_MAX) b)) (skipn (N.to_nat UINT_MAX) b)
    end
  else if 0 <? N.of_nat (length b) then crc32_update sig b else sig.

(* oasis_write(buffer, 1, count, out) *)
Definition os_write (buffer : list N) (st : ostream) : ostream :=
  mkOS (rev_append buffer (os_rev st)) (os_crc st) (os_sum st)
       (if os_crc st then crc_write (length buffer) (os_sig st) buffer
        else if os_sum st then checksum32_update (os_sig st) buffer
        else os_sig st).
(* oasis_putc(c, out): uint8_t c_cast = (uint8_t)c; the signature is updated with that one byte; putc writes it *)
Definition os_putc (c : N) (st : ostream) : ostream :=
  let c_cast := N.land c 255 in
  mkOS (c_cast :: os_rev st) (os_crc st) (os_sum st)
       (if os_crc st then crc32_update (os_sig st) [c_cast]
        else if os_sum st then checksum32_update (os_sig st) [c_cast]
        else os_sig st).
(* oasis_write_unsigned_integer: one oasis_write of the encoded bytes *)
Definition os_write_uint (v : N) (st : ostream) : ostream := os_write (enc_uint v) st.
(* fwrite(&out.signature, 4, 1, out.file): straight to the file, the running signature is not touched *)
Definition os_fwrite_raw (buffer : list N) (st : ostream) : ostream :=
  mkOS (rev_append buffer (os_rev st)) (os_crc st) (os_sum st) (os_sig st).
Definition os_ftell (st : ostream) : N := N.of_nat (length (os_rev st)).

(* for (; pad_len > 0; pad_len--) oasis_putc(0, out);   fuel 256: the count is at most 252 unless the subtraction wrapped,
   and then the real loop writes 2^64 bytes *)
Fixpoint pad_loop (fuel : nat) (pad_len : N) (st : ostream) : outcome ostream :=
  if 0 <? pad_len then
    match fuel with
    | O => Hang
    | S f => pad_loop f (pad_len - 1) (os_putc 0 st)
    end
  else Ok st.

(* the END record of Library::write_oas, from `oasis_putc((int)OasisRecord::END, out)` to fclose; the result is the file *)
Definition write_end (st0 : ostream) (cell_name_offset text_string_offset prop_name_offset prop_string_offset : N)
  : outcome (list N) :=
  let st := os_putc OasisRecord_END st0 in
  (* END (1) + table-offsets (?) + b-string length (2) + padding + validation (1 or 5) = 256 *)
  let pad_len := (256 - 1 - 2 - 1 + os_ftell st) mod two64 in
  let pad_len := if os_crc st || os_sum st then usub pad_len 4 else pad_len in
  let st := os_putc 1 st in
  let st := os_write_uint cell_name_offset st in
  let st := os_putc 1 st in
  let st := os_write_uint text_string_offset st in
  let st := os_putc 1 st in
  let st := os_write_uint prop_name_offset st in
  let st := os_putc 1 st in
  let st := os_write_uint prop_string_offset st in
  let st := os_putc 1 st in
  let st := os_putc 0 st in                               (* LAYERNAME table *)
  let st := os_putc 1 st in
  let st := os_putc 0 st in                               (* XNAME table *)
  let pad_len := usub pad_len (os_ftell st mod two64) in
  let st := os_write_uint pad_len st in
  match pad_loop 256 pad_len st with
  | Ok st =>
      if os_crc st then
        let st := os_putc 1 st in
        Ok (os_out (os_fwrite_raw (le32 (os_sig st)) st))         (* little_endian_swap32 is the identity *)
      else if os_sum st then
        let st := os_putc 2 st in
        Ok (os_out (os_fwrite_raw (le32 (os_sig st)) st))
      else Ok (os_out (os_putc 0 st))
  | Hang => Hang | Crash => Crash | ErrEof => ErrEof | ErrOverflow => ErrOverflow | ErrInvalid => ErrInvalid
  end.

(* the stream after the bytes [pre] went through oasis_write / oasis_putc in any number of calls (OasisSigProofs.v:
   os_write_wf, os_putc_wf - every call keeps the signature equal to the signature of all bytes written) *)
Definition running_sig (crc sum : bool) (bytes : list N) : N :=
  if crc then crc32_update crc32_init bytes else if sum then checksum32_update 0 bytes else 0.
Definition os_of_bytes (crc sum : bool) (pre : list N) : ostream := mkOS (rev_append pre []) crc sum (running_sig crc sum pre).

(* ------------------------------------------------------------------ the closed form of a signed file *)
Definition scheme_of (crc sum : bool) : N := if crc then 1 else if sum then 2 else 0.
Definition sig_of (scheme : N) (bytes : list N) : N :=
  if scheme =? 1 then crc32_update crc32_init bytes else checksum32_update 0 bytes.
(* [body] = every byte before the validation-scheme byte of END *)
Definition signed_file (scheme : N) (body : list N) : list N :=
  if (scheme =? 1) || (scheme =? 2) then (body ++ [scheme]) ++ le32 (sig_of scheme (body ++ [scheme]))
  else body ++ [0].
(* END record up to its padding: the table offsets, then a b-string of zeros sized so that the record has 256 bytes *)
Definition end_offsets (cn ts pn ps : N) : list N :=
  1 :: enc_uint cn ++ 1 :: enc_uint ts ++ 1 :: enc_uint pn ++ 1 :: enc_uint ps ++ [1; 0; 1; 0].
Definition end_body (signed : bool) (cn ts pn ps : N) : list N :=
  let offsets := end_offsets cn ts pn ps in
  let pad_len := usub (if signed then 248 else 252) (N.of_nat (length offsets)) in
  OasisRecord_END :: offsets ++ enc_uint pad_len ++ repeat 0 (N.to_nat pad_len).

(* ------------------------------------------------------------------ Library::write_oas with a signature request *)
(* the four table offsets write_oas_run hands to end_record_w (same let-chain as OasisWrite.write_oas_run;
   OasisSigProofs.run_end_offsets: run_end (write_oas_run cfg l) = end_record_w of these) *)
Definition write_oas_offsets (cfg : wcfg) (l : wlib) : N * N * N * N :=
  let start := start_header ++ enc_real (li_unit l) ++ [1] in
  let names := map cl_name (li_cells l) in
  let '(r_lp, d_lp, st1) := properties_to_oas pstate0 (li_props l) in
  let pos1 := N.of_nat (length start) + reclen r_lp in
  let '(r_c, d_c, offs, ts, st2) := cells_to_oas names pos1 names0 st1 (li_cells l) in
  let cell_name_offset := match li_cells l with [] => 0 | _ => pos1 + reclen r_c end in
  let '(r_cn, d_cn, st3) := cellnames_to_oas cfg names offs st2 (li_cells l) in
  let pos3 := pos1 + reclen r_c + reclen r_cn in
  let text_string_offset := if 0 <? nm_count ts then pos3 else 0 in
  let r_ts := numbered_name_records OasisRecord_TEXTSTRING (nm_items ts) in
  let pos4 := pos3 + reclen r_ts in
  let prop_name_offset := if 0 <? nm_count (ps_names st3) then pos4 else 0 in
  let r_pn := numbered_name_records OasisRecord_PROPNAME (nm_items (ps_names st3)) in
  let pos5 := pos4 + reclen r_pn in
  let prop_string_offset := match ps_vals st3 with [] => 0 | _ => pos5 end in
  (cell_name_offset, text_string_offset, prop_name_offset, prop_string_offset).

(* write_oas(filename, 0, 0, flags) for flags made of OASIS_CONFIG_PROPERTY_CELL_OFFSET (cfg), INCLUDE_CRC32 (crc),
   INCLUDE_CHECKSUM32 (sum): everything up to END as OasisWrite.v models it, then write_end *)
Definition write_oas_sig_model (cfg : wcfg) (crc sum : bool) (l : wlib) : outcome (list N) :=
  let r := write_oas_run cfg l in
  if run_failed r then Ok []
  else
    let '(cn, ts, pn, ps) := write_oas_offsets cfg l in
    write_end (os_of_bytes crc sum (run_start r ++ concat (run_records r))) cn ts pn ps.

(* ================================================================== oas_validate *)
Definition chunk : nat := 32 * 1024.                     (* COUNT(buffer), uint8_t buffer[32 * 1024] *)

(* fread(dst, 1, n, in) at file position pos: the bytes that are there *)
Definition fread_at (pos n : nat) (bs : list N) : list N := firstn n (skipn pos bs).
(* the destination array after a read that delivered [got]: a short read leaves the tail as it was *)
Definition overlay (got buffer : list N) : list N := got ++ skipn (length got) buffer.

(* the values written through the two out-pointers and the return value *)
Record vres := mkV {
  v_ret : bool;                 (* return value *)
  v_sig : option N;             (* Some s: `*signature = s` was executed *)
  v_err : option N }.           (* Some e: the last `*error_code = e` executed; None: *error_code is left untouched *)

Definition header_len : nat := 14.
Definition oas_header : list N := magic ++ [1].          (* "%SEMI-OASIS\r\n\x01", 14 bytes *)

Section ValidateLoop.
  Variable upd : N -> list N -> N.           (* crc32 / checksum32 *)

  (* while (size >= COUNT(buffer)) {
         if (fread(buffer, 1, COUNT(buffer), in) < COUNT(buffer)) *error_code = InvalidFile;
         sig = upd(sig, buffer, COUNT(buffer));  size -= COUNT(buffer); }
     state: file position, size, buffer contents, sig, last error code written.  One unit of fuel per iteration. *)
  Fixpoint sig_loop (fuel : nat) (bs : list N) (pos size : nat) (buffer : list N) (sig : N) (err : option N)
    : outcome (nat * nat * list N * N * option N) :=
    match fuel with
    | O => if (chunk <=? size)%nat then Hang else Ok (pos, size, buffer, sig, err)
    | S f =>
        if (chunk <=? size)%nat then
          let got := fread_at pos chunk bs in
          let err1 := if (length got <? chunk)%nat then Some ErrorCode_InvalidFile else err in
          let buffer1 := overlay got buffer in
          sig_loop f bs (pos + length got) (size - chunk) buffer1 (upd sig (firstn chunk buffer1)) err1
        else Ok (pos, size, buffer, sig, err)
    end.

  (* FSEEK64(in, 0, SEEK_SET); the loop; the remainder; little_endian_swap32; *signature = sig;
     if (sig != *(uint32_t* )(file_sum + 1)) { fclose(in); return false; }   ... fclose(in); return true; *)
  Definition sig_branch (sig0 : N) (stack bs : list N) (size : nat) (file_sum : list N) : outcome vres :=
    match sig_loop (length bs) bs 0 size stack sig0 None with
    | Ok (pos, size1, buffer, sig, err) =>
        let got := fread_at pos size1 bs in
        let err1 := if (length got <? size1)%nat then Some ErrorCode_InvalidFile else err in
        let buffer1 := overlay got buffer in
        let sig1 := upd sig (firstn size1 buffer1) in
        if negb (sig1 =? of_le32 (skipn 1 file_sum)) then Ok (mkV false (Some sig1) err1)
        else Ok (mkV true (Some sig1) err1)
    | Hang => Hang | Crash => Crash | ErrEof => ErrEof | ErrOverflow => ErrOverflow | ErrInvalid => ErrInvalid
    end.
End ValidateLoop.

(* [stack]: what the uninitialised array `uint8_t buffer[32 * 1024]` holds on entry *)
Definition oas_validate_gen (stack : list N) (bs : list N) : outcome vres :=
  (* fread(header, 1, 14, in) < 14 || memcmp(header, "%SEMI-OASIS\r\n\x01", 14) != 0 *)
  let header := fread_at 0 header_len bs in
  if (length header <? header_len)%nat || negb (list_eqb N.eqb header oas_header) then
    Ok (mkV false None (Some ErrorCode_InvalidFile))
  else
  (* FSEEK64(in, -5, SEEK_END) != 0 : a negative resulting position is an error (EINVAL) *)
  if (length bs <? 5)%nat then Ok (mkV false None (Some ErrorCode_InvalidFile))
  else
  let pos := (length bs - 5)%nat in                       (* ftell(in) *)
  let size := (pos + 1)%nat in
  let file_sum := fread_at pos 5 bs in
  if (length file_sum <? 5)%nat then Ok (mkV false None (Some ErrorCode_InvalidFile))
  else
  if nth 0 file_sum 0 =? 1 then sig_branch crc32_update (crc32_update 0 []) stack bs size file_sum
  else if nth 0 file_sum 0 =? 2 then sig_branch checksum32_update 0 stack bs size file_sum
  else Ok (mkV true (Some 0) (Some ErrorCode_ChecksumError)).   (* No checksum *)

Definition oas_validate_model (bs : list N) : outcome vres := oas_validate_gen (repeat 0 chunk) bs.

(* ------------------------------------------------------------------ the specification: no loop, no buffer, no file position *)
Definition has_magic (bs : list N) : bool :=
  match strip_prefix oas_header bs with Some _ => true | None => false end.
Definition validate_spec (bs : list N) : vres :=
  if negb (has_magic bs) then mkV false None (Some ErrorCode_InvalidFile)
  else
    let n := length bs in
    let scheme := nth (n - 5) bs 0 in
    let covered := firstn (n - 4) bs in                   (* everything up to and including the scheme byte *)
    let stored := of_le32 (skipn (n - 4) bs) in
    if (scheme =? 1) || (scheme =? 2) then
      let s := sig_of scheme covered in
      mkV (s =? stored) (Some s) None
    else mkV true (Some 0) (Some ErrorCode_ChecksumError).

(* "the call reports a matching signature": returns true through the CRC32 / CHECKSUM32 branch (not the
   `No checksum` branch, which returns true with *error_code = ChecksumError and *signature = 0) *)
Definition reports_match (r : vres) : bool :=
  v_ret r && match v_err r with None => true | Some _ => false end.

(* ================================================================== definitions the theorem statements use *)
Definition two32 : N := 4294967296.
Definition byte_sum (l : list N) : N := fold_right N.add 0 l.
(* specification of checksum32: the start value plus the sum of the bytes, modulo 2^32 *)
Definition checksum32_spec (c : N) (buf : list N) : N := (c + byte_sum buf) mod two32.
(* a stream operation: oasis_write of some bytes or oasis_putc of some value *)
Inductive os_op := OpWrite (b : list N) | OpPutc (c : N).
Definition os_apply (st : ostream) (o : os_op) : ostream :=
  match o with OpWrite b => os_write b st | OpPutc c => os_putc c st end.
Definition op_bytes (o : os_op) : list N := match o with OpWrite b => b | OpPutc c => [N.land c 255] end.
Definition pad_len_of (signed : bool) (cn ts pn ps : N) : N :=
  usub (if signed then 248 else 252) (N.of_nat (length (end_offsets cn ts pn ps))).
Definition no_checksum : vres := mkV true (Some 0) (Some ErrorCode_ChecksumError).
Definition invalid_file : vres := mkV false None (Some ErrorCode_InvalidFile).
Definition embed_body (scheme : N) (junk : list N) : list N :=
  let pre := oas_header ++ [3; 49; 46; 48; 0; 232; 7; 1] ++ junk in          (* START: "1.0", unit 1000, offsets in END *)
  pre ++ scheme :: le32 (sig_of scheme (pre ++ [scheme])).
Definition refutation_file (scheme : N) : list N :=
  signed_file scheme (embed_body scheme [28; 23; 0; 11; 5] ++ end_body true 0 0 0 0).
Definition file_fits (cfg : wcfg) (l : wlib) : Prop :=
  N.of_nat (length (run_start (write_oas_run cfg l) ++ concat (run_records (write_oas_run cfg l)))) + 512 < two64.
Definition lib_with_value (v : list N) : wlib := mkWLib 4652007308841189376 [([80], [VStr v])] [].   (* unit 1000.0 *)
Definition collision_value (crc sum : bool) : list N :=
  let scheme := scheme_of crc sum in
  match write_oas_sig_model (mkWCfg false) crc sum (lib_with_value [scheme; 0; 0; 0; 0]) with
  | Ok f0 => scheme :: le32 (sig_of scheme (firstn 34 f0))
  | _ => []
  end.
