(* C14 -- model of the point-in-polygon queries and polygon measures of /repo/src/polygon.cpp:
     Polygon::contain, Polygon::contain_all, Polygon::contain_any, Polygon::bounding_box,
     inside, all_inside, any_inside, Polygon::signed_area, Polygon::area, Polygon::perimeter.
   Definitions only (no proofs) so the model still runs when a proof breaks.

   Coordinates are integers (type Z).  The C++ computes in double; on coordinates that are integers
   of magnitude below 2^25 every difference, product and `cross` below is exact in double, and every
   comparison of the C++ is the comparison of the same integers here.  The harness only produces
   such coordinates (a half-grid query point is made an integer by doubling all coordinates).  *)
Require Import Base.
Local Open Scope Z_scope.

Definition pt := (Z * Z)%type.
Definition px (p : pt) : Z := fst p.
Definition py (p : pt) : Z := snd p.

(* Vec2 operator-, operator+=, cross (x * v.y - y * v.x), operator== *)
Definition vsub (a b : pt) : pt := (px a - px b, py a - py b).
Definition vadd (a b : pt) : pt := (px a + px b, py a + py b).
Definition cross (a b : pt) : Z := px a * py b - py a * px b.
Definition pt_eqb (a b : pt) : bool := (px a =? px b) && (py a =? py b).

(* ------------------------------------------------------------------ Polygon::contain *)
(* `winding += p1.y > p0.y ? 1 : -1` *)
Definition wstep (p0 p1 : pt) : Z := if py p1 >? py p0 then 1 else -1.

(* the for loop over the vertices; [p0] is the previous vertex, [w] the variable `winding`,
   the result of the function is returned ([true] = an early `return true`) *)
Fixpoint contain_loop (vs : list pt) (point p0 : pt) (w : Z) : bool :=
  match vs with
  | [] => negb (w =? 0)                                               (* return winding != 0 *)
  | p1 :: tl =>
      if (py p1 =? py point) &&
         ((px p1 =? px point) ||
          ((py p0 =? py point) && Bool.eqb (px p1 >? px point) (px p0 <? px point)))
      then true
      else if negb (Bool.eqb (py p0 <? py point) (py p1 <? py point)) then
        if px p0 >=? px point then
          if px p1 >? px point then contain_loop tl point p1 (w + wstep p0 p1)
          else
            let det := cross (vsub p0 point) (vsub p1 point) in
            if det =? 0 then true
            else if Bool.eqb (det >? 0) (py p1 >? py p0)
                 then contain_loop tl point p1 (w + wstep p0 p1)
                 else contain_loop tl point p1 w
        else if px p1 >? px point then
          let det := cross (vsub p0 point) (vsub p1 point) in
          if det =? 0 then true
          else if Bool.eqb (det >? 0) (py p1 >? py p0)
               then contain_loop tl point p1 (w + wstep p0 p1)
               else contain_loop tl point p1 w
        else contain_loop tl point p1 w
      else contain_loop tl point p1 w
  end.

Definition contain (poly : list pt) (point : pt) : bool :=
  match poly with
  | [] => false                                                       (* point_array.count == 0 *)
  | _ :: _ =>
      let p0 := last poly (0, 0) in                                   (* point_array[count - 1] *)
      if pt_eqb point p0 then true else contain_loop poly point p0 0
  end.

(* ------------------------------------------------------------------ Polygon::bounding_box *)
(* doubles extended by the two sentinels DBL_MAX / -DBL_MAX the C++ starts from (every coordinate
   is strictly between them; adding a coordinate to a sentinel leaves it unchanged in double) *)
Inductive ez : Type := NInf | Fin (z : Z) | PInf.
Definition ez_ltb (a b : ez) : bool :=
  match a, b with
  | NInf, NInf => false
  | NInf, _ => true
  | Fin _, NInf => false
  | Fin x, Fin y => x <? y
  | Fin _, PInf => true
  | PInf, _ => false
  end.
Definition ez_gtb (a b : ez) : bool := ez_ltb b a.
Definition ez_leb (a b : ez) : bool := negb (ez_ltb b a).           (* no NaN here *)
Definition ez_geb (a b : ez) : bool := negb (ez_ltb a b).
Definition ez_add (a : ez) (z : Z) : ez := match a with Fin x => Fin (x + z) | _ => a end.

Record box : Type := mkbox { bminx : ez; bminy : ez; bmaxx : ez; bmaxy : ez }.
Definition empty_box : box := mkbox PInf PInf NInf NInf.

(* one iteration of the vertex loop: four independent `if (...) m = ...` *)
Definition bbox_step (b : box) (p : pt) : box :=
  mkbox (if ez_ltb (Fin (px p)) (bminx b) then Fin (px p) else bminx b)
        (if ez_ltb (Fin (py p)) (bminy b) then Fin (py p) else bminy b)
        (if ez_gtb (Fin (px p)) (bmaxx b) then Fin (px p) else bmaxx b)
        (if ez_gtb (Fin (py p)) (bmaxy b) then Fin (py p) else bmaxy b).

(* one iteration of the loop over repetition.get_extrema; b0 = (min0, max0) *)
Definition bbox_ext_step (b0 b : box) (off : pt) : box :=
  mkbox (if ez_ltb (ez_add (bminx b0) (px off)) (bminx b) then ez_add (bminx b0) (px off) else bminx b)
        (if ez_ltb (ez_add (bminy b0) (py off)) (bminy b) then ez_add (bminy b0) (py off) else bminy b)
        (if ez_gtb (ez_add (bmaxx b0) (px off)) (bmaxx b) then ez_add (bmaxx b0) (px off) else bmaxx b)
        (if ez_gtb (ez_add (bmaxy b0) (py off)) (bmaxy b) then ez_add (bmaxy b0) (py off) else bmaxy b).

(* a polygon as the group functions see it: the vertex list and the list returned by
   repetition.get_extrema ([] when repetition.type == None; get_extrema itself is property C11) *)
Record polygon : Type := mkpolygon { pts : list pt; ext : list pt }.

Definition bbox_pts (l : list pt) : box := fold_left bbox_step l empty_box.
Definition bounding_box (P : polygon) : box :=
  let b0 := bbox_pts (pts P) in
  fold_left (bbox_ext_step b0) (ext P) b0.

(* the pre-filter tests, exactly as written: the fourth comparison repeats `point.x ... max.x`
   where `point.y ... max.y` was evidently meant (bmaxy is never read) *)
Definition prefilter_in (b : box) (p : pt) : bool :=
  ez_geb (Fin (px p)) (bminx b) && ez_leb (Fin (px p)) (bmaxx b) &&
  ez_geb (Fin (py p)) (bminy b) && ez_leb (Fin (px p)) (bmaxx b).
Definition prefilter_out (b : box) (p : pt) : bool :=
  ez_ltb (Fin (px p)) (bminx b) || ez_gtb (Fin (px p)) (bmaxx b) ||
  ez_ltb (Fin (py p)) (bminy b) || ez_gtb (Fin (px p)) (bmaxx b).

(* first loop of contain_all / all_inside: `if (outside) return false` *)
Fixpoint any_out (b : box) (points : list pt) : bool :=
  match points with
  | [] => false
  | p :: tl => if prefilter_out b p then true else any_out b tl
  end.

(* ------------------------------------------------------------------ Polygon::contain_all/any *)
Fixpoint all_contained (poly : list pt) (points : list pt) : bool :=
  match points with
  | [] => true
  | p :: tl => if negb (contain poly p) then false else all_contained poly tl
  end.
Definition contain_all (P : polygon) (points : list pt) : bool :=
  if any_out (bounding_box P) points then false else all_contained (pts P) points.

Fixpoint contain_any_loop (b : box) (poly : list pt) (points : list pt) : bool :=
  match points with
  | [] => false
  | p :: tl => if prefilter_in b p && contain poly p then true else contain_any_loop b poly tl
  end.
Definition contain_any (P : polygon) (points : list pt) : bool :=
  contain_any_loop (bounding_box P) (pts P) points.

(* ------------------------------------------------------------------ inside / all_inside / any_inside *)
Definition group_step (b : box) (P : polygon) : box :=
  let ab := bounding_box P in
  mkbox (if ez_ltb (bminx ab) (bminx b) then bminx ab else bminx b)
        (if ez_ltb (bminy ab) (bminy b) then bminy ab else bminy b)
        (if ez_gtb (bmaxx ab) (bmaxx b) then bmaxx ab else bmaxx b)
        (if ez_gtb (bmaxy ab) (bmaxy b) then bmaxy ab else bmaxy b).
Definition group_box (polys : list polygon) : box := fold_left group_step polys empty_box.

(* `for j: if (polygons[j]->contain(point)) { found; break; }` *)
Fixpoint in_some (polys : list polygon) (p : pt) : bool :=
  match polys with
  | [] => false
  | P :: tl => if contain (pts P) p then true else in_some tl p
  end.

Definition inside (points : list pt) (polys : list polygon) : list bool :=
  let b := group_box polys in
  map (fun p => if prefilter_in b p then in_some polys p else false) points.

Fixpoint all_in_some (polys : list polygon) (points : list pt) : bool :=
  match points with
  | [] => true
  | p :: tl => if negb (in_some polys p) then false else all_in_some polys tl
  end.
Definition all_inside (points : list pt) (polys : list polygon) : bool :=
  if any_out (group_box polys) points then false else all_in_some polys points.

Fixpoint any_inside_loop (b : box) (polys : list polygon) (points : list pt) : bool :=
  match points with
  | [] => false
  | p :: tl => if prefilter_in b p && in_some polys p then true else any_inside_loop b polys tl
  end.
Definition any_inside (points : list pt) (polys : list polygon) : bool :=
  any_inside_loop (group_box polys) polys points.

(* ------------------------------------------------------------------ signed_area / area / perimeter *)
(* `for (num = count - 2; num > 0; num--) { v2 = *p++ - v0; result += v1.cross(v2); v1 = v2; }` *)
Fixpoint fan_loop (v0 v1 : pt) (rest : list pt) (result : Z) : Z :=
  match rest with
  | [] => result
  | q :: tl => let v2 := vsub q v0 in fan_loop v0 v2 tl (result + cross v1 v2)
  end.
(* `result` at the end of the loop; signed_area() returns 0.5 * result *)
Definition signed_area2 (poly : list pt) : Z :=
  if (length poly <? 3)%nat then 0
  else match poly with
       | v0 :: p1 :: rest => fan_loop v0 (vsub p1 v0) rest 0
       | _ => 0                                                      (* not reached: count >= 3 *)
       end.
(* area() returns 0.5 * fabs(result) after `if (type != None) result *= get_count()`;
   [copies] = None when repetition.type == None, else Some (get_count()) *)
Definition area2 (poly : list pt) (copies : option Z) : Z :=
  if (length poly <? 3)%nat then 0
  else match poly with
       | v0 :: p1 :: rest =>
           let result := fan_loop v0 (vsub p1 v0) rest 0 in
           Z.abs (match copies with None => result | Some c => result * c end)
       | _ => 0
       end.

(* perimeter(): `for (num = count - 1; ...) { v1 = *p++ - v0; result += v1.length(); v0 += v1; }`
   then `result += (items[0] - items[count-1]).length()`.  The list of the vectors whose lengths
   are summed, in the order of summation. *)
Fixpoint perim_loop (v0 : pt) (rest : list pt) : list pt :=
  match rest with
  | [] => []
  | q :: tl => let v1 := vsub q v0 in v1 :: perim_loop (vadd v0 v1) tl
  end.
Definition perimeter_edges (poly : list pt) : list pt :=
  if (length poly <? 3)%nat then []
  else match poly with
       | v0 :: rest => perim_loop v0 rest ++ [vsub v0 (last poly (0, 0))]
       | [] => []
       end.

(* ================================================================== specification *)
(* closed edge list: edge i runs from vertex i to vertex i+1 (mod n) *)
Definition closed_edges (poly : list pt) : list (pt * pt) :=
  match poly with
  | [] => []
  | h :: t => combine poly (t ++ [h])
  end.

Fixpoint zsum (l : list Z) : Z := match l with [] => 0 | x :: t => x + zsum t end.

(* twice the signed area of the triangle (p, a, b): > 0 iff p is strictly left of a -> b *)
Definition det (p a b : pt) : Z :=
  (px a - px p) * (py b - py p) - (py a - py p) * (px b - px p).

(* crossing sign of the edge a -> b with the ray from p towards +x; half-open rule: an edge
   contains its upper end point and not its lower one; horizontal edges never cross *)
Definition cross_sign (p : pt) (e : pt * pt) : Z :=
  let (a, b) := e in
  if (py a <? py p) && (py p <=? py b) then (if 0 <? det p a b then 1 else 0)
  else if (py b <? py p) && (py p <=? py a) then (if det p a b <? 0 then -1 else 0)
  else 0.

(* p lies on the closed segment a b: collinear and inside the segment's box *)
Definition on_edge (p : pt) (e : pt * pt) : bool :=
  let (a, b) := e in
  (det p a b =? 0) &&
  (Z.min (px a) (px b) <=? px p) && (px p <=? Z.max (px a) (px b)) &&
  (Z.min (py a) (py b) <=? py p) && (py p <=? Z.max (py a) (py b)).

Definition wn (poly : list pt) (p : pt) : Z := zsum (map (cross_sign p) (closed_edges poly)).
Definition on_boundary (poly : list pt) (p : pt) : bool := existsb (on_edge p) (closed_edges poly).
Definition spec_contain (poly : list pt) (p : pt) : bool :=
  on_boundary poly p || negb (wn poly p =? 0).

(* the other half-open rule (an edge contains its lower end point and not its upper one);
   ContainProofs.wn_convention_lemma: off the boundary both rules give the same number *)
Definition cross_sign_lo (p : pt) (e : pt * pt) : Z :=
  let (a, b) := e in
  if (py a <=? py p) && (py p <? py b) then (if 0 <? det p a b then 1 else 0)
  else if (py b <=? py p) && (py p <? py a) then (if det p a b <? 0 then -1 else 0)
  else 0.
Definition wn_lo (poly : list pt) (p : pt) : Z := zsum (map (cross_sign_lo p) (closed_edges poly)).

(* shoelace sum = twice the signed area *)
Definition shoelace2 (poly : list pt) : Z :=
  zsum (map (fun e : pt * pt => cross (fst e) (snd e)) (closed_edges poly)).

(* the vectors of the closed edge list *)
Definition edge_vectors (poly : list pt) : list pt :=
  map (fun e : pt * pt => vsub (snd e) (fst e)) (closed_edges poly).

(* smallest box around the vertices, as a predicate on a point *)
Definition in_box (b : box) (p : pt) : bool :=
  ez_leb (bminx b) (Fin (px p)) && ez_leb (Fin (px p)) (bmaxx b) &&
  ez_leb (bminy b) (Fin (py p)) && ez_leb (Fin (py p)) (bmaxy b).

(* ------------------------------------------------------------------ sanity examples *)
Definition square : list pt := [(0, 0); (4, 0); (4, 4); (0, 4)].
Definition bowtie : list pt := [(0, 0); (4, 4); (4, 0); (0, 4)].
Example ex_inside : contain square (2, 2) = true /\ spec_contain square (2, 2) = true.
Proof. split; reflexivity. Qed.
Example ex_outside : contain square (5, 2) = false /\ spec_contain square (5, 2) = false.
Proof. split; reflexivity. Qed.
Example ex_edge : contain square (4, 1) = true /\ on_boundary square (4, 1) = true.
Proof. split; reflexivity. Qed.
Example ex_bowtie : contain bowtie (3, 2) = true /\ wn bowtie (3, 2) = -1 /\ wn bowtie (1, 2) = 1
                    /\ contain bowtie (2, 1) = false.
Proof. repeat split; reflexivity. Qed.
Example ex_area : signed_area2 square = 32 /\ shoelace2 square = 32 /\
                  area2 (rev square) (Some 3) = 96 /\ signed_area2 (rev square) = -32.
Proof. repeat split; reflexivity. Qed.
Example ex_perim : perimeter_edges square = [(4, 0); (0, 4); (-4, 0); (0, -4)].
Proof. reflexivity. Qed.
