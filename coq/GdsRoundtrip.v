(* Round trip of the GDSII writer and reader models (C01 / C03):
     read_gds_model None (write_gds_model ts L) = Ok (canon L)   for every well-formed library L. *)
Require Import Base GdsFrame GdsFrameProofs GdsModel GdsWrite.
From Coq Require Import ZArith Lia ZifyBool ZifyN ZifyNat.
Local Open Scope N_scope.
Ltac Zify.zify_post_hook ::= Z.div_mod_to_equations.

(* ================================================================== A. field codecs *)
Definition fits16 (z : Z) : Prop := (-32768 <= z < 32768)%Z.
Definition fits32 (z : Z) : Prop := (-2147483648 <= z < 2147483648)%Z.
Definition fits_pt (p : pt) : Prop := fits32 (fst p) /\ fits32 (snd p).

Lemma sign_ext16 z : fits16 z -> sign_ext 16 (Z.to_N (z mod 65536)) = z.
Proof.
  unfold fits16, sign_ext. intros H. change (2 ^ (16 - 1)) with 32768. change (2 ^ 16) with 65536.
  destruct (Z.to_N (z mod 65536) <? 32768) eqn:E; lia.
Qed.
Lemma sign_ext32 z : fits32 z -> sign_ext 32 (Z.to_N (z mod 4294967296)) = z.
Proof.
  unfold fits32, sign_ext. intros H. change (2 ^ (32 - 1)) with 2147483648. change (2 ^ 32) with 4294967296.
  destruct (Z.to_N (z mod 4294967296) <? 2147483648) eqn:E; lia.
Qed.

Lemma d16_enc16 z rest : fits16 z -> d16 (swap2 (enc16 z ++ rest)) 0 = z.
Proof.
  intros H. unfold d16, enc16. cbn [app swap2 skipn firstn Nat.mul Nat.add le_value fold_right].
  set (v := Z.to_N (z mod 65536)).
  replace (v mod 256 + 256 * (v / 256 + 256 * 0)) with v by lia.
  apply sign_ext16. assumption.
Qed.
Lemma d16_enc16_1 a z rest : fits16 z -> d16 (swap2 (enc16 a ++ enc16 z ++ rest)) 1 = z.
Proof.
  intros H. unfold d16, enc16. cbn [app swap2 skipn firstn Nat.mul Nat.add le_value fold_right].
  set (v := Z.to_N (z mod 65536)).
  replace (v mod 256 + 256 * (v / 256 + 256 * 0)) with v by lia.
  apply sign_ext16. assumption.
Qed.

Lemma le4 v : v < 4294967296 ->
  v mod 256 + 256 * (v / 256 mod 256 + 256 * (v / 65536 mod 256 + 256 * (v / 16777216 + 256 * 0))) = v.
Proof. intros H. lia. Qed.

Lemma d32_enc32 z rest : fits32 z -> d32 (swap4 (enc32 z ++ rest)) 0 = z.
Proof.
  intros H. unfold d32, enc32. cbn [app swap4 skipn firstn Nat.mul Nat.add le_value fold_right].
  set (v := Z.to_N (z mod 4294967296)).
  rewrite le4 by (subst v; lia). apply sign_ext32. assumption.
Qed.
Lemma d32_enc32_1 a z rest : fits32 z -> d32 (swap4 (enc32 a ++ enc32 z ++ rest)) 1 = z.
Proof.
  intros H. unfold d32, enc32. cbn [app swap4 skipn firstn Nat.mul Nat.add le_value fold_right].
  set (v := Z.to_N (z mod 4294967296)).
  rewrite le4 by (subst v; lia). apply sign_ext32. assumption.
Qed.

Lemma le8 v : v < 18446744073709551616 ->
  v mod 256 + 256 * (v / 256 mod 256 + 256 * (v / 65536 mod 256 + 256 * (v / 16777216 mod 256 + 256 *
  (v / 4294967296 mod 256 + 256 * (v / 1099511627776 mod 256 + 256 * (v / 281474976710656 mod 256 + 256 *
  (v / 72057594037927936 mod 256 + 256 * 0))))))) = v.
Proof. intros H. lia. Qed.

Lemma d64_enc64 v rest : v < 18446744073709551616 -> d64 (swap8 (enc64 v ++ rest)) 0 = v.
Proof.
  intros H. unfold d64, enc64. cbn [app swap8 skipn firstn Nat.mul Nat.add le_value fold_right].
  apply le8. assumption.
Qed.
Lemma d64_enc64_1 a v rest : v < 18446744073709551616 -> d64 (swap8 (enc64 a ++ enc64 v ++ rest)) 1 = v.
Proof.
  intros H. unfold d64, enc64. cbn [app swap8 skipn firstn Nat.mul Nat.add le_value fold_right].
  apply le8. assumption.
Qed.

Lemma d16_enc16' z : fits16 z -> d16 (swap2 (enc16 z)) 0 = z.
Proof. intros H. rewrite <- (app_nil_r (enc16 z)). apply d16_enc16. assumption. Qed.
Lemma d32_enc32' z : fits32 z -> d32 (swap4 (enc32 z)) 0 = z.
Proof. intros H. rewrite <- (app_nil_r (enc32 z)). apply d32_enc32. assumption. Qed.
Lemma d64_enc64' v : v < 18446744073709551616 -> d64 (swap8 (enc64 v)) 0 = v.
Proof. intros H. rewrite <- (app_nil_r (enc64 v)). apply d64_enc64. assumption. Qed.

(* ================================================================== B. strings *)
Definition no_nul (s : bytes) : Prop := Forall (fun b => b <> 0) s.

Lemma strip_nul_no_nul s : no_nul s -> strip_nul s = s.
Proof.
  intros H. unfold strip_nul. destruct (rev s) as [|b r] eqn:E; [reflexivity|].
  destruct b; [|reflexivity]. exfalso.
  assert (Hin : In 0 s). { apply in_rev. rewrite E. left. reflexivity. }
  unfold no_nul in H. rewrite Forall_forall in H. apply (H 0 Hin). reflexivity.
Qed.

Lemma strip_nul_pad s : no_nul s -> strip_nul (pad_even s) = s.
Proof.
  intros H. unfold pad_even. destruct (Nat.even (length s)).
  - apply strip_nul_no_nul. assumption.
  - unfold strip_nul. rewrite rev_app_distr. cbn [rev app]. apply rev_involutive.
Qed.

Lemma cstring_no_nul s : no_nul s -> cstring s = s.
Proof.
  induction 1 as [|b s Hb Hs IH]; [reflexivity|]. cbn [cstring]. destruct b; [congruence|]. rewrite IH. reflexivity.
Qed.
Lemma cstring_app_nul s rest : no_nul s -> cstring (s ++ 0 :: rest) = s.
Proof.
  induction 1 as [|b s Hb Hs IH]; [reflexivity|]. cbn [cstring app]. destruct b; [congruence|]. rewrite IH. reflexivity.
Qed.
Lemma cstring_pad s : no_nul s -> cstring (pad_even s) = s.
Proof.
  intros H. unfold pad_even. destruct (Nat.even (length s)); [apply cstring_no_nul|apply cstring_app_nul]; assumption.
Qed.

(* ================================================================== C. point lists *)
Lemma enc_points_cons x y pts : enc_points ((x, y) :: pts) = enc32 x ++ enc32 y ++ enc_points pts.
Proof. unfold enc_points. cbn [flat_map]. rewrite app_assoc. reflexivity. Qed.

Lemma enc_points_length pts : length (enc_points pts) = (8 * length pts)%nat.
Proof.
  induction pts as [|[x y] pts IH]; [reflexivity|]. rewrite enc_points_cons.
  rewrite !app_length, IH. cbn [enc32 length]. lia.
Qed.

Lemma points_of_enc pts : Forall fits_pt pts -> points_of (swap4 (enc_points pts)) (length pts) = pts.
Proof.
  induction 1 as [|[x y] pts [Hx Hy] Hp IH]; [reflexivity|].
  rewrite enc_points_cons. cbn [length points_of]. cbn [fst snd] in Hx, Hy.
  rewrite d32_enc32 by assumption. rewrite d32_enc32_1 by assumption.
  f_equal. unfold enc32 at 1 2. cbn [app swap4 skipn]. exact IH.
Qed.

Lemma data_length_points pts : (data_length 3 (enc_points pts) / 2)%nat = length pts.
Proof.
  cbn [data_length]. rewrite enc_points_length.
  replace (8 * length pts)%nat with ((2 * length pts) * 4)%nat by lia. rewrite Nat.div_mul by lia.
  rewrite Nat.mul_comm. apply Nat.div_mul. lia.
Qed.

(* ================================================================== D. running a record list *)
Fixpoint run (f : option (list (Z * Z))) (st : rstate) (recs : list grecord) : sres :=
  match recs with
  | [] => SCont st
  | r :: tl => match step_gds f st r with SCont st' => run f st' tl | x => x end
  end.

Lemma run_app f a : forall st b,
  run f st (a ++ b) = match run f st a with SCont st' => run f st' b | x => x end.
Proof.
  induction a as [|r a IH]; intros st b; [reflexivity|]. cbn [app run].
  destruct (step_gds f st r); [apply IH|reflexivity|reflexivity].
Qed.

Ltac step_simpl :=
  cbn [run step_gds kind_of mkrec rtype dtype payload s_name s_units s_done s_cur s_open s_width s_key s_path_started swapped
       p_layer p_type p_pts p_props h_layer h_type h_end h_width h_scale_width h_ext h_pts h_props
       r_name r_origin r_refl r_mag r_rot r_rep r_props l_layer l_type l_text l_origin l_anchor l_refl l_mag l_rot l_props
       new_poly new_path new_ref new_label];
  unfold with_open, with_cur, with_name, with_units, with_done, with_width, with_key, with_started;
  cbn [s_name s_units s_done s_cur s_open s_width s_key s_path_started].

Lemma Forall_firstn_ {A} (P : A -> Prop) n l : Forall P l -> Forall P (firstn n l).
Proof. revert l. induction n as [|n IH]; intros l H; [constructor|]. destruct H; cbn [firstn]; constructor; auto. Qed.
Lemma Forall_skipn_ {A} (P : A -> Prop) n l : Forall P l -> Forall P (skipn n l).
Proof. revert l. induction n as [|n IH]; intros l H; [assumption|]. destruct H; cbn [skipn]; auto. Qed.

(* XY records appended to an open polygon *)
Lemma run_xy_poly f nm un dn cu wd ky ps la ty pr tl fuel : forall pts acc,
  Forall fits_pt pts -> (length pts <= fuel)%nat ->
  run f (Build_rstate nm un dn cu (Some (EPoly (Build_gpoly la ty acc pr))) wd ky ps) (xy_records fuel pts ++ tl) =
  run f (Build_rstate nm un dn cu (Some (EPoly (Build_gpoly la ty (acc ++ pts) pr))) wd ky ps) tl.
Proof.
  induction fuel as [|fu IH]; intros pts acc Hf Hl.
  - destruct pts; [|cbn [length] in Hl; lia]. cbn [xy_records app]. rewrite app_nil_r. reflexivity.
  - destruct pts as [|p0 pts]; [cbn [xy_records app]; rewrite app_nil_r; reflexivity|].
    cbn [xy_records app]. set (chunk := firstn xy_chunk (p0 :: pts)). set (rest := skipn xy_chunk (p0 :: pts)).
    step_simpl. rewrite data_length_points.
    rewrite points_of_enc by (apply Forall_firstn_; assumption).
    rewrite IH.
    + rewrite <- app_assoc. subst chunk rest. rewrite firstn_skipn. reflexivity.
    + apply Forall_skipn_. assumption.
    + subst rest. rewrite skipn_length. cbn [length] in *. unfold xy_chunk. lia.
Qed.

(* XY records appended to an open path whose spine already has points *)
Lemma run_xy_path f nm un dn cu wd ky la ty en hw sw ex pr tl fuel : forall pts acc,
  Forall fits_pt pts -> (length pts <= fuel)%nat ->
  run f (Build_rstate nm un dn cu (Some (EPath (Build_gpath la ty en hw sw ex acc pr))) wd ky true) (xy_records fuel pts ++ tl) =
  run f (Build_rstate nm un dn cu (Some (EPath (Build_gpath la ty en hw sw ex (acc ++ pts) pr))) wd ky true) tl.
Proof.
  induction fuel as [|fu IH]; intros pts acc Hf Hl.
  - destruct pts; [|cbn [length] in Hl; lia]. cbn [xy_records app]. rewrite app_nil_r. reflexivity.
  - destruct pts as [|p0 pts]; [cbn [xy_records app]; rewrite app_nil_r; reflexivity|].
    cbn [xy_records app]. set (chunk := firstn xy_chunk (p0 :: pts)). set (rest := skipn xy_chunk (p0 :: pts)).
    step_simpl. rewrite data_length_points.
    rewrite points_of_enc by (apply Forall_firstn_; assumption).
    rewrite IH.
    + rewrite <- app_assoc. subst chunk rest. rewrite firstn_skipn. reflexivity.
    + apply Forall_skipn_. assumption.
    + subst rest. rewrite skipn_length. cbn [length] in *. unfold xy_chunk. lia.
Qed.

(* first XY of a path: the element takes the current `width` *)
Lemma run_xy_path_first f nm un dn cu wd ky la ty en hw sw ex pr tl fuel pts :
  Forall fits_pt pts -> (length pts <= fuel)%nat -> pts <> [] ->
  run f (Build_rstate nm un dn cu (Some (EPath (Build_gpath la ty en hw sw ex [] pr))) wd ky false) (xy_records fuel pts ++ tl) =
  run f (Build_rstate nm un dn cu (Some (EPath (Build_gpath la ty en wd sw ex pts pr))) wd ky true) tl.
Proof.
  intros Hf Hl Hne. destruct pts as [|p0 pts]; [congruence|]. destruct fuel as [|fu]; [cbn [length] in Hl; lia|].
  cbn [xy_records app]. set (chunk := firstn xy_chunk (p0 :: pts)). set (rest := skipn xy_chunk (p0 :: pts)).
  step_simpl. rewrite data_length_points.
  rewrite points_of_enc by (apply Forall_firstn_; assumption). cbn [app].
  rewrite run_xy_path.
  - subst chunk rest. rewrite firstn_skipn. reflexivity.
  - apply Forall_skipn_. assumption.
  - subst rest. rewrite skipn_length. cbn [length] in *. unfold xy_chunk. lia.
Qed.

(* properties *)
Definition prop_ok (p : N * bytes) : Prop := fst p < 65536 /\ no_nul (snd p).
Definition set_all (e : gelem) (ps : gprops) : gelem := fold_left (fun e '(a, v) => set_props e a v) ps e.
Definition last_key (k : N) (ps : gprops) : N := fold_left (fun _ '(a, _) => a) ps k.

Lemma key_roundtrip a : a < 65536 -> Z.to_N (d16 (swap2 (enc16 (Z.of_N a))) 0 mod 65536) = a.
Proof.
  intros H. unfold d16, enc16. cbn [app swap2 skipn firstn Nat.mul Nat.add le_value fold_right].
  replace (Z.to_N (Z.of_N a mod 65536)) with a by lia.
  replace (a mod 256 + 256 * (a / 256 + 256 * 0)) with a by lia.
  unfold sign_ext. change (2 ^ (16 - 1)) with 32768. change (2 ^ 16) with 65536.
  destruct (a <? 32768) eqn:E; lia.
Qed.

Lemma run_props f nm un dn cu wd ps_ tl : forall ps e ky,
  Forall prop_ok ps ->
  run f (Build_rstate nm un dn cu (Some e) wd ky ps_) (prop_records ps ++ tl) =
  run f (Build_rstate nm un dn cu (Some (set_all e ps)) wd (last_key ky ps) ps_) tl.
Proof.
  induction ps as [|[a v] ps IH]; intros e ky Hok; [reflexivity|].
  inversion Hok as [|? ? [Ha Hv] Hok']; subst. cbn [fst snd] in Ha, Hv.
  unfold prop_records. cbn [flat_map app]. fold (prop_records ps).
  step_simpl. rewrite key_roundtrip by assumption. rewrite cstring_pad by assumption.
  rewrite IH by assumption. reflexivity.
Qed.

(* ================================================================== E. elements *)
Definition canon_props (ps : gprops) : gprops := fold_left (fun acc '(a, v) => set_gds_prop acc a v) ps [].

Definition elem_props (e : gelem) : gprops :=
  match e with EPoly p => p_props p | EPath h => h_props h | ERef r => r_props r | ELabel l => l_props l end.

Lemma set_all_poly la ty pts ps : forall P,
  set_all (EPoly (Build_gpoly la ty pts P)) ps =
  EPoly (Build_gpoly la ty pts (fold_left (fun acc '(a, v) => set_gds_prop acc a v) ps P)).
Proof. induction ps as [|[a v] ps IH]; intros P; [reflexivity|]. cbn [set_all fold_left set_props p_layer p_type p_pts p_props]. apply IH. Qed.
Lemma set_all_path la ty en hw sw ex pts ps : forall P,
  set_all (EPath (Build_gpath la ty en hw sw ex pts P)) ps =
  EPath (Build_gpath la ty en hw sw ex pts (fold_left (fun acc '(a, v) => set_gds_prop acc a v) ps P)).
Proof. induction ps as [|[a v] ps IH]; intros P; [reflexivity|].
  cbn [set_all fold_left set_props h_layer h_type h_end h_width h_scale_width h_ext h_pts h_props]. apply IH. Qed.
Lemma set_all_ref nm o rf mg rt rp ps : forall P,
  set_all (ERef (Build_gref nm o rf mg rt rp P)) ps =
  ERef (Build_gref nm o rf mg rt rp (fold_left (fun acc '(a, v) => set_gds_prop acc a v) ps P)).
Proof. induction ps as [|[a v] ps IH]; intros P; [reflexivity|].
  cbn [set_all fold_left set_props r_name r_origin r_refl r_mag r_rot r_rep r_props]. apply IH. Qed.
Lemma set_all_label la ty tx o an rf mg rt ps : forall P,
  set_all (ELabel (Build_glabel la ty tx o an rf mg rt P)) ps =
  ELabel (Build_glabel la ty tx o an rf mg rt (fold_left (fun acc '(a, v) => set_gds_prop acc a v) ps P)).
Proof. induction ps as [|[a v] ps IH]; intros P; [reflexivity|].
  cbn [set_all fold_left set_props l_layer l_type l_text l_origin l_anchor l_refl l_mag l_rot l_props]. apply IH. Qed.

(* ---- polygons *)
Definition poly_ok (p : gpoly) : Prop :=
  fits16 (p_layer p) /\ fits16 (p_type p) /\ Forall fits_pt (p_pts p) /\ Forall prop_ok (p_props p) /\
  (3 <= length (p_pts p))%nat /\
  (* the stored vertex list is open: a closing duplicate would be dropped by the reader *)
  (forall p0, hd_error (p_pts p) = Some p0 -> last (p_pts p) p0 <> p0).
Definition canon_poly (p : gpoly) : gpoly := Build_gpoly (p_layer p) (p_type p) (p_pts p) (canon_props (p_props p)).

Lemma drop_closing_closed pts p0 : hd_error pts = Some p0 -> drop_closing (pts ++ [p0]) = Some pts.
Proof.
  intros H. destruct pts as [|q pts]; [discriminate|]. injection H as ->.
  unfold drop_closing. cbn [app]. change (p0 :: pts ++ [p0]) with ((p0 :: pts) ++ [p0]).
  rewrite last_last. rewrite !Z.eqb_refl. cbn [andb]. rewrite removelast_last. reflexivity.
Qed.

Lemma run_poly f nm un dn c b wd ky ps p tl :
  poly_ok p ->
  exists wd' ky' ps',
  run f (Build_rstate nm un dn (Some (c, b)) None wd ky ps) (poly_records p ++ tl) =
  run f (Build_rstate nm un dn (Some (commit f c (EPoly (canon_poly p)), b)) None wd' ky' ps') tl.
Proof.
  intros (Hl & Ht & Hp & Hpr & Hn & Hopen). destruct p as [la ty pts pr]. cbn [p_layer p_type p_pts p_props] in *.
  unfold poly_records. cbn [p_layer p_type p_pts p_props].
  replace (length pts <? 3)%nat with false by (symmetry; apply Nat.ltb_ge; lia).
  destruct pts as [|p0 pts']; [cbn [length] in Hn; lia|]. cbn [hd].
  assert (Hhd : hd_error (p0 :: pts') = Some p0) by reflexivity.
  remember (p0 :: pts') as pts eqn:Hpts. clear Hpts.
  rewrite <- !app_assoc. cbn [app]. step_simpl.
  rewrite d16_enc16' by assumption. rewrite d16_enc16' by assumption.
  rewrite run_xy_poly.
  2:{ apply Forall_app. split; [assumption|]. constructor; [|constructor].
      destruct pts as [|q pts'']; [discriminate|]. injection Hhd as ->. inversion Hp; assumption. }
  2:{ lia. }
  cbn [app]. rewrite run_props by assumption. rewrite set_all_poly. unfold endel.
  step_simpl. cbn [app].
  do 3 eexists.
  pose proof (drop_closing_closed pts p0 Hhd) as Hd. unfold pt in *. rewrite Hd.
  unfold with_open, with_cur. cbn [s_name s_units s_done s_cur s_open s_width s_key s_path_started].
  reflexivity.
Qed.

(* ---- simple paths *)
Definition path_ok (h : gpath) : Prop :=
  fits16 (h_layer h) /\ fits16 (h_type h) /\ Forall fits_pt (h_pts h) /\ Forall prop_ok (h_props h) /\
  (2 <= length (h_pts h))%nat /\ (0 <= h_width h < 2147483648)%Z /\
  (h_width h = 0%Z -> h_scale_width h = true) /\
  match h_end h with EExt => fits32 (fst (h_ext h)) /\ fits32 (snd (h_ext h)) | _ => h_ext h = (0, 0)%Z end.
Definition canon_path (h : gpath) : gpath :=
  Build_gpath (h_layer h) (h_type h) (h_end h) (h_width h) (h_scale_width h) (h_ext h) (h_pts h) (canon_props (h_props h)).

Lemma end_code_roundtrip e :
  match d16 (swap2 (enc16 (end_code e))) 0 with 0%Z => EFlush | 1%Z => ERound | 2%Z => EHalf | _ => EExt end = e.
Proof. destruct e; vm_compute; reflexivity. Qed.

Lemma run_path f nm un dn c b wd ky ps h tl :
  path_ok h ->
  exists wd' ky' ps',
  run f (Build_rstate nm un dn (Some (c, b)) None wd ky ps) (path_records h ++ tl) =
  run f (Build_rstate nm un dn (Some (commit f c (EPath (canon_path h)), b)) None wd' ky' ps') tl.
Proof.
  intros (Hl & Ht & Hp & Hpr & Hn & Hw & Hw0 & Hext). destruct h as [la ty en hw sw ex pts pr].
  cbn [h_layer h_type h_end h_width h_scale_width h_ext h_pts h_props] in *.
  unfold path_records. cbn [h_layer h_type h_end h_width h_scale_width h_ext h_pts h_props].
  replace (length pts <? 2)%nat with false by (symmetry; apply Nat.ltb_ge; lia).
  rewrite <- !app_assoc. cbn [app]. step_simpl.
  rewrite d16_enc16' by assumption. rewrite d16_enc16' by assumption.
  rewrite end_code_roundtrip.
  set (w := if sw then hw else (- hw)%Z).
  assert (Hfw : fits32 w) by (unfold fits32; subst w; destruct sw; lia).
  rewrite d32_enc32' by assumption.
  assert (Habs : Z.abs w = hw) by (subst w; destruct sw; lia).
  assert (Hsw : (0 <=? w)%Z = sw).
  { subst w. destruct sw; [apply Z.leb_le; lia|]. apply Z.leb_gt.
    destruct (Z.eq_dec hw 0) as [E|E]; [specialize (Hw0 E); discriminate|lia]. }
  rewrite Habs, Hsw.
  assert (Hne : pts <> []) by (destruct pts; [cbn [length] in Hn; lia|discriminate]).
  destruct en.
  - cbn [app]. rewrite run_xy_path_first by (assumption || lia).
    rewrite run_props by assumption. rewrite set_all_path. unfold endel. step_simpl.
    subst ex. do 3 eexists. reflexivity.
  - cbn [app]. rewrite run_xy_path_first by (assumption || lia).
    rewrite run_props by assumption. rewrite set_all_path. unfold endel. step_simpl.
    subst ex. do 3 eexists. reflexivity.
  - cbn [app]. rewrite run_xy_path_first by (assumption || lia).
    rewrite run_props by assumption. rewrite set_all_path. unfold endel. step_simpl.
    subst ex. do 3 eexists. reflexivity.
  - destruct Hext as [He0 He1]. destruct ex as [e0 e1]. cbn [fst snd] in *.
    cbn [app]. step_simpl. rewrite d32_enc32' by assumption. rewrite d32_enc32' by assumption. cbn [fst snd].
    rewrite run_xy_path_first by (assumption || lia).
    rewrite run_props by assumption. rewrite set_all_path. unfold endel. step_simpl.
    do 3 eexists. reflexivity.
Qed.

(* ---- references and labels *)
Lemma d32_skip a l i : d32 (swap4 (enc32 a ++ l)) (S i) = d32 (swap4 l) i.
Proof.
  unfold d32, enc32. cbn [app swap4]. replace (4 * S i)%nat with (S (S (S (S (4 * i))))) by lia.
  cbn [skipn]. reflexivity.
Qed.

Lemma d16_refl_bit (refl : bool) : Z.ltb (d16 (swap2 (if refl then [128; 0] else [0; 0])) 0) 0%Z = refl.
Proof. destruct refl; vm_compute; reflexivity. Qed.

Lemma d16_pair0 a z : fits16 a -> d16 (swap2 (enc16 a ++ enc16 z)) 0 = a.
Proof. intros H. apply d16_enc16. assumption. Qed.
Lemma d16_pair1 a z : fits16 z -> d16 (swap2 (enc16 a ++ enc16 z)) 1 = z.
Proof. intros H. rewrite <- (app_nil_r (enc16 z)). apply d16_enc16_1. assumption. Qed.

Definition real_ok (v : N) : Prop := v < 18446744073709551616.

(* STRANS / MAG / ANGLE on an open reference *)
Lemma run_strans_ref f nm un dn cu wd ky ps rn ro rp pr refl mag rot tl :
  real_ok mag -> real_ok rot ->
  run f (Build_rstate nm un dn cu (Some (ERef (Build_gref rn ro false real_one 0 rp pr))) wd ky ps)
        (strans_records refl mag rot ++ tl) =
  run f (Build_rstate nm un dn cu (Some (ERef (Build_gref rn ro refl mag rot rp pr))) wd ky ps) tl.
Proof.
  intros Hm Hr. unfold strans_records.
  destruct (negb refl && (mag =? real_one) && (rot =? 0)) eqn:E.
  - apply andb_prop in E. destruct E as [E Er]. apply andb_prop in E. destruct E as [Ef Em].
    apply N.eqb_eq in Er, Em. subst. destruct refl; [discriminate|]. reflexivity.
  - clear E. rewrite <- !app_assoc. cbn [app]. step_simpl. rewrite d16_refl_bit.
    destruct (mag =? real_one) eqn:Em.
    + apply N.eqb_eq in Em. subst mag. cbn [app].
      destruct (rot =? 0) eqn:Er.
      * apply N.eqb_eq in Er. subst rot. reflexivity.
      * cbn [app]. step_simpl. rewrite d64_enc64' by assumption. reflexivity.
    + cbn [app]. step_simpl. rewrite d64_enc64' by assumption.
      destruct (rot =? 0) eqn:Er.
      * apply N.eqb_eq in Er. subst rot. reflexivity.
      * cbn [app]. step_simpl. rewrite d64_enc64' by assumption. reflexivity.
Qed.

Lemma run_strans_label f nm un dn cu wd ky ps la ty tx o an pr refl mag rot tl :
  real_ok mag -> real_ok rot ->
  run f (Build_rstate nm un dn cu (Some (ELabel (Build_glabel la ty tx o an false real_one 0 pr))) wd ky ps)
        (strans_records refl mag rot ++ tl) =
  run f (Build_rstate nm un dn cu (Some (ELabel (Build_glabel la ty tx o an refl mag rot pr))) wd ky ps) tl.
Proof.
  intros Hm Hr. unfold strans_records.
  destruct (negb refl && (mag =? real_one) && (rot =? 0)) eqn:E.
  - apply andb_prop in E. destruct E as [E Er]. apply andb_prop in E. destruct E as [Ef Em].
    apply N.eqb_eq in Er, Em. subst. destruct refl; [discriminate|]. reflexivity.
  - clear E. rewrite <- !app_assoc. cbn [app]. step_simpl. rewrite d16_refl_bit.
    destruct (mag =? real_one) eqn:Em.
    + apply N.eqb_eq in Em. subst mag. cbn [app].
      destruct (rot =? 0) eqn:Er.
      * apply N.eqb_eq in Er. subst rot. reflexivity.
      * cbn [app]. step_simpl. rewrite d64_enc64' by assumption. reflexivity.
    + cbn [app]. step_simpl. rewrite d64_enc64' by assumption.
      destruct (rot =? 0) eqn:Er.
      * apply N.eqb_eq in Er. subst rot. reflexivity.
      * cbn [app]. step_simpl. rewrite d64_enc64' by assumption. reflexivity.
Qed.

(* COLROW of an AREF: at least one column and one row, at most 32767 (the reader divides the lattice extent by them;
   the strict grammar rejects anything else) *)
Definition count16 (z : Z) : Prop := (1 <= z < 32768)%Z.
Lemma count16_fits z : count16 z -> fits16 z.
Proof. unfold count16, fits16. lia. Qed.

Definition rep_ok_g (origin : pt) (refl : bool) (rot : N) (g : grep) : Prop :=
  count16 (g_cols g) /\ count16 (g_rows g) /\ fits_pt (g_p2 g) /\ fits_pt (g_p3 g) /\
  g_regular g = negb ((real_mantissa rot =? 0) && negb refl) /\
  (g_regular g = false -> snd (g_p2 g) = snd origin /\ fst (g_p3 g) = fst origin).

Definition ref_ok (r : gref) : Prop :=
  no_nul (r_name r) /\ fits_pt (r_origin r) /\ real_ok (r_mag r) /\ real_ok (r_rot r) /\ Forall prop_ok (r_props r) /\
  match r_rep r with None => True | Some g => rep_ok_g (r_origin r) (r_refl r) (r_rot r) g end.
Definition canon_ref (r : gref) : gref :=
  Build_gref (r_name r) (r_origin r) (r_refl r) (r_mag r) (r_rot r) (r_rep r) (canon_props (r_props r)).

Lemma run_ref f nm un dn c b wd ky ps r tl :
  ref_ok r ->
  exists wd' ky' ps',
  run f (Build_rstate nm un dn (Some (c, b)) None wd ky ps) (ref_records r ++ tl) =
  run f (Build_rstate nm un dn (Some (commit f c (ERef (canon_ref r)), b)) None wd' ky' ps') tl.
Proof.
  intros (Hn & Ho & Hm & Hr & Hpr & Hrep). destruct r as [rn [ox oy] refl mag rot rp pr].
  cbn [r_name r_origin r_refl r_mag r_rot r_rep r_props] in *. destruct Ho as [Hox Hoy]. cbn [fst snd] in Hox, Hoy.
  unfold ref_records. cbn [r_name r_origin r_refl r_mag r_rot r_rep r_props].
  destruct rp as [g|].
  - destruct Hrep as (Hc & Hrw & [H2x H2y] & [H3x H3y] & Hreg & Hrect).
    apply count16_fits in Hc. apply count16_fits in Hrw.
    destruct g as [gc gr greg [x2 y2] [x3 y3]]. cbn [g_cols g_rows g_regular g_p2 g_p3 fst snd] in *.
    rewrite <- !app_assoc. cbn [app]. step_simpl. rewrite strip_nul_pad by assumption.
    rewrite run_strans_ref by assumption. cbn [app]. step_simpl.
    rewrite d16_pair0 by assumption. rewrite d16_pair1 by assumption.
    unfold enc_points. cbn [flat_map]. rewrite <- !app_assoc. rewrite app_nil_r.
    rewrite d32_enc32 by assumption. rewrite d32_enc32_1 by assumption.
    rewrite !d32_skip. repeat (rewrite d32_enc32 by assumption). rewrite d32_enc32' by assumption.
    cbn [fst snd g_cols g_rows].
    rewrite run_props by assumption. rewrite set_all_ref. unfold endel. step_simpl.
    do 3 eexists. unfold canon_ref. cbn [r_name r_origin r_refl r_mag r_rot r_rep r_props].
    destruct ((real_mantissa rot =? 0) && negb refl) eqn:E; cbn [negb] in Hreg; subst greg.
    + destruct (Hrect eq_refl) as [-> ->]. reflexivity.
    + reflexivity.
  - rewrite <- !app_assoc. cbn [app]. step_simpl. rewrite strip_nul_pad by assumption.
    rewrite run_strans_ref by assumption. cbn [app]. step_simpl.
    unfold enc_points. cbn [flat_map]. rewrite <- !app_assoc. rewrite app_nil_r.
    rewrite d32_enc32 by assumption. rewrite d32_skip. rewrite d32_enc32' by assumption.
    rewrite run_props by assumption. rewrite set_all_ref. unfold endel. step_simpl.
    do 3 eexists. reflexivity.
Qed.

(* ---- labels *)
Definition label_ok (l : glabel) : Prop :=
  fits16 (l_layer l) /\ fits16 (l_type l) /\ no_nul (l_text l) /\ fits_pt (l_origin l) /\ l_anchor l < 16 /\
  real_ok (l_mag l) /\ real_ok (l_rot l) /\ Forall prop_ok (l_props l).
Definition canon_label (l : glabel) : glabel :=
  Build_glabel (l_layer l) (l_type l) (l_text l) (l_origin l) (l_anchor l) (l_refl l) (l_mag l) (l_rot l)
               (canon_props (l_props l)).

Lemma anchor_roundtrip a : a < 16 -> Z.to_N (d16 (swap2 (enc16 (Z.of_N a))) 0 mod 16) = a.
Proof. intros H. rewrite d16_enc16' by (unfold fits16; lia). lia. Qed.

Lemma run_label f nm un dn c b wd ky ps l tl :
  label_ok l ->
  exists wd' ky' ps',
  run f (Build_rstate nm un dn (Some (c, b)) None wd ky ps) (label_records l ++ tl) =
  run f (Build_rstate nm un dn (Some (commit f c (ELabel (canon_label l)), b)) None wd' ky' ps') tl.
Proof.
  intros (Hl & Ht & Htx & Ho & Ha & Hm & Hr & Hpr). destruct l as [la ty tx [ox oy] an refl mag rot pr].
  cbn [l_layer l_type l_text l_origin l_anchor l_refl l_mag l_rot l_props] in *.
  destruct Ho as [Hox Hoy]. cbn [fst snd] in Hox, Hoy.
  unfold label_records. cbn [l_layer l_type l_text l_origin l_anchor l_refl l_mag l_rot l_props].
  rewrite <- !app_assoc. cbn [app]. step_simpl.
  rewrite d16_enc16' by assumption. rewrite d16_enc16' by assumption. rewrite anchor_roundtrip by assumption.
  rewrite run_strans_label by assumption. cbn [app]. step_simpl.
  unfold enc_points. cbn [flat_map]. rewrite <- !app_assoc. rewrite app_nil_r.
  rewrite d32_enc32 by assumption. rewrite d32_skip. rewrite d32_enc32' by assumption.
  rewrite strip_nul_pad by assumption.
  rewrite run_props by assumption. rewrite set_all_label. unfold endel. step_simpl.
  do 3 eexists. reflexivity.
Qed.

(* ================================================================== F. cells and the library *)
Definition elem_ok (e : gelem) : Prop :=
  match e with EPoly p => poly_ok p | EPath h => path_ok h | ERef r => ref_ok r | ELabel l => label_ok l end.
Definition canon_elem (e : gelem) : gelem :=
  match e with EPoly p => EPoly (canon_poly p) | EPath h => EPath (canon_path h) | ERef r => ERef (canon_ref r)
          | ELabel l => ELabel (canon_label l) end.
Definition elem_records (e : gelem) : list grecord :=
  match e with EPoly p => poly_records p | EPath h => path_records h | ERef r => ref_records r | ELabel l => label_records l end.

Lemma run_elem f nm un dn c b wd ky ps e tl :
  elem_ok e ->
  exists wd' ky' ps',
  run f (Build_rstate nm un dn (Some (c, b)) None wd ky ps) (elem_records e ++ tl) =
  run f (Build_rstate nm un dn (Some (commit f c (canon_elem e), b)) None wd' ky' ps') tl.
Proof. destruct e; cbn [elem_ok elem_records canon_elem]; [apply run_poly|apply run_path|apply run_ref|apply run_label]. Qed.

Lemma run_elems f nm un dn b tl : forall es c wd ky ps,
  Forall elem_ok es ->
  exists wd' ky' ps',
  run f (Build_rstate nm un dn (Some (c, b)) None wd ky ps) (flat_map elem_records es ++ tl) =
  run f (Build_rstate nm un dn (Some (fold_left (commit f) (map canon_elem es) c, b)) None wd' ky' ps') tl.
Proof.
  induction es as [|e es IH]; intros c wd ky ps Hok.
  - do 3 eexists. reflexivity.
  - inversion Hok as [|? ? He Hes]; subst. cbn [flat_map map fold_left]. rewrite <- app_assoc.
    destruct (run_elem f nm un dn c b wd ky ps e (flat_map elem_records es ++ tl) He) as (wd1 & ky1 & ps1 & H1).
    rewrite H1. apply IH. assumption.
Qed.

Definition cell_elems (c : gcell) : list gelem :=
  map EPoly (c_polys c) ++ map EPath (c_paths c) ++ map ELabel (c_labels c) ++ map ERef (c_refs c).
Definition cell_ok (c : gcell) : Prop := no_nul (c_name c) /\ Forall elem_ok (cell_elems c).
Definition canon_cell (c : gcell) : gcell :=
  {| c_name := c_name c; c_polys := map canon_poly (c_polys c); c_paths := map canon_path (c_paths c);
     c_refs := map canon_ref (c_refs c); c_labels := map canon_label (c_labels c) |}.

Lemma flat_map_map_ {A B C} (f : B -> list C) (g : A -> B) l : flat_map f (map g l) = flat_map (fun x => f (g x)) l.
Proof. induction l as [|a l IH]; [reflexivity|]. cbn [map flat_map]. rewrite IH. reflexivity. Qed.

Lemma cell_records_elems ts c :
  cell_records ts c = [mkrec 5 2 (ts_bytes ts); mkrec 6 6 (pad_even (c_name c))] ++ flat_map elem_records (cell_elems c) ++ [mkrec 7 0 []].
Proof.
  unfold cell_records, cell_elems. rewrite !flat_map_app, !flat_map_map_. cbn [elem_records].
  rewrite <- !app_assoc. reflexivity.
Qed.

Lemma commit_polys nm ps : forall P H R L,
  fold_left (commit None) (map canon_elem (map EPoly ps)) (Build_gcell nm P H R L) = Build_gcell nm (P ++ map canon_poly ps) H R L.
Proof. induction ps as [|p ps IH]; intros; cbn [map fold_left]; [rewrite app_nil_r; reflexivity|].
  cbn [canon_elem commit c_name c_polys c_paths c_refs c_labels]. rewrite IH, <- app_assoc. reflexivity. Qed.
Lemma commit_paths nm hs : forall P H R L,
  fold_left (commit None) (map canon_elem (map EPath hs)) (Build_gcell nm P H R L) = Build_gcell nm P (H ++ map canon_path hs) R L.
Proof. induction hs as [|p ps IH]; intros; cbn [map fold_left]; [rewrite app_nil_r; reflexivity|].
  cbn [canon_elem commit c_name c_polys c_paths c_refs c_labels]. rewrite IH, <- app_assoc. reflexivity. Qed.
Lemma commit_labels nm ls : forall P H R L,
  fold_left (commit None) (map canon_elem (map ELabel ls)) (Build_gcell nm P H R L) = Build_gcell nm P H R (L ++ map canon_label ls).
Proof. induction ls as [|p ps IH]; intros; cbn [map fold_left]; [rewrite app_nil_r; reflexivity|].
  cbn [canon_elem commit c_name c_polys c_paths c_refs c_labels]. rewrite IH, <- app_assoc. reflexivity. Qed.
Lemma commit_refs nm rs : forall P H R L,
  fold_left (commit None) (map canon_elem (map ERef rs)) (Build_gcell nm P H R L) = Build_gcell nm P H (R ++ map canon_ref rs) L.
Proof. induction rs as [|p ps IH]; intros; cbn [map fold_left]; [rewrite app_nil_r; reflexivity|].
  cbn [canon_elem commit c_name c_polys c_paths c_refs c_labels]. rewrite IH, <- app_assoc. reflexivity. Qed.

Lemma commit_cell c :
  fold_left (commit None) (map canon_elem (cell_elems c)) (Build_gcell (c_name c) [] [] [] []) = canon_cell c.
Proof.
  unfold cell_elems. rewrite !map_app, !fold_left_app.
  rewrite commit_polys, commit_paths, commit_labels, commit_refs. reflexivity.
Qed.

Definition flush (dn : list gcell) (cu : option (gcell * bool)) : list gcell :=
  match cu with Some (c, true) => dn ++ [c] | _ => dn end.

Lemma run_cell ts nm un dn cu wd ky ps c tl :
  cell_ok c ->
  exists wd' ky' ps',
  run None (Build_rstate nm un dn cu None wd ky ps) (cell_records ts c ++ tl) =
  run None (Build_rstate nm un (flush dn cu) (Some (canon_cell c, true)) None wd' ky' ps') tl.
Proof.
  intros [Hn He]. rewrite cell_records_elems. rewrite <- !app_assoc. cbn [app]. step_simpl.
  rewrite strip_nul_pad by assumption. unfold flush_cur. cbn [s_cur s_done]. fold (flush dn cu).
  unfold empty_cell. cbn [c_polys c_paths c_refs c_labels].
  destruct (run_elems None nm un (flush dn cu) true (mkrec 7 0 [] :: tl) (cell_elems c)
              (Build_gcell (c_name c) [] [] [] []) wd ky ps He) as (wd1 & ky1 & ps1 & H1).
  do 3 eexists. rewrite H1. rewrite commit_cell. step_simpl. reflexivity.
Qed.

Lemma run_cells ts nm un tl : forall cells dn cu wd ky ps,
  Forall cell_ok cells ->
  exists dn' cu' wd' ky' ps',
  run None (Build_rstate nm un dn cu None wd ky ps) (flat_map (cell_records ts) cells ++ tl) =
  run None (Build_rstate nm un dn' cu' None wd' ky' ps') tl /\
  flush dn' cu' = flush dn cu ++ map canon_cell cells.
Proof.
  induction cells as [|c cells IH]; intros dn cu wd ky ps Hok.
  - exists dn, cu, wd, ky, ps. split; [reflexivity|]. cbn [map]. rewrite app_nil_r. reflexivity.
  - inversion Hok as [|? ? Hc Hcs]; subst. cbn [flat_map map]. rewrite <- app_assoc.
    destruct (run_cell ts nm un dn cu wd ky ps c (flat_map (cell_records ts) cells ++ tl) Hc) as (wd1 & ky1 & ps1 & H1).
    rewrite H1.
    destruct (IH (flush dn cu) (Some (canon_cell c, true)) wd1 ky1 ps1 Hcs) as (dn2 & cu2 & wd2 & ky2 & ps2 & H2 & Hf).
    exists dn2, cu2, wd2, ky2, ps2. split; [exact H2|]. rewrite Hf. cbn [flush]. rewrite <- app_assoc. reflexivity.
Qed.

(* the two UNITS reals are positive: sign bit clear, mantissa non-zero (the reader scales with the first and divides by it;
   the strict grammar rejects anything else) *)
Definition unit_ok (v : N) : Prop := v < 9223372036854775808 /\ 0 < real_mantissa v.
Lemma unit_ok_real v : unit_ok v -> real_ok v.
Proof. unfold unit_ok, real_ok. lia. Qed.

Definition lib_ok (l : glib) : Prop :=
  no_nul (g_name l) /\ unit_ok (fst (g_units l)) /\ unit_ok (snd (g_units l)) /\ Forall cell_ok (g_cells l).
Definition canon_lib (l : glib) : glib :=
  {| g_name := g_name l; g_units := g_units l; g_cells := map canon_cell (g_cells l) |}.

Theorem run_lib ts l : lib_ok l -> run None init_state (lib_records ts l) = SRet (canon_lib l).
Proof.
  intros (Hn & Hu0 & Hu1 & Hc). apply unit_ok_real in Hu0. apply unit_ok_real in Hu1.
  destruct l as [nm [u0 u1] cells]. cbn [g_name g_units g_cells fst snd] in *.
  unfold lib_records, init_state. cbn [g_name g_units g_cells fst snd]. rewrite <- ?app_assoc. cbn [app]. step_simpl.
  rewrite strip_nul_pad by assumption.
  rewrite d64_enc64 by assumption. rewrite <- (app_nil_r (enc64 u1)). rewrite d64_enc64_1 by assumption.
  destruct (run_cells ts nm (u0, u1) [mkrec 4 0 []] cells [] None 0%Z 0 false Hc) as (dn & cu & wd & ky & ps & H & Hf).
  rewrite H. step_simpl. unfold flush_cur. cbn [s_cur s_done]. fold (flush dn cu). rewrite Hf.
  unfold canon_lib. cbn [flush app g_name g_units g_cells]. reflexivity.
Qed.

(* ================================================================== G. from records to bytes *)
Definition rec_ok (r : grecord) : Prop :=
  N.of_nat (length (payload r)) + 4 < 65536 /\ rtype r < 256 /\ dtype r < 256.

Lemma loop_run f : forall recs st fuel rest,
  Forall rec_ok recs -> (length recs < fuel)%nat ->
  match run f st recs with
  | SCont st' => reader_loop rstate (option glib) (step_for_loop f) fuel st (flat_map rec_bytes recs ++ rest) =
                 reader_loop rstate (option glib) (step_for_loop f) (fuel - length recs) st' rest
  | SRet l => exists r', reader_loop rstate (option glib) (step_for_loop f) fuel st (flat_map rec_bytes recs ++ rest) = Ok (Some l, r')
  | SCrash => exists r', reader_loop rstate (option glib) (step_for_loop f) fuel st (flat_map rec_bytes recs ++ rest) = Ok (None, r')
  end.
Proof.
  induction recs as [|r recs IH]; intros st fuel rest Hok Hf.
  - cbn [run flat_map app length]. rewrite Nat.sub_0_r. reflexivity.
  - inversion Hok as [|? ? (Hl & Ht & Hd) Hoks]; subst.
    destruct fuel as [|fu]; [cbn [length] in Hf; lia|].
    cbn [run flat_map length]. rewrite <- app_assoc. cbn [reader_loop].
    rewrite next_record_rec_bytes by assumption.
    change (step_for_loop f st r) with
      (match step_gds f st r with SCont st' => inl st' | SRet l => inr (Some l) | SCrash => inr None end).
    destruct (step_gds f st r) as [st'|l|] eqn:Es.
    + specialize (IH st' fu rest Hoks ltac:(cbn [length] in Hf; lia)).
      destruct (run f st' recs); [|exact IH|exact IH].
      rewrite IH. replace (S fu - S (length recs))%nat with (fu - length recs)%nat by lia. reflexivity.
    + eexists. reflexivity.
    + eexists. reflexivity.
Qed.

Lemma read_of_run recs l :
  Forall rec_ok recs -> run None init_state recs = SRet l ->
  read_gds_model None (flat_map rec_bytes recs) = Ok l.
Proof.
  intros Hok Hrun. unfold read_gds_model, reader.
  pose proof (loop_run None recs init_state (S (length (flat_map rec_bytes recs))) [] Hok) as H.
  rewrite app_nil_r in H. rewrite Hrun in H.
  assert (Hlen : (length recs < S (length (flat_map rec_bytes recs)))%nat).
  { clear. induction recs as [|r recs IH]; cbn [flat_map length]; [lia|].
    rewrite app_length. unfold rec_bytes at 1. cbn [length]. lia. }
  destruct (H Hlen) as [r' Hr]. rewrite Hr. reflexivity.
Qed.

(* size side conditions: every record the writer emits fits a 16-bit length *)
Definition str_fits (s : bytes) : Prop := N.of_nat (length s) <= 65000.
Definition props_fit (ps : gprops) : Prop := Forall (fun p => str_fits (snd p)) ps.
Definition elem_fits (e : gelem) : Prop :=
  match e with
  | EPoly p => props_fit (p_props p)
  | EPath h => props_fit (h_props h)
  | ERef r => props_fit (r_props r) /\ str_fits (r_name r)
  | ELabel l => props_fit (l_props l) /\ str_fits (l_text l)
  end.
Definition cell_fits (c : gcell) : Prop := str_fits (c_name c) /\ Forall elem_fits (cell_elems c).
Definition lib_fits (l : glib) : Prop := str_fits (g_name l) /\ Forall cell_fits (g_cells l).

Lemma pad_even_length s : (length (pad_even s) <= S (length s))%nat.
Proof. unfold pad_even. destruct (Nat.even (length s)); [lia|]. rewrite app_length. cbn [length]. lia. Qed.

Lemma rec_ok_mk t d p : t < 256 -> d < 256 -> N.of_nat (length p) <= 65528 -> rec_ok (mkrec t d p).
Proof. intros Ht Hd Hp. unfold rec_ok, mkrec. cbn [rtype dtype payload]. lia. Qed.

Lemma rec_ok_str t s : t < 256 -> str_fits s -> rec_ok (mkrec t 6 (pad_even s)).
Proof. intros Ht Hs. apply rec_ok_mk; [assumption|lia|]. pose proof (pad_even_length s). unfold str_fits in Hs. lia. Qed.

Lemma props_rec_ok ps : props_fit ps -> Forall rec_ok (prop_records ps).
Proof.
  induction 1 as [|[a v] ps Hv Hps IH]; [constructor|]. unfold prop_records. cbn [flat_map app]. fold (prop_records ps).
  constructor; [apply rec_ok_mk; [lia|lia|cbn; lia]|]. constructor; [apply rec_ok_str; [lia|exact Hv]|exact IH].
Qed.

Lemma xy_rec_ok fuel : forall pts, Forall rec_ok (xy_records fuel pts).
Proof.
  induction fuel as [|fu IH]; intros pts; [constructor|]. cbn [xy_records]. destruct pts as [|p pts]; [constructor|].
  constructor; [|apply IH]. apply rec_ok_mk; [lia|lia|]. rewrite enc_points_length, firstn_length.
  unfold xy_chunk. set (n := length (p :: pts)). lia.
Qed.

Lemma strans_rec_ok refl mag rot : Forall rec_ok (strans_records refl mag rot).
Proof.
  unfold strans_records. destruct (negb refl && (mag =? real_one) && (rot =? 0)); [constructor|].
  apply Forall_app. split; [|apply Forall_app; split].
  - constructor; [|constructor]. apply rec_ok_mk; [lia|lia|destruct refl; cbn; lia].
  - destruct (mag =? real_one); constructor; [|constructor]. apply rec_ok_mk; [lia|lia|cbn; lia].
  - destruct (rot =? 0); constructor; [|constructor]. apply rec_ok_mk; [lia|lia|cbn; lia].
Qed.

Ltac rec_small := apply rec_ok_mk; [lia|lia|rewrite ?enc_points_length; cbn; lia].

Ltac fl := repeat (apply Forall_cons; [rec_small|]); try apply Forall_nil.

Lemma elem_rec_ok e : elem_fits e -> Forall rec_ok (elem_records e).
Proof.
  destruct e as [p|h|r|l]; cbn [elem_fits elem_records].
  - intros Hp. unfold poly_records. destruct (length (p_pts p) <? 3)%nat; [constructor|].
    repeat (apply Forall_app; split); try apply xy_rec_ok; try (apply props_rec_ok; assumption); fl.
  - intros Hp. unfold path_records. destruct (length (h_pts h) <? 2)%nat; [constructor|].
    repeat (apply Forall_app; split); try apply xy_rec_ok; try (apply props_rec_ok; assumption); try fl.
    destruct (h_end h); fl.
  - intros [Hp Hn]. unfold ref_records.
    repeat (apply Forall_app; split); try apply strans_rec_ok; try (apply props_rec_ok; assumption).
    + apply Forall_cons; [destruct (r_rep r); rec_small|]. apply Forall_cons; [apply rec_ok_str; [lia|assumption]|apply Forall_nil].
    + destruct (r_rep r); fl.
    + fl.
  - intros [Hp Ht]. unfold label_records.
    repeat (apply Forall_app; split); try apply strans_rec_ok; try (apply props_rec_ok; assumption).
    + fl.
    + apply Forall_cons; [rec_small|]. apply Forall_cons; [apply rec_ok_str; [lia|assumption]|apply Forall_nil].
    + fl.
Qed.

Lemma Forall_flat_map_ {A B} (P : B -> Prop) (f : A -> list B) l :
  Forall (fun a => Forall P (f a)) l -> Forall P (flat_map f l).
Proof. induction 1; cbn [flat_map]; [constructor|]. apply Forall_app. split; assumption. Qed.

Lemma lib_rec_ok ts l : (length ts = 6)%nat -> lib_fits l -> Forall rec_ok (lib_records ts l).
Proof.
  intros Hts [Hn Hc]. unfold lib_records.
  assert (Htsb : (length (ts_bytes ts) = 24)%nat).
  { unfold ts_bytes. do 7 (destruct ts as [|? ts]; try discriminate). reflexivity. }
  repeat (apply Forall_app; split).
  - apply Forall_cons; [rec_small|]. apply Forall_cons; [apply rec_ok_mk; [lia|lia|lia]|].
    apply Forall_cons; [apply rec_ok_str; [lia|assumption]|]. fl.
  - apply Forall_flat_map_. eapply Forall_impl; [|exact Hc]. intros c [Hcn Hce].
    rewrite cell_records_elems. repeat (apply Forall_app; split).
    + apply Forall_cons; [apply rec_ok_mk; [lia|lia|lia]|]. apply Forall_cons; [apply rec_ok_str; [lia|assumption]|apply Forall_nil].
    + apply Forall_flat_map_. eapply Forall_impl; [|exact Hce]. apply elem_rec_ok.
    + fl.
  - fl.
Qed.

(* ================================================================== H. the round trip *)
Theorem gds_roundtrip_lemma ts l :
  (length ts = 6)%nat -> lib_ok l -> lib_fits l ->
  read_gds_model None (write_gds_model ts l) = Ok (canon_lib l).
Proof.
  intros Hts Hok Hfit. unfold write_gds_model. apply read_of_run.
  - apply lib_rec_ok; assumption.
  - apply run_lib. assumption.
Qed.

(* non-vacuity: a library with every element kind meets the hypotheses, and the theorem's two sides
   compute to the same thing on it *)
Definition ex_lib : glib :=
  {| g_name := [76; 73; 66]; g_units := (4485389045137408100, 4413793110932418636);
     g_cells := [
       {| c_name := [65]; c_polys := [ {| p_layer := 1; p_type := 2; p_pts := [(0, 0); (10, 0); (10, 5)]%Z; p_props := [(3, [104; 105])] |} ];
          c_paths := [ {| h_layer := 4; h_type := 0; h_end := EExt; h_width := 6; h_scale_width := false; h_ext := (1, -2)%Z;
                          h_pts := [(0, 0); (0, 100); (-50, 100)]%Z; h_props := [] |} ];
          c_refs := []; c_labels := [ {| l_layer := 7; l_type := 1; l_text := [116; 120; 116]; l_origin := (5, -5)%Z; l_anchor := 5;
                                         l_refl := true; l_mag := 4688247212092686336; l_rot := 0; l_props := [(9, [120]); (2, [121])] |} ] |};
       {| c_name := [66; 66]; c_polys := []; c_paths := [];
          c_refs := [ {| r_name := [65]; r_origin := (100, 200)%Z; r_refl := false; r_mag := 4692750811720056832; r_rot := 0;
                         r_rep := Some {| g_cols := 3; g_rows := 2; g_regular := false; g_p2 := (400, 200)%Z; g_p3 := (100, 260)%Z |};
                         r_props := [] |};
                      {| r_name := [88]; r_origin := (-7, 8)%Z; r_refl := true; r_mag := 4688247212092686336; r_rot := 4779778905191841792;
                         r_rep := None; r_props := [(1, [122])] |} ];
          c_labels := [] |} ] |}.

Example ex_lib_ok : lib_ok ex_lib /\ lib_fits ex_lib.
Proof.
  unfold lib_ok, lib_fits, ex_lib. cbn [g_name g_units g_cells fst snd].
  repeat split;
    repeat (first [ apply Forall_cons | apply Forall_nil ]);
    unfold cell_ok, cell_fits, cell_elems, no_nul, str_fits, real_ok, unit_ok, real_mantissa; cbn;
    repeat split;
    repeat (first [ apply Forall_cons | apply Forall_nil ]);
    unfold poly_ok, path_ok, ref_ok, label_ok, rep_ok_g, count16, prop_ok, props_fit, fits16, fits32, fits_pt, no_nul, str_fits, real_ok; cbn;
    repeat split;
    repeat (first [ apply Forall_cons | apply Forall_nil ]);
    unfold fits32, fits_pt, prop_ok, no_nul, str_fits; cbn; repeat split;
    repeat (first [ apply Forall_cons | apply Forall_nil ]);
    try lia; try discriminate; try reflexivity.
  all: try (intros p0 H; injection H as <-; discriminate).
  all: try (intros; discriminate).
Qed.

Example ex_lib_roundtrip :
  read_gds_model None (write_gds_model [2020; 6; 17; 11; 22; 33]%Z ex_lib) = Ok (canon_lib ex_lib).
Proof. vm_compute. reflexivity. Qed.
