(* Round trip of the GDSII writer and reader models (C01 / C03):
     read_gds_model None (write_gds_model ts L) = Ok (canon L)   for every well-formed library L. *)
Require Import Base GdsFrame GdsFrameProofs GdsModel GdsWrite.
From Coq Require Import ZArith Lia ZifyBool ZifyN ZifyNat.
Local Open Scope N_scope.
Ltac Zify.zify_post_hook ::= Z.div_mod_to_equations.

(* ================================================================== A. field codecs *)
Definition fits16 (z : Z) : Prop := (-32768 <= z < 32768)%Z.
Definition fits32 (z : Z) : Prop := (-2147483648 <= z < 2147483648)%Z.
Definition fits_pt (p : pt) : Prop := fits32 (fst p) /\ fits32 (snd p).

Lemma sign_ext16 z : fits16 z -> sign_ext 16 (Z.to_N (z mod 65536)) = z.
Proof.
  unfold fits16, sign_ext. intros H. change (2 ^ (16 - 1)) with 32768. change (2 ^ 16) with 65536.
  destruct (Z.to_N (z mod 65536) <? 32768) eqn:E; lia.
Qed.
Lemma sign_ext32 z : fits32 z -> sign_ext 32 (Z.to_N (z mod 4294967296)) = z.
Proof.
  unfold fits32, sign_ext. intros H. change (2 ^ (32 - 1)) with 2147483648. change (2 ^ 32) with 4294967296.
  destruct (Z.to_N (z mod 4294967296) <? 2147483648) eqn:E; lia.
Qed.

Lemma d16_enc16 z rest : fits16 z -> d16 (swap2 (enc16 z ++ rest)) 0 = z.
Proof.
  intros H. unfold d16, enc16. cbn [app swap2 skipn firstn Nat.mul Nat.add le_value fold_right].
  set (v := Z.to_N (z mod 65536)).
  replace (v mod 256 + 256 * (v / 256 + 256 * 0)) with v by lia.
  apply sign_ext16. assumption.
Qed.
Lemma d16_enc16_1 a z rest : fits16 z -> d16 (swap2 (enc16 a ++ enc16 z ++ rest)) 1 = z.
Proof.
  intros H. unfold d16, enc16. cbn [app swap2 skipn firstn Nat.mul Nat.add le_value fold_right].
  set (v := Z.to_N (z mod 65536)).
  replace (v mod 256 + 256 * (v / 256 + 256 * 0)) with v by lia.
  apply sign_ext16. assumption.
Qed.

Lemma le4 v : v < 4294967296 ->
  v mod 256 + 256 * (v / 256 mod 256 + 256 * (v / 65536 mod 256 + 256 * (v / 16777216 + 256 * 0))) = v.
Proof. intros H. lia. Qed.

Lemma d32_enc32 z rest : fits32 z -> d32 (swap4 (enc32 z ++ rest)) 0 = z.
Proof.
  intros H. unfold d32, enc32. cbn [app swap4 skipn firstn Nat.mul Nat.add le_value fold_right].
  set (v := Z.to_N (z mod 4294967296)).
  rewrite le4 by (subst v; lia). apply sign_ext32. assumption.
Qed.
Lemma d32_enc32_1 a z rest : fits32 z -> d32 (swap4 (enc32 a ++ enc32 z ++ rest)) 1 = z.
Proof.
  intros H. unfold d32, enc32. cbn [app swap4 skipn firstn Nat.mul Nat.add le_value fold_right].
  set (v := Z.to_N (z mod 4294967296)).
  rewrite le4 by (subst v; lia). apply sign_ext32. assumption.
Qed.

Lemma le8 v : v < 18446744073709551616 ->
  v mod 256 + 256 * (v / 256 mod 256 + 256 * (v / 65536 mod 256 + 256 * (v / 16777216 mod 256 + 256 *
  (v / 4294967296 mod 256 + 256 * (v / 1099511627776 mod 256 + 256 * (v / 281474976710656 mod 256 + 256 *
  (v / 72057594037927936 mod 256 + 256 * 0))))))) = v.
Proof. intros H. lia. Qed.

Lemma d64_enc64 v rest : v < 18446744073709551616 -> d64 (swap8 (enc64 v ++ rest)) 0 = v.
Proof.
  intros H. unfold d64, enc64. cbn [app swap8 skipn firstn Nat.mul Nat.add le_value fold_right].
  apply le8. assumption.
Qed.
Lemma d64_enc64_1 a v rest : v < 18446744073709551616 -> d64 (swap8 (enc64 a ++ enc64 v ++ rest)) 1 = v.
Proof.
  intros H. unfold d64, enc64. cbn [app swap8 skipn firstn Nat.mul Nat.add le_value fold_right].
  apply le8. assumption.
Qed.

Lemma d16_enc16' z : fits16 z -> d16 (swap2 (enc16 z)) 0 = z.
Proof. intros H. rewrite <- (app_nil_r (enc16 z)). apply d16_enc16. assumption. Qed.
Lemma d32_enc32' z : fits32 z -> d32 (swap4 (enc32 z)) 0 = z.
Proof. intros H. rewrite <- (app_nil_r (enc32 z)). apply d32_enc32. assumption. Qed.
Lemma d64_enc64' v : v < 18446744073709551616 -> d64 (swap8 (enc64 v)) 0 = v.
Proof. intros H. rewrite <- (app_nil_r (enc64 v)). apply d64_enc64. assumption. Qed.

(* ================================================================== B. strings *)
Definition no_nul (s : bytes) : Prop := Forall (fun b => b <> 0) s.

Lemma strip_nul_no_nul s : no_nul s -> strip_nul s = s.
Proof.
  intros H. unfold strip_nul. destruct (rev s) as [|b r] eqn:E; [reflexivity|].
  destruct b; [|reflexivity]. exfalso.
  assert (Hin : In 0 s). { apply in_rev. rewrite E. left. reflexivity. }
  unfold no_nul in H. rewrite Forall_forall in H. apply (H 0 Hin). reflexivity.
Qed.

Lemma strip_nul_pad s : no_nul s -> strip_nul (pad_even s) = s.
Proof.
  intros H. unfold pad_even. destruct (Nat.even (length s)).
  - apply strip_nul_no_nul. assumption.
  - unfold strip_nul. rewrite rev_app_distr. cbn [rev app]. apply rev_involutive.
Qed.

Lemma cstring_no_nul s : no_nul s -> cstring s = s.
Proof.
  induction 1 as [|b s Hb Hs IH]; [reflexivity|]. cbn [cstring]. destruct b; [congruence|]. rewrite IH. reflexivity.
Qed.
Lemma cstring_app_nul s rest : no_nul s -> cstring (s ++ 0 :: rest) = s.
Proof.
  induction 1 as [|b s Hb Hs IH]; [reflexivity|]. cbn [cstring app]. destruct b; [congruence|]. rewrite IH. reflexivity.
Qed.
Lemma cstring_pad s : no_nul s -> cstring (pad_even s) = s.
Proof.
  intros H. unfold pad_even. destruct (Nat.even (length s)); [apply cstring_no_nul|apply cstring_app_nul]; assumption.
Qed.

(* ================================================================== C. point lists *)
Lemma enc_points_cons x y pts : enc_points ((x, y) :: pts) = enc32 x ++ enc32 y ++ enc_points pts.
Proof. unfold enc_points. cbn [flat_map]. rewrite app_assoc. reflexivity. Qed.

Lemma enc_points_length pts : length (enc_points pts) = (8 * length pts)%nat.
Proof.
  induction pts as [|[x y] pts IH]; [reflexivity|]. rewrite enc_points_cons.
  rewrite !app_length, IH. cbn [enc32 length]. lia.
Qed.

Lemma points_of_enc pts : Forall fits_pt pts -> points_of (swap4 (enc_points pts)) (length pts) = pts.
Proof.
  induction 1 as [|[x y] pts [Hx Hy] Hp IH]; [reflexivity|].
  rewrite enc_points_cons. cbn [length points_of]. cbn [fst snd] in Hx, Hy.
  rewrite d32_enc32 by assumption. rewrite d32_enc32_1 by assumption.
  f_equal. unfold enc32 at 1 2. cbn [app swap4 skipn]. exact IH.
Qed.

Lemma data_length_points pts : (data_length 3 (enc_points pts) / 2)%nat = length pts.
Proof.
  cbn [data_length]. rewrite enc_points_length.
  replace (8 * length pts)%nat with ((2 * length pts) * 4)%nat by lia. rewrite Nat.div_mul by lia.
  rewrite Nat.mul_comm. apply Nat.div_mul. lia.
Qed.

(* ================================================================== D. running a record list *)
Fixpoint run (f : option (list (Z * Z))) (st : rstate) (recs : list grecord) : sres :=
  match recs with
  | [] => SCont st
  | r :: tl => match step_gds f st r with SCont st' => run f st' tl | x => x end
  end.

Lemma run_app f a : forall st b,
  run f st (a ++ b) = match run f st a with SCont st' => run f st' b | x => x end.
Proof.
  induction a as [|r a IH]; intros st b; [reflexivity|]. cbn [app run].
  destruct (step_gds f st r); [apply IH|reflexivity|reflexivity].
Qed.

Ltac step_simpl :=
  cbn [run step_gds kind_of mkrec rtype dtype payload s_name s_units s_done s_cur s_open s_width s_key s_path_started swapped
       p_layer p_type p_pts p_props h_layer h_type h_end h_width h_scale_width h_ext h_pts h_props
       r_name r_origin r_refl r_mag r_rot r_rep r_props l_layer l_type l_text l_origin l_anchor l_refl l_mag l_rot l_props
       new_poly new_path new_ref new_label];
  unfold with_open, with_cur, with_name, with_units, with_done, with_width, with_key, with_started;
  cbn [s_name s_units s_done s_cur s_open s_width s_key s_path_started].

Lemma Forall_firstn_ {A} (P : A -> Prop) n l : Forall P l -> Forall P (firstn n l).
Proof. revert l. induction n as [|n IH]; intros l H; [constructor|]. destruct H; cbn [firstn]; constructor; auto. Qed.
Lemma Forall_skipn_ {A} (P : A -> Prop) n l : Forall P l -> Forall P (skipn n l).
Proof. revert l. induction n as [|n IH]; intros l H; [assumption|]. destruct H; cbn [skipn]; auto. Qed.

(* XY records appended to an open polygon *)
Lemma run_xy_poly f nm un dn cu wd ky ps la ty pr tl fuel : forall pts acc,
  Forall fits_pt pts -> (length pts <= fuel)%nat ->
  run f (Build_rstate nm un dn cu (Some (EPoly (Build_gpoly la ty acc pr))) wd ky ps) (xy_records fuel pts ++ tl) =
  run f (Build_rstate nm un dn cu (Some (EPoly (Build_gpoly la ty (acc ++ pts) pr))) wd ky ps) tl.
Proof.
  induction fuel as [|fu IH]; intros pts acc Hf Hl.
  - destruct pts; [|cbn [length] in Hl; lia]. cbn [xy_records app]. rewrite app_nil_r. reflexivity.
  - destruct pts as [|p0 pts]; [cbn [xy_records app]; rewrite app_nil_r; reflexivity|].
    cbn [xy_records app]. set (chunk := firstn xy_chunk (p0 :: pts)). set (rest := skipn xy_chunk (p0 :: pts)).
    step_simpl. rewrite data_length_points.
    rewrite points_of_enc by (apply Forall_firstn_; assumption).
    rewrite IH.
    + rewrite <- app_assoc. subst chunk rest. rewrite firstn_skipn. reflexivity.
    + apply Forall_skipn_. assumption.
    + subst rest. rewrite skipn_length. cbn [length] in *. unfold xy_chunk. lia.
Qed.

(* XY records appended to an open path whose spine already has points *)
Lemma run_xy_path f nm un dn cu wd ky la ty en hw sw ex pr tl fuel : forall pts acc,
  Forall fits_pt pts -> (length pts <= fuel)%nat ->
  run f (Build_rstate nm un dn cu (Some (EPath (Build_gpath la ty en hw sw ex acc pr))) wd ky true) (xy_records fuel pts ++ tl) =
  run f (Build_rstate nm un dn cu (Some (EPath (Build_gpath la ty en hw sw ex (acc ++ pts) pr))) wd ky true) tl.
Proof.
  induction fuel as [|fu IH]; intros pts acc Hf Hl.
  - destruct pts; [|cbn [length] in Hl; lia]. cbn [xy_records app]. rewrite app_nil_r. reflexivity.
  - destruct pts as [|p0 pts]; [cbn [xy_records app]; rewrite app_nil_r; reflexivity|].
    cbn [xy_records app]. set (chunk := firstn xy_chunk (p0 :: pts)). set (rest := skipn xy_chunk (p0 :: pts)).
    step_simpl. rewrite data_length_points.
    rewrite points_of_enc by (apply Forall_firstn_; assumption).
    rewrite IH.
    + rewrite <- app_assoc. subst chunk rest. rewrite firstn_skipn. reflexivity.
    + apply Forall_skipn_. assumption.
    + subst rest. rewrite skipn_length. cbn [length] in *. unfold xy_chunk. lia.
Qed.

(* first XY of a path: the element takes the current `width` *)
Lemma run_xy_path_first f nm un dn cu wd ky la ty en hw sw ex pr tl fuel pts :
  Forall fits_pt pts -> (length pts <= fuel)%nat -> pts <> [] ->
  run f (Build_rstate nm un dn cu (Some (EPath (Build_gpath la ty en hw sw ex [] pr))) wd ky false) (xy_records fuel pts ++ tl) =
  run f (Build_rstate nm un dn cu (Some (EPath (Build_gpath la ty en wd sw ex pts pr))) wd ky true) tl.
Proof.
  intros Hf Hl Hne. destruct pts as [|p0 pts]; [congruence|]. destruct fuel as [|fu]; [cbn [length] in Hl; lia|].
  cbn [xy_records app]. set (chunk := firstn xy_chunk (p0 :: pts)). set (rest := skipn xy_chunk (p0 :: pts)).
  step_simpl. rewrite data_length_points.
  rewrite points_of_enc by (apply Forall_firstn_; assumption). cbn [app].
  rewrite run_xy_path.
  - subst chunk rest. rewrite firstn_skipn. reflexivity.
  - apply Forall_skipn_. assumption.
  - subst rest. rewrite skipn_length. cbn [length] in *. unfold xy_chunk. lia.
Qed.

(* properties *)
Definition prop_ok (p : N * bytes) : Prop := fst p < 65536 /\ no_nul (snd p).
Definition set_all (e : gelem) (ps : gprops) : gelem := fold_left (fun e '(a, v) => set_props e a v) ps e.
Definition last_key (k : N) (ps : gprops) : N := fold_left (fun _ '(a, _) => a) ps k.

Lemma key_roundtrip a : a < 65536 -> Z.to_N (d16 (swap2 (enc16 (Z.of_N a))) 0 mod 65536) = a.
Proof.
  intros H. unfold d16, enc16. cbn [app swap2 skipn firstn Nat.mul Nat.add le_value fold_right].
  replace (Z.to_N (Z.of_N a mod 65536)) with a by lia.
  replace (a mod 256 + 256 * (a / 256 + 256 * 0)) with a by lia.
  unfold sign_ext. change (2 ^ (16 - 1)) with 32768. change (2 ^ 16) with 65536.
  destruct (a <? 32768) eqn:E; lia.
Qed.

Lemma run_props f nm un dn cu wd ps_ tl : forall ps e ky,
  Forall prop_ok ps ->
  run f (Build_rstate nm un dn cu (Some e) wd ky ps_) (prop_records ps ++ tl) =
  run f (Build_rstate nm un dn cu (Some (set_all e ps)) wd (last_key ky ps) ps_) tl.
Proof.
  induction ps as [|[a v] ps IH]; intros e ky Hok; [reflexivity|].
  inversion Hok as [|? ? [Ha Hv] Hok']; subst. cbn [fst snd] in Ha, Hv.
  unfold prop_records. cbn [flat_map app]. fold (prop_records ps).
  step_simpl. rewrite key_roundtrip by assumption. rewrite cstring_pad by assumption.
  rewrite IH by assumption. reflexivity.
Qed.

(* ================================================================== E. elements *)
Definition canon_props (ps : gprops) : gprops := fold_left (fun acc '(a, v) => set_gds_prop acc a v) ps [].

Definition elem_props (e : gelem) : gprops :=
  match e with EPoly p => p_props p | EPath h => h_props h | ERef r => r_props r | ELabel l => l_props l end.

Lemma set_all_poly la ty pts ps : forall P,
  set_all (EPoly (Build_gpoly la ty pts P)) ps =
  EPoly (Build_gpoly la ty pts (fold_left (fun acc '(a, v) => set_gds_prop acc a v) ps P)).
Proof. induction ps as [|[a v] ps IH]; intros P; [reflexivity|]. cbn [set_all fold_left set_props p_layer p_type p_pts p_props]. apply IH. Qed.
Lemma set_all_path la ty en hw sw ex pts ps : forall P,
  set_all (EPath (Build_gpath la ty en hw sw ex pts P)) ps =
  EPath (Build_gpath la ty en hw sw ex pts (fold_left (fun acc '(a, v) => set_gds_prop acc a v) ps P)).
Proof. induction ps as [|[a v] ps IH]; intros P; [reflexivity|].
  cbn [set_all fold_left set_props h_layer h_type h_end h_width h_scale_width h_ext h_pts h_props]. apply IH. Qed.
Lemma set_all_ref nm o rf mg rt rp ps : forall P,
  set_all (ERef (Build_gref nm o rf mg rt rp P)) ps =
  ERef (Build_gref nm o rf mg rt rp (fold_left (fun acc '(a, v) => set_gds_prop acc a v) ps P)).
Proof. induction ps as [|[a v] ps IH]; intros P; [reflexivity|].
  cbn [set_all fold_left set_props r_name r_origin r_refl r_mag r_rot r_rep r_props]. apply IH. Qed.
Lemma set_all_label la ty tx o an rf mg rt ps : forall P,
  set_all (ELabel (Build_glabel la ty tx o an rf mg rt P)) ps =
  ELabel (Build_glabel la ty tx o an rf mg rt (fold_left (fun acc '(a, v) => set_gds_prop acc a v) ps P)).
Proof. induction ps as [|[a v] ps IH]; intros P; [reflexivity|].
  cbn [set_all fold_left set_props l_layer l_type l_text l_origin l_anchor l_refl l_mag l_rot l_props]. apply IH. Qed.

(* ---- polygons *)
Definition poly_ok (p : gpoly) : Prop :=
  fits16 (p_layer p) /\ fits16 (p_type p) /\ Forall fits_pt (p_pts p) /\ Forall prop_ok (p_props p) /\
  (3 <= length (p_pts p))%nat /\
  (* the stored vertex list is open: a closing duplicate would be dropped by the reader *)
  (forall p0, hd_error (p_pts p) = Some p0 -> last (p_pts p) p0 <> p0).
Definition canon_poly (p : gpoly) : gpoly := Build_gpoly (p_layer p) (p_type p) (p_pts p) (canon_props (p_props p)).

Lemma drop_closing_closed pts p0 : hd_error pts = Some p0 -> drop_closing (pts ++ [p0]) = Some pts.
Proof.
  intros H. destruct pts as [|q pts]; [discriminate|]. injection H as ->.
  unfold drop_closing. cbn [app]. change (p0 :: pts ++ [p0]) with ((p0 :: pts) ++ [p0]).
  rewrite last_last. rewrite !Z.eqb_refl. cbn [andb]. rewrite removelast_last. reflexivity.
Qed.

Lemma run_poly f nm un dn c b wd ky ps p tl :
  poly_ok p ->
  exists wd' ky' ps',
  run f (Build_rstate nm un dn (Some (c, b)) None wd ky ps) (poly_records p ++ tl) =
  run f (Build_rstate nm un dn (Some (commit f c (EPoly (canon_poly p)), b)) None wd' ky' ps') tl.
Proof.
  intros (Hl & Ht & Hp & Hpr & Hn & Hopen). destruct p as [la ty pts pr]. cbn [p_layer p_type p_pts p_props] in *.
  unfold poly_records. cbn [p_layer p_type p_pts p_props].
  replace (length pts <? 3)%nat with false by (symmetry; apply Nat.ltb_ge; lia).
  destruct pts as [|p0 pts']; [cbn [length] in Hn; lia|]. cbn [hd].
  assert (Hhd : hd_error (p0 :: pts') = Some p0) by reflexivity.
  remember (p0 :: pts') as pts eqn:Hpts. clear Hpts.
  rewrite <- !app_assoc. cbn [app]. step_simpl.
  rewrite d16_enc16' by assumption. rewrite d16_enc16' by assumption.
  rewrite run_xy_poly.
  2:{ apply Forall_app. split; [assumption|]. constructor; [|constructor].
      destruct pts as [|q pts'']; [discriminate|]. injection Hhd as ->. inversion Hp; assumption. }
  2:{ lia. }
  cbn [app]. rewrite run_props by assumption. rewrite set_all_poly. unfold endel.
  step_simpl. cbn [app].
  do 3 eexists.
  pose proof (drop_closing_closed pts p0 Hhd) as Hd. unfold pt in *. rewrite Hd.
  unfold with_open, with_cur. cbn [s_name s_units s_done s_cur s_open s_width s_key s_path_started].
  reflexivity.
Qed.
