(* C09 — bounding boxes and convex hulls: exact model over Q (definitions only).

   Mirrors, statement by statement,
     src/polygon.cpp  Polygon::bounding_box          src/label.cpp  Label::bounding_box
     src/reference.cpp Reference::repeat_and_transform, Reference::bounding_box(min,max,cache),
                       Reference::convex_hull(result,cache)
     src/cell.cpp     Cell::bounding_box(cache), Cell::convex_hull(cache)  (GeometryInfo cache)
     src/utils.cpp    convex_hull (wrapper around qhull)
   Numbers are rationals: a double is the dyadic rational it denotes, arithmetic is exact (the
   implementation rounds; the correspondence compares on a 2^-20 grid).  cos / sin of a reference's
   rotation and the answer of is_multiple_of_pi_over_2 enter as data of the placement (they are
   computed by libm / the library on the harness side).  A repetition enters as the two lists the
   library derives from it: get_offsets and get_extrema (their relation is property C11).
   An empty box is the constructor [Inverted] (the C++ pair (DBL_MAX,DBL_MAX),(-DBL_MAX,-DBL_MAX)).
   The model follows the tree AFTER the two fixes cd7171e (collinear fallback of convex_hull returns the two
   extreme input points) and d7329ad (Reference::convex_hull repeats the child hull at every offset of an
   Explicit repetition).  The earlier behaviour is kept as [fallback_old] / [convex_hull_w_old] and as the
   [hall = false] instance of the cell functions ([cell_query_old] ...) for the regression examples. *)
From Coq Require Import QArith List Bool ZArith NArith Lia.
Import ListNotations.
Local Open Scope Q_scope.

Definition pt : Type := (Q * Q)%type.

(* ---------- arithmetic: same values as Qplus / Qcompare, cheaper argument order for dyadics ---------- *)
Definition qadd (x y : Q) : Q := (QDen y * Qnum x + QDen x * Qnum y) # (Qden x * Qden y).
Definition qsub (x y : Q) : Q := qadd x (Qopp y).
Definition qmul (x y : Q) : Q := Qmult x y.
Definition qcmp (x y : Q) : comparison := (QDen y * Qnum x ?= QDen x * Qnum y)%Z.
Definition qlt (x y : Q) : bool := match qcmp x y with Lt => true | _ => false end.
Definition qeqb (x y : Q) : bool := match qcmp x y with Eq => true | _ => false end.

(* remove the common power of two of numerator and denominator (value unchanged) *)
Fixpoint pos_strip2 (n d : positive) : positive * positive :=
  match n, d with
  | xO n', xO d' => pos_strip2 n' d'
  | _, _ => (n, d)
  end.
Definition qn (q : Q) : Q :=
  match Qnum q with
  | Z0 => 0 # 1
  | Zpos n => let (n', d') := pos_strip2 n (Qden q) in Zpos n' # d'
  | Zneg n => let (n', d') := pos_strip2 n (Qden q) in Zneg n' # d'
  end.

(* the rational denoted by the 64 bits of a finite IEEE double *)
Definition q_of_bits (b : N) : Q :=
  let neg := N.testbit b 63 in
  let e := N.land (N.shiftr b 52) 2047 in
  let m := N.land b 4503599627370495 in
  let mant := if N.eqb e 0 then m else (m + 4503599627370496)%N in
  let ex := if N.eqb e 0 then (-1074)%Z else (Z.of_N e - 1075)%Z in
  let zm := if neg then Z.opp (Z.of_N mant) else Z.of_N mant in
  qn (match ex with
      | Z0 => zm # 1
      | Zpos p => (Z.shiftl zm (Zpos p)) # 1
      | Zneg p => zm # (Pos.shiftl 1 (Npos p))
      end).

(* llround(v * 2^20): nearest integer, halves away from zero *)
Definition grid_round (q : Q) : Z :=
  let n := (Qnum q * 1048576)%Z in
  let d := Zpos (Qden q) in
  let a := Z.abs n in
  let r := ((2 * a + d) / (2 * d))%Z in
  if (n <? 0)%Z then Z.opp r else r.

(* ---------- boxes ---------- *)
Inductive box : Type := Inverted | Box (x0 y0 x1 y1 : Q).

(* one step of the min/max scan:  if (p->x < min.x) min.x = p->x; if (p->x > max.x) max.x = p->x; ... *)
Definition box_add (b : box) (p : pt) : box :=
  match b with
  | Inverted => Box (fst p) (snd p) (fst p) (snd p)
  | Box x0 y0 x1 y1 =>
      Box (if qlt (fst p) x0 then fst p else x0) (if qlt (snd p) y0 then snd p else y0)
          (if qlt x1 (fst p) then fst p else x1) (if qlt y1 (snd p) then snd p else y1)
  end.
Definition bbox (S : list pt) : box := fold_left box_add S Inverted.

(* if (pmin.x < min.x) min.x = pmin.x; ... if (pmax.y > max.y) max.y = pmax.y;   (acc = running min/max) *)
Definition box_join (acc b : box) : box :=
  match b, acc with
  | Inverted, _ => acc
  | Box _ _ _ _, Inverted => b
  | Box bx0 by0 bx1 by1, Box ax0 ay0 ax1 ay1 =>
      Box (if qlt bx0 ax0 then bx0 else ax0) (if qlt by0 ay0 then by0 else ay0)
          (if qlt ax1 bx1 then bx1 else ax1) (if qlt ay1 by1 then by1 else ay1)
  end.

Definition corners (b : box) : list pt :=      (* cmin, cmax, (cmin.x,cmax.y), (cmax.x,cmin.y) when cmin.x <= cmax.x *)
  match b with
  | Inverted => []
  | Box x0 y0 x1 y1 => [(x0, y0); (x1, y1); (x0, y1); (x1, y0)]
  end.

(* ---------- repetitions as (get_offsets, get_extrema) ---------- *)
(* r_explicit: repetition.type == RepetitionType::Explicit *)
Record rep : Type := mkRep { offs : list pt; exts : list pt; r_explicit : bool }.

Definition padd (o p : pt) : pt := (qadd (fst p) (fst o), qadd (snd p) (snd o)).

(* every copy of the points: what get_offsets yields, applied to the element *)
Definition rep_points (pts : list pt) (r : option rep) : list pt :=
  match r with
  | None => pts
  | Some r => flat_map (fun o => map (padd o) pts) (offs r)
  end.

(* loop over get_extrema in Polygon::bounding_box / Label::bounding_box:
     if (min0.x + off->x < min.x) min.x = min0.x + off->x;  if (max0.x + off->x > max.x) ... *)
Definition box_shift (b0 acc : box) (off : pt) : box :=
  match b0, acc with
  | Box m0x m0y M0x M0y, Box mx my Mx My =>
      Box (if qlt (qadd m0x (fst off)) mx then qadd m0x (fst off) else mx)
          (if qlt (qadd m0y (snd off)) my then qadd m0y (snd off) else my)
          (if qlt Mx (qadd M0x (fst off)) then qadd M0x (fst off) else Mx)
          (if qlt My (qadd M0y (snd off)) then qadd M0y (snd off) else My)
  | _, _ => acc         (* DBL_MAX + off stays DBL_MAX: an inverted box stays inverted *)
  end.
Definition rep_box (b0 : box) (r : option rep) : box :=
  match r with
  | None => b0
  | Some r => fold_left (box_shift b0) (exts r) b0
  end.
Definition polygon_bbox (pts : list pt) (r : option rep) : box := rep_box (bbox pts) r.
Definition label_bbox (o : pt) (r : option rep) : box := rep_box (Box (fst o) (snd o) (fst o) (snd o)) r.

Record polygon : Type := mkPoly { p_pts : list pt; p_rep : option rep }.
Record label : Type := mkLabel { l_org : pt; l_rep : option rep }.

(* ---------- references ---------- *)
Record placement : Type := mkPl {
  pl_org : pt; pl_ca : Q; pl_sa : Q;   (* origin, cos(rotation), sin(rotation) *)
  pl_quarter : bool;                    (* is_multiple_of_pi_over_2(rotation, m) *)
  pl_mag : Q; pl_xrefl : bool; pl_rep : option rep }.

(*  Vec2 q = *p * magnification;  if (x_reflection) q.y = -q.y;
    p->x = q.x * ca - q.y * sa + origin.x + off->x;  p->y = q.x * sa + q.y * ca + origin.y + off->y; *)
Definition xform (pl : placement) (off p : pt) : pt :=
  let qx := qmul (pl_mag pl) (fst p) in
  let qy0 := qmul (pl_mag pl) (snd p) in
  let qy := if pl_xrefl pl then Qopp qy0 else qy0 in
  (qn (qadd (qadd (qsub (qmul (pl_ca pl) qx) (qmul (pl_sa pl) qy)) (fst (pl_org pl))) (fst off)),
   qn (qadd (qadd (qadd (qmul (pl_sa pl) qx) (qmul (pl_ca pl) qy)) (snd (pl_org pl))) (snd off))).

Definition zero_pt : pt := (0 # 1, 0 # 1).

(* offsets used by repeat_and_transform(point_array, all_offsets):
     if (all_offsets && repetition.type == RepetitionType::Explicit) get_offsets else get_extrema;
   the single zero offset without repetition *)
Definition rat_offsets (allo : bool) (pl : placement) : list pt :=
  match pl_rep pl with
  | None => [zero_pt]
  | Some r => if allo && r_explicit r then offs r else exts r
  end.
(* all placements of the reference: get_offsets *)
Definition all_offsets (pl : placement) : list pt :=
  match pl_rep pl with None => [zero_pt] | Some r => offs r end.

(* Reference::repeat_and_transform: blocks are filled from the end, first offset last *)
Definition rat (allo : bool) (pl : placement) (pts : list pt) : list pt :=
  match pts with
  | [] => []
  | _ => concat (rev (map (fun off => map (xform pl off) pts) (rat_offsets allo pl)))
  end.

(* ---------- the convex_hull wrapper of utils.cpp ---------- *)
Definition cross (o a b : pt) : Q :=
  qsub (qmul (qsub (fst a) (fst o)) (qsub (snd b) (snd o))) (qmul (qsub (snd a) (snd o)) (qsub (fst b) (fst o))).
(* sign of [cross o a b], computed on normalised differences (cheaper; cross_sign = Eq implies cross == 0: cross_sign_Eq) *)
Definition cross_sign (o a b : pt) : comparison :=
  qcmp (qmul (qn (qsub (fst a) (fst o))) (qn (qsub (snd b) (snd o))))
       (qmul (qn (qsub (snd a) (snd o))) (qn (qsub (fst b) (fst o)))).
Definition pt_eqb (a b : pt) : bool := qeqb (fst a) (fst b) && qeqb (snd a) (snd b).

Definition same_x (pts : list pt) : bool :=
  match pts with [] => true | a :: t => forallb (fun b => qeqb (fst a) (fst b)) t end.
Definition collinearb (pts : list pt) : bool :=
  match pts with
  | [] => true
  | a :: t => match find (fun b => negb (pt_eqb a b)) t with
              | None => true
              | Some b => forallb (fun c => match cross_sign a b c with Eq => true | _ => false end) t
              end
  end.

(* BEFORE cd7171e: exitcode == qh_ERRsingular:  min/max scan, then  if (min.x < max.x) { append(min); append(max); } *)
Definition fallback_old (pts : list pt) : list pt :=
  match bbox pts with
  | Box x0 y0 x1 y1 => if qlt x0 x1 then [(x0, y0); (x1, y1)] else []
  | Inverted => []
  end.

Inductive cell : Type :=
  Cell (name : N) (polys : list polygon) (labels : list label) (paths : list polygon)
       (refs : list (placement * cell)).
Definition cell_name (c : cell) : N := match c with Cell n _ _ _ _ => n end.
Definition cell_polys (c : cell) := match c with Cell _ p _ _ _ => p end.
Definition cell_labels (c : cell) := match c with Cell _ _ l _ _ => l end.
Definition cell_paths (c : cell) := match c with Cell _ _ _ f _ => f end.
Definition cell_refs (c : cell) := match c with Cell _ _ _ _ r => r end.

Definition poly_points (ps : list polygon) : list pt := flat_map (fun p => rep_points (p_pts p) (p_rep p)) ps.
Definition label_points (ls : list label) : list pt := flat_map (fun l => rep_points [l_org l] (l_rep l)) ls.

(* all geometry of a cell, every repetition applied, every reference expanded: the specification side *)
Fixpoint flatten (c : cell) : list pt :=
  match c with
  | Cell _ polys labels paths refs =>
      poly_points polys ++ label_points labels ++
      (fix go (rs : list (placement * cell)) : list pt :=
         match rs with
         | [] => []
         | (pl, ch) :: t => flat_map (fun o => map (xform pl o) (flatten ch)) (all_offsets pl) ++ go t
         end) refs ++
      poly_points paths
  end.
Definition ref_points (pl : placement) (ch : cell) : list pt :=
  flat_map (fun o => map (xform pl o) (flatten ch)) (all_offsets pl).

(* GeometryInfo and the cache keyed by cell name (Map<GeometryInfo>; a missing key reads as T{}) *)
Record ginfo : Type := mkInfo { g_hull : list pt; g_box : box; g_hv : bool; g_bv : bool }.
Definition info0 : ginfo := mkInfo [] (Box 0 0 0 0) false false.
Definition cache : Type := list (N * ginfo).
Fixpoint cache_get (ch : cache) (n : N) : ginfo :=
  match ch with
  | [] => info0
  | (k, v) :: t => if N.eqb k n then v else cache_get t n
  end.
Definition cache_set (ch : cache) (n : N) (v : ginfo) : cache := (n, v) :: ch.

Section WithHull.
  (* [chull] is gdstk::convex_hull(points, result) as a function points -> appended result *)
  Variable chull : list pt -> list pt.
  (* [hall]: Reference::convex_hull calls repeat_and_transform(point_array, true) (current tree);
     hall = false is the tree before d7329ad (extrema only) *)
  Variable hall : bool.

  (* q = true : Cell::convex_hull(cache);  q = false : Cell::bounding_box(cache).
     The loops over reference_array inline Reference::convex_hull(points, cache) and
     Reference::bounding_box(rmin, rmax, cache). *)
  Fixpoint cell_query_g (q : bool) (c : cell) (ch : cache) {struct c} : ginfo * cache :=
    match c with
    | Cell name polys labels paths refs =>
        if q then
          let '(rpts, ch1) :=
            (fix go (rs : list (placement * cell)) (acc : list pt) (ch : cache) {struct rs} : list pt * cache :=
               match rs with
               | [] => (acc, ch)
               | (pl, child) :: t =>
                   let info := cache_get ch (cell_name child) in
                   let '(ci, ch') := if g_hv info then (info, ch) else cell_query_g true child ch in
                   go t (acc ++ chull (rat hall pl (g_hull ci))) ch'
               end) refs [] ch in
          let pts := rpts ++ poly_points polys ++ label_points labels ++ poly_points paths in
          let info := cache_get ch1 name in
          let info' := mkInfo (g_hull info ++ chull pts) (g_box info) true (g_bv info) in
          (info', cache_set ch1 name info')
        else
          let info := cache_get ch name in
          if g_hv info then
            let info' := mkInfo (g_hull info) (bbox (g_hull info)) true true in
            (info', cache_set ch name info')
          else
            let b1 := fold_left (fun acc p => box_join acc (polygon_bbox (p_pts p) (p_rep p))) polys Inverted in
            let b2 := fold_left (fun acc l => box_join acc (label_bbox (l_org l) (l_rep l))) labels b1 in
            let '(b3, ch1) :=
              (fix go (rs : list (placement * cell)) (acc : box) (ch : cache) {struct rs} : box * cache :=
                 match rs with
                 | [] => (acc, ch)
                 | (pl, child) :: t =>
                     let info := cache_get ch (cell_name child) in
                     if pl_quarter pl then
                       let '(ci, ch') := if g_bv info then (info, ch) else cell_query_g false child ch in
                       go t (box_join acc (bbox (rat false pl (corners (g_box ci))))) ch'
                     else
                       let '(ci, ch') := if g_hv info then (info, ch) else cell_query_g true child ch in
                       go t (box_join acc (bbox (rat false pl (g_hull ci)))) ch'
                 end) refs b2 ch in
            let b4 := fold_left (fun acc p => box_join acc (polygon_bbox (p_pts p) (p_rep p))) paths b3 in
            let info' := mkInfo (g_hull info) b4 (g_hv info) true in
            (info', cache_set ch1 name info')
    end.

  (* Reference::bounding_box(min, max, cache) *)
  Definition ref_bbox_g (pl : placement) (child : cell) (ch : cache) : box * cache :=
    let info := cache_get ch (cell_name child) in
    if pl_quarter pl then
      let '(ci, ch') := if g_bv info then (info, ch) else cell_query_g false child ch in
      (bbox (rat false pl (corners (g_box ci))), ch')
    else
      let '(ci, ch') := if g_hv info then (info, ch) else cell_query_g true child ch in
      (bbox (rat false pl (g_hull ci)), ch').

  (* Reference::convex_hull(result, cache) *)
  Definition ref_hull_g (pl : placement) (child : cell) (ch : cache) : list pt * cache :=
    let info := cache_get ch (cell_name child) in
    let '(ci, ch') := if g_hv info then (info, ch) else cell_query_g true child ch in
    (chull (rat hall pl (g_hull ci)), ch').

  (* the loops of cell_query, named *)
  Fixpoint hull_refs (rs : list (placement * cell)) (acc : list pt) (ch : cache) : list pt * cache :=
    match rs with
    | [] => (acc, ch)
    | (pl, child) :: t => let '(h, ch') := ref_hull_g pl child ch in hull_refs t (acc ++ h) ch'
    end.
  Fixpoint box_refs (rs : list (placement * cell)) (acc : box) (ch : cache) : box * cache :=
    match rs with
    | [] => (acc, ch)
    | (pl, child) :: t => let '(b, ch') := ref_bbox_g pl child ch in box_refs t (box_join acc b) ch'
    end.
End WithHull.

(* the current tree *)
Definition cell_query (chull : list pt -> list pt) := cell_query_g chull true.
Definition ref_bbox_c (chull : list pt -> list pt) := ref_bbox_g chull true.
Definition ref_hull_c (chull : list pt -> list pt) := ref_hull_g chull true.
(* before d7329ad *)
Definition cell_query_old (chull : list pt -> list pt) := cell_query_g chull false.
Definition ref_bbox_old (chull : list pt -> list pt) := ref_bbox_g chull false.
Definition ref_hull_old (chull : list pt -> list pt) := ref_hull_g chull false.

(* exitcode == qh_ERRsingular (collinear input): the two extreme input points in lexicographic order
     Vec2 lo = *p, hi = *p;
     for (...) { if (p->x < lo.x || (p->x == lo.x && p->y < lo.y)) lo = *p;
                 if (p->x > hi.x || (p->x == hi.x && p->y > hi.y)) hi = *p; }
     result.append(lo);  if (hi.x != lo.x || hi.y != lo.y) result.append(hi); *)
Definition pt_ltb (a b : pt) : bool :=
  match qcmp (fst a) (fst b) with Lt => true | Gt => false | Eq => qlt (snd a) (snd b) end.
Definition lex_min (a b : pt) : pt := if pt_ltb b a then b else a.
Definition lex_max (a b : pt) : pt := if pt_ltb a b then b else a.
Definition fallback (pts : list pt) : list pt :=
  match pts with
  | [] => []
  | a :: t => let lo := fold_left lex_min t a in
              let hi := fold_left lex_max t a in
              if pt_eqb lo hi then [lo] else [lo; hi]
  end.

(* gdstk::convex_hull:  count < 4: the points themselves;  qhull ok: its vertices;  qh_ERRsingular: the
   fallback;  any other qhull error ("the least we can do"): the points themselves.
   qhull enters as [hull]; it reports an input error (not singular) when all points have the same x
   (QH6013, also QH6421 when all points coincide) and "initial simplex is flat" (singular) when the
   points are collinear otherwise.  (The split for count > qh_POINTSmax is not modelled.) *)
Definition convex_hull_w (hull : list pt -> list pt) (pts : list pt) : list pt :=
  if Nat.ltb (length pts) 4 then pts
  else if same_x pts then pts
  else if collinearb pts then fallback pts
  else hull pts.
(* before cd7171e *)
Definition convex_hull_w_old (hull : list pt -> list pt) (pts : list pt) : list pt :=
  if Nat.ltb (length pts) 4 then pts
  else if same_x pts then pts
  else if collinearb pts then fallback_old pts
  else hull pts.

(* ---------- a concrete exact hull (Andrew's monotone chain, strict turns) standing in for qhull in
   the correspondence run ---------- *)
Fixpoint insert_pt (p : pt) (l : list pt) : list pt :=
  match l with
  | [] => [p]
  | a :: t => if pt_ltb p a then p :: l else if pt_eqb p a then l else a :: insert_pt p t
  end.
Definition sort_pts (l : list pt) : list pt := fold_right insert_pt [] l.   (* sorted, duplicates removed *)

Fixpoint pop_while (stack : list pt) (p : pt) : list pt :=
  match stack with
  | a :: t => match t with
              | o :: _ => match cross_sign o a p with Gt => stack | _ => pop_while t p end
              | [] => stack
              end
  | [] => stack
  end.
Definition chain (l : list pt) : list pt := fold_left (fun st p => p :: pop_while st p) l [].
Definition hull_mc (pts : list pt) : list pt :=
  let s := sort_pts pts in
  match s with
  | [] | [_] => s
  | _ => let lower := chain s in let upper := chain (rev s) in
         rev (tl lower) ++ rev (tl upper)
  end.

(* ---------- canonical text of a hull (both sides of the correspondence print this): round the points to
   the 2^-20 grid, take the strictly convex hull of the grid points (exact integer arithmetic), drop corners
   that are within 8 grid units of the chord of their neighbours (first such corner in order, repeated), sort.
   This makes the text insensitive to 1e-16 perturbations (cos(pi/2) = 6e-17 in the implementation keeps or
   drops collinear points differently from exact arithmetic). ---------- *)
Definition zpt : Type := (Z * Z)%type.
Definition round_pt (p : pt) : zpt := (grid_round (fst p), grid_round (snd p)).
Definition zpt_ltb (a b : zpt) : bool :=
  match Z.compare (fst a) (fst b) with Lt => true | Gt => false | Eq => Z.ltb (snd a) (snd b) end.
Fixpoint insert_zpt (p : zpt) (l : list zpt) : list zpt :=
  match l with
  | [] => [p]
  | a :: t => if zpt_ltb p a then p :: l
              else if Z.eqb (fst p) (fst a) && Z.eqb (snd p) (snd a) then l else a :: insert_zpt p t
  end.
Definition sort_zpts (l : list zpt) : list zpt := fold_right insert_zpt [] l.
Definition zcross (o a b : zpt) : Z :=
  ((fst a - fst o) * (snd b - snd o) - (snd a - snd o) * (fst b - fst o))%Z.
Fixpoint zpop_while (stack : list zpt) (p : zpt) : list zpt :=
  match stack with
  | a :: t => match t with
              | o :: _ => if (0 <? zcross o a p)%Z then stack else zpop_while t p
              | [] => stack
              end
  | [] => stack
  end.
Definition zchain (l : list zpt) : list zpt := fold_left (fun st p => p :: zpop_while st p) l [].
Definition zhull (s : list zpt) : list zpt :=        (* s sorted, distinct; result counter-clockwise *)
  match s with
  | [] | [_] => s
  | _ => rev (tl (zchain s)) ++ rev (tl (zchain (rev s)))
  end.
Definition znear (a v b : zpt) : bool :=
  (Z.abs (zcross a v b) <=? 8 * Z.max (Z.abs (fst b - fst a)) (Z.abs (snd b - snd a)))%Z.
Fixpoint zscan (prev first : zpt) (l acc_rev : list zpt) : option (list zpt) :=
  match l with
  | [] => None
  | v :: t => let next := match t with n :: _ => n | [] => first end in
              if znear prev v next then Some (rev acc_rev ++ t) else zscan v first t (v :: acc_rev)
  end.
Definition zprune_once (V : list zpt) : option (list zpt) :=
  match V with [] => None | v0 :: _ => zscan (last V v0) v0 V [] end.
Fixpoint zprune (fuel : nat) (V : list zpt) : list zpt :=
  match fuel with
  | O => V
  | S f => if Nat.leb (length V) 2 then V
           else match zprune_once V with None => V | Some V' => zprune f V' end
  end.
Definition canon_pts (l : list pt) : list zpt :=
  let s := sort_zpts (map round_pt l) in
  let h := zhull s in
  sort_zpts (zprune (length h) h).
