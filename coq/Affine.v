(* C10 - exact model (over Q) of the element transforms of gdstk.

   Every routine is the map it performs on the element's PARAMETERS, written statement by
   statement after the C++ (file:function given at each definition).  Numbers are rationals
   (every finite double is one); an angle is the pair (cos, sin) of rationals with
   cos^2+sin^2 = 1 (multiples of 90 degrees and Pythagorean angles), so that cos/sin of the C++
   become the two projections and `rotation = r1*rotation + rot` becomes complex multiplication.

   Modelling notes (all checked by the correspondence harness harness/c10_transform.cpp):
   * `rotation != 0` tests of Repetition::transform are `negb (angle_is_zero a)`: the harness only
     passes angles in [0, 2pi) so that rotation == 0 exactly when (cos,sin) = (1,0);
   * `Vec2::normalize` (RobustPath::mirror) divides by the length; the only use of the normalised
     direction is through the products dx*dx-dy*dy and 2*dx*dy, which are rational: the model
     computes them as (dx^2-dy^2)/|d|^2 and 2 dx dy/|d|^2 (0 when |d| = 0, as normalize leaves a
     zero vector alone);
   * a FlexPath element's half_width_and_offset array has one entry per spine point (class
     invariant of FlexPath; the C++ loops run `spine.point_array.count` times over it). *)
From Coq Require Import QArith Qabs Qround List Bool ZArith.
Import ListNotations.
Open Scope Q_scope.

(* ------------------------------------------------------------------ Vec2 (include/gdstk/vec.hpp) *)
Record Vec2 : Type := V2 { vx : Q; vy : Q }.

Definition veq (a b : Vec2) : Prop := vx a == vx b /\ vy a == vy b.
Definition veqb (a b : Vec2) : bool := Qeq_bool (vx a) (vx b) && Qeq_bool (vy a) (vy b).

Definition vzero : Vec2 := V2 0 0.
Definition vadd (a b : Vec2) : Vec2 := V2 (vx a + vx b) (vy a + vy b).
Definition vsub (a b : Vec2) : Vec2 := V2 (vx a - vx b) (vy a - vy b).
Definition vneg (a : Vec2) : Vec2 := V2 (- vx a) (- vy a).
Definition vscale (a : Vec2) (k : Q) : Vec2 := V2 (vx a * k) (vy a * k).      (* Vec2 * double *)
Definition vmul (a b : Vec2) : Vec2 := V2 (vx a * vx b) (vy a * vy b).        (* Vec2 * Vec2   *)
Definition inner (a b : Vec2) : Q := vx a * vx b + vy a * vy b.
Definition cross (a b : Vec2) : Q := vx a * vy b - vy a * vx b.
Definition length_sq (a : Vec2) : Q := inner a a.
Definition ortho (a : Vec2) : Vec2 := V2 (- vy a) (vx a).
Definition cplx_conj (z : Vec2) : Vec2 := V2 (vx z) (- vy z).
Definition cplx_mul (z1 z2 : Vec2) : Vec2 :=
  V2 (vx z1 * vx z2 - vy z1 * vy z2) (vx z1 * vy z2 + vy z1 * vx z2).

(* ------------------------------------------------------------------ exact angles *)
Record angle : Type := Ang { acos : Q; asin : Q }.
Definition angle_ok (a : angle) : Prop := acos a * acos a + asin a * asin a == 1.
Definition aeq (a b : angle) : Prop := acos a == acos b /\ asin a == asin b.
Definition azero : angle := Ang 1 0.
Definition aadd (a b : angle) : angle :=
  Ang (acos a * acos b - asin a * asin b) (asin a * acos b + acos a * asin b).
Definition aneg (a : angle) : angle := Ang (acos a) (- asin a).
Definition angle_is_zero (a : angle) : bool := Qeq_bool (acos a) 1 && Qeq_bool (asin a) 0.
(* `r1 * rotation` with r1 = x_refl ? -1 : 1 *)
Definition asign (x_refl : bool) (a : angle) : angle := if x_refl then aneg a else a.
(* the four right angles and two Pythagorean ones, for examples *)
Definition a90 : angle := Ang 0 1.
Definition a180 : angle := Ang (-1) 0.
Definition a270 : angle := Ang 0 (-1).
Definition a345 : angle := Ang (3#5) (4#5).       (* atan2(4,3) *)
Definition a51213 : angle := Ang (5#13) (12#13).  (* atan2(12,5) *)

(* ------------------------------------------------------------------ affine maps *)
(* x' = a x + b y + tx ; y' = c x + d y + ty.  RobustPath::trafo[0..5] = a b tx c d ty. *)
Record aff : Type := Aff { aa : Q; ab : Q; ac : Q; ad : Q; atx : Q; aty : Q }.
Definition aff_eq (f g : aff) : Prop :=
  aa f == aa g /\ ab f == ab g /\ ac f == ac g /\ ad f == ad g /\ atx f == atx g /\ aty f == aty g.
Definition aff_id : aff := Aff 1 0 0 1 0 0.
Definition aff_apply (f : aff) (p : Vec2) : Vec2 :=
  V2 (aa f * vx p + ab f * vy p + atx f) (ac f * vx p + ad f * vy p + aty f).
(* linear part only (what a repetition vector must undergo) *)
Definition aff_linear (f : aff) (p : Vec2) : Vec2 :=
  V2 (aa f * vx p + ab f * vy p) (ac f * vx p + ad f * vy p).
(* aff_compose f g = f after g *)
Definition aff_compose (f g : aff) : aff :=
  Aff (aa f * aa g + ab f * ac g) (aa f * ab g + ab f * ad g)
      (ac f * aa g + ad f * ac g) (ac f * ab g + ad f * ad g)
      (aa f * atx g + ab f * aty g + atx f) (ac f * atx g + ad f * aty g + aty f).
Definition aff_det (f : aff) : Q := aa f * ad f - ab f * ac f.

(* ------------------------------------------------------------------ placements / transform arguments *)
(* (origin, rotation, magnification, x_reflection) of a Label or Reference; also the argument
   list (magnification, x_reflection, rotation, origin) of every `transform`. *)
Record placement : Type := Pl { p_orig : Vec2; p_rot : angle; p_mag : Q; p_xrefl : bool }.
Definition pl_id : placement := Pl vzero azero 1 false.
Definition rsign (x_refl : bool) : Q := if x_refl then -1 else 1.

(* magnify, then reflect across x, then rotate, then translate *)
Definition placement_map (P : placement) : aff :=
  let m := p_mag P in let c := acos (p_rot P) in let s := asin (p_rot P) in
  let r := rsign (p_xrefl P) in
  Aff (m * c) (- (r * m * s)) (m * s) (r * m * c) (vx (p_orig P)) (vy (p_orig P)).

(* src/reference.cpp Reference::transform == src/label.cpp Label::transform *)
Definition placement_transform (T : placement) (P : placement) : placement :=
  let r1 := rsign (p_xrefl T) in
  let crot := acos (p_rot T) in
  let srot := asin (p_rot T) in
  let x := vx (p_orig P) in
  let y := vy (p_orig P) in
  let ox := vx (p_orig T) + p_mag T * (x * crot - r1 * y * srot) in
  let oy := vy (p_orig T) + p_mag T * (x * srot + r1 * y * crot) in
  Pl (V2 ox oy)
     (aadd (asign (p_xrefl T) (p_rot P)) (p_rot T))   (* rotation = r1 * rotation + rot *)
     (p_mag P * p_mag T)                              (* magnification *= mag *)
     (xorb (p_xrefl P) (p_xrefl T)).                  (* x_reflection ^= x_refl *)

(* the same placement shifted by a repetition offset: `origin + *offset_p` *)
Definition placement_shift (o : Vec2) (P : placement) : placement :=
  Pl (vadd (p_orig P) o) (p_rot P) (p_mag P) (p_xrefl P).

(* ------------------------------------------------------------------ the maps the simple transforms stand for *)
Definition translate_map (v : Vec2) : aff := Aff 1 0 0 1 (vx v) (vy v).
Definition scale_map (sf : Vec2) (c : Vec2) : aff :=
  Aff (vx sf) 0 0 (vy sf) (vx c * (1 - vx sf)) (vy c * (1 - vy sf)).
Definition rotate_map (a : angle) (c : Vec2) : aff :=
  Aff (acos a) (- asin a) (asin a) (acos a)
      (vx c - (acos a * vx c - asin a * vy c)) (vy c - (asin a * vx c + acos a * vy c)).
(* reflection across the line through p0 and p1 (identity when p0 = p1, as the C++ returns early) *)
Definition mirror_map (p0 p1 : Vec2) : aff :=
  let v := vsub p1 p0 in
  let n := length_sq v in
  if Qeq_bool n 0 then aff_id else
  let m0 := (vx v * vx v - vy v * vy v) / n in
  let m1 := (2 * vx v * vy v) / n in
  Aff m0 m1 m1 (- m0)
      (vx p0 - (m0 * vx p0 + m1 * vy p0)) (vy p0 - (m1 * vx p0 - m0 * vy p0)).

(* ------------------------------------------------------------------ Polygon (src/polygon.cpp) *)
Definition polygon : Type := list Vec2.

(* Polygon::translate : *p++ += v *)
Definition pt_translate (v : Vec2) (p : Vec2) : Vec2 := vadd p v.
Definition polygon_translate (v : Vec2) (pts : polygon) : polygon := map (pt_translate v) pts.

(* Polygon::scale : *p = ( *p - center) * scale_factor + center *)
Definition pt_scale (sf center : Vec2) (p : Vec2) : Vec2 := vadd (vmul (vsub p center) sf) center.
Definition polygon_scale (sf center : Vec2) (pts : polygon) : polygon := map (pt_scale sf center) pts.

(* Polygon::mirror :
     Vec2 v = p1 - p0; double tmp = v.length_sq(); if (tmp == 0) return;
     Vec2 r = v * (2 / tmp); Vec2 p2 = p0 * 2;
     *p = v * ( *p - p0).inner(r) - *p + p2 *)
Definition pt_mirror (p0 p1 : Vec2) (p : Vec2) : Vec2 :=
  let v := vsub p1 p0 in
  let tmp := length_sq v in
  let r := vscale v (2 / tmp) in
  let p2 := vscale p0 2 in
  vadd (vsub (vscale v (inner (vsub p p0) r)) p) p2.
Definition mirror_degenerate (p0 p1 : Vec2) : bool := Qeq_bool (length_sq (vsub p1 p0)) 0.
Definition polygon_mirror (p0 p1 : Vec2) (pts : polygon) : polygon :=
  if mirror_degenerate p0 p1 then pts else map (pt_mirror p0 p1) pts.

(* Polygon::rotate :
     Vec2 q = *p - center;
     p->x = q.x * ca - q.y * sa + center.x;  p->y = q.x * sa + q.y * ca + center.y *)
Definition pt_rotate (a : angle) (center : Vec2) (p : Vec2) : Vec2 :=
  let ca := acos a in let sa := asin a in
  let q := vsub p center in
  V2 (vx q * ca - vy q * sa + vx center) (vx q * sa + vy q * ca + vy center).
Definition polygon_rotate (a : angle) (center : Vec2) (pts : polygon) : polygon :=
  map (pt_rotate a center) pts.

(* Polygon::transform (also the loops of FlexPath::transform, Reference::repeat_and_transform) :
     Vec2 q = *p * magnification; if (x_reflection) q.y = -q.y;
     p->x = q.x * ca - q.y * sa + origin.x;  p->y = q.x * sa + q.y * ca + origin.y *)
Definition pt_transform (T : placement) (p : Vec2) : Vec2 :=
  let ca := acos (p_rot T) in let sa := asin (p_rot T) in
  let q0 := vscale p (p_mag T) in
  let q := if p_xrefl T then V2 (vx q0) (- vy q0) else q0 in
  V2 (vx q * ca - vy q * sa + vx (p_orig T)) (vx q * sa + vy q * ca + vy (p_orig T)).
Definition polygon_transform (T : placement) (pts : polygon) : polygon := map (pt_transform T) pts.

(* ------------------------------------------------------------------ transform operations as data *)
Inductive op : Type :=
| OTranslate (v : Vec2)
| OScale (s : Q) (center : Vec2)       (* isotropic: the only scale paths have *)
| OMirror (p0 p1 : Vec2)
| ORotate (a : angle) (center : Vec2)
| OTransform (T : placement).

Definition op_map (o : op) : aff :=
  match o with
  | OTranslate v => translate_map v
  | OScale s c => scale_map (V2 s s) c
  | OMirror p0 p1 => mirror_map p0 p1
  | ORotate a c => rotate_map a c
  | OTransform T => placement_map T
  end.

Definition polygon_apply_op (o : op) (pts : polygon) : polygon :=
  match o with
  | OTranslate v => polygon_translate v pts
  | OScale s c => polygon_scale (V2 s s) c pts
  | OMirror p0 p1 => polygon_mirror p0 p1 pts
  | ORotate a c => polygon_rotate a c pts
  | OTransform T => polygon_transform T pts
  end.

(* a sequence of operations, first element applied first *)
Definition polygon_apply_ops (ops : list op) (pts : polygon) : polygon :=
  fold_left (fun acc o => polygon_apply_op o acc) ops pts.
Definition ops_map (ops : list op) : aff :=
  fold_left (fun acc o => aff_compose (op_map o) acc) ops aff_id.

(* ------------------------------------------------------------------ FlexPath (src/flexpath.cpp) *)
(* per element: half_width_and_offset (u = half width, v = offset, one per spine point) and
   end_extensions *)
Record fp_elem : Type := FE { fe_hwo : list Vec2; fe_ext : Vec2 }.
Record flexpath : Type := FP { fp_spine : list Vec2; fp_elems : list fp_elem; fp_scale_width : bool }.

Definition fe_map (fwo : Vec2 -> Vec2) (fext : Vec2 -> Vec2) (e : fp_elem) : fp_elem :=
  FE (map fwo (fe_hwo e)) (fext (fe_ext e)).

(* FlexPath::translate *)
Definition flexpath_translate (v : Vec2) (f : flexpath) : flexpath :=
  FP (map (pt_translate v) (fp_spine f)) (fp_elems f) (fp_scale_width f).

(* FlexPath::scale :
     *p = ( *p - center) * scale + center;
     Vec2 wo_scale = {1, fabs(scale)}; if (scale_width) wo_scale.u = wo_scale.v;
     el->end_extensions *= fabs(scale);   *wo++ *= wo_scale *)
Definition flex_wo_scale (scale_width : bool) (s : Q) : Vec2 :=
  let v := Qabs s in V2 (if scale_width then v else 1) v.
Definition flexpath_scale (s : Q) (center : Vec2) (f : flexpath) : flexpath :=
  let wo_scale := flex_wo_scale (fp_scale_width f) s in
  FP (map (fun p => vadd (vscale (vsub p center) s) center) (fp_spine f))
     (map (fe_map (fun wo => vmul wo wo_scale) (fun e => vscale e (Qabs s))) (fp_elems f))
     (fp_scale_width f).

(* FlexPath::mirror : spine as Polygon::mirror; wo->v = -wo->v *)
Definition flexpath_mirror (p0 p1 : Vec2) (f : flexpath) : flexpath :=
  if mirror_degenerate p0 p1 then f else
  FP (map (pt_mirror p0 p1) (fp_spine f))
     (map (fe_map (fun wo => V2 (vx wo) (- vy wo)) (fun e => e)) (fp_elems f))
     (fp_scale_width f).

(* FlexPath::rotate : spine only *)
Definition flexpath_rotate (a : angle) (center : Vec2) (f : flexpath) : flexpath :=
  FP (map (pt_rotate a center) (fp_spine f)) (fp_elems f) (fp_scale_width f).

(* FlexPath::transform :
     spine as Polygon::transform;
     Vec2 wo_scale = {1, fabs(magnification)};
     if (scale_width) wo_scale.u = wo_scale.v;
     if (x_reflection) wo_scale.v = -wo_scale.v;
     el->end_extensions *= fabs(magnification);  *wo++ *= wo_scale
   (as repaired by df9071a / a1ca73a: before, the signed magnification was used throughout and the
   offsets were not negated under x_reflection - finding F7) *)
Definition flex_wo_transform (scale_width : bool) (mag : Q) (x_refl : bool) : Vec2 :=
  let v0 := Qabs mag in
  let u := if scale_width then v0 else 1 in
  let v := if x_refl then - v0 else v0 in
  V2 u v.
Definition flexpath_transform (T : placement) (f : flexpath) : flexpath :=
  let wo_scale := flex_wo_transform (fp_scale_width f) (p_mag T) (p_xrefl T) in
  FP (map (pt_transform T) (fp_spine f))
     (map (fe_map (fun wo => vmul wo wo_scale) (fun e => vscale e (Qabs (p_mag T)))) (fp_elems f))
     (fp_scale_width f).

(* the code before the repair, kept to show what the property oracle caught (AffineProofs:
   flexpath_transform_unrepaired_refuted) *)
Definition flexpath_transform_unrepaired (T : placement) (f : flexpath) : flexpath :=
  let wo_scale := V2 (if fp_scale_width f then p_mag T else 1) (p_mag T) in
  FP (map (pt_transform T) (fp_spine f))
     (map (fe_map (fun wo => vmul wo wo_scale) (fun e => vscale e (p_mag T))) (fp_elems f))
     (fp_scale_width f).

Definition flexpath_apply_op (o : op) (f : flexpath) : flexpath :=
  match o with
  | OTranslate v => flexpath_translate v f
  | OScale s c => flexpath_scale s c f
  | OMirror p0 p1 => flexpath_mirror p0 p1 f
  | ORotate a c => flexpath_rotate a c f
  | OTransform T => flexpath_transform T f
  end.
Definition flexpath_apply_ops (ops : list op) (f : flexpath) : flexpath :=
  fold_left (fun acc o => flexpath_apply_op o acc) ops f.

(* ------------------------------------------------------------------ RobustPath (src/robustpath.cpp) *)
Record robustpath : Type := RP {
  rp_trafo : aff;              (* trafo[0..5] = aa ab atx ac ad aty *)
  rp_width_scale : Q;
  rp_offset_scale : Q;
  rp_exts : list Vec2;         (* end_extensions of each element *)
  rp_scale_width : bool }.

(* RobustPath::translate : trafo[2] += v.x; trafo[5] += v.y *)
Definition rp_translate (v : Vec2) (r : robustpath) : robustpath :=
  let t := rp_trafo r in
  RP (Aff (aa t) (ab t) (ac t) (ad t) (atx t + vx v) (aty t + vy v))
     (rp_width_scale r) (rp_offset_scale r) (rp_exts r) (rp_scale_width r).

(* RobustPath::simple_scale *)
Definition rp_simple_scale (s : Q) (r : robustpath) : robustpath :=
  let t := rp_trafo r in
  RP (Aff (aa t * s) (ab t * s) (ac t * s) (ad t * s) (atx t * s) (aty t * s))
     (if rp_scale_width r then rp_width_scale r * Qabs s else rp_width_scale r)
     (rp_offset_scale r * Qabs s)
     (map (fun e => vscale e (Qabs s)) (rp_exts r))     (* end_extensions *= fabs(scale_factor) *)
     (rp_scale_width r).

(* RobustPath::scale : delta = center * (1 - scale); simple_scale(scale); translate(delta) *)
Definition rp_scale (s : Q) (center : Vec2) (r : robustpath) : robustpath :=
  let delta := vscale center (1 - s) in
  rp_translate delta (rp_simple_scale s r).

(* RobustPath::mirror *)
Definition rp_mirror (p0 p1 : Vec2) (r : robustpath) : robustpath :=
  let direction := vsub p0 p1 in
  let n := length_sq direction in
  (* direction.normalize(): products of the normalised components *)
  let dxx := if Qeq_bool n 0 then 0 else vx direction * vx direction / n in
  let dyy := if Qeq_bool n 0 then 0 else vy direction * vy direction / n in
  let dxy := if Qeq_bool n 0 then 0 else vx direction * vy direction / n in
  let r1 := rp_translate (vneg p1) r in
  let t := rp_trafo r1 in
  let tr0 := aa t in let tr1 := ab t in let tr2 := atx t in
  let tr3 := ac t in let tr4 := ad t in let tr5 := aty t in
  let m0 := dxx - dyy in
  let m1 := 2 * dxy in
  let m3 := m1 in
  let m4 := - m0 in
  let r2 := RP (Aff (m0 * tr0 + m1 * tr3) (m0 * tr1 + m1 * tr4) (m3 * tr0 + m4 * tr3) (m3 * tr1 + m4 * tr4)
                    (m0 * tr2 + m1 * tr5) (m3 * tr2 + m4 * tr5))
               (rp_width_scale r1) (rp_offset_scale r1) (rp_exts r1) (rp_scale_width r1) in
  let r3 := rp_translate p1 r2 in
  RP (rp_trafo r3) (rp_width_scale r3) (rp_offset_scale r3 * (-1)) (rp_exts r3) (rp_scale_width r3).

(* RobustPath::simple_rotate *)
Definition rp_simple_rotate (a : angle) (r : robustpath) : robustpath :=
  let c := acos a in let s := asin a in
  let t := rp_trafo r in
  let tr0 := aa t in let tr1 := ab t in let tr2 := atx t in
  let tr3 := ac t in let tr4 := ad t in let tr5 := aty t in
  RP (Aff (tr0 * c - tr3 * s) (tr1 * c - tr4 * s) (tr0 * s + tr3 * c) (tr1 * s + tr4 * c)
          (tr2 * c - tr5 * s) (tr2 * s + tr5 * c))
     (rp_width_scale r) (rp_offset_scale r) (rp_exts r) (rp_scale_width r).

(* RobustPath::rotate : translate(-center); simple_rotate(angle); translate(center) *)
Definition rp_rotate (a : angle) (center : Vec2) (r : robustpath) : robustpath :=
  rp_translate center (rp_simple_rotate a (rp_translate (vneg center) r)).

(* RobustPath::x_reflection *)
Definition rp_x_reflection (r : robustpath) : robustpath :=
  let t := rp_trafo r in
  RP (Aff (aa t) (ab t) (- ac t) (- ad t) (atx t) (- aty t))
     (rp_width_scale r) (rp_offset_scale r * (-1)) (rp_exts r) (rp_scale_width r).

(* RobustPath::transform : simple_scale; if (x_refl) x_reflection(); simple_rotate; translate *)
Definition rp_transform (T : placement) (r : robustpath) : robustpath :=
  let r1 := rp_simple_scale (p_mag T) r in
  let r2 := if p_xrefl T then rp_x_reflection r1 else r1 in
  let r3 := rp_simple_rotate (p_rot T) r2 in
  rp_translate (p_orig T) r3.

Definition rp_apply_op (o : op) (r : robustpath) : robustpath :=
  match o with
  | OTranslate v => rp_translate v r
  | OScale s c => rp_scale s c r
  | OMirror p0 p1 => rp_mirror p0 p1 r
  | ORotate a c => rp_rotate a c r
  | OTransform T => rp_transform T r
  end.
Definition rp_apply_ops (ops : list op) (r : robustpath) : robustpath :=
  fold_left (fun acc o => rp_apply_op o acc) ops r.

(* ------------------------------------------------------------------ Label / Reference *)
Definition placement_apply_ops (Ts : list placement) (P : placement) : placement :=
  fold_left (fun acc T => placement_transform T acc) Ts P.
Definition placements_map (Ts : list placement) : aff :=
  fold_left (fun acc T => aff_compose (placement_map T) acc) Ts aff_id.

(* ------------------------------------------------------------------ Repetition (src/repetition.cpp) *)
Inductive repetition : Type :=
| RNone
| RRect (columns rows : nat) (spacing : Vec2)
| RRegular (columns rows : nat) (v1 v2 : Vec2)
| RExplicit (offsets : list Vec2)
| RExplicitX (coords : list Q)
| RExplicitY (coords : list Q).

Definition qnat (n : nat) : Q := inject_Z (Z.of_nat n).

(* Repetition::get_offsets (columns outer loop, rows inner loop) *)
Definition rep_offsets (r : repetition) : list Vec2 :=
  match r with
  | RNone => []
  | RRect columns rows sp =>
      flat_map (fun i => map (fun j => V2 (qnat i * vx sp) (qnat j * vy sp)) (seq 0 rows)) (seq 0 columns)
  | RRegular columns rows v1 v2 =>
      flat_map (fun i => let vi := vscale v1 (qnat i) in
                         map (fun j => V2 (vx vi + qnat j * vx v2) (vy vi + qnat j * vy v2)) (seq 0 rows))
               (seq 0 columns)
  | RExplicit offs => vzero :: offs
  | RExplicitX cs => vzero :: map (fun c => V2 c 0) cs
  | RExplicitY cs => vzero :: map (fun c => V2 0 c) cs
  end.

Definition qneq1 (m : Q) : bool := negb (Qeq_bool m 1).

(* Repetition::transform(magnification, x_reflection, rotation) *)
Definition rep_transform (mag : Q) (x_refl : bool) (rot : angle) (r : repetition) : repetition :=
  let rot_nz := negb (angle_is_zero rot) in
  match r with
  | RNone => RNone
  | RRect columns rows spacing0 =>
      let spacing := if qneq1 mag then vscale spacing0 mag else spacing0 in
      if x_refl || rot_nz then
        let v := if x_refl then V2 (vx spacing) (- vy spacing) else spacing in
        let ca := acos rot in let sa := asin rot in
        RRegular columns rows (V2 (vx v * ca) (vx v * sa)) (V2 (- vy v * sa) (vy v * ca))
      else RRect columns rows spacing
  | RRegular columns rows v1 v2 =>
      let v1a := if qneq1 mag then vscale v1 mag else v1 in
      let v2a := if qneq1 mag then vscale v2 mag else v2 in
      let v1b := if x_refl then V2 (vx v1a) (- vy v1a) else v1a in
      let v2b := if x_refl then V2 (vx v2a) (- vy v2a) else v2a in
      if rot_nz then
        let rr := V2 (acos rot) (asin rot) in
        RRegular columns rows (cplx_mul v1b rr) (cplx_mul v2b rr)
      else RRegular columns rows v1b v2b
  | RExplicitX cs =>
      if rot_nz then
        let ca := mag * acos rot in let sa := mag * asin rot in
        RExplicit (map (fun c => V2 (c * ca) (c * sa)) cs)
      else if qneq1 mag then RExplicitX (map (fun c => c * mag) cs)
      else RExplicitX cs
  | RExplicitY cs =>
      if rot_nz then
        let ca0 := mag * acos rot in let sa0 := - mag * asin rot in
        let ca := if x_refl then - ca0 else ca0 in
        let sa := if x_refl then - sa0 else sa0 in
        RExplicit (map (fun c => V2 (c * sa) (c * ca)) cs)
      else if x_refl || qneq1 mag then
        let m := if x_refl then - mag else mag in
        RExplicitY (map (fun c => c * m) cs)
      else RExplicitY cs
  | RExplicit offs =>
      if rot_nz then
        let rr := V2 (mag * acos rot) (mag * asin rot) in
        if x_refl then RExplicit (map (fun v => cplx_mul (cplx_conj v) rr) offs)
        else RExplicit (map (fun v => cplx_mul v rr) offs)
      else if x_refl && qneq1 mag then RExplicit (map (fun v => V2 (vx v * mag) (vy v * - mag)) offs)
      else if x_refl then RExplicit (map (fun v => V2 (vx v) (- vy v)) offs)
      else if qneq1 mag then RExplicit (map (fun v => vscale v mag) offs)
      else RExplicit offs
  end.

(* ------------------------------------------------------------------ elements that carry a repetition *)
(* `transform` of Polygon / FlexPath / RobustPath / Label / Reference does not touch the
   `repetition` member (finding F8). *)
Record rpolygon : Type := RPoly { rpo_pts : polygon; rpo_rep : repetition }.
Definition rpolygon_transform (T : placement) (e : rpolygon) : rpolygon :=
  RPoly (polygon_transform T (rpo_pts e)) (rpo_rep e).
(* geometry denoted by a polygon with repetition: one copy per offset (None = the polygon) *)
Definition rpolygon_denote (e : rpolygon) : list polygon :=
  match rpo_rep e with
  | RNone => [rpo_pts e]
  | r => map (fun o => polygon_translate o (rpo_pts e)) (rep_offsets r)
  end.

(* ------------------------------------------------------------------ normalisation (for execution) *)
(* Qred keeps the numbers of the extracted model small; it is the identity up to == . *)
Definition vred (v : Vec2) : Vec2 := V2 (Qred (vx v)) (Qred (vy v)).
Definition ared (a : angle) : angle := Ang (Qred (acos a)) (Qred (asin a)).
Definition affred (f : aff) : aff :=
  Aff (Qred (aa f)) (Qred (ab f)) (Qred (ac f)) (Qred (ad f)) (Qred (atx f)) (Qred (aty f)).
Definition plred (P : placement) : placement := Pl (vred (p_orig P)) (ared (p_rot P)) (Qred (p_mag P)) (p_xrefl P).
Definition polyred (p : polygon) : polygon := map vred p.
Definition fpred (f : flexpath) : flexpath :=
  FP (map vred (fp_spine f)) (map (fe_map vred vred) (fp_elems f)) (fp_scale_width f).
Definition rpred (r : robustpath) : robustpath :=
  RP (affred (rp_trafo r)) (Qred (rp_width_scale r)) (Qred (rp_offset_scale r)) (map vred (rp_exts r))
     (rp_scale_width r).
Definition repred (r : repetition) : repetition :=
  match r with
  | RNone => RNone
  | RRect c w sp => RRect c w (vred sp)
  | RRegular c w v1 v2 => RRegular c w (vred v1) (vred v2)
  | RExplicit l => RExplicit (map vred l)
  | RExplicitX l => RExplicitX (map Qred l)
  | RExplicitY l => RExplicitY (map Qred l)
  end.

(* ------------------------------------------------------------------ observation grid *)
(* results are compared after rounding to multiples of 2^-24 (sin/cos of doubles are inexact):
   nearest integer to q * 2^24 *)
Definition grid (q : Q) : Z := Qfloor (q * 16777216 + (1#2)).
