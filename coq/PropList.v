(* Model of the property lists of src/property.cpp (include/gdstk/property.hpp):
     set_property (5 overloads, through the static get_or_add_property), set_gds_property,
     get_property, get_gds_property, remove_property, remove_gds_property,
     properties_copy, properties_clear, and the static is_gds_property.
   A `Property*` chain is a list of (name, value list), head first (= newest first); a
   `PropertyValue*` chain is a list of values; NULL is [].  A pointer into a chain is the suffix it
   points to.  Names are NUL-free byte strings, so strcmp(a,b)==0 is equality of the byte lists.
   Definitions only (no proofs) so the model still runs when a proof breaks.
   The second half of the file is the plain SPECIFICATION: an ordered multimap on the same type. *)
Require Import Base.
Local Open Scope N_scope.

Definition name := list N.

Inductive value :=
| VUInt (n : N)            (* PropertyType::UnsignedInteger *)
| VInt (z : Z)             (* PropertyType::Integer *)
| VReal (bits : N)         (* PropertyType::Real, the 64 bits of the double *)
| VStr (bytes : list N).   (* PropertyType::String: count bytes *)

Definition entry : Type := (name * list value)%type.
Definition plist := list entry.

Fixpoint bytes_eqb (a b : list N) : bool :=
  match a, b with
  | [], [] => true
  | x :: a', y :: b' => (x =? y) && bytes_eqb a' b'
  | _, _ => false
  end.
(* strcmp(a, b) == 0 *)
Definition name_eqb (a b : name) : bool := bytes_eqb a b.

(* s_gds_property_name[] = "S_GDS_PROPERTY" *)
Definition gds_name : name := [83; 95; 71; 68; 83; 95; 80; 82; 79; 80; 69; 82; 84; 89].

(* ---- static bool is_gds_property(const Property* property)  (property is never NULL at the
   call sites: every call is dominated by a NULL test of the same pointer)
     if (strcmp(property->name, s_gds_property_name) != 0 || property->value == NULL) return false;
     attribute = property->value; value = attribute->next;
     if (attribute->type != UnsignedInteger || value == NULL || value->type != String) return false;
     return true;                                                                            *)
Definition is_gds_property (property : entry) : bool :=
  if negb (name_eqb (fst property) gds_name) then false
  else
    match snd property with
    | [] => false
    | attribute :: value =>
        if negb (match attribute with VUInt _ => true | _ => false end) then false
        else
          match value with
          | [] => false
          | v :: _ => if negb (match v with VStr _ => true | _ => false end) then false else true
          end
    end.

(* `is_gds_property(p) && p->value->unsigned_integer == attribute`: the right operand is only
   evaluated when the left one holds, and then p->value is a non-NULL UnsignedInteger node (the
   last branch below is dead code: lemma is_gds_property_shape). *)
Definition gds_attr_is (p : entry) (attribute : N) : bool :=
  is_gds_property p &&
  match snd p with
  | VUInt u :: _ => u =? attribute
  | _ => false
  end.

(* ---- properties_clear: while (properties) { free ...; properties = next; } *)
Fixpoint properties_clear (properties : plist) : plist :=
  match properties with
  | [] => []
  | _ :: next => properties_clear next
  end.

(* ---- property_values_copy / properties_copy: loops appending a fresh node at dst *)
Fixpoint property_values_copy_loop (values result : list value) : list value :=
  match values with
  | [] => result
  | v :: next =>
      let dst := match v with
                 | VUInt n => VUInt n
                 | VInt z => VInt z
                 | VReal r => VReal r
                 | VStr b => VStr b      (* count bytes memcpy'd *)
                 end in
      property_values_copy_loop next (result ++ [dst])
  end.
Definition property_values_copy (values : list value) : list value :=
  property_values_copy_loop values [].

Fixpoint properties_copy_loop (properties result : plist) : plist :=
  match properties with
  | [] => result
  | p :: next =>
      properties_copy_loop next (result ++ [(fst p (* copy_string *), property_values_copy (snd p))])
  end.
Definition properties_copy (properties : plist) : plist := properties_copy_loop properties [].

(* ---- get_or_add_property followed by the assignment of the value fields (the 5 overloads of
   set_property differ only in the kind of value written into the returned node).
     if (!create_new) {
       property = properties;
       while (property && strcmp(property->name, name) != 0) property = property->next;
       if (property) { value->next = property->value; property->value = value; return value; }
     }
     new property at the head with the single value                                        *)
Fixpoint add_to_first (property : plist) (n : name) (v : value) : option plist :=
  match property with
  | [] => None                                      (* property == NULL after the loop *)
  | p :: next =>
      if negb (name_eqb (fst p) n) then
        match add_to_first next n v with
        | Some next' => Some (p :: next')
        | None => None
        end
      else Some ((fst p, v :: snd p) :: next)
  end.

Definition set_property (properties : plist) (n : name) (v : value) (create_new : bool) : plist :=
  if negb create_new then
    match add_to_first properties n v with
    | Some l => l
    | None => (n, [v]) :: properties
    end
  else (n, [v]) :: properties.

(* ---- set_gds_property(properties, attribute, value): value is a C string; strlen+1 bytes are
   stored (the trailing NUL is part of the property value) in both branches.
     for (property = properties; property; property = property->next)
       if (is_gds_property(property) && property->value->unsigned_integer == attribute) {
         gds_value = property->value->next;  overwrite count/bytes;  return; }
     new entry at the head: S_GDS_PROPERTY -> [UnsignedInteger attribute; String value+NUL]   *)
Fixpoint set_gds_loop (property : plist) (attribute : N) (bytes : list N) : outcome (option plist) :=
  match property with
  | [] => Ok None
  | p :: next =>
      if gds_attr_is p attribute then
        match snd p with
        | [] => Crash                                 (* property->value == NULL: ->next *)
        | a :: [] => Crash                            (* gds_value == NULL: ->count *)
        | a :: gds_value :: rest =>
            match gds_value with
            | VStr _ => Ok (Some ((fst p, a :: VStr bytes :: rest) :: next))
            | _ => Crash                              (* reallocate() of a non-pointer union member *)
            end
        end
      else
        match set_gds_loop next attribute bytes with
        | Ok (Some next') => Ok (Some (p :: next'))
        | Ok None => Ok None
        | o => o
        end
  end.

Definition set_gds_property (properties : plist) (attribute : N) (str : list N) : outcome plist :=
  let bytes := str ++ [0] in
  match set_gds_loop properties attribute bytes with
  | Ok (Some l) => Ok l
  | Ok None => Ok ((gds_name, [VUInt attribute; VStr bytes]) :: properties)
  | ErrEof => ErrEof | ErrOverflow => ErrOverflow | ErrInvalid => ErrInvalid
  | Crash => Crash | Hang => Hang
  end.

(* ---- get_property: while (properties && strcmp(properties->name, name) != 0) next;
        if (properties) return properties->value; return NULL;
   The result is the value chain (None = the NULL return; Some [] is not produced by the API
   since every entry has at least one value, but the model does not depend on that). *)
Fixpoint get_property (properties : plist) (n : name) : option (list value) :=
  match properties with
  | [] => None
  | p :: next => if negb (name_eqb (fst p) n) then get_property next n else Some (snd p)
  end.

(* ---- get_gds_property: while (properties && (!is_gds_property(properties) || attr differs)) next;
        if (properties) return properties->value->next; return NULL;
   The returned pointer is the chain starting at the second value. *)
Fixpoint get_gds_property (properties : plist) (attribute : N) : outcome (option (list value)) :=
  match properties with
  | [] => Ok None
  | p :: next =>
      if negb (gds_attr_is p attribute) then get_gds_property next attribute
      else
        match snd p with
        | [] => Crash                                  (* properties->value == NULL: ->next *)
        | _ :: value_next => Ok (Some value_next)
        end
  end.

(* ---- remove_property(properties, name, all_occurences)
     uint64_t removed = 0;
     if (properties == NULL) return removed;
 L1: while (strcmp(properties->name, name) == 0) {          <- no NULL test on properties
       free head; properties = next; removed++;
       if (!all_occurences) return removed;
     }
     Property* property = properties;
 L2: while (true) {
       while (property->next && strcmp(property->next->name, name) != 0) property = property->next;
       if (property->next) { unlink property->next; removed++; if (!all_occurences) return removed; }
       else return removed;
     }
   [fixed = true] is the repaired function; the repair is the one-line change
       -        if (!all_occurences) return removed;
       +        if (!all_occurences || properties == NULL) return removed;
   inside loop L1 (see remove_property_fixed below for why this is the minimal patch).

   Inner loop of L2.  `property` points into the chain: [done] = the nodes up to and including
   *property (in order), [after] = property->next.  Returns the new (done, after). *)
Fixpoint rp_scan (after : plist) (n : name) (done : plist) : plist * plist :=
  match after with
  | [] => (done, [])
  | q :: tl => if negb (name_eqb (fst q) n) then rp_scan tl n (done ++ [q]) else (done, after)
  end.

(* loop L2, property != NULL *)
Fixpoint rp_second (fuel : nat) (done after : plist) (n : name) (all : bool) (removed : N)
  : outcome (plist * N) :=
  match fuel with
  | O => Hang
  | S f =>
      let '(done', after') := rp_scan after n done in
      match after' with
      | _rem :: rest =>
          let removed := removed + 1 in
          if negb all then Ok (done' ++ rest, removed)
          else rp_second f done' rest n all removed
      | [] => Ok (done', removed)
      end
  end.

(* `Property* property = properties; while (true) { while (property->next ...` *)
Definition rp_second_entry (properties : plist) (n : name) (all : bool) (removed : N)
  : outcome (plist * N) :=
  match properties with
  | [] => Crash                                        (* property->next with property == NULL *)
  | p :: next => rp_second (S (length next)) [p] next n all removed
  end.

(* loop L1 *)
Fixpoint rp_first (fixed : bool) (fuel : nat) (properties : plist) (n : name) (all : bool)
  (removed : N) : outcome (plist * N) :=
  match fuel with
  | O => Hang
  | S f =>
      match properties with
      | [] => Crash                                    (* strcmp(properties->name, ...) on NULL *)
      | p :: next =>
          if name_eqb (fst p) n then
            let removed := removed + 1 in
            if negb all then Ok (next, removed)
            else if fixed && (match next with [] => true | _ => false end) then Ok (next, removed)
            else rp_first fixed f next n all removed
          else rp_second_entry properties n all removed
      end
  end.

Definition remove_property_gen (fixed : bool) (properties : plist) (n : name) (all : bool)
  : outcome (plist * N) :=
  match properties with
  | [] => Ok ([], 0)
  | _ :: _ => rp_first fixed (S (length properties)) properties n all 0
  end.

(* the function as it is in the tree *)
Definition remove_property := remove_property_gen false.

(* The repaired function.  Guarding only the condition of L1 (`while (properties && strcmp...`)
   is NOT enough: when every entry matched, control would reach `Property* property = properties`
   with NULL and `property->next` dereferences it (rp_second_entry's Crash branch).  So a guard on
   L1 needs a second statement `if (properties == NULL) return removed;` after the loop.  The same
   effect is obtained by one changed line inside L1: return as soon as the chain is exhausted.
   With it the loop condition never sees NULL (entry: tested by the first `if`; later iterations:
   tested by the new disjunct) and L2 starts on the non-matching, hence non-NULL, head. *)
Definition remove_property_fixed := remove_property_gen true.

(* ---- remove_gds_property
     if (properties == NULL) return false;
     if (is_gds_property(properties) && properties->value->unsigned_integer == attribute) {
       unlink head; return true; }
     Property* property = properties;                       <- non-NULL: tested above
     while (property->next && (!is_gds_property(property->next) || attr differs)) property = next;
     if (property->next) { unlink property->next; return true; }
     return false;                                                                          *)
Fixpoint rg_scan (after : plist) (attribute : N) (done : plist) : plist * plist :=
  match after with
  | [] => (done, [])
  | q :: tl => if negb (gds_attr_is q attribute) then rg_scan tl attribute (done ++ [q]) else (done, after)
  end.

Definition remove_gds_property (properties : plist) (attribute : N) : plist * bool :=
  match properties with
  | [] => ([], false)
  | p :: next =>
      if gds_attr_is p attribute then (next, true)
      else
        let '(done, after) := rg_scan next attribute [p] in
        match after with
        | _rem :: rest => (done ++ rest, true)
        | [] => (done, false)
        end
  end.

(* ------------------------------------------------------------------------------------------
   SPECIFICATION: an ordered multimap (association list, newest first) with the obvious
   functional definitions.  Nothing below refers to the loops above. *)

Definition has_name (n : name) (e : entry) : bool := name_eqb (fst e) n.

(* a GDSII attribute entry: named S_GDS_PROPERTY with values UInt attribute :: String :: ... *)
Definition is_gds_attr (a : N) (e : entry) : bool :=
  match e with
  | (nm, VUInt u :: VStr _ :: _) => name_eqb nm gds_name && (u =? a)
  | _ => false
  end.

(* replace the first element satisfying f by g of it *)
Fixpoint update_first (f : entry -> bool) (g : entry -> entry) (l : plist) : plist :=
  match l with
  | [] => []
  | e :: tl => if f e then g e :: tl else e :: update_first f g tl
  end.

(* drop the first element satisfying f *)
Fixpoint remove_first (f : entry -> bool) (l : plist) : plist :=
  match l with
  | [] => []
  | e :: tl => if f e then tl else e :: remove_first f tl
  end.

Definition spec_get (l : plist) (n : name) : option (list value) :=
  option_map snd (find (has_name n) l).

Definition spec_get_gds (l : plist) (a : N) : option (list value) :=
  option_map (fun e => tl (snd e)) (find (is_gds_attr a) l).

Definition spec_set (l : plist) (n : name) (v : value) (create_new : bool) : plist :=
  if create_new || negb (existsb (has_name n) l) then (n, [v]) :: l
  else update_first (has_name n) (fun e => (fst e, v :: snd e)) l.

Definition spec_set_gds (l : plist) (a : N) (str : list N) : plist :=
  if existsb (is_gds_attr a) l
  then update_first (is_gds_attr a)
         (fun e => (fst e, match snd e with
                           | u :: _ :: rest => u :: VStr (str ++ [0]) :: rest
                           | vs => vs
                           end)) l
  else (gds_name, [VUInt a; VStr (str ++ [0])]) :: l.

Definition spec_remove (l : plist) (n : name) (all : bool) : plist * N :=
  if all then (filter (fun e => negb (has_name n e)) l, N.of_nat (length (filter (has_name n) l)))
  else (remove_first (has_name n) l, if existsb (has_name n) l then 1 else 0).

Definition spec_remove_gds (l : plist) (a : N) : plist * bool :=
  (remove_first (is_gds_attr a) l, existsb (is_gds_attr a) l).

(* ---- histories *)
Inductive op :=
| OSet (n : name) (v : value) (create_new : bool)
| OSetGds (attribute : N) (str : list N)
| OGet (n : name)
| OGetGds (attribute : N)
| ORemove (n : name) (all : bool)
| ORemoveGds (attribute : N)
| OCopy            (* replace the list by properties_copy of it, properties_clear the old one *)
| OClear.

Inductive result :=
| RGet (r : option (list value))   (* get_property / get_gds_property: value chain or NULL *)
| RCount (n : N)                   (* remove_property *)
| RBool (b : bool).                (* remove_gds_property *)

Definition step_model (fixed : bool) (o : op) (l : plist) : outcome (plist * list result) :=
  match o with
  | OSet n v cn => Ok (set_property l n v cn, [])
  | OSetGds a s => obind (set_gds_property l a s) (fun l' => Ok (l', []))
  | OGet n => Ok (l, [RGet (get_property l n)])
  | OGetGds a => obind (get_gds_property l a) (fun r => Ok (l, [RGet r]))
  | ORemove n all => obind (remove_property_gen fixed l n all) (fun lc => Ok (fst lc, [RCount (snd lc)]))
  | ORemoveGds a => let lb := remove_gds_property l a in Ok (fst lb, [RBool (snd lb)])
  | OCopy => let copy := properties_copy l in
             let _old := properties_clear l in Ok (copy, [])
  | OClear => Ok (properties_clear l, [])
  end.

Fixpoint run_model (fixed : bool) (ops : list op) (l : plist) : outcome (plist * list result) :=
  match ops with
  | [] => Ok (l, [])
  | o :: tl =>
      obind (step_model fixed o l) (fun lr =>
      obind (run_model fixed tl (fst lr)) (fun lrs => Ok (fst lrs, snd lr ++ snd lrs)))
  end.

Definition step_spec (o : op) (l : plist) : plist * list result :=
  match o with
  | OSet n v cn => (spec_set l n v cn, [])
  | OSetGds a s => (spec_set_gds l a s, [])
  | OGet n => (l, [RGet (spec_get l n)])
  | OGetGds a => (l, [RGet (spec_get_gds l a)])
  | ORemove n all => let lc := spec_remove l n all in (fst lc, [RCount (snd lc)])
  | ORemoveGds a => let lb := spec_remove_gds l a in (fst lb, [RBool (snd lb)])
  | OCopy => (l, [])
  | OClear => ([], [])
  end.

Fixpoint run_spec (ops : list op) (l : plist) : plist * list result :=
  match ops with
  | [] => (l, [])
  | o :: tl =>
      let lr := step_spec o l in
      let lrs := run_spec tl (fst lr) in
      (fst lrs, snd lr ++ snd lrs)
  end.

(* the situation in which the function of the tree dereferences NULL: remove_property(name, true)
   on a non-empty list all of whose entries are named name *)
Definition all_match (l : plist) (n : name) : bool :=
  match l with [] => false | _ => forallb (has_name n) l end.

(* does a history reach that situation (following the specification's states)? *)
Fixpoint crash_reached (ops : list op) (l : plist) : bool :=
  match ops with
  | [] => false
  | o :: tl =>
      match o with
      | ORemove n true => all_match l n
      | _ => false
      end || crash_reached tl (fst (step_spec o l))
  end.
