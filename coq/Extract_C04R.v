(* extraction of the statement-level OASIS reader model (unit c04r) *)
Require Import Base OasisInt OasisSpec OasisRead.
Require Import Extraction ExtrOcamlBasic.
Extraction Blacklist List String Int.
Extraction "../ocaml/extracted/c04r.ml" read_oas_model lib_missing spec_oas_decode cov_oas_decode diag_oas view Z.of_N Z.mul Z.sub Z.add.
