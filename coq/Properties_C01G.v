(* C01G (cited by C01 and C02) - unit grid_round: the floating-point step between the doubles a user holds and the integer
   database grid on which gds_roundtrip / lower_roundtrip / oas_models_roundtrip_full live (coq/GridRound.v, Flocq binary64:
   Library::write_gds / write_oas scaling and lround, the UNITS / START reals, read_gds / read_oas factor, unit, precision,
   tolerance, oasis_read_point_list accumulation, FlexPath::remove_overlapping_points).
   Theorem-only file: every proof is `exact <lemma>`; Print Assumptions under each. *)
Require Import Base OasisInt GdsReal GdsRealProofs OasisReal OasisRealProofs OasisReal2Proofs GdsUnits GdsUnitsProofs GdsUnitsRound GridRound GridRoundProofs.
From Coq Require Import Reals List.
From Flocq Require Import Core BinarySingleNaN Binary Bits.
Import ListNotations.
Local Open Scope Z_scope.

(* lround / llround: the model of the C library function on a finite double is round-half-away-from-zero of its value *)
Theorem round_away_spec_thm : forall (x : binary64),
  fin64 x = true -> b64_round_away x = Some (ZnearestA (B2R64 x)).
Proof. exact round_away_spec_lemma. Qed.
Print Assumptions round_away_spec_thm.

(* (1) SAVING IS ROUNDING TO THE GRID, GDSII: for every finite x (zero or 2^-500 <= |x| <= 2^500), every unit /
   precision in 2^-200 .. 2^200 with |x unit / precision| <= 2^31 - 1: the int32 written by (int32_t)lround((0 + x) *
   (unit / precision)) is within 1/2 + |X| (2 u + u^2) of the REAL number X = x * unit / precision (u = 2^-53): a
   nearest integer except within that sliver of a half-way point *)
Theorem save_is_grid_rounding_gds_thm : forall U P x,
  fin64 U = true -> fin64 P = true -> fin64 x = true ->
  (bpow radix2 (-200) <= B2R64 U <= bpow radix2 200)%R ->
  (bpow radix2 (-200) <= B2R64 P <= bpow radix2 200)%R ->
  (B2R64 x = 0%R \/ (bpow radix2 (-500) <= Rabs (B2R64 x) <= bpow radix2 500)%R) ->
  let X := (B2R64 x * (B2R64 U / B2R64 P))%R in
  (Rabs X <= 2147483647)%R ->
  exists k, gw_coord (gw_scaling U P) b64_zero x = Some k
            /\ - 2 ^ 31 < k < 2 ^ 31
            /\ (Rabs (IZR k - X) <= / 2 + Rabs X * g2)%R.
Proof. exact save_is_grid_rounding_gds_lemma. Qed.
Print Assumptions save_is_grid_rounding_gds_thm.

(* the same for OASIS, (int64_t)llround(x * scaling), |X| <= 2^62 *)
Theorem save_is_grid_rounding_oas_thm : forall U P x,
  fin64 U = true -> fin64 P = true -> fin64 x = true ->
  (bpow radix2 (-200) <= B2R64 U <= bpow radix2 200)%R ->
  (bpow radix2 (-200) <= B2R64 P <= bpow radix2 200)%R ->
  (B2R64 x = 0%R \/ (bpow radix2 (-500) <= Rabs (B2R64 x) <= bpow radix2 500)%R) ->
  let X := (B2R64 x * (B2R64 U / B2R64 P))%R in
  (Rabs X <= 4611686018427387904)%R ->
  exists k, ow_coord (gw_scaling U P) x = Some k /\ (Rabs (IZR k - X) <= / 2 + Rabs X * g2)%R.
Proof. exact save_is_grid_rounding_oas_lemma. Qed.
Print Assumptions save_is_grid_rounding_oas_thm.

(* no slack when unit / precision is a power of two: the integer IS the half-away rounding of the real X *)
Theorem save_exact_pow2_thm : forall U P x a,
  fin64 U = true -> fin64 P = true -> fin64 x = true ->
  (bpow radix2 (-200) <= B2R64 U <= bpow radix2 200)%R ->
  (bpow radix2 (-200) <= B2R64 P <= bpow radix2 200)%R ->
  (B2R64 x = 0%R \/ (bpow radix2 (-500) <= Rabs (B2R64 x) <= bpow radix2 500)%R) ->
  (B2R64 U / B2R64 P = bpow radix2 a)%R ->
  let X := (B2R64 x * (B2R64 U / B2R64 P))%R in
  b64_round_away (b64_mult mode_NE x (gw_scaling U P)) = Some (ZnearestA X)
  /\ b64_round_away (b64_mult mode_NE (b64_plus mode_NE b64_zero x) (gw_scaling U P)) = Some (ZnearestA X).
Proof. exact save_exact_pow2_lemma. Qed.
Print Assumptions save_exact_pow2_thm.

(* the slack is real: unit 1e-6, precision 1e-9, x = 0x3F76872B020C49BB: X < 5.5 exactly, yet 6 is written (GDSII and
   OASIS) *)
Theorem save_slack_refuted_thm : exists U P x k,
    fin64 U = true /\ fin64 P = true /\ fin64 x = true
    /\ gw_coord (gw_scaling U P) b64_zero x = Some (k + 1)
    /\ ow_coord (gw_scaling U P) x = Some (k + 1)
    /\ (B2R64 x * (B2R64 U / B2R64 P) < IZR k + / 2)%R.
Proof. exact save_slack_refuted. Qed.
Print Assumptions save_slack_refuted_thm.

(* (3) rounding to the grid never reorders coordinates: x <= y => k(x) <= k(y) (any finite non-negative scaling up to
   2^500) *)
Theorem save_monotone_thm : forall (s x y : binary64),
  fin64 s = true -> fin64 x = true -> fin64 y = true ->
  (0 <= B2R64 s <= bpow radix2 500)%R ->
  (Rabs (B2R64 x) <= bpow radix2 500)%R -> (Rabs (B2R64 y) <= bpow radix2 500)%R ->
  (B2R64 x <= B2R64 y)%R ->
  exists kx ky,
    b64_round_away (b64_mult mode_NE x s) = Some kx /\ b64_round_away (b64_mult mode_NE y s) = Some ky
    /\ b64_round_away (b64_mult mode_NE (b64_plus mode_NE b64_zero x) s) = Some kx
    /\ b64_round_away (b64_mult mode_NE (b64_plus mode_NE b64_zero y) s) = Some ky
    /\ kx <= ky.
Proof. exact save_monotone_lemma. Qed.
Print Assumptions save_monotone_thm.

(* (2) LOAD, THEN SAVE (GDSII): for EVERY UNITS record with two positive reals (any file, not only gdstk's) and EVERY
   int32 k: the loaded double factor * k, multiplied by the scaling unit' / precision' computed from what the loaded
   library reports, rounds back to exactly k - coordinates and end extensions *)
Theorem gds_load_save_stable_thm : forall r0 r1 k,
  (r0 < 2 ^ 64)%N -> (r1 < 2 ^ 64)%N -> gds_positive r0 -> gds_positive r1 ->
  - 2 ^ 31 <= k < 2 ^ 31 ->
  let st := read_gds_units b64_zero b64_zero r0 r1 in
  gds_cycle_coord st k = Some k /\ gds_cycle_ext st k = Some k.
Proof. exact gds_load_save_stable_lemma. Qed.
Print Assumptions gds_load_save_stable_thm.

(* path widths: half_width = (factor * |w|) / 2 at load, lround(2 * half_width * scaling') with the sign convention at
   save: w again (w = INT32_MIN excluded: its negation overflows in the C++) *)
Theorem gds_width_stable_thm : forall r0 r1 w,
  (r0 < 2 ^ 64)%N -> (r1 < 2 ^ 64)%N -> gds_positive r0 -> gds_positive r1 ->
  - 2 ^ 31 < w < 2 ^ 31 ->
  gds_cycle_width (read_gds_units b64_zero b64_zero r0 r1) w = Some w.
Proof. exact gds_width_stable_lemma. Qed.
Print Assumptions gds_width_stable_thm.

(* gdsii_real_from_double ; gdsii_real_to_double is the identity on every double in 2^-259 .. 2^252 (as binary64
   values, over the Flocq model of the reader) *)
Theorem gds_real_reload_thm : forall (d : binary64),
  fin64 d = true -> (bpow radix2 (-259) <= B2R64 d < bpow radix2 252)%R ->
  (gds_real_from_b64 d < 2 ^ 64)%N /\ gds_positive (gds_real_from_b64 d)
  /\ gds_real_to_b64 (gds_real_from_b64 d) = d.
Proof. exact gds_real_reload_lemma. Qed.
Print Assumptions gds_real_reload_thm.

(* what a native load reports for the record written for (unit, precision) in 2^-100 .. 2^100: the precision itself,
   factor = fl(precision / unit), unit' = fl(precision / factor) within 2 u / (1 - u) of the saved unit, tolerance =
   fl(precision / unit') *)
Theorem gds_units_reload_thm : forall U P,
  fin64 U = true -> fin64 P = true ->
  (bpow radix2 (-100) <= B2R64 U <= bpow radix2 100)%R ->
  (bpow radix2 (-100) <= B2R64 P <= bpow radix2 100)%R ->
  let st := gds_reload U P in
  let '(r0, r1) := gw_units U P in
  (r0 < 2 ^ 64)%N /\ (r1 < 2 ^ 64)%N /\ gds_positive r0 /\ gds_positive r1
  /\ us_precision st = P
  /\ us_factor st = b64_div mode_NE P U
  /\ us_unit st = b64_div mode_NE P (b64_div mode_NE P U)
  /\ us_tolerance st = b64_div mode_NE P (us_unit st)
  /\ fin64 (us_unit st) = true
  /\ (Rabs (B2R64 (us_unit st) - B2R64 U) <= 2 * u53 / (1 - u53) * B2R64 U)%R.
Proof. exact gds_units_reload_lemma. Qed.
Print Assumptions gds_units_reload_thm.

(* hence: save (any unit / precision in 2^-100 .. 2^100), load, save again: every int32 coordinate, extension and width
   of the first file is written again *)
Theorem gds_save_load_save_thm : forall U P k,
  fin64 U = true -> fin64 P = true ->
  (bpow radix2 (-100) <= B2R64 U <= bpow radix2 100)%R ->
  (bpow radix2 (-100) <= B2R64 P <= bpow radix2 100)%R ->
  - 2 ^ 31 <= k < 2 ^ 31 ->
  gds_cycle_coord (gds_reload U P) k = Some k /\ gds_cycle_ext (gds_reload U P) k = Some k
  /\ (- 2 ^ 31 < k -> gds_cycle_width (gds_reload U P) k = Some k).
Proof. exact gds_save_load_save_lemma. Qed.
Print Assumptions gds_save_load_save_thm.

(* "the same unit" does not hold bit for bit: unit 1e-4, precision 1e-12 re-loads with a unit one ulp off; the
   precision is exact and the next cycle reproduces the loaded state *)
Theorem gds_unit_reload_refuted_thm : exists U P, fin64 U = true /\ fin64 P = true
    /\ us_unit (gds_reload U P) <> U
    /\ us_precision (gds_reload U P) = P
    /\ (let st := gds_reload U P in gds_reload (us_unit st) (us_precision st) = st).
Proof. exact gds_unit_reload_refuted. Qed.
Print Assumptions gds_unit_reload_refuted_thm.

(* distinct grid points stay distinct (and ordered) after a load, every positive UNITS record *)
Theorem gds_load_monotone_thm : forall r0 r1 z1 z2,
  (r0 < 2 ^ 64)%N -> (r1 < 2 ^ 64)%N -> gds_positive r0 -> gds_positive r1 ->
  - 2 ^ 31 <= z1 -> z1 < z2 -> z2 <= 2 ^ 31 ->
  let f := us_factor (read_gds_units b64_zero b64_zero r0 r1) in
  (B2R64 (gds_coord f z1) < B2R64 (gds_coord f z2))%R /\ b64_compare (gds_coord f z1) (gds_coord f z2) = Some Lt.
Proof. exact gds_load_monotone_lemma. Qed.
Print Assumptions gds_load_monotone_thm.

(* the START record's unit real 1e-6 / precision survives oasis_write_real ; oasis_read_real *)
Theorem oas_unit_real_reload_thm : forall (P : binary64),
  fin64 (ow_unit_real P) = true -> B2R64 (ow_unit_real P) <> 0%R ->
  or_unit_real (ow_unit_bytes P) = ow_unit_real P.
Proof. exact oas_unit_real_reload_lemma. Qed.
Print Assumptions oas_unit_real_reload_thm.

(* (2) LOAD, THEN SAVE (OASIS): every START real in 2^-100 .. 2^100 and every |k| <= 2^49: factor * k times the scaling
   1e-6 / precision' of the loaded library rounds back to k (positions of labels, references, first vertices,
   extensions) *)
Theorem oas_load_save_stable_thm : forall (real : binary64) k,
  fin64 real = true -> (bpow radix2 (-100) <= B2R64 real <= bpow radix2 100)%R ->
  Z.abs k <= 2 ^ 49 ->
  oas_cycle_coord (read_oas_units b64_zero b64_zero real) k = Some k.
Proof. exact oas_load_save_stable_lemma. Qed.
Print Assumptions oas_load_save_stable_thm.

(* from the saved precision (2^-80 .. 2^80): the loaded unit is 1e-6 whatever the saved unit was, and the cycle returns
   k *)
Theorem oas_save_load_save_thm : forall (P : binary64) k,
  fin64 P = true -> (bpow radix2 (-80) <= B2R64 P <= bpow radix2 80)%R -> Z.abs k <= 2 ^ 49 ->
  os_unit (oas_reload P) = gr_1em6 /\ oas_cycle_coord (oas_reload P) k = Some k.
Proof. exact oas_save_load_save_lemma. Qed.
Print Assumptions oas_save_load_save_thm.

(* beyond: precision 1e-9, k = 4503599627370474 < 2^52 is written back as another integer *)
Theorem oas_load_save_large_refuted_thm : exists P k, fin64 P = true /\ 0 < k < 2 ^ 52
    /\ oas_cycle_coord (oas_reload P) k <> Some k.
Proof. exact oas_load_save_large_refuted. Qed.
Print Assumptions oas_load_save_large_refuted_thm.

(* polygon vertices and path points are ACCUMULATED in floating point by oasis_read_point_list (v_i = v_(i-1) + factor
   * d_i, then + position): every vertex is within F V ((1+u)^(2(n+1)) - 1) of the exact grid point, V = |k0| + sum
   |d_i| (total variation), n = number of deltas *)
Theorem oas_points_close_thm : forall (f : binary64) k0 steps,
  fin64 f = true -> (bpow radix2 (-100) <= B2R64 f <= bpow radix2 100)%R ->
  Forall step_ok steps -> Z.abs k0 < 2 ^ 53 ->
  let S := IZR (Z.abs k0 + steps_var steps) in
  let n := length steps in
  (S <= bpow radix2 70)%R -> (INR (2 * (n + 1)) * u53 <= / 4)%R ->
  Forall2 (fun v K => fin64 v = true /\ (Rabs (B2R64 v - B2R64 f * IZR K) <= B2R64 f * S * G (2 * (n + 1)))%R /\ (Rabs (IZR K) <= S)%R)
          (oas_points f k0 steps) (int_points k0 steps).
Proof. exact oas_points_close_lemma. Qed.
Print Assumptions oas_points_close_thm.

(* and the second save writes the integers of the first file as long as V ((1+u)^(2(n+1)+4) - 1) <= 1/4 *)
Theorem oas_points_stable_thm : forall (real : binary64) k0 steps,
  fin64 real = true -> (bpow radix2 (-100) <= B2R64 real <= bpow radix2 100)%R ->
  Forall step_ok steps -> Z.abs k0 < 2 ^ 53 ->
  let S := IZR (Z.abs k0 + steps_var steps) in
  let n := length steps in
  (S <= bpow radix2 62)%R -> (INR (2 * (n + 1) + 4) * u53 <= / 4)%R ->
  (S * G (2 * (n + 1) + 4) <= / 4)%R ->
  oas_cycle_points (read_oas_units b64_zero b64_zero real) k0 steps = map Some (int_points k0 steps).
Proof. exact oas_points_stable_lemma. Qed.
Print Assumptions oas_points_stable_thm.

(* a sufficient condition in integers: (2 n + 6) V <= 2^50 *)
Theorem oas_points_stable_int_thm : forall (real : binary64) k0 steps,
  fin64 real = true -> (bpow radix2 (-100) <= B2R64 real <= bpow radix2 100)%R ->
  Forall step_ok steps -> Z.abs k0 < 2 ^ 53 ->
  2 * Z.of_nat (length steps) + 6 <= 2 ^ 50 ->
  (Z.abs k0 + steps_var steps) * (2 * Z.of_nat (length steps) + 6) <= 2 ^ 50 ->
  oas_cycle_points (read_oas_units b64_zero b64_zero real) k0 steps = map Some (int_points k0 steps).
Proof. exact oas_points_stable_int_lemma. Qed.
Print Assumptions oas_points_stable_int_thm.

(* distinct positions stay distinct after read_oas, |k| <= 2^51 *)
Theorem oas_load_monotone_thm : forall (real : binary64) z1 z2,
  fin64 real = true -> (bpow radix2 (-100) <= B2R64 real <= bpow radix2 100)%R ->
  - 2 ^ 51 <= z1 -> z1 < z2 -> z2 <= 2 ^ 51 ->
  let f := os_factor (read_oas_units b64_zero b64_zero real) in
  (B2R64 (oas_coord f z1) < B2R64 (oas_coord f z2))%R.
Proof. exact oas_load_monotone_lemma. Qed.
Print Assumptions oas_load_monotone_thm.

(* "repeated cycles change nothing more" fails for library.precision of an OASIS library (1e-6 * (1 / (1e-6 /
   precision)) is not the identity): precision 1.1e-8 moves in each of the first three cycles, and the factor (hence
   every loaded double) with it; the integers stay *)
Theorem oas_precision_drift_refuted_thm : exists P, fin64 P = true
    /\ let st1 := oas_reload P in let st2 := oas_reload (os_precision st1) in let st3 := oas_reload (os_precision st2) in
       os_precision st1 <> P /\ os_precision st2 <> os_precision st1 /\ os_precision st3 <> os_precision st2
       /\ os_factor st2 <> os_factor st1.
Proof. exact oas_precision_drift_refuted. Qed.
Print Assumptions oas_precision_drift_refuted_thm.

(* FlexPath::remove_overlapping_points on two points of equal y: removed only if the computed |x1 - x0| is below the
   tolerance *)
Theorem overlap_merged_short_thm : forall (tol x0 x1 y : binary64),
  fin64 tol = true -> fin64 x0 = true -> fin64 x1 = true -> fin64 y = true ->
  (0 < B2R64 tol <= bpow radix2 500)%R -> (Rabs (B2R64 x0) <= bpow radix2 500)%R -> (Rabs (B2R64 x1) <= bpow radix2 500)%R ->
  overlap_test tol x0 y x1 y = true ->
  (Rabs (B2R64 x1 - B2R64 x0) < B2R64 tol)%R.
Proof. exact overlap_merged_short_lemma. Qed.
Print Assumptions overlap_merged_short_thm.

(* a one-grid-step segment after a load is merged only if the floating-point step factor*(k+1) - factor*k is shorter
   than the tolerance, i.e. (tolerance = factor after a native load) only if the rounding error of the upper point is
   smaller than that of the lower point *)
Theorem step_merged_short_thm : forall (f tol : binary64) k ky,
  fin64 f = true -> fin64 tol = true ->
  (bpow radix2 (-312) <= B2R64 f <= bpow radix2 252)%R -> (0 < B2R64 tol <= bpow radix2 500)%R ->
  - 2 ^ 31 <= k < 2 ^ 31 - 1 -> - 2 ^ 31 <= ky <= 2 ^ 31 ->
  step_merged f tol k ky = true ->
  (B2R64 (gds_coord f (k + 1)) - B2R64 (gds_coord f k) < B2R64 tol)%R.
Proof. exact step_merged_short_lemma. Qed.
Print Assumptions step_merged_short_thm.

(* never when the factor is a power of two (why the dyadic grids of the other C01 / C02 harnesses never show it); for
   the decimal defaults see step_merged_default in GridRoundProofs.v: 9 -> 10, 1024 -> 1025, 2048 -> 2049 are merged =
   known finding FlexPath::remove_overlapping_points:grid-step-segment *)
Theorem step_not_merged_pow2_thm : forall (f : binary64) a k ky,
  fin64 f = true -> B2R64 f = bpow radix2 a -> -312 <= a <= 252 ->
  - 2 ^ 31 <= k < 2 ^ 31 - 1 -> - 2 ^ 31 <= ky <= 2 ^ 31 ->
  step_merged f f k ky = false.
Proof. exact step_not_merged_pow2_lemma. Qed.
Print Assumptions step_not_merged_pow2_thm.

