(* C18S (unit oas_sig; attached to C18, its writer agreement theorems cited by C02) - the OASIS validation signature:
   zlib's crc32, gdstk's checksum32, the signature bookkeeping of OasisStream, the signed END record of Library::write_oas
   and oas_validate.  Theorem-only file: every proof is `exact <lemma>`; Print Assumptions under each. *)
Require Import Base Generated OasisInt GdsReal OasisReal OasisPlist Table PropList OasisSpec OasisWrite OasisSig OasisSigProofs.
Local Open Scope N_scope.

(* ---- the two checksums *)
Theorem crc32_chunking_thm : forall c a b, crc32_update (crc32_update c a) b = crc32_update c (a ++ b).
Proof. exact crc32_chunking_lemma. Qed.
Print Assumptions crc32_chunking_thm.

Theorem checksum32_chunking_thm : forall c a b,
  checksum32_update (checksum32_update c a) b = checksum32_update c (a ++ b).
Proof. exact checksum32_chunking_lemma. Qed.
Print Assumptions checksum32_chunking_thm.

(* the table-driven CRC (256 entries computed by make_crc_table's loop) is the bit-at-a-time shift register *)
Theorem crc32_table_is_bitwise_thm : forall c buf, bytes_ok buf -> crc32_update c buf = crc32_bitwise c buf.
Proof. exact crc32_table_is_bitwise_lemma. Qed.
Print Assumptions crc32_table_is_bitwise_thm.

Theorem checksum32_closed_form_thm : forall c buf, c < two32 -> checksum32_update c buf = checksum32_spec c buf.
Proof. exact checksum32_closed_form_lemma. Qed.
Print Assumptions checksum32_closed_form_thm.

(* ---- the writer *)
(* after ANY sequence of oasis_write / oasis_putc calls out.signature is the signature of the whole output *)
Theorem os_signature_invariant_thm : forall crc sum ops,
  fold_left os_apply ops (os_open crc sum) = os_of_bytes crc sum (concat (map op_bytes ops)).
Proof. exact os_signature_invariant_lemma. Qed.
Print Assumptions os_signature_invariant_thm.

(* the END code of write_oas (pad_len arithmetic on uint64_t, padding loop, scheme byte, fwrite of the signature) in closed form *)
Theorem write_end_signed_thm : forall crc sum pre cn ts pn ps,
  N.of_nat (length pre) + 512 < two64 ->
  write_end (os_of_bytes crc sum pre) cn ts pn ps =
  Ok (signed_file (scheme_of crc sum) (pre ++ end_body (crc || sum) cn ts pn ps)).
Proof. exact write_end_signed_lemma. Qed.
Print Assumptions write_end_signed_thm.

(* ---- the validator *)
(* oas_validate with its 32 KiB loop, buffer and file position = the loop-free specification, for EVERY byte list and
   whatever the uninitialised stack buffer holds *)
Theorem oas_validate_is_spec_thm : forall stack bs, oas_validate_gen stack bs = Ok (validate_spec bs).
Proof. exact oas_validate_is_spec_lemma. Qed.
Print Assumptions oas_validate_is_spec_thm.

Theorem oas_validate_total_thm : forall stack bs,
  oas_validate_gen stack bs = oas_validate_model bs /\ oas_validate_model bs <> Crash /\ oas_validate_model bs <> Hang.
Proof. exact oas_validate_total_lemma. Qed.
Print Assumptions oas_validate_total_thm.

(* every path, by the shape of the file *)
Theorem validate_paths_thm : forall bs,
  (has_magic bs = false /\ validate_spec bs = invalid_file) \/
  (has_magic bs = true /\ (14 <= length bs)%nat /\
   let b := nth (length bs - 5) bs 0 in
   ((b <> 1 /\ b <> 2 /\ validate_spec bs = no_checksum) \/
    ((b = 1 \/ b = 2) /\
     let s := sig_of b (firstn (length bs - 4) bs) in
     validate_spec bs = mkV (s =? of_le32 (skipn (length bs - 4) bs)) (Some s) None))).
Proof. exact validate_paths_lemma. Qed.
Print Assumptions validate_paths_thm.

Theorem validate_short_thm : forall bs, (length bs < 14)%nat -> oas_validate_model bs = Ok invalid_file.
Proof. exact validate_short_lemma. Qed.
Print Assumptions validate_short_thm.

(* ---- writer / validator agreement *)
Theorem writer_validator_agreement_thm : forall scheme body,
  scheme = 1 \/ scheme = 2 -> has_magic body = true ->
  let s := sig_of scheme (body ++ [scheme]) in
  oas_validate_model (signed_file scheme body) = Ok (mkV true (Some s) None) /\
  skipn (length body + 1) (signed_file scheme body) = le32 s /\
  of_le32 (le32 s) = s.
Proof. exact writer_validator_agreement_lemma. Qed.
Print Assumptions writer_validator_agreement_thm.

Theorem write_end_validates_thm : forall crc sum pre cn ts pn ps f,
  crc || sum = true -> has_magic pre = true -> N.of_nat (length pre) + 512 < two64 ->
  write_end (os_of_bytes crc sum pre) cn ts pn ps = Ok f ->
  exists s, oas_validate_model f = Ok (mkV true (Some s) None) /\ skipn (length f - 4) f = le32 s.
Proof. exact write_end_validates_lemma. Qed.
Print Assumptions write_end_validates_thm.

(* scheme 0: true, *signature = 0, *error_code = ChecksumError *)
Theorem unsigned_file_thm : forall pre cn ts pn ps,
  has_magic pre = true ->
  oas_validate_model (pre ++ end_record_w cn ts pn ps) = Ok no_checksum.
Proof. exact unsigned_file_lemma. Qed.
Print Assumptions unsigned_file_thm.

(* ---- truncation *)
Theorem truncation_collision_thm : forall f k r, (k <= length f)%nat ->
  oas_validate_model (firstn k f) = Ok r ->
  (reports_match r = true <->
   has_magic (firstn k f) = true /\
   let b := nth (k - 5) f 0 in
   (b = 1 \/ b = 2) /\ of_le32 (firstn 4 (skipn (k - 4) f)) = sig_of b (firstn (k - 4) f)).
Proof. exact truncation_collision_lemma. Qed.
Print Assumptions truncation_collision_thm.

Theorem truncation_in_end_padding_thm : forall scheme pre cn ts pn ps k,
  scheme = 1 \/ scheme = 2 -> has_magic pre = true ->
  let f := signed_file scheme (pre ++ end_body true cn ts pn ps) in
  (length f - 200 <= k)%nat -> (k < length f)%nat ->
  oas_validate_model (firstn k f) = Ok no_checksum.
Proof. exact truncation_in_end_padding_lemma. Qed.
Print Assumptions truncation_in_end_padding_thm.

(* "a truncated signed file never reports a matching signature" is false as written *)
Theorem truncation_refuted_crc_thm : exists body k s,
  has_magic body = true /\ (k < length (signed_file 1 body))%nat /\
  oas_validate_model (firstn k (signed_file 1 body)) = Ok (mkV true (Some s) None).
Proof. exact truncation_refuted_crc_lemma. Qed.
Print Assumptions truncation_refuted_crc_thm.

Theorem truncation_refuted_sum_thm : exists body k s,
  has_magic body = true /\ (k < length (signed_file 2 body))%nat /\
  oas_validate_model (firstn k (signed_file 2 body)) = Ok (mkV true (Some s) None).
Proof. exact truncation_refuted_sum_lemma. Qed.
Print Assumptions truncation_refuted_sum_thm.

Theorem truncation_refuted_writer_thm :
  (exists l k f s, write_oas_sig_model (mkWCfg false) true false l = Ok f /\ (k < length f)%nat /\
                   oas_validate_model (firstn k f) = Ok (mkV true (Some s) None)) /\
  (exists l k f s, write_oas_sig_model (mkWCfg false) false true l = Ok f /\ (k < length f)%nat /\
                   oas_validate_model (firstn k f) = Ok (mkV true (Some s) None)).
Proof. exact truncation_refuted_writer_lemma. Qed.
Print Assumptions truncation_refuted_writer_thm.

(* ---- Library::write_oas with a signature request, on top of OasisWrite.v *)
Theorem write_oas_sig_unsigned_thm : forall cfg l, file_fits cfg l ->
  write_oas_sig_model cfg false false l = Ok (write_oas_model cfg l).
Proof. exact write_oas_sig_unsigned_lemma. Qed.
Print Assumptions write_oas_sig_unsigned_thm.

(* C02: a requested signature matches the file bytes *)
Theorem write_oas_signature_matches_thm : forall cfg crc sum l f,
  crc || sum = true -> file_fits cfg l -> run_failed (write_oas_run cfg l) = false ->
  write_oas_sig_model cfg crc sum l = Ok f ->
  exists s, oas_validate_model f = Ok (mkV true (Some s) None) /\ skipn (length f - 4) f = le32 s /\
            s = sig_of (scheme_of crc sum) (firstn (length f - 4) f).
Proof. exact write_oas_signature_matches_lemma. Qed.
Print Assumptions write_oas_signature_matches_thm.
