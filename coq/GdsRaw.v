(* Statement-level model of read_rawcells (src/rawcell.cpp): the fifth GDSII reader.  It keeps, for every
   structure, the byte range of its records (offset of the BGNSTR record, accumulated size), its name and the
   names of the structures it references; at ENDLIB the dependency names are resolved against the name table
   (unknown names: MissingReference; duplicates dropped by swap-with-last, as Array::remove_unordered does).  Same loop shape as the other readers
   (GdsFrame.reader).  Definitions only. *)
Require Import Base GdsFrame GdsModel.
Local Open Scope N_scope.

Record rawc := { rc_name : bytes; rc_off : N; rc_size : N; rc_deps : list bytes (* SNAME strings, in file order *) }.

(* cells newest first; the newest one is the C++ `rawcell` pointer while w_open holds;
   the name table maps a name to the creation index (0 = oldest) of the cell registered last under it *)
Record rawst := { w_cells : list rawc; w_open : bool; w_map : list (bytes * nat); w_pos : N }.

Definition raw_init : rawst := {| w_cells := []; w_open := false; w_map := []; w_pos := 0 |}.

Fixpoint bytes_eqb (a b : bytes) : bool :=
  match a, b with
  | [], [] => true
  | x :: a', y :: b' => (x =? y) && bytes_eqb a' b'
  | _, _ => false
  end.

Fixpoint map_set (m : list (bytes * nat)) (k : bytes) (v : nat) : list (bytes * nat) :=
  match m with
  | [] => [(k, v)]
  | (k', v') :: tl => if bytes_eqb k' k then (k', v) :: tl else (k', v') :: map_set tl k v
  end.
Fixpoint map_get (m : list (bytes * nat)) (k : bytes) : option nat :=
  match m with
  | [] => None
  | (k', v') :: tl => if bytes_eqb k' k then Some v' else map_get tl k
  end.

Definition upd_head (st : rawst) (f : rawc -> rawc) (pos : N) : rawst :=
  match w_cells st with
  | c :: tl => {| w_cells := f c :: tl; w_open := w_open st; w_map := w_map st; w_pos := pos |}
  | [] => {| w_cells := []; w_open := w_open st; w_map := w_map st; w_pos := pos |}
  end.
Definition grow (n : N) (c : rawc) : rawc :=
  {| rc_name := rc_name c; rc_off := rc_off c; rc_size := rc_size c + n; rc_deps := rc_deps c |}.

(* result: per name-table entry (key, cell, resolved dependency indices), and the MissingReference flag *)
Definition nth_cell (cells : list rawc) (id : nat) : option rawc := nth_error (rev cells) id.

(* ENDLIB resolves the dependency array IN PLACE: items [0, i) are resolved cells (acc), items [i, count) still names (todo);
   a name whose cell is already among the resolved ones, or is unknown, is removed with Array::remove_unordered(i), which
   moves the LAST item into slot i - so the order of what remains is not the file order when a name repeats
   (SNAMEs A A B C give [A; C; B]).  Each step shortens todo by one: the fuel is its length. *)
Definition swap_last (tl : list bytes) : list bytes :=
  match tl with [] => [] | x :: _ => last tl x :: removelast tl end.
Fixpoint resolve_loop (fuel : nat) (m : list (bytes * nat)) (todo : list bytes) (acc : list nat) (missing : bool) : list nat * bool :=
  match fuel with
  | O => (acc, missing)
  | S f =>
      match todo with
      | [] => (acc, missing)
      | d :: tl =>
          match map_get m d with
          | Some id => if existsb (Nat.eqb id) acc then resolve_loop f m (swap_last tl) acc missing
                       else resolve_loop f m tl (acc ++ [id]) missing
          | None => resolve_loop f m (swap_last tl) acc true
          end
      end
  end.
Definition resolve (m : list (bytes * nat)) (deps : list bytes) (acc : list nat) (missing : bool) : list nat * bool :=
  resolve_loop (length deps) m deps acc missing.
(* the same set, in file order (what a stable removal would give): kept for comparison *)
Fixpoint resolve_ordered (m : list (bytes * nat)) (deps : list bytes) (acc : list nat) (missing : bool) : list nat * bool :=
  match deps with
  | [] => (acc, missing)
  | d :: tl =>
      match map_get m d with
      | Some id => if existsb (Nat.eqb id) acc then resolve_ordered m tl acc missing else resolve_ordered m tl (acc ++ [id]) missing
      | None => resolve_ordered m tl acc true
      end
  end.

Record rawentry := { e_key : bytes; e_cell : rawc; e_deps : list nat }.
Definition rawres : Type := (list rawentry * list rawc * bool)%type.   (* entries, all cells oldest first, missing *)

Definition raw_finish (st : rawst) : rawres :=
  let cells := rev (w_cells st) in
  let go := fix go (m : list (bytes * nat)) (miss : bool) : list rawentry * bool :=
    match m with
    | [] => ([], miss)
    | (k, id) :: tl =>
        match nth_error cells id with
        | Some c =>
            let '(ds, miss1) := resolve (w_map st) (rc_deps c) [] miss in
            let '(es, miss2) := go tl miss1 in
            ({| e_key := k; e_cell := c; e_deps := ds |} :: es, miss2)
        | None => go tl miss
        end
    end in
  let '(es, miss) := go (w_map st) false in
  (es, cells, miss).

Definition step_raw (st : rawst) (r : grecord) : rawst + rawres :=
  let len := rec_len r in
  let pos' := w_pos st + len in
  match rtype r with
  | 4 => inr (raw_finish st)
  | 5 => inl {| w_cells := {| rc_name := []; rc_off := w_pos st; rc_size := len; rc_deps := [] |} :: w_cells st;
                w_open := true; w_map := w_map st; w_pos := pos' |}
  | 6 => if w_open st then
           let nm := strip_nul (payload r) in
           let st1 := upd_head st (fun c => {| rc_name := nm; rc_off := rc_off c; rc_size := rc_size c + len; rc_deps := rc_deps c |}) pos' in
           inl {| w_cells := w_cells st1; w_open := true; w_map := map_set (w_map st) nm (length (w_cells st) - 1); w_pos := pos' |}
         else inl (upd_head st (fun c => c) pos')
  | 7 => if w_open st then
           let st1 := upd_head st (grow len) pos' in
           inl {| w_cells := w_cells st1; w_open := false; w_map := w_map st; w_pos := pos' |}
         else inl (upd_head st (fun c => c) pos')
  | 18 => if w_open st then
            inl (upd_head st (fun c => {| rc_name := rc_name c; rc_off := rc_off c; rc_size := rc_size c + len;
                                          rc_deps := rc_deps c ++ [strip_nul (payload r)] |}) pos')
          else inl (upd_head st (fun c => c) pos')
  | _ => if w_open st then inl (upd_head st (grow len) pos') else inl (upd_head st (fun c => c) pos')
  end.

Definition read_rawcells_model (bs : bytes) : outcome rawres :=
  match reader rawst rawres step_raw raw_init bs with
  | Ok (res, _) => Ok res
  | ErrEof => ErrEof | ErrInvalid => ErrInvalid | ErrOverflow => ErrOverflow | Crash => Crash | Hang => Hang
  end.

(* the bytes a raw cell stands for: RawCell::to_gds copies [offset, offset + size) of the source file *)
Definition raw_slice (bs : bytes) (c : rawc) : bytes := firstn (N.to_nat (rc_size c)) (skipn (N.to_nat (rc_off c)) bs).
