(* C18P (to be merged into C18) - the light-weight OASIS query oas_precision on truncated files.
   Theorem-only file: every proof is `exact <lemma>`; Print Assumptions under each. *)
Require Import Base OasisInt OasisSpec OasisRead OasisPrecision OasisPrecisionProofs.
Local Open Scope N_scope.

(* a truncated file gives an error code or exactly the value of the complete file (all streams below 2^33 bytes, all cuts) *)
Theorem oas_precision_prefix : forall bs v n,
  oas_precision_model bs = Ok v -> N.of_nat (length bs) < lim33 ->
  is_error (oas_precision_model (firstn n bs)) \/ oas_precision_model (firstn n bs) = Ok v.
Proof. exact oas_precision_prefix_lemma. Qed.
Print Assumptions oas_precision_prefix.

(* sharp form: errors below a threshold (the end of the unit real of the START record), the value from there on *)
Theorem oas_precision_threshold : forall bs v,
  oas_precision_model bs = Ok v -> N.of_nat (length bs) < lim33 ->
  exists k, (k <= length bs)%nat /\
    (forall n, (n < k)%nat -> is_error (oas_precision_model (firstn n bs))) /\
    (forall n, (k <= n)%nat -> oas_precision_model (firstn n bs) = Ok v).
Proof. exact oas_precision_threshold_lemma. Qed.
Print Assumptions oas_precision_threshold.

(* the same for any function of the unit in place of 1e-6 / unit: no floating-point fact is used *)
Theorem oas_precision_threshold_generic : forall (A : Type) (f : real -> A) bs v,
  oas_precision_gen f bs = Ok v -> N.of_nat (length bs) < lim33 ->
  exists k, (k <= length bs)%nat /\
    (forall n, (n < k)%nat -> is_error (oas_precision_gen f (firstn n bs))) /\
    (forall n, (k <= n)%nat -> oas_precision_gen f (firstn n bs) = Ok v).
Proof. exact @oas_precision_gen_threshold. Qed.
Print Assumptions oas_precision_threshold_generic.

(* every cut of an accepted file returns normally *)
Theorem oas_precision_prefix_total : forall bs v n,
  oas_precision_model bs = Ok v -> N.of_nat (length bs) < lim33 ->
  oas_precision_model (firstn n bs) <> Crash /\ oas_precision_model (firstn n bs) <> Hang.
Proof. exact oas_precision_prefix_total_lemma. Qed.
Print Assumptions oas_precision_prefix_total.

(* "returns normally on any input" is false ... *)
Theorem oas_precision_total_refuted : exists bs, oas_precision_model bs = Crash.
Proof. exact oas_precision_total_refuted_lemma. Qed.
Print Assumptions oas_precision_total_refuted.

(* ... and true when the declared length of the version string can be allocated *)
Theorem oas_precision_total_partial : forall bs,
  declared_version_length bs < lim33 -> oas_precision_model bs <> Crash /\ oas_precision_model bs <> Hang.
Proof. exact oas_precision_total_partial_lemma. Qed.
Print Assumptions oas_precision_total_partial.
