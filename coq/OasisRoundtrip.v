(* The writer model's output lies in the class of streams on which the reader model is proved to agree with the strict
   decoder (the guards c1-c8 of OasisRead.v), hence the model-level save/load round trip holds without side condition
   on the stream:
     writer_output_covered_lemma     : wlib_ok l -> wlib_small l -> covered (write_oas_model cfg l)
     oas_models_roundtrip_full_lemma : wlib_ok l -> wlib_small l ->
                                       read_oas_model (write_oas_model cfg l) = Ok (view (view_w cfg l)).
   The proof walks the records the writer emits with cov_record (the strict decoder plus the guards) exactly as
   OasisWriteProofs.v walks them with dec_record; the lemmas below are the counterparts of the ones there. *)
Require Import Base Generated OasisInt OasisIntProofs GdsReal OasisReal OasisRealProofs OasisPlist OasisPlistProofs.
Require Import Table TableProofs PropList OasisSpec OasisSpecProofs OasisRead OasisWrite OasisWriteProofs.
Require OasisReadProofs.
From Coq Require Import Permutation.
From Flocq Require Import Core BinarySingleNaN Binary Bits.
Local Open Scope N_scope.

(* ================================================================== the guarded field readers on what the writer emits *)
Definition u32 (v : N) : Prop := v < 4294967296.

Lemma rd_u32_enc v rest : u32 v -> rd_u32 (enc_uint v ++ rest) = Some (v, rest).
Proof.
  intros H. unfold rd_u32. rewrite rd_uint_enc by (unfold wf_u, u32 in *; rewrite two64_val; lia). cbn [obnd].
  replace (v <? 4294967296) with true by (symmetry; apply N.ltb_lt; exact H). reflexivity.
Qed.

Lemma rd_byte_small b t : rd_byte (b :: t) = Some (b, t). Proof. reflexivity. Qed.

Lemma wr_real_head x : exists c t, wr_real x = c :: t /\ c < 128.
Proof. destruct x as [[|] ?|[|] ?|[|] ? ?|?|?]; cbn [wr_real]; eexists; eexists; (split; [reflexivity|lia]). Qed.

Lemma cov_real_enc_real bits rest : cov_real (enc_real bits ++ rest) = Some (real_of_bits bits, rest).
Proof.
  unfold cov_real. pose proof (rd_real_enc_real bits rest) as H. rewrite enc_real_view in *.
  destruct (wr_real_head (real_of_bits bits)) as (c & t & E & Hc). rewrite E in *. cbn [app small1].
  replace (c <? 128) with true by (symmetry; apply N.ltb_lt; exact Hc). exact H.
Qed.

Lemma wr_rep_head s : exists c t, wr_rep s = c :: t /\ 0 < c /\ c < 128.
Proof.
  destruct s as [? ? ? ?|? ?|? ?|[g|] ?|[g|] ?|? ? ? ?|? ?|[g|] ?]; cbn [wr_rep]; eexists; eexists;
    (split; [reflexivity|lia]).
Qed.

Definition lim31_val : lim31 = 2147483648 := eq_refl.

(* repetitions: dimensions and list lengths below 2^31 *)
Definition wrep_small (r : wrep) : Prop :=
  match r with
  | WNone => True
  | WRect c rw _ _ | WReg c rw _ _ => c < lim31 /\ rw < lim31
  | WExpl l => N.of_nat (length l) < lim31
  | WExplX l | WExplY l => N.of_nat (length l) < lim31
  end.

Lemma view_rep_small r : wrep_small r -> rep_small (view_rep_body r) = true.
Proof.
  intros H. destruct r as [|c rw sx sy|c rw v1 v2|offs|cs|cs]; cbn [wrep_small view_rep_body] in *.
  - reflexivity.
  - destruct H as [H1 H2].
    destruct ((1 <? c) && (1 <? rw)); [destruct ((0 <=? sx)%Z && (0 <=? sy)%Z)|destruct (1 <? c); [destruct (0 <=? sx)%Z|destruct (0 <=? sy)%Z]];
      cbn [rep_small]; rewrite ?andb_true_iff, ?N.ltb_lt; try split; lia.
  - destruct H as [H1 H2].
    destruct ((1 <? c) && (1 <? rw)); [|destruct (1 <? c)]; cbn [rep_small]; rewrite ?andb_true_iff, ?N.ltb_lt; try split; lia.
  - cbn [rep_small]. rewrite ptdiffs_length. apply N.ltb_lt. exact H.
  - cbn [rep_small]. rewrite map_length, zdiffs_length, sort_z_length. apply N.ltb_lt. exact H.
  - cbn [rep_small]. rewrite map_length, zdiffs_length, sort_z_length. apply N.ltb_lt. exact H.
Qed.

Lemma cov_rep_field r mr rest : wrep_ok r -> wrep_small r ->
  cov_rep_fld (has_rep r) mr (rep_field r ++ rest) = Some (view_rep r, new_rep mr (view_rep r), rest).
Proof.
  intros Hok Hs. pose proof (rep_field_dec r mr rest Hok) as H. unfold rep_field, view_rep, rep_fld, cov_rep_fld in *.
  destruct (has_rep r) eqn:Hh; [|reflexivity].
  destruct (write_repetition_view r Hok Hh) as [E W]. rewrite E in *.
  destruct (wr_rep_head (view_rep_body r)) as (c & t & Ec & Hc0 & Hc). rewrite Ec in *. cbn [app] in *.
  unfold cov_rep. cbn [small1]. replace (c <? 128) with true by (symmetry; apply N.ltb_lt; exact Hc).
  destruct (rd_rep mr (c :: t ++ rest)) as [[r0 bs1]|]; cbn [obnd] in *; [|discriminate].
  injection H as H1 H2 H3. assert (r0 = view_rep_body r) by congruence. subst r0 bs1.
  destruct c as [|p]; [lia|]. rewrite (view_rep_small r Hs). reflexivity.
Qed.

(* point lists *)
Lemma enc_point_list_head closed p0 t : exists c tl, enc_point_list closed (p0 :: t) = c :: tl /\ c < 128.
Proof.
  unfold enc_point_list. destruct (sel_type closed p0 t) as [ty cnt].
  destruct ty as [|[[p|p|]|[p|p|]|]]; eexists; eexists; (split; [reflexivity|lia]).
Qed.

Lemma rel_pts_length p0 t : length (rel_pts (p0 :: t)) = length t.
Proof. unfold rel_pts. cbn [tl]. apply map_length. Qed.

Lemma cov_plist_enc closed p0 t rest :
  Forall fits_pt (deltas_from p0 t) -> N.of_nat (length t) < lim31 ->
  cov_plist closed (enc_point_list closed (p0 :: t) ++ rest) = Some (rel_pts (p0 :: t), rest).
Proof.
  intros Hfit Hlen. unfold cov_plist.
  pose proof (rd_plist_enc_point_list closed p0 t rest Hfit ltac:(rewrite lim31_val in Hlen; rewrite two64_val; lia)) as H.
  destruct (enc_point_list_head closed p0 t) as (c & tl0 & E & Hc). rewrite E in *. cbn [app small1].
  replace (c <? 128) with true by (symmetry; apply N.ltb_lt; exact Hc). cbn [app] in H. rewrite H. cbn [obnd].
  rewrite rel_pts_length.
  match goal with |- context [?a <? lim31] => destruct (a <? lim31) eqn:E2 end; [reflexivity|].
  apply N.ltb_ge in E2. unfold pt in *. lia.
Qed.

(* ================================================================== PROPERTY records *)
Lemma enc_pval_g_head v : wf_pval v -> exists c t, enc_pval_g v = c :: t /\ c < 128.
Proof.
  intros H. destruct v as [r|n|z|k s|k n]; cbn [enc_pval_g wf_pval] in *.
  - apply wr_real_head.
  - eexists; eexists; split; [reflexivity|lia].
  - eexists; eexists; split; [reflexivity|lia].
  - contradiction.
  - eexists; eexists; split; [reflexivity|]. destruct H as [[-> |[-> | ->]] _]; lia.
Qed.
Lemma cov_pval_enc v rest : wf_pval v -> cov_pval (enc_pval_g v ++ rest) = Some (v, rest).
Proof.
  intros H. unfold cov_pval. pose proof (rd_pval_enc v rest H) as E.
  destruct (enc_pval_g_head v H) as (c & t & Ec & Hc). rewrite Ec in *. cbn [app small1].
  replace (c <? 128) with true by (symmetry; apply N.ltb_lt; exact Hc). exact E.
Qed.

Lemma cov_property_enc m p rest : wf_nprop p ->
  match enc_prop_g p with
  | code :: body => code = 28 /\ cov_property 28 m (body ++ rest) = Some (p, pmodal m p, rest)
  | [] => False
  end.
Proof.
  intros ((i & Hn & Hi) & Hc & Hv). unfold enc_prop_g. split; [reflexivity|].
  destruct p as [nm std vals]. cbn [p_name p_std p_vals] in *. subst nm. cbn [wr_nref].
  set (c := N.of_nat (length vals)) in *.
  unfold cov_property. change (28 =? 29) with false. cbv iota.
  assert (Hvals : forall k, rd_count cov_pval c (flat_map enc_pval_g vals ++ k) = Some (vals, k)).
  { intros k. apply rd_count_flat_map; [reflexivity| |].
    - intros a r Ha. apply cov_pval_enc. rewrite Forall_forall in Hv. apply Hv. exact Ha.
    - intros a _. apply enc_pval_g_nonempty. }
  destruct (14 <? c) eqn:E14.
  - apply N.ltb_lt in E14.
    destruct (info_prop_bits std 15 (or_intror eq_refl)) as (B0 & B1 & B2 & B3 & B4).
    cbv zeta in B0, B1, B2, B3, B4. change (16 * 15) with 240 in *.
    cbn [app rd_byte obnd]. rewrite B0, B1, B2, B3, B4. cbn [rd_nref].
    rewrite <- !app_assoc. rewrite rd_uint_enc by exact Hi. cbn [obnd fst snd].
    change (0 <? 15) with true. change (15 =? 15) with true. cbv iota.
    rewrite rd_uint_enc by exact Hc. cbn [obnd]. rewrite Hvals. reflexivity.
  - apply N.ltb_ge in E14.
    destruct (info_prop_bits std c (or_introl E14)) as (B0 & B1 & B2 & B3 & B4).
    cbv zeta in B0, B1, B2, B3, B4.
    cbn [app rd_byte obnd]. rewrite B0, B1, B2, B3, B4. cbn [rd_nref].
    rewrite <- !app_assoc. rewrite rd_uint_enc by exact Hi. cbn [obnd fst snd app].
    replace (c =? 15) with false by (symmetry; apply N.eqb_neq; lia). cbv iota. cbn [obnd].
    rewrite Hvals. reflexivity.
Qed.

(* ================================================================== runs of records under the guarded decoder *)
Inductive csteps (ois : bool) : modal -> core -> list (list N) -> modal -> core -> Prop :=
| csteps_nil m k : csteps ois m k [] m k
| csteps_cons m k r m1 k1 rs m2 k2 :
    r <> [] ->
    (forall rest, cov_record ois (DS m k) (r ++ rest) = Some (Cont (DS m1 k1) rest)) ->
    csteps ois m1 k1 rs m2 k2 ->
    csteps ois m k (r :: rs) m2 k2.

Lemma csteps_app ois m k r1 m1 k1 r2 m2 k2 :
  csteps ois m k r1 m1 k1 -> csteps ois m1 k1 r2 m2 k2 -> csteps ois m k (r1 ++ r2) m2 k2.
Proof. induction 1; intros H2; [exact H2|]. cbn [app]. econstructor; eauto. Qed.
Lemma csteps_one ois m k r m1 k1 :
  r <> [] -> (forall rest, cov_record ois (DS m k) (r ++ rest) = Some (Cont (DS m1 k1) rest)) ->
  csteps ois m k [r] m1 k1.
Proof. intros H1 H2. econstructor; [exact H1|exact H2|constructor]. Qed.
Lemma cov_loop_step f ois d bs d' bs' :
  cov_record ois d bs = Some (Cont d' bs') -> cov_loop (S f) ois d bs = cov_loop f ois d' bs'.
Proof. intros H. cbn [cov_loop]. rewrite H. reflexivity. Qed.
Lemma csteps_loop ois m k rs m' k' : csteps ois m k rs m' k' -> forall f rest,
  cov_loop (length rs + f) ois (DS m k) (concat rs ++ rest) = cov_loop f ois (DS m' k') rest.
Proof.
  induction 1 as [|m k r m1 k1 rs m2 k2 Hne Hr Hs IH]; intros f rest; [reflexivity|].
  cbn [length concat Nat.add]. rewrite <- app_assoc. rewrite (cov_loop_step _ ois _ _ _ _ (Hr _)). apply IH.
Qed.
Lemma csteps_nonempty ois m k rs m' k' : csteps ois m k rs m' k' -> Forall (fun r => r <> []) rs.
Proof. induction 1; constructor; assumption. Qed.
Lemma cov_loop_mono n : forall ois d bs L n', cov_loop n ois d bs = Some L -> (n <= n')%nat -> cov_loop n' ois d bs = Some L.
Proof.
  induction n as [|n IH]; intros ois d bs L n' H Hle; [discriminate|].
  destruct n' as [|n']; [lia|]. cbn [cov_loop] in *.
  destruct (cov_record ois d bs) as [[l|d' bs']|]; try assumption.
  apply (IH _ _ _ _ n' H). lia.
Qed.

(* ---- a PROPERTY record under each of the three targets the writer uses: none of them is T_other (c6) *)
Lemma cstep_prop_lib ois m k p : wf_nprop p -> k_target k = T_lib ->
  csteps ois m k [enc_prop_g p] (pmodal m p) (k_set_lprops k (p :: k_lprops k)).
Proof.
  intros Hp Ht. pose proof (cov_property_enc m p) as H. destruct (enc_prop_g p) as [|code body] eqn:E; [destruct (H [] Hp)|].
  apply csteps_one; [discriminate|]. intros rest. destruct (H rest Hp) as [-> Hd].
  unfold cov_record. cbn [app rd_byte obnd]. cbn [DS d_modal]. rewrite Hd. cbn [obnd].
  unfold cov_add_prop, add_prop. cbn [DS d_target]. rewrite Ht. destruct k. cbn in *. subst. reflexivity.
Qed.
Lemma cstep_prop_elem ois m k p c c' cs : wf_nprop p -> k_target k = T_elem -> k_cells k = c :: cs ->
  push_eprop c p = Some c' ->
  csteps ois m k [enc_prop_g p] (pmodal m p) (k_set_cells k (c' :: cs) T_elem).
Proof.
  intros Hp Ht Hc Hpush. pose proof (cov_property_enc m p) as H.
  destruct (enc_prop_g p) as [|code body] eqn:E; [destruct (H [] Hp)|].
  apply csteps_one; [discriminate|]. intros rest. destruct (H rest Hp) as [-> Hd].
  unfold cov_record. cbn [app rd_byte obnd]. cbn [DS d_modal]. rewrite Hd. cbn [obnd].
  unfold cov_add_prop, add_prop. cbn [DS d_target d_cells]. rewrite Ht, Hc. unfold push_eprop in Hpush.
  destruct (c_elems c) as [|[e ps] es]; [discriminate|]. injection Hpush as <-.
  destruct k. cbn in *. subst. reflexivity.
Qed.
Lemma cstep_prop_cellname ois m k p n : wf_nprop p -> k_target k = T_cellname n ->
  csteps ois m k [enc_prop_g p] (pmodal m p) (k_set_cnp k ((n, p) :: k_cnp k)).
Proof.
  intros Hp Ht. pose proof (cov_property_enc m p) as H. destruct (enc_prop_g p) as [|code body] eqn:E; [destruct (H [] Hp)|].
  apply csteps_one; [discriminate|]. intros rest. destruct (H rest Hp) as [-> Hd].
  unfold cov_record. cbn [app rd_byte obnd]. cbn [DS d_modal]. rewrite Hd. cbn [obnd].
  unfold cov_add_prop, add_prop. cbn [DS d_target]. rewrite Ht. destruct k. cbn in *. subst. reflexivity.
Qed.

(* ---- lists of PROPERTY records (as in OasisWriteProofs.v) *)
Lemma csteps_props_lib ois ps : forall m k, Forall wf_nprop ps -> k_target k = T_lib -> m_abs m = true ->
  exists m', csteps ois m k (map enc_prop_g ps) m' (k_set_lprops k (rev ps ++ k_lprops k)) /\ m_abs m' = true.
Proof.
  induction ps as [|p t IH]; intros m k Hf Ht Ha.
  - exists m. split; [|exact Ha]. destruct k; constructor.
  - inversion Hf as [|? ? Hp Hr]; subst.
    destruct (IH (pmodal m p) (k_set_lprops k (p :: k_lprops k)) Hr Ht Ha) as (m' & Hs & Ha').
    exists m'. split; [|exact Ha']. cbn [map]. change (enc_prop_g p :: map enc_prop_g t) with ([enc_prop_g p] ++ map enc_prop_g t).
    eapply csteps_app; [apply (cstep_prop_lib ois m k p Hp Ht)|].
    cbn [rev]. rewrite <- app_assoc. cbn [app]. destruct k; exact Hs.
Qed.
Lemma csteps_props_cellname ois n ps : forall m k, Forall wf_nprop ps -> k_target k = T_cellname n -> m_abs m = true ->
  exists m', csteps ois m k (map enc_prop_g ps) m' (k_set_cnp k (rev (map (fun p => (n, p)) ps) ++ k_cnp k)) /\ m_abs m' = true.
Proof.
  induction ps as [|p t IH]; intros m k Hf Ht Ha.
  - exists m. split; [|exact Ha]. destruct k; constructor.
  - inversion Hf as [|? ? Hp Hr]; subst.
    destruct (IH (pmodal m p) (k_set_cnp k ((n, p) :: k_cnp k)) Hr Ht Ha) as (m' & Hs & Ha').
    exists m'. split; [|exact Ha']. cbn [map]. change (enc_prop_g p :: map enc_prop_g t) with ([enc_prop_g p] ++ map enc_prop_g t).
    eapply csteps_app; [apply (cstep_prop_cellname ois m k p n Hp Ht)|].
    cbn [rev]. rewrite <- app_assoc. cbn [app]. destruct k; exact Hs.
Qed.
Lemma csteps_props_elem ois ps : forall m k c cs, Forall wf_nprop ps -> k_target k = T_elem -> k_cells k = c :: cs ->
  c_elems c <> [] -> m_abs m = true ->
  exists m', csteps ois m k (map enc_prop_g ps) m' (k_set_cells k (add_eprops c ps :: cs) T_elem) /\ m_abs m' = true.
Proof.
  induction ps as [|p t IH]; intros m k c cs Hf Ht Hc Hne Ha.
  - exists m. split; [|exact Ha]. unfold add_eprops. destruct (c_elems c) as [|[e ps0] es] eqn:E; [congruence|].
    cbn [rev app map]. replace (mkCell (c_name c) (c_props c) ((e, ps0) :: es)) with c by (destruct c; cbn in *; subst; reflexivity).
    destruct k; cbn in *; subst; constructor.
  - inversion Hf as [|? ? Hp Hr]; subst.
    destruct (c_elems c) as [|[e ps0] es] eqn:E; [congruence|].
    set (c1 := mkCell (c_name c) (c_props c) ((e, p :: ps0) :: es)).
    destruct (IH (pmodal m p) (k_set_cells k (c1 :: cs) T_elem) c1 cs Hr eq_refl eq_refl ltac:(discriminate) Ha) as (m' & Hs & Ha').
    exists m'. split; [|exact Ha']. cbn [map]. change (enc_prop_g p :: map enc_prop_g t) with ([enc_prop_g p] ++ map enc_prop_g t).
    eapply csteps_app; [apply (cstep_prop_elem ois m k p c c1 cs Hp Ht Hc); unfold push_eprop; rewrite E; reflexivity|].
    unfold add_eprops in *. rewrite E. subst c1. cbn [c_elems c_name c_props] in Hs.
    cbn [rev]. rewrite <- app_assoc. cbn [app]. destruct k; exact Hs.
Qed.
Lemma celem_then_props ois m k c cs rec e pd m1 :
  rec <> [] -> k_cells k = c :: cs ->
  (forall rest, cov_record ois (DS m k) (rec ++ rest) =
                Some (Cont (DS m1 (k_set_cells k (push_elem c e :: cs) T_elem)) rest)) ->
  m_abs m1 = true -> Forall wf_nprop pd ->
  exists m', csteps ois m k (rec :: map enc_prop_g pd) m' (k_set_cells k (push_ep c (e, pd) :: cs) T_elem) /\ m_abs m' = true.
Proof.
  intros Hne Hc Hrec Ha Hpd.
  destruct (csteps_props_elem ois pd m1 (k_set_cells k (push_elem c e :: cs) T_elem) (push_elem c e) cs Hpd eq_refl eq_refl
              ltac:(discriminate) Ha) as (m' & Hs & Ha').
  exists m'. split; [|exact Ha'].
  econstructor; [exact Hne|exact Hrec|].
  unfold add_eprops, push_elem in Hs. cbn [c_elems c_name c_props] in Hs. rewrite app_nil_r in Hs.
  unfold push_ep. cbn [fst snd]. destruct k; exact Hs.
Qed.

(* ================================================================== element records *)
Ltac celem_rec_tac Hd Hc :=
  unfold cov_record; cbn [app rd_byte obnd]; unfold cov_elem_step; cbn [DS d_modal];
  rewrite Hd; cbn [obnd]; unfold add_elem; cbn [DS d_cells]; rewrite Hc; reflexivity.

Lemma cov_record_polygon ois m k c cs body e m1 rest : k_cells k = c :: cs ->
  cov_polygon m (body ++ rest) = Some (e, m1, rest) ->
  cov_record ois (DS m k) ((21 :: body) ++ rest) = Some (Cont (DS m1 (k_set_cells k (push_elem c e :: cs) T_elem)) rest).
Proof. intros Hc Hd. celem_rec_tac Hd Hc. Qed.
Lemma cov_record_path ois m k c cs body e m1 rest : k_cells k = c :: cs ->
  cov_path m (body ++ rest) = Some (e, m1, rest) ->
  cov_record ois (DS m k) ((22 :: body) ++ rest) = Some (Cont (DS m1 (k_set_cells k (push_elem c e :: cs) T_elem)) rest).
Proof. intros Hc Hd. celem_rec_tac Hd Hc. Qed.
Lemma cov_record_text ois m k c cs body e m1 rest : k_cells k = c :: cs ->
  cov_text m (body ++ rest) = Some (e, m1, rest) ->
  cov_record ois (DS m k) ((19 :: body) ++ rest) = Some (Cont (DS m1 (k_set_cells k (push_elem c e :: cs) T_elem)) rest).
Proof. intros Hc Hd. celem_rec_tac Hd Hc. Qed.
Lemma cov_record_place17 ois m k c cs body e m1 rest : k_cells k = c :: cs ->
  cov_placement 17 m (body ++ rest) = Some (e, m1, rest) ->
  cov_record ois (DS m k) ((17 :: body) ++ rest) = Some (Cont (DS m1 (k_set_cells k (push_elem c e :: cs) T_elem)) rest).
Proof. intros Hc Hd. celem_rec_tac Hd Hc. Qed.
Lemma cov_record_place18 ois m k c cs body e m1 rest : k_cells k = c :: cs ->
  cov_placement 18 m (body ++ rest) = Some (e, m1, rest) ->
  cov_record ois (DS m k) ((18 :: body) ++ rest) = Some (Cont (DS m1 (k_set_cells k (push_elem c e :: cs) T_elem)) rest).
Proof. intros Hc Hd. celem_rec_tac Hd Hc. Qed.

Definition celem_steps ois (recs : list (list N)) (eps : list (element * list prop)) : Prop :=
  forall m k c cs, m_abs m = true -> k_cells k = c :: cs ->
  exists m', csteps ois m k recs m' (after_elems k c cs eps) /\ m_abs m' = true.

Lemma celem_steps_nil ois : celem_steps ois [] [].
Proof. intros m k c cs Ha Hc. exists m. split; [constructor|exact Ha]. Qed.

Lemma celem_steps_app ois r1 e1 r2 e2 : celem_steps ois r1 e1 -> celem_steps ois r2 e2 -> celem_steps ois (r1 ++ r2) (e1 ++ e2).
Proof.
  intros H1 H2 m k c cs Ha Hc.
  destruct (H1 m k c cs Ha Hc) as (m1 & S1 & A1).
  destruct (H2 m1 (after_elems k c cs e1) (push_eps c e1) cs A1 (after_elems_cells k c cs e1 Hc)) as (m2 & S2 & A2).
  exists m2. split; [|exact A2]. eapply csteps_app; [exact S1|].
  replace (after_elems k c cs (e1 ++ e2)) with (after_elems (after_elems k c cs e1) (push_eps c e1) cs e2); [exact S2|].
  destruct e1 as [|a1 t1]; [reflexivity|]. destruct e2 as [|a2 t2].
  - rewrite app_nil_r. reflexivity.
  - unfold after_elems. cbn [app]. rewrite <- push_eps_app. destruct k; reflexivity.
Qed.

Lemma celem_steps_one ois rec e pd :
  rec <> [] -> Forall wf_nprop pd ->
  (forall m k c cs, m_abs m = true -> k_cells k = c :: cs ->
     exists m1, (forall rest, cov_record ois (DS m k) (rec ++ rest) =
                              Some (Cont (DS m1 (k_set_cells k (push_elem c e :: cs) T_elem)) rest)) /\ m_abs m1 = true) ->
  celem_steps ois (rec :: map enc_prop_g pd) [(e, pd)].
Proof.
  intros Hne Hpd H m k c cs Ha Hc. destruct (H m k c cs Ha Hc) as (m1 & Hrec & A1).
  exact (celem_then_props ois m k c cs rec e pd m1 Hne Hc Hrec A1 Hpd).
Qed.

(* ---- the extra conditions of the reader (c2, c3) on the writer's side *)
Definition wpoly_small (p : wpoly) : Prop :=
  u32 (py_layer p) /\ u32 (py_type p) /\ N.of_nat (length (py_pts p)) <= lim31 /\ wrep_small (py_rep p).
Definition wpel_small (el : wpel) : Prop := u32 (pe_layer el) /\ u32 (pe_type el).
Definition wpath_small (h : wpath) : Prop :=
  Forall wpel_small (ph_els h) /\ N.of_nat (length (ph_pts h)) <= lim31 /\ wrep_small (ph_rep h).
Definition wlabel_small (t : wlabel) : Prop := u32 (lb_layer t) /\ u32 (lb_type t) /\ wrep_small (lb_rep t).
Definition wref_small (r : wref) : Prop := wrep_small (rf_rep r).

Lemma cov_polygon_w m p : wpoly_ok p -> wpoly_small p -> m_abs m = true ->
  exists m1,
    (forall rest,
       cov_polygon m (((59 + rep_bit (py_rep p) 4) :: enc_uint (py_layer p) ++ enc_uint (py_type p) ++
                       enc_point_list true (py_pts p) ++ enc_int (fst (first_pt (py_pts p))) ++
                       enc_int (snd (first_pt (py_pts p))) ++ rep_field (py_rep p)) ++ rest) =
       Some (poly_ghost p, m1, rest)) /\ m_abs m1 = true.
Proof.
  intros (Hl & Hd & Hne & Hpts & Hlen & Hrep) (Sl & Sd & Slen & Srep) Ha.
  destruct (py_pts p) as [|p0 t] eqn:Ep; [congruence|]. inversion Hpts as [|? ? H0 Ht]; subst.
  eexists. split; [intros rest|]. unfold cov_polygon. cbn [app rd_byte obnd]. rewrite rep_bit_if.
  destruct (info_bits_3B (has_rep (py_rep p))) as (B0 & B1 & B2 & B3 & B4 & B5 & B6 & B7).
  cbv zeta in B0, B1, B2, B3, B4, B5, B6, B7. rewrite B0, B1, B2, B3, B4, B5, B6, B7. cbn [orb].
  rewrite <- !app_assoc. cbn [fld].
  rewrite rd_u32_enc by exact Sl. cbn [obnd fld]. rewrite rd_u32_enc by exact Sd. cbn [obnd fld].
  rewrite cov_plist_enc; [|apply deltas_from_fits; assumption|cbn [length] in *; unfold pt in *; lia]. cbn [obnd].
  rewrite Ha. unfold first_pt. cbn [hd].
  rewrite pos_fld_abs by (apply zc_fits; apply H0). cbn [obnd].
  rewrite pos_fld_abs by (apply zc_fits; apply H0). cbn [obnd].
  rewrite cov_rep_field by assumption. cbn [obnd].
  unfold poly_ghost. rewrite Ep. unfold first_pt. cbn [hd]. reflexivity.
  cbn. first [exact Ha|reflexivity].
Qed.

Lemma ext_scheme_byte hw e : wend_ok e -> wf_u hw -> exists b t, extension_scheme hw e = b :: t /\ b < 128.
Proof.
  intros He Hw. destruct e as [| |es ee]; cbn [extension_scheme]; try (eexists; eexists; split; [reflexivity|lia]).
  destruct He as [Hs He].
  destruct (ext_half_dec hw es None [] Hs Hw) as [Cs _]. destruct (ext_half_dec hw ee None [] He Hw) as [Ce _].
  destruct (ext_half hw es) as [cs vs]. destruct (ext_half hw ee) as [ce ve]. cbn [fst snd] in *.
  eexists; eexists; split; [reflexivity|lia].
Qed.

Lemma cov_path_w m h el : wpath_ok h -> wpath_small h -> wpel_ok el -> wpel_small el -> (2 <= length (ph_pts h))%nat ->
  m_abs m = true ->
  exists m1,
    (forall rest,
       cov_path m (((251 + rep_bit (ph_rep h) 4) :: enc_uint (pe_layer el) ++ enc_uint (pe_type el) ++ enc_uint (pe_hw el) ++
                    extension_scheme (pe_hw el) (pe_end el) ++ enc_point_list false (ph_pts h) ++
                    enc_int (fst (first_pt (ph_pts h))) ++ enc_int (snd (first_pt (ph_pts h))) ++ rep_field (ph_rep h)) ++ rest) =
       Some (path_ghost h el, m1, rest)) /\ m_abs m1 = true.
Proof.
  intros (_ & Hpts & Hlen & Hrep) (_ & Slen & Srep) (Hl & Hd & Hw & He) (Sl & Sd) H2 Ha.
  destruct (ph_pts h) as [|p0 t] eqn:Ep; [cbn in H2; lia|]. inversion Hpts as [|? ? H0 Ht]; subst.
  destruct t as [|p1 t']; [cbn in H2; lia|].
  eexists. split; [intros rest|]. unfold cov_path. cbn [app rd_byte obnd]. rewrite rep_bit_if.
  destruct (info_bits_FB (has_rep (ph_rep h))) as (B0 & B1 & B2 & B3 & B4 & B5 & B6 & B7).
  cbv zeta in B0, B1, B2, B3, B4, B5, B6, B7. rewrite B0, B1, B2, B3, B4, B5, B6, B7.
  rewrite <- !app_assoc. cbn [fld].
  rewrite rd_u32_enc by exact Sl. cbn [obnd fld]. rewrite rd_u32_enc by exact Sd. cbn [obnd fld].
  rewrite rd_uint_enc by exact Hw. cbn [obnd fld].
  pose proof (ext_scheme_dec (pe_hw el) (pe_end el) (g_exs (m_g m)) (g_exe (m_g m))
                (enc_point_list false (p0 :: p1 :: t') ++ enc_int (fst p0) ++ enc_int (snd p0) ++ rep_field (ph_rep h) ++ rest) He Hw) as Hx.
  destruct (ext_scheme_byte (pe_hw el) (pe_end el) He Hw) as (b & tb & Eb & Hb). unfold first_pt. cbn [hd].
  rewrite Eb in *. cbn [app rd_byte obnd] in *. rewrite rd_uint_small in Hx by exact Hb. cbn [obnd] in Hx.
  rewrite Hx. cbn [obnd fld].
  rewrite cov_plist_enc; [|apply deltas_from_fits; assumption|cbn [length] in *; unfold pt in *; lia]. cbn [obnd].
  unfold rel_pts at 1. cbn [tl map nonempty negb].
  rewrite Ha.
  rewrite pos_fld_abs by (apply zc_fits; apply H0). cbn [obnd].
  rewrite pos_fld_abs by (apply zc_fits; apply H0). cbn [obnd].
  rewrite cov_rep_field by assumption. cbn [obnd].
  unfold path_ghost. rewrite Ep. unfold first_pt, rel_pts. cbn [hd tl map]. reflexivity.
  cbn. first [exact Ha|reflexivity].
Qed.

Lemma cov_text_w m t index : wlabel_ok t -> wlabel_small t -> wf_u index -> m_abs m = true ->
  exists m1,
    (forall rest,
       cov_text m (((123 + rep_bit (lb_rep t) 4) :: enc_uint index ++ enc_uint (lb_layer t) ++ enc_uint (lb_type t) ++
                    enc_int (lb_x t) ++ enc_int (lb_y t) ++ rep_field (lb_rep t)) ++ rest) =
       Some (E_text (NNum index) (lb_layer t) (lb_type t) (lb_x t) (lb_y t) (view_rep (lb_rep t)), m1, rest))
    /\ m_abs m1 = true.
Proof.
  intros (Hl & Hd & Hx & Hy & Hrep) (Sl & Sd & Srep) Hi Ha.
  eexists. split; [intros rest|]. unfold cov_text. cbn [app rd_byte obnd]. rewrite rep_bit_if.
  destruct (info_bits_7B (has_rep (lb_rep t))) as (B0 & B1 & B2 & B3 & B4 & B5 & B6 & B7).
  cbv zeta in B0, B1, B2, B3, B4, B5, B6, B7. rewrite B0, B1, B2, B3, B4, B5, B6, B7.
  rewrite <- !app_assoc. cbn [fld rd_nref].
  rewrite rd_uint_enc by exact Hi. cbn [obnd fld].
  rewrite rd_u32_enc by exact Sl. cbn [obnd fld]. rewrite rd_u32_enc by exact Sd. cbn [obnd fld].
  rewrite Ha. rewrite pos_fld_abs by exact Hx. cbn [obnd]. rewrite pos_fld_abs by exact Hy. cbn [obnd].
  rewrite cov_rep_field by assumption. cbn [obnd]. reflexivity.
  cbn. first [exact Ha|reflexivity].
Qed.

(* ---- PLACEMENT *)
Lemma cov_placement17_w m cells r q : wref_ok r -> wref_small r -> cell_ref_ok cells (rf_name r) -> q < 4 -> m_abs m = true ->
  exists m1, (forall rest,
    cov_placement 17 m
      ((((match cell_index cells (rf_name r) with Some _ => 240 | None => 176 end) + rep_bit (rf_rep r) 8 +
         (if rf_flip r then 1 else 0) + 2 * q) ::
        (match cell_index cells (rf_name r) with Some i => enc_uint i | None => wr_cstring (rf_name r) end) ++
        enc_int (rf_x r) ++ enc_int (rf_y r) ++ rep_field (rf_rep r)) ++ rest) =
    Some (E_place (cell_ref cells (rf_name r)) (PT_quarter q) (rf_flip r) (rf_x r) (rf_y r) (view_rep (rf_rep r)), m1, rest))
    /\ m_abs m1 = true.
Proof.
  intros (Hs & Hx & Hy & Hrep) Srep Hi Hq Ha.
  eexists. split; [intros rest|].
  pose proof (rd_cell_ref cells (rf_name r) (enc_int (rf_x r) ++ enc_int (rf_y r) ++ rep_field (rf_rep r) ++ rest) Hs Hi) as Hc.
  unfold cov_placement. cbn [app rd_byte obnd]. rewrite rep_bit_if.
  assert (Hinfo : (match cell_index cells (rf_name r) with Some _ => 240 | None => 176 end) +
                  (if has_rep (rf_rep r) then 8 else 0) + (if rf_flip r then 1 else 0) + 2 * q =
                  (if (match cell_index cells (rf_name r) with Some _ => true | None => false end) then 240 else 176) +
                  (if has_rep (rf_rep r) then 8 else 0) + (if rf_flip r then 1 else 0) +
                  (if N.testbit q 1 then 4 else 0) + (if N.testbit q 0 then 2 else 0)).
  { assert (E : q = 0 \/ q = 1 \/ q = 2 \/ q = 3) by lia.
    destruct (cell_index cells (rf_name r)); destruct (has_rep (rf_rep r)); destruct (rf_flip r);
      destruct E as [E|[E|[E|E]]]; subst q; reflexivity. }
  rewrite Hinfo.
  destruct (info_bits_place (match cell_index cells (rf_name r) with Some _ => true | None => false end)
                            (has_rep (rf_rep r)) (rf_flip r) (N.testbit q 1) (N.testbit q 0))
    as (B0 & B1 & B2 & B3 & B4 & B5 & B6 & B7 & BA).
  cbv zeta in B0, B1, B2, B3, B4, B5, B6, B7, BA. rewrite B0, B3, B4, B5, B6, B7, BA. rewrite aa_bits by exact Hq.
  rewrite <- !app_assoc. cbn [fld]. rewrite Hc. cbn [obnd N.eqb Pos.eqb].
  rewrite Ha. rewrite pos_fld_abs by exact Hx. cbn [obnd]. rewrite pos_fld_abs by exact Hy. cbn [obnd].
  rewrite cov_rep_field by assumption. cbn [obnd]. reflexivity.
  cbn. first [exact Ha|reflexivity].
Qed.
Lemma cov_placement18_w m cells r (hm hr : bool) mb rb :
  wref_ok r -> wref_small r -> cell_ref_ok cells (rf_name r) -> m_abs m = true ->
  exists m1, (forall rest,
    cov_placement 18 m
      ((((match cell_index cells (rf_name r) with Some _ => 240 | None => 176 end) + rep_bit (rf_rep r) 8 +
         (if rf_flip r then 1 else 0) + (if hm then 4 else 0) + (if hr then 2 else 0)) ::
        (match cell_index cells (rf_name r) with Some i => enc_uint i | None => wr_cstring (rf_name r) end) ++
        (if hm then enc_real mb else []) ++ (if hr then enc_real rb else []) ++
        enc_int (rf_x r) ++ enc_int (rf_y r) ++ rep_field (rf_rep r)) ++ rest) =
    Some (E_place (cell_ref cells (rf_name r))
                  (PT_general (if hm then Some (real_of_bits mb) else None) (if hr then Some (real_of_bits rb) else None))
                  (rf_flip r) (rf_x r) (rf_y r) (view_rep (rf_rep r)), m1, rest))
    /\ m_abs m1 = true.
Proof.
  intros (Hs & Hx & Hy & Hrep) Srep Hi Ha.
  assert (Hinfo : (match cell_index cells (rf_name r) with Some _ => 240 | None => 176 end) +
                  (if has_rep (rf_rep r) then 8 else 0) + (if rf_flip r then 1 else 0) + (if hm then 4 else 0) +
                  (if hr then 2 else 0) =
                  (if (match cell_index cells (rf_name r) with Some _ => true | None => false end) then 240 else 176) +
                  (if has_rep (rf_rep r) then 8 else 0) + (if rf_flip r then 1 else 0) +
                  (if hm then 4 else 0) + (if hr then 2 else 0)).
  { destruct (cell_index cells (rf_name r)); reflexivity. }
  destruct (info_bits_place (match cell_index cells (rf_name r) with Some _ => true | None => false end)
                            (has_rep (rf_rep r)) (rf_flip r) hm hr)
    as (B0 & B1 & B2 & B3 & B4 & B5 & B6 & B7 & BA).
  cbv zeta in B0, B1, B2, B3, B4, B5, B6, B7, BA.
  destruct hm, hr;
    (eexists; split;
     [intros rest; unfold cov_placement; cbn [app rd_byte obnd]; rewrite rep_bit_if; rewrite Hinfo;
      rewrite B0, B1, B2, B3, B4, B5, B6, B7;
      rewrite <- !app_assoc; cbn [fld];
      rewrite (rd_cell_ref cells (rf_name r) _ Hs Hi); cbn [obnd N.eqb Pos.eqb app];
      rewrite ?cov_real_enc_real; cbn [obnd]; rewrite ?cov_real_enc_real; cbn [obnd];
      rewrite Ha; rewrite pos_fld_abs by exact Hx; cbn [obnd]; rewrite pos_fld_abs by exact Hy; cbn [obnd];
      rewrite cov_rep_field by assumption; cbn [obnd]; reflexivity
     |cbn; first [exact Ha|reflexivity]]).
Qed.


Definition wpoly_oks (p : wpoly) : Prop := wpoly_ok p /\ wpoly_small p.
Definition wpel_oks (el : wpel) : Prop := wpel_ok el /\ wpel_small el.
Definition wpath_oks (h : wpath) : Prop := wpath_ok h /\ wpath_small h.
Definition wref_oks (r : wref) : Prop := wref_ok r /\ wref_small r.
Definition wlabel_oks (t : wlabel) : Prop := wlabel_ok t /\ wlabel_small t.
Lemma Forall_conj {A} (P Q : A -> Prop) l : Forall P l -> Forall Q l -> Forall (fun a => P a /\ Q a) l.
Proof. intros H1 H2. rewrite Forall_forall in *. intros a Ha. split; auto. Qed.
(* ---- the records of one cell (as in OasisWriteProofs.v, with the reader's extra conditions) *)
Lemma csteps_polygon ois st p recs ep st' : polygon_to_oas st p = (recs, ep, st') ->
  wpoly_oks p -> wf_gep ep -> celem_steps ois recs [ep].
Proof.
  unfold polygon_to_oas. pose proof (properties_to_oas_enc (py_props p) st) as Hpr.
  destruct (properties_to_oas st (py_props p)) as [[pr pd] st1]. cbn [fst snd] in Hpr. subst pr.
  intros [= <- <- <-] Hok [_ Hpd]. cbn [snd] in Hpd.
  apply celem_steps_one; [discriminate|exact Hpd|].
  intros m k c cs Ha Hc. destruct (cov_polygon_w m p (proj1 Hok) (proj2 Hok) Ha) as (m1 & D & A1).
  exists m1. split; [|exact A1]. intros rest. change OasisRecord_POLYGON with 21.
  apply (cov_record_polygon ois m k c cs _ _ _ rest Hc (D rest)).
Qed.
Lemma csteps_path_element ois st h el recs ep st' : path_element_to_oas st h el = (recs, ep, st') ->
  wpath_oks h -> wpel_oks el -> (2 <= length (ph_pts h))%nat -> wf_gep ep -> celem_steps ois recs [ep].
Proof.
  unfold path_element_to_oas. pose proof (properties_to_oas_enc (ph_props h) st) as Hpr.
  destruct (properties_to_oas st (ph_props h)) as [[pr pd] st1]. cbn [fst snd] in Hpr. subst pr.
  intros [= <- <- <-] Hok Hel Hne [_ Hpd]. cbn [snd] in Hpd.
  apply celem_steps_one; [discriminate|exact Hpd|].
  intros m k c cs Ha Hc. destruct (cov_path_w m h el (proj1 Hok) (proj2 Hok) (proj1 Hel) (proj2 Hel) Hne Ha) as (m1 & D & A1).
  exists m1. split; [|exact A1]. intros rest. change OasisRecord_PATH with 22.
  apply (cov_record_path ois m k c cs _ _ _ rest Hc (D rest)).
Qed.
Lemma csteps_path_elements ois h : wpath_oks h -> (2 <= length (ph_pts h))%nat -> forall els st recs eps st',
  path_elements_to_oas st h els = (recs, eps, st') -> Forall wpel_oks els -> Forall wf_gep eps -> celem_steps ois recs eps.
Proof.
  intros Hok Hne. induction els as [|el t IH]; intros st recs eps st' E Hels Hg.
  - injection E as <- <- <-. apply celem_steps_nil.
  - cbn [path_elements_to_oas] in E.
    destruct (path_element_to_oas st h el) as [[r1 d1] st1] eqn:E1.
    destruct (path_elements_to_oas st1 h t) as [[r2 d2] st2] eqn:E2.
    injection E as <- <- <-. inversion Hels as [|? ? He Ht]; subst. inversion Hg as [|? ? Hg1 Hg2]; subst.
    change (d1 :: d2) with ([d1] ++ d2). apply celem_steps_app.
    + exact (csteps_path_element ois st h el r1 d1 st1 E1 Hok He Hne Hg1).
    + exact (IH st1 r2 d2 st2 E2 Ht Hg2).
Qed.
Lemma csteps_flexpath ois st h recs eps st' : flexpath_to_oas st h = (recs, eps, st') ->
  wpath_oks h -> Forall wf_gep eps -> celem_steps ois recs eps.
Proof.
  unfold flexpath_to_oas. intros E Hok Hg.
  destruct (length (ph_pts h) <? 2)%nat eqn:El.
  - injection E as <- <- <-. apply celem_steps_nil.
  - assert (Hne : (2 <= length (ph_pts h))%nat) by (apply Nat.ltb_ge in El; exact El).
    exact (csteps_path_elements ois h Hok Hne (ph_els h) st recs eps st' E (Forall_conj _ _ _ (proj1 (proj1 Hok)) (proj1 (proj2 Hok))) Hg).
Qed.
Lemma csteps_reference ois cells st r recs ep st' : reference_to_oas cells st r = (recs, ep, st') ->
  wref_oks r -> wf_gep ep -> celem_steps ois recs [ep].
Proof.
  unfold reference_to_oas. pose proof (properties_to_oas_enc (rf_props r) st) as Hpr.
  destruct (properties_to_oas st (rf_props r)) as [[pr pd] st1]. cbn [fst snd] in Hpr. subst pr.
  intros E Hok Hg.
  assert (Hi : cell_ref_ok cells (rf_name r) /\ Forall wf_nprop pd).
  { destruct Hg as [G1 G2]. unfold cell_ref_ok.
    destruct (if b64_is_one (rf_mag r) then rf_quarter r else None); injection E as <- <- <-; cbn [fst snd] in *;
      (split; [|exact G2]); destruct (cell_index cells (rf_name r)); cbn [wf_gelem] in G1; auto. }
  destruct Hi as [Hi Hpd].
  destruct (if b64_is_one (rf_mag r) then rf_quarter r else None) as [q|].
  - injection E as <- <- <-.
    apply celem_steps_one; [discriminate|exact Hpd|].
    intros m k c cs Ha Hc.
    destruct (cov_placement17_w m cells r (quarter_bits q) (proj1 Hok) (proj2 Hok) Hi (quarter_bits_lt q) Ha) as (m1 & D & A1).
    exists m1. split; [|exact A1]. intros rest. change OasisRecord_PLACEMENT with 17.
    apply (cov_record_place17 ois m k c cs _ _ _ rest Hc (D rest)).
  - injection E as <- <- <-.
    apply celem_steps_one; [discriminate|exact Hpd|].
    intros m k c cs Ha Hc.
    destruct (cov_placement18_w m cells r (negb (b64_is_one (rf_mag r))) (negb (b64_is_zero (rf_rot r)))
                (rf_mag r) (deg_bits (rf_rot r)) (proj1 Hok) (proj2 Hok) Hi Ha) as (m1 & D & A1).
    exists m1. split; [|exact A1]. intros rest. change OasisRecord_PLACEMENT_TRANSFORM with 18.
    apply (cov_record_place18 ois m k c cs _ _ _ rest Hc (D rest)).
Qed.
Lemma csteps_label ois ts st t recs ep ts' st' : label_to_oas ts st t = (recs, ep, ts', st') ->
  wlabel_oks t -> wf_gep ep -> celem_steps ois recs [ep].
Proof.
  unfold label_to_oas. destruct (intern ts (lb_text t)) as [index ts1].
  pose proof (properties_to_oas_enc (lb_props t) st) as Hpr.
  destruct (properties_to_oas st (lb_props t)) as [[pr pd] st1]. cbn [fst snd] in Hpr. subst pr.
  intros [= <- <- <- <-] Hok [Hi Hpd]. cbn [fst snd wf_gelem] in Hi, Hpd.
  apply celem_steps_one; [discriminate|exact Hpd|].
  intros m k c cs Ha Hc. destruct (cov_text_w m t index (proj1 Hok) (proj2 Hok) Hi Ha) as (m1 & D & A1).
  exists m1. split; [|exact A1]. intros rest. change OasisRecord_TEXT with 19.
  apply (cov_record_text ois m k c cs _ _ _ rest Hc (D rest)).
Qed.
Lemma csteps_polygons ois : forall l st recs eps st', polygons_to_oas st l = (recs, eps, st') ->
  Forall wpoly_oks l -> Forall wf_gep eps -> celem_steps ois recs eps.
Proof.
  induction l as [|p t IH]; intros st recs eps st' E Hok Hg.
  - injection E as <- <- <-. apply celem_steps_nil.
  - cbn [polygons_to_oas] in E.
    destruct (polygon_to_oas st p) as [[r1 d1] st1] eqn:E1. destruct (polygons_to_oas st1 t) as [[r2 d2] st2] eqn:E2.
    injection E as <- <- <-. inversion Hok as [|? ? Hp Ht]; subst. inversion Hg as [|? ? Hg1 Hg2]; subst.
    change (d1 :: d2) with ([d1] ++ d2). apply celem_steps_app.
    + exact (csteps_polygon ois st p r1 d1 st1 E1 Hp Hg1).
    + exact (IH st1 r2 d2 st2 E2 Ht Hg2).
Qed.
Lemma csteps_flexpaths ois : forall l st recs eps st', flexpaths_to_oas st l = (recs, eps, st') ->
  Forall wpath_oks l -> Forall wf_gep eps -> celem_steps ois recs eps.
Proof.
  induction l as [|p t IH]; intros st recs eps st' E Hok Hg.
  - injection E as <- <- <-. apply celem_steps_nil.
  - cbn [flexpaths_to_oas] in E.
    destruct (flexpath_to_oas st p) as [[r1 d1] st1] eqn:E1. destruct (flexpaths_to_oas st1 t) as [[r2 d2] st2] eqn:E2.
    injection E as <- <- <-. inversion Hok as [|? ? Hp Ht]; subst. apply Forall_app in Hg. destruct Hg as [Hg1 Hg2].
    apply celem_steps_app.
    + exact (csteps_flexpath ois st p r1 d1 st1 E1 Hp Hg1).
    + exact (IH st1 r2 d2 st2 E2 Ht Hg2).
Qed.
Lemma csteps_references ois cells : forall l st recs eps st', references_to_oas cells st l = (recs, eps, st') ->
  Forall wref_oks l -> Forall wf_gep eps -> celem_steps ois recs eps.
Proof.
  induction l as [|p t IH]; intros st recs eps st' E Hok Hg.
  - injection E as <- <- <-. apply celem_steps_nil.
  - cbn [references_to_oas] in E.
    destruct (reference_to_oas cells st p) as [[r1 d1] st1] eqn:E1.
    destruct (references_to_oas cells st1 t) as [[r2 d2] st2] eqn:E2.
    injection E as <- <- <-. inversion Hok as [|? ? Hp Ht]; subst. inversion Hg as [|? ? Hg1 Hg2]; subst.
    change (d1 :: d2) with ([d1] ++ d2). apply celem_steps_app.
    + exact (csteps_reference ois cells st p r1 d1 st1 E1 Hp Hg1).
    + exact (IH st1 r2 d2 st2 E2 Ht Hg2).
Qed.
Lemma csteps_labels ois : forall l ts st recs eps ts' st', labels_to_oas ts st l = (recs, eps, ts', st') ->
  Forall wlabel_oks l -> Forall wf_gep eps -> celem_steps ois recs eps.
Proof.
  induction l as [|p t IH]; intros ts st recs eps ts' st' E Hok Hg.
  - injection E as <- <- <- <-. apply celem_steps_nil.
  - cbn [labels_to_oas] in E.
    destruct (label_to_oas ts st p) as [[[r1 d1] ts1] st1] eqn:E1.
    destruct (labels_to_oas ts1 st1 t) as [[[r2 d2] ts2] st2] eqn:E2.
    injection E as <- <- <- <-. inversion Hok as [|? ? Hp Ht]; subst. inversion Hg as [|? ? Hg1 Hg2]; subst.
    change (d1 :: d2) with ([d1] ++ d2). apply celem_steps_app.
    + exact (csteps_label ois ts st p r1 d1 ts1 st1 E1 Hp Hg1).
    + exact (IH ts1 st1 r2 d2 ts2 st2 E2 Ht Hg2).
Qed.

(* ---- a whole cell: the CELL record carries a reference number no earlier CELL record has (c7) *)
Definition wcell_oks (c : wcell) : Prop :=
  Forall wpoly_oks (cl_polys c) /\ Forall wpath_oks (cl_paths c) /\ Forall wref_oks (cl_refs c) /\ Forall wlabel_oks (cl_labels c).
Definition fresh_num (gc : cell) (cells : list cell) : Prop :=
  forall i, c_name gc = NNum i -> existsb (cell_has_num i) cells = false.

Lemma csteps_cell ois cells ts st c recs gc ts' st' : cell_to_oas cells ts st c = (recs, gc, ts', st') ->
  wcell_oks c -> wf_gcell gc -> forall m k, m_abs m = true -> fresh_num gc (k_cells k) ->
  exists m' tg', csteps ois m k recs m' (k_set_cells k (rcell_g gc :: k_cells k) tg') /\ m_abs m' = true.
Proof.
  unfold cell_to_oas. intros E (Hp & Hh & Hr & Hl) ((i & Hn & Hi) & _ & Hg) m k Ha Hfresh.
  destruct (polygons_to_oas st (cl_polys c)) as [[r1 d1] st1] eqn:E1.
  destruct (flexpaths_to_oas st1 (cl_paths c)) as [[r2 d2] st2] eqn:E2.
  destruct (references_to_oas cells st2 (cl_refs c)) as [[r3 d3] st3] eqn:E3.
  destruct (labels_to_oas ts st3 (cl_labels c)) as [[[r4 d4] ts4] st4] eqn:E4.
  injection E as <- <- <- <-. cbn [c_name c_elems] in *. specialize (Hfresh i Hn). injection Hn as Hn.
  apply Forall_app in Hg. destruct Hg as [G1 Hg]. apply Forall_app in Hg. destruct Hg as [G2 Hg].
  apply Forall_app in Hg. destruct Hg as [G3 G4].
  pose proof (celem_steps_app ois _ _ _ _ (csteps_polygons ois _ _ _ _ _ E1 Hp G1)
               (celem_steps_app ois _ _ _ _ (csteps_flexpaths ois _ _ _ _ _ E2 Hh G2)
                  (celem_steps_app ois _ _ _ _ (csteps_references ois cells _ _ _ _ _ E3 Hr G3)
                     (csteps_labels ois _ _ _ _ _ _ _ E4 Hl G4)))) as Hall.
  set (c0 := mkCell (NNum i) [] []).
  destruct (Hall modal0 (k_set_cells k (c0 :: k_cells k) T_cell) c0 (k_cells k) eq_refl eq_refl) as (m' & S & A').
  exists m'. exists (match d1 ++ d2 ++ d3 ++ d4 with [] => T_cell | _ => T_elem end). split; [|exact A'].
  apply (csteps_cons ois m k _ modal0 (k_set_cells k (c0 :: k_cells k) T_cell)); [discriminate| |].
  - intros rest. unfold cov_record. change OasisRecord_CELL_REF_NUM with 13. cbn [app rd_byte obnd].
    rewrite Hn. rewrite rd_uint_enc by exact Hi. cbn [obnd]. unfold modal_at_cell. cbn [DS d_cells].
    rewrite Hfresh. destruct k; reflexivity.
  - unfold after_elems in S. unfold rcell_g. cbn [c_name c_props c_elems].
    destruct (d1 ++ d2 ++ d3 ++ d4) as [|e0 et] eqn:Ed.
    + cbn [map rev]. subst c0. rewrite Hn in *. exact S.
    + rewrite push_eps_shape in S. subst c0. cbn [c_name c_props c_elems] in S. rewrite app_nil_r in S.
      rewrite Hn in *. destruct k; exact S.
Qed.

Lemma csteps_cells ois cells : forall l pos ts st recs gcs offs ts' st',
  cells_to_oas cells pos ts st l = (recs, gcs, offs, ts', st') ->
  Forall wcell_oks l -> Forall wf_gcell gcs -> NoDup (map c_name gcs) ->
  forall m k, m_abs m = true -> (forall gc, In gc gcs -> fresh_num gc (k_cells k)) ->
  exists m' tg', csteps ois m k recs m' (k_set_cells k (rev (map rcell_g gcs) ++ k_cells k) tg') /\ m_abs m' = true.
Proof.
  induction l as [|c t IH]; intros pos ts st recs gcs offs ts' st' E Hok Hg Hnd m k Ha Hfr.
  - injection E as <- <- <- <- <-. exists m, (k_target k). split; [|exact Ha]. destruct k; constructor.
  - cbn [cells_to_oas] in E.
    destruct (cell_to_oas cells ts st c) as [[[r1 d1] ts1] st1] eqn:E1.
    destruct (cells_to_oas cells (pos + reclen r1) ts1 st1 t) as [[[[r2 d2] o2] ts2] st2] eqn:E2.
    injection E as <- <- <- <- <-. inversion Hok as [|? ? Hc Ht]; subst. inversion Hg as [|? ? Hg1 Hg2]; subst.
    cbn [map] in Hnd. inversion Hnd as [|? ? Hnin Hnd2]; subst.
    destruct (csteps_cell ois cells ts st c r1 d1 ts1 st1 E1 Hc Hg1 m k Ha (Hfr d1 (or_introl eq_refl))) as (m1 & tg1 & S1 & A1).
    destruct (IH _ _ _ _ _ _ _ _ E2 Ht Hg2 Hnd2 m1 (k_set_cells k (rcell_g d1 :: k_cells k) tg1) A1) as (m2 & tg2 & S2 & A2).
    + intros gc Hin i Hi. cbn [k_set_cells k_cells existsb]. rewrite (Hfr gc (or_intror Hin) i Hi), orb_false_r.
      unfold cell_has_num, rcell_g. cbn [c_name]. destruct (c_name d1) as [s|j] eqn:Ej; [reflexivity|].
      apply N.eqb_neq. intros ->. apply Hnin. rewrite <- Hi. apply in_map. exact Hin.
    + exists m2, tg2. split; [|exact A2]. eapply csteps_app; [exact S1|].
      cbn [map rev]. rewrite <- app_assoc. cbn [app]. destruct k; exact S2.
Qed.

(* ================================================================== name records *)
Lemma cstep_cellname ois m k s : wf_str s -> (md0 (k_md k) = 0 \/ md0 (k_md k) = 1) -> lookup (k_cn k) (k_cnn k) = None ->
  csteps ois m k [OasisRecord_CELLNAME_IMPLICIT :: wr_cstring s] m (k_add_cn k s).
Proof.
  intros Hs Hmd Hl. apply csteps_one; [discriminate|]. intros rest.
  unfold cov_record. change OasisRecord_CELLNAME_IMPLICIT with 3. cbn [app rd_byte obnd].
  unfold cov_add_name, add_name. change (wr_cstring s) with (wr_string s). rewrite rd_string_enc by exact Hs. cbn [obnd].
  destruct k as [u lp cs tg cn cnn cnp ts tsn pn pnn ps psn [[[a b] c] e]]. cbn [DS d_table_mode mode_get k_md md0] in *.
  cbn [k_cn k_cnn] in Hl.
  replace (negb ((a =? 0) || (a =? 1))) with false by (destruct Hmd as [-> | ->]; reflexivity).
  ds_simpl. rewrite Hl. reflexivity.
Qed.

Lemma cstep_textstring ois m k s n : wf_str s -> n < lim26 -> (md1 (k_md k) = 0 \/ md1 (k_md k) = 2) -> lookup (k_ts k) n = None ->
  csteps ois m k [OasisRecord_TEXTSTRING :: wr_cstring s ++ enc_uint n] m (k_add_ts k s n).
Proof.
  intros Hs Hn26 Hmd Hl. assert (Hn : wf_u n) by (unfold wf_u; change lim26 with 67108864 in Hn26; rewrite two64_val; lia).
  apply csteps_one; [discriminate|]. intros rest.
  unfold cov_record. change OasisRecord_TEXTSTRING with 6. cbn [app rd_byte obnd].
  unfold cov_add_name, add_name. change (wr_cstring s) with (wr_string s). rewrite <- app_assoc. rewrite rd_string_enc by exact Hs. cbn [obnd].
  destruct k as [u lp cs tg cn cnn cnp ts tsn pn pnn ps psn [[[a b] c] e]]. cbn [DS d_table_mode mode_get k_md md1] in *.
  cbn [k_ts] in Hl.
  replace (negb ((b =? 0) || (b =? 2))) with false by (destruct Hmd as [-> | ->]; reflexivity).
  rewrite rd_uint_enc by exact Hn. ds_simpl. rewrite Hl. cbn [obnd].
  replace (n <? lim26) with true by (symmetry; apply N.ltb_lt; exact Hn26). reflexivity.
Qed.

Lemma cstep_propname ois m k s n : wf_str s -> n < lim26 -> (md2 (k_md k) = 0 \/ md2 (k_md k) = 2) -> lookup (k_pn k) n = None ->
  csteps ois m k [OasisRecord_PROPNAME :: wr_cstring s ++ enc_uint n] m (k_add_pn k s n).
Proof.
  intros Hs Hn26 Hmd Hl. assert (Hn : wf_u n) by (unfold wf_u; change lim26 with 67108864 in Hn26; rewrite two64_val; lia).
  apply csteps_one; [discriminate|]. intros rest.
  unfold cov_record. change OasisRecord_PROPNAME with 8. cbn [app rd_byte obnd].
  unfold cov_add_name, add_name. change (wr_cstring s) with (wr_string s). rewrite <- app_assoc. rewrite rd_string_enc by exact Hs. cbn [obnd].
  destruct k as [u lp cs tg cn cnn cnp ts tsn pn pnn ps psn [[[a b] c] e]]. cbn [DS d_table_mode mode_get k_md md2] in *.
  cbn [k_pn] in Hl.
  replace (negb ((c =? 0) || (c =? 2))) with false by (destruct Hmd as [-> | ->]; reflexivity).
  rewrite rd_uint_enc by exact Hn. ds_simpl. rewrite Hl. cbn [obnd].
  replace (n <? lim26) with true by (symmetry; apply N.ltb_lt; exact Hn26). reflexivity.
Qed.

Lemma cstep_propstring ois m k s : wf_str s -> (md3 (k_md k) = 0 \/ md3 (k_md k) = 1) -> lookup (k_ps k) (k_psn k) = None ->
  csteps ois m k [OasisRecord_PROPSTRING_IMPLICIT :: wr_cstring s] m (k_add_ps k s).
Proof.
  intros Hs Hmd Hl. apply csteps_one; [discriminate|]. intros rest.
  unfold cov_record. change OasisRecord_PROPSTRING_IMPLICIT with 9. cbn [app rd_byte obnd].
  unfold cov_add_name, add_name. change (wr_cstring s) with (wr_string s). rewrite rd_string_enc by exact Hs. cbn [obnd].
  destruct k as [u lp cs tg cn cnn cnp ts tsn pn pnn ps psn [[[a b] c] e]]. cbn [DS d_table_mode mode_get k_md md3] in *.
  cbn [k_ps k_psn] in Hl.
  replace (negb ((e =? 0) || (e =? 1))) with false by (destruct Hmd as [-> | ->]; reflexivity).
  ds_simpl. rewrite Hl. reflexivity.
Qed.

(* ---- the name-table phases (as in OasisWriteProofs.v; explicit reference numbers below 2^26) *)
Lemma csteps_cellnames ois cfg cells offs : forall l st recs pds st',
  cellnames_to_oas cfg cells offs st l = (recs, pds, st') ->
  Forall (fun c => wf_str (cl_name c)) l -> Forall (Forall wf_nprop) pds ->
  forall m k s, m_abs m = true -> (md0 (k_md k) = 0 \/ md0 (k_md k) = 1) -> k_cnn k = N.of_nat s ->
    (forall j, N.of_nat s <= j -> lookup (k_cn k) j = None) ->
    exists m', csteps ois m k recs m' (k_after_cellnames k s (map cl_name l) pds) /\ m_abs m' = true.
Proof.
  induction l as [|c t IH]; intros st recs pds st' E Hn Hp m k s Ha Hmd Hcnn Hlk.
  - injection E as <- <- <-. exists m. split; [|exact Ha]. unfold k_after_cellnames. cbn [map enum_from rev app cnp_list length].
    rewrite Nat.add_0_r, <- Hcnn. destruct k; constructor.
  - cbn [cellnames_to_oas] in E.
    pose proof (properties_to_oas_enc (cellname_props cfg c (cell_offset_of cells offs (cl_name c))) st) as Hpr.
    destruct (properties_to_oas st (cellname_props cfg c (cell_offset_of cells offs (cl_name c)))) as [[pr pd] st1].
    cbn [fst snd] in Hpr. subst pr.
    destruct (cellnames_to_oas cfg cells offs st1 t) as [[r2 d2] st2] eqn:E2.
    injection E as <- <- <-. inversion Hn as [|? ? Hc Ht]; subst. inversion Hp as [|? ? Hp1 Hp2]; subst.
    pose proof (cstep_cellname ois m k (cl_name c) Hc Hmd ltac:(apply Hlk; rewrite Hcnn; lia)) as S1.
    destruct (csteps_props_cellname ois (k_cnn k) pd m (k_add_cn k (cl_name c)) Hp1 eq_refl Ha) as (m1 & S2 & A1).
    set (k1 := k_set_cnp (k_add_cn k (cl_name c)) (rev (map (fun p => (k_cnn k, p)) pd) ++ k_cnp (k_add_cn k (cl_name c)))) in *.
    destruct (IH st1 r2 d2 st2 E2 Ht Hp2 m1 k1 (S s) A1) as (m2 & S3 & A2).
    + subst k1. destruct k as [? ? ? ? ? ? ? ? ? ? ? ? ? [[[a b] c0] e]]. cbn. right. reflexivity.
    + subst k1. cbn [k_set_cnp k_add_cn k_cnn]. rewrite Hcnn. lia.
    + intros j Hj. subst k1. cbn [k_set_cnp k_add_cn k_cn lookup]. rewrite Hcnn.
      replace (N.of_nat s =? j) with false by (symmetry; apply N.eqb_neq; lia). apply Hlk. lia.
    + exists m2. split; [|exact A2].
      change ((OasisRecord_CELLNAME_IMPLICIT :: wr_cstring (cl_name c)) :: map enc_prop_g pd ++ r2)
        with ([OasisRecord_CELLNAME_IMPLICIT :: wr_cstring (cl_name c)] ++ map enc_prop_g pd ++ r2).
      eapply csteps_app; [exact S1|]. eapply csteps_app; [exact S2|].
      replace (k_after_cellnames k s (map cl_name (c :: t)) (pd :: d2)) with (k_after_cellnames k1 (S s) (map cl_name t) d2);
        [exact S3|].
      subst k1. unfold k_after_cellnames. cbn [map enum_from rev cnp_list length k_set_cnp k_add_cn k_unit k_lprops k_cells
        k_target k_cn k_cnn k_cnp k_ts k_tsn k_pn k_pnn k_ps k_psn k_md swap_kv fst snd].
      rewrite Hcnn.
      assert (Emd : mode_set (mode_set (k_md k) 0 1) 0 1 = mode_set (k_md k) 0 1)
        by (destruct (k_md k) as [[[a b] c0] e]; reflexivity).
      f_equal.
      * destruct (map cl_name t) eqn:Et; [cbn [length]; f_equal; f_equal; lia|cbn [length]; f_equal; f_equal; lia].
      * rewrite <- app_assoc. reflexivity.
      * f_equal. lia.
      * rewrite rev_app_distr, <- app_assoc. reflexivity.
      * destruct (map cl_name t); [reflexivity|exact Emd].
Qed.
Lemma csteps_textstrings ois : forall items m k,
  (md1 (k_md k) = 0 \/ md1 (k_md k) = 2) -> NoDup (map snd items) ->
  (forall kv, In kv items -> wf_str (fst kv) /\ snd kv < lim26 /\ lookup (k_ts k) (snd kv) = None) ->
  csteps ois m k (numbered_name_records OasisRecord_TEXTSTRING items) m (k_after_ts k items).
Proof.
  induction items as [|[s n] t IH]; intros m k Hmd Hnd Hit; [constructor|].
  cbn [numbered_name_records map fst snd].
  destruct (Hit (s, n) (or_introl eq_refl)) as (Hs & Hn & Hl). cbn [fst snd] in *.
  change ((OasisRecord_TEXTSTRING :: wr_cstring s ++ enc_uint n) :: map (fun kv => OasisRecord_TEXTSTRING :: wr_cstring (fst kv) ++ enc_uint (snd kv)) t)
    with ([OasisRecord_TEXTSTRING :: wr_cstring s ++ enc_uint n] ++ numbered_name_records OasisRecord_TEXTSTRING t).
  eapply csteps_app; [apply (cstep_textstring ois m k s n Hs Hn Hmd Hl)|].
  inversion Hnd as [|? ? Hnin Hnd']; subst.
  replace (k_after_ts k ((s, n) :: t)) with (k_after_ts (k_add_ts k s n) t).
  - apply IH; [destruct k as [? ? ? ? ? ? ? ? ? ? ? ? ? [[[a b] c0] e]]; cbn; right; reflexivity|exact Hnd'|].
    intros kv Hin. destruct (Hit kv (or_intror Hin)) as (A & B & C). split; [exact A|]. split; [exact B|].
    cbn [k_add_ts k_ts lookup]. replace (n =? snd kv) with false; [exact C|]. symmetry. apply N.eqb_neq. intros ->.
    apply Hnin. apply in_map. exact Hin.
  - unfold k_after_ts. destruct t as [|kv t']; cbn [k_add_ts map rev length k_unit k_lprops k_cells k_target k_cn k_cnn k_cnp
      k_ts k_tsn k_pn k_pnn k_ps k_psn k_md swap_kv fst snd app]; [reflexivity|].
    assert (Emd : mode_set (mode_set (k_md k) 1 2) 1 2 = mode_set (k_md k) 1 2)
      by (destruct (k_md k) as [[[a b] c0] e]; reflexivity).
    rewrite Emd. f_equal; [rewrite <- !app_assoc; reflexivity|lia].
Qed.
Lemma csteps_propnames ois : forall items m k,
  (md2 (k_md k) = 0 \/ md2 (k_md k) = 2) -> NoDup (map snd items) ->
  (forall kv, In kv items -> wf_str (fst kv) /\ snd kv < lim26 /\ lookup (k_pn k) (snd kv) = None) ->
  csteps ois m k (numbered_name_records OasisRecord_PROPNAME items) m (k_after_pn k items).
Proof.
  induction items as [|[s n] t IH]; intros m k Hmd Hnd Hit; [constructor|].
  cbn [numbered_name_records map fst snd].
  destruct (Hit (s, n) (or_introl eq_refl)) as (Hs & Hn & Hl). cbn [fst snd] in *.
  change ((OasisRecord_PROPNAME :: wr_cstring s ++ enc_uint n) :: map (fun kv => OasisRecord_PROPNAME :: wr_cstring (fst kv) ++ enc_uint (snd kv)) t)
    with ([OasisRecord_PROPNAME :: wr_cstring s ++ enc_uint n] ++ numbered_name_records OasisRecord_PROPNAME t).
  eapply csteps_app; [apply (cstep_propname ois m k s n Hs Hn Hmd Hl)|].
  inversion Hnd as [|? ? Hnin Hnd']; subst.
  replace (k_after_pn k ((s, n) :: t)) with (k_after_pn (k_add_pn k s n) t).
  - apply IH; [destruct k as [? ? ? ? ? ? ? ? ? ? ? ? ? [[[a b] c0] e]]; cbn; right; reflexivity|exact Hnd'|].
    intros kv Hin. destruct (Hit kv (or_intror Hin)) as (A & B & C). split; [exact A|]. split; [exact B|].
    cbn [k_add_pn k_pn lookup]. replace (n =? snd kv) with false; [exact C|]. symmetry. apply N.eqb_neq. intros ->.
    apply Hnin. apply in_map. exact Hin.
  - unfold k_after_pn. destruct t as [|kv t']; cbn [k_add_pn map rev length k_unit k_lprops k_cells k_target k_cn k_cnn k_cnp
      k_ts k_tsn k_pn k_pnn k_ps k_psn k_md swap_kv fst snd app]; [reflexivity|].
    assert (Emd : mode_set (mode_set (k_md k) 2 2) 2 2 = mode_set (k_md k) 2 2)
      by (destruct (k_md k) as [[[a b] c0] e]; reflexivity).
    rewrite Emd. f_equal; [rewrite <- !app_assoc; reflexivity|lia].
Qed.
Lemma csteps_propstrings ois : forall vals m k s,
  (md3 (k_md k) = 0 \/ md3 (k_md k) = 1) -> k_psn k = N.of_nat s -> Forall wf_str vals ->
  (forall j, N.of_nat s <= j -> lookup (k_ps k) j = None) ->
  csteps ois m k (propstring_records vals) m (k_after_ps k s vals).
Proof.
  induction vals as [|v t IH]; intros m k s Hmd Hpsn Hv Hlk; [constructor|].
  cbn [propstring_records map]. inversion Hv as [|? ? Hv1 Hv2]; subst.
  change ((OasisRecord_PROPSTRING_IMPLICIT :: wr_cstring v) :: map (fun s0 => OasisRecord_PROPSTRING_IMPLICIT :: wr_cstring s0) t)
    with ([OasisRecord_PROPSTRING_IMPLICIT :: wr_cstring v] ++ propstring_records t).
  eapply csteps_app; [apply (cstep_propstring ois m k v Hv1 Hmd); apply Hlk; rewrite Hpsn; lia|].
  replace (k_after_ps k s (v :: t)) with (k_after_ps (k_add_ps k v) (S s) t).
  - apply IH; [destruct k as [? ? ? ? ? ? ? ? ? ? ? ? ? [[[a b] c0] e]]; cbn; right; reflexivity| |exact Hv2|].
    + cbn [k_add_ps k_psn]. rewrite Hpsn. lia.
    + intros j Hj. cbn [k_add_ps k_ps lookup]. rewrite Hpsn.
      replace (N.of_nat s =? j) with false by (symmetry; apply N.eqb_neq; lia). apply Hlk. lia.
  - unfold k_after_ps. destruct t as [|v' t']; cbn [k_add_ps map rev length enum_from k_unit k_lprops k_cells k_target k_cn
      k_cnn k_cnp k_ts k_tsn k_pn k_pnn k_ps k_psn k_md swap_kv fst snd app]; rewrite ?Hpsn.
    + unfold k_add_ps. rewrite Hpsn. cbn [swap_kv fst snd]. f_equal. lia.
    + assert (Emd : mode_set (mode_set (k_md k) 3 1) 3 1 = mode_set (k_md k) 3 1)
        by (destruct (k_md k) as [[[a b] c0] e]; reflexivity).
      rewrite Emd. f_equal; [rewrite <- !app_assoc; reflexivity|lia].
Qed.

(* ================================================================== the statement *)
Definition wcell_small (c : wcell) : Prop :=
  Forall wpoly_small (cl_polys c) /\ Forall wpath_small (cl_paths c) /\ Forall wref_small (cl_refs c) /\
  Forall wlabel_small (cl_labels c).

(* what the reader needs beyond wlib_ok (guards c2, c3 of OasisRead.v): layers, datatypes, text layers and text types
   below 2^32 (gdstk's Tag holds two 32-bit halves, so every library gdstk can hold satisfies this); at most 2^31
   vertices per polygon / path, repetition dimensions and explicit-list lengths below 2^31; and fewer than 2^26 distinct
   label texts and fewer than 2^26 distinct property names (the TEXTSTRING and PROPNAME records carry explicit reference
   numbers, which the reader accepts below 2^26) *)
Definition wlib_small (l : wlib) : Prop :=
  Forall wcell_small (li_cells l) /\
  forall cfg, nm_count (run_ts (write_oas_run cfg l)) <= lim26 /\ nm_count (ps_names (run_ps (write_oas_run cfg l))) <= lim26.

Lemma wcell_oks_intro c : wcell_okp c -> wcell_small c -> wcell_oks c.
Proof.
  intros (_ & H1 & H2 & H3 & H4 & _) (S1 & S2 & S3 & S4). unfold wcell_oks.
  split; [exact (Forall_conj _ _ _ (Forall_proj1 _ _ _ H1) S1)|]. split; [exact (Forall_conj _ _ _ (Forall_proj1 _ _ _ H2) S2)|].
  split; [exact (Forall_conj _ _ _ (Forall_proj1 _ _ _ H3) S3)|exact (Forall_conj _ _ _ (Forall_proj1 _ _ _ H4) S4)].
Qed.

Lemma Forall2_in_l {A B} (P : A -> B -> Prop) l1 l2 a : Forall2 P l1 l2 -> In a l1 -> exists b, In b l2 /\ P a b.
Proof.
  induction 1 as [|x y l1 l2 H1 H2 IH]; intros Hin; [destruct Hin|]. destruct Hin as [<-|Hin].
  - exists y. split; [left; reflexivity|exact H1].
  - destruct (IH Hin) as (b & Hb & Pb). exists b. split; [right; exact Hb|exact Pb].
Qed.

Lemma cells_res_nodup KF VF TF CN gcs l : cells_res KF VF TF CN gcs l -> NoDup (map cl_name l) -> NoDup (map c_name gcs).
Proof.
  intros H. induction H as [|gc c gcs cs H1 H2 IH]; intros Hnd; [constructor|].
  cbn [map] in *. inversion Hnd as [|? ? Hnin Hnd']; subst. constructor; [|apply IH; exact Hnd'].
  intros Hin. apply in_map_iff in Hin. destruct Hin as (gc' & En & Hin').
  destruct (Forall2_in_l _ _ _ gc' H2 Hin') as (c' & Hc' & (i' & Hi' & Hn' & _)).
  destruct H1 as (i & Hi & Hn & _). rewrite Hn, Hn' in En. injection En as ->.
  apply Hnin. apply in_map_iff. exists c'. split; [|exact Hc'].
  pose proof (cell_index_some CN _ _ Hi) as A. pose proof (cell_index_some CN _ _ Hi') as B. congruence.
Qed.

Lemma omap_total {A B} (f : A -> option B) l : (forall a, In a l -> exists b, f a = Some b) -> exists l', omap f l = Some l'.
Proof.
  induction l as [|a t IH]; intros H; [exists []; reflexivity|].
  destruct (H a (or_introl eq_refl)) as (b & Eb). destruct (IH (fun x Hx => H x (or_intror Hx))) as (t' & Et).
  exists (b :: t'). cbn [omap]. rewrite Eb. cbn [obnd]. rewrite Et. reflexivity.
Qed.
Lemma cnp_list_in pds : forall s kp, In kp (cnp_list s pds) -> exists pd, In pd pds /\ In (snd kp) pd.
Proof.
  induction pds as [|pd t IH]; intros s kp Hin; [destruct Hin|]. cbn [cnp_list] in Hin. apply in_app_or in Hin.
  destruct Hin as [Hin|Hin].
  - apply in_map_iff in Hin. destruct Hin as (p & <- & Hp). exists pd. split; [left; reflexivity|exact Hp].
  - destruct (IH _ _ Hin) as (pd' & H1 & H2). exists pd'. split; [right; exact H1|exact H2].
Qed.
Theorem writer_output_cov_decode_lemma : forall cfg l, wlib_ok l -> wlib_small l ->
  cov_oas_decode (write_oas_model cfg l) = Some (view_w cfg l).
Proof.
  intros cfg l (Hlp & Hnd & Hcells & Hsize) (Hsmall & Hcnt). specialize (Hsize cfg). specialize (Hcnt cfg).
  unfold view_w, cell_offsets. unfold write_oas_model in *. unfold write_oas_run in *.
  set (names := map cl_name (li_cells l)) in *.
  set (start := start_header ++ enc_real (li_unit l) ++ [1]) in *.
  (* the three stateful passes *)
  destruct (properties_to_oas_res (li_props l) pstate0 [] NR_names0) as (K1 & X1 & R1).
  pose proof (properties_to_oas_enc (li_props l) pstate0) as Enc1.
  destruct (properties_to_oas pstate0 (li_props l)) as [[r_lp d_lp] st1] eqn:E1. cbn [fst snd] in X1, R1, Enc1.
  set (pos1 := N.of_nat (length start) + reclen r_lp) in *.
  destruct (cells_to_oas_res names (li_cells l) [] pos1 names0 [] st1 K1 eq_refl Hnd NR_names0 (proj1 X1))
    as (T2 & K2 & HT2 & _ & X2 & R2).
  pose proof (cells_offsets_bound names (li_cells l) pos1 names0 st1) as Hoffs.
  destruct (cells_to_oas names pos1 names0 st1 (li_cells l)) as [[[[r_c d_c] offs] ts] st2] eqn:E2.
  cbn [fst snd] in HT2, X2, R2, Hoffs.
  destruct (cellnames_to_oas_res cfg names offs (li_cells l) st2 K2 (proj1 X2)) as (K3 & X3 & R3).
  pose proof (cellnames_records_bound cfg names offs (li_cells l) st2) as Hcnb.
  destruct (cellnames_to_oas cfg names offs st2 (li_cells l)) as [[r_cn d_cn] st3] eqn:E3.
  cbn [fst snd] in X3, R3, Hcnb.
  cbn [run_failed run_start run_records run_end run_offsets run_ts run_ps] in *.
  (* no hash-map failure *)
  destruct X3 as (NR3 & PK3 & PV3). destruct X2 as (NR2 & PK2 & PV2). destruct X1 as (NR1 & PK1 & PV1).
  assert (Hnf : nm_fail ts || nm_fail (ps_names st3) = false).
  { destruct HT2 as (F1 & _). destruct NR3 as (F2 & _). rewrite F1, F2. reflexivity. }
  rewrite Hnf in *.
  set (r_ts := numbered_name_records OasisRecord_TEXTSTRING (nm_items ts)) in *.
  set (r_pn := numbered_name_records OasisRecord_PROPNAME (nm_items (ps_names st3))) in *.
  set (r_ps := propstring_records (ps_vals st3)) in *.
  set (VF := ps_vals st3) in *.
  (* sizes *)
  assert (Hfile : N.of_nat (length start) + reclen r_lp + reclen r_c + reclen r_cn + reclen r_ts + reclen r_pn + reclen r_ps < two64).
  { rewrite !app_length in Hsize. rewrite !concat_app, !app_length in Hsize. unfold reclen. lia. }
  destruct (names_records_bounds OasisRecord_TEXTSTRING (nm_items ts)) as [Bts1 Bts2]. fold r_ts in Bts1, Bts2.
  destruct (names_records_bounds OasisRecord_PROPNAME (nm_items (ps_names st3))) as [Bpn1 Bpn2]. fold r_pn in Bpn1, Bpn2.
  destruct (propstring_records_bounds VF) as [Bps1 Bps2]. fold r_ps in Bps1, Bps2.
  assert (LK : len_ok K3) by (unfold len_ok; rewrite <- (NR_items_len _ _ NR3); lia).
  assert (LT : len_ok T2) by (unfold len_ok; rewrite <- (NR_items_len _ _ HT2); lia).
  assert (LV : len_ok VF) by (unfold len_ok; lia).
  assert (LC : len_ok names) by (unfold len_ok, names; rewrite map_length; lia).
  (* what is written is well formed *)
  assert (PK13 : prefix K1 K3) by (eapply prefix_trans; eassumption).
  assert (PV13 : prefix (ps_vals st1) VF) by (eapply prefix_trans; eassumption).
  pose proof (props_res_wf K3 VF d_lp (li_props l) (R1 K3 VF PK13 PV13) Hlp LK LV) as Wlp.
  pose proof (cells_res_wf K3 VF T2 names d_c (li_cells l) (R2 K3 VF T2 PK3 PV3 (prefix_refl _)) Hcells LK LV LT LC) as Wc.
  pose proof (cn_res_wf cfg names offs K3 VF (pos1 + reclen r_c) d_cn (li_cells l) (R3 K3 VF (prefix_refl _) (prefix_refl _))
                Hcells Hoffs ltac:(unfold pos1; lia) LK LV) as Wcn.
  (* the record loop *)
  set (u := real_of_bits (li_unit l)).
  destruct (csteps_props_lib false d_lp modal0 (k_init u) Wlp eq_refl eq_refl) as (m1 & SA & A1).
  set (kA := k_set_lprops (k_init u) (rev d_lp ++ k_lprops (k_init u))) in *.
  assert (Hoks : Forall wcell_oks (li_cells l)).
  { rewrite Forall_forall in *. intros c Hc. apply wcell_oks_intro; [apply Hcells|apply Hsmall]; exact Hc. }
  destruct (csteps_cells false names (li_cells l) pos1 names0 st1 r_c d_c offs ts st2 E2 Hoks Wc
              (cells_res_nodup _ _ _ _ _ _ (R2 K3 VF T2 PK3 PV3 (prefix_refl _)) Hnd) m1 kA A1
              (fun gc _ i _ => eq_refl)) as (m2 & tg2 & SB & A2).
  set (kB := k_set_cells kA (rev (map rcell_g d_c) ++ k_cells kA) tg2) in *.
  destruct (csteps_cellnames false cfg names offs (li_cells l) st2 r_cn d_cn st3 E3
              (Forall_impl _ (fun c (H : wcell_okp c) => proj1 H) Hcells) Wcn m2 kB 0%nat A2
              (or_introl eq_refl) eq_refl (fun j _ => eq_refl)) as (m3 & SC & A3).
  fold names in SC. set (kC := k_after_cellnames kB 0 names d_cn) in *.
  destruct (k_after_cellnames_fields kB 0 names d_cn) as (FC1 & FC2 & FC3 & FC4 & FC5 & FC6 & FC7 & FC8 & FC9 & FC10 & FC11 & FC12).
  fold kC in FC1, FC2, FC3, FC4, FC5, FC6, FC7, FC8, FC9, FC10, FC11, FC12.
  (* TEXTSTRING *)
  destruct (NR_items ts T2 HT2) as (NDts & INts & PMts).
  assert (SD : csteps false m3 kC r_ts m3 (k_after_ts kC (nm_items ts))).
  { apply csteps_textstrings; [left; rewrite FC10; reflexivity|apply (items_values_nodup _ _ PMts)|].
    intros kv Hin. split; [|split].
    - unfold wf_str. specialize (Bts2 kv Hin). lia.
    - destruct kv as [s v]. apply INts in Hin. cbn [snd].
      assert (N.to_nat v < length T2)%nat by (apply nth_error_Some; congruence).
      destruct Hcnt as [Hc1 _]. unfold nm_count in Hc1. rewrite (NR_count _ _ HT2) in Hc1. lia.
    - rewrite FC6. reflexivity. }
  set (kD := k_after_ts kC (nm_items ts)) in *.
  destruct (k_after_ts_fields kC (nm_items ts)) as (FD1 & FD2 & FD3 & FD4 & FD5 & FD6 & FD7 & FD8 & FD9 & FD10 & FD11).
  fold kD in FD1, FD2, FD3, FD4, FD5, FD6, FD7, FD8, FD9, FD10, FD11.
  (* PROPNAME *)
  destruct (NR_items (ps_names st3) K3 NR3) as (NDpn & INpn & PMpn).
  assert (SE : csteps false m3 kD r_pn m3 (k_after_pn kD (nm_items (ps_names st3)))).
  { apply csteps_propnames; [left; rewrite FD10, FC11; reflexivity|apply (items_values_nodup _ _ PMpn)|].
    intros kv Hin. split; [|split].
    - unfold wf_str. specialize (Bpn2 kv Hin). lia.
    - destruct kv as [s v]. apply INpn in Hin. cbn [snd].
      assert (N.to_nat v < length K3)%nat by (apply nth_error_Some; congruence).
      destruct Hcnt as [_ Hc2]. unfold nm_count in Hc2. rewrite (NR_count _ _ NR3) in Hc2. lia.
    - rewrite FD7, FC7. reflexivity. }
  set (kE := k_after_pn kD (nm_items (ps_names st3))) in *.
  destruct (k_after_pn_fields kD (nm_items (ps_names st3))) as (FE1 & FE2 & FE3 & FE4 & FE5 & FE6 & FE7 & FE8 & FE9 & FE10).
  fold kE in FE1, FE2, FE3, FE4, FE5, FE6, FE7, FE8, FE9, FE10.
  (* PROPSTRING *)
  assert (SF : csteps false m3 kE r_ps m3 (k_after_ps kE 0 VF)).
  { apply csteps_propstrings; [left; rewrite FE10, FD11, FC12; reflexivity|rewrite FE9, FD9, FC9; reflexivity| |].
    - apply Forall_forall. intros s Hin. unfold wf_str. specialize (Bps2 s Hin). lia.
    - intros j _. rewrite FE8, FD8, FC8. reflexivity. }
  set (kF := k_after_ps kE 0 VF) in *.
  destruct (k_after_ps_fields kE 0 VF) as (FF1 & FF2 & FF3 & FF4 & FF5 & FF6 & FF7 & FF8).
  fold kF in FF1, FF2, FF3, FF4, FF5, FF6, FF7, FF8.
  assert (Sall : csteps false modal0 (k_init u) (r_lp ++ r_c ++ r_cn ++ r_ts ++ r_pn ++ r_ps) m3 kF).
  { rewrite Enc1. eapply csteps_app; [exact SA|]. eapply csteps_app; [exact SB|]. eapply csteps_app; [exact SC|].
    eapply csteps_app; [exact SD|]. eapply csteps_app; [exact SE|exact SF]. }
  set (R := r_lp ++ r_c ++ r_cn ++ r_ts ++ r_pn ++ r_ps) in *.
  (* END *)
  pose proof (end_record_ok
                (match li_cells l with [] => 0 | _ :: _ => pos1 + reclen r_c end)
                (if 0 <? nm_count ts then pos1 + reclen r_c + reclen r_cn else 0)
                (if 0 <? nm_count (ps_names st3) then pos1 + reclen r_c + reclen r_cn + reclen r_ts else 0)
                (match VF with [] => 0 | _ :: _ => pos1 + reclen r_c + reclen r_cn + reclen r_ts + reclen r_pn end)) as Hend.
  match type of Hend with ?A -> ?B -> ?C -> ?D -> _ =>
    assert (W1 : A) by (unfold wf_u, pos1; destruct (li_cells l); lia);
    assert (W2 : B) by (unfold wf_u, pos1; destruct (0 <? nm_count ts); lia);
    assert (W3 : C) by (unfold wf_u, pos1; destruct (0 <? nm_count (ps_names st3)); lia);
    assert (W4 : D) by (unfold wf_u, pos1; destruct VF; lia)
  end.
  specialize (Hend W1 W2 W3 W4).
  destruct (end_record_w _ _ _ _) as [|code tail]; [contradiction|]. destruct Hend as [-> Hend].
  (* the tables at END *)
  assert (Epn : k_pn kF = rev (map swap_kv (nm_items (ps_names st3))) ++ []) by (rewrite FF7, FE7, FD7, FC7; reflexivity).
  assert (Eps : k_ps kF = rev (map swap_kv (enum_from 0 VF)) ++ []) by (rewrite FF8, FE8, FD8, FC8; reflexivity).
  assert (Ets : k_ts kF = rev (map swap_kv (nm_items ts)) ++ []) by (rewrite FF6, FE6, FD6, FC6; reflexivity).
  assert (Ecn : k_cn kF = rev (map swap_kv (enum_from 0 names)) ++ []) by (rewrite FF4, FE4, FD4, FC4; reflexivity).
  assert (Ecnp : k_cnp kF = rev (cnp_list 0 d_cn) ++ []) by (rewrite FF5, FE5, FD5, FC5; reflexivity).
  assert (Elp : k_lprops kF = rev d_lp ++ []) by (rewrite FF2, FE2, FD2, FC2; reflexivity).
  assert (Ecs : k_cells kF = rev (map rcell_g d_c) ++ []) by (rewrite FF3, FE3, FD3, FC3; reflexivity).
  assert (Eu : k_unit kF = u) by (rewrite FF1, FE1, FD1, FC1; reflexivity).
  assert (AgK : agrees (k_pn kF) K3) by (rewrite Epn; apply agrees_items; exact PMpn).
  assert (AgV : agrees (k_ps kF) VF) by (rewrite Eps; apply agrees_enum).
  assert (AgT : agrees (k_ts kF) T2) by (rewrite Ets; apply agrees_items; exact PMts).
  assert (AgC : agrees (k_cn kF) names) by (rewrite Ecn; apply agrees_enum).
  assert (Hfin : finalize (DS m3 kF) =
                 Some (mkLayout u (view_props (li_props l)) (map (view_cell cfg names offs) (li_cells l)))).
  { rewrite finalize_DS. rewrite Elp, app_nil_r, rev_involutive.
    rewrite (props_res_resolve (k_pn kF) (k_ps kF) K3 VF d_lp (li_props l) AgK AgV (R1 K3 VF PK13 PV13)). cbn [obnd].
    rewrite Ecs, app_nil_r, rev_involutive.
    pose proof (R2 K3 VF T2 PK3 PV3 (prefix_refl _)) as RC. pose proof (R3 K3 VF (prefix_refl _) (prefix_refl _)) as RN.
    rewrite (omap_nth (resolve_cell (DS m3 kF)) (map rcell_g d_c) (map (view_cell cfg names offs) (li_cells l))).
    - cbn [obnd]. rewrite Eu. reflexivity.
    - rewrite !map_length. apply (Forall2_length_eq _ _ _ RC).
    - intros j a b Ha Hb. rewrite nth_error_map in Ha, Hb.
      destruct (nth_error d_c j) as [gc|] eqn:Egc; [|discriminate]. destruct (nth_error (li_cells l) j) as [c|] eqn:Ec; [|discriminate].
      cbn [option_map] in Ha, Hb. injection Ha as <-. injection Hb as <-.
      destruct (Forall2_nth _ _ _ j gc c RC Egc Ec) as (i & Hi & Hres).
      assert (Hij : i = N.of_nat j).
      { pose proof (cell_index_some names (cl_name c) i Hi) as H1.
        assert (H2 : nth_error names j = Some (cl_name c)) by (unfold names; rewrite nth_error_map, Ec; reflexivity).
        assert (N.to_nat i = j); [|lia].
        apply (proj1 (NoDup_nth_error names) Hnd); [apply nth_error_Some; congruence|congruence]. }
      destruct (nth_error d_cn j) as [pd|] eqn:Epd.
      + apply (resolve_rcell_g m3 kF cfg names offs K3 VF T2 i gc c AgC AgT AgK AgV Hi Hres).
        rewrite Ecnp, app_nil_r, cnprops_rev, rev_involutive. rewrite Hij.
        change (N.of_nat j) with (N.of_nat (0 + j)). rewrite cnp_filter, Epd.
        apply (props_res_resolve (k_pn kF) (k_ps kF) K3 VF _ _ AgK AgV). apply (Forall2_nth _ _ _ j pd c RN Epd Ec).
      + exfalso. apply nth_error_None in Epd. rewrite (Forall2_length_eq _ _ _ RN) in Epd.
        assert (j < length (li_cells l))%nat by (apply nth_error_Some; congruence). lia. }
  (* (c8): every property given with a CELLNAME record resolves *)
  assert (Hc8 : exists x, omap (resolve_prop (k_pn kF) (k_ps kF)) (map snd (k_cnp kF)) = Some x).
  { apply omap_total. intros p Hin. apply in_map_iff in Hin. destruct Hin as (kp & <- & Hin).
    rewrite Ecnp, app_nil_r in Hin. apply in_rev in Hin. destruct (cnp_list_in _ _ _ Hin) as (pd & Hpd & Hp).
    pose proof (R3 K3 VF (prefix_refl _) (prefix_refl _)) as RN.
    destruct (Forall2_in_l _ _ _ pd RN Hpd) as (c & _ & Hres).
    destruct (Forall2_in_l _ _ _ (snd kp) Hres Hp) as (e & _ & He).
    exists (view_prop e). apply (prop_res_resolve (k_pn kF) (k_ps kF) K3 VF _ _ AgK AgV He). }
  destruct Hc8 as (x8 & Hc8).
  (* the header *)
  unfold cov_oas_decode. unfold start, start_header. rewrite <- !app_assoc. rewrite strip_prefix_app. cbn [obnd].
  change OasisRecord_START with 1. cbn [app rd_byte obnd N.eqb Pos.eqb negb].
  match goal with |- context [rd_string (3 :: 49 :: 46 :: 48 :: ?X)] =>
    change (3 :: 49 :: 46 :: 48 :: X) with (wr_string version_1_0 ++ X) end.
  rewrite rd_string_enc by (unfold wf_str, two64; cbn; lia). cbn [obnd].
  change (strip_prefix version_1_0 version_1_0) with (Some (@nil N)). cbn [obnd].
  change (length version_1_0 =? 3)%nat with true. cbn [negb].
  rewrite cov_real_enc_real. cbn [obnd app].
  rewrite rd_uint_small by lia. cbn [obnd N.ltb N.compare Pos.compare Pos.compare_cont N.eqb].
  change (d_init (real_of_bits (li_unit l))) with (DS modal0 (k_init u)).
  apply (cov_loop_mono (length R + 1)).
  - rewrite (csteps_loop false _ _ _ _ _ Sall 1%nat (2 :: tail)). cbn [cov_loop].
    unfold cov_record. cbn [rd_byte obnd]. rewrite Hend. unfold cov_finalize. cbn [DS d_propnames d_propstrings d_cn_props].
    rewrite Hc8. cbn [obnd]. rewrite Hfin. reflexivity.
  - rewrite app_length. pose proof (concat_length_ge R (csteps_nonempty _ _ _ _ _ _ Sall)). cbn [length]. lia.
Qed.

Theorem writer_output_covered_lemma : forall cfg l, wlib_ok l -> wlib_small l -> covered (write_oas_model cfg l).
Proof. intros cfg l H1 H2. unfold covered. rewrite (writer_output_cov_decode_lemma cfg l H1 H2). discriminate. Qed.

(* save then load on the two statement-level models, with no condition on the stream *)
Theorem oas_models_roundtrip_full_lemma : forall cfg l, wlib_ok l -> wlib_small l ->
  read_oas_model (write_oas_model cfg l) = Ok (OasisRead.view (view_w cfg l)).
Proof.
  intros cfg l H1 H2. apply OasisReadProofs.cov_reader_ok_lemma. apply writer_output_cov_decode_lemma; assumption.
Qed.

(* non-vacuity *)
Example sample_wlib_small : wlib_small sample_wlib.
Proof.
  split.
  - repeat (first [apply Forall_nil | apply Forall_cons | split]); unfold u32, lim31; cbn; try exact I; lia.
  - intros [[|]]; vm_compute; split; discriminate.
Qed.
Example sample_wlib_roundtrip :
  read_oas_model (write_oas_model (mkWCfg true) sample_wlib) = Ok (OasisRead.view (view_w (mkWCfg true) sample_wlib)).
Proof. apply oas_models_roundtrip_full_lemma; [exact sample_wlib_ok|exact sample_wlib_small]. Qed.

Check writer_output_covered_lemma.
Check oas_models_roundtrip_full_lemma.
Print Assumptions writer_output_covered_lemma.
Print Assumptions oas_models_roundtrip_full_lemma.
