(* C19R2 (to be merged into C19) - OASIS reals: the decoder accepts every alternative spelling of a value
   (ratio types 4 / 5 in any legal integer spelling, IEEE single type 6) and all spellings of one value
   decode to one bit pattern.  Theorem-only file: every proof is `exact <lemma>`; Print Assumptions under each. *)
Require Import Base OasisInt OasisIntProofs GdsReal GdsRealProofs OasisReal OasisRealProofs OasisReal2Proofs.
From Coq Require Import Reals.
From Flocq Require Import Core BinarySingleNaN Binary Bits.
Local Open Scope Z_scope.

(* type 6, every finite single (normal, subnormal, +0, -0): same real value, same sign, finite, whatever follows *)
Theorem oas_real_float_form_thm : forall (f : binary32) rest,
  is_finite 24 128 f = true ->
  exists d : binary64,
    dec_real (6%N :: bytes_le 4 (Z.to_N (bits_of_b32 f)) ++ rest) = Ok (bits64 d, rest)
    /\ is_finite 53 1024 d = true /\ B2R 53 1024 d = B2R 24 128 f /\ Bsign 53 1024 d = Bsign 24 128 f
    /\ b64_of_bits (Z.of_N (bits64 d)) = d.
Proof. exact oas_real_float_form_lemma. Qed.
Print Assumptions oas_real_float_form_thm.

(* type 6: infinities keep their sign, every NaN reads as a NaN *)
Theorem oas_real_float_form_special_thm : forall rest,
  (forall s, dec_real (6%N :: bytes_le 4 (Z.to_N (bits_of_b32 (B754_infinity 24 128 s))) ++ rest)
             = Ok ((if s then 18442240474082181120 else 9218868437227405312)%N, rest))
  /\ (forall s pl H, dec_real (6%N :: bytes_le 4 (Z.to_N (bits_of_b32 (B754_nan 24 128 s pl H))) ++ rest)
             = Ok (b64_qnan_bits, rest))
  /\ is_nan 53 1024 (b64_of_bits (Z.of_N b64_qnan_bits)) = true.
Proof. exact oas_real_float_form_special_lemma. Qed.
Print Assumptions oas_real_float_form_special_thm.

(* type 6 with fewer than four bytes left: short read *)
Theorem oas_real_float_form_truncated_thm : forall l, (length l < 4)%nat -> dec_real (6%N :: l) = ErrEof.
Proof. exact oas_real_float_form_truncated_lemma. Qed.
Print Assumptions oas_real_float_form_truncated_thm.

(* types 4 / 5, denominator not 0, every pair of 64-bit operands in every legal spelling of at most 10 bytes:
   round_NE (round_NE num / round_NE den), negated (sign bit set) for type 5 *)
Theorem oas_real_ratio_form_thm : forall en ed num den rest,
  enc_ok_uint en num -> (length en <= 10)%nat -> (num < two64)%N ->
  enc_ok_uint ed den -> (length ed <= 10)%nat -> (den < two64)%N -> (0 < den)%N ->
  let q := round radix2 (FLT_exp (-1074) 53) ZnearestE
             (round radix2 (FLT_exp (-1074) 53) ZnearestE (IZR (Z.of_N num))
              / round radix2 (FLT_exp (-1074) 53) ZnearestE (IZR (Z.of_N den))) in
  (exists d : binary64,
     dec_real (4%N :: en ++ ed ++ rest) = Ok (bits64 d, rest)
     /\ is_finite 53 1024 d = true /\ B2R 53 1024 d = q /\ Bsign 53 1024 d = false
     /\ b64_of_bits (Z.of_N (bits64 d)) = d)
  /\ (exists d : binary64,
     dec_real (5%N :: en ++ ed ++ rest) = Ok (bits64 d, rest)
     /\ is_finite 53 1024 d = true /\ B2R 53 1024 d = (- q)%R /\ Bsign 53 1024 d = true
     /\ b64_of_bits (Z.of_N (bits64 d)) = d).
Proof. exact oas_real_ratio_form_lemma. Qed.
Print Assumptions oas_real_ratio_form_thm.

(* operands below 2^53: the correctly rounded quotient of the integers themselves *)
Theorem oas_real_ratio_form_small_thm : forall en ed num den rest,
  enc_ok_uint en num -> (length en <= 10)%nat -> (num < 2 ^ 53)%N ->
  enc_ok_uint ed den -> (length ed <= 10)%nat -> (den < 2 ^ 53)%N -> (0 < den)%N ->
  let q := round radix2 (FLT_exp (-1074) 53) ZnearestE (IZR (Z.of_N num) / IZR (Z.of_N den)) in
  (exists d : binary64,
     dec_real (4%N :: en ++ ed ++ rest) = Ok (bits64 d, rest)
     /\ is_finite 53 1024 d = true /\ B2R 53 1024 d = q /\ Bsign 53 1024 d = false)
  /\ (exists d : binary64,
     dec_real (5%N :: en ++ ed ++ rest) = Ok (bits64 d, rest)
     /\ is_finite 53 1024 d = true /\ B2R 53 1024 d = (- q)%R /\ Bsign 53 1024 d = true).
Proof. exact oas_real_ratio_form_small_lemma. Qed.
Print Assumptions oas_real_ratio_form_small_thm.

(* denominator 0: +inf / -inf (7FF0.., FFF0..) for a non-zero numerator, the quiet NaN 7FF8.. for 0 / 0 *)
Theorem oas_real_ratio_zero_den_thm : forall en ez num rest,
  enc_ok_uint en num -> (length en <= 10)%nat -> (num < two64)%N ->
  enc_ok_uint ez 0%N -> (length ez <= 10)%nat ->
  dec_real (4%N :: en ++ ez ++ rest)
    = Ok ((if (num =? 0)%N then 9221120237041090560 else 9218868437227405312)%N, rest)
  /\ dec_real (5%N :: en ++ ez ++ rest)
    = Ok ((if (num =? 0)%N then 9221120237041090560 else 18442240474082181120)%N, rest).
Proof. exact oas_real_ratio_zero_den_lemma. Qed.
Print Assumptions oas_real_ratio_zero_den_thm.

(* a double that is exactly num / den (both below 2^53) comes back bit for bit from the ratio spelling *)
Theorem oas_real_ratio_exact_thm : forall (v : binary64) en ed num den rest,
  is_finite 53 1024 v = true ->
  enc_ok_uint en num -> (length en <= 10)%nat -> (num < 2 ^ 53)%N ->
  enc_ok_uint ed den -> (length ed <= 10)%nat -> (den < 2 ^ 53)%N -> (0 < den)%N ->
  Rabs (B2R 53 1024 v) = (IZR (Z.of_N num) / IZR (Z.of_N den))%R ->
  dec_real ((if Bsign 53 1024 v then 5%N else 4%N) :: en ++ ed ++ rest) = Ok (bits64 v, rest).
Proof. exact oas_real_ratio_exact_lemma. Qed.
Print Assumptions oas_real_ratio_exact_thm.

(* n / 1 reads like the integer n and 1 / n like the reciprocal of n, for every 64-bit n *)
Theorem oas_real_ratio_respells_thm : forall en e1 n rest,
  enc_ok_uint en n -> (length en <= 10)%nat -> (n < two64)%N ->
  enc_ok_uint e1 1%N -> (length e1 <= 10)%nat ->
  dec_real (4%N :: en ++ e1 ++ rest) = dec_real (0%N :: en ++ rest)
  /\ dec_real (5%N :: en ++ e1 ++ rest) = dec_real (1%N :: en ++ rest)
  /\ dec_real (4%N :: e1 ++ en ++ rest) = dec_real (2%N :: en ++ rest)
  /\ dec_real (5%N :: e1 ++ en ++ rest) = dec_real (3%N :: en ++ rest).
Proof. exact oas_real_ratio_respells_lemma. Qed.
Print Assumptions oas_real_ratio_respells_thm.

(* all spellings of one finite double decode to its one bit pattern *)
Theorem oas_real_all_spellings_agree_thm : forall bits rest,
  (bits < 2 ^ 64)%N ->
  let v := b64_of_bits (Z.of_N bits) in
  is_finite 53 1024 v = true ->
  dec_real (7%N :: bytes_le 8 bits ++ rest) = Ok (bits, rest)
  /\ (forall en ed num den,
        enc_ok_uint en num -> (length en <= 10)%nat -> (num < two64)%N ->
        enc_ok_uint ed den -> (length ed <= 10)%nat -> (den < two64)%N -> (0 < den)%N ->
        generic_format radix2 (FLT_exp (-1074) 53) (IZR (Z.of_N num)) ->
        generic_format radix2 (FLT_exp (-1074) 53) (IZR (Z.of_N den)) ->
        Rabs (B2R 53 1024 v) = (IZR (Z.of_N num) / IZR (Z.of_N den))%R ->
        dec_real ((if Bsign 53 1024 v then 5%N else 4%N) :: en ++ ed ++ rest) = Ok (bits, rest))
  /\ (forall f : binary32, is_finite 24 128 f = true -> B2R 24 128 f = B2R 53 1024 v ->
        Bsign 24 128 f = Bsign 53 1024 v ->
        dec_real (6%N :: bytes_le 4 (Z.to_N (bits_of_b32 f)) ++ rest) = Ok (bits, rest))
  /\ (bits <> 9223372036854775808%N -> dec_real (enc_real bits ++ rest) = Ok (bits, rest))
  /\ (forall ty n en e1, bits <> 9223372036854775808%N ->
        enc_real bits = ty :: enc_uint n -> (ty = 0 \/ ty = 1)%N -> (n < two64)%N ->
        enc_ok_uint en n -> (length en <= 10)%nat -> enc_ok_uint e1 1%N -> (length e1 <= 10)%nat ->
        dec_real (ty :: en ++ rest) = Ok (bits, rest)
        /\ dec_real ((ty + 4)%N :: en ++ e1 ++ rest) = Ok (bits, rest))
  /\ (forall ty n en e1,
        enc_real bits = ty :: enc_uint n -> (ty = 2 \/ ty = 3)%N -> (n < two64)%N ->
        enc_ok_uint en n -> (length en <= 10)%nat -> enc_ok_uint e1 1%N -> (length e1 <= 10)%nat ->
        dec_real (ty :: en ++ rest) = Ok (bits, rest)
        /\ dec_real ((ty + 2)%N :: e1 ++ en ++ rest) = Ok (bits, rest)).
Proof. exact oas_real_all_spellings_agree_lemma. Qed.
Print Assumptions oas_real_all_spellings_agree_thm.

(* integers below 2^53 meet the `generic_format` hypotheses above *)
Theorem oas_real_small_int_is_double_thm : forall z, Z.abs z < 2 ^ 53 ->
  generic_format radix2 (FLT_exp (-1074) 53) (IZR z).
Proof. exact fmt64_small_int. Qed.
Print Assumptions oas_real_small_int_is_double_thm.
