(* C17, raw cells: on every stream the strict grammar accepts, read_rawcells finds exactly the structures the
   full reader loads (names, referenced names), and the byte ranges it records are consecutive, start at the
   BGNSTR records and tile the structure section of the file: copying them back (RawCell::to_gds) between a
   library header and ENDLIB reproduces that section byte for byte. *)
Require Import Base GdsFrame GdsFrameProofs GdsModel GdsWrite GdsRoundtrip GdsSpec GdsSpecProofs GdsRaw GdsTransplant.
From Coq Require Import ZArith Lia ZifyBool ZifyN ZifyNat.
Local Open Scope N_scope.

Fixpoint run_raw (st : rawst) (l : recs) : rawst + rawres :=
  match l with
  | [] => inl st
  | r :: tl => match step_raw st r with inl st' => run_raw st' tl | inr x => inr x end
  end.

Definition total (l : recs) : N := fold_right (fun r a => rec_len r + a) 0 l.
Lemma total_app a b : total (a ++ b) = total a + total b.
Proof. induction a as [|r a IH]; cbn [app total fold_right]; [reflexivity|]. fold (total (a ++ b)). fold (total a). lia. Qed.

Definition opened c tl m p := {| w_cells := c :: tl; w_open := true; w_map := m; w_pos := p |}.
Definition closed cells m p := {| w_cells := cells; w_open := false; w_map := m; w_pos := p |}.
Definition bump (n : N) (ds : list bytes) (c : rawc) : rawc :=
  {| rc_name := rc_name c; rc_off := rc_off c; rc_size := rc_size c + n; rc_deps := rc_deps c ++ ds |}.

Lemma bump_0 c : bump 0 [] c = c.
Proof. destruct c. unfold bump. cbn. f_equal; [lia|apply app_nil_r]. Qed.
Lemma bump_bump a b d1 d2 c : bump b d2 (bump a d1 c) = bump (a + b) (d1 ++ d2) c.
Proof. unfold bump. cbn. f_equal; [lia|rewrite app_assoc; reflexivity]. Qed.

Definition quiet (t : N) : Prop := t <> 4 /\ t <> 5 /\ t <> 6 /\ t <> 7 /\ t <> 18.
Ltac quiet_num := unfold quiet; repeat split; discriminate.

Lemma step_raw_quiet c tl m p r : quiet (rtype r) ->
  step_raw (opened c tl m p) r = inl (opened (bump (rec_len r) [] c) tl m (p + rec_len r)).
Proof.
  intros (H4 & H5 & H6 & H7 & H18). unfold step_raw.
  assert (E : forall (A : Type) (a4 a5 a6 a7 a18 d : A),
             match rtype r with 4 => a4 | 5 => a5 | 6 => a6 | 7 => a7 | 18 => a18 | _ => d end = d).
  { intros. destruct (rtype r) as [|q]; [reflexivity|].
    do 5 (try (destruct q as [q|q|])); try reflexivity; congruence. }
  rewrite E. cbn. unfold opened, bump, grow. cbn. rewrite app_nil_r. reflexivity.
Qed.

Lemma step_raw_sname c tl m p r : rtype r = 18 ->
  step_raw (opened c tl m p) r = inl (opened (bump (rec_len r) [strip_nul (payload r)] c) tl m (p + rec_len r)).
Proof. intros H. unfold step_raw. rewrite H. reflexivity. Qed.

(* `l` starts with records (the consumed prefix) that leave an open cell open, add their lengths to its size and
   append `ds` to its dependency names *)
Definition eats (l rest : recs) (ds : list bytes) : Prop :=
  exists pre, l = pre ++ rest /\
    forall c tl m p rest', run_raw (opened c tl m p) (pre ++ rest')
                         = run_raw (opened (bump (total pre) ds c) tl m (p + total pre)) rest'.

Lemma eats_refl l : eats l l [].
Proof.
  exists []. split; [reflexivity|]. intros. cbn [app total fold_right]. rewrite bump_0, N.add_0_r. reflexivity.
Qed.

Lemma eats_trans l l1 l2 d1 d2 : eats l l1 d1 -> eats l1 l2 d2 -> eats l l2 (d1 ++ d2).
Proof.
  intros (p1 & -> & H1) (p2 & -> & H2). exists (p1 ++ p2). split; [rewrite app_assoc; reflexivity|].
  intros. rewrite <- app_assoc, H1, H2, bump_bump, total_app, N.add_assoc. reflexivity.
Qed.

Lemma eats_trans0 l l1 l2 d : eats l l1 [] -> eats l1 l2 d -> eats l l2 d.
Proof. intros A B. exact (eats_trans _ _ _ _ _ A B). Qed.
Lemma eats_trans1 l l1 l2 d : eats l l1 d -> eats l1 l2 [] -> eats l l2 d.
Proof. intros A B. pose proof (eats_trans _ _ _ _ _ A B) as H. rewrite app_nil_r in H. exact H. Qed.

Lemma eats_quiet r tl : quiet (rtype r) -> eats (r :: tl) tl [].
Proof.
  intros Hq. exists [r]. split; [reflexivity|]. intros. cbn [app run_raw]. rewrite step_raw_quiet by exact Hq.
  cbn [total fold_right]. rewrite N.add_0_r. reflexivity.
Qed.
Lemma eats_sname r tl : rtype r = 18 -> eats (r :: tl) tl [strip_nul (payload r)].
Proof.
  intros Hq. exists [r]. split; [reflexivity|]. intros. cbn [app run_raw]. rewrite step_raw_sname by exact Hq.
  cbn [total fold_right]. rewrite N.add_0_r. reflexivity.
Qed.

(* ------------------------------------------------------------------ grammar combinators *)
Lemma eats_skip_flags : forall l, eats l (skip_flags l) [].
Proof.
  induction l as [|r l IH]; [apply eats_refl|]. cbn [skip_flags].
  destruct ((rtype r =? 38) || (rtype r =? 47)) eqn:E; [|apply eats_refl].
  apply eats_trans0 with (l1 := l); [|exact IH]. apply eats_quiet.
  apply orb_prop in E. destruct E as [E|E]; apply N.eqb_eq in E; rewrite E; quiet_num.
Qed.
Lemma eats_skip_strclass : forall l, eats l (skip_strclass l) [].
Proof.
  induction l as [|r l IH]; [apply eats_refl|]. cbn [skip_strclass].
  destruct (rtype r =? 52) eqn:E; [|apply eats_refl].
  apply eats_trans0 with (l1 := l); [|exact IH]. apply eats_quiet. apply N.eqb_eq in E. rewrite E. quiet_num.
Qed.
Lemma eats_take1 t d n l r l1 : quiet t -> take1 t d n l = Some (r, l1) -> eats l l1 [].
Proof. intros Hq H. destruct (take1_some _ _ _ _ _ _ H) as (-> & Ht & _). apply eats_quiet. rewrite Ht. exact Hq. Qed.
Lemma eats_opt1 t d n l o l1 : quiet t -> opt1 t d n l = (o, l1) -> eats l l1 [].
Proof.
  intros Hq H. destruct (opt1_cases _ _ _ _ _ _ H) as [[-> ->]|(r & -> & -> & Ht & _)]; [apply eats_refl|].
  apply eats_quiet. rewrite Ht. exact Hq.
Qed.
Lemma eats_xy_more : forall l pts rest, take_xy_more l = (pts, rest) -> eats l rest [].
Proof.
  induction l as [|r l IH]; intros pts rest; cbn [take_xy_more]; [intros [= <- <-]; apply eats_refl|].
  destruct (is_rec 16 3 r && (plen r mod 8 =? 0)) eqn:E.
  - destruct (take_xy_more l) as [pts' rest'] eqn:El. intros [= <- <-].
    destruct (xy_cond r E) as [Ht _]. apply eats_trans0 with (l1 := l); [|apply (IH _ _ eq_refl)].
    apply eats_quiet. rewrite Ht. quiet_num.
  - intros [= <- <-]. apply eats_refl.
Qed.
Lemma eats_xy l pts rest : take_xy l = Some (pts, rest) -> eats l rest [].
Proof.
  unfold take_xy. destruct l as [|r l]; [discriminate|].
  destruct (is_rec 16 3 r && (plen r mod 8 =? 0)) eqn:E; [|discriminate].
  destruct (take_xy_more l) as [pts' rest'] eqn:El. intros [= <- <-].
  destruct (xy_cond r E) as [Ht _]. apply eats_trans0 with (l1 := l); [|apply (eats_xy_more _ _ _ El)].
  apply eats_quiet. rewrite Ht. quiet_num.
Qed.
Lemma eats_props : forall l acc ps rest, take_props acc l = (ps, rest) -> eats l rest [].
Proof.
  fix IH 1. intros l acc ps rest. destruct l as [|ra [|rv l]]; cbn [take_props]; try (intros [= <- <-]; apply eats_refl).
  destruct (is_rec 43 2 ra && (plen ra =? 2) && is_rec 44 6 rv) eqn:E; [|intros [= <- <-]; apply eats_refl].
  intros H. apply andb_prop in E. destruct E as [E Ev]. apply andb_prop in E. destruct E as [Ea _].
  apply is_rec_true in Ea, Ev. destruct Ea as [Hta _]. destruct Ev as [Htv _].
  apply eats_trans0 with (l1 := rv :: l); [apply eats_quiet; rewrite Hta; quiet_num|].
  apply eats_trans0 with (l1 := l); [apply eats_quiet; rewrite Htv; quiet_num|]. apply (IH _ _ _ _ H).
Qed.
Lemma eats_endel l tl : take_endel l = Some tl -> eats l tl [].
Proof. intros H. destruct (take_endel_some _ _ H) as (r & -> & Ht). apply eats_quiet. rewrite Ht. quiet_num. Qed.
Lemma eats_str t l s tl : quiet t -> take_str t l = Some (s, tl) -> eats l tl [].
Proof. intros Hq H. destruct (take_str_some _ _ _ _ H) as (r & -> & Ht & _). apply eats_quiet. rewrite Ht. exact Hq. Qed.
Lemma eats_strans l v l' : take_strans l = (v, l') -> eats l l' [].
Proof.
  unfold take_strans. destruct (take1 26 1 2 l) as [[rs l1]|] eqn:H1.
  - destruct (opt1 27 5 8 l1) as [om l2] eqn:H2. destruct (opt1 28 5 8 l2) as [oa l3] eqn:H3.
    intros [= <- <-].
    apply eats_trans0 with (l1 := l1); [apply (eats_take1 26 _ _ _ _ _ ltac:(quiet_num) H1)|].
    apply eats_trans0 with (l1 := l2); [apply (eats_opt1 27 _ _ _ _ _ ltac:(quiet_num) H2)|].
    apply (eats_opt1 28 _ _ _ _ _ ltac:(quiet_num) H3).
  - intros [= <- <-]. apply eats_refl.
Qed.

Definition elem_deps (e : gelem) : list bytes := match e with ERef r => [r_name r] | _ => [] end.

Ltac chain H := eapply eats_trans0; [H|].

Lemma eats_boundary box l e rest : spec_boundary box l = Some (e, rest) -> eats l rest (elem_deps e).
Proof.
  unfold spec_boundary. intros H. eapply eats_trans0; [apply eats_skip_flags|]. revert H. generalize (skip_flags l). clear l. intros l.
  destruct (take1 13 2 2 l) as [[rl l1]|] eqn:H1; [|discriminate].
  destruct (take1 (if box then 46 else 14) 2 2 l1) as [[rt l2]|] eqn:H2; [|discriminate].
  destruct (take_xy l2) as [[pts l3]|] eqn:H3; [|discriminate].
  destruct (take_props [] l3) as [prs l4] eqn:H4.
  destruct (take_endel l4) as [l5|] eqn:H5; [|discriminate].
  destruct (closed_poly pts) as [opn|] eqn:H6; [|discriminate].
  intros [= <- <-]. cbn [elem_deps].
  eapply eats_trans0; [apply (eats_take1 13 _ _ _ _ _ ltac:(quiet_num) H1)|].
  assert (Hq : quiet (if box then 46 else 14)) by (destruct box; quiet_num).
  eapply eats_trans0; [apply (eats_take1 _ _ _ _ _ _ Hq H2)|].
  eapply eats_trans0; [apply (eats_xy _ _ _ H3)|].
  eapply eats_trans0; [apply (eats_props _ _ _ _ H4)|]. apply (eats_endel _ _ H5).
Qed.

Lemma eats_path l e rest : spec_path l = Some (e, rest) -> eats l rest (elem_deps e).
Proof.
  unfold spec_path. intros H. eapply eats_trans0; [apply eats_skip_flags|]. revert H. generalize (skip_flags l). clear l. intros l.
  destruct (take1 13 2 2 l) as [[rl l1]|] eqn:H1; [|discriminate].
  destruct (take1 14 2 2 l1) as [[rt l2]|] eqn:H2; [|discriminate].
  destruct (opt1 33 2 2 l2) as [opt_ l3] eqn:H3.
  destruct (opt1 15 3 4 l3) as [ow l4] eqn:H4.
  destruct (opt1 48 3 4 l4) as [ob l5] eqn:H5.
  destruct (opt1 49 3 4 l5) as [oe l6] eqn:H6.
  destruct (width_ok ow) eqn:Hwok; [|discriminate].
  destruct (take_xy1 l6) as [[pts l7]|] eqn:H7x; [|discriminate]. pose proof (take_xy1_some _ _ H7x) as H7.
  destruct (take_props [] l7) as [prs l8] eqn:H8.
  destruct (take_endel l8) as [l9|] eqn:H9; [|discriminate].
  intros [= <- <-]. cbn [elem_deps].
  eapply eats_trans0; [apply (eats_take1 13 _ _ _ _ _ ltac:(quiet_num) H1)|].
  eapply eats_trans0; [apply (eats_take1 14 _ _ _ _ _ ltac:(quiet_num) H2)|].
  eapply eats_trans0; [apply (eats_opt1 33 _ _ _ _ _ ltac:(quiet_num) H3)|].
  eapply eats_trans0; [apply (eats_opt1 15 _ _ _ _ _ ltac:(quiet_num) H4)|].
  eapply eats_trans0; [apply (eats_opt1 48 _ _ _ _ _ ltac:(quiet_num) H5)|].
  eapply eats_trans0; [apply (eats_opt1 49 _ _ _ _ _ ltac:(quiet_num) H6)|].
  eapply eats_trans0; [apply (eats_xy _ _ _ H7)|].
  eapply eats_trans0; [apply (eats_props _ _ _ _ H8)|]. apply (eats_endel _ _ H9).
Qed.

Lemma eats_ref array l e rest : spec_ref array l = Some (e, rest) -> eats l rest (elem_deps e).
Proof.
  unfold spec_ref. intros H. eapply eats_trans0; [apply eats_skip_flags|]. revert H. generalize (skip_flags l). clear l. intros l.
  destruct (take_str 18 l) as [[rn l1]|] eqn:H1; [|discriminate].
  destruct (take_strans l1) as [[[refl mag] rot] l2] eqn:H2.
  destruct (take_str_some _ _ _ _ H1) as (r18 & -> & Ht18 & ->).
  assert (Hs : eats (r18 :: l1) l2 [strip_nul (payload r18)]).
  { eapply eats_trans1; [apply (eats_sname _ _ Ht18)|]. apply (eats_strans _ _ _ H2). }
  destruct array.
  - destruct (take1 19 2 4 l2) as [[rc l3]|] eqn:H3; [|discriminate].
    destruct (colrow_ok rc) eqn:Hcr; [|discriminate].
    destruct (take1 16 3 24 l3) as [[rx l4]|] eqn:H4; [|discriminate].
    destruct (take_props [] l4) as [prs l5] eqn:H5.
    destruct (take_endel l5) as [l6|] eqn:H6; [|discriminate].
    intros [= <- <-]. cbn [elem_deps r_name].
    eapply eats_trans1; [exact Hs|].
    eapply eats_trans0; [apply (eats_take1 19 _ _ _ _ _ ltac:(quiet_num) H3)|].
    eapply eats_trans0; [apply (eats_take1 16 _ _ _ _ _ ltac:(quiet_num) H4)|].
    eapply eats_trans0; [apply (eats_props _ _ _ _ H5)|]. apply (eats_endel _ _ H6).
  - destruct (take1 16 3 8 l2) as [[rx l4]|] eqn:H4; [|discriminate].
    destruct (take_props [] l4) as [prs l5] eqn:H5.
    destruct (take_endel l5) as [l6|] eqn:H6; [|discriminate].
    intros [= <- <-]. cbn [elem_deps r_name].
    eapply eats_trans1; [exact Hs|].
    eapply eats_trans0; [apply (eats_take1 16 _ _ _ _ _ ltac:(quiet_num) H4)|].
    eapply eats_trans0; [apply (eats_props _ _ _ _ H5)|]. apply (eats_endel _ _ H6).
Qed.

Lemma eats_text l e rest : spec_text l = Some (e, rest) -> eats l rest (elem_deps e).
Proof.
  unfold spec_text. intros H. eapply eats_trans0; [apply eats_skip_flags|]. revert H. generalize (skip_flags l). clear l. intros l.
  destruct (take1 13 2 2 l) as [[rl l1]|] eqn:H1; [|discriminate].
  destruct (take1 22 2 2 l1) as [[rt l2]|] eqn:H2; [|discriminate].
  destruct (opt1 23 1 2 l2) as [opr l3] eqn:H3.
  destruct (opt1 33 2 2 l3) as [o33 l4] eqn:H4.
  destruct (opt1 15 3 4 l4) as [o15 l5] eqn:H5.
  destruct (width_ok o15) eqn:Hwok; [|discriminate].
  destruct (take_strans l5) as [[[refl mag] rot] l6] eqn:H6.
  destruct (take1 16 3 8 l6) as [[rx l7]|] eqn:H7; [|discriminate].
  destruct (take_str 25 l7) as [[tx l8]|] eqn:H8; [|discriminate].
  destruct (take_props [] l8) as [prs l9] eqn:H9.
  destruct (take_endel l9) as [l10|] eqn:H10; [|discriminate].
  intros [= <- <-]. cbn [elem_deps].
  eapply eats_trans0; [apply (eats_take1 13 _ _ _ _ _ ltac:(quiet_num) H1)|].
  eapply eats_trans0; [apply (eats_take1 22 _ _ _ _ _ ltac:(quiet_num) H2)|].
  eapply eats_trans0; [apply (eats_opt1 23 _ _ _ _ _ ltac:(quiet_num) H3)|].
  eapply eats_trans0; [apply (eats_opt1 33 _ _ _ _ _ ltac:(quiet_num) H4)|].
  eapply eats_trans0; [apply (eats_opt1 15 _ _ _ _ _ ltac:(quiet_num) H5)|].
  eapply eats_trans0; [apply (eats_strans _ _ _ H6)|].
  eapply eats_trans0; [apply (eats_take1 16 _ _ _ _ _ ltac:(quiet_num) H7)|].
  eapply eats_trans0; [apply (eats_str 25 _ _ _ ltac:(quiet_num) H8)|].
  eapply eats_trans0; [apply (eats_props _ _ _ _ H9)|]. apply (eats_endel _ _ H10).
Qed.

Lemma eats_element l e rest : spec_element l = Some (e, rest) -> eats l rest (elem_deps e).
Proof.
  unfold spec_element. destruct l as [|r tl]; [discriminate|].
  destruct (plen r =? 0); [|discriminate].
  destruct (rtype r) as [|q] eqn:Ht; [discriminate|].
  do 6 (try (destruct q as [q|q|])); try discriminate; intros H;
    (eapply eats_trans0; [apply eats_quiet; rewrite Ht; quiet_num|]);
    first [apply (eats_boundary _ _ _ _ H) | apply (eats_path _ _ _ H) | apply (eats_ref _ _ _ _ H) | apply (eats_text _ _ _ H)].
Qed.

Lemma eats_elements : forall fuel l es rest, spec_elements fuel l = Some (es, rest) ->
  exists r7, rtype r7 = 7 /\ eats l (r7 :: rest) (flat_map elem_deps es).
Proof.
  induction fuel as [|f IH]; intros l es rest; cbn [spec_elements]; [discriminate|].
  destruct l as [|r tl]; [discriminate|].
  destruct (rtype r =? 7) eqn:E7.
  - intros [= <- <-]. exists r. split; [apply N.eqb_eq; exact E7|]. apply eats_refl.
  - destruct (spec_element (r :: tl)) as [[e l1]|] eqn:He; [|discriminate].
    destruct (spec_elements f l1) as [[es' rest']|] eqn:Hes; [|discriminate].
    intros [= <- <-]. destruct (IH _ _ _ Hes) as (r7 & H7 & Hr). exists r7. split; [exact H7|].
    cbn [flat_map]. eapply eats_trans; [apply (eats_element _ _ _ He)|exact Hr].
Qed.

(* ------------------------------------------------------------------ structures *)
Definition cell_deps (c : gcell) : list bytes := map r_name (c_refs c).

Lemma commit_name c e : c_name (commit None c e) = c_name c.
Proof. destruct e; reflexivity. Qed.
Lemma commit_deps c e : cell_deps (commit None c e) = cell_deps c ++ elem_deps e.
Proof.
  unfold cell_deps. destruct e; cbn [commit c_refs elem_deps]; try (rewrite app_nil_r; reflexivity).
  rewrite map_app. reflexivity.
Qed.
Lemma fold_commit_facts : forall es c,
  c_name (fold_left (commit None) es c) = c_name c /\
  cell_deps (fold_left (commit None) es c) = cell_deps c ++ flat_map elem_deps es.
Proof.
  induction es as [|e es IH]; intros c; cbn [fold_left flat_map]; [rewrite app_nil_r; split; reflexivity|].
  destruct (IH (commit None c e)) as [Hn Hd]. rewrite Hn, Hd, commit_name, commit_deps, app_assoc. split; reflexivity.
Qed.
Lemma cell_of_facts nm es : c_name (cell_of nm es) = nm /\ cell_deps (cell_of nm es) = flat_map elem_deps es.
Proof. unfold cell_of. destruct (fold_commit_facts es {| c_name := nm; c_polys := []; c_paths := []; c_refs := []; c_labels := [] |}) as [Hn Hd]. split; assumption. Qed.

(* what read_rawcells has recorded after the structures `cs`, whose records are `blocks`, starting at file position p *)
Fixpoint raw_of (p : N) (blocks : list recs) (cs : list gcell) : list rawc :=
  match blocks, cs with
  | b :: bs, c :: cs' => {| rc_name := c_name c; rc_off := p; rc_size := total b; rc_deps := cell_deps c |} :: raw_of (p + total b) bs cs'
  | _, _ => []
  end.
Fixpoint names_set (m : list (bytes * nat)) (k : nat) (cs : list gcell) : list (bytes * nat) :=
  match cs with
  | [] => m
  | c :: cs' => names_set (map_set m (c_name c) k) (S k) cs'
  end.

Definition is_block (b : recs) : Prop :=
  exists r5 mid r7, b = r5 :: mid ++ [r7] /\ rtype r5 = 5 /\ rtype r7 = 7.

Lemma raw_structures : forall fuel l cs rest cells m p,
  spec_structures fuel l = Some (cs, rest) ->
  exists blocks r4, rtype r4 = 4 /\ l = concat blocks ++ r4 :: rest /\ length blocks = length cs /\ Forall is_block blocks /\
    Forall2 block_of blocks cs /\
    run_raw (closed cells m p) l =
    inr (raw_finish (closed (rev (raw_of p blocks cs) ++ cells) (names_set m (length cells) cs) (p + total (concat blocks)))).
Proof.
  induction fuel as [|f IH]; intros l cs rest cells m p; cbn [spec_structures]; [discriminate|].
  destruct l as [|r tl]; [discriminate|].
  destruct (rtype r =? 4) eqn:E4.
  - intros [= <- <-]. apply N.eqb_eq in E4. exists [], r. split; [exact E4|]. split; [reflexivity|]. split; [reflexivity|].
    split; [constructor|]. split; [constructor|]. cbn [concat app run_raw raw_of rev names_set total fold_right]. unfold step_raw. rewrite E4.
    rewrite N.add_0_r. reflexivity.
  - destruct (is_rec 5 2 r && (plen r =? 24)) eqn:E5; [|discriminate].
    destruct (take_str 6 tl) as [[nm l1]|] eqn:Hn; [|discriminate].
    destruct (spec_elements (length l1) (skip_strclass l1)) as [[es l2]|] eqn:He; [|discriminate].
    destruct (spec_structures f l2) as [[cs' l3]|] eqn:Hs; [|discriminate].
    intros [= <- <-]. pose proof E5 as E5'.
    apply andb_prop in E5. destruct E5 as [E5 _]. apply is_rec_true in E5. destruct E5 as [Ht5 _].
    destruct (take_str_some _ _ _ _ Hn) as (r6 & -> & Ht6 & ->).
    destruct (structure_local _ _ _ _ _ _ E4 E5' Hn He) as (pre' & Hpre' & Hblock).
    destruct (eats_elements _ _ _ _ He) as (r7 & Ht7 & Hel).
    pose proof (eats_trans0 _ _ _ _ (eats_skip_strclass l1) Hel) as (pre & Hpre & Hrun).
    destruct (cell_of_facts (strip_nul (payload r6)) es) as [Hcn Hcd].
    set (c := cell_of (strip_nul (payload r6)) es) in *.
    set (blk := r :: r6 :: pre ++ [r7]).
    set (newc := {| rc_name := c_name c; rc_off := p; rc_size := total blk; rc_deps := cell_deps c |}).
    destruct (IH l2 cs' l3 (newc :: cells) (map_set m (c_name c) (length cells)) (p + total blk) Hs)
      as (blocks & r4 & Ht4 & Hl2 & Hlen & Hblk & HF2 & Hrr).
    exists (blk :: blocks), r4. split; [exact Ht4|]. split.
    { cbn [concat]. subst blk. rewrite Hpre, Hl2. cbn [app]. rewrite <- !app_assoc. reflexivity. }
    split; [cbn [length]; rewrite Hlen; reflexivity|].
    split. { constructor; [|exact Hblk]. exists r, (r6 :: pre), r7. split; [reflexivity|]. split; assumption. }
    split.
    { constructor; [|exact HF2]. subst blk.
      assert (Epre : pre' = pre ++ [r7]).
      { apply (app_inv_tail l2). rewrite <- Hpre', Hpre, <- app_assoc. reflexivity. }
      rewrite <- Epre. exact Hblock. }
    (* the run *)
    rewrite Hpre. cbn [run_raw]. unfold step_raw at 1. rewrite Ht5. cbn [closed w_pos w_cells w_map w_open].
    cbn [run_raw]. unfold step_raw at 1. rewrite Ht6. cbn [w_open upd_head w_cells w_map w_pos rc_name rc_off rc_size rc_deps length].
    replace (S (length cells) - 1)%nat with (length cells) by lia.
    match goal with |- run_raw ?st _ = _ =>
      change st with (opened {| rc_name := strip_nul (payload r6); rc_off := p; rc_size := rec_len r + rec_len r6; rc_deps := [] |}
                             cells (map_set m (strip_nul (payload r6)) (length cells)) (p + rec_len r + rec_len r6)) end.
    rewrite Hrun. cbn [run_raw]. unfold step_raw at 1. rewrite Ht7.
    cbn [opened w_open upd_head w_cells w_map w_pos bump grow rc_name rc_off rc_size rc_deps app].
    rewrite Hl2 in Hrr. rewrite Hl2.
    assert (Htot : total blk = rec_len r + rec_len r6 + total pre + rec_len r7).
    { subst blk. cbn [total fold_right]. fold (total (pre ++ [r7])). rewrite total_app. cbn [total fold_right]. lia. }
    match goal with |- run_raw ?st _ = _ =>
      replace st with (closed (newc :: cells) (map_set m (c_name c) (length cells)) (p + total blk)) end.
    2:{ unfold closed, newc. rewrite Hcn, Hcd, Htot. unfold grow, bump. cbn [rc_name rc_off rc_size rc_deps app].
        f_equal; try reflexivity; lia. }
    rewrite Hrr. cbn [raw_of rev names_set concat length]. fold newc. rewrite <- app_assoc. cbn [app].
    rewrite total_app. rewrite N.add_assoc. reflexivity.
Qed.

(* ------------------------------------------------------------------ library header *)
Lemma step_raw_closed cells m p r : rtype r <> 4 -> rtype r <> 5 ->
  step_raw (closed cells m p) r = inl (closed cells m (p + rec_len r)).
Proof.
  intros H4 H5. unfold step_raw, closed. cbn [w_open w_pos].
  assert (E : forall (A : Type) (a4 a5 d : A) (a6 a7 a18 : A), a6 = d -> a7 = d -> a18 = d ->
             match rtype r with 4 => a4 | 5 => a5 | 6 => a6 | 7 => a7 | 18 => a18 | _ => d end = d).
  { intros A a4 a5 d a6 a7 a18 -> -> ->. destruct (rtype r) as [|q]; [reflexivity|].
    do 5 (try (destruct q as [q|q|])); try reflexivity; congruence. }
  rewrite E; try reflexivity. unfold upd_head. cbn [w_cells w_open w_map]. destruct cells; reflexivity.
Qed.

Definition hdr_rec (r : grecord) : Prop := rtype r <> 4 /\ rtype r <> 5.
Lemma run_raw_hdr : forall pre cells m p rest, Forall hdr_rec pre ->
  run_raw (closed cells m p) (pre ++ rest) = run_raw (closed cells m (p + total pre)) rest.
Proof.
  induction pre as [|r pre IH]; intros cells m p rest H; cbn [app total fold_right]; [rewrite N.add_0_r; reflexivity|].
  inversion H as [|? ? [H4 H5] Hp]; subst. cbn [run_raw]. rewrite step_raw_closed by assumption.
  fold (total pre). rewrite IH by assumption. rewrite N.add_assoc. reflexivity.
Qed.

Lemma skip_libopt_split : forall l, exists pre, l = pre ++ skip_libopt l /\ Forall hdr_rec pre.
Proof.
  induction l as [|r l IH]; [exists []; split; [reflexivity|constructor]|]. cbn [skip_libopt].
  destruct (libopt r) eqn:E; [|exists []; split; [reflexivity|constructor]].
  destruct IH as (pre & Hp & Hf). exists (r :: pre). split; [cbn [app]; rewrite <- Hp; reflexivity|].
  constructor; [|exact Hf]. unfold libopt in E. unfold hdr_rec.
  destruct (rtype r) as [|q]; [discriminate|]. repeat (destruct q as [q|q|]; try discriminate); split; discriminate.
Qed.

Theorem raw_spec_records_lemma l L : spec_records l = Some L ->
  exists hdr blocks r4 rest, l = hdr ++ concat blocks ++ r4 :: rest /\ rtype r4 = 4 /\ Forall is_block blocks /\
    length blocks = length (g_cells L) /\
    Forall2 block_of blocks (g_cells L) /\
    (* transplant: ANY blocks that decode to cells, put between this header and this ENDLIB, give a stream the grammar accepts *)
    (forall blks' cs', Forall2 block_of blks' cs' ->
       spec_records (hdr ++ concat blks' ++ [r4]) = Some {| g_name := g_name L; g_units := g_units L; g_cells := cs' |}) /\
    run_raw raw_init l =
    inr (raw_finish (closed (rev (raw_of (total hdr) blocks (g_cells L))) (names_set [] 0 (g_cells L))
                            (total hdr + total (concat blocks)))).
Proof.
  unfold spec_records.
  destruct (take1 0 2 2 l) as [[r0 l0]|] eqn:H0; [|discriminate].
  destruct (take1 1 2 24 l0) as [[r1 l1]|] eqn:H1; [|discriminate].
  destruct (take_str 2 l1) as [[nm l2]|] eqn:H2; [|discriminate].
  destruct (take1 3 5 16 (skip_libopt l2)) as [[ru l3]|] eqn:H3; [|discriminate].
  destruct (units_ok ru) eqn:Huok; [|discriminate].
  destruct (spec_structures (length l3) l3) as [[cs rest]|] eqn:H4; [|discriminate].
  intros [= <-]. cbn [g_cells].
  destruct (take1_some _ _ _ _ _ _ H0) as (-> & Ht0 & _).
  destruct (take1_some _ _ _ _ _ _ H1) as (-> & Ht1 & _).
  destruct (take_str_some _ _ _ _ H2) as (r2 & -> & Ht2 & _).
  destruct (take1_some _ _ _ _ _ _ H3) as (Hl & Ht3 & _).
  destruct (skip_libopt_split l2) as (lo & Hlo & Hflo). rewrite Hl in Hlo.
  set (hdr := r0 :: r1 :: r2 :: lo ++ [ru]).
  assert (Hh : Forall hdr_rec hdr).
  { subst hdr. repeat constructor; try (rewrite ?Ht0, ?Ht1, ?Ht2; discriminate).
    apply Forall_app. split; [exact Hflo|]. repeat constructor; rewrite Ht3; discriminate. }
  destruct (raw_structures _ _ _ _ [] [] (total hdr) H4) as (blocks & r4 & Ht4 & Hl3 & Hlen & Hblk & HF2 & Hrun).
  exists hdr, blocks, r4, rest. split.
  { subst hdr. rewrite Hlo, Hl3. cbn [app]. rewrite <- app_assoc. reflexivity. }
  split; [exact Ht4|]. split; [exact Hblk|]. split; [exact Hlen|]. split; [exact HF2|].
  split.
  { intros blks' cs' HF'. subst hdr. cbn [app]. rewrite <- app_assoc. cbn [app].
    unfold spec_records.
    destruct (take1_loc _ _ _ _ _ _ H0) as [_ Hb0]. destruct (take1_loc _ _ _ _ _ _ H1) as [_ Hb1].
    destruct (take_str_loc _ _ _ _ H2) as (r2' & Er2 & Hb2). injection Er2 as <-.
    rewrite Hb0, Hb1, Hb2.
    destruct (skip_libopt_loc l2) as (lo' & Hlo' & Hbl). rewrite Hl in Hlo'.
    assert (Elo : lo' = lo) by (apply (app_inv_tail (ru :: l3)); rewrite <- Hlo', <- Hlo; reflexivity). subst lo'.
    rewrite Hl in Hbl. rewrite (Hbl (ru :: concat blks' ++ [r4]) (sh_cons _ _ _)).
    destruct (take1_loc _ _ _ _ _ _ H3) as [_ Hb3]. rewrite Hb3, Huok.
    rewrite (transplant_structures_lemma blks' cs' r4 [] HF' Ht4).
    - reflexivity.
    - rewrite app_length. cbn [length]. pose proof (block_length_pos _ _ HF'). lia. }
  replace (r0 :: r1 :: r2 :: l2) with (hdr ++ l3).
  2:{ subst hdr. rewrite Hlo. cbn [app]. rewrite <- app_assoc. reflexivity. }
  change raw_init with (closed [] [] 0). rewrite run_raw_hdr by exact Hh. rewrite N.add_0_l.
  rewrite Hrun. rewrite app_nil_r. reflexivity.
Qed.

(* ------------------------------------------------------------------ bytes *)
Definition byte_ok (b : N) : Prop := b < 256.

Lemma next_record_bytes bs r rest : Forall byte_ok bs -> next_record bs = Ok (r, rest) -> bs = rec_bytes r ++ rest.
Proof.
  intros Hb. destruct bs as [|b0 [|b1 [|b2 [|b3 tl]]]]; cbn [next_record]; try discriminate.
  destruct (b0 * 256 + b1 <? 4) eqn:El; [discriminate|].
  destruct (length tl <? N.to_nat (b0 * 256 + b1 - 4))%nat eqn:E; [discriminate|].
  intros [= <- <-]. apply Nat.ltb_ge in E. apply N.ltb_ge in El.
  inversion Hb as [|? ? _ Hb1]; subst. inversion Hb1 as [|? ? Hlt1 _]; subst. unfold byte_ok in Hlt1.
  unfold rec_bytes, rec_len. cbn [payload rtype dtype]. rewrite firstn_length_le by exact E.
  replace (4 + N.of_nat (N.to_nat (b0 * 256 + b1 - 4))) with (b0 * 256 + b1) by lia.
  replace ((b0 * 256 + b1) / 256) with b0 by (apply N.div_unique with b1; lia).
  replace ((b0 * 256 + b1) mod 256) with b1 by (apply N.mod_unique with b0; lia).
  cbn [app]. rewrite firstn_skipn. reflexivity.
Qed.

Lemma Forall_skipn {A} (P : A -> Prop) n : forall l, Forall P l -> Forall P (skipn n l).
Proof. induction n as [|n IH]; intros l H; [exact H|]. destruct l; [constructor|]. inversion H; subst. apply IH. assumption. Qed.

Lemma next_record_rest_ok bs r rest : Forall byte_ok bs -> next_record bs = Ok (r, rest) -> Forall byte_ok rest.
Proof.
  intros Hb H. rewrite (next_record_bytes _ _ _ Hb H) in Hb. apply Forall_app in Hb. tauto.
Qed.

Lemma frame_all_bytes : forall fuel bs l, Forall byte_ok bs -> frame_all fuel bs = Some l ->
  exists tail, bs = flat_map rec_bytes l ++ tail.
Proof.
  induction fuel as [|f IH]; intros bs l Hb; cbn [frame_all]; [discriminate|].
  destruct bs as [|b0 bs0]; [intros [= <-]; exists []; reflexivity|].
  set (bs := b0 :: bs0) in *.
  destruct (next_record bs) as [[r rest]| | | | |] eqn:En; try discriminate.
  destruct (Nat.even (length (payload r))); [|discriminate].
  pose proof (next_record_bytes _ _ _ Hb En) as Hbs.
  destruct (rtype r =? 4).
  - intros [= <-]. exists rest. cbn [flat_map]. rewrite app_nil_r. exact Hbs.
  - destruct (frame_all f rest) as [l'|] eqn:Hf; [|discriminate]. intros [= <-].
    destruct (IH rest l' (next_record_rest_ok _ _ _ Hb En) Hf) as (tail & Ht). exists tail.
    cbn [flat_map]. rewrite <- app_assoc, <- Ht. exact Hbs.
Qed.

(* reader = fold over the framed records, for this step function *)
Lemma loop_frame_raw : forall fuel bs l, frame_all fuel bs = Some l ->
  forall st fuel2, (fuel <= fuel2)%nat ->
  forall res, run_raw st l = inr res ->
  exists r', reader_loop rawst rawres step_raw fuel2 st bs = Ok (res, r').
Proof.
  induction fuel as [|fu IH]; intros bs l; cbn [frame_all]; [discriminate|].
  destruct bs as [|b0 bs0].
  - intros [= <-] st fuel2 _ res H. discriminate.
  - set (bs := b0 :: bs0).
    destruct (next_record bs) as [[r rest]| | | | |] eqn:En; try discriminate.
    destruct (Nat.even (length (payload r))); [|discriminate].
    destruct (rtype r =? 4) eqn:E4.
    + intros [= <-] st fuel2 Hf res Hrun. destruct fuel2 as [|f2]; [lia|].
      cbn [reader_loop]. rewrite En. cbn [run_raw] in Hrun.
      destruct (step_raw st r) as [st'|res']; [discriminate|].
      injection Hrun as <-. eexists. reflexivity.
    + destruct (frame_all fu rest) as [l'|] eqn:Hfr; [|discriminate].
      intros [= <-] st fuel2 Hf res Hrun. destruct fuel2 as [|f2]; [lia|].
      cbn [reader_loop]. rewrite En. cbn [run_raw] in Hrun.
      destruct (step_raw st r) as [st'|res'] eqn:Es.
      * apply (IH rest l' Hfr st' f2 ltac:(lia) res Hrun).
      * injection Hrun as <-. eexists. reflexivity.
Qed.

Lemma length_rec_bytes r : length (rec_bytes r) = N.to_nat (rec_len r).
Proof. unfold rec_bytes, rec_len. cbn [length]. lia. Qed.
Lemma length_flat_bytes l : length (flat_map rec_bytes l) = N.to_nat (total l).
Proof.
  induction l as [|r l IH]; [reflexivity|]. cbn [flat_map total fold_right]. fold (total l).
  rewrite app_length, IH, length_rec_bytes. lia.
Qed.

(* the byte ranges recorded for consecutive blocks are those blocks *)
Lemma raw_slices : forall blocks cs pre post, length blocks = length cs ->
  map (raw_slice (pre ++ flat_map rec_bytes (concat blocks) ++ post)) (raw_of (N.of_nat (length pre)) blocks cs)
  = map (flat_map rec_bytes) blocks.
Proof.
  induction blocks as [|b blocks IH]; intros cs pre post Hlen; [reflexivity|].
  destruct cs as [|c cs]; [discriminate|]. cbn [raw_of map concat]. f_equal.
  - unfold raw_slice. cbn [rc_off rc_size]. rewrite Nat2N.id.
    rewrite skipn_app, skipn_all, Nat.sub_diag. cbn [app skipn].
    rewrite flat_map_app, <- app_assoc, firstn_app, <- length_flat_bytes, firstn_all, Nat.sub_diag, firstn_O, app_nil_r.
    reflexivity.
  - specialize (IH cs (pre ++ flat_map rec_bytes b) post ltac:(cbn [length] in Hlen; lia)).
    rewrite app_length, length_flat_bytes in IH.
    replace (N.of_nat (length pre + N.to_nat (total b))) with (N.of_nat (length pre) + total b) in IH by lia.
    rewrite <- IH. rewrite flat_map_app, <- !app_assoc. reflexivity.
Qed.

Lemma raw_of_names : forall blocks cs p, length blocks = length cs ->
  map rc_name (raw_of p blocks cs) = map c_name cs /\ map rc_deps (raw_of p blocks cs) = map cell_deps cs.
Proof.
  induction blocks as [|b blocks IH]; intros cs p Hlen; destruct cs as [|c cs]; try discriminate; [split; reflexivity|].
  cbn [raw_of map rc_name rc_deps]. destruct (IH cs (p + total b) ltac:(cbn [length] in Hlen; lia)) as [Hn Hd].
  rewrite Hn, Hd. split; reflexivity.
Qed.

(* C17, raw cells: whole-file statement *)
Theorem rawcells_agree_lemma bs L : spec_decode bs = Some L -> Forall byte_ok bs ->
  exists hdr blocks r4 tail,
    bs = flat_map rec_bytes hdr ++ flat_map rec_bytes (concat blocks) ++ rec_bytes r4 ++ tail /\
    rtype r4 = 4 /\ Forall is_block blocks /\
    Forall2 block_of blocks (g_cells L) /\
    (forall blks' cs', Forall2 block_of blks' cs' ->
       spec_records (hdr ++ concat blks' ++ [r4]) = Some {| g_name := g_name L; g_units := g_units L; g_cells := cs' |}) /\
    let cells := raw_of (total hdr) blocks (g_cells L) in
    read_rawcells_model bs =
      Ok (raw_finish (closed (rev cells) (names_set [] 0 (g_cells L)) (total hdr + total (concat blocks)))) /\
    map rc_name cells = map c_name (g_cells L) /\
    map rc_deps cells = map cell_deps (g_cells L) /\
    map (raw_slice bs) cells = map (flat_map rec_bytes) blocks.
Proof.
  unfold spec_decode. destruct (frame_all (S (length bs)) bs) as [l|] eqn:Hf; [|discriminate].
  intros Hs Hb.
  destruct (raw_spec_records_lemma _ _ Hs) as (hdr & blocks & r4 & rest & Hl & Ht4 & Hblk & Hlen & HF2 & Htr & Hrun).
  destruct (frame_all_bytes _ _ _ Hb Hf) as (tail0 & Hbs).
  exists hdr, blocks, r4, (flat_map rec_bytes rest ++ tail0). split.
  { rewrite Hbs, Hl. rewrite !flat_map_app. cbn [flat_map]. rewrite <- !app_assoc. reflexivity. }
  split; [exact Ht4|]. split; [exact Hblk|]. split; [exact HF2|]. split; [exact Htr|]. cbn zeta.
  destruct (raw_of_names blocks (g_cells L) (total hdr) Hlen) as [Hn Hd].
  split; [|split; [exact Hn|split; [exact Hd|]]].
  - destruct (loop_frame_raw _ _ _ Hf raw_init (S (length bs)) (le_n _) _ Hrun) as [r' Hr].
    unfold read_rawcells_model, reader. rewrite Hr. reflexivity.
  - rewrite Hbs, Hl. rewrite !flat_map_app. cbn [flat_map]. rewrite <- !app_assoc.
    replace (total hdr) with (N.of_nat (length (flat_map rec_bytes hdr))) by (rewrite length_flat_bytes; lia).
    apply raw_slices. exact Hlen.
Qed.

(* the fifth reader obeys the truncation theorems too *)
Theorem read_rawcells_truncated_lemma bs res n :
  read_rawcells_model bs = Ok res ->
  read_rawcells_model (firstn n bs) = ErrEof \/ read_rawcells_model (firstn n bs) = Ok res.
Proof.
  unfold read_rawcells_model.
  destruct (reader rawst rawres step_raw raw_init bs) as [[res' rest]| | | | |] eqn:Hr; try discriminate.
  intros [= ->]. destruct (le_lt_dec (length bs - length rest) n) as [Hc|Hc].
  - right. rewrite (reader_truncated_same_lemma _ _ _ _ _ _ _ n Hr Hc). reflexivity.
  - left. rewrite (reader_truncated_errors_lemma _ _ _ _ _ _ _ n Hr Hc). reflexivity.
Qed.

(* a selection of the blocks, in any order and with repeats, keeps the block / cell correspondence *)
Lemma Forall2_pick {A B} (P : A -> B -> Prop) (da : A) (db : B) xs ys : Forall2 P xs ys ->
  forall idx, Forall (fun i => (i < length xs)%nat) idx ->
  Forall2 P (map (fun i => nth i xs da) idx) (map (fun i => nth i ys db) idx).
Proof.
  intros HF idx Hi. induction Hi as [|i idx Hlt _ IH]; [constructor|]. cbn [map]. constructor; [|exact IH].
  clear IH. revert i Hlt. induction HF as [|x y xs ys Hxy _ IH]; intros i Hlt; [cbn in Hlt; lia|].
  destruct i as [|i]; [exact Hxy|]. cbn [nth]. apply IH. cbn [length] in Hlt. lia.
Qed.

(* C17, raw cells transplanted: the recorded byte ranges of ANY selection of the raw cells, copied between the library header
   and ENDLIB, form a record sequence the strict grammar accepts, and it decodes to exactly the selected cells *)
Theorem rawcells_transplant_lemma l L : spec_records l = Some L ->
  exists hdr blocks r4 rest, l = hdr ++ concat blocks ++ r4 :: rest /\ length blocks = length (g_cells L) /\
    forall idx, Forall (fun i => (i < length blocks)%nat) idx ->
      spec_records (hdr ++ concat (map (fun i => nth i blocks []) idx) ++ [r4]) =
      Some {| g_name := g_name L; g_units := g_units L;
              g_cells := map (fun i => nth i (g_cells L) empty_cell) idx |}.
Proof.
  intros Hs. destruct (raw_spec_records_lemma _ _ Hs) as (hdr & blocks & r4 & rest & Hl & Ht4 & Hblk & Hlen & HF2 & Htr & Hrun).
  exists hdr, blocks, r4, rest. split; [exact Hl|]. split; [exact Hlen|]. intros idx Hi.
  apply Htr. apply Forall2_pick; assumption.
Qed.

(* the in-place resolution of read_rawcells: SNAMEs A A B C leave the dependencies in the order A C B (the repeat is
   removed by moving the last item into its slot); a stable removal would give A B C.  Same members either way. *)
Example resolve_swap_order :
  let m := [([65], 0%nat); ([66], 1%nat); ([67], 2%nat)] in
  resolve m [[65]; [65]; [66]; [67]] [] false = ([0; 2; 1]%nat, false) /\
  resolve_ordered m [[65]; [65]; [66]; [67]] [] false = ([0; 1; 2]%nat, false) /\
  resolve m [[65]; [88]; [66]; [67]] [] false = ([0; 2; 1]%nat, true).
Proof. vm_compute. repeat split; reflexivity. Qed.

Print Assumptions rawcells_agree_lemma.
Print Assumptions rawcells_transplant_lemma.
Print Assumptions read_rawcells_truncated_lemma.
