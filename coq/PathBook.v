(* C07 / C08 -- models of the parts of /repo/src/flexpath.cpp and /repo/src/robustpath.cpp that
   gdstk itself adds around the curve samplers (definitions only; proofs in PathBookProofs.v):

   (i)   FlexPath width/offset bookkeeping: FlexPath::init, fill_offsets_and_widths, every
         construction wrapper (horizontal ... commands) and remove_overlapping_points;
   (ii)  local outline formulas of FlexPath::to_polygons: segments_intersection (utils.cpp), the
         flush / half-width / extended caps, the outline of one straight segment;
   (iii) RobustPath: interp (LERP / SERP of utils.hpp), the parameter -> section index computation
         shared by position / gradient / width / offset, SubPath::eval and SubPath::gradient for the
         polynomial sections (Segment, Bezier2, Bezier3, general Bezier through eval_bezier).

   All numbers are rationals: every finite double is one, and the statements proved about these
   definitions are algebraic identities.  What the C++ would do on a wrapped-around uint64 or an
   out-of-bounds index is Crash, never a default value.                                        *)
Require Import Base.
From Coq Require Import QArith Qround.
Local Open Scope Q_scope.

Definition qpt := (Q * Q)%type.
Definition wo := (Q * Q)%type.            (* Vec2{half_width, offset} of half_width_and_offset *)

Definition qnat (n : nat) : Q := inject_Z (Z.of_nat n).
Definition Qltb (a b : Q) : bool := negb (Qle_bool b a).

(* ================================================================== (i) FlexPath bookkeeping *)

Record fstate := mkF {
  f_tolsq : Q;                      (* spine.tolerance squared *)
  f_spine : list qpt;               (* spine.point_array *)
  f_elems : list (list wo)          (* elements[ne].half_width_and_offset, ne < num_elements *)
}.

(* FlexPath::init (the four overloads differ only in where width / offset come from):
   spine.append(initial_position); each element gets Vec2{width / 2, offset} *)
Definition finit (p0 : qpt) (tol : Q) (widths offsets : list Q) : fstate :=
  mkF (tol * tol) [p0] (map (fun w_o => [((1 # 2) * fst w_o, snd w_o)]) (combine widths offsets)).

(* initial_widoff + widoff_change * ((double)i / num_pts), i = 1 .. num_pts *)
Definition fill_entries (k : nat) (ini chg : wo) : list wo :=
  map (fun i => (fst ini + fst chg * (qnat i / qnat k), snd ini + snd chg * (qnat i / qnat k)))
      (seq 1 k).

(* `*width++` on a caller array that must have num_elements entries *)
Definition opt_nth (l : option (list Q)) (ne : nat) : outcome (option Q) :=
  match l with
  | None => Ok None
  | Some l => match nth_error l ne with Some x => Ok (Some x) | None => Crash end
  end.

(* body of the loop over the elements in fill_offsets_and_widths *)
Definition fill_elem (k : nat) (w o : option Q) (e : list wo) : outcome (list wo) :=
  match nth_error e (length e - 1) with
  | None => Crash                                   (* reads items[count - 1] with count = 0 *)
  | Some ini =>
      let wid := match w with None => 0 | Some w => (1 # 2) * w - fst ini end in
      let off := match o with None => 0 | Some o => o - snd ini end in
      Ok (e ++ fill_entries k ini (wid, off))
  end.

Fixpoint fill_all (k : nat) (ws os : option (list Q)) (ne : nat) (es : list (list wo))
  : outcome (list (list wo)) :=
  match es with
  | [] => Ok []
  | e :: tl =>
      obind (opt_nth ws ne) (fun w =>
      obind (opt_nth os ne) (fun o =>
      obind (fill_elem k w o e) (fun e' =>
      obind (fill_all k ws os (S ne) tl) (fun tl' => Ok (e' :: tl')))))
  end.

(* FlexPath::fill_offsets_and_widths *)
Definition fill (ws os : option (list Q)) (st : fstate) : outcome fstate :=
  match f_elems st with
  | [] => Ok st                                                  (* num_elements < 1 *)
  | e0 :: _ =>
      if (length (f_spine st) <? length e0)%nat then Crash       (* num_pts wraps around 2^64 *)
      else
        obind (fill_all (length (f_spine st) - length e0) ws os 0 (f_elems st))
              (fun es => Ok (mkF (f_tolsq st) (f_spine st) es))
  end.

(* the public construction calls of FlexPath, one constructor per C++ overload *)
Inductive wrapper :=
| W_horizontal | W_horizontal_array | W_vertical | W_vertical_array
| W_segment | W_segment_array | W_cubic | W_cubic_smooth | W_quadratic
| W_quadratic_smooth | W_quadratic_smooth_array | W_bezier | W_interpolation
| W_arc | W_turn | W_parametric | W_commands.

(* does the wrapper end with fill_offsets_and_widths?  (current source: every one does) *)
Definition calls_fill (w : wrapper) : bool := true.
(* does it forward its width / offset arguments?  commands() passes NULL, NULL *)
Definition passes_wo (w : wrapper) : bool := match w with W_commands => false | _ => true end.

(* spine.<curve call>(...) appends the points pts (any number, also none: the curve samplers are
   the subject of C15, here they are arbitrary), then fill_offsets_and_widths *)
Definition construct_with (tbl : wrapper -> bool) (w : wrapper) (pts : list qpt)
           (ws os : option (list Q)) (st : fstate) : outcome fstate :=
  let st1 := mkF (f_tolsq st) (f_spine st ++ pts) (f_elems st) in
  if tbl w then fill (if passes_wo w then ws else None) (if passes_wo w then os else None) st1
  else Ok st1.
Definition construct := construct_with calls_fill.

(* Array<T>::remove(index): memmove(items + index, items + index + 1, (--count - index) * size) *)
Fixpoint remove_at {A} (i : nat) (l : list A) : list A :=
  match i, l with
  | _, [] => []
  | O, _ :: t => t
  | S i, x :: t => x :: remove_at i t
  end.
Definition remove_chk {A} (i : nat) (l : list A) : outcome (list A) :=
  if (i <? length l)%nat then Ok (remove_at i l) else Crash.

Fixpoint remove_all (i : nat) (es : list (list wo)) : outcome (list (list wo)) :=
  match es with
  | [] => Ok []
  | e :: tl => obind (remove_chk i e) (fun e' => obind (remove_all i tl) (fun tl' => Ok (e' :: tl')))
  end.

Definition length_sq (a b : qpt) : Q :=
  (fst a - fst b) * (fst a - fst b) + (snd a - snd b) * (snd a - snd b).

(* FlexPath::remove_overlapping_points: for (i = 1; i < count;) if close then remove else i++ *)
Fixpoint rop_loop (fuel i : nat) (st : fstate) : outcome fstate :=
  if (i <? length (f_spine st))%nat then
    match fuel with
    | O => Hang
    | S fuel' =>
        if Qltb (length_sq (nth i (f_spine st) (0, 0)) (nth (i - 1) (f_spine st) (0, 0))) (f_tolsq st)
        then obind (remove_all i (f_elems st)) (fun es =>
             rop_loop fuel' i (mkF (f_tolsq st) (remove_at i (f_spine st)) es))
        else rop_loop fuel' (S i) st
    end
  else Ok st.
Definition remove_overlapping_points (st : fstate) : outcome fstate :=
  rop_loop (length (f_spine st)) 1 st.

Inductive call :=
| Construct (w : wrapper) (pts : list qpt) (ws os : option (list Q))
| RemoveOverlap.        (* first statement of to_polygons, to_gds, to_oas *)

Definition step_with (tbl : wrapper -> bool) (c : call) (st : fstate) : outcome fstate :=
  match c with
  | Construct w pts ws os => construct_with tbl w pts ws os st
  | RemoveOverlap => remove_overlapping_points st
  end.

Fixpoint run_with (tbl : wrapper -> bool) (cs : list call) (st : fstate) : outcome fstate :=
  match cs with
  | [] => Ok st
  | c :: tl => obind (step_with tbl c st) (run_with tbl tl)
  end.
Definition run := run_with calls_fill.

(* the invariant stated in flexpath.hpp: "The array count must match the spine count" *)
Definition counts_ok (st : fstate) : Prop :=
  Forall (fun e => length e = length (f_spine st)) (f_elems st).
Definition counts_okb (st : fstate) : bool :=
  forallb (fun e => (length e =? length (f_spine st))%nat) (f_elems st).

(* width / offset arrays, when given, have one entry per element *)
Definition wf_call (n : nat) (c : call) : Prop :=
  match c with
  | Construct _ _ ws os =>
      (match ws with Some l => (n <= length l)%nat | None => True end) /\
      (match os with Some l => (n <= length l)%nat | None => True end)
  | RemoveOverlap => True
  end.

(* ================================================================== (ii) outline formulas *)

Definition vadd (a b : qpt) : qpt := (fst a + fst b, snd a + snd b).
Definition vsub (a b : qpt) : qpt := (fst a - fst b, snd a - snd b).
Definition vscale (k : Q) (a : qpt) : qpt := (k * fst a, k * snd a).
Definition vdot (a b : qpt) : Q := fst a * fst b + snd a * snd b.
Definition vcross (a b : qpt) : Q := fst a * snd b - snd a * fst b.
Definition ortho (a : qpt) : qpt := (- snd a, fst a).                 (* Vec2::ortho *)
Definition veq (a b : qpt) : Prop := fst a == fst b /\ snd a == snd b.

(* utils.cpp segments_intersection; eps = GDSTK_PARALLEL_EPS *)
Definition segments_intersection (eps : Q) (p0 ut0 p1 ut1 : qpt) : Q * Q :=
  let den := vcross ut0 ut1 in
  if Qle_bool eps den || Qle_bool den (- eps) then
    let delta_p := vsub p1 p0 in
    (vcross delta_p ut1 / den, vcross delta_p ut0 / den)
  else (0, 0).

Inductive end_type := Flush | Round | HalfWidth | Extended | Smooth | EndFunction.

(* how far the cap reaches beyond the end point along the path direction *)
Definition cap_reach (et : end_type) (hw ext : Q) : Q :=
  match et with Flush => 0 | HalfWidth => hw | Extended => ext | _ => hw end.

(* "Initial cap" block of to_polygons for the end types that are straight lines (Round, Smooth and
   Function caps come from Curve::arc / Curve::interpolation / user code: None here).
   p0 first centre point, t0 unit tangent, hw = half_widths[0], ext = end_extensions.u *)
Definition initial_cap (et : end_type) (p0 t0 : qpt) (hw ext : Q) : option (list qpt) :=
  let n0 := ortho t0 in
  let cap_l := vadd p0 (vscale hw n0) in
  let cap_r := vsub p0 (vscale hw n0) in
  match et with
  | Flush => Some (cap_l :: (if Qeq_bool hw 0 then [] else [cap_r]))
  | HalfWidth | Extended =>
      let extension := match et with Extended => ext | _ => hw end in
      Some ((if Qltb 0 extension then [cap_l] else []) ++
            [vsub cap_l (vscale extension t0)] ++
            (if Qeq_bool hw 0 then [] else [vsub cap_r (vscale extension t0)]) ++
            (if Qltb 0 extension then [cap_r] else []))
  | _ => None
  end.

(* "End cap" block: p1 last centre point, hw = half_widths[last], ext = end_extensions.v; the
   points are appended to left_curve, which is reversed afterwards *)
Definition final_cap (et : end_type) (p1 t0 : qpt) (hw ext : Q) : option (list qpt) :=
  let n0 := ortho t0 in
  let cap_l := vadd p1 (vscale hw n0) in
  let cap_r := vsub p1 (vscale hw n0) in
  match et with
  | Flush => Some (cap_l :: (if Qeq_bool hw 0 then [] else [cap_r]))
  | HalfWidth | Extended =>
      let extension := match et with Extended => ext | _ => hw end in
      Some ((if Qltb 0 extension then [cap_l] else []) ++
            [vadd cap_l (vscale extension t0)] ++
            (if Qeq_bool hw 0 then [] else [vadd cap_r (vscale extension t0)]) ++
            (if Qltb 0 extension then [cap_r] else []))
  | _ => None
  end.

(* to_polygons on a two-point spine s0 s1 with constant half width hw, constant offset off and
   flush ends; t is the unit tangent (s1 - s0) / |s1 - s0| the C++ obtains with normalize():
   right_curve = initial cap, then the reversed left_curve = reversed end cap *)
Definition segment_outline (s0 s1 t : qpt) (hw off : Q) : list qpt :=
  let n := ortho t in
  let p0 := vadd s0 (vscale off n) in
  let p1 := vadd s1 (vscale off n) in
  match initial_cap Flush p0 t hw 0, final_cap Flush p1 t hw 0 with
  | Some a, Some b => a ++ rev b
  | _, _ => []
  end.

(* q is inside (or on) the counter-clockwise quadrilateral a b c d *)
Definition inside_ccw4 (a b c d q : qpt) : Prop :=
  0 <= vcross (vsub b a) (vsub q a) /\ 0 <= vcross (vsub c b) (vsub q b) /\
  0 <= vcross (vsub d c) (vsub q c) /\ 0 <= vcross (vsub a d) (vsub q d).

(* ================================================================== (iii) RobustPath *)

(* utils.hpp: LERP(a, b, u) ((a) * (1 - (u)) + (b) * (u)); SERP(a, b, u) ((a) + ((b) - (a)) * (3 - 2 * (u)) * (u) * (u)) *)
Definition lerp (a b u : Q) : Q := a * (1 - u) + b * u.
Definition serp (a b u : Q) : Q := a + (b - a) * (3 - 2 * u) * u * u.

Inductive interpolation :=
| IConstant (value : Q)
| ILinear (initial_value final_value : Q)
| ISmooth (initial_value final_value : Q).   (* Parametric: a user function, not modelled *)

(* u = u < 0 ? 0 : (u > 1 ? 1 : u) *)
Definition clamp01 (u : Q) : Q := if Qltb u 0 then 0 else if Qltb 1 u then 1 else u.

(* static double interp(const Interpolation&, double u) *)
Definition interp (i : interpolation) (u : Q) : Q :=
  let u := clamp01 u in
  match i with
  | IConstant v => v
  | ILinear a b => lerp a b u
  | ISmooth a b => serp a b u
  end.

(* the first lines of RobustPath::position / gradient / width / offset: from the path parameter
   u in [0, count] to (section index, section parameter) *)
Definition query_index (count : nat) (u : Q) (from_below : bool) : outcome (nat * Q) :=
  let u1 := if Qle_bool (qnat count) u then qnat count else if Qltb u 0 then 0 else u in
  let idx := Z.to_nat (Qfloor u1) in                       (* (uint64_t)u *)
  let fr := u1 - qnat idx in
  if from_below && Qeq_bool fr 0 && (0 <? idx)%nat then Ok ((idx - 1)%nat, 1)
  else if (idx =? count)%nat then
    (if (count =? 0)%nat then Crash                         (* idx-- wraps, subpath_array[2^64-1] *)
     else Ok ((idx - 1)%nat, 1))
  else Ok (idx, fr).

(* RobustPath::width / offset *)
Definition query_interp (arr : list interpolation) (scale : Q) (u : Q) (from_below : bool) : outcome Q :=
  obind (query_index (length arr) u from_below) (fun iu =>
    match nth_error arr (fst iu) with
    | Some i => Ok (interp i (snd iu) * scale)
    | None => Crash
    end).

(* utils.cpp eval_bezier: de Casteljau in place; one pass of the outer loop is dc_step *)
Fixpoint zipw (f : Q -> Q -> Q) (l1 l2 : list Q) : list Q :=
  match l1, l2 with
  | a :: t1, b :: t2 => f a b :: zipw f t1 t2
  | _, _ => []
  end.
Definition dc_step (t : Q) (l : list Q) : list Q := zipw (fun a b => (1 - t) * a + t * b) l (tl l).
Fixpoint dc_iter (n : nat) (t : Q) (l : list Q) : Q :=
  match n with
  | O => hd 0 l
  | S n' => dc_iter n' t (dc_step t l)
  end.
(* eval_bezier(t, ctrl, count) on one coordinate; count = 0 runs the outer loop from 2^64 - 1 *)
Definition eval_bezier (t : Q) (l : list Q) : outcome Q :=
  match l with
  | [] => Crash
  | _ :: _ => Ok (dc_iter (length l - 1) t l)
  end.
Definition eval_bezier2 (t p0 p1 p2 : Q) : Q := (1 - t) * (1 - t) * p0 + 2 * (1 - t) * t * p1 + t * t * p2.
Definition eval_bezier3 (t p0 p1 p2 p3 : Q) : Q :=
  (1 - t) * (1 - t) * (1 - t) * p0 + 3 * ((1 - t) * (1 - t)) * t * p1 + 3 * (1 - t) * (t * t) * p2 + t * t * t * p3.

Inductive section :=
| SSegment (b e : qpt)
| SBezier2 (p0 p1 p2 : qpt)
| SBezier3 (p0 p1 p2 p3 : qpt)
| SBezier (ctrl : list qpt).       (* Arc and Parametric sections are not polynomial: not here *)

Definition diffs (l : list Q) : list Q := zipw (fun a b => b - a) l (tl l).

(* the switch of SubPath::gradient before the transformation, one coordinate (sel = fst / snd) *)
Definition grad_raw (s : section) (sel : qpt -> Q) (u : Q) : outcome Q :=
  match s with
  | SSegment b e => Ok (sel e - sel b)
  | SBezier2 p0 p1 p2 => Ok (lerp (2 * (sel p1 - sel p0)) (2 * (sel p2 - sel p1)) u)
  | SBezier3 p0 p1 p2 p3 =>
      Ok (eval_bezier2 u (3 * (sel p1 - sel p0)) (3 * (sel p2 - sel p1)) (3 * (sel p3 - sel p2)))
  | SBezier ctrl =>
      match ctrl with
      | [] => Crash                                  (* count = 2^64 - 1: allocation fails *)
      | _ :: _ =>
          let count := (length ctrl - 1)%nat in
          eval_bezier u (map (fun d => qnat count * d) (diffs (map sel ctrl)))
      end
  end.

Definition point_raw (s : section) (sel : qpt -> Q) (u : Q) : outcome Q :=
  match s with
  | SSegment b e => Ok (lerp (sel b) (sel e) u)
  | SBezier2 p0 p1 p2 => Ok (eval_bezier2 u (sel p0) (sel p1) (sel p2))
  | SBezier3 p0 p1 p2 p3 => Ok (eval_bezier3 u (sel p0) (sel p1) (sel p2) (sel p3))
  | SBezier ctrl => eval_bezier u (map sel ctrl)
  end.

(* trafo[0..5]: xt = x * trafo[0] + y * trafo[1] + trafo[2]; yt = x * trafo[3] + y * trafo[4] + trafo[5] *)
Record trafo := mkT { t0 : Q; t1 : Q; t2 : Q; t3 : Q; t4 : Q; t5 : Q }.
Definition trafo_id : trafo := mkT 1 0 0 0 1 0.

(* SubPath::gradient *)
Definition sub_gradient (s : section) (u : Q) (tr : trafo) : outcome qpt :=
  let u := clamp01 u in
  obind (grad_raw s fst u) (fun dx => obind (grad_raw s snd u) (fun dy =>
    Ok (dx * t0 tr + dy * t1 tr, dx * t3 tr + dy * t4 tr))).

(* SubPath::eval for 0 <= u <= 1 *)
Definition sub_eval01 (s : section) (u : Q) (tr : trafo) : outcome qpt :=
  obind (point_raw s fst u) (fun x => obind (point_raw s snd u) (fun y =>
    Ok (x * t0 tr + y * t1 tr + t2 tr, x * t3 tr + y * t4 tr + t5 tr))).

(* SubPath::eval *)
Definition sub_eval (s : section) (u : Q) (tr : trafo) : outcome qpt :=
  if Qltb u 0 then
    obind (sub_eval01 s 0 tr) (fun p => obind (sub_gradient s 0 tr) (fun v => Ok (vadd p (vscale u v))))
  else if Qltb 1 u then
    obind (sub_eval01 s 1 tr) (fun p => obind (sub_gradient s 1 tr) (fun v => Ok (vadd p (vscale (u - 1) v))))
  else sub_eval01 s u tr.

(* RobustPath::position / gradient *)
Definition rp_position (subs : list section) (tr : trafo) (u : Q) (from_below : bool) : outcome qpt :=
  obind (query_index (length subs) u from_below) (fun iu =>
    match nth_error subs (fst iu) with Some s => sub_eval s (snd iu) tr | None => Crash end).
Definition rp_gradient (subs : list section) (tr : trafo) (u : Q) (from_below : bool) : outcome qpt :=
  obind (query_index (length subs) u from_below) (fun iu =>
    match nth_error subs (fst iu) with Some s => sub_gradient s (snd iu) tr | None => Crash end).

(* ------------------------------------------------------------------ formal polynomials *)
(* coefficient lists, lowest degree first; used to say what "derivative" means without analysis *)
Definition poly := list Q.
Fixpoint peval (p : poly) (u : Q) : Q := match p with [] => 0 | c :: t => c + u * peval t u end.
Fixpoint padd (p q : poly) : poly :=
  match p, q with
  | [], _ => q
  | _, [] => p
  | a :: p', b :: q' => (a + b) :: padd p' q'
  end.
Definition pscale (k : Q) (p : poly) : poly := map (Qmult k) p.
Definition pmulX (p : poly) : poly := 0 :: p.
(* (c + X t)' = t + X t' *)
Fixpoint pderiv (p : poly) : poly := match p with [] => [] | _ :: t => padd t (pmulX (pderiv t)) end.
Definition pmul1mX (p : poly) : poly := padd p (pscale (-1) (pmulX p)).     (* (1 - X) p *)

(* Bernstein form of degree n on the control values l (the first n + 1 entries), by the
   recurrence B_n[l] = (1 - X) B_(n-1)[l] + X B_(n-1)[tl l] *)
Fixpoint pbez (n : nat) (l : list Q) : poly :=
  match n with
  | O => [hd 0 l]
  | S n' => padd (pmul1mX (pbez n' l)) (pmulX (pbez n' (tl l)))
  end.
(* the same recurrence on values *)
Fixpoint bz (n : nat) (l : list Q) (u : Q) : Q :=
  match n with
  | O => hd 0 l
  | S n' => (1 - u) * bz n' l u + u * bz n' (tl l) u
  end.

(* the polynomial a section coordinate is, including the transformation:
   row (a, b, c) of trafo applied to (Px, Py) *)
Definition section_ctrl (s : section) : list qpt :=
  match s with
  | SSegment b e => [b; e]
  | SBezier2 p0 p1 p2 => [p0; p1; p2]
  | SBezier3 p0 p1 p2 p3 => [p0; p1; p2; p3]
  | SBezier ctrl => ctrl
  end.
Definition section_poly (s : section) (a b c : Q) : poly :=
  let l := section_ctrl s in
  let n := (length l - 1)%nat in
  padd (padd (pscale a (pbez n (map fst l))) (pscale b (pbez n (map snd l)))) [c].
