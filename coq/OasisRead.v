(* Statement-level model of gdstk's OASIS reader `read_oas` (src/library.cpp) and of the helpers it calls in
   src/oasis.cpp (oasis_read, oasis_read_unsigned_integer, oasis_read_string, oasis_read_int_internal,
   oasis_read_integer / 1delta / 2delta / 3delta / gdelta, oasis_read_real[_by_type], oasis_read_point_list,
   oasis_read_repetition), on an uncompressed byte stream (CBLOCK records are inflated and spliced by the harness;
   record 34 is the distinct outcome [RCblock]).

   Grid: `read_oas` multiplies every coordinate by `factor = 1 / unit-real` (a double); the model keeps the integers
   of the file (Z / N) and the reals as written, the harness divides the doubles back (llround(v * scaling)).
   CIRCLE: `ellipse(...)` is floating point; the model keeps (centre, radius).

   Calling convention modelled: read_oas(file, 0, 0, &error_code) with error_code != NULL.

   Outcomes ([outcome] of Base.v):  Ok (RLib ..)    error_code NoError or MissingReference (see [lib_missing])
                                    Ok RUnsupported  ErrorCode::UnsupportedRecord
                                    Ok RCblock       a CBLOCK record (outside the model)
                                    ErrEof / ErrOverflow / ErrInvalid   InputFileError / Overflow / InvalidFile
                                    Crash            the C++ has undefined behaviour here (NULL dereference, write
                                                     through NULL[-1], out-of-bounds table access, branch on an
                                                     uninitialised info byte, allocation that cannot succeed)
                                    Hang             resource-dependent: a loop of >= 2^26 iterations over a stream that has
                                                     already failed, or >= 2^32 bytes of table fillers written (the real result
                                                     depends on the machine: the comparison accepts any)
   Stream errors are sticky in the C++ (`in.error_code`): a record in which a read fails is executed to its end
   with whatever the helpers return, then the `while` condition fails.  The model does the same: every primitive
   is total, returns what the C++ returns on failure, and consumes the bytes the C++ consumes (so that a later short
   read turns Overflow / InvalidFile into InputFileError exactly when the C++ does).
   Approximations (documented, error paths only): values left uninitialised by a failed read are taken as 0 (they
   cannot influence the outcome: the layout is discarded once the stream has failed); oasis_peek's seek-back at end
   of file is not modelled; memory exhaustion is modelled by fixed thresholds ([alloc_fails], [big_loop]).
   Definitions only; proofs are in OasisReadProofs.v. *)
Require Import Base OasisInt OasisSpec.
Require GV.Generated.
Local Open Scope N_scope.

(* ================================================================== the stream: bytes left + in.error_code *)
Inductive serr := SE_eof | SE_ovf | SE_inv.
Record strm := mkS { s_bs : list N; s_err : option serr }.

(* result of a helper that can leave defined behaviour *)
Inductive res (A : Type) : Type := ROk (a : A) (s : strm) | RCrash | RHang.
Arguments ROk {A} a s.
Arguments RCrash {A}.
Arguments RHang {A}.
Definition M (A : Type) : Type := strm -> res A.
Definition rbind {A B} (x : M A) (f : A -> M B) : M B :=
  fun s => match x s with ROk a s1 => f a s1 | RCrash => RCrash | RHang => RHang end.
Definition rret {A} (a : A) : M A := fun s => ROk a s.
Definition lift {A} (f : strm -> A * strm) : M A := fun s => let (a, s1) := f s in ROk a s1.
Notation "'do' x <- c1 ; c2" := (rbind c1 (fun x => c2))
  (at level 200, x name, c1 at level 100, c2 at level 200, right associativity).
Notation "'do' ' p <- c1 ; c2" := (rbind c1 (fun x => match x with p => c2 end))
  (at level 200, p pattern, c1 at level 100, c2 at level 200, right associativity).

Definition u64max : N := 18446744073709551615.
Definition i64max : N := 9223372036854775807.
Definition u32 (n : N) : N := n mod 4294967296.
(* environment: an allocation of 2^36 bytes or more returns NULL (the machine the harness runs on has less memory
   than that and no swap); a loop of 2^26 or more iterations whose reads fail does not end within the time limit *)
Definition alloc_fails (nbytes : N) : bool := 68719476736 <=? nbytes.
Definition big_loop : N := 67108864.
(* the buffer of a string whose bytes are not there (reached on failing reads only): from 2^33 bytes on malloc may return
   NULL (it did for 6.8e10 bytes on a 62 GB machine), and fread then writes through NULL *)
Definition str_alloc_fails (nbytes : N) : bool := 8589934592 <=? nbytes.
(* a loop that only writes memory (the fillers of a name table) finishes quickly below 2^32 bytes; from there up to the
   allocation limit whether it finishes within the time limit and the memory of the machine is not determined by the
   program: Hang, which the comparison treats as "any result" *)
Definition mem_slow (nbytes : N) : bool := 4294967296 <=? nbytes.

Definition set_err (s : strm) (e : serr) : strm :=      (* `if (in.error_code == NoError) in.error_code = e` *)
  match s_err s with Some _ => s | None => mkS (s_bs s) (Some e) end.

(* oasis_read(&byte, 1, 1, in): the byte (None = buffer left uninitialised) and the stream after; a short read
   sets InputFileError unconditionally; the call "succeeds" iff the error code is NoError afterwards *)
Definition rd1 (s : strm) : option N * strm :=
  match s_bs s with
  | [] => (None, mkS [] (Some SE_eof))
  | b :: t => (Some b, mkS t (s_err s))
  end.
(* oasis_read(buf, n, 1, in) *)
Definition rdn (n : nat) (s : strm) : option (list N) * strm :=
  if (length (s_bs s) <? n)%nat then (None, mkS [] (Some SE_eof))
  else (Some (firstn n (s_bs s)), mkS (skipn n (s_bs s)) (s_err s)).
(* k consecutive one-byte reads whose results are ignored because the code is already set *)
Definition fail_n (k : N) (s : strm) : strm :=
  if N.of_nat (length (s_bs s)) <? k then mkS [] (Some SE_eof)
  else mkS (skipn (N.to_nat k) (s_bs s)) (s_err s).

(* ---- oasis_read_unsigned_integer *)
Fixpoint uint_loop (bs : list N) (result nbits : N) : N * strm :=
  match bs with
  | [] => (result, mkS [] (Some SE_eof))                       (* `return result` *)
  | b :: t =>
      if (nbits =? 63) && (1 <? b) then (u64max, mkS t (Some SE_ovf))
      else
        let r := u64 (N.lor result (N.shiftl (N.land b 127) nbits)) in
        if 0 <? N.land b 128 then uint_loop t r (nbits + 7) else (r, mkS t None)
  end.
Definition s_uint (s : strm) : N * strm :=
  match s_err s with
  | Some _ => (0, snd (rd1 s))                                 (* first oasis_read != NoError: return 0 *)
  | None =>
      match s_bs s with
      | [] => (0, mkS [] (Some SE_eof))
      | b :: t => let r := N.land b 127 in
                  if 0 <? N.land b 128 then uint_loop t r 7 else (r, mkS t None)
      end
  end.

(* ---- oasis_read_int_internal(skip_bits): (value, flag bits, stream) *)
Fixpoint int_loop (bs : list N) (result nbits : N) : N * strm :=
  match bs with
  | [] => (result, mkS [] (Some SE_eof))
  | b :: t =>
      if (56 <? nbits) && (0 <? N.shiftr b (63 - nbits)) then (i64max, mkS t (Some SE_ovf))
      else
        let r := u64 (N.lor result (N.shiftl (N.land b 127) nbits)) in
        if 0 <? N.land b 128 then int_loop t r (nbits + 7) else (r, mkS t None)
  end.
Definition s_intern (skip : N) (s : strm) : N * N * strm :=
  match s_err s with
  | Some _ => (0, 0, snd (rd1 s))                              (* returns 0; `result` indeterminate *)
  | None =>
      match s_bs s with
      | [] => (0, 0, mkS [] (Some SE_eof))
      | b :: t =>
          let r := N.shiftr (N.land b 127) skip in
          let bits := N.land b (N.ones skip) in
          if 0 <? N.land b 128 then let (v, s1) := int_loop t r (7 - skip) in (v, bits, s1)
          else (r, bits, mkS t None)
      end
  end.
Definition s_int (s : strm) : Z * strm :=                      (* oasis_read_integer = oasis_read_1delta *)
  let '(v, bits, s1) := s_intern 1 s in (if 0 <? bits then (- Z.of_N v)%Z else Z.of_N v, s1).
Definition s_2delta (s : strm) : pt * strm :=
  let '(v, bits, s1) := s_intern 2 s in (dir_vec bits (Z.of_N v), s1).
Definition s_3delta (s : strm) : pt * strm :=
  let '(v, bits, s1) := s_intern 3 s in (dir_vec bits (Z.of_N v), s1).
(* oasis_read_gdelta: oasis_peek, `if (in.error_code != NoError) return;` *)
Definition s_gdelta (s : strm) : pt * strm :=
  match s_err s with
  | Some _ => ((0, 0)%Z, s)
  | None =>
      match s_bs s with
      | [] => ((0, 0)%Z, mkS [] (Some SE_eof))
      | b :: _ =>
          if N.land b 1 =? 0 then
            let '(v, bits, s1) := s_intern 4 s in (dir_vec (N.shiftr bits 1) (Z.of_N v), s1)
          else
            let '(vx, bx, s1) := s_intern 2 s in
            let x := if 0 <? N.land bx 2 then (- Z.of_N vx)%Z else Z.of_N vx in
            let '(vy, by_, s2) := s_intern 1 s1 in
            let y := if 0 <? N.land by_ 1 then (- Z.of_N vy)%Z else Z.of_N vy in
            ((x, y), s2)
      end
  end.

(* ---- oasis_read_string(in, append_terminating_null, count): the bytes without the terminator *)
Definition nonempty {A} (l : list A) : bool := match l with [] => false | _ => true end.
Definition s_string (nul : bool) : M (list N) := fun s =>
  let (count, s1) := s_uint s in
  if negb nul && (count =? 0) then ROk [] s1                   (* `return NULL` *)
  else
    let bs := s_bs s1 in
    let short := N.of_nat (length bs) <? count in
    match s_err s1, short with
    | None, false => ROk (firstn (N.to_nat count) bs) (mkS (skipn (N.to_nat count) bs) None)
    | _, _ =>
        (* oasis_read(bytes, 1, count) != NoError: free, bytes = NULL, count = -1; `bytes[count++] = 0` *)
        if nul then RCrash
        else if str_alloc_fails count && nonempty bs then RCrash            (* fread into a NULL buffer *)
        else ROk [] (if short then mkS [] (Some SE_eof) else mkS (skipn (N.to_nat count) bs) (s_err s1))
    end.

(* ---- oasis_read_real_by_type / oasis_read_real: the number as written *)
Definition rzero : real := RInt false 0.
Definition s_real_by (ty : N) (s : strm) : real * strm :=
  match ty with
  | 0 => let (n, s1) := s_uint s in (RInt false n, s1)
  | 1 => let (n, s1) := s_uint s in (RInt true n, s1)
  | 2 => let (n, s1) := s_uint s in (RRecip false n, s1)
  | 3 => let (n, s1) := s_uint s in (RRecip true n, s1)
  | 4 => let (a, s1) := s_uint s in let (b, s2) := s_uint s1 in (RRatio false a b, s2)
  | 5 => let (a, s1) := s_uint s in let (b, s2) := s_uint s1 in (RRatio true a b, s2)
  | 6 => match rdn 4 s with
         | (Some b, s1) => match s_err s1 with None => (RF32 b, s1) | Some _ => (rzero, s1) end
         | (None, s1) => (rzero, s1)
         end
  | 7 => match rdn 8 s with
         | (Some b, s1) => match s_err s1 with None => (RF64 b, s1) | Some _ => (rzero, s1) end
         | (None, s1) => (rzero, s1)
         end
  | _ => (rzero, set_err s SE_inv)
  end.
Definition s_real (s : strm) : real * strm :=
  let (o, s1) := rd1 s in
  match o, s_err s1 with
  | Some ty, None => s_real_by ty s1
  | _, _ => (rzero, s1)
  end.

(* ---- `for (i = num; i > 0; i--) body`: [body] consumes at least one byte when it succeeds; once the stream has
   failed an iteration consumes [per_fail] bytes and its result does not matter.  [fuel] > bytes left. *)
Fixpoint s_loop {A} (fuel : nat) (body : A -> strm -> A * strm) (per_fail : N) (num : N) (acc : A) (s : strm)
  : res A :=
  if num =? 0 then ROk acc s else
  match s_err s with
  | Some _ => if big_loop <=? num then RHang else ROk acc (fail_n (per_fail * num) s)
  | None =>
      match fuel with
      | O => RHang                                   (* not reached: fuel exceeds the bytes left *)
      | S f => let (acc1, s1) := body acc s in s_loop f body per_fail (num - 1) acc1 s1
      end
  end.
(* ensure_slots(num) on an array of [have] elements of [esize] bytes, then the loop writing through the items *)
Definition s_alloc_loop {A} (esize have : N) (body : A -> strm -> A * strm) (per_fail : N) (num : N) (acc : A)
  : M A := fun s =>
  if alloc_fails ((have + num) * esize) && (0 <? num) then RCrash
  else s_loop (S (length (s_bs s))) body per_fail num acc s.

(* ---- oasis_read_point_list(in, factor, closed, result) with result = [(0,0)]: the points appended *)
Definition plist_alt_body (st : list pt * bool * pt) (s : strm) : (list pt * bool * pt) * strm :=
  let '(acc, horizontal, ref) := st in
  let (d, s1) := s_int s in
  let cur := if horizontal then ((fst ref + d)%Z, snd ref) else (fst ref, (snd ref + d)%Z) in
  ((cur :: acc, negb horizontal, cur), s1).
Definition plist_delta_body (rd : strm -> pt * strm) (st : list pt * pt) (s : strm) : (list pt * pt) * strm :=
  let '(acc, ref) := st in
  let (d, s1) := rd s in
  let cur := padd d ref in
  ((cur :: acc, cur), s1).
Definition plist_rel_body (st : list pt * pt * pt) (s : strm) : (list pt * pt * pt) * strm :=
  let '(acc, delta, ref) := st in
  let (d, s1) := s_gdelta s in
  let delta1 := padd delta d in
  let cur := padd delta1 ref in
  ((cur :: acc, delta1, cur), s1).
Definition s_plist (closed : bool) : M (list pt) := fun s =>
  let (o, s1) := rd1 s in
  match o, s_err s1 with
  | Some ty, None =>
      let (num, s2) := s_uint s1 in
      match s_err s2 with
      | Some _ => ROk [] s2                                        (* `return 0` *)
      | None =>
          let o0 := (0, 0)%Z in
          match ty with
          | 0 | 1 =>
              (do '(acc, horizontal, last) <-
                 s_alloc_loop 16 2 plist_alt_body 1 num ([], ty =? 0, o0);
               rret (if closed
                     then rev ((if horizontal then (0%Z, snd last) else (fst last, 0%Z)) :: acc)
                     else rev acc)) s2
          | 2 => (do '(acc, _) <- s_alloc_loop 16 1 (plist_delta_body s_2delta) 1 num ([], o0); rret (rev acc)) s2
          | 3 => (do '(acc, _) <- s_alloc_loop 16 1 (plist_delta_body s_3delta) 1 num ([], o0); rret (rev acc)) s2
          | 4 => (do '(acc, _) <- s_alloc_loop 16 1 (plist_delta_body s_gdelta) 0 num ([], o0); rret (rev acc)) s2
          | 5 => (do '(acc, _, _) <- s_alloc_loop 16 1 plist_rel_body 0 num ([], o0, o0); rret (rev acc)) s2
          | _ => ROk [] (set_err s2 SE_inv)
          end
      end
  | _, _ => ROk [] s1
  end.

(* ================================================================== what gdstk builds *)
(* gdstk's Repetition, on the grid *)
Inductive rrep :=
| RR_none
| RR_rect (cols rows : N) (sx sy : N)
| RR_regular (cols rows : N) (v1 v2 : pt)
| RR_explicit (offs : list pt)
| RR_ex (xs : list N)
| RR_ey (ys : list N).

(* ---- oasis_read_repetition(in, factor, modal_repetition): the new modal repetition *)
Definition rep_coord_body (g : N) (st : list N * N) (s : strm) : (list N * N) * strm :=
  let '(acc, x) := st in
  let (d, s1) := s_uint s in
  let x1 := x + g * d in
  ((x1 :: acc, x1), s1).
Definition rep_off_body (g : N) (st : list pt * pt) (s : strm) : (list pt * pt) * strm :=
  let '(acc, v) := st in
  let (d, s1) := s_gdelta s in
  let v1 := ((fst v + Z.of_N g * fst d)%Z, (snd v + Z.of_N g * snd d)%Z) in
  ((v1 :: acc, v1), s1).
Definition s_rep (cur : rrep) : M rrep := fun s =>
  let (o, s1) := rd1 s in
  match o, s_err s1 with
  | Some ty, None =>
      match ty with
      | 0 => ROk cur s1
      | 1 => let (nx, s2) := s_uint s1 in let (ny, s3) := s_uint s2 in
             let (sx, s4) := s_uint s3 in let (sy, s5) := s_uint s4 in
             ROk (RR_rect (u64 (2 + nx)) (u64 (2 + ny)) sx sy) s5
      | 2 => let (nx, s2) := s_uint s1 in let (sx, s3) := s_uint s2 in
             ROk (RR_rect (u64 (2 + nx)) 1 sx 0) s3
      | 3 => let (ny, s2) := s_uint s1 in let (sy, s3) := s_uint s2 in
             ROk (RR_rect 1 (u64 (2 + ny)) 0 sy) s3
      | 4 | 5 | 6 | 7 =>
          let (c, s2) := s_uint s1 in
          let count := u64 (1 + c) in
          let (g, s3) := (if (ty =? 5) || (ty =? 7) then s_uint s2 else (1, s2)) in
          (do '(acc, _) <- s_alloc_loop 8 0 (rep_coord_body g) 1 count ([], 0);
           rret (if ty <? 6 then RR_ex (rev acc) else RR_ey (rev acc))) s3
      | 8 => let (n, s2) := s_uint s1 in let (m, s3) := s_uint s2 in
             let (v1, s4) := s_gdelta s3 in let (v2, s5) := s_gdelta s4 in
             ROk (RR_regular (u64 (2 + n)) (u64 (2 + m)) v1 v2) s5
      | 9 => let (n, s2) := s_uint s1 in let (v1, s3) := s_gdelta s2 in
             ROk (RR_regular (u64 (2 + n)) 1 v1 ((- snd v1)%Z, fst v1)) s3
      | 10 | 11 =>
          let (c, s2) := s_uint s1 in
          let count := u64 (1 + c) in
          let (g, s3) := (if ty =? 11 then s_uint s2 else (1, s2)) in
          (do '(acc, _) <- s_alloc_loop 16 0 (rep_off_body g) 0 count ([], (0, 0)%Z);
           rret (RR_explicit (rev acc))) s3
      | _ => ROk RR_none s1                                        (* repetition.clear(); no case *)
      end
  | _, _ => ROk cur s1                                             (* `return;` *)
  end.

(* property values: references into the PROPSTRING table stay numbers until END *)
Inductive rpval :=
| RV_real (r : real) | RV_uint (n : N) | RV_int (z : Z) | RV_str (s : list N)
| RV_ref (n : N).    (* PropertyType::UnsignedInteger + membership in unfinished_property_value *)
Record gprop (nm : Type) := mkGP { gp_name : nm; gp_vals : list rpval }.
Arguments mkGP {nm} gp_name gp_vals.
Arguments gp_name {nm} g.
Arguments gp_vals {nm} g.

Inductive rend := RE_flush | RE_half | RE_ext (u v : Z).

(* elements; [nm] = how a name is held: [nref] (string or reference number) while reading, bytes after END *)
Inductive gelem (nm : Type) :=
| GPolygon (layer dtype : N) (pts : list pt) (rep : rrep)
| GCircle (layer dtype : N) (centre : pt) (radius : N) (rep : rrep)       (* ellipse(centre, r, r, ...) *)
| GPath (layer dtype : N) (hw : N) (e : rend) (spine : list pt) (rep : rrep)
| GLabel (text : nm) (layer ttype : N) (origin : pt) (rep : rrep)
| GRef (cell : nm) (found : bool) (tr : ptrans) (flip : bool) (origin : pt) (rep : rrep).
Arguments GPolygon {nm}.
Arguments GCircle {nm}.
Arguments GPath {nm}.
Arguments GLabel {nm}.
Arguments GRef {nm}.
Record gcell (nm : Type) := mkGC {
  gc_name : nm; gc_props : list (gprop nm); gc_elems : list (gelem nm * list (gprop nm)) }.
Arguments mkGC {nm}.
Arguments gc_name {nm} g.
Arguments gc_props {nm} g.
Arguments gc_elems {nm} g.

Definition bytes := list N.
(* the library after END: the four element arrays of a gdstk Cell are the stable partition of [gc_elems] by
   constructor (polygon_array = GPolygon + GCircle, flexpath_array, label_array, reference_array) *)
Inductive rlib :=
| RLib (unit : real) (props : list (gprop bytes)) (cells : list (gcell bytes))
| RUnsupported
| RCblock.
(* error_code == MissingReference *)
Definition elem_missing {nm} (e : gelem nm) : bool :=
  match e with GRef _ found _ _ _ _ => negb found | _ => false end.
Definition lib_missing (cells : list (gcell bytes)) : bool :=
  existsb (fun c => existsb (fun ep => elem_missing (fst ep)) (gc_elems c)) cells.

Definition rprop := gprop nref.
Definition relem := gelem nref.
Definition rcell := gcell nref.           (* lists newest first while reading *)

(* ================================================================== reader state *)
Record rmodal := mkRM {
  r_abs : bool;                            (* modal_absolute_pos *)
  r_layer : N; r_dtype : N;                (* modal_layer, modal_datatype (uint32) *)
  r_tlayer : N; r_ttype : N;               (* modal_textlayer, modal_texttype *)
  r_ppos : pt; r_tpos : pt; r_gpos : pt;   (* modal_placement_pos, modal_text_pos, modal_geom_pos *)
  r_w : N; r_h : N;                        (* modal_geom_dim *)
  r_rep : rrep;                            (* modal_repetition *)
  r_text : option nref;                    (* modal_text_string: NULL or the label whose text / number is copied *)
  r_pcell : option nref;                   (* modal_placement_cell *)
  r_poly : list pt; r_path : list pt;      (* modal_*_points after the initial (0,0) *)
  r_hw : N; r_exs : Z; r_exe : Z;          (* modal_path_halfwidth, modal_path_extensions *)
  r_ctype : N; r_rad : N;                  (* modal_ctrapezoid_type, modal_circle_radius *)
  r_pname : option nref;                   (* modal_property (+ modal_property_unfinished = the name is a number) *)
  r_pvals : list rpval                     (* modal_property_value_list (NULL = empty) *)
}.
Definition rmodal0 : rmodal :=
  mkRM true 0 0 0 0 (0, 0)%Z (0, 0)%Z (0, 0)%Z 0 0 RR_none None None [] [] 0 0%Z 0%Z 0 0 None [].

(* name tables: Array<ByteArray>; index = reference number; a slot below [t_count] without an item is a filler
   {0, NULL, NULL}.  [te_bytes] = None for NULL bytes (filler, or an empty string read without terminator) *)
Record tentry := mkTE { te_bytes : option bytes; te_props : list rprop (* newest first *) }.
Record rtable := mkTab { t_count : N; t_items : list (N * tentry) (* newest first; the first match counts *) }.
Definition tab0 : rtable := mkTab 0 [].
Definition filler : tentry := mkTE None [].
Fixpoint assoc_get (l : list (N * tentry)) (k : N) : option tentry :=
  match l with [] => None | (k', e) :: r => if k' =? k then Some e else assoc_get r k end.
(* table.items + k : None = outside the array *)
Definition tab_get (t : rtable) (k : N) : option tentry :=
  if k <? t_count t then Some (match assoc_get (t_items t) k with Some e => e | None => filler end) else None.
Definition tab_set (t : rtable) (k : N) (e : tentry) : rtable :=
  mkTab (if k <? t_count t then t_count t else k + 1) ((k, e) :: t_items t).
Definition tab_append (t : rtable) (e : tentry) : rtable := tab_set t (t_count t) e.

(* where `next_property` points *)
Inductive rtarget :=
| RT_lib | RT_cell | RT_elem
| RT_name (which : N) (k : N).    (* properties of entry k of table which (0 cell names, 1 text strings, 2 property
                                     names, 3 property strings) *)

Record rstate := mkR {
  q_modal : rmodal;
  q_unit : real;
  q_lprops : list rprop;                   (* library.properties, newest first *)
  q_cells : list rcell;                    (* library.cell_array, newest first; head = `cell` *)
  q_target : rtarget;
  q_cn : rtable; q_ts : rtable; q_pn : rtable; q_ps : rtable
}.
Definition q_init (u : real) : rstate := mkR rmodal0 u [] [] RT_lib tab0 tab0 tab0 tab0.

Definition set_modal (st : rstate) (m : rmodal) : rstate :=
  mkR m (q_unit st) (q_lprops st) (q_cells st) (q_target st) (q_cn st) (q_ts st) (q_pn st) (q_ps st).
Definition set_target (st : rstate) (t : rtarget) : rstate :=
  mkR (q_modal st) (q_unit st) (q_lprops st) (q_cells st) t (q_cn st) (q_ts st) (q_pn st) (q_ps st).
Definition set_cells (st : rstate) (m : rmodal) (cs : list rcell) (t : rtarget) : rstate :=
  mkR m (q_unit st) (q_lprops st) cs t (q_cn st) (q_ts st) (q_pn st) (q_ps st).
Definition get_table (st : rstate) (which : N) : rtable :=
  match which with 0 => q_cn st | 1 => q_ts st | 2 => q_pn st | _ => q_ps st end.
Definition set_table (st : rstate) (which : N) (t : rtable) (tg : rtarget) : rstate :=
  match which with
  | 0 => mkR (q_modal st) (q_unit st) (q_lprops st) (q_cells st) tg t (q_ts st) (q_pn st) (q_ps st)
  | 1 => mkR (q_modal st) (q_unit st) (q_lprops st) (q_cells st) tg (q_cn st) t (q_pn st) (q_ps st)
  | 2 => mkR (q_modal st) (q_unit st) (q_lprops st) (q_cells st) tg (q_cn st) (q_ts st) t (q_ps st)
  | _ => mkR (q_modal st) (q_unit st) (q_lprops st) (q_cells st) tg (q_cn st) (q_ts st) (q_pn st) t
  end.

(* ================================================================== fields of the element records *)
Definition tb (info i : N) : bool := N.testbit info i.

(* `if (info & bit) modal = (uint32_t)oasis_read_unsigned_integer(in);` *)
Definition f_u32 (b : bool) (cur : N) (s : strm) : N * strm :=
  if b then let (v, s1) := s_uint s in (u32 v, s1) else (cur, s).
(* `if (info & bit) modal = factor * oasis_read_unsigned_integer(in);` *)
Definition f_uint (b : bool) (cur : N) (s : strm) : N * strm := if b then s_uint s else (cur, s).
(* `if (info & bit) { x = factor * oasis_read_integer(in); if (modal_absolute_pos) pos = x; else pos += x; }` *)
Definition f_pos (b absolute : bool) (cur : Z) (s : strm) : Z * strm :=
  if b then let (d, s1) := s_int s in ((if absolute then d else cur + d)%Z, s1) else (cur, s).
(* `if (info & bit) { oasis_read_repetition(in, factor, modal_repetition); x->repetition.copy_from(modal_repetition); }`:
   the element's repetition and the new modal repetition *)
Definition f_rep (b : bool) (cur : rrep) : M (rrep * rrep) :=
  if b then (do r <- s_rep cur; rret (r, r)) else rret (RR_none, cur).
(* `if (info & 0x20) { modal_points.count = 1; oasis_read_point_list(in, factor, closed, modal_points); }` *)
Definition f_plist (b closed : bool) (cur : list pt) : M (list pt) := if b then s_plist closed else rret cur.
(* `if (info & 0x80) oasis_read(&modal_ctrapezoid_type, 1, 1, in);` *)
Definition f_ctype (b : bool) (cur : N) : M N :=
  if b then (do o <- lift rd1; rret (match o with Some t => t | None => cur end)) else rret cur.
Definition f_xy (bx by_ absolute : bool) (cur : pt) (s : strm) : pt * strm :=
  let (x, s1) := f_pos bx absolute (fst cur) s in
  let (y, s2) := f_pos by_ absolute (snd cur) s1 in
  ((x, y), s2).
(* a name: string or reference number *)
Definition f_nref (by_number : bool) : M nref :=
  if by_number then lift (fun s => let (n, s1) := s_uint s in (NNum n, s1))
  else (do str <- s_string true; rret (NName str)).

(* `if (info & bit) { explicit name; modal = this element; } else { copy from the modal element }`: the name used and
   the new modal pointer; a NULL modal pointer is dereferenced *)
Definition f_name (b by_number : bool) (cur : option nref) : M (nref * option nref) :=
  if b then (do t <- f_nref by_number; rret (t, Some t))
  else match cur with
       | Some t => rret (t, Some t)
       | None => fun _ => RCrash
       end.
(* a TRAPEZOID delta that the record code leaves out is 0 *)
Definition f_delta (absent : bool) : M Z := if absent then rret 0%Z else lift s_int.

Definition with_geom (m : rmodal) (layer dtype : N) (pos : pt) (w h : N) (rp : rrep) : rmodal :=
  mkRM (r_abs m) layer dtype (r_tlayer m) (r_ttype m) (r_ppos m) (r_tpos m) pos w h rp (r_text m) (r_pcell m)
       (r_poly m) (r_path m) (r_hw m) (r_exs m) (r_exe m) (r_ctype m) (r_rad m) (r_pname m) (r_pvals m).

(* ---- RECTANGLE *)
Definition rect_points (p : pt) (w h : N) : list pt :=
  let x := fst p in let y := snd p in
  [ (x, y); ((x + Z.of_N w)%Z, y); ((x + Z.of_N w)%Z, (y + Z.of_N h)%Z); (x, (y + Z.of_N h)%Z) ].
Definition m_rectangle (m : rmodal) (info : N) : M (relem * rmodal) :=
  do layer <- lift (f_u32 (tb info 0) (r_layer m));
  do dtype <- lift (f_u32 (tb info 1) (r_dtype m));
  do w <- lift (f_uint (tb info 6) (r_w m));
  do h <- lift (f_uint (tb info 5) (if tb info 7 then w else r_h m));
  do pos <- lift (f_xy (tb info 4) (tb info 3) (r_abs m) (r_gpos m));
  do '(rp, mr) <- f_rep (tb info 2) (r_rep m);
  rret (GPolygon layer dtype (rect_points pos w h) rp, with_geom m layer dtype pos w h mr).

(* ---- POLYGON *)
Definition with_poly (m : rmodal) (pts : list pt) : rmodal :=
  mkRM (r_abs m) (r_layer m) (r_dtype m) (r_tlayer m) (r_ttype m) (r_ppos m) (r_tpos m) (r_gpos m) (r_w m) (r_h m)
       (r_rep m) (r_text m) (r_pcell m) pts (r_path m) (r_hw m) (r_exs m) (r_exe m) (r_ctype m) (r_rad m)
       (r_pname m) (r_pvals m).
Definition m_polygon (m : rmodal) (info : N) : M (relem * rmodal) :=
  do layer <- lift (f_u32 (tb info 0) (r_layer m));
  do dtype <- lift (f_u32 (tb info 1) (r_dtype m));
  do pts <- f_plist (tb info 5) true (r_poly m);
  do pos <- lift (f_xy (tb info 4) (tb info 3) (r_abs m) (r_gpos m));
  do '(rp, mr) <- f_rep (tb info 2) (r_rep m);
  rret (GPolygon layer dtype (map (fun v => padd v pos) ((0, 0)%Z :: pts)) rp,
        with_poly (with_geom m layer dtype pos (r_w m) (r_h m) mr) pts).

(* ---- PATH *)
Definition with_path (m : rmodal) (pts : list pt) (hw : N) (exs exe : Z) : rmodal :=
  mkRM (r_abs m) (r_layer m) (r_dtype m) (r_tlayer m) (r_ttype m) (r_ppos m) (r_tpos m) (r_gpos m) (r_w m) (r_h m)
       (r_rep m) (r_text m) (r_pcell m) (r_poly m) pts hw exs exe (r_ctype m) (r_rad m) (r_pname m) (r_pvals m).
(* one half of `switch (extension_scheme & ...)`: code 0 keeps the modal value *)
Definition f_ext (code : N) (hw : N) (cur : Z) (s : strm) : Z * strm :=
  match code with
  | 0 => (cur, s)
  | 1 => (0%Z, s)
  | 2 => (Z.of_N hw, s)
  | _ => s_int s
  end.
Definition path_end (hw : N) (u v : Z) : rend :=
  if (u =? 0)%Z && (v =? 0)%Z then RE_flush
  else if (u =? Z.of_N hw)%Z && (v =? Z.of_N hw)%Z then RE_half
  else RE_ext u v.
(* `if (info & 0x80) { oasis_read(&extension_scheme, 1, 1, in); switch ... switch ... }` *)
Definition m_path_ext (b : bool) (hw : N) (exs exe : Z) : M (Z * Z) :=
  if b then
    do osch <- lift rd1;
    match osch with
    | Some sch =>
        do u <- lift (f_ext (N.land (N.shiftr sch 2) 3) hw exs);
        do v <- lift (f_ext (N.land sch 3) hw exe);
        rret (u, v)
    | None => rret (exs, exe)                  (* end of file: nothing more is read *)
    end
  else rret (exs, exe).
Definition m_path (m : rmodal) (info : N) : M (relem * rmodal) :=
  do layer <- lift (f_u32 (tb info 0) (r_layer m));
  do dtype <- lift (f_u32 (tb info 1) (r_dtype m));
  do hw <- lift (f_uint (tb info 6) (r_hw m));
  do '(exs, exe) <- m_path_ext (tb info 7) hw (r_exs m) (r_exe m);
  do pts <- f_plist (tb info 5) false (r_path m);
  do pos <- lift (f_xy (tb info 4) (tb info 3) (r_abs m) (r_gpos m));
  (* path->spine.append(pos); path->segment(skip_first, NULL, NULL, true): with no point
     `last_ctrl = point_array[point_array.count - 2]` reads before the array *)
  match pts with
  | [] => fun _ => RCrash
  | _ =>
      do '(rp, mr) <- f_rep (tb info 2) (r_rep m);
      rret (GPath layer dtype hw (path_end hw exs exe) (pos :: map (fun v => padd pos v) pts) rp,
            with_path (with_geom m layer dtype pos (r_w m) (r_h m) mr) pts hw exs exe)
  end.

(* ---- TRAPEZOID (23 both deltas, 24 delta_a, 25 delta_b): vertices r s q p *)
Definition trap_pts (vert : bool) (p : pt) (w h : N) (da db : Z) : list pt :=
  let x := fst p in let y := snd p in
  let W := Z.of_N w in let H := Z.of_N h in
  (if vert then
     let py := if da <? 0 then y else y + da in
     let ry := if da <? 0 then y - da else y in
     let sy := if db <? 0 then y + H else y + H - db in
     let qy := if db <? 0 then y + H + db else y + H in
     [ (x + W, ry); (x + W, sy); (x, qy); (x, py) ]
   else
     let px := if da <? 0 then x else x + da in
     let rx := if da <? 0 then x - da else x in
     let sx := if db <? 0 then x + W else x + W - db in
     let qx := if db <? 0 then x + W + db else x + W in
     [ (rx, y); (sx, y); (qx, y + H); (px, y + H) ])%Z.
Definition m_trapezoid (code : N) (m : rmodal) (info : N) : M (relem * rmodal) :=
  do layer <- lift (f_u32 (tb info 0) (r_layer m));
  do dtype <- lift (f_u32 (tb info 1) (r_dtype m));
  do w <- lift (f_uint (tb info 6) (r_w m));
  do h <- lift (f_uint (tb info 5) (r_h m));
  do da <- f_delta (code =? 25);
  do db <- f_delta (code =? 24);
  do pos <- lift (f_xy (tb info 4) (tb info 3) (r_abs m) (r_gpos m));
  do '(rp, mr) <- f_rep (tb info 2) (r_rep m);
  rret (GPolygon layer dtype (trap_pts (tb info 7) pos w h da db) rp, with_geom m layer dtype pos w h mr).

(* ---- CTRAPEZOID: the vertex switch is the table regenerated from the source (Generated.ctrap_table) *)
Fixpoint ctrap_lookup (t : list (N * list lfpt)) (ty : N) : option (list lfpt) :=
  match t with [] => None | (k, v) :: r => if k =? ty then Some v else ctrap_lookup r ty end.
Definition ctrap_pts (ty : N) (p : pt) (w h : N) : list pt :=
  match ctrap_lookup GV.Generated.ctrap_table ty with
  | Some forms => map (fun f => padd p (lfpt_eval (Z.of_N w) (Z.of_N h) f)) forms
  | None => rect_points p w h                                   (* no case: the box *)
  end.
(* `modal_geom_dim.y = modal_geom_dim.x` etc. inside the cases *)
Definition ctrap_dim (ty w h : N) : N * N :=
  if (16 <=? ty) && (ty <=? 19) then (w, w)
  else if (ty =? 20) || (ty =? 21) then (2 * h, h)
  else if (ty =? 22) || (ty =? 23) then (w, 2 * w)
  else (w, h).
Definition with_ctype (m : rmodal) (ty : N) : rmodal :=
  mkRM (r_abs m) (r_layer m) (r_dtype m) (r_tlayer m) (r_ttype m) (r_ppos m) (r_tpos m) (r_gpos m) (r_w m) (r_h m)
       (r_rep m) (r_text m) (r_pcell m) (r_poly m) (r_path m) (r_hw m) (r_exs m) (r_exe m) ty (r_rad m)
       (r_pname m) (r_pvals m).
Definition m_ctrapezoid (m : rmodal) (info : N) : M (relem * rmodal) :=
  do layer <- lift (f_u32 (tb info 0) (r_layer m));
  do dtype <- lift (f_u32 (tb info 1) (r_dtype m));
  do ty <- f_ctype (tb info 7) (r_ctype m);
  do w <- lift (f_uint (tb info 6) (r_w m));
  do h <- lift (f_uint (tb info 5) (r_h m));
  do pos <- lift (f_xy (tb info 4) (tb info 3) (r_abs m) (r_gpos m));
  do '(rp, mr) <- f_rep (tb info 2) (r_rep m);
  let '(w1, h1) := ctrap_dim ty w h in
  rret (GPolygon layer dtype (ctrap_pts ty pos w h) rp, with_ctype (with_geom m layer dtype pos w1 h1 mr) ty).

(* ---- CIRCLE *)
Definition with_rad (m : rmodal) (rad : N) : rmodal :=
  mkRM (r_abs m) (r_layer m) (r_dtype m) (r_tlayer m) (r_ttype m) (r_ppos m) (r_tpos m) (r_gpos m) (r_w m) (r_h m)
       (r_rep m) (r_text m) (r_pcell m) (r_poly m) (r_path m) (r_hw m) (r_exs m) (r_exe m) (r_ctype m) rad
       (r_pname m) (r_pvals m).
Definition m_circle (m : rmodal) (info : N) : M (relem * rmodal) :=
  do layer <- lift (f_u32 (tb info 0) (r_layer m));
  do dtype <- lift (f_u32 (tb info 1) (r_dtype m));
  do rad <- lift (f_uint (tb info 5) (r_rad m));
  do pos <- lift (f_xy (tb info 4) (tb info 3) (r_abs m) (r_gpos m));
  do '(rp, mr) <- f_rep (tb info 2) (r_rep m);
  rret (GCircle layer dtype pos rad rp, with_rad (with_geom m layer dtype pos (r_w m) (r_h m) mr) rad).

(* ---- TEXT *)
Definition with_text (m : rmodal) (t : option nref) (layer ttype : N) (pos : pt) (rp : rrep) : rmodal :=
  mkRM (r_abs m) (r_layer m) (r_dtype m) layer ttype (r_ppos m) pos (r_gpos m) (r_w m) (r_h m)
       rp t (r_pcell m) (r_poly m) (r_path m) (r_hw m) (r_exs m) (r_exe m) (r_ctype m) (r_rad m)
       (r_pname m) (r_pvals m).
Definition m_text (m : rmodal) (info : N) : M (relem * rmodal) :=
  do '(txt, mt) <- f_name (tb info 6) (tb info 5) (r_text m);       (* modal_text_string->text *)
  do layer <- lift (f_u32 (tb info 0) (r_tlayer m));
  do ttype <- lift (f_u32 (tb info 1) (r_ttype m));
  do pos <- lift (f_xy (tb info 4) (tb info 3) (r_abs m) (r_tpos m));
  do '(rp, mr) <- f_rep (tb info 2) (r_rep m);
  rret (GLabel txt layer ttype pos rp, with_text m mt layer ttype pos mr).

(* ---- PLACEMENT (17) / PLACEMENT_TRANSFORM (18) *)
Definition with_place (m : rmodal) (c : option nref) (pos : pt) (rp : rrep) : rmodal :=
  mkRM (r_abs m) (r_layer m) (r_dtype m) (r_tlayer m) (r_ttype m) pos (r_tpos m) (r_gpos m) (r_w m) (r_h m)
       rp (r_text m) c (r_poly m) (r_path m) (r_hw m) (r_exs m) (r_exe m) (r_ctype m) (r_rad m)
       (r_pname m) (r_pvals m).
Definition f_oreal (b : bool) (s : strm) : option real * strm :=
  if b then let (v, s1) := s_real s in (Some v, s1) else (None, s).
Definition m_place_tr (code info : N) : M ptrans :=
  if code =? 17 then rret (PT_quarter (N.land (N.shiftr info 1) 3))
  else (do mag <- lift (f_oreal (tb info 2)); do ang <- lift (f_oreal (tb info 1)); rret (PT_general mag ang)).
Definition m_placement (code : N) (m : rmodal) (info : N) : M (relem * rmodal) :=
  do '(c, mc) <- f_name (tb info 7) (tb info 6) (r_pcell m);       (* modal_placement_cell->type *)
  do tr <- m_place_tr code info;
  do pos <- lift (f_xy (tb info 5) (tb info 4) (r_abs m) (r_ppos m));
  do '(rp, mr) <- f_rep (tb info 3) (r_rep m);
  rret (GRef c false tr (tb info 0) pos rp, with_place m mc pos mr).

(* ---- PROPERTY (28) / LAST_PROPERTY (29) *)
Definition with_prop (m : rmodal) (n : option nref) (vs : list rpval) : rmodal :=
  mkRM (r_abs m) (r_layer m) (r_dtype m) (r_tlayer m) (r_ttype m) (r_ppos m) (r_tpos m) (r_gpos m) (r_w m) (r_h m)
       (r_rep m) (r_text m) (r_pcell m) (r_poly m) (r_path m) (r_hw m) (r_exs m) (r_exe m) (r_ctype m) (r_rad m)
       n vs.
(* one value: `oasis_read(&data_type, 1, 1, in); switch (data_type)`; an unknown type leaves the cleared value
   (UnsignedInteger 0) *)
Definition s_pval : M rpval := fun s =>
  let (o, s1) := rd1 s in
  match o with
  | None => ROk (RV_uint 0) s1
  | Some ty =>
      if ty <? 8 then let (r, s2) := s_real_by ty s1 in ROk (RV_real r) s2
      else match ty with
           | 8 => let (n, s2) := s_uint s1 in ROk (RV_uint n) s2
           | 9 => let (z, s2) := s_int s1 in ROk (RV_int z) s2
           | 10 | 11 | 12 => (do str <- s_string false; rret (RV_str str)) s1
           | 13 | 14 | 15 => let (n, s2) := s_uint s1 in ROk (RV_ref n) s2
           | _ => ROk (RV_uint 0) s1
           end
  end.
(* `for (; num_values > 0; num_values--)`: every iteration allocates; once the bytes are exhausted nothing changes
   any more *)
Fixpoint s_pvals (fuel : nat) (num : N) (acc : list rpval) (s : strm) : res (list rpval) :=
  if num =? 0 then ROk (rev acc) s else
  match fuel with
  | O => if big_loop <=? num then RHang else ROk (rev acc) s
  | S f =>
      match s_bs s, s_err s with
      | [], Some _ => if big_loop <=? num then RHang else ROk (rev acc) s
      | _, _ => match s_pval s with
                | ROk v s1 => s_pvals f (num - 1) (v :: acc) s1
                | RCrash => RCrash
                | RHang => RHang
                end
      end
  end.
Definition m_prop_vals (info : N) (cur : list rpval) : M (list rpval) :=
  if tb info 3 then rret cur
  else
    do cnt <- (let u := N.shiftr info 4 in if u =? 15 then lift s_uint else rret u);
    fun s => s_pvals (S (S (length (s_bs s)))) cnt [] s.
Definition m_property (m : rmodal) (info : N) : M (rprop * rmodal) :=
  do '(nm, mn) <- f_name (tb info 2) (tb info 1) (r_pname m);       (* modal_property->name *)
  do vs <- m_prop_vals info (r_pvals m);
  rret (mkGP nm vs, with_prop m mn vs).

(* ================================================================== the record switch *)
(* ErrorCode values the reader sets itself *)
Inductive rcode := C_invalid | C_unsupported.
Inductive hres :=
| H_cont (st : rstate) (s : strm)                    (* break; *)
| H_stop (c : rcode) (st : rstate) (s : strm)        (* *error_code = c; break; *)
| H_end (o : outcome rlib).                          (* END: goto CLEANUP; or undefined behaviour *)

Definition add_elem_r (st : rstate) (e : relem) (m : rmodal) : rstate :=
  match q_cells st with
  | [] => st
  | c :: cs => set_cells st m (mkGC (gc_name c) (gc_props c) ((e, []) :: gc_elems c) :: cs) RT_elem
  end.
(* an element record: `x = allocate_clear(..); cell->x_array.append(x); next_property = &x->properties;
   uint8_t info; oasis_read(&info, 1, 1, in); ...`.  [ptrs]: the record dereferences modal pointers or reads
   terminated strings depending on info bits. *)
Definition h_element (ptrs : bool) (st : rstate) (rec : rmodal -> N -> M (relem * rmodal)) (s : strm) : hres :=
  match q_cells st with
  | [] => H_end Crash                                            (* cell == NULL *)
  | _ =>
      let (o, s1) := rd1 s in
      match o with
      | None => if ptrs then H_end Crash else H_cont st s1       (* info uninitialised; end of file *)
      | Some info =>
          match rec (q_modal st) info s1 with
          | ROk (e, m) s2 => H_cont (add_elem_r st e m) s2
          | RCrash => H_end Crash
          | RHang => H_end Hang
          end
      end
  end.

(* `*next_property = property; next_property = &property->next;` *)
Definition tab_add_prop (t : rtable) (k : N) (p : rprop) : rtable :=
  match tab_get t k with
  | Some e => mkTab (t_count t) ((k, mkTE (te_bytes e) (p :: te_props e)) :: t_items t)
  | None => t
  end.
Definition add_prop_r (st : rstate) (p : rprop) (m : rmodal) : rstate :=
  match q_target st with
  | RT_lib => mkR m (q_unit st) (p :: q_lprops st) (q_cells st) RT_lib (q_cn st) (q_ts st) (q_pn st) (q_ps st)
  | RT_cell =>
      match q_cells st with
      | c :: cs => set_cells st m (mkGC (gc_name c) (p :: gc_props c) (gc_elems c) :: cs) RT_cell
      | [] => set_modal st m
      end
  | RT_elem =>
      match q_cells st with
      | c :: cs =>
          match gc_elems c with
          | (e, ps) :: es => set_cells st m (mkGC (gc_name c) (gc_props c) ((e, p :: ps) :: es) :: cs) RT_elem
          | [] => set_modal st m
          end
      | [] => set_modal st m
      end
  | RT_name which k =>
      set_table (set_modal st m) which (tab_add_prop (get_table st which) k p) (RT_name which k)
  end.

(* CELLNAME / TEXTSTRING / PROPNAME / PROPSTRING, implicit and explicit *)
Definition h_name (st : rstate) (which : N) (explicit : bool) (s : strm) : hres :=
  match s_string (negb (which =? 3)) s with
  | RCrash => H_end Crash
  | RHang => H_end Hang
  | ROk str s1 =>
      let t := get_table st which in
      (* a string read without terminator is NULL when empty or after a failed read *)
      let e := mkTE (if (which =? 3) && negb (nonempty str) then None else Some str) [] in
      if explicit then
        let (k, s2) := s_uint s1 in
        if (t_count t <=? k) && alloc_fails ((k + 1) * 24) && (t_count t <? k) then H_end Crash  (* ensure_slots fails, fillers written *)
        else if (t_count t <=? k) && mem_slow ((k + 1) * 24) then H_end Hang   (* the filler loop writes that much memory *)
        else H_cont (set_table st which (tab_set t k e) (RT_name which k)) s2
      else H_cont (set_table st which (tab_append t e) (RT_name which (t_count t))) s1
  end.

(* LAYERNAME: string and two intervals, dropped; next_property is NOT moved *)
Definition skip_interval_r (s : strm) : strm :=
  let (ty, s1) := s_uint s in
  if 0 <? ty then
    let s2 := (if ty =? 4 then snd (s_uint s1) else s1) in snd (s_uint s2)
  else s1.

(* ---- END *)
Fixpoint cstr (l : bytes) : bytes :=                     (* a char* handed to strlen / copy_string / strcmp *)
  match l with [] => [] | 0 :: _ => [] | b :: t => b :: cstr t end.
Fixpoint bytes_eqb (a b : bytes) : bool :=
  match a, b with
  | [], [] => true
  | x :: a', y :: b' => (x =? y) && bytes_eqb a' b'
  | _, _ => false
  end.
Fixpoint omapc {A B} (f : A -> outcome B) (l : list A) : outcome (list B) :=
  match l with
  | [] => Ok []
  | a :: t => obind (f a) (fun b => obind (omapc f t) (fun r => Ok (b :: r)))
  end.

(* a name that is still a reference number into table t: copy_string of the bytes of entry k *)
Definition fin_name (t : rtable) (r : nref) : outcome bytes :=
  match r with
  | NName s => Ok (cstr s)
  | NNum k => match tab_get t k with
              | Some e => match te_bytes e with Some b => Ok (cstr b) | None => Crash end
              | None => Crash
              end
  end.
(* unfinished_property_value: `memcpy(bytes, prop_string->bytes, prop_string->count)` *)
Definition fin_val (ps : rtable) (v : rpval) : outcome rpval :=
  match v with
  | RV_ref k => match tab_get ps k with
                | Some e => Ok (RV_str (match te_bytes e with Some b => b | None => [] end))
                | None => Crash
                end
  | _ => Ok v
  end.
Definition fin_prop (pn ps : rtable) (p : rprop) : outcome (gprop bytes) :=
  obind (fin_name pn (gp_name p)) (fun n =>
  obind (omapc (fin_val ps) (gp_vals p)) (fun vs => Ok (mkGP n vs))).
Definition fin_props (pn ps : rtable) (l : list rprop) : outcome (list (gprop bytes)) := omapc (fin_prop pn ps) l.

(* properties_copy(label_text->properties): copy_string of a name that is still a number faults; values that are
   still references stay plain unsigned integers (the copies are not in the unfinished lists) *)
Definition copy_text_prop (p : rprop) : outcome rprop :=
  match gp_name p with
  | NNum _ => Crash
  | NName s => Ok (mkGP (NName s) (map (fun v => match v with RV_ref k => RV_uint k | _ => v end) (gp_vals p)))
  end.

Definition tab_clear_props (t : rtable) (k : N) : rtable :=
  match tab_get t k with
  | Some e => mkTab (t_count t) ((k, mkTE (te_bytes e) []) :: t_items t)
  | None => t
  end.

(* first loop over the cells: names and properties from the CELLNAME table (the entry's list is moved: a second
   cell with the same number finds it empty), label texts from the TEXTSTRING table *)
Definition fin_label (ts : rtable) (ep : relem * list rprop) : outcome (relem * list rprop) :=
  match fst ep with
  | GLabel (NNum k) l t o r =>
      match tab_get ts k with
      | Some e =>
          match te_bytes e with
          | Some b =>
              obind (omapc copy_text_prop (te_props e)) (fun cp =>
                (* elem lists are newest first: the copies come before the label's own properties *)
                Ok (GLabel (NName b) l t o r, snd ep ++ cp))
          | None => Crash
          end
      | None => Crash
      end
  | _ => Ok ep
  end.
Fixpoint fin_cells1 (cn ts : rtable) (cells : list rcell) : outcome (list rcell) :=   (* oldest first *)
  match cells with
  | [] => Ok []
  | c :: rest =>
      obind (match gc_name c with
             | NName s => Ok (s, gc_props c, cn)
             | NNum k =>
                 match tab_get cn k with
                 | Some e => match te_bytes e with
                             | Some b => Ok (b, gc_props c ++ te_props e, tab_clear_props cn k)
                             | None => Crash
                             end
                 | None => Crash
                 end
             end) (fun '(nm, props, cn1) =>
      obind (omapc (fin_label ts) (gc_elems c)) (fun es =>
      obind (fin_cells1 cn1 ts rest) (fun r => Ok (mkGC (NName nm) props es :: r))))
  end.
Definition cell_cname (c : rcell) : bytes := match gc_name c with NName s => cstr s | NNum _ => [] end.

(* second loop: references through the map of cell names *)
Definition fin_ref (cn : rtable) (names : list bytes) (e : relem) : outcome (gelem bytes) :=
  match e with
  | GPolygon l d p r => Ok (GPolygon l d p r)
  | GCircle l d c rad r => Ok (GCircle l d c rad r)
  | GPath l d hw en sp r => Ok (GPath l d hw en sp r)
  | GLabel t l ty o r => Ok (GLabel (match t with NName s => cstr s | NNum _ => [] end) l ty o r)
  | GRef c _ tr f o r =>
      obind (fin_name cn c) (fun n => Ok (GRef n (existsb (bytes_eqb n) names) tr f o r))
  end.
Definition fin_cell2 (cn pn ps : rtable) (names : list bytes) (c : rcell) : outcome (gcell bytes) :=
  obind (omapc (fun ep : relem * list rprop =>
                  obind (fin_ref cn names (fst ep)) (fun e =>
                  obind (fin_props pn ps (rev (snd ep))) (fun pr => Ok (e, pr)))) (rev (gc_elems c))) (fun es =>
  obind (fin_props pn ps (rev (gc_props c))) (fun pr => Ok (mkGC (cell_cname c) pr es))).

(* the lists of names that are still numbers also reach the properties hanging off table entries *)
Definition table_props (t : rtable) : list rprop :=
  flat_map (fun ke => te_props (snd ke)) (t_items t).
Definition all_table_props (st : rstate) : list rprop :=
  table_props (q_cn st) ++ table_props (q_ts st) ++ table_props (q_pn st) ++ table_props (q_ps st).

Definition finish (st : rstate) : outcome rlib :=
  obind (fin_cells1 (q_cn st) (q_ts st) (rev (q_cells st))) (fun cells1 =>
  let names := map cell_cname cells1 in
  obind (omapc (fin_cell2 (q_cn st) (q_pn st) (q_ps st) names) cells1) (fun cells2 =>
  obind (fin_props (q_pn st) (q_ps st) (rev (q_lprops st))) (fun lp =>
  obind (fin_props (q_pn st) (q_ps st) (all_table_props st)) (fun _ =>
  Ok (RLib (q_unit st) lp cells2))))).

(* CLEANUP after a failure: properties_clear frees every name of the table properties; a name that is still a
   reference number k > 0 is not a pointer *)
Definition cleanup_faults (st : rstate) : bool :=
  existsb (fun p : rprop => match gp_name p with NNum k => 0 <? k | NName _ => false end) (all_table_props st).

Definition h_record (st : rstate) (id : N) (s : strm) : hres :=
  let m := q_modal st in
  match id with
  | 0 => H_cont st s
  | 1 => H_stop C_invalid st s
  | 2 => H_end (finish st)
  | 3 => h_name st 0 false s
  | 4 => h_name st 0 true s
  | 5 => h_name st 1 false s
  | 6 => h_name st 1 true s
  | 7 => h_name st 2 false s
  | 8 => h_name st 2 true s
  | 9 => h_name st 3 false s
  | 10 => h_name st 3 true s
  | 11 | 12 =>
      match s_string false s with
      | ROk _ s1 => H_cont st (skip_interval_r (skip_interval_r s1))
      | RCrash => H_end Crash
      | RHang => H_end Hang
      end
  | 13 | 14 =>
      match f_nref (id =? 13) s with
      | ROk nm s1 =>
          let m1 := mkRM true (r_layer m) (r_dtype m) (r_tlayer m) (r_ttype m) (0, 0)%Z (0, 0)%Z (0, 0)%Z
                         (r_w m) (r_h m) (r_rep m) (r_text m) (r_pcell m) (r_poly m) (r_path m) (r_hw m)
                         (r_exs m) (r_exe m) (r_ctype m) (r_rad m) (r_pname m) (r_pvals m) in
          H_cont (set_cells st m1 (mkGC nm [] [] :: q_cells st) RT_cell) s1
      | RCrash => H_end Crash
      | RHang => H_end Hang
      end
  | 15 | 16 =>
      H_cont (set_modal st (mkRM (id =? 15) (r_layer m) (r_dtype m) (r_tlayer m) (r_ttype m) (r_ppos m) (r_tpos m)
                                 (r_gpos m) (r_w m) (r_h m) (r_rep m) (r_text m) (r_pcell m) (r_poly m) (r_path m)
                                 (r_hw m) (r_exs m) (r_exe m) (r_ctype m) (r_rad m) (r_pname m) (r_pvals m))) s
  | 17 | 18 => h_element true st (m_placement id) s
  | 19 => h_element true st m_text s
  | 20 => h_element false st m_rectangle s
  | 21 => h_element false st m_polygon s
  | 22 => h_element false st m_path s
  | 23 | 24 | 25 => h_element false st (m_trapezoid id) s
  | 26 => h_element false st m_ctrapezoid s
  | 27 => h_element false st m_circle s
  | 28 | 29 =>
      let (oinfo, s1) := (if id =? 29 then (Some 8, s) else rd1 s) in
      match oinfo with
      | None => H_end Crash                                      (* info uninitialised *)
      | Some info =>
          match m_property m info s1 with
          | ROk (p, m1) s2 => H_cont (add_prop_r st p m1) s2
          | RCrash => H_end Crash
          | RHang => H_end Hang
          end
      end
  | 30 =>                                                        (* XNAME_IMPLICIT *)
      match (do _ <- lift s_uint; s_string false) s with
      | ROk _ s1 => H_stop C_unsupported st s1
      | RCrash => H_end Crash
      | RHang => H_end Hang
      end
  | 31 =>                                                        (* XNAME *)
      match (do _ <- lift s_uint; do _ <- s_string false; lift s_uint) s with
      | ROk _ s1 => H_stop C_unsupported st s1
      | RCrash => H_end Crash
      | RHang => H_end Hang
      end
  | 32 =>                                                        (* XELEMENT *)
      match (do _ <- lift s_uint; s_string false) s with
      | ROk _ s1 => H_stop C_unsupported st s1
      | RCrash => H_end Crash
      | RHang => H_end Hang
      end
  | 33 =>                                                        (* XGEOMETRY *)
      let (oinfo, s1) := rd1 s in
      match oinfo with
      | None => H_stop C_unsupported st s1
      | Some info =>
          match (do _ <- lift s_uint;
                 do _ <- lift (f_u32 (tb info 0) 0);
                 do _ <- lift (f_u32 (tb info 1) 0);
                 do _ <- s_string false;
                 do _ <- lift (f_xy (tb info 4) (tb info 3) true (0, 0)%Z);
                 f_rep (tb info 2) (r_rep m)) s1 with
          | ROk _ s2 => H_stop C_unsupported st s2
          | RCrash => H_end Crash
          | RHang => H_end Hang
          end
      end
  | 34 => H_end (Ok RCblock)
  | _ => H_stop C_unsupported st s
  end.

(* after the loop: `if (in.error_code != NoError && error_code) *error_code = in.error_code;` then CLEANUP *)
Definition exit_outcome (c : option rcode) (st : rstate) (s : strm) : outcome rlib :=
  if cleanup_faults st then Crash else
  match s_err s, c with
  | Some SE_eof, _ => ErrEof
  | Some SE_ovf, _ => ErrOverflow
  | Some SE_inv, _ => ErrInvalid
  | None, Some C_invalid => ErrInvalid
  | None, Some C_unsupported => Ok RUnsupported
  | None, None => ErrEof                                         (* not reached *)
  end.

(* `while (error_code is NoError && oasis_read(&record, 1, 1, in) == NoError) switch (record)` *)
Fixpoint r_loop (fuel : nat) (st : rstate) (s : strm) : outcome rlib :=
  match fuel with
  | O => Hang                                                    (* not reached: fuel exceeds the bytes left *)
  | S f =>
      let (o, s1) := rd1 s in
      match o, s_err s1 with
      | Some id, None =>
          match h_record st id s1 with
          | H_cont st1 s2 => r_loop f st1 s2
          | H_stop c st1 s2 => exit_outcome (Some c) st1 s2
          | H_end r => r
          end
      | _, _ => exit_outcome None st s1
      end
  end.

Definition magic_start : list N := magic ++ [1].
Definition read_oas_model (bs : list N) : outcome rlib :=
  (* fread(header, 1, 14, in.file) < 14 || memcmp(header, "%SEMI-OASIS\r\n\x01", 14) != 0 *)
  match strip_prefix magic_start bs with
  | None => ErrInvalid
  | Some bs1 =>
      match s_string false (mkS bs1 None) with
      | RCrash => Crash
      | RHang => Hang
      | ROk v s1 =>
          match s_err s1 with
          | Some SE_eof => ErrEof
          | Some SE_ovf => ErrOverflow
          | Some SE_inv => ErrInvalid
          | None =>
              let bad_version := negb (bytes_eqb v version_1_0) in
              let (u, s2) := s_real s1 in
              let (flag, s3) := s_uint s2 in
              let s4 := (if flag =? 0 then
                           fold_left (fun s _ => snd (s_uint s)) (seq 0 12) s3
                         else s3) in
              if bad_version then exit_outcome (Some C_invalid) (q_init u) s4
              else r_loop (S (S (length (s_bs s4)))) (q_init u) s4
          end
      end
  end.

(* ================================================================== the layout gdstk holds for a decoded layout *)
Definition name_of (r : nref) : bytes := match r with NName s => s | NNum _ => [] end.
Definition view_rep (r : srep) : rrep :=
  match r with
  | R_rect nx ny sx sy => RR_rect (nx + 2) (ny + 2) sx sy
  | R_rectx nx sx => RR_rect (nx + 2) 1 sx 0
  | R_recty ny sy => RR_rect 1 (ny + 2) 0 sy
  | R_xs g l => RR_ex (map (fun x => grid_of g * x) (prefix_sums_N 0 l))
  | R_ys g l => RR_ey (map (fun y => grid_of g * y) (prefix_sums_N 0 l))
  | R_reg n m v1 v2 => RR_regular (n + 2) (m + 2) v1 v2
  | R_lin n v => RR_regular (n + 2) 1 v ((- snd v)%Z, fst v)
  | R_exp g l => RR_explicit (map (fun p => ((Z.of_N (grid_of g) * fst p)%Z, (Z.of_N (grid_of g) * snd p)%Z))
                                  (prefix_sums_pt (0, 0)%Z l))
  end.
Definition view_orep (r : option srep) : rrep := match r with Some x => view_rep x | None => RR_none end.
Definition view_val (v : pval) : rpval :=
  match v with
  | PV_real r => RV_real r
  | PV_uint n => RV_uint n
  | PV_int z => RV_int z
  | PV_str _ s => RV_str s
  | PV_ref _ n => RV_ref n
  end.
(* [nmf] : how a name is shown *)
Definition view_prop {nm} (nmf : nref -> nm) (p : prop) : gprop nm :=
  mkGP (nmf (p_name p)) (map view_val (p_vals p)).
Definition view_elem {nm} (nmf : nref -> nm) (found : nref -> bool) (e : element) : gelem nm :=
  match e with
  | E_rect l d w h x y r => GPolygon l d (elem_points e) (view_orep r)
  | E_poly l d pts x y r => GPolygon l d (elem_points e) (view_orep r)
  | E_trap v l d w h da db x y r => GPolygon l d (elem_points e) (view_orep r)
  | E_ctrap l d ty w h x y r => GPolygon l d (elem_points e) (view_orep r)
  | E_circle l d rad x y r => GCircle l d (x, y) rad (view_orep r)
  | E_path l d hw es ee pts x y r => GPath l d hw (path_end hw es ee) (elem_points e) (view_orep r)
  | E_text s l t x y r => GLabel (nmf s) l t (x, y) (view_orep r)
  | E_place c tr f x y r => GRef (nmf c) (found c) tr f (x, y) (view_orep r)
  end.
Definition cname (r : nref) : bytes := cstr (name_of r).
Definition view_cell (names : list bytes) (c : cell) : gcell bytes :=
  mkGC (cname (c_name c)) (map (view_prop cname) (c_props c))
       (map (fun ep => (view_elem cname (fun r => existsb (bytes_eqb (cname r)) names) (fst ep),
                        map (view_prop cname) (snd ep))) (c_elems c)).
Definition view (L : layout) : rlib :=
  let names := map (fun c => cname (c_name c)) (l_cells L) in
  RLib (l_unit L) (map (view_prop cname) (l_props L)) (map (view_cell names) (l_cells L)).

(* ================================================================== the covered part of the strict decoder
   [cov_oas_decode] is the strict decoder of OasisSpec.v with these additional requirements (every function below is
   its OasisSpec counterpart plus guards; OasisReadProofs.cov_refines_spec: cov_oas_decode bs = Some L ->
   spec_oas_decode bs = Some L).  Outside them the reader provably differs from the strict decoder (see the
   *_refuted lemmas of OasisReadProofs.v):
     (c1) fields the reader reads as ONE byte are written in one byte: record ids, the START id, real types, repetition
          types, point-list types, property value types, the PATH extension scheme, the CTRAPEZOID type;
     (c2) layer / datatype / textlayer / texttype below 2^32 (the reader truncates to uint32_t);
     (c3) counts: repetition dimensions + 2 and list counts + 1 below 2^31, point-list counts below 2^31, explicit
          reference numbers below 2^26 (64-bit wrap-around and allocation limits of the reader);
     (c4) the point list of a PATH is not empty (the reader reads before its array otherwise);
     (c5) no CTRAPEZOID of type 25 (the reader leaves modal height alone, the strict decoder sets it to the width);
     (c6) a PROPERTY follows START, CELL, an element or a CELLNAME record (after TEXTSTRING the reader copies the
          properties onto the labels, after LAYERNAME it attaches them to the previous owner, after PROPNAME / PROPSTRING
          it resolves their names at END although they are not part of the layout);
     (c7) no two CELL records with the same reference number (the reader moves the CELLNAME properties to the first);
     (c8) at END every property given with a CELLNAME record resolves, also those of names no CELL uses. *)
Definition small1 (bs : list N) : bool := match bs with b :: _ => b <? 128 | [] => false end.
Definition lim31 : N := 2147483648.
Definition lim26 : N := 67108864.
Definition rd_u32 (bs : list N) : option (N * list N) :=
  let? '(v, r) := rd_uint bs in if v <? 4294967296 then Some (v, r) else None.
Definition cov_real (bs : list N) : option (real * list N) := if small1 bs then rd_real bs else None.
Definition rep_small (r : srep) : bool :=
  match r with
  | R_rect nx ny _ _ => (nx <? lim31) && (ny <? lim31)
  | R_rectx n _ | R_recty n _ | R_lin n _ => n <? lim31
  | R_xs _ l => N.of_nat (length l) <? lim31
  | R_ys _ l => N.of_nat (length l) <? lim31
  | R_reg n m _ _ => (n <? lim31) && (m <? lim31)
  | R_exp _ l => N.of_nat (length l) <? lim31
  end.
Definition cov_rep (mr : option srep) (bs : list N) : option (srep * list N) :=
  if small1 bs then
    let? '(r, rest) := rd_rep mr bs in
    (* type 0 re-uses a repetition that was checked when it was read *)
    if match bs with 0 :: _ => true | _ => rep_small r end then Some (r, rest) else None
  else None.
Definition cov_plist (closed : bool) (bs : list N) : option (list pt * list N) :=
  if small1 bs then
    let? '(pts, rest) := rd_plist closed bs in
    if N.of_nat (length pts) <? lim31 then Some (pts, rest) else None
  else None.
Definition cov_rep_fld (b : bool) (mr : option srep) (bs : list N) : option (option srep * option srep * list N) :=
  if b then let? '(r, bs1) := cov_rep mr bs in Some (Some r, Some r, bs1) else Some (None, mr, bs).

Definition cov_rectangle (m : modal) (bs : list N) : option (element * modal * list N) :=
  let g := m_g m in
  let? '(info, bs) := rd_byte bs in
  let? '(l, bs) := fld (bit info 0) rd_u32 (g_layer g) bs in
  let? '(d, bs) := fld (bit info 1) rd_u32 (g_dtype g) bs in
  let? '(w, bs) := fld (bit info 6) rd_uint (g_w g) bs in
  if bit info 7 && bit info 5 then None else
  let? '(h, bs) := (if bit info 7 then Some (w, bs) else fld (bit info 5) rd_uint (g_h g) bs) in
  let? '(x, bs) := pos_fld (bit info 4) (m_abs m) (g_x g) bs in
  let? '(y, bs) := pos_fld (bit info 3) (m_abs m) (g_y g) bs in
  let? '(r, mr, bs) := cov_rep_fld (bit info 2) (m_rep m) bs in
  Some (E_rect l d w h x y r,
        set_g m (mkG (Some l) (Some d) x y (Some w) (Some h) (g_poly g) (g_path g) (g_hw g) (g_exs g) (g_exe g)
                     (g_ctype g) (g_rad g)) mr, bs).

Definition cov_polygon (m : modal) (bs : list N) : option (element * modal * list N) :=
  let g := m_g m in
  let? '(info, bs) := rd_byte bs in
  if bit info 7 || bit info 6 then None else
  let? '(l, bs) := fld (bit info 0) rd_u32 (g_layer g) bs in
  let? '(d, bs) := fld (bit info 1) rd_u32 (g_dtype g) bs in
  let? '(pts, bs) := fld (bit info 5) (cov_plist true) (g_poly g) bs in
  let? '(x, bs) := pos_fld (bit info 4) (m_abs m) (g_x g) bs in
  let? '(y, bs) := pos_fld (bit info 3) (m_abs m) (g_y g) bs in
  let? '(r, mr, bs) := cov_rep_fld (bit info 2) (m_rep m) bs in
  Some (E_poly l d pts x y r,
        set_g m (mkG (Some l) (Some d) x y (g_w g) (g_h g) (Some pts) (g_path g) (g_hw g) (g_exs g) (g_exe g)
                     (g_ctype g) (g_rad g)) mr, bs).

Definition cov_path (m : modal) (bs : list N) : option (element * modal * list N) :=
  let g := m_g m in
  let? '(info, bs) := rd_byte bs in
  let? '(l, bs) := fld (bit info 0) rd_u32 (g_layer g) bs in
  let? '(d, bs) := fld (bit info 1) rd_u32 (g_dtype g) bs in
  let? '(hw, bs) := fld (bit info 6) rd_uint (g_hw g) bs in
  let? '(es, ee, bs) :=
    (if bit info 7 then
       let? '(sch, bs) := rd_byte bs in
       if 16 <=? sch then None else
       let? '(es, bs) := ext_fld (N.land (N.shiftr sch 2) 3) hw (g_exs g) bs in
       let? '(ee, bs) := ext_fld (N.land sch 3) hw (g_exe g) bs in
       Some (es, ee, bs)
     else match g_exs g, g_exe g with Some a, Some b => Some (a, b, bs) | _, _ => None end) in
  let? '(pts, bs) := fld (bit info 5) (cov_plist false) (g_path g) bs in
  if negb (nonempty pts) then None else
  let? '(x, bs) := pos_fld (bit info 4) (m_abs m) (g_x g) bs in
  let? '(y, bs) := pos_fld (bit info 3) (m_abs m) (g_y g) bs in
  let? '(r, mr, bs) := cov_rep_fld (bit info 2) (m_rep m) bs in
  Some (E_path l d hw es ee pts x y r,
        set_g m (mkG (Some l) (Some d) x y (g_w g) (g_h g) (g_poly g) (Some pts) (Some hw) (Some es) (Some ee)
                     (g_ctype g) (g_rad g)) mr, bs).

Definition cov_trapezoid (code : N) (m : modal) (bs : list N) : option (element * modal * list N) :=
  let g := m_g m in
  let? '(info, bs) := rd_byte bs in
  let? '(l, bs) := fld (bit info 0) rd_u32 (g_layer g) bs in
  let? '(d, bs) := fld (bit info 1) rd_u32 (g_dtype g) bs in
  let? '(w, bs) := fld (bit info 6) rd_uint (g_w g) bs in
  let? '(h, bs) := fld (bit info 5) rd_uint (g_h g) bs in
  let? '(da, bs) := (if code =? 25 then Some (0%Z, bs) else rd_int bs) in
  let? '(db, bs) := (if code =? 24 then Some (0%Z, bs) else rd_int bs) in
  let? '(x, bs) := pos_fld (bit info 4) (m_abs m) (g_x g) bs in
  let? '(y, bs) := pos_fld (bit info 3) (m_abs m) (g_y g) bs in
  let? '(r, mr, bs) := cov_rep_fld (bit info 2) (m_rep m) bs in
  Some (E_trap (bit info 7) l d w h da db x y r,
        set_g m (mkG (Some l) (Some d) x y (Some w) (Some h) (g_poly g) (g_path g) (g_hw g) (g_exs g) (g_exe g)
                     (g_ctype g) (g_rad g)) mr, bs).

(* [any25] = true lifts (c5): used by the per-record lemma that covers the element of a type-25 record *)
Definition cov_ctrapezoid_gen (any25 : bool) (m : modal) (bs : list N) : option (element * modal * list N) :=
  let g := m_g m in
  let? '(info, bs) := rd_byte bs in
  let? '(l, bs) := fld (bit info 0) rd_u32 (g_layer g) bs in
  let? '(d, bs) := fld (bit info 1) rd_u32 (g_dtype g) bs in
  let? '(ty, bs) := fld (bit info 7) rd_byte (g_ctype g) bs in
  if (26 <=? ty) || (negb any25 && (ty =? 25)) then None else
  let? '(w0, bs) := dim_fld (bit info 6) (ctrap_uses_w ty) (g_w g) bs in
  let? '(h0, bs) := dim_fld (bit info 5) (ctrap_uses_h ty) (g_h g) bs in
  let w := ctrap_w ty w0 h0 in let h := ctrap_h ty w0 h0 in
  let? '(x, bs) := pos_fld (bit info 4) (m_abs m) (g_x g) bs in
  let? '(y, bs) := pos_fld (bit info 3) (m_abs m) (g_y g) bs in
  let? '(r, mr, bs) := cov_rep_fld (bit info 2) (m_rep m) bs in
  Some (E_ctrap l d ty w h x y r,
        set_g m (mkG (Some l) (Some d) x y (Some w) (Some h) (g_poly g) (g_path g)
                     (g_hw g) (g_exs g) (g_exe g) (Some ty) (g_rad g)) mr, bs).
Definition cov_ctrapezoid := cov_ctrapezoid_gen false.

Definition cov_circle (m : modal) (bs : list N) : option (element * modal * list N) :=
  let g := m_g m in
  let? '(info, bs) := rd_byte bs in
  if bit info 7 || bit info 6 then None else
  let? '(l, bs) := fld (bit info 0) rd_u32 (g_layer g) bs in
  let? '(d, bs) := fld (bit info 1) rd_u32 (g_dtype g) bs in
  let? '(rad, bs) := fld (bit info 5) rd_uint (g_rad g) bs in
  let? '(x, bs) := pos_fld (bit info 4) (m_abs m) (g_x g) bs in
  let? '(y, bs) := pos_fld (bit info 3) (m_abs m) (g_y g) bs in
  let? '(r, mr, bs) := cov_rep_fld (bit info 2) (m_rep m) bs in
  Some (E_circle l d rad x y r,
        set_g m (mkG (Some l) (Some d) x y (g_w g) (g_h g) (g_poly g) (g_path g) (g_hw g) (g_exs g) (g_exe g)
                     (g_ctype g) (Some rad)) mr, bs).

Definition cov_text (m : modal) (bs : list N) : option (element * modal * list N) :=
  let t := m_t m in
  let? '(info, bs) := rd_byte bs in
  if bit info 7 then None else
  let? '(s, bs) := fld (bit info 6) (rd_nref (bit info 5)) (t_str t) bs in
  let? '(l, bs) := fld (bit info 0) rd_u32 (t_layer t) bs in
  let? '(ty, bs) := fld (bit info 1) rd_u32 (t_type t) bs in
  let? '(x, bs) := pos_fld (bit info 4) (m_abs m) (t_x t) bs in
  let? '(y, bs) := pos_fld (bit info 3) (m_abs m) (t_y t) bs in
  let? '(r, mr, bs) := cov_rep_fld (bit info 2) (m_rep m) bs in
  Some (E_text s l ty x y r,
        mkM (m_abs m) mr (m_g m) (mkT (Some s) (Some l) (Some ty) x y) (m_p m) (m_pname m) (m_pvals m), bs).

Definition cov_placement (code : N) (m : modal) (bs : list N) : option (element * modal * list N) :=
  let p := m_p m in
  let? '(info, bs) := rd_byte bs in
  let? '(c, bs) := fld (bit info 7) (rd_nref (bit info 6)) (p_cell p) bs in
  let? '(tr, bs) :=
    (if code =? 17 then Some (PT_quarter (N.land (N.shiftr info 1) 3), bs)
     else
       let? '(mag, bs) := (if bit info 2 then let? '(v, r) := cov_real bs in Some (Some v, r) else Some (None, bs)) in
       let? '(ang, bs) := (if bit info 1 then let? '(v, r) := cov_real bs in Some (Some v, r) else Some (None, bs)) in
       Some (PT_general mag ang, bs)) in
  let? '(x, bs) := pos_fld (bit info 5) (m_abs m) (p_x p) bs in
  let? '(y, bs) := pos_fld (bit info 4) (m_abs m) (p_y p) bs in
  let? '(r, mr, bs) := cov_rep_fld (bit info 3) (m_rep m) bs in
  Some (E_place c tr (bit info 0) x y r,
        mkM (m_abs m) mr (m_g m) (m_t m) (mkP (Some c) x y) (m_pname m) (m_pvals m), bs).

Definition cov_pval (bs : list N) : option (pval * list N) := if small1 bs then rd_pval bs else None.
Definition cov_property (code : N) (m : modal) (bs : list N) : option (prop * modal * list N) :=
  if code =? 29 then
    match m_pname m, m_pvals m with
    | Some (n, s), Some vs => Some (mkProp n s vs, m, bs)
    | _, _ => None
    end
  else
    let? '(info, bs) := rd_byte bs in
    let? '(nm, bs) :=
      (if bit info 2 then let? '(n, r) := rd_nref (bit info 1) bs in Some ((n, bit info 0), r)
       else match m_pname m with Some v => Some (v, bs) | None => None end) in
    let? '(vs, bs) :=
      (if bit info 3 then
         if 0 <? N.shiftr info 4 then None
         else match m_pvals m with Some v => Some (v, bs) | None => None end
       else
         let u := N.shiftr info 4 in
         let? '(cnt, bs) := (if u =? 15 then rd_uint bs else Some (u, bs)) in
         rd_count cov_pval cnt bs) in
    Some (mkProp (fst nm) (snd nm) vs,
          mkM (m_abs m) (m_rep m) (m_g m) (m_t m) (m_p m) (Some nm) (Some vs), bs).

(* (c6) *)
Definition cov_add_prop (d : dstate) (p : prop) (m : modal) : option dstate :=
  match d_target d with T_other => None | _ => add_prop d p m end.
(* explicit reference numbers: (c3) *)
Definition cov_add_name (d : dstate) (which : N) (explicit : bool) (bs : list N) : option (dstate * list N) :=
  let? '(d1, bs1) := add_name d which explicit bs in
  if explicit then
    match rd_string bs with
    | Some (_, r) => match rd_uint r with
                     | Some (k, _) => if k <? lim26 then Some (d1, bs1) else None
                     | None => None
                     end
    | None => None
    end
  else Some (d1, bs1).
(* (c8) *)
Definition cov_finalize (d : dstate) : option layout :=
  let? _ := omap (resolve_prop (d_propnames d) (d_propstrings d)) (map snd (d_cn_props d)) in
  finalize d.
Definition cell_has_num (n : N) (c : cell) : bool := match c_name c with NNum k => k =? n | NName _ => false end.

Definition cov_elem_step (d : dstate) (r : option (element * modal * list N)) : option step_result :=
  let? '(e, m, bs) := r in let? d' := add_elem d e m in Some (Cont d' bs).
Definition cov_record (offsets_in_start : bool) (d : dstate) (bs : list N) : option step_result :=
  let m := d_modal d in
  let? '(id, bs) := rd_byte bs in
  match id with
  | 0 => Some (Cont d bs)
  | 2 => if end_ok offsets_in_start bs then let? l := cov_finalize d in Some (Done l) else None
  | 3 => let? '(d', bs) := cov_add_name d 0 false bs in Some (Cont d' bs)
  | 4 => let? '(d', bs) := cov_add_name d 0 true bs in Some (Cont d' bs)
  | 5 => let? '(d', bs) := cov_add_name d 1 false bs in Some (Cont d' bs)
  | 6 => let? '(d', bs) := cov_add_name d 1 true bs in Some (Cont d' bs)
  | 7 => let? '(d', bs) := cov_add_name d 2 false bs in Some (Cont d' bs)
  | 8 => let? '(d', bs) := cov_add_name d 2 true bs in Some (Cont d' bs)
  | 9 => let? '(d', bs) := cov_add_name d 3 false bs in Some (Cont d' bs)
  | 10 => let? '(d', bs) := cov_add_name d 3 true bs in Some (Cont d' bs)
  | 11 | 12 =>
      let? '(_, bs) := rd_string bs in let? bs := skip_interval bs in let? bs := skip_interval bs in
      Some (Cont (upd_modal d m T_other) bs)
  | 13 => let? '(n, bs) := rd_uint bs in
          if existsb (cell_has_num n) (d_cells d) then None else                            (* (c7) *)
          Some (Cont (upd_cells d (modal_at_cell m) (mkCell (NNum n) [] [] :: d_cells d) T_cell) bs)
  | 14 => let? '(s, bs) := rd_string bs in
          Some (Cont (upd_cells d (modal_at_cell m) (mkCell (NName s) [] [] :: d_cells d) T_cell) bs)
  | 15 => Some (Cont (upd_modal d (mkM true (m_rep m) (m_g m) (m_t m) (m_p m) (m_pname m) (m_pvals m)) (d_target d)) bs)
  | 16 => Some (Cont (upd_modal d (mkM false (m_rep m) (m_g m) (m_t m) (m_p m) (m_pname m) (m_pvals m)) (d_target d)) bs)
  | 17 | 18 => cov_elem_step d (cov_placement id m bs)
  | 19 => cov_elem_step d (cov_text m bs)
  | 20 => cov_elem_step d (cov_rectangle m bs)
  | 21 => cov_elem_step d (cov_polygon m bs)
  | 22 => cov_elem_step d (cov_path m bs)
  | 23 | 24 | 25 => cov_elem_step d (cov_trapezoid id m bs)
  | 26 => cov_elem_step d (cov_ctrapezoid m bs)
  | 27 => cov_elem_step d (cov_circle m bs)
  | 28 | 29 => let? '(p, m', bs) := cov_property id m bs in let? d' := cov_add_prop d p m' in Some (Cont d' bs)
  | _ => None
  end.

Fixpoint cov_loop (fuel : nat) (ois : bool) (d : dstate) (bs : list N) : option layout :=
  match fuel with
  | O => None
  | S f =>
      match cov_record ois d bs with
      | None => None
      | Some (Done l) => Some l
      | Some (Cont d' bs') => cov_loop f ois d' bs'
      end
  end.

Definition cov_oas_decode (bs : list N) : option layout :=
  let? bs := strip_prefix magic bs in
  let? '(id, bs) := rd_byte bs in
  if negb (id =? 1) then None else
  let? '(v, bs) := rd_string bs in
  let? _ := strip_prefix version_1_0 v in
  if negb (length v =? 3)%nat then None else
  let? '(u, bs) := cov_real bs in
  let? '(flag, bs) := rd_uint bs in
  if 1 <? flag then None else
  let? '(_, bs) := (if flag =? 0 then rd_count rd_uint 12 bs else Some ([], bs)) in
  cov_loop (S (length bs)) (flag =? 0) (d_init u) bs.

Definition covered (bs : list N) : Prop := cov_oas_decode bs <> None.

(* ================================================================== which guard a stream fails (run-time labelling)
   For a stream the strict decoder accepts and the covered decoder does not, [diag_oas] lists the guards that fail, record by
   record (the state is advanced with the strict decoder's own dec_record; cov_record works on that state).  It only labels
   the findings reported by the check (checks/c04r.py); no theorem depends on it.  Codes: 1 (c1) 2 (c2) 3 (c3) 4 (c4)
   5 (c5) 61 / 62 / 63 (c6 after TEXTSTRING / LAYERNAME / PROPNAME, PROPSTRING) 7 (c7) 8 (c8) 0 unclassified. *)
Definition elem_tags (e : element) : N * N :=
  match e with
  | E_rect l d _ _ _ _ _ | E_poly l d _ _ _ _ | E_path l d _ _ _ _ _ _ _ | E_trap _ l d _ _ _ _ _ _ _
  | E_ctrap l d _ _ _ _ _ _ | E_circle l d _ _ _ _ | E_text _ l d _ _ _ => (l, d)
  | E_place _ _ _ _ _ _ => (0, 0)
  end.
Definition elem_rep (e : element) : option srep :=
  match e with
  | E_rect _ _ _ _ _ _ r | E_poly _ _ _ _ _ r | E_path _ _ _ _ _ _ _ _ r | E_trap _ _ _ _ _ _ _ _ _ r
  | E_ctrap _ _ _ _ _ _ _ r | E_circle _ _ _ _ _ r | E_text _ _ _ _ _ r | E_place _ _ _ _ _ r => r
  end.
Definition elem_npts (e : element) : N :=
  match e with
  | E_poly _ _ pts _ _ _ | E_path _ _ _ _ _ pts _ _ _ => N.of_nat (length pts)
  | _ => 0
  end.
Definition elem_guard (id : N) (m : modal) (bs : list N) : N :=
  let r := match id with
           | 17 | 18 => dec_placement id m bs
           | 19 => dec_text m bs
           | 20 => dec_rectangle m bs
           | 21 => dec_polygon m bs
           | 22 => dec_path m bs
           | 23 | 24 | 25 => dec_trapezoid id m bs
           | 26 => dec_ctrapezoid m bs
           | 27 => dec_circle m bs
           | _ => None
           end in
  match r with
  | None => 0
  | Some (e, _, _) =>
      if (id =? 26) && match cov_ctrapezoid_gen true m bs with Some _ => true | None => false end then 5
      else if (4294967296 <=? fst (elem_tags e)) || (4294967296 <=? snd (elem_tags e)) then 2
      else if match e with E_path _ _ _ _ _ [] _ _ _ => true | _ => false end then 4
      else if (lim31 <=? elem_npts e) || match elem_rep e with Some rp => negb (rep_small rp) | None => false end then 3
      else 1
  end.
Definition diag_record (last : N) (d : dstate) (bs : list N) : N :=
  match bs with
  | [] => 0
  | id :: t =>
      if 128 <=? id then 1 else
      match id with
      | 2 => 8
      | 3 | 4 | 5 | 6 | 7 | 8 | 9 | 10 => 3
      | 13 => 7
      | 28 | 29 =>
          match d_target d with
          | T_other => match last with 5 | 6 => 61 | 11 | 12 => 62 | _ => 63 end
          | _ => 1
          end
      | _ => elem_guard id (d_modal d) t
      end
  end.
(* the record that determines what the following properties attach to *)
Definition diag_last (last : N) (bs : list N) : N :=
  match bs with
  | id :: _ => if (128 <=? id) || (id =? 0) || (id =? 15) || (id =? 16) || (id =? 28) || (id =? 29) then last else id
  | [] => last
  end.
Fixpoint diag_loop (fuel : nat) (ois : bool) (last : N) (d : dstate) (bs : list N) (acc : list N) : list N :=
  match fuel with
  | O => acc
  | S f =>
      let acc1 := match cov_record ois d bs with None => diag_record last d bs :: acc | Some _ => acc end in
      match dec_record ois d bs with
      | Some (Cont d1 bs1) => diag_loop f ois (diag_last last bs) d1 bs1 acc1
      | _ => acc1
      end
  end.
(* guards failed by a stream spec_oas_decode accepts, in stream order *)
Definition diag_oas (bs : list N) : list N :=
  match strip_prefix magic bs with
  | None => []
  | Some b1 =>
      let g0 := match b1 with 1 :: _ => [] | _ => [1] end in
      match (let? '(_, b2) := rd_uint b1 in let? '(_, b3) := rd_string b2 in Some b3) with
      | None => []
      | Some b3 =>
          let g1 := if small1 b3 then g0 else 1 :: g0 in
          match (let? '(u, b4) := rd_real b3 in let? '(flag, b5) := rd_uint b4 in
                 let? '(_, b6) := (if flag =? 0 then rd_count rd_uint 12 b5 else Some ([], b5)) in Some (u, flag, b6)) with
          | None => []
          | Some (u, flag, b6) => rev (diag_loop (S (length b6)) (flag =? 0) 1 (d_init u) b6 g1)
          end
      end
  end.
