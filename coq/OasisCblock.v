(* CBLOCK records (compressed blocks) around the statement-level models of gdstk's OASIS reader and writer (C02 / C04).

   READER.  `case OasisRecord::CBLOCK` of read_oas (src/library.cpp) and the memory-buffer branch of oasis_read
   (src/oasis.cpp).  OasisRead.v stops at record 34 (H_end (Ok RCblock)); here the record is executed.  zlib is not
   modelled: [inflate] is a Section variable (compressed bytes, avail_out -> Some output when inflate(Z_FINISH) returns
   Z_STREAM_END, None for every other return value; an unbounded reference inflate may be supplied: output longer than
   avail_out is Z_BUF_ERROR and is mapped to None here).

   The stream of OasisRead.v stays one flat byte list: (what is left of the current block) ++ (what is left of the file),
   plus [blk] = Some (cursor - data, data_size) while in.data != NULL (then cursor < data + data_size).  What the C++ does:
     * oasis_read with in.data: memcpy(buffer, cursor, total); cursor += total; at or past the end the buffer is freed and
       in.data = NULL, PAST the end also in.error_code = InputFileError (after having copied from beyond the buffer).
       Hence one-byte reads (every integer, delta, type and info byte) run off the end of a block straight into the
       file, and a multi-byte read (strings, 4 / 8 byte reals) that crosses the end reads out of bounds: Crash.
       The model decides this per RECORD from the number of bytes the record consumed: a record of a kind that contains a
       multi-byte read ([multi_kind]: 3-12, 14, 17-19, 28, 30-33) and consumes more than what is left of the block is
       Crash (conservative: also when the crossing read was a one-byte read); records of the other kinds (0-2, 13, 15,
       16, 20-27, 29, unknown ids) continue in the file.
     * CBLOCK: compression type (one uint) != 0: *error_code = InvalidFile, two more uints are read, the loop ends.
       Otherwise in.data_size = uint (uncompressed size U) BEFORE the compressed size is read: when the CBLOCK record
       itself lies inside a block (nested), the end test of oasis_read for the bytes of that second integer compares
       the cursor of the ENCLOSING buffer with the NEW size ([nuint]); then in.data = allocate(U) (the enclosing buffer
       and its remaining bytes are lost), the compressed bytes are `fread` from the FILE ((uInt) truncation of both
       sizes), short fread: InvalidFile; inflateInit2(-15), inflate(Z_FINISH) != Z_STREAM_END: ZlibError (overrides
       InvalidFile); U == 0: in.data = NULL.  Z_STREAM_END with fewer than U bytes produced raises no error: the tail
       of the buffer is indeterminate (malloc): Crash.  allocate(U) = NULL (U >= 2^36) makes inflate fail (next_out
       NULL: Z_STREAM_ERROR).
       After a short fread inflate runs over the uninitialised rest of its input buffer: when the bytes that were read
       do not complete the deflate stream the result is InvalidFile or ZlibError, undetermined: CR_short.
   Results: [cres] = an outcome of OasisRead.v (CR), ErrorCode::ZlibError (CR_zlib), or CR_short: InvalidFile or ZlibError,
   which of the two is not determined (inflate ran over the uninitialised rest of its input buffer after a short fread).

   The loop may not terminate for an arbitrary [inflate] (a block that holds a CBLOCK record whose inflation is the same
   block): [r_loop_c n f] runs at most n CBLOCK records and restarts the per-byte fuel f at every block (Hang beyond).

   The writer side (compression_level > 0) is OasisCblockWrite.v.
   Definitions only; proofs in OasisCblockProofs.v. *)
Require Import Base OasisInt OasisSpec OasisRead.
Local Open Scope N_scope.

Definition two32 : N := 4294967296.
Inductive cres :=
| CR (o : outcome rlib)
| CR_zlib                (* ErrorCode::ZlibError *)
| CR_short.              (* ErrorCode::InvalidFile or ErrorCode::ZlibError *)

(* in.data != NULL: cursor - data, data_size *)
Record blk := mkB { b_off : N; b_size : N }.

(* bytes a helper consumed *)
Definition consumed (s s' : strm) : N := N.of_nat (length (s_bs s) - length (s_bs s')).

(* the block state after k bytes were read by one-byte reads *)
Definition adv_s (ob : option blk) (k : N) : option blk :=
  match ob with
  | None => None
  | Some b => if b_off b + k <? b_size b then Some (mkB (b_off b + k) (b_size b)) else None
  end.
(* ... by the reads of a record; None = a multi-byte read may have crossed the end of the block *)
Definition adv (ob : option blk) (k : N) (multi : bool) : option (option blk) :=
  match ob with
  | None => Some None
  | Some b =>
      if b_off b + k <? b_size b then Some (Some (mkB (b_off b + k) (b_size b)))
      else if b_off b + k =? b_size b then Some None
      else if multi then None else Some None
  end.

(* record kinds with a multi-byte oasis_read: strings (name tables, LAYERNAME, CELL by name, PLACEMENT / TEXT / PROPERTY
   names, property values, XNAME .. XGEOMETRY), float reals (PLACEMENT_TRANSFORM, PROPERTY values) *)
Definition multi_kind (id : N) : bool :=
  ((3 <=? id) && (id <=? 12)) || (id =? 14) || ((17 <=? id) && (id <=? 19)) || (id =? 28) || ((30 <=? id) && (id <=? 33)).

(* oasis_read_unsigned_integer with the block accounting *)
Definition c_uint (s : strm) (ob : option blk) : N * strm * option blk :=
  let (v, s1) := s_uint s in (v, s1, adv_s ob (consumed s s1)).

(* ---- the compressed size of a NESTED CBLOCK: bytes come from the enclosing buffer (offset off of size), the end
   test of oasis_read uses lim = the uncompressed size just stored in in.data_size *)
Inductive nres := NR (v : N) (s : strm) (ob : option blk) | NCrash.

(* firstn / skipn by an N that may exceed the length by far (no unary number beyond the length is built) *)
Definition takeN (k : N) (l : list N) : list N := firstn (N.to_nat (N.min k (N.of_nat (length l)))) l.
Definition dropN (k : N) (l : list N) : list N := skipn (N.to_nat (N.min k (N.of_nat (length l)))) l.

Definition drop_old (size off' : N) (t : list N) : list N := dropN (size - off') t.

Fixpoint nuint_loop (bs : list N) (off size lim result nbits : N) : nres :=
  if size <=? off then NCrash                                  (* the byte is read beyond the enclosing buffer *)
  else
    match bs with
    | [] => NR result (mkS [] (Some SE_eof)) None              (* not reached: off < size bytes of the buffer are in bs *)
    | b :: t =>
        let off' := off + 1 in
        if lim <? off' then NR result (mkS (drop_old size off' t) (Some SE_eof)) None     (* `return result` *)
        else
          let freed := lim <=? off' in
          let t' := if freed then drop_old size off' t else t in
          let ob' := if freed then None else Some (mkB off' size) in
          if (nbits =? 63) && (1 <? b) then NR u64max (mkS t' (Some SE_ovf)) ob'
          else
            let r := u64 (N.lor result (N.shiftl (N.land b 127) nbits)) in
            if 0 <? N.land b 128 then
              if freed then let (v, s1) := uint_loop t' r (nbits + 7) in NR v s1 None
              else nuint_loop t off' size lim r (nbits + 7)
            else NR r (mkS t' None) ob'
    end.
Definition nuint (s : strm) (off size lim : N) : nres :=
  if size <=? off then NCrash
  else
    match s_bs s with
    | [] => NR 0 (mkS [] (Some SE_eof)) None
    | b :: t =>
        let off' := off + 1 in
        let freed := lim <=? off' in
        let t' := if freed then drop_old size off' t else t in
        let err' := if lim <? off' then Some SE_eof else s_err s in   (* in.error_code = InputFileError, unconditionally *)
        let ob' := if freed then None else Some (mkB off' size) in
        match err' with
        | Some _ => NR 0 (mkS t' err') ob'                     (* `return 0` *)
        | None =>
            let r := N.land b 127 in
            if 0 <? N.land b 128 then
              if freed then let (v, s1) := uint_loop t' r 7 in NR v s1 None
              else nuint_loop t off' size lim r 7
            else NR r (mkS t' None) ob'
        end
    end.

(* ---- one iteration of the record loop *)
Inductive sres :=
| SC_final (r : cres)
| SC_cont (st : rstate) (s : strm) (ob : option blk)
| SC_block (st : rstate) (s : strm) (ob : option blk).        (* a CBLOCK record was executed *)

(* after the loop with *error_code = ZlibError / with one of InvalidFile, ZlibError *)
Definition zlib_exit (undetermined : bool) (st : rstate) (s : strm) : cres :=
  if cleanup_faults st then CR Crash else
  match s_err s with
  | Some SE_eof => CR ErrEof
  | Some SE_ovf => CR ErrOverflow
  | Some SE_inv => CR ErrInvalid
  | None => if undetermined then CR_short else CR_zlib
  end.

Section WithInflate.
Variable inflate : list N -> N -> option (list N).

(* inflate(Z_FINISH) == Z_STREAM_END with the bytes produced; more than avail_out bytes: Z_BUF_ERROR *)
Definition inflate_end (z : list N) (avail_out : N) : option (list N) :=
  match inflate z avail_out with
  | Some x => if N.of_nat (length x) <=? avail_out then Some x else None
  | None => None
  end.

Definition h_cblock (st : rstate) (s : strm) (ob : option blk) : sres :=
  let '(ty, s1, ob1) := c_uint s ob in
  if negb (ty =? 0) then
    (* *error_code = InvalidFile; two integers skipped; FSEEK64 *)
    let '(_, s2, ob2) := c_uint s1 ob1 in
    let '(_, s3, _) := c_uint s2 ob2 in
    SC_final (CR (exit_outcome (Some C_invalid) st s3))
  else
    let '(usize, s2, ob2) := c_uint s1 ob1 in               (* in.data_size = ... *)
    match (match ob2 with
           | None => let (c, s3) := s_uint s2 in NR c s3 None
           | Some b => nuint s2 (b_off b) (b_size b) usize
           end) with
    | NCrash => SC_final (CR Crash)
    | NR csize s3 ob3 =>
        (* in.data = allocate(in.data_size): what was left of an enclosing buffer is lost *)
        let file := match ob3 with
                    | Some b => dropN (b_size b - b_off b) (s_bs s3)
                    | None => s_bs s3
                    end in
        let cn := csize mod two32 in                         (* s.avail_in = (uInt)... *)
        let short := N.of_nat (length file) <? cn in         (* fread(...) != s.avail_in *)
        let z := takeN cn file in
        let file' := dropN cn file in
        let s4 := mkS file' (s_err s3) in
        if alloc_fails usize then SC_final (zlib_exit false st s4)   (* next_out == NULL: Z_STREAM_ERROR *)
        else
          match inflate_end z (usize mod two32) with
          | None =>
              (* ret != Z_STREAM_END: ZlibError, whatever was set before.  After a short fread the rest of inflate's input
                 buffer is uninitialised memory: whether it completes the stream (InvalidFile stays) or not (ZlibError)
                 is not determined by the program *)
              SC_final (zlib_exit short st s4)
          | Some x =>
              if short then SC_final (CR (exit_outcome (Some C_invalid) st s4))
              else if N.of_nat (length x) <? usize then SC_final (CR Crash)   (* the rest of the buffer is indeterminate *)
              else SC_block st (mkS (x ++ file') (s_err s3)) (if usize =? 0 then None else Some (mkB 0 usize))
          end
    end.

Definition step_c (st : rstate) (s : strm) (ob : option blk) : sres :=
  let (o, s1) := rd1 s in
  match o, s_err s1 with
  | Some id, None =>
      let ob1 := adv_s ob 1 in
      if id =? 34 then h_cblock st s1 ob1
      else
        match h_record st id s1 with
        | H_cont st1 s2 =>
            match adv ob1 (consumed s1 s2) (multi_kind id) with
            | Some ob2 => SC_cont st1 s2 ob2
            | None => SC_final (CR Crash)
            end
        | H_stop c st1 s2 =>
            match adv ob1 (consumed s1 s2) (multi_kind id) with
            | Some _ => SC_final (CR (exit_outcome (Some c) st1 s2))
            | None => SC_final (CR Crash)
            end
        | H_end r => SC_final (CR r)
        end
  | _, _ => SC_final (CR (exit_outcome None st s1))
  end.

(* the loop: n = CBLOCK records that may still be executed, f = iterations until the next one *)
Fixpoint r_loop_c (n : nat) : nat -> rstate -> strm -> option blk -> cres :=
  fix inner (f : nat) (st : rstate) (s : strm) (ob : option blk) {struct f} : cres :=
    match f with
    | O => CR Hang
    | S f' =>
        match step_c st s ob with
        | SC_final r => r
        | SC_cont st1 s1 ob1 => inner f' st1 s1 ob1
        | SC_block st1 s1 ob1 =>
            match n with
            | O => CR Hang
            | S n' => r_loop_c n' (S (S (length (s_bs s1)))) st1 s1 ob1
            end
        end
    end.

Definition read_oas_model_c (bs : list N) : cres :=
  match strip_prefix magic_start bs with
  | None => CR ErrInvalid
  | Some bs1 =>
      match s_string false (mkS bs1 None) with
      | RCrash => CR Crash
      | RHang => CR Hang
      | ROk v s1 =>
          match s_err s1 with
          | Some SE_eof => CR ErrEof
          | Some SE_ovf => CR ErrOverflow
          | Some SE_inv => CR ErrInvalid
          | None =>
              let bad_version := negb (bytes_eqb v version_1_0) in
              let (u, s2) := s_real s1 in
              let (flag, s3) := s_uint s2 in
              let s4 := (if flag =? 0 then
                           fold_left (fun s _ => snd (s_uint s)) (seq 0 12) s3
                         else s3) in
              if bad_version then CR (exit_outcome (Some C_invalid) (q_init u) s4)
              else r_loop_c (S (length bs)) (S (S (length (s_bs s4)))) (q_init u) s4 None
          end
      end
  end.

(* when a block does not show: no CBLOCK record inside it, no record with a multi-byte read across its end *)
Fixpoint blk_ok (f : nat) (st : rstate) (s : strm) (b : blk) : bool :=
  match f with
  | O => true
  | S f' =>
      let (o, s1) := rd1 s in
      match o, s_err s1 with
      | Some id, None =>
          if id =? 34 then
            (* the record byte itself may be the last byte of the block *)
            match adv_s (Some b) 1 with None => true | Some _ => false end
          else
            match adv_s (Some b) 1 with
            | None => true
            | Some b1 =>
                match h_record st id s1 with
                | H_cont st1 s2 =>
                    match adv (Some b1) (consumed s1 s2) (multi_kind id) with
                    | Some (Some b2) => blk_ok f' st1 s2 b2
                    | Some None => true
                    | None => false
                    end
                | H_stop _ _ s2 =>
                    match adv (Some b1) (consumed s1 s2) (multi_kind id) with Some _ => true | None => false end
                | H_end _ => true
                end
            end
      | _, _ => true
      end
  end.
End WithInflate.

(* the bytes of a CBLOCK record *)
Definition cblock_rec (usize : N) (z : list N) : list N :=
  34 :: 0 :: enc_uint usize ++ enc_uint (N.of_nat (length z)) ++ z.
