(* Library::write_oas with compression_level > 0 (src/library.cpp), on top of the statement-level writer model of
   OasisWrite.v.  For each cell: `oasis_putc(CELL_REF_NUM); oasis_write_unsigned_integer(index);` go to the file; then
   `out.cursor = out.data`: everything the cell writes (polygons, paths, references, labels and their properties) goes to
   memory; at the end of the cell `uncompressed_size = out.cursor - out.data; out.cursor = NULL;` and, unless the size is 0
   ("Skip empty cells"), deflateInit2(&s, level, Z_DEFLATED, -15, 8, Z_DEFAULT_STRATEGY), s.avail_in =
   (uInt)uncompressed_size, deflate(Z_FINISH), then CBLOCK, 0, uncompressed_size, s.total_out and the deflated bytes - also
   when they are longer than the input.  START, the library's PROPERTY records, the CELL records, the name tables and END
   are never compressed.  File positions (cell_offset_map = ftell before each CELL record, the table offsets of END) are
   positions in the compressed file.
   [deflate] (Section variable) = deflate(Z_FINISH) with those parameters at the level in use.
   Definitions only; proofs in OasisCblockWriteProofs.v. *)
Require Import Base Generated OasisInt GdsReal OasisReal OasisPlist Table PropList OasisSpec OasisWrite.
Local Open Scope N_scope.

Section WithDeflate.
Variable deflate : list N -> list N.

(* what follows the CELL record of a cell whose content is [body] *)
Definition cblock_w (body : list N) : list N :=
  match body with
  | [] => []                                                        (* if (uncompressed_size > 0) *)
  | _ =>
      let size := N.of_nat (length body) in
      let z := deflate (firstn (N.to_nat (size mod 4294967296)) body) in      (* s.avail_in = (uInt)uncompressed_size *)
      34 :: 0 :: enc_uint size ++ enc_uint (N.of_nat (length z)) ++ z
  end.

(* the bytes of a cell: its first record (CELL) as it is, the others through the buffer *)
Definition cell_bytes_c (recs : list (list N)) : list N :=
  match recs with
  | [] => []
  | cellrec :: body => cellrec ++ cblock_w (concat body)
  end.

Fixpoint cells_to_oas_c (cells : list (list N)) (pos : N) (ts : names) (st : pstate) (l : list wcell)
  : list N * list cell * list N * names * pstate :=
  match l with
  | [] => ([], [], [], ts, st)
  | c :: t =>
      let '(r1, d1, ts1, st1) := cell_to_oas cells ts st c in
      let b1 := cell_bytes_c r1 in
      let '(b2, d2, o2, ts2, st2) := cells_to_oas_c cells (pos + N.of_nat (length b1)) ts1 st1 t in
      (b1 ++ b2, d1 :: d2, pos :: o2, ts2, st2)
  end.

Record wrun_c := mkRunC {
  runc_start : list N; runc_lprops : list (list N); runc_cells : list N; runc_tables : list (list N); runc_end : list N;
  runc_failed : bool; runc_offsets : list N }.

Definition write_oas_run_c (cfg : wcfg) (l : wlib) : wrun_c :=
  let start := start_header ++ enc_real (li_unit l) ++ [1] in
  let names := map cl_name (li_cells l) in
  let '(r_lp, d_lp, st1) := properties_to_oas pstate0 (li_props l) in
  let pos1 := N.of_nat (length start) + reclen r_lp in
  let '(b_c, d_c, offs, ts, st2) := cells_to_oas_c names pos1 names0 st1 (li_cells l) in
  let pos2 := pos1 + N.of_nat (length b_c) in
  let cell_name_offset := match li_cells l with [] => 0 | _ => pos2 end in
  let '(r_cn, d_cn, st3) := cellnames_to_oas cfg names offs st2 (li_cells l) in
  let pos3 := pos2 + reclen r_cn in
  let text_string_offset := if 0 <? nm_count ts then pos3 else 0 in
  let r_ts := numbered_name_records OasisRecord_TEXTSTRING (nm_items ts) in
  let pos4 := pos3 + reclen r_ts in
  let prop_name_offset := if 0 <? nm_count (ps_names st3) then pos4 else 0 in
  let r_pn := numbered_name_records OasisRecord_PROPNAME (nm_items (ps_names st3)) in
  let pos5 := pos4 + reclen r_pn in
  let prop_string_offset := match ps_vals st3 with [] => 0 | _ => pos5 end in
  let r_ps := propstring_records (ps_vals st3) in
  mkRunC start r_lp b_c (r_cn ++ r_ts ++ r_pn ++ r_ps)
         (end_record_w cell_name_offset text_string_offset prop_name_offset prop_string_offset)
         (nm_fail ts || nm_fail (ps_names st3)) offs.

Definition write_oas_model_c (cfg : wcfg) (l : wlib) : list N :=
  let r := write_oas_run_c cfg l in
  if runc_failed r then []
  else runc_start r ++ concat (runc_lprops r) ++ runc_cells r ++ concat (runc_tables r) ++ runc_end r.
End WithDeflate.
