(* Link between the Flocq model of gdsii_real_to_double (GdsUnits.gds_real_to_b64) and the exact dyadic model
   already used by C19 (GdsReal.gds_to_double_dy): the bit-level rounding round53 of the 56-bit mantissa
   IS round-to-nearest-even in binary64, so both models denote the same number for every pattern. *)
Require Import Base OasisInt GdsReal GdsRealProofs OasisReal OasisRealProofs OasisReal2Proofs GdsUnits GdsUnitsProofs.
From Coq Require Import Reals Lia Lra.
From Flocq Require Import Core BinarySingleNaN Binary Bits.
Local Open Scope Z_scope.

Lemma N_odd_Z q : Z.odd (Z.of_N q) = N.odd q.
Proof. rewrite <- Z.bit0_odd, <- N.bit0_odd. apply (N2Z.inj_testbit q 0). Qed.

(* round53 in Z terms *)
Lemma round53_Z m :
  let k := Z.of_N (N.size m) - 53 in
  (k <= 0 -> round53 m = m)
  /\ (0 < k ->
      let q := Z.of_N m / 2 ^ k in let r := Z.of_N m mod 2 ^ k in
      Z.of_N (round53 m) = (if (2 ^ (k - 1) <? r) || ((r =? 2 ^ (k - 1)) && Z.odd q) then q + 1 else q) * 2 ^ k).
Proof.
  intros k. unfold round53. split.
  - intros Hk. assert (E : (N.size m - 53 = 0)%N) by lia. rewrite E. reflexivity.
  - intros Hk. cbv zeta.
    assert (E : Z.of_N (N.size m - 53) = k) by (unfold k; lia).
    set (kn := (N.size m - 53)%N) in *.
    assert (Hkn : (kn =? 0)%N = false) by (apply N.eqb_neq; lia). rewrite Hkn.
    rewrite N.shiftr_div_pow2, N.land_ones, !N.shiftl_mul_pow2, N.mul_1_l.
    assert (Hq : Z.of_N (m / 2 ^ kn) = Z.of_N m / 2 ^ k).
    { rewrite N2Z.inj_div, N2Z.inj_pow, E. reflexivity. }
    assert (Hr : Z.of_N (m mod 2 ^ kn) = Z.of_N m mod 2 ^ k).
    { rewrite N2Z.inj_mod, N2Z.inj_pow, E. reflexivity. }
    assert (Hh : Z.of_N (2 ^ (kn - 1)) = 2 ^ (k - 1)).
    { rewrite N2Z.inj_pow, N2Z.inj_sub by lia. rewrite E. reflexivity. }
    assert (Hc : ((2 ^ (kn - 1) <? m mod 2 ^ kn)%N || ((m mod 2 ^ kn =? 2 ^ (kn - 1))%N && N.odd (m / 2 ^ kn)))%bool
               = ((2 ^ (k - 1) <? Z.of_N m mod 2 ^ k) || ((Z.of_N m mod 2 ^ k =? 2 ^ (k - 1)) && Z.odd (Z.of_N m / 2 ^ k)))%bool).
    { rewrite <- Hq, <- Hr, <- Hh, N_odd_Z. f_equal; [|f_equal].
      - destruct (N.ltb_spec (2 ^ (kn - 1)) (m mod 2 ^ kn)); destruct (Z.ltb_spec (Z.of_N (2 ^ (kn - 1))) (Z.of_N (m mod 2 ^ kn))); lia.
      - destruct (N.eqb_spec (m mod 2 ^ kn) (2 ^ (kn - 1))); destruct (Z.eqb_spec (Z.of_N (m mod 2 ^ kn)) (Z.of_N (2 ^ (kn - 1)))); lia. }
    rewrite Hc. rewrite N2Z.inj_mul, N2Z.inj_pow, E.
    destruct ((2 ^ (k - 1) <? Z.of_N m mod 2 ^ k) || ((Z.of_N m mod 2 ^ k =? 2 ^ (k - 1)) && Z.odd (Z.of_N m / 2 ^ k)))%bool.
    + rewrite N2Z.inj_add, Hq. reflexivity.
    + rewrite Hq. reflexivity.
Qed.

Lemma size_bounds m : (m <> 0)%N -> 2 ^ (Z.of_N (N.size m) - 1) <= Z.of_N m < 2 ^ Z.of_N (N.size m).
Proof.
  intros Hm. pose proof (N.size_gt m) as Hgt. pose proof (N.size_le m) as Hle.
  assert (Hs : (0 < N.size m)%N).
  { destruct m; [contradiction|]. cbn. lia. }
  split.
  - assert (H2 : (2 ^ N.size m = 2 * 2 ^ (N.size m - 1))%N).
    { rewrite <- N.pow_succ_r by lia. f_equal. lia. }
    rewrite H2 in Hle. rewrite N.succ_double_spec in Hle.
    assert (H3 : (2 ^ (N.size m - 1) <= m)%N) by lia.
    apply N2Z.inj_le in H3. rewrite N2Z.inj_pow, N2Z.inj_sub in H3 by lia. exact H3.
  - apply N2Z.inj_lt in Hgt. rewrite N2Z.inj_pow in Hgt. exact Hgt.
Qed.

Theorem rnd64_round53_lemma m : rnd64 (IZR (Z.of_N m)) = IZR (Z.of_N (round53 m)).
Proof.
  destruct (round53_Z m) as (Hsmall & Hbig). cbv zeta in Hsmall, Hbig.
  set (sz := Z.of_N (N.size m)) in *.
  destruct (Z_le_gt_dec (sz - 53) 0) as [Hk|Hk].
  - rewrite (Hsmall Hk). apply rnd64_small_int.
    destruct (N.eq_dec m 0) as [->|Hm0]; [reflexivity|].
    pose proof (size_bounds m Hm0) as (_ & Hlt). fold sz in Hlt.
    rewrite Z.abs_eq by lia. apply Z.lt_le_trans with (1 := Hlt). apply Z.pow_le_mono_r; lia.
  - assert (Hk0 : 0 < sz - 53) by lia. specialize (Hbig Hk0).
    set (k := sz - 53) in *. set (mz := Z.of_N m) in *.
    assert (Hm0 : (m <> 0)%N).
    { intros ->. unfold sz in Hk. cbn in Hk. lia. }
    pose proof (size_bounds m Hm0) as (Hlo & Hhi). fold sz mz in Hlo, Hhi.
    assert (Hmag : mag radix2 (IZR mz) = sz :> Z).
    { apply mag_unique_pos. rewrite <- !(IZR_Zpower radix2) by lia. split; [apply IZR_le|apply IZR_lt]; assumption. }
    assert (Hcexp : cexp radix2 (FLT_exp (-1074) 53) (IZR mz) = k).
    { unfold cexp. rewrite Hmag. unfold FLT_exp, k. lia. }
    assert (P2k : 0 < 2 ^ k) by (apply Z.pow_pos_nonneg; lia).
    set (q := mz / 2 ^ k) in *. set (r := mz mod 2 ^ k) in *.
    assert (Hdm : mz = q * 2 ^ k + r) by (unfold q, r; pose proof (Z.div_mod mz (2 ^ k)); lia).
    assert (Hr : 0 <= r < 2 ^ k) by (unfold r; apply Z.mod_pos_bound; exact P2k).
    assert (H2k : (IZR (2 ^ k) = bpow radix2 k)%R) by (rewrite <- (IZR_Zpower radix2) by lia; reflexivity).
    assert (Hsm : (scaled_mantissa radix2 (FLT_exp (-1074) 53) (IZR mz) = IZR q + IZR r / IZR (2 ^ k))%R).
    { unfold scaled_mantissa. rewrite Hcexp, Hdm, plus_IZR, mult_IZR, H2k, bpow_opp.
      field. apply Rgt_not_eq, bpow_gt_0. }
    assert (Hfr : (0 <= IZR r / IZR (2 ^ k) < 1)%R).
    { assert (0 < IZR (2 ^ k))%R by (apply IZR_lt; exact P2k).
      split.
      - apply Rmult_le_pos; [apply IZR_le; lia|]. apply Rlt_le, Rinv_0_lt_compat. assumption.
      - apply (Rmult_lt_reg_r (IZR (2 ^ k))); [assumption|]. unfold Rdiv. rewrite Rmult_assoc, Rinv_l, Rmult_1_r, Rmult_1_l by lra.
        apply IZR_lt. lia. }
    assert (Hfloor : Zfloor (IZR q + IZR r / IZR (2 ^ k)) = q).
    { apply Zfloor_imp. rewrite plus_IZR. lra. }
    assert (Hhalf : (IZR r / IZR (2 ^ k) = IZR r * / 2 * / IZR (2 ^ (k - 1)))%R).
    { replace (2 ^ k) with (2 * 2 ^ (k - 1)).
      - rewrite mult_IZR. field. apply Rgt_not_eq. apply IZR_lt. apply Z.pow_pos_nonneg; lia.
      - rewrite <- Z.pow_succ_r by lia. f_equal. lia. }
    set (h := 2 ^ (k - 1)) in *.
    assert (Ph : (0 < IZR h)%R) by (apply IZR_lt; apply Z.pow_pos_nonneg; lia).
    unfold round. rewrite Hsm, Hcexp. unfold F2R. cbn [Fnum Fexp].
    rewrite Hbig, mult_IZR, <- H2k. f_equal. f_equal.
    unfold ZnearestE, Znearest. rewrite Hfloor.
    replace (IZR q + IZR r / IZR (2 ^ k) - IZR q)%R with (IZR r / IZR (2 ^ k))%R by ring.
    assert (Hcmp : Rcompare (IZR r / IZR (2 ^ k)) (/ 2) = (r ?= h)).
    { rewrite Hhalf. destruct (Z.compare_spec r h) as [He|Hl|Hg].
      - apply Rcompare_Eq. rewrite He. field. lra.
      - apply Rcompare_Lt. apply IZR_lt in Hl.
        apply (Rmult_lt_reg_r (IZR h)); [exact Ph|]. rewrite !Rmult_assoc, Rinv_l by lra. lra.
      - apply Rcompare_Gt. apply IZR_lt in Hg.
        apply (Rmult_lt_reg_r (IZR h)); [exact Ph|]. rewrite !Rmult_assoc, Rinv_l by lra. lra. }
    rewrite Hcmp.
    assert (Hceil : 0 < r -> Zceil (IZR q + IZR r / IZR (2 ^ k)) = q + 1).
    { intros Hr0. apply Zceil_imp. replace (q + 1 - 1) with q by ring. rewrite plus_IZR.
      assert (0 < IZR r / IZR (2 ^ k))%R.
      { apply Rmult_lt_0_compat; [apply IZR_lt; exact Hr0|]. apply Rinv_0_lt_compat. apply IZR_lt. exact P2k. }
      lra. }
    assert (Hh0 : 0 < h) by (apply Z.pow_pos_nonneg; lia).
    destruct (Z.compare_spec r h) as [He|Hl|Hg].
    + rewrite Z.negb_even. assert (E1 : (h <? r) = false) by (apply Z.ltb_ge; lia).
      assert (E2 : (r =? h) = true) by (apply Z.eqb_eq; exact He). rewrite E1, E2. cbn [orb andb].
      destruct (Z.odd q); [apply Hceil; lia|reflexivity].
    + assert (E1 : (h <? r) = false) by (apply Z.ltb_ge; lia).
      assert (E2 : (r =? h) = false) by (apply Z.eqb_neq; lia). rewrite E1, E2. reflexivity.
    + assert (E1 : (h <? r) = true) by (apply Z.ltb_lt; lia). rewrite E1. cbn [orb]. apply Hceil. lia.
Qed.

(* the two models of gdsii_real_to_double denote the same number, for every 64-bit pattern:
   B2R (gds_real_to_b64 real) = +- round53(M) * 2^k with (neg, round53 M, k) = gds_to_double_dy real *)
Theorem gds_real_models_agree_lemma real :
  (real < 2 ^ 64)%N ->
  let '(neg, m, k) := gds_to_double_dy real in
  B2R64 (gds_real_to_b64 real) = ((if neg then -1 else 1) * (IZR (Z.of_N m) * bpow radix2 k))%R.
Proof.
  intros Hr. pose proof (gds_real_to_b64_correct_lemma real Hr) as H.
  unfold gds_to_double_dy. destruct (gds_decode_dy real) as ((neg & M) & k). cbv zeta in H.
  destruct H as (_ & R & _). rewrite R, rnd64_round53_lemma. reflexivity.
Qed.
