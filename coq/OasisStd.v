(* The STANDARD PROPERTIES of Library::write_oas (C04 / C02, writer side) - unit oas_std.
     Library::write_oas       src/library.cpp   the three blocks guarded by
                                                  OASIS_CONFIG_PROPERTY_TOP_LEVEL / _BOUNDING_BOX / _MAX_COUNTS before the
                                                  library's PROPERTY records are written, and the block guarded by
                                                  OASIS_CONFIG_PROPERTY_BOUNDING_BOX in the CELLNAME loop
     max_string_length        src/library.cpp   (static)
     Library::top_level       src/library.cpp   with Cell::get_dependencies(false, map) of src/cell.cpp
     Cell::bounding_box(cache)                  = BBox.cell_query (C09), one shared cache over the CELLNAME loop
     FlexPath::to_polygons    src/flexpath.cpp  only for a spine of two points on an axis-parallel line, no offset:
                                                  the initial and the end cap (flush / half-width / extended)
     set_property / remove_property  src/property.cpp  = PropList.set_property / PropList.spec_remove (C20:
                                                  remove_property_fixed_lemma, the tree after b762f5e)

   write_oas does NOT take the properties away again after the file is closed: the library keeps them, and the next
   call removes every entry of the same name before it attaches the new one ([rm] then [set_property ... true]).  So
   the model is a pre-pass [attach_std] on the library, and
        write_oas_model_std cfg f src l  :=  write_oas_model cfg (attach_std f src l)       BY DEFINITION:
   everything proved about write_oas_model (OasisWriteProofs.v) applies to the file with standard properties as soon as
   attach_std f src l is a well-formed library (OasisStdProofs.attach_std_ok_lemma).  [lib_after_write] is the library
   the call leaves behind (the second call starts from it).

   Inputs beyond the library on the grid (OasisWrite.wlib), record [std_src]:
     ss_kinds    for every cell, for every reference in order: Name-typed, or Cell-typed with the Cell object it points
                 to (a cell of the library by index, or a Cell object OUTSIDE the library by index into ss_outside);
                 the wlib only knows the name that is written.
     ss_outside  the Cell objects outside the library that Cell-typed references point to (their geometry enters the
                 bounding boxes; the covered subset gives them no references of their own).
     ss_den      D: every coordinate field of the library given to attach_std is a NUMERATOR over D in grid units
                 (the double the C++ holds, times scaling, is n / D exactly).  The grid value the writer stores is
                 llround(n / D) ([lower_lib]); Cell::bounding_box works on the unrounded values and write_oas rounds
                 the four box values afterwards ([box_values]).  D = 1 is the library on the grid of OasisWrite.v.

   Covered subset of the BOUNDING_BOX part ([box_covered]): Cell-typed references are quarter turns (rf_quarter = Some m,
   so Reference::bounding_box takes the corner route and never the convex hull) and point to LATER cells of the library
   or to outside cells; paths have at most one point (EmptyPath: no outline) or two points on an axis-parallel line.
   Anything else is skipped by the box functions and reported by [box_covered] = false (the driver prints it; the harness
   never sets the flag on such a library).  MAX_COUNTS and TOP_LEVEL have no such restriction.
   Outside the model, seen on the real code (unit report): the max-counts pass runs BEFORE FlexPath::remove_overlapping_points
   (called by to_oas / to_polygons later in the same call), so a spine with repeated points is counted with them on the first
   call only (the model takes the cleaned spine, as OasisWrite.v does); for D <> 1 the explicit repetition kinds must stay on
   the grid (oasis_write_repetition rounds DIFFERENCES of explicit offsets, lower_rep rounds every offset) and a lattice
   spacing in (-1/2, 0) grid steps is written through the sign test on the unrounded value; an outside Cell object named like
   a library cell shares its GeometryInfo cache entry (the cache is keyed by name; the trees here are keyed by object);
   Reference::repeat_and_transform multiplies by libm's cos / sin of the rotation (cos(pi / 2) = 6e-17), the model by the
   exact 0 and +-1 of a quarter turn: the same on the grid, but off the grid a box corner exactly half a step between two
   grid points is rounded by the sign of that error under a rotated Cell-typed reference (15 of 16000 cases of a thorough run;
   the harness keeps those references unrotated in its off-grid bounding-box cases).
   Definitions only. *)
From Coq Require Import QArith Qround.
Require Import Base Generated OasisInt GdsReal OasisReal OasisPlist Table PropList OasisSpec OasisWrite.
Require BBox Repetition BBoxRepLink.
Local Open Scope N_scope.

(* ------------------------------------------------------------------ the names (src/property.cpp) *)
(* "S_MAX_SIGNED_INTEGER_WIDTH" *)
Definition s_max_int_size_name : list N :=
  [83; 95; 77; 65; 88; 95; 83; 73; 71; 78; 69; 68; 95; 73; 78; 84; 69; 71; 69; 82; 95; 87; 73; 68; 84; 72].
(* "S_MAX_UNSIGNED_INTEGER_WIDTH" *)
Definition s_max_uint_size_name : list N :=
  [83; 95; 77; 65; 88; 95; 85; 78; 83; 73; 71; 78; 69; 68; 95; 73; 78; 84; 69; 71; 69; 82; 95; 87; 73; 68; 84; 72].
(* "S_MAX_STRING_LENGTH" *)
Definition s_max_string_size_name : list N := [83; 95; 77; 65; 88; 95; 83; 84; 82; 73; 78; 71; 95; 76; 69; 78; 71; 84; 72].
(* "S_POLYGON_MAX_VERTICES" *)
Definition s_max_polygon_name : list N :=
  [83; 95; 80; 79; 76; 89; 71; 79; 78; 95; 77; 65; 88; 95; 86; 69; 82; 84; 73; 67; 69; 83].
(* "S_PATH_MAX_VERTICES" *)
Definition s_max_path_name : list N := [83; 95; 80; 65; 84; 72; 95; 77; 65; 88; 95; 86; 69; 82; 84; 73; 67; 69; 83].
(* "S_TOP_CELL" *)
Definition s_top_level_name : list N := [83; 95; 84; 79; 80; 95; 67; 69; 76; 76].
(* "S_BOUNDING_BOXES_AVAILABLE" *)
Definition s_bounding_box_available_name : list N :=
  [83; 95; 66; 79; 85; 78; 68; 73; 78; 71; 95; 66; 79; 88; 69; 83; 95; 65; 86; 65; 73; 76; 65; 66; 76; 69].
(* "S_BOUNDING_BOX" *)
Definition s_bounding_box_name : list N := [83; 95; 66; 79; 85; 78; 68; 73; 78; 71; 95; 66; 79; 88].

(* ------------------------------------------------------------------ flags and the extra inputs *)
Record std_flags := mkStd {
  sf_max_counts : bool;      (* OASIS_CONFIG_PROPERTY_MAX_COUNTS *)
  sf_top_level : bool;       (* OASIS_CONFIG_PROPERTY_TOP_LEVEL *)
  sf_bbox : bool }.          (* OASIS_CONFIG_PROPERTY_BOUNDING_BOX *)

(* what a Reference holds: `name` (ReferenceType::Name) or `cell` (ReferenceType::Cell); a Cell* is the object it
   points to *)
Inductive rtarget := RT_name | RT_in (i : nat) | RT_out (j : nat).
Record std_src := mkSrc { ss_den : positive; ss_kinds : list (list rtarget); ss_outside : list wcell }.

Definition rtarget_eqb (a b : rtarget) : bool :=
  match a, b with
  | RT_name, RT_name => true
  | RT_in i, RT_in j => Nat.eqb i j
  | RT_out i, RT_out j => Nat.eqb i j
  | _, _ => false
  end.

(* ------------------------------------------------------------------ remove_property(.., name, true); set_property(.., true) *)
Definition rm (ps : wprops) (n : list N) : wprops := fst (spec_remove ps n true).
Definition reset_property (ps : wprops) (n : list N) (v : value) : wprops := set_property (rm ps n) n v true.

(* ------------------------------------------------------------------ max_string_length (static, library.cpp) *)
Definition nlen {A} (s : list A) : N := N.of_nat (length s).           (* strlen / count *)
Definition take_max (result len : N) : N := if result <? len then len else result.   (* if (len > result) result = len; *)

Fixpoint msl_values (vs : list value) (result : N) : N :=
  match vs with
  | [] => result
  | v :: t => msl_values t (match v with VStr s => take_max result (nlen s) | _ => result end)
  end.
Fixpoint msl_from (ps : wprops) (result : N) : N :=
  match ps with
  | [] => result
  | p :: t => msl_from t (msl_values (snd p) (take_max result (nlen (fst p))))
  end.
Definition max_string_length (ps : wprops) : N := msl_from ps 0.

(* ------------------------------------------------------------------ the "max counts" pass *)
Record counts := mkCounts { mc_string : N; mc_polygon : N; mc_path : N }.
Definition see_string (m : counts) (len : N) : counts := mkCounts (take_max (mc_string m) len) (mc_polygon m) (mc_path m).
Definition see_polygon (m : counts) (len : N) : counts := mkCounts (mc_string m) (take_max (mc_polygon m) len) (mc_path m).
Definition see_path (m : counts) (len : N) : counts := mkCounts (mc_string m) (mc_polygon m) (take_max (mc_path m) len).

(* len = max_string_length(poly->properties); ... len = poly->point_array.count; ... *)
Definition mc_poly (m : counts) (p : wpoly) : counts :=
  see_polygon (see_string m (max_string_length (py_props p))) (nlen (py_pts p)).

(* for (ne = 0; ne < num_elements; ne++, el++) { element_center(el, tmp_array); len = tmp_array.count; ... }
   element_center APPENDS the centre line of the element (for the covered paths: one point per spine point) and
   `tmp_array.count = 0` stands before the loop, not inside it: [tmp] keeps growing *)
Fixpoint mc_elements (n : N) (els : list wpel) (tmp : N) (m : counts) : counts :=
  match els with
  | [] => m
  | _ :: t => let tmp' := (tmp + n) mod two64 in mc_elements n t tmp' (see_path m tmp')
  end.
(* simple_path is true in the covered subset *)
Definition mc_flexpath (m : counts) (h : wpath) : counts :=
  let m1 := see_string m (max_string_length (ph_props h)) in
  if 1 <? nlen (ph_pts h) then mc_elements (nlen (ph_pts h)) (ph_els h) 0 m1 else m1.
Definition mc_ref (m : counts) (r : wref) : counts := see_string m (max_string_length (rf_props r)).
Definition mc_label (m : counts) (t : wlabel) : counts :=
  see_string (see_string m (nlen (lb_text t))) (max_string_length (lb_props t)).
Definition mc_cell (m : counts) (c : wcell) : counts :=
  let m1 := see_string (see_string m (nlen (cl_name c))) (max_string_length (cl_props c)) in
  let m2 := fold_left mc_poly (cl_polys c) m1 in
  let m3 := fold_left mc_flexpath (cl_paths c) m2 in
  let m4 := fold_left mc_ref (cl_refs c) m3 in
  fold_left mc_label (cl_labels c) m4.
(* string_max = strlen(s_max_uint_size_property_name); polygon_max = 0; path_max = 0;
   len = max_string_length(properties); ... for every cell ... *)
Definition max_counts (lprops : wprops) (cells : list wcell) : counts :=
  fold_left mc_cell cells (see_string (mkCounts (nlen s_max_uint_size_name) 0 0) (max_string_length lprops)).

Definition attach_max_counts (lprops : wprops) (cells : list wcell) : wprops :=
  let m := max_counts lprops cells in
  let p1 := reset_property lprops s_max_int_size_name (VUInt 8) in            (* sizeof(int64_t) *)
  let p2 := reset_property p1 s_max_uint_size_name (VUInt 8) in               (* sizeof(uint64_t) *)
  let p3 := reset_property p2 s_max_string_size_name (VUInt (mc_string m)) in
  let p4 := reset_property p3 s_max_polygon_name (VUInt (mc_polygon m)) in
  reset_property p4 s_max_path_name (VUInt (mc_path m)).

(* ------------------------------------------------------------------ Library::top_level (cells; no RawCell in the subset) *)
Definition wcell0 : wcell := mkWCell [] [] [] [] [] [].
(* cell->name of the object a Cell* points to *)
Definition target_name (cells outs : list wcell) (t : rtarget) : list N :=
  match t with
  | RT_in i => cl_name (nth i cells wcell0)
  | RT_out j => cl_name (nth j outs wcell0)
  | RT_name => []
  end.
(* Map<Cell*> keyed by the name: set overwrites, get of an absent key is NULL; only set and get are used, so the map is
   the list of its set calls, newest first *)
Definition depmap : Type := list (list N * rtarget).
Definition dep_set (d : depmap) (k : list N) (c : rtarget) : depmap := (k, c) :: d.
Fixpoint dep_get (d : depmap) (k : list N) : option rtarget :=
  match d with
  | [] => None
  | (k', c) :: t => if name_eqb k' k then Some c else dep_get t k
  end.
(* Cell::get_dependencies(false, result):
     for each reference: if (type == ReferenceType::Cell) result.set(cell->name, cell); *)
Fixpoint get_dependencies (cells outs : list wcell) (ks : list rtarget) (d : depmap) : depmap :=
  match ks with
  | [] => d
  | k :: t => get_dependencies cells outs t
                (match k with RT_name => d | _ => dep_set d (target_name cells outs k) k end)
  end.
(* first loop of top_level over cell_array *)
Definition all_dependencies (cells outs : list wcell) (kinds : list (list rtarget)) : depmap :=
  fold_left (fun d ks => get_dependencies cells outs ks d) kinds [].
(* second loop: if (cell_deps.get(cell->name) != cell) top_cells.append(cell); *)
Fixpoint top_from (d : depmap) (i : nat) (l : list wcell) : list (list N) :=
  match l with
  | [] => []
  | c :: t =>
      (match dep_get d (cl_name c) with
       | Some p => if rtarget_eqb p (RT_in i) then [] else [cl_name c]
       | None => [cl_name c]
       end) ++ top_from d (S i) t
  end.
Definition top_cells (src : std_src) (cells : list wcell) : list (list N) :=
  top_from (all_dependencies cells (ss_outside src) (ss_kinds src)) 0 cells.

(* remove_property(properties, "S_TOP_CELL", true);
   for (i = 0; i < top_cells.count; i++) set_property(properties, "S_TOP_CELL", top_cells[i]->name, true); *)
Definition attach_top_level (lprops : wprops) (tops : list (list N)) : wprops :=
  fold_left (fun ps nm => set_property ps s_top_level_name (VStr nm) true) tops (rm lprops s_top_level_name).

(* ------------------------------------------------------------------ llround(x * scaling) on exact values *)
(* nearest integer, halfway cases away from zero *)
Definition llround (x : Q) : Z :=
  if Qle_bool 0 x then Qfloor (x + (1 # 2)) else (- Qfloor (- x + (1 # 2)))%Z.
Definition qd (D : positive) (z : Z) : Q := (z # D)%Q.
Definition zr (D : positive) (z : Z) : Z := llround (qd D z).
Definition zrp (D : positive) (p : pt) : pt := (zr D (fst p), zr D (snd p)).
Definition nr (D : positive) (n : N) : N := Z.to_N (zr D (Z.of_N n)).

(* the library the writer stores: every coordinate field rounded on its own *)
Definition lower_rep (D : positive) (r : wrep) : wrep :=
  match r with
  | WNone => WNone
  | WRect c rw sx sy => WRect c rw (zr D sx) (zr D sy)
  | WReg c rw v1 v2 => WReg c rw (zrp D v1) (zrp D v2)
  | WExpl l => WExpl (map (zrp D) l)
  | WExplX l => WExplX (map (zr D) l)
  | WExplY l => WExplY (map (zr D) l)
  end.
Definition lower_end (D : positive) (e : wend) : wend :=
  match e with WE_ext es ee => WE_ext (zr D es) (zr D ee) | _ => e end.
Definition lower_pel (D : positive) (el : wpel) : wpel :=
  mkWPel (pe_layer el) (pe_type el) (nr D (pe_hw el)) (lower_end D (pe_end el)).
Definition lower_poly (D : positive) (p : wpoly) : wpoly :=
  mkWPoly (py_layer p) (py_type p) (map (zrp D) (py_pts p)) (lower_rep D (py_rep p)) (py_props p).
Definition lower_path (D : positive) (h : wpath) : wpath :=
  mkWPath (map (lower_pel D) (ph_els h)) (map (zrp D) (ph_pts h)) (lower_rep D (ph_rep h)) (ph_props h).
Definition lower_ref (D : positive) (r : wref) : wref :=
  mkWRef (rf_name r) (zr D (rf_x r)) (zr D (rf_y r)) (rf_mag r) (rf_rot r) (rf_quarter r) (rf_flip r)
         (lower_rep D (rf_rep r)) (rf_props r).
Definition lower_label (D : positive) (t : wlabel) : wlabel :=
  mkWLabel (lb_text t) (lb_layer t) (lb_type t) (zr D (lb_x t)) (zr D (lb_y t)) (lower_rep D (lb_rep t)) (lb_props t).
Definition lower_cell (D : positive) (c : wcell) : wcell :=
  mkWCell (cl_name c) (map (lower_poly D) (cl_polys c)) (map (lower_path D) (cl_paths c)) (map (lower_ref D) (cl_refs c))
          (map (lower_label D) (cl_labels c)) (cl_props c).

(* ------------------------------------------------------------------ the geometry Cell::bounding_box sees (exact, unrounded) *)
Definition qpt (D : positive) (p : pt) : BBox.pt := (qd D (fst p), qd D (snd p)).
Definition rep_q (D : positive) (r : wrep) : Repetition.rep :=
  match r with
  | WNone => Repetition.RNone
  | WRect c rw sx sy => Repetition.RRect c rw (qd D sx) (qd D sy)
  | WReg c rw v1 v2 => Repetition.RReg c rw (qpt D v1) (qpt D v2)
  | WExpl l => Repetition.RExpl (map (qpt D) l)
  | WExplX l => Repetition.RExplX (map (qd D) l)
  | WExplY l => Repetition.RExplY (map (qd D) l)
  end.
(* (get_offsets, get_extrema) as C11's model computes them *)
Definition brep (D : positive) (r : wrep) : option BBox.rep := BBoxRepLink.orep_of (rep_q D r).

Definition bpoly (D : positive) (p : wpoly) : BBox.polygon := BBox.mkPoly (map (qpt D) (py_pts p)) (brep D (py_rep p)).
Definition blabel (D : positive) (t : wlabel) : BBox.label := BBox.mkLabel (qpt D (lb_x t, lb_y t)) (brep D (lb_rep t)).

(* FlexPath::to_polygons for a spine p0 -> p1 on an axis-parallel line, offset 0, half width hw:
     t0 = (p1 - p0) normalised = (s, 0) or (0, s);  n0 = t0.ortho() = (-t0.y, t0.x);
     cap_l = p + n0 * hw;  cap_r = p - n0 * hw
   initial cap (right_curve):   Flush:  cap_l; [hw != 0] cap_r
     HalfWidth / Extended (extension = hw / end_extensions.u):
                                [extension > 0] cap_l;  cap_l - extension * t0;  [hw != 0] cap_r - extension * t0;
                                [extension > 0] cap_r
   end cap (left_curve, appended in reverse):  the same at p1 with + extension * t0 (end_extensions.v) *)
Definition qsign (a b : Z) : Q := if (a <? b)%Z then 1%Q else (-1)%Q.
(* [dir] = -1 for the initial cap (the extension moves against t0), +1 for the end cap *)
Definition cap_points (p t0 n0 : BBox.pt) (hw ext dir : Q) (flush : bool) : list BBox.pt :=
  let cap_l : BBox.pt := (fst p + fst n0 * hw, snd p + snd n0 * hw)%Q in
  let cap_r : BBox.pt := (fst p - fst n0 * hw, snd p - snd n0 * hw)%Q in
  let sh (c : BBox.pt) : BBox.pt := (fst c + dir * ext * fst t0, snd c + dir * ext * snd t0)%Q in
  let wide := negb (Qeq_bool hw 0) in                         (* half_widths[..] != 0 *)
  if flush then cap_l :: (if wide then [cap_r] else [])
  else
    let pos := BBox.qlt 0 ext in                                (* extension > 0 *)
    (if pos then [cap_l] else []) ++ sh cap_l :: (if wide then [sh cap_r] else []) ++ (if pos then [cap_r] else []).
Definition end_is_flush (e : wend) : bool := match e with WE_flush => true | _ => false end.
Definition end_exts (D : positive) (hw : Q) (e : wend) : Q * Q :=
  match e with
  | WE_ext es ee => (qd D es, qd D ee)
  | _ => (hw, hw)
  end.
(* one element; None: the spine is not two distinct points on an axis-parallel line *)
Definition segment_outline (D : positive) (a b : pt) (el : wpel) : option (list BBox.pt) :=
  let hw := qd D (Z.of_N (pe_hw el)) in
  let e := end_exts D hw (pe_end el) in
  let fl := end_is_flush (pe_end el) in
  let mk (t0 : BBox.pt) : list BBox.pt :=
    let n0 : BBox.pt := ((- snd t0)%Q, fst t0) in
    cap_points (qpt D a) t0 n0 hw (fst e) (-1)%Q fl ++ rev (cap_points (qpt D b) t0 n0 hw (snd e) 1%Q fl) in
  if (snd a =? snd b)%Z && negb (fst a =? fst b)%Z then Some (mk (qsign (fst a) (fst b), 0%Q))
  else if (fst a =? fst b)%Z && negb (snd a =? snd b)%Z then Some (mk (0%Q, qsign (snd a) (snd b)))
  else None.

(* the outline polygons of one FlexPath (each carries the path's repetition); second component: covered *)
Definition bpath (D : positive) (h : wpath) : list BBox.polygon * bool :=
  match ph_pts h with
  | [] | [_] => ([], true)                                  (* EmptyPath: to_polygons appends nothing *)
  | [a; b] =>
      fold_right (fun el acc =>
                    match segment_outline D a b el with
                    | Some o => (BBox.mkPoly o (brep D (ph_rep h)) :: fst acc, snd acc)
                    | None => (fst acc, false)
                    end) ([], true) (ph_els h)
  | _ => ([], false)
  end.

(* cos / sin of m * pi / 2 *)
Definition quarter_cs (m : Z) : Q * Q :=
  match (m mod 4)%Z with
  | 0%Z => (1, 0)%Q
  | 1%Z => (0, 1)%Q
  | 2%Z => (-1, 0)%Q
  | _ => (0, -1)%Q
  end.
Definition bplacement (D : positive) (r : wref) (m : Z) : BBox.placement :=
  BBox.mkPl (qpt D (rf_x r, rf_y r)) (fst (quarter_cs m)) (snd (quarter_cs m)) true
            (BBox.q_of_bits (rf_mag r)) (rf_flip r) (brep D (rf_rep r)).

(* the cells as trees (BBox.cell carries its children): library cell i is named i, outside cell j is named n + j *)
Definition out_tree (D : positive) (n : nat) (j : nat) (c : wcell) : BBox.cell * bool :=
  let ps := map (bpath D) (cl_paths c) in
  (BBox.Cell (N.of_nat (n + j)) (map (bpoly D) (cl_polys c)) (map (blabel D) (cl_labels c)) (concat (map fst ps)) [],
   forallb snd ps && match cl_refs c with [] => true | _ => false end).
Fixpoint out_trees (D : positive) (n : nat) (j : nat) (l : list wcell) : list (BBox.cell * bool) :=
  match l with [] => [] | c :: t => out_tree D n j c :: out_trees D n (S j) t end.

(* the Cell object a reference of library cell [i] points to; [later] = the trees of cells i+1, i+2, ... *)
Definition ref_child (i : nat) (later outs : list (BBox.cell * bool)) (k : rtarget) : option (BBox.cell * bool) :=
  match k with
  | RT_name => None
  | RT_in t => if Nat.ltb i t then nth_error later (t - i - 1) else None
  | RT_out j => nth_error outs j
  end.
Fixpoint brefs (D : positive) (i : nat) (later outs : list (BBox.cell * bool)) (rs : list wref) (ks : list rtarget)
  : list (BBox.placement * BBox.cell) * bool :=
  match rs with
  | [] => ([], true)
  | r :: rt =>
      let k := hd RT_name ks in
      let '(rest, ok) := brefs D i later outs rt (tl ks) in
      match k with
      | RT_name => (rest, ok)                (* Reference::bounding_box: if (type != ReferenceType::Cell) return; *)
      | _ =>
          match ref_child i later outs k, rf_quarter r with
          | Some (ch, okc), Some m => ((bplacement D r m, ch) :: rest, ok && okc)
          | _, _ => (rest, false)
          end
      end
  end.
Definition lib_tree (D : positive) (i : nat) (c : wcell) (ks : list rtarget) (later outs : list (BBox.cell * bool))
  : BBox.cell * bool :=
  let ps := map (bpath D) (cl_paths c) in
  let '(rs, okr) := brefs D i later outs (cl_refs c) ks in
  (BBox.Cell (N.of_nat i) (map (bpoly D) (cl_polys c)) (map (blabel D) (cl_labels c)) (concat (map fst ps)) rs,
   forallb snd ps && okr).
Fixpoint lib_trees (D : positive) (i : nat) (cells : list wcell) (kinds : list (list rtarget)) (outs : list (BBox.cell * bool))
  : list (BBox.cell * bool) :=
  match cells with
  | [] => []
  | c :: t =>
      let later := lib_trees D (S i) t (tl kinds) outs in
      lib_tree D i c (hd [] kinds) later outs :: later
  end.
Definition std_trees (src : std_src) (cells : list wcell) : list (BBox.cell * bool) :=
  lib_trees (ss_den src) 0 cells (ss_kinds src) (out_trees (ss_den src) (length cells) 0 (ss_outside src)).
Definition box_covered (src : std_src) (cells : list wcell) : bool := forallb snd (std_trees src cells).

(* the CELLNAME loop: `GeometryInfo info = cell->bounding_box(cache);` with ONE cache for all cells.  The hull routine is
   never reached on the covered subset (every placement takes the corner route): the identity stands in for it *)
Definition hull_unused (S : list BBox.pt) : list BBox.pt := S.
Fixpoint cell_boxes (trees : list BBox.cell) (ch : BBox.cache) : list BBox.box :=
  match trees with
  | [] => []
  | c :: t => let '(info, ch') := BBox.cell_query hull_unused false c ch in BBox.g_box info :: cell_boxes t ch'
  end.

(* if (info.bounding_box_min.x > info.bounding_box_max.x) { bbmin = bbmax = (0, 0) } ...
   xmin = llround(bbmin.x * scaling); ymin = ...; width = llround(bbmax.x * scaling) - xmin (uint64_t); height likewise;
   set_property(height, true); set_property(width, false); set_property(ymin, false); set_property(xmin, false);
   set_property((uint64_t)0, false)  -  the head entry ends up as [0; xmin; ymin; width; height] *)
Definition box_values (b : BBox.box) : list value :=
  let '(x0, y0, x1, y1) :=
    match b with
    | BBox.Inverted => (0, 0, 0, 0)%Q
    | BBox.Box x0 y0 x1 y1 => if BBox.qlt x1 x0 then (0, 0, 0, 0)%Q else (x0, y0, x1, y1)
    end in
  let xmin := llround x0 in
  let ymin := llround y0 in
  let width := u64z (llround x1 - xmin) in
  let height := u64z (llround y1 - ymin) in
  [VUInt 0; VInt xmin; VInt ymin; VUInt width; VUInt height].
Definition attach_bbox (c : wcell) (b : BBox.box) : wcell :=
  match box_values b with
  | [v0; v1; v2; v3; v4] =>
      let p0 := rm (cl_props c) s_bounding_box_name in
      let p1 := set_property p0 s_bounding_box_name v4 true in
      let p2 := set_property p1 s_bounding_box_name v3 false in
      let p3 := set_property p2 s_bounding_box_name v2 false in
      let p4 := set_property p3 s_bounding_box_name v1 false in
      let p5 := set_property p4 s_bounding_box_name v0 false in
      mkWCell (cl_name c) (cl_polys c) (cl_paths c) (cl_refs c) (cl_labels c) p5
  | _ => c
  end.
Fixpoint attach_bboxes (cells : list wcell) (boxes : list BBox.box) : list wcell :=
  match cells, boxes with
  | c :: t, b :: bt => attach_bbox c b :: attach_bboxes t bt
  | _, _ => cells
  end.
Definition std_boxes (src : std_src) (cells : list wcell) : list BBox.box :=
  cell_boxes (map fst (std_trees src cells)) [].

(* ------------------------------------------------------------------ the pre-pass *)
Definition attach_lib_props (f : std_flags) (src : std_src) (l : wlib) : wprops :=
  let p0 := li_props l in
  let p1 := if sf_top_level f then attach_top_level p0 (top_cells src (li_cells l)) else p0 in
  let p2 := if sf_bbox f then reset_property p1 s_bounding_box_available_name (VUInt 2) else p1 in
  if sf_max_counts f then attach_max_counts p2 (li_cells l) else p2.

(* [l]: the library with numerators over ss_den in its coordinate fields *)
Definition attach_std (f : std_flags) (src : std_src) (l : wlib) : wlib :=
  let cells := map (lower_cell (ss_den src)) (li_cells l) in
  mkWLib (li_unit l) (attach_lib_props f src l)
         (if sf_bbox f then attach_bboxes cells (std_boxes src (li_cells l)) else cells).

Definition write_oas_model_std (cfg : wcfg) (f : std_flags) (src : std_src) (l : wlib) : list N :=
  write_oas_model cfg (attach_std f src l).

(* ------------------------------------------------------------------ what the call leaves in memory *)
(* the cell properties after the CELLNAME loop: S_CELL_OFFSET attached as well (cellname_props) *)
Definition cells_after_write (cfg : wcfg) (l' : wlib) : list wcell :=
  let names := map cl_name (li_cells l') in
  let offs := cell_offsets cfg l' in
  map (fun c => mkWCell (cl_name c) (cl_polys c) (cl_paths c) (cl_refs c) (cl_labels c)
                        (cellname_props cfg c (cell_offset_of names offs (cl_name c)))) (li_cells l').
Definition with_props (c : wcell) (ps : wprops) : wcell :=
  mkWCell (cl_name c) (cl_polys c) (cl_paths c) (cl_refs c) (cl_labels c) ps.
Fixpoint zip_props (cells : list wcell) (pss : list wprops) : list wcell :=
  match cells, pss with
  | c :: t, ps :: pt => with_props c ps :: zip_props t pt
  | _, _ => cells
  end.
(* the library held after write_oas(cfg, f): the coordinate fields are untouched by the call (they keep their
   numerators over ss_den), the property lists are the ones that were written; the next call starts from it *)
Definition lib_after_write (cfg : wcfg) (f : std_flags) (src : std_src) (l : wlib) : wlib :=
  let l' := attach_std f src l in
  mkWLib (li_unit l) (li_props l') (zip_props (li_cells l) (map cl_props (cells_after_write cfg l'))).
